(* Frequent Items serialization (i64 items): round trip (C11), conformance to the cross-language
   layout (C12), the reader accepts every image the layout allows (C13), it is total and never
   reaches a panic site on any bytes (C14), and the image size is bounded by the configuration
   (C18).  The model is Model/Freq.v PART B (fc_serialize / fc_parse / fc_build / fc_deserialize);
   the table side rests on Proofs/FreqTable.v. *)
From DS Require Import Base.Prelude Base.Bytes Base.FloatBits Model.Freq Spec.FreqLayout Proofs.FreqProofs Proofs.FreqTable.
From DS Require Gen.GenFreq Gen.GenCodec.
From Coq Require Import Permutation ZifyBool ZifyNat ZifyN.
Open Scope N_scope.

Ltac splits := repeat match goal with |- _ /\ _ => split end.

(* ---------- constants and small arithmetic ---------- *)
Lemma layout_constants :
  zN GenFreq.PREAMBLE_LONGS_EMPTY = 1 /\ zN GenFreq.PREAMBLE_LONGS_NONEMPTY = 4 /\ zN GenFreq.SERIAL_VERSION = 1 /\
  zN GenCodec.FAMILY_FREQUENCY_ID = 10 /\ zN GenFreq.EMPTY_FLAG_MASK = 5 /\
  LG_MIN = 3 /\ LOAD_NUM = 3 /\ LOAD_DEN = 4.
Proof. repeat split; reflexivity. Qed.

Lemma M64_val : M64 = 2 ^ 64. Proof. reflexivity. Qed.

Lemma cap_alt lg : 3 <= lg -> 2 ^ lg / LOAD_DEN * LOAD_NUM = cap_of_lg lg.
Proof.
  intros H. rewrite (cap_val lg H), LOAD_DEN_val, LOAD_NUM_val, (pow2_split lg H).
  replace (8 * 2 ^ (lg - 3)) with ((2 * 2 ^ (lg - 3)) * 4) by lia. rewrite N.div_mul by lia. lia.
Qed.

Lemma spec_capacity_cap lg : 3 <= lg -> spec_capacity lg = cap_of_lg lg.
Proof.
  intros H. unfold spec_capacity. rewrite (cap_val lg H), (pow2_split lg H).
  replace (3 * (8 * 2 ^ (lg - 3))) with ((6 * 2 ^ (lg - 3)) * 4) by lia. apply N.div_mul. lia.
Qed.

Lemma cap_lt_len lg : 3 <= lg -> cap_of_lg lg + 1 < 2 ^ lg.
Proof. intros H. rewrite (cap_val lg H), (pow2_split lg H). pose proof (pow2_pos (lg - 3)). lia. Qed.

Lemma pow2_le_62 lg : lg <= 62 -> 2 ^ lg * 3 < M64.
Proof.
  intros H. assert (2 ^ lg <= 2 ^ 62) by (apply N.pow_le_mono_r; lia).
  change (2 ^ 62) with 4611686018427387904 in H0. unfold M64. lia.
Qed.

Lemma pow2_ge_63 lg : 63 <= lg -> M64 <= 2 ^ lg * 3.
Proof.
  intros H. assert (2 ^ 63 <= 2 ^ lg) by (apply N.pow_le_mono_r; lia).
  change (2 ^ 63) with 9223372036854775808 in H0. unfold M64. lia.
Qed.

Lemma seqN_in a n x : In x (seqN a n) <-> a <= x < a + n.
Proof.
  unfold seqN. rewrite in_map_iff. split.
  - intros (m & <- & Hin). apply in_seq in Hin. lia.
  - intros Hx. exists (N.to_nat x). split; [lia|]. apply in_seq. lia.
Qed.

(* (map_size as f64 * 0.75) as usize is three quarters of the map size: a finite sweep over the
   sixty map sizes 2^3 .. 2^62 a usize-indexed table can have *)
Lemma load_threshold_sweep : forallb (fun lg => load_threshold (2 ^ lg) =? cap_of_lg lg) (seqN 3 60) = true.
Proof. vm_compute. reflexivity. Qed.

Lemma load_threshold_cap lg : 3 <= lg <= 62 -> load_threshold (2 ^ lg) = cap_of_lg lg.
Proof.
  intros H. pose proof load_threshold_sweep as S. rewrite forallb_forall in S.
  specialize (S lg). apply N.eqb_eq. apply S. apply seqN_in. lia.
Qed.

(* flag test: the model masks with EMPTY_FLAG_MASK = 5, the specification names bits 0 and 2 *)
Lemma flag_sweep : forallb (fun f => Bool.eqb (N.land f 5 =? 0) (negb (N.testbit f 0 || N.testbit f 2))) (seqN 0 256) = true.
Proof. vm_compute. reflexivity. Qed.

Lemma flag_bits f : f < 256 -> (N.land f 5 =? 0) = negb (N.testbit f 0 || N.testbit f 2).
Proof.
  intros H. pose proof flag_sweep as S. rewrite forallb_forall in S. specialize (S f).
  apply Bool.eqb_prop. apply S. apply seqN_in. lia.
Qed.

Lemma land63 x : N.land x 63 = x mod 64.
Proof. change 63 with (N.ones 6). rewrite N.land_ones. reflexivity. Qed.

(* ---------- i64 <-> u64 ---------- *)
Definition i64_ok (z : Z) : Prop := (- 9223372036854775808 <= z < 9223372036854775808)%Z.

Lemma u64_of_i64_lt z : u64_of_i64 z < M64.
Proof. unfold u64_of_i64, zN, M64. pose proof (Z.mod_pos_bound z 18446744073709551616 ltac:(lia)). lia. Qed.

Lemma i64_of_u64_of_i64 z : i64_ok z -> i64_of_u64 (u64_of_i64 z) = z.
Proof.
  unfold i64_ok, i64_of_u64, u64_of_i64, zN, Nz. intros H.
  destruct (Z.ltb_spec z 0).
  - replace (z mod 18446744073709551616)%Z with (z + 18446744073709551616)%Z.
    2:{ symmetry. rewrite <- (Z.mod_add z 1) by lia. apply Z.mod_small. lia. }
    destruct (N.ltb_spec (Z.to_N (z + 18446744073709551616)) 9223372036854775808); lia.
  - rewrite Z.mod_small by lia.
    destruct (N.ltb_spec (Z.to_N z) 9223372036854775808); lia.
Qed.

Lemma i64_of_u64_ok n : n < M64 -> i64_ok (i64_of_u64 n).
Proof. unfold i64_ok, i64_of_u64, M64, Nz. intros H. destruct (N.ltb_spec n 9223372036854775808); lia. Qed.

Lemma spec_i64_eq n : spec_i64 n = i64_of_u64 n.
Proof. reflexivity. Qed.

Lemma spec_u64_eq z : spec_u64 z = u64_of_i64 z.
Proof. reflexivity. Qed.

(* ---------- reading 64-bit words ---------- *)
Lemma flat_map_le8_length (cs : list N) : length (flat_map (le_bytes 8) cs) = (8 * length cs)%nat.
Proof. induction cs as [|c cs IH]; cbn [flat_map length]; [reflexivity|]. rewrite app_length, le_bytes_length, IH. lia. Qed.

Lemma flat_map_map {A B C} (f : B -> list C) (g : A -> B) l : flat_map f (map g l) = flat_map (fun x => f (g x)) l.
Proof. induction l as [|x l IH]; cbn [map flat_map]; [reflexivity|]. rewrite IH. reflexivity. Qed.

Lemma read_u64s_flat : forall vs rest, Forall (fun v => v < M64) vs ->
  read_u64s (length vs) (flat_map (le_bytes 8) vs ++ rest) = Some (vs, rest).
Proof.
  induction vs as [|v vs IH]; intros rest Hall; cbn [length read_u64s flat_map]; [reflexivity|].
  inversion Hall as [|? ? Hv Hall']; subst. rewrite <- app_assoc.
  destruct (Nat.ltb_spec (length (le_bytes 8 v ++ flat_map (le_bytes 8) vs ++ rest)) 8) as [Hl|Hl].
  { rewrite app_length, le_bytes_length in Hl. lia. }
  rewrite firstn_app_exact by apply le_bytes_length.
  rewrite skipn_app_exact by apply le_bytes_length.
  rewrite IH by exact Hall'.
  rewrite le_val_le_bytes_small by (unfold M64 in Hv; change (256 ^ N.of_nat 8) with 18446744073709551616; lia).
  reflexivity.
Qed.

Lemma spec_longs_flat : forall vs rest, Forall (fun v => v < M64) vs ->
  spec_longs (length vs) (flat_map (le_bytes 8) vs ++ rest) = Some (vs, rest).
Proof.
  induction vs as [|v vs IH]; intros rest Hall; cbn [length spec_longs flat_map]; [reflexivity|].
  inversion Hall as [|? ? Hv Hall']; subst. rewrite <- app_assoc.
  destruct (Nat.ltb_spec (length (le_bytes 8 v ++ flat_map (le_bytes 8) vs ++ rest)) 8) as [Hl|Hl].
  { rewrite app_length, le_bytes_length in Hl. lia. }
  rewrite firstn_app_exact by apply le_bytes_length.
  rewrite skipn_app_exact by apply le_bytes_length.
  rewrite IH by exact Hall'.
  rewrite le_val_le_bytes_small by (unfold M64 in Hv; change (256 ^ N.of_nat 8) with 18446744073709551616; lia).
  reflexivity.
Qed.

Lemma bytes_ok_firstn n l : bytes_ok l = true -> bytes_ok (firstn n l) = true.
Proof.
  unfold bytes_ok. revert n. induction l as [|b l IH]; intros [|n] H; cbn [firstn forallb] in *; auto.
  apply andb_prop in H as [Hb Hl]. rewrite Hb, (IH n Hl). reflexivity.
Qed.

Lemma bytes_ok_skipn n l : bytes_ok l = true -> bytes_ok (skipn n l) = true.
Proof.
  unfold bytes_ok. revert n. induction l as [|b l IH]; intros [|n] H; cbn [skipn forallb] in *; auto.
  apply andb_prop in H as [Hb Hl]. apply IH. exact Hl.
Qed.

Lemma le_val_lt l n : bytes_ok l = true -> (length l <= n)%nat -> le_val l < 256 ^ N.of_nat n.
Proof.
  intros Hb Hl. pose proof (le_val_bound l Hb) as B.
  assert (256 ^ N.of_nat (length l) <= 256 ^ N.of_nat n) by (apply N.pow_le_mono_r; lia). lia.
Qed.

Lemma skipn_add {A} (l : list A) n m : skipn n (skipn m l) = skipn (m + n) l.
Proof.
  revert l. induction m as [|m IH]; intros l; [reflexivity|].
  destruct l as [|x l]; cbn [skipn Nat.add]; [destruct n; reflexivity|]. apply IH.
Qed.

Lemma read_u64s_ok : forall n bs vs rest, read_u64s n bs = Some (vs, rest) ->
  length vs = n /\ (length bs = 8 * n + length rest)%nat /\ rest = skipn (8 * n)%nat bs /\
  (bytes_ok bs = true -> Forall (fun v => v < M64) vs).
Proof.
  induction n as [|n IH]; intros bs vs rest H; cbn [read_u64s] in H.
  - inversion H; subst. split; [reflexivity|]. split; [cbn [length]; lia|]. split; [reflexivity|]. intros _. constructor.
  - assert (Hw : bytes_ok bs = true -> le_val (firstn 8 bs) < M64).
    { intros Hok. unfold M64. change 18446744073709551616 with (256 ^ N.of_nat 8).
      apply le_val_lt; [apply bytes_ok_firstn, Hok|rewrite firstn_length; lia]. }
    destruct (Nat.ltb_spec (length bs) 8) as [|Hl]; [discriminate|].
    destruct (read_u64s n (skipn 8 bs)) as [[vs' rest']|] eqn:E; [|discriminate].
    inversion H; subst. apply IH in E as (Hlen & Hb & Hr & Hall). rewrite skipn_length in Hb.
    split; [cbn [length]; lia|]. split; [lia|]. split.
    + rewrite Hr, skipn_add. f_equal. lia.
    + intros Hok. constructor; [exact (Hw Hok)|apply Hall, bytes_ok_skipn, Hok].
Qed.

(* ---------- with_lg_map_sizes ---------- *)
Definition fresh_fc (lgm lgc : N) : fc :=
  let m := rp_new (N.max lgc LG_MIN) in
  mkFc (N.max lgm LG_MIN) (rp_thr m) 0 0 (N.min SAMPLE_SIZE (cap_of_lg (N.max lgm LG_MIN))) m.

Lemma with_lg_ok lgm lgc : lgc <= lgm -> lgm <= 62 -> fc_with_lg lgm lgc = Ok (fresh_fc lgm lgc).
Proof.
  intros H1 H2. unfold fc_with_lg, fresh_fc. rewrite LG_MIN_val, LOAD_NUM_val.
  destruct (N.ltb_spec (N.max lgm 3) (N.max lgc 3)); [lia|].
  pose proof (pow2_le_62 (N.max lgm 3) ltac:(lia)).
  destruct (N.leb_spec M64 (2 ^ N.max lgm 3 * 3)); [lia|]. reflexivity.
Qed.

Lemma with_lg_not_stuck lgm lgc : lgc <= lgm -> lgm <= 62 -> fc_with_lg lgm lgc <> Stuck.
Proof. intros H1 H2. rewrite (with_lg_ok lgm lgc H1 H2). discriminate. Qed.

Lemma fresh_cur_cap lgm lgc : lgc <= lgm -> lgm <= 62 -> fc_cur_cap (fresh_fc lgm lgc) = cap_of_lg (N.max lgc LG_MIN).
Proof.
  intros H1 H2. unfold fresh_fc, rp_new. cbn [fc_cur_cap rp_thr]. apply load_threshold_cap. rewrite LG_MIN_val. lia.
Qed.

(* ---------- the update loop of deserialize ---------- *)
Definition cs_add0 (cs : counters) (k : Z) (v : N) : counters := if v =? 0 then cs else cs_add cs k v.
Fixpoint cs_load (cs : counters) (items : list Z) (values : list N) : counters :=
  match items, values with
  | k :: items', v :: values' => cs_load (cs_add0 cs k v) items' values'
  | _, _ => cs
  end.

Lemma put_active_le t k h v : rp_active (rp_adjust_or_put t k h v) <= rp_active t + 1.
Proof.
  unfold rp_adjust_or_put. destruct (rp_find _ _ _ _ _ _) as [p d].
  destruct (nthN (rp_tab t) p None); cbn [rp_active]; lia.
Qed.

Lemma put_lg t k h v : rp_lg (rp_adjust_or_put t k h v) = rp_lg t /\ rp_thr (rp_adjust_or_put t k h v) = rp_thr t.
Proof.
  unfold rp_adjust_or_put. destruct (rp_find _ _ _ _ _ _) as [p d].
  destruct (nthN (rp_tab t) p None); cbn [rp_lg rp_thr]; split; reflexivity.
Qed.

(* one update that neither resizes nor purges *)
Lemma update_plain c k h w : w <> 0 -> rp_active (fc_map c) + 1 <= fc_cur_cap c ->
  fc_update c k h w =
  Ok (mkFc (fc_lg_max c) (fc_cur_cap c) (fc_offset c) (fc_weight c + w) (fc_sample_size c) (rp_adjust_or_put (fc_map c) k h w), []).
Proof.
  intros Hw Hcap. unfold fc_update. destruct (N.eqb_spec w 0); [contradiction|].
  unfold fc_resize_or_purge, fc_num_active. cbn [fc_cur_cap fc_map].
  pose proof (put_active_le (fc_map c) k h w).
  destruct (N.ltb_spec (fc_cur_cap c) (rp_active (rp_adjust_or_put (fc_map c) k h w))); [lia|]. reflexivity.
Qed.

(* the loop never reaches a resize, a purge or a panic site when the counters fit the current capacity *)
Lemma load_total : forall items hashes values c,
  rp_active (fc_map c) + N.of_nat (length values) <= fc_cur_cap c ->
  exists c', fc_load c items hashes values = Ok c' /\
    fc_lg_max c' = fc_lg_max c /\ fc_cur_cap c' = fc_cur_cap c /\ fc_offset c' = fc_offset c /\
    fc_sample_size c' = fc_sample_size c /\ rp_lg (fc_map c') = rp_lg (fc_map c) /\ rp_thr (fc_map c') = rp_thr (fc_map c) /\
    rp_active (fc_map c') <= rp_active (fc_map c) + N.of_nat (length values).
Proof.
  induction items as [|k items IH]; intros hashes values c Hcap.
  - exists c. cbn [fc_load]. repeat split; try reflexivity. lia.
  - destruct values as [|v values].
    + exists c. cbn [fc_load]. repeat split; try reflexivity. lia.
    + cbn [fc_load length] in *. destruct (N.eq_dec v 0) as [->|Hv].
      * unfold fc_update at 1. cbn [N.eqb obind fst]. change (0 =? 0) with true. cbn [obind fst].
        destruct (IH (tl hashes) values c ltac:(lia)) as (c' & E & H1 & H2 & H3 & H4 & H5 & H6 & H7).
        exists c'. rewrite E. repeat split; try assumption. lia.
      * rewrite (update_plain c k (hd 0 hashes) v Hv ltac:(lia)). cbn [obind fst].
        set (c1 := mkFc _ _ _ _ _ _).
        pose proof (put_active_le (fc_map c) k (hd 0 hashes) v) as Ha.
        pose proof (put_lg (fc_map c) k (hd 0 hashes) v) as [Hl Ht].
        destruct (IH (tl hashes) values c1) as (c' & E & H1 & H2 & H3 & H4 & H5 & H6 & H7).
        { unfold c1. cbn [fc_map fc_cur_cap]. lia. }
        exists c'. rewrite E. unfold c1 in *. cbn [fc_lg_max fc_cur_cap fc_offset fc_sample_size fc_map] in *.
        repeat split; try assumption; try congruence. lia.
Qed.

Lemma nodup_add0 cs k v : NoDup (keys cs) -> NoDup (keys (cs_add0 cs k v)).
Proof. intros H. unfold cs_add0. destruct (v =? 0); [exact H|apply nodup_add; exact H]. Qed.

Lemma cs_load_perm : forall items values l l', NoDup (keys l) -> Permutation l l' ->
  Permutation (cs_load l items values) (cs_load l' items values).
Proof.
  induction items as [|k items IH]; intros values l l' Hnd P; [exact P|].
  destruct values as [|v values]; [exact P|]. cbn [cs_load]. apply IH.
  - apply nodup_add0. exact Hnd.
  - unfold cs_add0. destruct (v =? 0); [exact P|apply cs_add_perm; assumption].
Qed.

(* with consistent hashes the loaded table is the finite map [cs_load] builds *)
Lemma load_spec H : forall items values c,
  tinv H (fc_map c) -> fc_cur_cap c + 1 < rp_len (fc_map c) ->
  rp_active (fc_map c) + N.of_nat (length values) <= fc_cur_cap c ->
  exists c', fc_load c items (map H items) values = Ok c' /\
    tinv H (fc_map c') /\ Permutation (kv (fc_map c')) (cs_load (kv (fc_map c)) items values) /\
    fc_lg_max c' = fc_lg_max c /\ fc_cur_cap c' = fc_cur_cap c /\ fc_offset c' = fc_offset c /\
    fc_sample_size c' = fc_sample_size c /\ rp_lg (fc_map c') = rp_lg (fc_map c) /\ rp_thr (fc_map c') = rp_thr (fc_map c) /\
    rp_len (fc_map c') = rp_len (fc_map c).
Proof.
  induction items as [|k items IH]; intros values c Hi Hlen Hcap.
  - exists c. cbn [fc_load cs_load]. splits; try reflexivity; try assumption.
  - destruct values as [|v values].
    + exists c. cbn [fc_load cs_load]. splits; try reflexivity; try assumption.
    + cbn [fc_load length map hd tl cs_load] in *. unfold cs_add0. destruct (N.eqb_spec v 0) as [->|Hv].
      * unfold fc_update at 1. change (0 =? 0) with true. cbn [obind fst].
        apply (IH values c Hi Hlen). lia.
      * rewrite (update_plain c k (H k) v Hv ltac:(lia)). cbn [obind fst].
        set (c1 := mkFc _ _ _ _ _ _).
        assert (Hact : rp_active (fc_map c) = N.of_nat (length (active_entries (fc_map c)))) by (destruct Hi; assumption).
        destruct (put_spec H (fc_map c) k v Hi ltac:(lia)) as (Hi1 & P1 & Hl1 & Ht1 & Hn1).
        pose proof (put_active_le (fc_map c) k (H k) v) as Ha.
        destruct (IH values c1) as (c' & E & Hi' & P' & H1 & H2 & H3 & H4 & H5 & H6 & H7).
        { exact Hi1. }
        { unfold c1. cbn [fc_map fc_cur_cap]. rewrite Hn1. exact Hlen. }
        { unfold c1. cbn [fc_map fc_cur_cap]. lia. }
        exists c'. rewrite E. unfold c1 in *. cbn [fc_lg_max fc_cur_cap fc_offset fc_sample_size fc_map] in *.
        split; [reflexivity|]. split; [exact Hi'|]. split.
        { eapply Permutation_trans; [exact P'|]. apply cs_load_perm; [apply (tinv_nodup H _ Hi1)|exact P1]. }
        splits; try assumption; congruence.
Qed.

(* loading distinct keys with positive counts into the empty map gives back the list *)
Lemma cs_load_distinct : forall items values l,
  length items = length values -> NoDup (keys l ++ items) -> Forall (fun v => v <> 0) values ->
  cs_load l items values = l ++ combine items values.
Proof.
  induction items as [|k items IH]; intros values l Hlen Hnd Hpos; destruct values as [|v values]; cbn [length] in Hlen; try lia.
  - cbn [cs_load combine]. rewrite app_nil_r. reflexivity.
  - inversion Hpos as [|? ? Hv Hpos']; subst. cbn [cs_load combine]. unfold cs_add0.
    destruct (N.eqb_spec v 0); [contradiction|].
    assert (Hnin : ~ In k (keys l)).
    { apply NoDup_remove_2 in Hnd. intros Hx. apply Hnd. apply in_or_app. left. exact Hx. }
    rewrite (cs_add_notin l k v Hnin). rewrite IH; [rewrite <- app_assoc; reflexivity|lia| |exact Hpos'].
    unfold keys in *. rewrite map_app. cbn [map fst]. rewrite <- app_assoc. cbn [app].
    apply NoDup_remove_1 in Hnd as Hnd1. apply NoDup_remove_2 in Hnd as Hnd2.
    apply (Permutation_NoDup (l := k :: map fst l ++ items)).
    + apply Permutation_middle.
    + constructor; assumption.
Qed.

(* ---------- the two image forms, as byte lists ---------- *)
Definition img_full (b0 lgm lgc fl u16 n u32 w off : N) (vals items trail : list N) : list N :=
  [b0; 1; 10; lgm; lgc; fl] ++ le_bytes 2 u16 ++ le_bytes 4 n ++ le_bytes 4 u32 ++ le_bytes 8 w ++ le_bytes 8 off
  ++ (flat_map (le_bytes 8) vals ++ flat_map (le_bytes 8) items ++ trail).
Definition img_empty (b0 lgm lgc fl u16 : N) (trail : list N) : list N :=
  [b0; 1; 10; lgm; lgc; fl] ++ le_bytes 2 u16 ++ trail.

Lemma le4_fold n : [n mod 256; n / 256 mod 256; n / 256 / 256 mod 256; n / 256 / 256 / 256 mod 256] = le_bytes 4 n.
Proof. reflexivity. Qed.
Lemma le8_fold n : [n mod 256; n / 256 mod 256; n / 256 / 256 mod 256; n / 256 / 256 / 256 mod 256;
                    n / 256 / 256 / 256 / 256 mod 256; n / 256 / 256 / 256 / 256 / 256 mod 256;
                    n / 256 / 256 / 256 / 256 / 256 / 256 mod 256; n / 256 / 256 / 256 / 256 / 256 / 256 / 256 mod 256] = le_bytes 8 n.
Proof. reflexivity. Qed.

Lemma parse_full b0 lgm lgc fl u16 n u32 w off vals items trail :
  N.land b0 63 = 4 -> lgc <= lgm -> lgm <= 62 -> N.land fl 5 = 0 ->
  n = N.of_nat (length vals) -> length items = length vals -> n < 2 ^ 32 -> w < M64 -> off < M64 ->
  Forall (fun v => v < M64) vals -> Forall (fun v => v < M64) items ->
  n <= 2 ^ N.max lgc LG_MIN / LOAD_DEN * LOAD_NUM -> off + sumN vals <= w ->
  fc_parse (img_full b0 lgm lgc fl u16 n u32 w off vals items trail) = Ok (ImgFull lgm lgc w off vals items).
Proof.
  intros Hb0 Hlg Hlgm Hfl Hn Hli Hn32 Hw Hoff Hvals Hitems Hcap Hsum.
  destruct layout_constants as (Cpe & Cpn & Csv & Cfam & Cmask & _).
  unfold fc_parse, img_full.
  set (payload := flat_map (le_bytes 8) vals ++ flat_map (le_bytes 8) items ++ trail).
  cbn [le_bytes app length nth firstn skipn Nat.ltb Nat.leb].
  rewrite Hb0, Cpe, Cpn, Csv, Cfam, Cmask, Hfl. rewrite !N.eqb_refl. cbn [negb].
  destruct (N.ltb_spec lgm lgc); [lia|].
  pose proof (pow2_le_62 lgm Hlgm). change LOAD_NUM with 3 in *.
  destruct (N.leb_spec M64 (2 ^ lgm * 3)); [lia|].
  change (4 =? 1) with false. cbn [negb].
  rewrite !le4_fold, !le8_fold.
  rewrite (le_val_le_bytes_small 4) by (change (256 ^ N.of_nat 4) with (2 ^ 32); exact Hn32).
  rewrite !(le_val_le_bytes_small 8) by (change (256 ^ N.of_nat 8) with 18446744073709551616; unfold M64 in *; assumption).
  assert (Hpl : length payload = (16 * length vals + length trail)%nat).
  { unfold payload. rewrite !app_length, !flat_map_le8_length. lia. }
  rewrite Hpl.
  match goal with |- context [?a / 8 <? n] => destruct (N.ltb_spec (a / 8) n) as [Hbad|_] end.
  { exfalso. assert (n <= (N.of_nat (S (S (S (S (S (S (S (S (S (S (S (S (S (S (S (S (S (S (S (S (S (S (S (S (S (S (S (S (S (S (S (S (16 * length vals + length trail))))))))))))))))))))))))))))))))) - 4 * 8) / 8).
    { apply N.div_le_lower_bound; lia. }
    lia. }
  destruct (N.ltb_spec (2 ^ N.max lgc LG_MIN / LOAD_DEN * 3) n); [lia|].
  replace (N.to_nat n) with (length vals) by lia.
  unfold payload. rewrite (read_u64s_flat vals _ Hvals).
  destruct (N.ltb_spec w (off + sumN vals)); [lia|].
  rewrite <- Hli. rewrite (read_u64s_flat items _ Hitems). reflexivity.
Qed.

Lemma parse_empty b0 lgm lgc fl u16 trail :
  N.land b0 63 = 1 -> lgc <= lgm -> lgm <= 62 -> N.land fl 5 <> 0 ->
  fc_parse (img_empty b0 lgm lgc fl u16 trail) = Ok (ImgEmpty lgm lgc).
Proof.
  intros Hb0 Hlg Hlgm Hfl.
  destruct layout_constants as (Cpe & Cpn & Csv & Cfam & Cmask & _).
  unfold fc_parse, img_empty.
  cbn [le_bytes app length nth firstn skipn Nat.ltb Nat.leb].
  rewrite Hb0, Cpe, Csv, Cfam, Cmask. rewrite !N.eqb_refl. cbn [negb].
  destruct (N.ltb_spec lgm lgc); [lia|].
  pose proof (pow2_le_62 lgm Hlgm). change LOAD_NUM with 3 in *.
  destruct (N.leb_spec M64 (2 ^ lgm * 3)); [lia|].
  destruct (N.eqb_spec (N.land fl 5) 0); [contradiction|]. reflexivity.
Qed.

(* the layout specification's decoder on the same two forms *)
Lemma flag_clear fl : fl < 256 -> N.land fl 5 = 0 -> N.testbit fl 0 || N.testbit fl 2 = false.
Proof. intros H E. pose proof (flag_bits fl H) as B. rewrite E in B. change (0 =? 0) with true in B. destruct (_ || _); [discriminate|reflexivity]. Qed.

Lemma flag_set fl : fl < 256 -> N.land fl 5 <> 0 -> N.testbit fl 0 || N.testbit fl 2 = true.
Proof. intros H E. pose proof (flag_bits fl H) as B. destruct (N.eqb_spec (N.land fl 5) 0); [contradiction|]. destruct (_ || _); [reflexivity|discriminate]. Qed.

Lemma spec_full b0 lgm lgc fl u16 n u32 w off vals items trail :
  b0 mod 64 = 4 -> fl < 256 -> N.land fl 5 = 0 ->
  n = N.of_nat (length vals) -> length items = length vals -> n < 2 ^ 32 -> w < M64 -> off < M64 ->
  Forall (fun v => v < M64) vals -> Forall (fun v => v < M64) items ->
  spec_decode (img_full b0 lgm lgc fl u16 n u32 w off vals items trail) =
  Some (mkFA lgm lgc w off (combine (map spec_i64 items) vals)).
Proof.
  intros Hb0 Hfl256 Hfl Hn Hli Hn32 Hw Hoff Hvals Hitems.
  unfold spec_decode, img_full.
  set (payload := flat_map (le_bytes 8) vals ++ flat_map (le_bytes 8) items ++ trail).
  cbn [le_bytes app length nth firstn skipn Nat.ltb Nat.leb].
  rewrite Hb0, (flag_clear fl Hfl256 Hfl). rewrite !N.eqb_refl. cbn [negb andb].
  rewrite !le4_fold, !le8_fold.
  rewrite (le_val_le_bytes_small 4) by (change (256 ^ N.of_nat 4) with (2 ^ 32); exact Hn32).
  rewrite !(le_val_le_bytes_small 8) by (change (256 ^ N.of_nat 8) with 18446744073709551616; unfold M64 in *; assumption).
  replace (N.to_nat n) with (length vals) by lia.
  unfold payload. rewrite (spec_longs_flat vals _ Hvals).
  rewrite <- Hli. rewrite (spec_longs_flat items _ Hitems). reflexivity.
Qed.

Lemma spec_empty b0 lgm lgc fl u16 trail :
  b0 mod 64 = 1 -> fl < 256 -> N.land fl 5 <> 0 ->
  spec_decode (img_empty b0 lgm lgc fl u16 trail) = Some (mkFA lgm lgc 0 0 []).
Proof.
  intros Hb0 Hfl256 Hfl. unfold spec_decode, img_empty.
  cbn [le_bytes app length nth firstn skipn Nat.ltb Nat.leb].
  rewrite Hb0, (flag_set fl Hfl256 Hfl). rewrite !N.eqb_refl. reflexivity.
Qed.

(* the writer emits exactly these forms *)
Lemma serialize_full c : fc_weight c <> 0 ->
  fc_serialize c = img_full 4 (fc_lg_max c) (rp_lg (fc_map c)) 0 0 (fc_num_active c) 0 (fc_weight c) (fc_offset c)
                     (rp_active_values (fc_map c)) (map u64_of_i64 (rp_active_keys (fc_map c))) [].
Proof.
  intros Hw. unfold fc_serialize, img_full. destruct (N.eqb_spec (fc_weight c) 0); [contradiction|].
  rewrite flat_map_map, app_nil_r. reflexivity.
Qed.

Lemma serialize_empty c : fc_weight c = 0 ->
  fc_serialize c = img_empty 1 (fc_lg_max c) (rp_lg (fc_map c)) 5 0 [].
Proof. intros Hw. unfold fc_serialize, img_empty. rewrite Hw. change (0 =? 0) with true. cbn iota. rewrite app_nil_r. reflexivity. Qed.

(* ---------- counter-list facts used for the loaded table ---------- *)
Lemma cs_add0_props l k v : allpos l -> allpos (cs_add0 l k v) /\ cs_sum (cs_add0 l k v) = cs_sum l + v /\
  (forall x, In x (keys (cs_add0 l k v)) -> x = k \/ In x (keys l)).
Proof.
  intros Hp. unfold cs_add0. destruct (N.eqb_spec v 0) as [->|Hv].
  - repeat split; [exact Hp|lia|]. intros x Hx. right. exact Hx.
  - repeat split; [apply allpos_add; [lia|exact Hp]|apply sum_add|]. intros x Hx. apply keys_add in Hx. exact Hx.
Qed.

Lemma cs_load_props : forall items values l, length items = length values -> allpos l ->
  allpos (cs_load l items values) /\ cs_sum (cs_load l items values) = cs_sum l + sumN values /\
  (forall x, In x (keys (cs_load l items values)) -> In x items \/ In x (keys l)).
Proof.
  induction items as [|k items IH]; intros values l Hlen Hp; destruct values as [|v values]; cbn [length] in Hlen; try lia.
  - cbn [cs_load sumN]. repeat split; [exact Hp|lia|]. intros x Hx. right. exact Hx.
  - cbn [cs_load sumN]. destruct (cs_add0_props l k v Hp) as (Hp1 & Hs1 & Hk1).
    destruct (IH values (cs_add0 l k v) ltac:(lia) Hp1) as (Hp2 & Hs2 & Hk2).
    repeat split; [exact Hp2|rewrite Hs2, Hs1; lia|].
    intros x Hx. destruct (Hk2 x Hx) as [Hi|Hi]; [left; right; exact Hi|].
    destruct (Hk1 x Hi) as [->|Hi']; [left; left; reflexivity|right; exact Hi'].
Qed.

Lemma cs_get_le_sum l x : cs_get l x <= cs_sum l.
Proof.
  unfold cs_sum. induction l as [|[k v] r IH]; cbn [cs_get map snd sumN]; [lia|]. destruct (Z.eqb x k); lia.
Qed.

Lemma in_le_sum l k v : In (k, v) l -> v <= cs_sum l.
Proof.
  unfold cs_sum. induction l as [|[k0 v0] r IH]; intros Hin; [destruct Hin|]. cbn [map snd sumN].
  destruct Hin as [E|Hin]; [inversion E; subst; lia|specialize (IH Hin); lia].
Qed.

Lemma allpos_perm l l' : Permutation l l' -> allpos l -> allpos l'.
Proof. intros P Hp. unfold allpos in *. eapply Permutation_Forall; eassumption. Qed.

Lemma kv_length t : length (kv t) = length (active_entries t).
Proof. unfold kv. apply map_length. Qed.

Lemma combine_map_entries (es : list entry) : combine (map e_key es) (map e_val es) = map (fun e => (e_key e, e_val e)) es.
Proof. induction es as [|e es IH]; cbn [map combine]; [reflexivity|]. rewrite IH. reflexivity. Qed.

(* ---------- well-formed concrete sketches ---------- *)
Definition abs_fc (c : fc) : fi_abs :=
  mkFA (fc_lg_max c) (rp_lg (fc_map c)) (fc_weight c) (fc_offset c) (kv (fc_map c)).

Record fc_wf (H : Z -> N) (c : fc) : Prop := {
  w_lgc : LG_MIN <= rp_lg (fc_map c);
  w_lgm : rp_lg (fc_map c) <= fc_lg_max c /\ fc_lg_max c <= 62;
  w_cap : fc_cur_cap c = rp_thr (fc_map c) /\ rp_thr (fc_map c) = load_threshold (2 ^ rp_lg (fc_map c));
  w_ss : fc_sample_size c = N.min SAMPLE_SIZE (cap_of_lg (fc_lg_max c));
  w_len : rp_len (fc_map c) = 2 ^ rp_lg (fc_map c);
  w_active : rp_active (fc_map c) = N.of_nat (length (active_entries (fc_map c)));
  w_fit : rp_active (fc_map c) <= fc_cur_cap c;
  w_u32 : rp_active (fc_map c) < 2 ^ 32;      (* active_items is written as a u32 *)
  w_nodup : NoDup (keys (kv (fc_map c)));
  w_pos : allpos (kv (fc_map c));
  w_keys : Forall i64_ok (keys (kv (fc_map c)));
  w_hash : Forall (fun e => e_hash e = H (e_key e)) (active_entries (fc_map c));
  w_weight : fc_offset c + cs_sum (kv (fc_map c)) <= fc_weight c /\ fc_weight c < M64
}.

Lemma wf_cur_cap H c : fc_wf H c -> fc_cur_cap c = cap_of_lg (rp_lg (fc_map c)).
Proof.
  intros W. destruct W. destruct w_cap0 as [-> ->]. apply load_threshold_cap. rewrite LG_MIN_val in *. lia.
Qed.

Lemma wf_room H c : fc_wf H c -> room (fc_map c).
Proof.
  intros W. pose proof (wf_cur_cap H c W) as Hc. destruct W. unfold room. rewrite <- w_active0, w_len0.
  rewrite LG_MIN_val in *. pose proof (cap_lt_len (rp_lg (fc_map c)) w_lgc0). lia.
Qed.

Lemma tinv_hash H t : tinv H t -> Forall (fun e => e_hash e = H (e_key e)) (active_entries t).
Proof.
  intros [_ Hslot _]. apply Forall_forall. intros e Hin. rewrite active_entries_eq in Hin. apply entries_in in Hin.
  destruct Hin as [n Hn]. apply (Hslot (N.of_nat n) e). unfold nthN. rewrite Nat2N.id. exact Hn.
Qed.

Lemma wf_vals_lt H c : fc_wf H c -> Forall (fun v => v < M64) (rp_active_values (fc_map c)).
Proof.
  intros W. destruct W. apply Forall_forall. intros v Hin. unfold rp_active_values in Hin. apply in_map_iff in Hin.
  destruct Hin as (e & <- & Hin).
  assert (Hkv : In (e_key e, e_val e) (kv (fc_map c))) by (unfold kv; apply in_map_iff; exists e; auto).
  pose proof (in_le_sum _ _ _ Hkv). lia.
Qed.

(* ---------- building the sketch from a validated image ---------- *)
Lemma build_empty lgm lgc : lgc <= lgm -> lgm <= 62 -> forall hashes, fc_build (ImgEmpty lgm lgc) hashes = Ok (fresh_fc lgm lgc).
Proof. intros H1 H2 hashes. cbn [fc_build]. apply with_lg_ok; assumption. Qed.

Lemma build_full H lgm lgc w off vals items :
  lgc <= lgm -> lgm <= 62 -> length items = length vals ->
  N.of_nat (length vals) <= cap_of_lg (N.max lgc LG_MIN) ->
  exists m, fc_build (ImgFull lgm lgc w off vals items) (map H (map i64_of_u64 items)) =
              Ok (mkFc (N.max lgm LG_MIN) (cap_of_lg (N.max lgc LG_MIN)) off w
                       (N.min SAMPLE_SIZE (cap_of_lg (N.max lgm LG_MIN))) m) /\
    tinv H m /\ Permutation (kv m) (cs_load [] (map i64_of_u64 items) vals) /\
    rp_lg m = N.max lgc LG_MIN /\ rp_thr m = load_threshold (2 ^ N.max lgc LG_MIN) /\ rp_len m = 2 ^ N.max lgc LG_MIN.
Proof.
  intros H1 H2 Hlen Hcap. cbn [fc_build]. rewrite (with_lg_ok lgm lgc H1 H2). cbn [obind].
  pose proof (fresh_cur_cap lgm lgc H1 H2) as Hcc.
  destruct (load_spec H (map i64_of_u64 items) vals (fresh_fc lgm lgc)) as (c1 & E & Hi & P & E1 & E2 & E3 & E4 & E5 & E6 & E7).
  - unfold fresh_fc. cbn [fc_map]. apply tinv_new.
  - rewrite Hcc. unfold fresh_fc. cbn [fc_map]. rewrite rp_len_new. apply cap_lt_len. rewrite LG_MIN_val. lia.
  - rewrite Hcc. unfold fresh_fc, rp_new. cbn [fc_map rp_active]. lia.
  - rewrite E. cbn [obind]. exists (fc_map c1). rewrite E1, E2, E4, Hcc.
    unfold fresh_fc in *. cbn [fc_lg_max fc_sample_size fc_map] in *. rewrite kv_new in P.
    rewrite rp_len_new in E7. unfold rp_new in E5, E6. cbn [rp_lg rp_thr] in E5, E6.
    splits; try assumption; reflexivity.
Qed.

(* what an accepted full image gives, in terms of the finite map *)
Lemma build_full_wf H lgm lgc w off vals items m :
  LG_MIN <= lgc -> lgc <= lgm -> lgm <= 62 -> length items = length vals ->
  N.of_nat (length vals) <= cap_of_lg lgc -> N.of_nat (length vals) < 2 ^ 32 ->
  Forall (fun v => v < M64) items -> off + sumN vals <= w -> w < M64 ->
  tinv H m -> Permutation (kv m) (cs_load [] (map i64_of_u64 items) vals) ->
  rp_lg m = lgc -> rp_thr m = load_threshold (2 ^ lgc) -> rp_len m = 2 ^ lgc ->
  fc_wf H (mkFc lgm (cap_of_lg lgc) off w (N.min SAMPLE_SIZE (cap_of_lg lgm)) m).
Proof.
  intros Hmin H1 H2 Hlen Hcap Hu32 Hitems Hsum Hw Hi P El Et En.
  assert (Hl' : length (map i64_of_u64 items) = length vals) by (rewrite map_length; exact Hlen).
  destruct (cs_load_props (map i64_of_u64 items) vals [] Hl' ltac:(constructor)) as (Hp & Hs & Hk).
  assert (Hkl : (length (kv m) <= length vals)%nat).
  { rewrite (Permutation_length P). clear - Hl'. revert vals Hl'. generalize (map i64_of_u64 items) as its.
    assert (G : forall its vals l, length its = length vals -> (length (cs_load l its vals) <= length l + length vals)%nat).
    { induction its as [|k its IH]; intros vals l Hl; destruct vals as [|v vals]; cbn [length] in Hl; try lia; cbn [cs_load length]; [lia|].
      specialize (IH vals (cs_add0 l k v) ltac:(lia)). unfold cs_add0 in *. pose proof (length_add l k v).
      destruct (v =? 0); lia. }
    intros its vals Hl. specialize (G its vals [] Hl). cbn [length] in G. lia. }
  assert (Hact : rp_active m = N.of_nat (length (kv m))) by (rewrite kv_length; destruct Hi; assumption).
  constructor; cbn [fc_map fc_lg_max fc_cur_cap fc_sample_size fc_offset fc_weight].
  - rewrite El. exact Hmin.
  - rewrite El. split; assumption.
  - rewrite Et, El. split; [|reflexivity]. symmetry. apply load_threshold_cap. rewrite LG_MIN_val in Hmin. lia.
  - reflexivity.
  - rewrite En, El. reflexivity.
  - destruct Hi; assumption.
  - rewrite Hact. lia.
  - rewrite Hact. lia.
  - apply (tinv_nodup H m Hi).
  - apply (allpos_perm _ _ (Permutation_sym P)). exact Hp.
  - apply Forall_forall. intros x Hx.
    assert (Hx' : In x (keys (cs_load [] (map i64_of_u64 items) vals))).
    { unfold keys in *. eapply Permutation_in; [apply Permutation_map; exact P|exact Hx]. }
    destruct (Hk x Hx') as [Hin|[]]. apply in_map_iff in Hin. destruct Hin as (u & <- & Hu).
    apply i64_of_u64_ok. rewrite Forall_forall in Hitems. apply Hitems. exact Hu.
  - apply (tinv_hash H m Hi).
  - rewrite (sum_perm _ _ P), Hs. unfold cs_sum. cbn [map sumN]. split; [lia|exact Hw].
Qed.

(* ---------- C11: the round trip ---------- *)
Definition fc_same (H : Z -> N) (c c' : fc) : Prop :=
  fc_lg_max c' = fc_lg_max c /\ fc_cur_cap c' = fc_cur_cap c /\ fc_offset c' = fc_offset c /\ fc_weight c' = fc_weight c /\
  fc_sample_size c' = fc_sample_size c /\ rp_lg (fc_map c') = rp_lg (fc_map c) /\ rp_thr (fc_map c') = rp_thr (fc_map c) /\
  rp_active (fc_map c') = rp_active (fc_map c) /\
  Permutation (kv (fc_map c')) (kv (fc_map c)) /\
  (forall k, rp_get (fc_map c') k (H k) = cs_get (kv (fc_map c)) k).

Lemma wf_hashes H c : fc_wf H c -> map e_hash (active_entries (fc_map c)) = map H (rp_active_keys (fc_map c)).
Proof.
  intros W. destruct W. unfold rp_active_keys. rewrite map_map. apply map_ext_in. intros e Hin.
  rewrite Forall_forall in w_hash0. apply w_hash0. exact Hin.
Qed.

Lemma wf_keys_roundtrip H c : fc_wf H c -> map i64_of_u64 (map u64_of_i64 (rp_active_keys (fc_map c))) = rp_active_keys (fc_map c).
Proof.
  intros W. destruct W. rewrite map_map. rewrite <- (map_id (rp_active_keys (fc_map c))) at 2.
  apply map_ext_in. intros k Hin. apply i64_of_u64_of_i64. rewrite Forall_forall in w_keys0. apply w_keys0.
  unfold keys, kv. rewrite map_map. cbn [fst]. exact Hin.
Qed.

Lemma wf_lookup H c : fc_wf H c -> tinv H (fc_map c) -> forall k, rp_get (fc_map c) k (H k) = cs_get (kv (fc_map c)) k.
Proof. intros W Hi k. apply get_spec; [exact Hi|apply (wf_room H c W)]. Qed.

Theorem roundtrip H c : fc_wf H c ->
  exists c', fc_deserialize (fc_serialize c) (map e_hash (active_entries (fc_map c))) = Ok c' /\
             fc_same H c c' /\ fc_wf H c' /\ tinv H (fc_map c').
Proof.
  intros W. pose proof (wf_cur_cap H c W) as Hcc. pose proof (wf_hashes H c W) as Hh.
  pose proof (wf_keys_roundtrip H c W) as Hkr. pose proof (wf_vals_lt H c W) as Hvl.
  destruct W as [Wlgc [Wlgm Wlgm62] [Wcap Wthr] Wss Wlen Wact Wfit Wu32 Wnd Wpos Wkeys Whash [Wsum Ww]].
  assert (Hmax1 : N.max (rp_lg (fc_map c)) LG_MIN = rp_lg (fc_map c)) by lia.
  assert (Hmax2 : N.max (fc_lg_max c) LG_MIN = fc_lg_max c) by lia.
  unfold fc_deserialize.
  destruct (N.eq_dec (fc_weight c) 0) as [Hw0|Hw0].
  - (* no stream weight: the one-long form *)
    assert (Hnil : kv (fc_map c) = []).
    { destruct (kv (fc_map c)) as [|[k v] r] eqn:E; [reflexivity|]. exfalso.
      inversion Wpos as [|? ? Hv _]; subst. cbn [snd] in Hv. unfold cs_sum in Wsum. cbn [map snd sumN] in Wsum. lia. }
    assert (Hes : active_entries (fc_map c) = []).
    { unfold kv in Hnil. destruct (active_entries (fc_map c)); [reflexivity|discriminate]. }
    rewrite (serialize_empty c Hw0).
    rewrite (parse_empty 1 _ _ 5 0 [] eq_refl Wlgm Wlgm62 ltac:(discriminate)). cbn [obind].
    rewrite (build_empty _ _ Wlgm Wlgm62). eexists. split; [reflexivity|].
    unfold fresh_fc. rewrite Hmax1, Hmax2.
    assert (Hoff : fc_offset c = 0) by lia.
    split; [|split].
    + unfold fc_same. cbn [fc_lg_max fc_cur_cap fc_offset fc_weight fc_sample_size fc_map]. rewrite kv_new, Hnil.
      unfold rp_new at 1 2 3 4. cbn [rp_thr rp_lg rp_active].
      splits; try congruence; try reflexivity.
      * rewrite Wact, Hes. reflexivity.
      * intros k. rewrite (get_spec H _ k (tinv_new H _)); [rewrite kv_new; reflexivity|].
        unfold room. rewrite rp_len_new, active_entries_eq. unfold rp_new. cbn [rp_tab]. rewrite entries_repeat_none.
        cbn [length]. pose proof (pow2_pos (rp_lg (fc_map c))). lia.
    + pose proof (tinv_new H (rp_lg (fc_map c))) as Hi.
      constructor; cbn [fc_lg_max fc_cur_cap fc_offset fc_weight fc_sample_size fc_map]; rewrite ?kv_new.
      * unfold rp_new; cbn [rp_lg]; exact Wlgc.
      * unfold rp_new; cbn [rp_lg]; split; assumption.
      * unfold rp_new; cbn [rp_lg rp_thr]; split; reflexivity.
      * reflexivity.
      * rewrite rp_len_new. reflexivity.
      * destruct Hi; assumption.
      * unfold rp_new; cbn [rp_active]. lia.
      * unfold rp_new; cbn [rp_active]. lia.
      * constructor.
      * constructor.
      * constructor.
      * apply (tinv_hash H _ Hi).
      * unfold cs_sum. cbn [map sumN]. unfold M64. lia.
    + apply tinv_new.
  - (* the full form *)
    set (es := active_entries (fc_map c)) in *.
    assert (Hn : fc_num_active c = N.of_nat (length (rp_active_values (fc_map c)))).
    { unfold fc_num_active, rp_active_values. rewrite map_length. exact Wact. }
    assert (Hli : length (map u64_of_i64 (rp_active_keys (fc_map c))) = length (rp_active_values (fc_map c))).
    { unfold rp_active_keys, rp_active_values. rewrite !map_length. reflexivity. }
    assert (Hsumv : sumN (rp_active_values (fc_map c)) = cs_sum (kv (fc_map c))).
    { unfold cs_sum, kv, rp_active_values. rewrite map_map. reflexivity. }
    rewrite (serialize_full c Hw0).
    rewrite (parse_full 4 _ _ 0 0 _ 0 _ _ _ _ [] eq_refl Wlgm Wlgm62 eq_refl Hn Hli).
    2:{ unfold fc_num_active. exact Wu32. }
    2:{ exact Ww. }
    2:{ lia. }
    2:{ exact Hvl. }
    2:{ apply Forall_forall. intros u Hu. apply in_map_iff in Hu. destruct Hu as (z & <- & _). apply u64_of_i64_lt. }
    2:{ rewrite Hmax1, (cap_alt _ ltac:(rewrite LG_MIN_val in Wlgc; exact Wlgc)). unfold fc_num_active. lia. }
    2:{ rewrite Hsumv. exact Wsum. }
    cbn [obind]. rewrite Hh.
    replace (map H (rp_active_keys (fc_map c))) with (map H (map i64_of_u64 (map u64_of_i64 (rp_active_keys (fc_map c)))))
      by (rewrite Hkr; reflexivity).
    destruct (build_full H (fc_lg_max c) (rp_lg (fc_map c)) (fc_weight c) (fc_offset c) (rp_active_values (fc_map c))
                (map u64_of_i64 (rp_active_keys (fc_map c))) Wlgm Wlgm62 Hli) as (m & E & Hi & P & El & Et & En).
    { rewrite Hmax1, <- Hn. unfold fc_num_active. lia. }
    rewrite E. rewrite Hkr in P. rewrite Hmax1, Hmax2 in *.
    eexists. split; [reflexivity|].
    assert (Hload : cs_load [] (rp_active_keys (fc_map c)) (rp_active_values (fc_map c)) = kv (fc_map c)).
    { rewrite cs_load_distinct.
      - cbn [app]. unfold rp_active_keys, rp_active_values. apply combine_map_entries.
      - unfold rp_active_keys, rp_active_values. rewrite !map_length. reflexivity.
      - cbn [keys map app]. unfold keys, kv in Wnd. rewrite map_map in Wnd. cbn [fst] in Wnd. exact Wnd.
      - apply Forall_forall. intros v Hv. unfold rp_active_values in Hv. apply in_map_iff in Hv. destruct Hv as (e & <- & He).
        unfold allpos in Wpos. rewrite Forall_forall in Wpos.
        specialize (Wpos (e_key e, e_val e)). cbn [snd] in Wpos.
        assert (0 < e_val e); [|lia]. apply Wpos. unfold kv. apply in_map_iff. exists e. auto. }
    rewrite Hload in P.
    assert (Wf' : fc_wf H (mkFc (fc_lg_max c) (cap_of_lg (rp_lg (fc_map c))) (fc_offset c) (fc_weight c)
                              (N.min SAMPLE_SIZE (cap_of_lg (fc_lg_max c))) m)).
    { apply (build_full_wf H _ _ _ _ (rp_active_values (fc_map c)) (map u64_of_i64 (rp_active_keys (fc_map c)))); try assumption.
      - rewrite <- Hn. unfold fc_num_active. lia.
      - rewrite <- Hn. unfold fc_num_active. exact Wu32.
      - apply Forall_forall. intros u Hu. apply in_map_iff in Hu. destruct Hu as (z & <- & _). apply u64_of_i64_lt.
      - rewrite Hsumv. exact Wsum.
      - rewrite Hkr, Hload. exact P. }
    split; [|split; [exact Wf'|exact Hi]].
    unfold fc_same. cbn [fc_lg_max fc_cur_cap fc_offset fc_weight fc_sample_size fc_map].
    refine (conj eq_refl (conj (eq_sym Hcc) (conj eq_refl (conj eq_refl (conj (eq_sym Wss) (conj El (conj _ (conj _ (conj P _))))))))).
    + congruence.
    + destruct Hi as [_ _ Ha]. rewrite Ha, <- kv_length, (Permutation_length P), kv_length. symmetry. exact Wact.
    + intros k. pose proof (wf_lookup H _ Wf' Hi k) as L. cbn [fc_map] in L. rewrite L.
      symmetry. apply cs_get_perm; [exact Wnd|apply Permutation_sym; exact P].
Qed.

(* ---------- C12: the emitted image conforms to the layout specification ---------- *)
Lemma wf_weight0 H c : fc_wf H c -> fc_weight c = 0 -> kv (fc_map c) = [] /\ fc_offset c = 0.
Proof.
  intros W Hw0. destruct W. destruct w_weight0 as [Wsum _].
  assert (Hnil : kv (fc_map c) = []).
  { destruct (kv (fc_map c)) as [|[k v] r] eqn:E; [reflexivity|]. exfalso.
    inversion w_pos0 as [|? ? Hv _]; subst. cbn [snd] in Hv. unfold cs_sum in Wsum. cbn [map snd sumN] in Wsum. lia. }
  split; [exact Hnil|]. rewrite Hnil in Wsum. unfold cs_sum in Wsum. cbn [map sumN] in Wsum. lia.
Qed.

Theorem writer_conforms H c : fc_wf H c -> spec_decode (fc_serialize c) = Some (abs_fc c).
Proof.
  intros W. pose proof (wf_keys_roundtrip H c W) as Hkr. pose proof (wf_vals_lt H c W) as Hvl.
  destruct (N.eq_dec (fc_weight c) 0) as [Hw0|Hw0].
  - destruct (wf_weight0 H c W Hw0) as [Hnil Hoff].
    rewrite (serialize_empty c Hw0). rewrite (spec_empty 1 _ _ 5 0 [] eq_refl ltac:(lia) ltac:(discriminate)).
    unfold abs_fc. rewrite Hnil, Hoff, Hw0. reflexivity.
  - destruct W as [Wlgc [Wlgm Wlgm62] [Wcap Wthr] Wss Wlen Wact Wfit Wu32 Wnd Wpos Wkeys Whash [Wsum Ww]].
    assert (Hn : fc_num_active c = N.of_nat (length (rp_active_values (fc_map c)))).
    { unfold fc_num_active, rp_active_values. rewrite map_length. exact Wact. }
    assert (Hli : length (map u64_of_i64 (rp_active_keys (fc_map c))) = length (rp_active_values (fc_map c))).
    { unfold rp_active_keys, rp_active_values. rewrite !map_length. reflexivity. }
    rewrite (serialize_full c Hw0).
    rewrite (spec_full 4 _ _ 0 0 _ 0 _ _ _ _ [] eq_refl ltac:(lia) eq_refl Hn Hli).
    + unfold abs_fc. f_equal. f_equal. rewrite (map_ext spec_i64 i64_of_u64 spec_i64_eq), Hkr.
      unfold rp_active_keys, rp_active_values. apply combine_map_entries.
    + unfold fc_num_active. exact Wu32.
    + exact Ww.
    + lia.
    + exact Hvl.
    + apply Forall_forall. intros u Hu. apply in_map_iff in Hu. destruct Hu as (z & <- & _). apply u64_of_i64_lt.
Qed.

(* ---------- C18: the image size ---------- *)
Theorem image_size c : rp_active (fc_map c) = N.of_nat (length (active_entries (fc_map c))) ->
  length (fc_serialize c) = spec_size (fc_weight c) (length (active_entries (fc_map c))).
Proof.
  intros Hact. unfold spec_size. destruct (N.eqb_spec (fc_weight c) 0) as [Hw0|Hw0].
  - rewrite (serialize_empty c Hw0). reflexivity.
  - rewrite (serialize_full c Hw0). unfold img_full. cbn [le_bytes app length].
    rewrite !app_length, !flat_map_le8_length. unfold rp_active_values, rp_active_keys. rewrite !map_length. cbn [length]. lia.
Qed.

Theorem image_size_bound H c : fc_wf H c ->
  (length (fc_serialize c) <= 32 + 16 * N.to_nat (cap_of_lg (fc_lg_max c)))%nat.
Proof.
  intros W. pose proof (wf_cur_cap H c W) as Hcc. destruct W.
  rewrite (image_size c w_active0). unfold spec_size.
  assert (cap_of_lg (rp_lg (fc_map c)) <= cap_of_lg (fc_lg_max c)).
  { unfold cap_of_lg. apply N.div_le_mono; [rewrite LOAD_DEN_val; lia|]. apply N.mul_le_mono_r. apply N.pow_le_mono_r; lia. }
  destruct (fc_weight c =? 0); lia.
Qed.

(* ---------- a fresh sketch is well-formed ---------- *)
Lemma fresh_wf H lgm lgc : LG_MIN <= lgc -> lgc <= lgm -> lgm <= 62 -> fc_wf H (fresh_fc lgm lgc) /\ tinv H (fc_map (fresh_fc lgm lgc)).
Proof.
  intros H0 H1 H2. unfold fresh_fc. rewrite !N.max_l by lia. cbn [fc_map].
  pose proof (tinv_new H lgc) as Hi. split; [|exact Hi].
  constructor; cbn [fc_lg_max fc_cur_cap fc_offset fc_weight fc_sample_size fc_map]; rewrite ?kv_new.
  - exact H0.
  - unfold rp_new; cbn [rp_lg]; split; assumption.
  - unfold rp_new; cbn [rp_lg rp_thr]; split; reflexivity.
  - reflexivity.
  - rewrite rp_len_new. reflexivity.
  - destruct Hi; assumption.
  - unfold rp_new; cbn [rp_active]. lia.
  - unfold rp_new; cbn [rp_active]. lia.
  - constructor.
  - constructor.
  - constructor.
  - apply (tinv_hash H _ Hi).
  - unfold cs_sum. cbn [map sumN]. unfold M64. lia.
Qed.

(* ---------- C13: every image the layout allows is read back to the state it encodes ---------- *)
Record abs_wf (a : fi_abs) : Prop := {
  aw_lg : 3 <= a_lg_cur a /\ a_lg_cur a <= a_lg_max a /\ a_lg_max a <= 62;
  aw_nodup : NoDup (keys (a_counters a));
  aw_pos : allpos (a_counters a);
  aw_keys : Forall i64_ok (keys (a_counters a));
  aw_fit : N.of_nat (length (a_counters a)) <= spec_capacity (a_lg_cur a) /\ N.of_nat (length (a_counters a)) < 2 ^ 32;
  aw_weight : a_offset a + cs_sum (a_counters a) <= a_weight a /\ a_weight a < M64
}.

Lemma hibits_land hb x : hb < 4 -> x < 64 -> N.land (x + 64 * hb) 63 = x /\ (x + 64 * hb) mod 64 = x.
Proof.
  intros Hh Hx. rewrite land63. replace (x + 64 * hb) with (x + hb * 64) by lia. rewrite N.mod_add by lia.
  rewrite N.mod_small by exact Hx. split; reflexivity.
Qed.

Definition abs_same (a a' : fi_abs) : Prop :=
  a_lg_max a' = a_lg_max a /\ a_lg_cur a' = a_lg_cur a /\ a_weight a' = a_weight a /\ a_offset a' = a_offset a /\
  Permutation (a_counters a') (a_counters a).

Lemma enc_short v a : use_short v a = true ->
  enc_spec v a = img_empty (1 + 64 * v_hibits v) (a_lg_max a) (a_lg_cur a) (v_flags v) (v_unused16 v) [].
Proof. intros E. unfold enc_spec, img_empty. rewrite E, app_nil_r. reflexivity. Qed.

Lemma enc_full v a : use_short v a = false ->
  enc_spec v a = img_full (4 + 64 * v_hibits v) (a_lg_max a) (a_lg_cur a) (v_flags v) (v_unused16 v)
                   (N.of_nat (length (a_counters a))) (v_unused32 v) (a_weight a) (a_offset a)
                   (map snd (a_counters a)) (map (fun p => spec_u64 (fst p)) (a_counters a)) [].
Proof. intros E. unfold enc_spec, img_full. rewrite E, !flat_map_map, app_nil_r. reflexivity. Qed.

Lemma abs_items_roundtrip (cs : counters) : Forall i64_ok (keys cs) ->
  map i64_of_u64 (map (fun p => spec_u64 (fst p)) cs) = map fst cs.
Proof.
  intros Hk. rewrite map_map. apply map_ext_in. intros p Hin. rewrite spec_u64_eq. apply i64_of_u64_of_i64.
  rewrite Forall_forall in Hk. apply Hk. unfold keys. apply in_map. exact Hin.
Qed.

Lemma combine_fst_snd {A B} (l : list (A * B)) : combine (map fst l) (map snd l) = l.
Proof. induction l as [|[x y] l IH]; cbn [map combine fst snd]; [reflexivity|]. rewrite IH. reflexivity. Qed.

Theorem reads_spec H v a : abs_wf a -> variant_ok v a ->
  exists s, fc_deserialize (enc_spec v a) (map H (map fst (a_counters a))) = Ok s /\
            abs_same a (abs_fc s) /\ fc_wf H s /\ tinv H (fc_map s) /\
            (forall k, rp_get (fc_map s) k (H k) = cs_get (a_counters a) k).
Proof.
  intros [[Alg3 [Alg Alg62]] And Apos Akeys [Afit Au32] [Asum Aw]] (Vhb & Vfl & Vu16 & Vu32 & Vform).
  rewrite (spec_capacity_cap _ Alg3) in Afit.
  assert (Hmin : LG_MIN <= a_lg_cur a) by (rewrite LG_MIN_val; exact Alg3).
  unfold fc_deserialize. destruct (use_short v a) eqn:Eshort.
  - (* the one-long form *)
    rewrite (enc_short v a Eshort).
    unfold use_short in Eshort. apply andb_prop in Eshort as [_ Ew]. apply N.eqb_eq in Ew.
    assert (Hnil : a_counters a = []).
    { destruct (a_counters a) as [|[k c] r] eqn:E; [reflexivity|]. exfalso.
      inversion Apos as [|? ? Hv _]; subst. cbn [snd] in Hv. unfold cs_sum in Asum. cbn [map snd sumN] in Asum. lia. }
    assert (Hoff : a_offset a = 0) by (rewrite Hnil in Asum; unfold cs_sum in Asum; cbn [map sumN] in Asum; lia).
    destruct (hibits_land (v_hibits v) 1 Vhb ltac:(lia)) as [Hl _].
    rewrite (parse_empty _ _ _ _ _ [] Hl Alg Alg62 Vform). cbn [obind].
    rewrite (build_empty _ _ Alg Alg62). eexists. split; [reflexivity|].
    destruct (fresh_wf H (a_lg_max a) (a_lg_cur a) Hmin Alg Alg62) as [Wf Hi].
    split; [|split; [exact Wf|split; [exact Hi|]]].
    + unfold abs_same, abs_fc, fresh_fc. rewrite !N.max_l by lia. cbn [fc_lg_max fc_map fc_weight fc_offset a_lg_max a_lg_cur a_weight a_offset a_counters].
      rewrite kv_new, Hnil. unfold rp_new; cbn [rp_lg]. splits; try congruence; reflexivity.
    + intros k. rewrite (wf_lookup H _ Wf Hi k). unfold fresh_fc. cbn [fc_map]. rewrite kv_new, Hnil. reflexivity.
  - (* the four-long form *)
    rewrite (enc_full v a Eshort).
    destruct (hibits_land (v_hibits v) 4 Vhb ltac:(lia)) as [Hl _].
    set (cs := a_counters a) in *.
    assert (Hlen : length (map (fun p => spec_u64 (fst p)) cs) = length (map snd cs)) by (rewrite !map_length; reflexivity).
    assert (Hvals : Forall (fun c => c < M64) (map snd cs)).
    { apply Forall_forall. intros c Hc. apply in_map_iff in Hc. destruct Hc as ([k c'] & <- & Hin). cbn [snd].
      pose proof (in_le_sum _ _ _ Hin). lia. }
    assert (Hitems : Forall (fun u => u < M64) (map (fun p => spec_u64 (fst p)) cs)).
    { apply Forall_forall. intros u Hu. apply in_map_iff in Hu. destruct Hu as (p & <- & _). rewrite spec_u64_eq. apply u64_of_i64_lt. }
    rewrite (parse_full _ _ _ _ _ _ _ _ _ _ _ [] Hl Alg Alg62 Vform).
    2:{ rewrite map_length. reflexivity. }
    2:{ exact Hlen. }
    2:{ exact Au32. }
    2:{ exact Aw. }
    2:{ lia. }
    2:{ exact Hvals. }
    2:{ exact Hitems. }
    2:{ rewrite N.max_l by lia. rewrite (cap_alt _ Alg3). exact Afit. }
    2:{ exact Asum. }
    cbn [obind].
    pose proof (abs_items_roundtrip cs Akeys) as Hkr.
    destruct (build_full H (a_lg_max a) (a_lg_cur a) (a_weight a) (a_offset a) (map snd cs)
                (map (fun p => spec_u64 (fst p)) cs) Alg Alg62 Hlen) as (m & E & Hi & P & El & Et & En).
    { rewrite N.max_l by lia. rewrite map_length. exact Afit. }
    rewrite Hkr in E, P. rewrite E. rewrite !N.max_l in * by lia.
    assert (Hload : cs_load [] (map fst cs) (map snd cs) = cs).
    { rewrite cs_load_distinct.
      - cbn [app]. apply combine_fst_snd.
      - rewrite !map_length. reflexivity.
      - cbn [keys map app]. exact And.
      - apply Forall_forall. intros c Hc. apply in_map_iff in Hc. destruct Hc as ([k c'] & <- & Hin). cbn [snd].
        unfold allpos in Apos. rewrite Forall_forall in Apos. specialize (Apos _ Hin). cbn [snd] in Apos. lia. }
    rewrite Hload in P.
    assert (Wf : fc_wf H (mkFc (a_lg_max a) (cap_of_lg (a_lg_cur a)) (a_offset a) (a_weight a)
                             (N.min SAMPLE_SIZE (cap_of_lg (a_lg_max a))) m)).
    { apply (build_full_wf H _ _ _ _ (map snd cs) (map (fun p => spec_u64 (fst p)) cs)); try assumption.
      - rewrite map_length. exact Afit.
      - rewrite map_length. exact Au32.
      - rewrite Hkr, Hload. exact P. }
    eexists. split; [reflexivity|]. split; [|split; [exact Wf|split; [exact Hi|]]].
    + unfold abs_same, abs_fc. cbn [fc_lg_max fc_map fc_weight fc_offset a_lg_max a_lg_cur a_weight a_offset a_counters].
      splits; try congruence; try reflexivity. exact P.
    + intros k. pose proof (wf_lookup H _ Wf Hi k) as L. cbn [fc_map] in L |- *. rewrite L.
      symmetry. apply cs_get_perm; [exact And|apply Permutation_sym; exact P].
Qed.

(* the specification is self-consistent: its decoder inverts its encoder *)
Theorem spec_decode_enc_spec v a : abs_wf a -> variant_ok v a ->
  spec_decode (enc_spec v a) = Some a.
Proof.
  intros [[Alg3 [Alg Alg62]] And Apos Akeys [Afit Au32] [Asum Aw]] (Vhb & Vfl & Vu16 & Vu32 & Vform).
  destruct (use_short v a) eqn:Eshort.
  - rewrite (enc_short v a Eshort).
    unfold use_short in Eshort. apply andb_prop in Eshort as [_ Ew]. apply N.eqb_eq in Ew.
    assert (Hnil : a_counters a = []).
    { destruct (a_counters a) as [|[k c] r] eqn:E; [reflexivity|]. exfalso.
      inversion Apos as [|? ? Hv _]; subst. cbn [snd] in Hv. unfold cs_sum in Asum. cbn [map snd sumN] in Asum. lia. }
    assert (Hoff : a_offset a = 0) by (rewrite Hnil in Asum; unfold cs_sum in Asum; cbn [map sumN] in Asum; lia).
    destruct (hibits_land (v_hibits v) 1 Vhb ltac:(lia)) as [_ Hm].
    rewrite (spec_empty _ _ _ _ _ [] Hm Vfl Vform). destruct a; cbn in *; subst; reflexivity.
  - rewrite (enc_full v a Eshort).
    destruct (hibits_land (v_hibits v) 4 Vhb ltac:(lia)) as [_ Hm].
    rewrite (spec_full _ _ _ _ _ _ _ _ _ _ _ [] Hm Vfl Vform).
    + rewrite (map_ext spec_i64 i64_of_u64 spec_i64_eq), (abs_items_roundtrip _ Akeys), combine_fst_snd.
      destruct a; reflexivity.
    + rewrite map_length. reflexivity.
    + rewrite !map_length. reflexivity.
    + exact Au32.
    + exact Aw.
    + lia.
    + apply Forall_forall. intros c Hc. apply in_map_iff in Hc. destruct Hc as ([k c'] & <- & Hin). cbn [snd].
      pose proof (in_le_sum _ _ _ Hin). lia.
    + apply Forall_forall. intros u Hu. apply in_map_iff in Hu. destruct Hu as (p & <- & _). rewrite spec_u64_eq. apply u64_of_i64_lt.
Qed.

(* ---------- C14: the reader on arbitrary bytes ---------- *)
(* what validation guarantees about an accepted image *)
Definition image_ok (bs : list N) (img : fc_image) : Prop :=
  match img with
  | ImgEmpty lgm lgc => lgm = nth 3 bs 0 /\ lgc = nth 4 bs 0 /\ lgc <= lgm /\ lgm <= 62
  | ImgFull lgm lgc w off vals items =>
      lgm = nth 3 bs 0 /\ lgc = nth 4 bs 0 /\ lgc <= lgm /\ lgm <= 62 /\ length items = length vals /\
      N.of_nat (length vals) <= cap_of_lg (N.max lgc LG_MIN) /\ off + sumN vals <= w /\
      (32 + 16 * length vals <= length bs)%nat /\
      N.of_nat (length vals) = le_val (firstn 4 (skipn 8 bs)) /\
      (bytes_ok bs = true -> w < M64 /\ off < M64 /\ N.of_nat (length vals) < 2 ^ 32 /\
                             Forall (fun v => v < M64) vals /\ Forall (fun v => v < M64) items)
  end.

Lemma parse_sound bs : match fc_parse bs with Ok img => image_ok bs img | Err => True | Stuck => False end.
Proof.
  unfold fc_parse.
  destruct (length bs <? 8)%nat; [exact I|].
  destruct (negb (nth 2 bs 0 =? _)); [exact I|].
  destruct (negb (nth 1 bs 0 =? _)); [exact I|].
  destruct (N.ltb_spec (nth 3 bs 0) (nth 4 bs 0)) as [|Hlg]; [exact I|].
  destruct (N.leb_spec M64 (2 ^ nth 3 bs 0 * LOAD_NUM)) as [|Hm]; [exact I|].
  assert (Hlgm : nth 3 bs 0 <= 62).
  { destruct (N.le_gt_cases (nth 3 bs 0) 62) as [|Hgt]; [assumption|].
    pose proof (pow2_ge_63 (nth 3 bs 0) ltac:(lia)). rewrite LOAD_NUM_val in Hm. lia. }
  destruct (negb (N.land (nth 5 bs 0) _ =? 0)).
  - destruct (negb (_ =? _)); [exact I|]. cbn [image_ok]. auto.
  - destruct (negb (_ =? _)); [exact I|].
    destruct (Nat.ltb_spec (length bs) 32) as [|Hl32]; [exact I|].
    set (active := le_val (firstn 4 (skipn 8 bs))).
    destruct (N.ltb_spec ((N.of_nat (length bs) - zN GenFreq.PREAMBLE_LONGS_NONEMPTY * 8) / 8) active) as [|Hpay]; [exact I|].
    destruct (N.ltb_spec (2 ^ N.max (nth 4 bs 0) LG_MIN / LOAD_DEN * LOAD_NUM) active) as [|Hcap]; [exact I|].
    destruct (read_u64s (N.to_nat active) (skipn 32 bs)) as [[vals rest]|] eqn:E1; [|exact I].
    destruct (N.ltb_spec (le_val (firstn 8 (skipn 16 bs))) (le_val (firstn 8 (skipn 24 bs)) + sumN vals)) as [|Hsum]; [exact I|].
    destruct (read_u64s (N.to_nat active) rest) as [[items rest2]|] eqn:E2; [|exact I].
    apply read_u64s_ok in E1 as (Hl1 & Hb1 & Hr1 & Hall1). apply read_u64s_ok in E2 as (Hl2 & Hb2 & Hr2 & Hall2).
    rewrite skipn_length in Hb1.
    cbn [image_ok]. splits; try reflexivity; try assumption.
    + congruence.
    + rewrite Hl1, N2Nat.id. rewrite cap_alt in Hcap; [exact Hcap|rewrite LG_MIN_val; lia].
    + lia.
    + rewrite Hl1, N2Nat.id. reflexivity.
    + intros Hok.
      assert (B8 : forall k, le_val (firstn 8 (skipn k bs)) < M64).
      { intros k. unfold M64. change 18446744073709551616 with (256 ^ N.of_nat 8).
        apply le_val_lt; [apply bytes_ok_firstn, bytes_ok_skipn, Hok|rewrite firstn_length; lia]. }
      splits; try apply B8.
      * rewrite Hl1, N2Nat.id. unfold active. change (2 ^ 32) with (256 ^ N.of_nat 4).
        apply le_val_lt; [apply bytes_ok_firstn, bytes_ok_skipn, Hok|rewrite firstn_length; lia].
      * apply Hall1. apply bytes_ok_skipn. exact Hok.
      * apply Hall2. rewrite Hr1. apply bytes_ok_skipn, bytes_ok_skipn. exact Hok.
Qed.

Lemma parse_never_stuck bs : fc_parse bs <> Stuck.
Proof. pose proof (parse_sound bs) as S. destruct (fc_parse bs); [discriminate|discriminate|contradiction]. Qed.

Lemma build_never_stuck bs img hashes : image_ok bs img -> exists c, fc_build img hashes = Ok c.
Proof.
  destruct img as [lgm lgc|lgm lgc w off vals items]; cbn [image_ok].
  - intros (_ & _ & H1 & H2). exists (fresh_fc lgm lgc). apply build_empty; assumption.
  - intros (_ & _ & H1 & H2 & Hlen & Hcap & _). cbn [fc_build]. rewrite (with_lg_ok lgm lgc H1 H2). cbn [obind].
    destruct (load_total (map i64_of_u64 items) hashes vals (fresh_fc lgm lgc)) as (c' & E & _).
    { rewrite (fresh_cur_cap lgm lgc H1 H2). unfold fresh_fc, rp_new. cbn [fc_map rp_active]. lia. }
    rewrite E. cbn [obind]. eexists. reflexivity.
Qed.

(* for ANY byte list and ANY hash list the reader returns Ok or Err *)
Theorem deserialize_never_stuck bs hashes : fc_deserialize bs hashes <> Stuck.
Proof.
  unfold fc_deserialize. pose proof (parse_sound bs) as S.
  destruct (fc_parse bs) as [img| |]; cbn [obind]; [|discriminate|contradiction].
  destruct (build_never_stuck bs img hashes S) as [c E]. rewrite E. discriminate.
Qed.

(* the items of an accepted image, in image order (the crate hashes them itself) *)
Definition fc_items (bs : list N) : list Z :=
  match fc_parse bs with Ok (ImgFull _ _ _ _ _ items) => map i64_of_u64 items | _ => [] end.

(* whatever the reader accepts is a well-formed sketch (and its table satisfies the probe invariant) *)
Theorem deserialize_ok_wf H bs c : bytes_ok bs = true ->
  fc_deserialize bs (map H (fc_items bs)) = Ok c -> fc_wf H c /\ tinv H (fc_map c) /\
  rp_len (fc_map c) = fc_deser_table_slots bs.
Proof.
  intros Hok. unfold fc_deserialize, fc_items. pose proof (parse_sound bs) as S.
  destruct (fc_parse bs) as [img| |]; cbn [obind]; [|discriminate|contradiction].
  destruct img as [lgm lgc|lgm lgc w off vals items]; cbn [image_ok] in S.
  - destruct S as (-> & -> & H1 & H2). rewrite (build_empty _ _ H1 H2). intros E. inversion E; subst c.
    unfold fc_deser_table_slots.
    (* lg_cur below LG_MIN is raised to LG_MIN by with_lg_map_sizes *)
    assert (Hf : fresh_fc (nth 3 bs 0) (nth 4 bs 0) = fresh_fc (N.max (nth 3 bs 0) LG_MIN) (N.max (nth 4 bs 0) LG_MIN)).
    { assert (Hmm : forall x, N.max (N.max x LG_MIN) LG_MIN = N.max x LG_MIN) by (intros; lia).
      unfold fresh_fc. rewrite !Hmm. reflexivity. }
    rewrite Hf. destruct (fresh_wf H (N.max (nth 3 bs 0) LG_MIN) (N.max (nth 4 bs 0) LG_MIN)) as [Wf Hi].
    { lia. } { lia. } { rewrite LG_MIN_val. lia. }
    split; [exact Wf|split; [exact Hi|]]. unfold fresh_fc. cbn [fc_map]. rewrite rp_len_new.
    f_equal. lia.
  - destruct S as (-> & -> & H1 & H2 & Hlen & Hcap & Hsum & Hlb & _ & Hb). destruct (Hb Hok) as (Hw & Hoff & Hu32 & Hvals & Hitems).
    destruct (build_full H _ _ w off vals items H1 H2 Hlen Hcap) as (m & E & Hi & P & El & Et & En).
    rewrite E. intros E'. inversion E'; subst c. cbn [fc_map].
    split; [|split; [exact Hi|rewrite En; reflexivity]].
    apply (build_full_wf H _ _ _ _ vals items); try assumption; try lia.
    + rewrite LG_MIN_val. lia.
Qed.

(* allocation: the two vectors are requested only once their contents are known to be present,
   so they are bounded by the input; nothing is allocated for a rejected image; the table of an
   accepted image has the 2^lg_cur slots byte 4 announces (inherent in the format) *)
Theorem deser_vec_bytes_bound bs : fc_deser_vec_bytes bs <= 2 * N.of_nat (length bs).
Proof.
  unfold fc_deser_vec_bytes. destruct (Nat.ltb_spec (length bs) 32); [lia|].
  change (zN GenFreq.PREAMBLE_LONGS_NONEMPTY * 8) with 32.
  set (active := le_val (firstn 4 (skipn 8 bs))).
  destruct (N.ltb_spec ((N.of_nat (length bs) - 32) / 8) active) as [|Hp]; [lia|].
  assert (8 * ((N.of_nat (length bs) - 32) / 8) <= N.of_nat (length bs) - 32) by (apply N.mul_div_le; lia).
  lia.
Qed.

Theorem deser_vec_bytes_exact bs lgm lgc w off vals items : fc_parse bs = Ok (ImgFull lgm lgc w off vals items) ->
  fc_deser_vec_bytes bs = 16 * N.of_nat (length vals).
Proof.
  intros E. pose proof (parse_sound bs) as S. rewrite E in S. cbn [image_ok] in S.
  destruct S as (_ & _ & _ & _ & _ & _ & _ & Hlb & Hact & _).
  unfold fc_deser_vec_bytes. destruct (Nat.ltb_spec (length bs) 32); [lia|].
  change (zN GenFreq.PREAMBLE_LONGS_NONEMPTY * 8) with 32. rewrite <- Hact.
  destruct (N.ltb_spec ((N.of_nat (length bs) - 32) / 8) (N.of_nat (length vals))) as [Hbad|]; [|reflexivity].
  exfalso. assert (N.of_nat (length vals) <= (N.of_nat (length bs) - 32) / 8) by (apply N.div_le_lower_bound; lia). lia.
Qed.

(* ---------- reachable states are well-formed (abstract level) ---------- *)
(* Every sketch a history can produce, for any purge samples and merge orders (C07's [runs]),
   has duplicate-free positive counters that fit the current capacity, and counters plus offset
   never exceed the stream weight. *)
Record fi_wf (s : fi) : Prop := {
  fw_lg : LG_MIN <= fi_lg_cur s /\ fi_lg_cur s <= fi_lg_max s /\ fi_lg_max s <= 62;
  fw_nodup : NoDup (keys (fi_cs s));
  fw_pos : allpos (fi_cs s);
  fw_keys : Forall i64_ok (keys (fi_cs s));
  fw_fit : fi_num_active s <= fi_cur_cap s;
  fw_weight : fi_offset s + cs_sum (fi_cs s) <= fi_weight s /\ fi_weight s < M64
}.

Theorem reachable_fi_wf h s : runs h s -> weight h < M64 -> lgm h <= 62 -> (forall x, 0 < truth h x -> i64_ok x) -> fi_wf s.
Proof.
  intros R Hw Hlg Hitems. destruct (runs_good h s R) as ([Hnd Hpos Hbr Hpot Hlgmin Hlgmax Hcap Hhm1 Hhm] & Ew & El).
  constructor.
  - splits; [exact Hlgmin|exact Hlgmax|rewrite El; exact Hlg].
  - exact Hnd.
  - exact Hpos.
  - apply Forall_forall. intros x Hx. apply Hitems. destruct (Hbr x) as [Hl _].
    assert (0 < cs_get (fi_cs s) x); [|lia].
    unfold keys in Hx. apply in_map_iff in Hx. destruct Hx as ([k v] & Ek & Hin). cbn [fst] in Ek. subst k.
    rewrite (in_cs_get _ _ _ Hnd Hin). unfold allpos in Hpos. rewrite Forall_forall in Hpos. apply (Hpos _ Hin).
  - lia.
  - rewrite Ew. split; [|exact Hw].
    assert (fi_offset s * 1 <= fi_offset s * hmin h) by (apply N.mul_le_mono_l; exact Hhm1). lia.
Qed.

(* A concrete sketch whose abstract view is well-formed and whose bookkeeping fields are consistent
   is well-formed for the codec.  (That the crate's table keeps this bookkeeping and that its
   abstract view is a reachable state is what the lock-step correspondence run checks at every
   step, Corr/Freq.v [full_eq]; for tables built by deserialize it is proved: [roundtrip],
   [deserialize_ok_wf].) *)
Record fc_shape (H : Z -> N) (c : fc) : Prop := {
  sh_cap : fc_cur_cap c = rp_thr (fc_map c) /\ rp_thr (fc_map c) = load_threshold (2 ^ rp_lg (fc_map c));
  sh_ss : fc_sample_size c = N.min SAMPLE_SIZE (cap_of_lg (fc_lg_max c));
  sh_len : rp_len (fc_map c) = 2 ^ rp_lg (fc_map c);
  sh_active : rp_active (fc_map c) = N.of_nat (length (active_entries (fc_map c)));
  sh_u32 : rp_active (fc_map c) < 2 ^ 32;
  sh_hash : Forall (fun e => e_hash e = H (e_key e)) (active_entries (fc_map c))
}.

Theorem wf_of_abstract H c : fi_wf (fi_of_fc c) -> fc_shape H c -> fc_wf H c.
Proof.
  intros [[L1 [L2 L3]] Hnd Hpos Hkeys Hfit [Hs Hw]] [[C1 C2] Hss Hlen Hact Hu32 Hhash].
  unfold fi_of_fc in *. cbn [fi_lg_cur fi_lg_max fi_cs fi_offset fi_weight] in *.
  constructor; try assumption; try (split; assumption).
  unfold fi_num_active, fi_cur_cap in Hfit. cbn [fi_cs fi_lg_cur] in Hfit. rewrite map_length in Hfit.
  rewrite C1, C2, load_threshold_cap by (rewrite LG_MIN_val in L1; lia). rewrite Hact. exact Hfit.
Qed.

(* ---------- non-vacuity, and the limit of the format ----------
   A well-formed sketch (map size 8, six counters, the cluster of items 1 and 2 wraps around the
   table end) whose round-trip copy is the same finite map in a different slot layout; one further
   update purges the original with median 4 and the copy with median 5 (the purge samples the
   first six of the seven counters in slot order). *)
Definition ex_hash (k : Z) : N :=
  match k with 1%Z => 7 | 2%Z => 7 | 3%Z => 1 | 4%Z => 2 | 5%Z => 3 | 6%Z => 4 | 7%Z => 5 | _ => 0 end.
Definition ex_tab : list (option entry) :=
  [Some (mkEntry 2 7 1 2); Some (mkEntry 3 1 2 1); Some (mkEntry 4 2 3 1); Some (mkEntry 5 3 4 1); Some (mkEntry 6 4 5 1);
   None; None; Some (mkEntry 1 7 10 1)].
Definition ex_fc : fc := mkFc 3 6 0 25 6 (mkRp 3 6 ex_tab 6).

Lemma ex_fc_wf : fc_wf ex_hash ex_fc.
Proof.
  constructor; cbn.
  - lia.
  - lia.
  - split; [reflexivity|vm_compute; reflexivity].
  - vm_compute. reflexivity.
  - reflexivity.
  - reflexivity.
  - lia.
  - vm_compute. reflexivity.
  - repeat constructor; cbn; intuition congruence.
  - repeat constructor; cbn; lia.
  - repeat constructor; unfold i64_ok; lia.
  - repeat constructor.
  - unfold M64. lia.
Qed.

Lemma ex_layout_not_carried :
  fc_wf ex_hash ex_fc /\
  exists c' c1 c1' tr tr',
    fc_deserialize (fc_serialize ex_fc) (map e_hash (active_entries (fc_map ex_fc))) = Ok c' /\
    fc_same ex_hash ex_fc c' /\ rp_tab (fc_map c') <> ex_tab /\
    fc_update ex_fc 7 (ex_hash 7) 6 = Ok (c1, tr) /\ fc_update c' 7 (ex_hash 7) 6 = Ok (c1', tr') /\
    fc_offset c1 = 4 /\ fc_offset c1' = 5.
Proof.
  split; [exact ex_fc_wf|].
  destruct (roundtrip ex_hash ex_fc ex_fc_wf) as (c' & E & Same & _ & _).
  assert (E2 : exists x, fc_deserialize (fc_serialize ex_fc) (map e_hash (active_entries (fc_map ex_fc))) = Ok x /\
                         rp_tab (fc_map x) <> ex_tab /\
                         exists c1' tr', fc_update x 7 (ex_hash 7) 6 = Ok (c1', tr') /\ fc_offset c1' = 5).
  { eexists. split; [vm_compute; reflexivity|]. split; [vm_compute; discriminate|].
    do 2 eexists. split; [vm_compute; reflexivity|reflexivity]. }
  destruct E2 as (x & Ex & Hne & c1' & tr' & Eu & Eo). rewrite E in Ex. inversion Ex; subst x.
  exists c'. do 2 eexists. exists [[1; 2; 3; 4; 5; 6]], tr'.
  split; [exact E|]. split; [exact Same|]. split; [exact Hne|].
  split; [vm_compute; reflexivity|]. split; [exact Eu|]. split; [reflexivity|exact Eo].
Qed.

Lemma rejected_builds_nothing bs hashes : fc_parse bs = Err -> fc_deserialize bs hashes = Err.
Proof. intros E. unfold fc_deserialize. rewrite E. reflexivity. Qed.

(* non-vacuity for C13: a foreign image with every liberty taken, and a weight-carrying sketch without counters in the four-long form *)
Lemma ex_foreign :
  let a := mkFA 5 3 40 2 [(7%Z, 30); ((-1)%Z, 8)] in
  let v := mkV 3 0xFA 0xBEEF 0xDEADBEEF true in
  abs_wf a /\ variant_ok v a /\
  (exists s, fc_deserialize (enc_spec v a) [12; 11] = Ok s /\ abs_fc s = mkFA 5 3 40 2 [((-1)%Z, 8); (7%Z, 30)]) /\
  let a0 := mkFA 4 4 35 5 [] in
  abs_wf a0 /\ variant_ok (mkV 1 0 0 0 true) a0 /\
  exists s, fc_deserialize (enc_spec (mkV 1 0 0 0 true) a0) [] = Ok s /\ abs_fc s = a0.
Proof.
  cbv zeta. split; [|split; [|split; [|split; [|split]]]].
  - constructor; cbn.
    + lia.
    + repeat constructor; cbn; intuition congruence.
    + repeat constructor; cbn; lia.
    + repeat constructor; unfold i64_ok; lia.
    + split; [vm_compute; discriminate|vm_compute; reflexivity].
    + unfold M64. lia.
  - unfold variant_ok. cbn. repeat split; try lia.
  - eexists. split; vm_compute; reflexivity.
  - constructor; cbn.
    + lia.
    + constructor.
    + constructor.
    + constructor.
    + split; [vm_compute; discriminate|vm_compute; reflexivity].
    + unfold M64. lia.
  - unfold variant_ok. cbn. repeat split; try lia.
  - eexists. split; vm_compute; reflexivity.
Qed.
