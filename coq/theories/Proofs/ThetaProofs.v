(* Theta update sketch: the KMV invariant over arbitrary operation histories.

   [Inv c s off]: the table of [s] is a valid open-addressing layout whose stored keys are
   exactly the hashes offered since the last reset ([off]) that lie in (0, theta); the count
   field is their number; theta <= theta0; num_entries <= capacity < table size; theta is below
   theta0 only if more than k distinct offered hashes lie in (0, theta0).
   Every operation (update with ANY hash, trim, reset) preserves it and never gets stuck.

   The order in which `rebuild` re-inserts the k smallest entries (left unspecified by
   `select_nth_unstable`) is the section variable [reorder]; everything is proved for every
   [reorder] that returns a permutation of its second argument ([reorder_ok]). *)
From Coq Require Import List PArith NArith Nnat ZArith Bool Lia Permutation Sorted Floats.
From Coq Require Import ZifyBool ZifyNat ZifyN.
From DS Require Import Base.Prelude Base.FloatBits Base.ThetaLib Model.Theta.
From DS Require Import Proofs.ThetaLibProofs Proofs.ThetaOpenAddr.
From DS Require Gen.GenTheta.
Open Scope N_scope.

Ltac Zify.zify_post_hook ::= Z.div_mod_to_equations.

(* ---------- operation histories ---------- *)
Inductive top := OUpdate (h : N) | OTrim | OReset | OCompact (ordered : bool).

Definition reorder_ok (r : reorder_t) : Prop := forall es l, Permutation l (r es l).

Lemma ascending_ok : reorder_ok ascending.
Proof. intros es l. apply Permutation_refl. Qed.

(* the hashes offered since the last reset *)
Definition offered_step (off : list N) (o : top) : list N :=
  match o with OUpdate h => h :: off | OReset => [] | _ => off end.
Definition offered_from (off : list N) (ops : list top) : list N := fold_left offered_step ops off.
Definition offered (ops : list top) : list N := offered_from [] ops.

Definition nilb (l : list N) : bool := match l with [] => true | _ => false end.

Section Reorder.
Variable reorder : reorder_t.
Hypothesis reorder_perm : reorder_ok reorder.

Definition step_op (s : tsk) (o : top) : outcome tsk :=
  match o with
  | OUpdate h => sk_update reorder s h
  | OTrim => sk_trim reorder s
  | OReset => Ok (sk_reset s)
  | OCompact _ => Ok s            (* compact(&self) does not change the sketch *)
  end.

Fixpoint run_ops (s : tsk) (ops : list top) : outcome tsk :=
  match ops with
  | [] => Ok s
  | o :: r => obind (step_op s o) (fun s' => run_ops s' r)
  end.

End Reorder.

(* ---------- configuration ---------- *)
Definition cfg_ok (c : tcfg) : Prop :=
  MIN_LG_K <= c_lg_nom c /\ c_lg_nom c <= MAX_LG_K /\ c_rf c <= 3.

Definition theta0 (c : tcfg) : N := starting_theta (c_pbits c).

Definition qualifies (c : tcfg) (h : N) : bool := (0 <? h) && (h <? theta0 c).
(* the distinct offered hashes in (0, theta0) *)
Definition qual (c : tcfg) (off : list N) : list N := nodup N.eq_dec (filter (qualifies c) off).

(* the starting theta is never 0 (the repaired code clamps it to 1) *)
Lemma theta0_pos : forall c, 0 < theta0 c.
Proof.
  intros c. unfold theta0, starting_theta.
  destruct (PrimFloat.ltb _ _); [|reflexivity].
  change (lit GenTheta.LIT_starting_theta_from_sampling_probability 0) with 1. lia.
Qed.

Lemma lgk_consts : MIN_LG_K = 5 /\ MAX_LG_K = 26.
Proof. split; reflexivity. Qed.

(* ---------- capacity: the float expression is exact on the whole configuration range ---------- *)
Definition cap_frac (below_nominal : bool) (lg : N) : N :=
  let fraction :=
    if below_nominal then float_of_bits GenTheta.RESIZE_THRESHOLD_bits
    else float_of_bits GenTheta.REBUILD_THRESHOLD_bits in
  zN (Z_of_float_trunc_sat 0 U64_MAX (PrimFloat.mul fraction (float_of_Z63 (Nz (2 ^ lg))))).

Lemma get_capacity_frac : forall lg lg_nom, get_capacity lg lg_nom = cap_frac (lg <=? lg_nom) lg.
Proof. intros. unfold get_capacity, cap_frac. destruct (lg <=? lg_nom); reflexivity. Qed.

(* finite sweep over every table size a valid configuration can have: lg in [5, 27] *)
Lemma cap_sweep :
  forallb (fun lg => (cap_frac true lg =? 2 ^ lg / 2) && (cap_frac false lg =? 15 * 2 ^ lg / 16)) (rangeN 23 5) = true.
Proof. vm_compute. reflexivity. Qed.

Lemma cap_exact : forall lg, 5 <= lg -> lg <= 27 ->
  cap_frac true lg = 2 ^ lg / 2 /\ cap_frac false lg = 15 * 2 ^ lg / 16.
Proof.
  intros lg H1 H2. pose proof cap_sweep as H. rewrite forallb_forall in H.
  specialize (H lg). rewrite andb_true_iff, !N.eqb_eq in H. apply H.
  apply rangeN_In. cbn. lia.
Qed.

Definition lg_wf (c : tcfg) (lg : N) : Prop :=
  5 <= lg /\ lg <= c_lg_nom c + 1 /\ (c_rf c = 0 -> lg = c_lg_nom c + 1).

Lemma get_capacity_exact : forall c lg, cfg_ok c -> lg_wf c lg ->
  get_capacity lg (c_lg_nom c) = if lg <=? c_lg_nom c then 2 ^ lg / 2 else 15 * 2 ^ lg / 16.
Proof.
  intros c lg [_ [Hmax _]] [H5 [Hle _]]. destruct lgk_consts as [_ E26]. rewrite E26 in Hmax.
  rewrite get_capacity_frac. destruct (cap_exact lg H5) as [Ht Hf]; [lia|].
  destruct (lg <=? c_lg_nom c); assumption.
Qed.

Lemma pow2_split : forall lg, 5 <= lg -> exists m, 2 ^ lg = 32 * m /\ 0 < m.
Proof.
  intros lg H. exists (2 ^ (lg - 5)). split; [|apply pow2_pos].
  replace lg with (5 + (lg - 5)) at 1 by lia. rewrite N.pow_add_r. reflexivity.
Qed.

Lemma pow2_succ : forall lg, 2 ^ (lg + 1) = 2 * 2 ^ lg.
Proof. intros. rewrite N.add_1_r. apply N.pow_succ_r'. Qed.

Lemma pow2_mono : forall a b, a <= b -> 2 ^ a <= 2 ^ b.
Proof. intros. apply N.pow_le_mono_r; [discriminate|assumption]. Qed.

Lemma init_lg_wf : forall c, cfg_ok c -> lg_wf c (init_lg_cur c).
Proof.
  intros c [Hmin _]. destruct lgk_consts as [E5 _]. rewrite E5 in Hmin.
  unfold lg_wf, init_lg_cur, starting_sub_multiple, lg_max. rewrite E5.
  destruct (N.leb_spec (c_lg_nom c + 1) 5); [lia|].
  destruct (N.eqb_spec (c_rf c) 0) as [Z|NZ]; [lia|].
  pose proof (N.mod_le (c_lg_nom c + 1 - 5) (c_rf c) NZ). lia.
Qed.

(* ---------- the invariant ---------- *)
Record InvW (c : tcfg) (s : tsk) (off : list N) : Prop := {
  w_cfg : t_cfg s = c;
  w_oa : OA (t_lg_cur s) (t_slots s);
  w_n : t_n s = N.of_nat (length (sk_entries s));
  w_set : forall x, In x (sk_entries s) <-> In x off /\ 0 < x /\ x < t_theta s;
  w_theta : t_theta s <= theta0 c;
  w_lg : lg_wf c (t_lg_cur s);
  w_est : t_theta s < theta0 c -> 2 ^ c_lg_nom c < N.of_nat (length (qual c off));
  w_pos : 0 < theta0 c -> 0 < t_theta s
}.

Definition InvC (c : tcfg) (s : tsk) (off : list N) : Prop :=
  InvW c s off /\ t_n s <= get_capacity (t_lg_cur s) (c_lg_nom c).

(* the full invariant: is_empty <-> nothing was offered since the last reset *)
Definition Inv (c : tcfg) (s : tsk) (off : list N) : Prop :=
  InvC c s off /\ t_empty s = nilb off.

(* the invariant does not look at the emptiness flag *)
Lemma InvW_mark : forall c s off, InvW c s off -> InvW c (mark_offered s) off.
Proof. intros c s off [H1 H2 H3 H4 H5 H6 H7 H8]. constructor; assumption. Qed.

Lemma entries_NoDup : forall c s off, InvW c s off -> NoDup (sk_entries s).
Proof. intros c s off H. unfold sk_entries. apply OA_values_NoDup. apply (w_oa _ _ _ H). Qed.

Lemma entries_nonzero : forall s x, In x (sk_entries s) -> x <> 0.
Proof. intros s x H. unfold sk_entries in H. apply sl_values_In in H. tauto. Qed.

(* ---------- qualifying hashes ---------- *)
Lemma qual_In : forall c off x, In x (qual c off) <-> In x off /\ 0 < x /\ x < theta0 c.
Proof.
  intros. unfold qual. rewrite nodup_In, filter_In. unfold qualifies.
  rewrite andb_true_iff, !N.ltb_lt. tauto.
Qed.

Lemma qual_NoDup : forall c off, NoDup (qual c off).
Proof. intros. apply NoDup_nodup. Qed.

Lemma qual_mono : forall c off h, (length (qual c off) <= length (qual c (h :: off)))%nat.
Proof.
  intros. apply NoDup_incl_length; [apply qual_NoDup|].
  intros x Hx. apply qual_In in Hx. apply qual_In. cbn [In]. tauto.
Qed.

Lemma qual_bound : forall c off (E : list N),
  NoDup E -> (forall x, In x E -> In x off /\ 0 < x /\ x < theta0 c) ->
  (length E <= length (qual c off))%nat.
Proof.
  intros c off E ND H. apply NoDup_incl_length; [exact ND|].
  intros x Hx. apply qual_In. now apply H.
Qed.

(* ---------- resize ---------- *)
Lemma resize_spec : forall s,
  OA (t_lg_cur s) (t_slots s) ->
  t_lg_cur s <= N.min (t_lg_cur s + c_rf (t_cfg s)) (lg_max (t_cfg s)) ->
  N.of_nat (length (sk_entries s)) <= 2 ^ t_lg_cur s ->
  exists sl,
    resize s = Ok (mkSk (t_cfg s) (N.min (t_lg_cur s + c_rf (t_cfg s)) (lg_max (t_cfg s))) (t_theta s) sl (t_n s) (t_empty s)) /\
    OA (N.min (t_lg_cur s + c_rf (t_cfg s)) (lg_max (t_cfg s))) sl /\
    Permutation (sk_entries s) (sl_values sl (2 ^ N.min (t_lg_cur s + c_rf (t_cfg s)) (lg_max (t_cfg s)))).
Proof.
  intros s HOA Hlg Hroom. set (new_lg := N.min (t_lg_cur s + c_rf (t_cfg s)) (lg_max (t_cfg s))) in *.
  destruct (insert_all_spec new_lg (sk_entries s) sl_empty) as [sl [Hrun [HOA' Hperm]]].
  - apply OA_empty.
  - unfold sk_entries. now apply OA_values_NoDup.
  - intros e He. split; [eapply entries_nonzero; eauto|]. rewrite sl_values_empty. intros [].
  - rewrite sl_values_empty. cbn [length Nat.add]. pose proof (pow2_mono _ _ Hlg). lia.
  - exists sl. unfold resize. fold new_lg. rewrite Hrun. cbn [obind]. split; [reflexivity|]. split; [exact HOA'|].
    rewrite sl_values_empty, app_nil_r in Hperm. exact Hperm.
Qed.

(* ---------- rebuild ---------- *)
Section Reorder2.
Variable reorder : reorder_t.
Hypothesis reorder_perm : reorder_ok reorder.

Lemma rebuild_spec : forall s,
  OA (t_lg_cur s) (t_slots s) ->
  (N.to_nat (2 ^ c_lg_nom (t_cfg s)) < length (sk_entries s))%nat ->
  2 ^ c_lg_nom (t_cfg s) <= 2 ^ t_lg_cur s ->
  exists sl,
    rebuild reorder s = Ok (mkSk (t_cfg s) (t_lg_cur s)
                         (nth (N.to_nat (2 ^ c_lg_nom (t_cfg s))) (sortN (sk_entries s)) 0)
                         sl (2 ^ c_lg_nom (t_cfg s)) (t_empty s)) /\
    OA (t_lg_cur s) sl /\
    Permutation (firstn (N.to_nat (2 ^ c_lg_nom (t_cfg s))) (sortN (sk_entries s))) (sl_values sl (2 ^ t_lg_cur s)).
Proof.
  intros s HOA Hk Hsize. set (k := 2 ^ c_lg_nom (t_cfg s)) in *. set (E := sk_entries s) in *.
  assert (ND : NoDup E) by (unfold E, sk_entries; now apply OA_values_NoDup).
  destruct (k_smallest E (N.to_nat k) ND Hk) as [Hth [Hmem [NDl Hlen]]]. cbv zeta in *.
  pose proof (reorder_perm E (firstn (N.to_nat k) (sortN E))) as HP.
  destruct (insert_all_spec (t_lg_cur s) (reorder E (firstn (N.to_nat k) (sortN E))) sl_empty) as [sl [Hrun [HOA' Hperm]]].
  - apply OA_empty.
  - eapply Permutation_NoDup; [exact HP|exact NDl].
  - intros e He. eapply Permutation_in in He; [|apply Permutation_sym; exact HP]. split.
    + apply Hmem in He. destruct He as [He _]. eapply entries_nonzero; eauto.
    + rewrite sl_values_empty. intros [].
  - rewrite sl_values_empty, <- (Permutation_length HP), Hlen. cbn [length Nat.add]. lia.
  - exists sl. unfold rebuild. fold E. fold k.
    destruct (N.leb_spec (N.of_nat (length E)) k) as [Hbad|_]; [lia|].
    rewrite Hrun. cbn [obind]. rewrite <- (Permutation_length HP), Hlen, N2Nat.id, N.eqb_refl. cbn [negb].
    split; [reflexivity|]. split; [exact HOA'|].
    rewrite sl_values_empty, app_nil_r in Hperm.
    eapply Permutation_trans; [exact HP|exact Hperm].
Qed.
End Reorder2.

(* ---------- capacity facts ---------- *)
Lemma cap_lt_size : forall c lg, cfg_ok c -> lg_wf c lg -> get_capacity lg (c_lg_nom c) < 2 ^ lg.
Proof.
  intros c lg Hc Hlg. rewrite get_capacity_exact by assumption.
  destruct (pow2_split lg) as [m [E Hm]]; [apply Hlg|]. rewrite E.
  destruct (lg <=? c_lg_nom c); lia.
Qed.

Lemma lgnom_ge5 : forall c, cfg_ok c -> 5 <= c_lg_nom c.
Proof. intros c [H _]. destruct lgk_consts as [E _]. rewrite E in H. exact H. Qed.

(* ---------- the fresh sketch ---------- *)
Lemma new_inv : forall c, cfg_ok c -> Inv c (sk_new c) [].
Proof.
  intros c Hc. unfold sk_new. split; [split; [constructor|]|]; cbn [t_cfg t_lg_cur t_theta t_slots t_n t_empty].
  - reflexivity.
  - apply OA_empty.
  - unfold sk_entries. cbn [t_slots t_lg_cur]. rewrite sl_values_empty. reflexivity.
  - intros x. unfold sk_entries. cbn [t_slots t_lg_cur]. rewrite sl_values_empty. cbn [In]. tauto.
  - unfold theta0. lia.
  - now apply init_lg_wf.
  - unfold theta0. lia.
  - unfold theta0. lia.
  - lia.
  - reflexivity.
Qed.

(* ---------- resize keeps everything but the layout ---------- *)
Lemma resize_inv : forall c s off, cfg_ok c -> InvW c s off ->
  t_lg_cur s <= c_lg_nom c -> t_n s <= 2 ^ t_lg_cur s / 2 + 1 ->
  exists s', resize s = Ok s' /\ InvC c s' off /\ t_theta s' = t_theta s /\ t_empty s' = t_empty s /\
             Permutation (sk_entries s) (sk_entries s').
Proof.
  intros c s off Hc HW Hbelow Hcount.
  destruct HW as [Hcfg HOA Hn Hset Hth Hlg Hest Hpos0].
  destruct Hlg as [H5 [Hle Hrf]].
  assert (Hrf0 : c_rf c <> 0) by (intro Z; specialize (Hrf Z); lia).
  destruct (pow2_split (t_lg_cur s) H5) as [m [Em Hm]].
  set (new_lg := N.min (t_lg_cur s + c_rf (t_cfg s)) (lg_max (t_cfg s))).
  assert (Hnew : t_lg_cur s + 1 <= new_lg /\ new_lg <= c_lg_nom c + 1).
  { unfold new_lg, lg_max. rewrite Hcfg. lia. }
  destruct (resize_spec s HOA) as [sl [Hrun [HOA' Hperm]]].
  - fold new_lg. lia.
  - rewrite <- Hn. rewrite Em in *. lia.
  - fold new_lg in Hrun, HOA', Hperm.
    eexists. split; [exact Hrun|].
    assert (Hwf : lg_wf c new_lg) by (unfold lg_wf; split; [lia|split; [lia|intro Z; contradiction]]).
    split; [split; [constructor|]|]; cbn [t_cfg t_lg_cur t_theta t_slots t_n t_empty].
    + exact Hcfg.
    + exact HOA'.
    + unfold sk_entries at 1. cbn [t_slots t_lg_cur]. rewrite <- (Permutation_length Hperm). exact Hn.
    + intros x. rewrite <- Hset. unfold sk_entries at 1. cbn [t_slots t_lg_cur]. split; intro Hx.
      * eapply Permutation_in; [apply Permutation_sym; exact Hperm|exact Hx].
      * eapply Permutation_in; [exact Hperm|exact Hx].
    + exact Hth.
    + exact Hwf.
    + exact Hest.
    + exact Hpos0.
    + rewrite (get_capacity_exact c new_lg Hc Hwf).
      assert (Hp : 2 * 2 ^ t_lg_cur s <= 2 ^ new_lg).
      { rewrite <- pow2_succ. apply pow2_mono. lia. }
      rewrite Em in *. destruct (new_lg <=? c_lg_nom c); lia.
    + split; [reflexivity|]. split; [reflexivity|].
      unfold sk_entries at 2. cbn [t_slots t_lg_cur]. exact Hperm.
Qed.

Section Reorder3.
Variable reorder : reorder_t.
Hypothesis reorder_perm : reorder_ok reorder.

(* ---------- rebuild: theta becomes the k-th order statistic, the k smallest stay ---------- *)
Lemma rebuild_inv : forall c s off, cfg_ok c -> InvW c s off ->
  t_lg_cur s = c_lg_nom c + 1 -> 2 ^ c_lg_nom c < t_n s ->
  exists s', rebuild reorder s = Ok s' /\ InvC c s' off /\ t_theta s' < t_theta s /\
    t_theta s' = nth (N.to_nat (2 ^ c_lg_nom c)) (sortN (sk_entries s)) 0 /\
    t_n s' = 2 ^ c_lg_nom c /\
    Permutation (firstn (N.to_nat (2 ^ c_lg_nom c)) (sortN (sk_entries s))) (sk_entries s') /\
    t_empty s' = t_empty s.
Proof.
  intros c s off Hc HW Hlgmax Hmany.
  pose proof (entries_NoDup _ _ _ HW) as ND.
  destruct HW as [Hcfg HOA Hn Hset Hth Hlg Hest Hpos0].
  assert (Hk : (N.to_nat (2 ^ c_lg_nom c) < length (sk_entries s))%nat) by lia.
  destruct (k_smallest (sk_entries s) (N.to_nat (2 ^ c_lg_nom c)) ND Hk) as [Hthin [Hmem [NDl Hlen]]].
  cbv zeta in *.
  set (th := nth (N.to_nat (2 ^ c_lg_nom c)) (sortN (sk_entries s)) 0) in *.
  assert (Hthlt : 0 < th /\ th < t_theta s) by (apply Hset in Hthin; tauto).
  destruct (rebuild_spec reorder reorder_perm s HOA) as [sl [Hrun [HOA' Hperm]]].
  - rewrite Hcfg. exact Hk.
  - rewrite Hcfg, Hlgmax. apply pow2_mono. lia.
  - rewrite Hcfg in Hrun, Hperm. fold th in Hrun.
    eexists. split; [exact Hrun|]. cbn [t_cfg t_lg_cur t_theta t_slots t_n t_empty].
    split; [split; [constructor|]|]; cbn [t_cfg t_lg_cur t_theta t_slots t_n t_empty].
    + reflexivity.
    + exact HOA'.
    + unfold sk_entries at 1. cbn [t_slots t_lg_cur]. rewrite <- (Permutation_length Hperm), Hlen, N2Nat.id. reflexivity.
    + intros x. unfold sk_entries at 1. cbn [t_slots t_lg_cur]. split.
      * intro Hx. eapply Permutation_in in Hx; [|apply Permutation_sym; exact Hperm].
        apply Hmem in Hx. destruct Hx as [Hx Hlt]. apply Hset in Hx. split; [tauto|]. split; [tauto|exact Hlt].
      * intros [Hoff [Hpos Hlt]]. eapply Permutation_in; [exact Hperm|]. apply Hmem. split; [|exact Hlt].
        apply Hset. split; [exact Hoff|]. split; [exact Hpos|lia].
    + lia.
    + exact Hlg.
    + intros _. pose proof (qual_bound c off (sk_entries s) ND) as Hq.
      assert ((length (sk_entries s) <= length (qual c off))%nat).
      { apply Hq. intros x Hx. apply Hset in Hx. split; [tauto|]. split; [tauto|lia]. }
      lia.
    + intros _. lia.
    + rewrite (get_capacity_exact c _ Hc Hlg), Hlgmax, pow2_succ.
      destruct (pow2_split (c_lg_nom c) (lgnom_ge5 c Hc)) as [m [Em Hm]]. rewrite Em.
      destruct (c_lg_nom c + 1 <=? c_lg_nom c); lia.
    + split; [lia|]. split; [reflexivity|]. split; [reflexivity|]. split; [|reflexivity].
      unfold sk_entries at 2. cbn [t_slots t_lg_cur]. exact Hperm.
Qed.

(* ---------- update (any hash value) ---------- *)
Lemma update_inv : forall c s off h, cfg_ok c -> Inv c s off ->
  exists s', sk_update reorder s h = Ok s' /\ Inv c s' (h :: off) /\ t_theta s' <= t_theta s.
Proof.
  intros c s off h Hc [[HW0 Hcap0] _].
  set (s0 := mark_offered s).
  assert (HW : InvW c s0 off) by (apply InvW_mark; exact HW0).
  assert (Hcap : t_n s0 <= get_capacity (t_lg_cur s0) (c_lg_nom c)) by exact Hcap0.
  assert (He0 : t_empty s0 = false) by reflexivity.
  change (t_theta s) with (t_theta s0).
  unfold sk_update. cbv zeta. fold s0.
  clearbody s0. clear HW0 Hcap0 s. rename s0 into s.
  pose proof HW as [Hcfg HOA Hn Hset Hth Hlg Hest Hpos0].
  assert (Hsame : (t_theta s <= h \/ h = 0 \/ In h (sk_entries s)) -> Inv c s (h :: off)).
  { intros Hcase. split; [split; [|exact Hcap]|exact He0]. constructor; try assumption.
    - intros x. rewrite Hset. cbn [In]. split; [tauto|]. intros [[<-|Hin] [H0 Hlt]]; [|tauto].
      destruct Hcase as [Hge|[Hz|Hin]]; [lia|lia|]. apply Hset in Hin. tauto.
    - intros Hlt. specialize (Hest Hlt). pose proof (qual_mono c off h). lia. }
  unfold screen.
  destruct (N.leb_spec (t_theta s) h) as [Hge|Hlt].
  { rewrite N.eqb_refl. exists s. split; [reflexivity|]. split; [apply Hsame; now left|lia]. }
  destruct (N.eqb_spec h 0) as [Hz|Hnz].
  { exists s. split; [reflexivity|]. split; [apply Hsame; right; now left|lia]. }
  unfold try_insert. destruct (N.eqb_spec h 0) as [|_]; [contradiction|].
  destruct (find_cases (t_lg_cur s) (t_slots s) h HOA Hnz) as [idx [Hidx [Hfind Hcase]]].
  { fold (sk_entries s). rewrite <- Hn. pose proof (cap_lt_size c _ Hc Hlg). lia. }
  rewrite Hfind.
  destruct Hcase as [Epresent|[E0 [Hnotin [HOA' Hperm]]]].
  { rewrite Epresent, N.eqb_refl. cbn [obind fst]. exists s. split; [reflexivity|]. split; [|lia].
    apply Hsame. right. right. unfold sk_entries. apply sl_values_In. split; [exact Hnz|]. exists idx; auto. }
  rewrite E0. destruct (N.eqb_spec 0 h) as [|_]; [congruence|]. rewrite N.eqb_refl. cbn [negb].
  set (s1 := mkSk (t_cfg s) (t_lg_cur s) (t_theta s) (sl_set (t_slots s) idx h) (t_n s + 1) false).
  assert (HW1 : InvW c s1 (h :: off)).
  { constructor; unfold s1; cbn [t_cfg t_lg_cur t_theta t_slots t_n].
    - exact Hcfg.
    - exact HOA'.
    - unfold sk_entries at 1. cbn [t_slots t_lg_cur]. rewrite <- (Permutation_length Hperm).
      cbn [length]. fold (sk_entries s). lia.
    - intros x. unfold sk_entries at 1. cbn [t_slots t_lg_cur]. split.
      + intro Hx. eapply Permutation_in in Hx; [|apply Permutation_sym; exact Hperm].
        destruct Hx as [<-|Hx]; [cbn [In]; split; [now left|lia]|].
        fold (sk_entries s) in Hx. apply Hset in Hx. cbn [In]. tauto.
      + intros [[<-|Hoff] [Hpos Hlt']]; (eapply Permutation_in; [exact Hperm|]); [now left|right].
        fold (sk_entries s). apply Hset. tauto.
    - exact Hth.
    - exact Hlg.
    - intros Hlt'. specialize (Hest Hlt'). pose proof (qual_mono c off h). lia.
    - exact Hpos0. }
  change (get_capacity (t_lg_cur s1) (c_lg_nom (t_cfg s1))) with (get_capacity (t_lg_cur s) (c_lg_nom (t_cfg s))).
  change (t_n s1) with (t_n s + 1). change (t_lg_cur s1) with (t_lg_cur s). change (t_cfg s1) with (t_cfg s).
  rewrite Hcfg.
  destruct (N.ltb_spec (get_capacity (t_lg_cur s) (c_lg_nom c)) (t_n s + 1)) as [Hfull|Hroom].
  2:{ cbn [obind fst]. exists s1. split; [reflexivity|]. split; [split; [split; [exact HW1|]|reflexivity]|].
      - unfold s1. cbn [t_n t_lg_cur]. exact Hroom.
      - unfold s1. cbn [t_theta]. lia. }
  rewrite (get_capacity_exact c _ Hc Hlg) in Hfull, Hcap.
  destruct (N.leb_spec (t_lg_cur s) (c_lg_nom c)) as [Hbelow|Hmax].
  - destruct (resize_inv c s1 (h :: off) Hc HW1) as [s2 [Hrun [Hinv2 [Hth2 [He2 _]]]]].
    + exact Hbelow.
    + unfold s1. cbn [t_n t_lg_cur]. lia.
    + rewrite Hrun. cbn [obind fst]. exists s2. split; [reflexivity|]. split; [split; [exact Hinv2|rewrite He2; reflexivity]|].
      rewrite Hth2. unfold s1. cbn [t_theta]. lia.
  - assert (Hlgmax : t_lg_cur s = c_lg_nom c + 1) by (destruct Hlg as [_ [Hle _]]; lia).
    destruct (rebuild_inv c s1 (h :: off) Hc HW1) as [s2 [Hrun [Hinv2 [Hth2 [_ [_ [_ He2]]]]]]].
    + exact Hlgmax.
    + unfold s1. cbn [t_n]. rewrite Hlgmax, pow2_succ in Hfull.
      destruct (pow2_split (c_lg_nom c) (lgnom_ge5 c Hc)) as [m [Em Hm]]. rewrite Em in *. lia.
    + rewrite Hrun. cbn [obind fst]. exists s2. split; [reflexivity|]. split; [split; [exact Hinv2|rewrite He2; reflexivity]|].
      unfold s1 in Hth2. cbn [t_theta] in Hth2. lia.
Qed.

(* ---------- trim ---------- *)
Lemma trim_inv : forall c s off, cfg_ok c -> Inv c s off ->
  exists s', sk_trim reorder s = Ok s' /\ Inv c s' off /\ t_theta s' <= t_theta s /\
    (t_n s <= 2 ^ c_lg_nom c -> s' = s) /\
    (2 ^ c_lg_nom c < t_n s ->
       t_theta s' = nth (N.to_nat (2 ^ c_lg_nom c)) (sortN (sk_entries s)) 0 /\
       t_n s' = 2 ^ c_lg_nom c /\
       Permutation (firstn (N.to_nat (2 ^ c_lg_nom c)) (sortN (sk_entries s))) (sk_entries s')).
Proof.
  intros c s off Hc [[HW Hcap] Hemp]. pose proof HW as [Hcfg HOA Hn Hset Hth Hlg Hest Hpos0].
  unfold sk_trim. rewrite Hcfg.
  destruct (N.ltb_spec (2 ^ c_lg_nom c) (t_n s)) as [Hmany|Hfew].
  - assert (Hlgmax : t_lg_cur s = c_lg_nom c + 1).
    { destruct Hlg as [H5 [Hle _]]. destruct (N.le_gt_cases (t_lg_cur s) (c_lg_nom c)) as [Hb|Hb]; [exfalso|lia].
      rewrite (get_capacity_exact c _ Hc (w_lg _ _ _ HW)) in Hcap.
      destruct (N.leb_spec (t_lg_cur s) (c_lg_nom c)); [|lia].
      pose proof (pow2_mono _ _ Hb). pose proof (pow2_pos (t_lg_cur s)). lia. }
    destruct (rebuild_inv c s off Hc HW Hlgmax Hmany) as [s2 [Hrun [Hinv2 [Hth2 [Hth2' [Hn2 [Hperm He2]]]]]]].
    exists s2. split; [exact Hrun|]. split; [split; [exact Hinv2|congruence]|]. split; [lia|]. split; [lia|]. intros _. auto.
  - exists s. split; [reflexivity|]. split; [split; [split; assumption|assumption]|]. split; [lia|]. split; [reflexivity|lia].
Qed.

(* ---------- reset ---------- *)
Lemma reset_is_new : forall s, sk_reset s = sk_new (t_cfg s).
Proof. reflexivity. Qed.

Lemma reset_inv : forall c s off, cfg_ok c -> Inv c s off -> Inv c (sk_reset s) [].
Proof.
  intros c s off Hc [[HW _] _]. rewrite reset_is_new, (w_cfg _ _ _ HW). now apply new_inv.
Qed.

(* ---------- arbitrary histories ---------- *)
Lemma step_inv : forall c s off o, cfg_ok c -> Inv c s off ->
  exists s', step_op reorder s o = Ok s' /\ Inv c s' (offered_step off o) /\
             (o <> OReset -> t_theta s' <= t_theta s).
Proof.
  intros c s off o Hc HI. destruct o as [h| | |b]; cbn [step_op offered_step].
  - destruct (update_inv c s off h Hc HI) as [s' [H1 [H2 H3]]]. exists s'. auto.
  - destruct (trim_inv c s off Hc HI) as [s' [H1 [H2 [H3 _]]]]. exists s'. auto.
  - exists (sk_reset s). split; [reflexivity|]. split; [eapply reset_inv; eauto|]. intros H; contradiction.
  - exists s. split; [reflexivity|]. split; [exact HI|]. intros _. lia.
Qed.

Lemma run_inv_from : forall c ops s off, cfg_ok c -> Inv c s off ->
  exists s', run_ops reorder s ops = Ok s' /\ Inv c s' (offered_from off ops).
Proof.
  intros c ops. induction ops as [|o r IH]; intros s off Hc HI; cbn [run_ops offered_from fold_left].
  - exists s. auto.
  - destruct (step_inv c s off o Hc HI) as [s1 [H1 [H2 _]]]. rewrite H1. cbn [obind].
    apply IH; assumption.
Qed.

Theorem run_inv : forall c ops, cfg_ok c ->
  exists s, run_ops reorder (sk_new c) ops = Ok s /\ Inv c s (offered ops).
Proof. intros c ops Hc. apply run_inv_from; [exact Hc|now apply new_inv]. Qed.

End Reorder3.
