(* HLL codec proofs: image sizes (C18), totality of the reader and what an accepted image
   guarantees (C14), round trip (C11). *)
From DS Require Import Base.Prelude Base.Bytes Base.FloatBits Base.HllSort Model.Hll Model.HllUnion Model.HllCodec
  Proofs.HllBase Proofs.HllArray8 Proofs.HllArray6 Proofs.HllOpenAddr Proofs.HllSet Proofs.HllAux Proofs.HllArray4
  Proofs.HllRefine Proofs.HllUnionProofs.
From Coq Require Import ZifyBool ZifyNat ZifyN Permutation Floats Sorting.
Open Scope N_scope.
Ltac Zify.zify_post_hook ::= Z.div_mod_to_equations.

(* ---------- lengths ---------- *)
Lemma u32s_length : forall l, length (u32s l) = (4 * length l)%nat.
Proof. induction l; cbn [u32s flat_map length]; [reflexivity|]. rewrite app_length, le_bytes_length. fold (u32s l). lia. Qed.

Lemma f64b_length : forall f, length (f64b f) = 8%nat.
Proof. intros. apply le_bytes_length. Qed.

Lemma arr_bytes_length : forall a n, length (arr_bytes a n) = N.to_nat n.
Proof. intros. unfold arr_bytes. now rewrite map_length, Nseq_length. Qed.

Lemma hll_header_length : forall lgk cm t e, length (hll_header lgk cm t e) = 32%nat.
Proof. intros. unfold hll_header. rewrite !app_length, !f64b_length. reflexivity. Qed.

Lemma sortN_perm : forall l, Permutation l (sortN l).
Proof. intros. apply NSort.Permuted_sort. Qed.

Lemma sortN_length : forall l, length (sortN l) = length l.
Proof. intros. symmetry. apply Permutation_length. apply sortN_perm. Qed.

(* ---------- C18: the image has exactly the size its mode and lg_k dictate ---------- *)
Definition hll_image_size (s : hsketch) : N :=
  match sk_mode s with
  | MList l _ => 8 + 4 * hl_len l
  | MSet st _ => 12 + 4 * hs_len st
  | MArr4 a => 40 + 2 ^ (a4_lgk a - 1) + 4 * N.of_nat (length (match a4_aux a with Some m => aux_pairs m | None => [] end))
  | MArr6 a => 40 + (3 * 2 ^ a6_lgk a) / 4 + 1
  | MArr8 a => 40 + 2 ^ a8_lgk a
  end.

Lemma image_size : forall lgk arrf cs s, SrcOK lgk arrf cs s ->
  N.of_nat (length (hll_serialize s)) = hll_image_size s.
Proof.
  intros lgk arrf cs s (Hk & Hlg & Hv & Hm). unfold hll_serialize, hll_image_size.
  destruct (sk_mode s) as [l t|st t|a|a|a].
  - destruct Hm as (_ & ds & HL & Hlen & Hss). pose proof HL as (Hc & Hl & Hnd & H0 & _).
    unfold list_serialize. rewrite app_length. cbn [length].
    destruct (N.eqb_spec (hl_len l) 0) as [E|E]; [cbn [length]; lia|].
    rewrite u32s_length, Hc, (filter_nonzero_app_zeros ds _ H0), Hl, Nat2N.id, firstn_all. lia.
  - destruct Hm as (_ & _ & _ & _ & HR & _). unfold set_serialize. rewrite !app_length, le_bytes_length, u32s_length, sortN_length.
    cbn [length]. rewrite (set_len_card (hs_lg st) st cs HR). lia.
  - unfold a4_serialize. rewrite !app_length, hll_header_length, !le_bytes_length, arr_bytes_length, u32s_length, map_length. lia.
  - unfold a6_serialize, a6_num_bytes. rewrite !app_length, hll_header_length, !le_bytes_length, arr_bytes_length.
    rewrite shiftr_div. change (2 ^ 2) with 4. rewrite (N.mul_comm (2 ^ a6_lgk a) 3). lia.
  - unfold a8_serialize. rewrite !app_length, hll_header_length, !le_bytes_length, arr_bytes_length. lia.
Qed.

(* the number of exceptions of an Array4 is the number of registers >= cur_min + 15 *)
Lemma aux_pairs_count : forall lgk regs (a : arr4 hip), Inv4 lgk regs a ->
  N.of_nat (length (match a4_aux a with Some m => aux_pairs m | None => [] end))
  = count_regs (2 ^ lgk) (fun j => a4_cur_min a + 15 <=? regs j).
Proof.
  intros lgk regs a (Hk & (W & HA & Hr & Hd) & Hn).
  set (ps := match a4_aux a with Some m => aux_pairs m | None => [] end).
  assert (Hin : forall j v, In (j, v) ps <-> auxdom (a4_aux a) j v).
  { intros j v. unfold ps. destruct (a4_aux a) as [m|]; cbn [auxdom]; [apply aux_pairs_In|tauto]. }
  assert (Hnd : NoDup (map fst ps)).
  { unfold ps. destruct (a4_aux a) as [m|]; [apply (aux_pairs_NoDup lgk m HA)|constructor]. }
  unfold count_regs.
  assert (Hperm : forall j, In j (map fst ps) <-> In j (filter (fun j => a4_cur_min a + 15 <=? regs j) (Nseq 0 (N.to_nat (2 ^ lgk))))).
  { intros j. rewrite in_map_iff, filter_In, Nseq_range_In. split.
    - intros ([j' v] & <- & Hp). cbn [fst]. apply Hin in Hp. destruct (Hd _ _ Hp) as [Hj Hraw].
      split; [assumption|]. destruct (Hr j' Hj) as [_ B]. destruct (B Hraw). lia.
    - intros [Hj Hge]. destruct (Hr j Hj) as [A B]. pose proof (a4_get_le _ j W) as Hle.
      destruct (N.eq_dec (a4_get_raw (a4_bytes a) j) 15) as [E|E].
      + destruct (B E) as [_ Hdom]. exists (j, regs j). split; [reflexivity|]. now apply Hin.
      + rewrite A in Hge by lia. lia. }
  rewrite <- (map_length fst ps). f_equal.
  apply Nat.le_antisymm; apply NoDup_incl_length; try assumption; try (apply NoDup_filter; apply Nseq_NoDup);
    intros j Hj; now apply Hperm.
Qed.

(* for every stream: the size formula of the property text, with c <= 7 (list), 4c <= 3 * 2^(lg_k - 3)
   (set), and at most k exceptions *)
Theorem hll_image_size_of_stream : forall lgk t cs, 4 <= lgk <= 21 -> Forall valid cs ->
  exists s, run_stream hip_new hip_update hip_carry lgk t cs = Ok s /\
    let n := N.of_nat (length (hll_serialize s)) in
    let k := 2 ^ lgk in
    match sk_mode s with
    | MList l _ => n = 8 + 4 * distinct cs /\ distinct cs <= 7
    | MSet st _ => n = 12 + 4 * distinct cs /\ 4 * distinct cs <= 3 * 2 ^ (lgk - 3)
    | MArr4 a => exists aux, n = 40 + k / 2 + 4 * aux /\ aux <= k /\
                             aux = count_regs k (fun j => a4_cur_min a + 15 <=? spec_regs lgk cs j)
    | MArr6 _ => n = 40 + 3 * k / 4 + 1
    | MArr8 _ => n = 40 + k
    end.
Proof.
  intros lgk t cs Hlg Hv. destruct (stream_is_source lgk t cs Hlg Hv) as (s & Hr & HS).
  exists s. split; [assumption|]. cbv zeta. rewrite (image_size _ _ _ _ HS). unfold hll_image_size.
  destruct (src_shows _ _ _ _ HS) as (_ & _ & _ & Hsp). pose proof HS as (Hk & _ & _ & Hm).
  destruct (sk_mode s) as [l tt|st tt|a|a|a] eqn:Em.
  - unfold sk_tag in *. rewrite Em in *. cbn [tag_flag] in *. destruct (Hsp eq_refl) as (_ & _ & Hlen).
    unfold sk_len in Hlen. rewrite Em in Hlen. rewrite Hlen. split; [reflexivity|].
    destruct Hm as (_ & ds & HL & Hl8 & Hss). destruct HL as (_ & _ & Hnd & _).
    rewrite <- (NoDup_card ds cs Hnd Hss). lia.
  - unfold sk_tag in *. rewrite Em in *. cbn [tag_flag] in *. destruct (Hsp eq_refl) as (_ & _ & Hlen).
    unfold sk_len in Hlen. rewrite Em in Hlen. rewrite Hlen. split; [reflexivity|].
    destruct Hm as (_ & H8 & H5 & H3 & HR & _ & Hload). rewrite <- Hlen.
    assert (2 ^ hs_lg st <= 2 ^ (lgk - 3)) by (apply N.pow_le_mono_r; lia). lia.
  - unfold sk_tag in *. rewrite Em in *. destruct Hm as (_ & HI & _). pose proof HI as (Hk4 & _).
    rewrite (aux_pairs_count lgk _ a HI). eexists. split; [|split; [apply count_regs_le|reflexivity]].
    rewrite Hk4. replace (2 ^ (lgk - 1)) with (2 ^ lgk / 2); [reflexivity|].
    replace lgk with (1 + (lgk - 1)) at 1 by lia. rewrite N.pow_add_r. change (2 ^ 1) with 2.
    rewrite N.mul_comm, N.div_mul by lia. reflexivity.
  - destruct Hm as (_ & Hk6 & _). rewrite Hk6. reflexivity.
  - destruct Hm as (_ & Hk8 & _). now rewrite Hk8.
Qed.

(* ================= C14: the reader is total ================= *)
Definition NS {A} (x : outcome A) : Prop := x <> Stuck.

Lemma ns_bind : forall {A B} (x : outcome A) (f : A -> outcome B),
  NS x -> (forall a, x = Ok a -> NS (f a)) -> NS (obind x f).
Proof. intros A B x f Hx Hf. destruct x; cbn [obind]; [now apply Hf|discriminate|contradiction]. Qed.

Lemma take_ns : forall n bs, NS (take n bs).
Proof. intros. unfold take, NS. destruct (length bs <? n)%nat; discriminate. Qed.

Lemma read_u32s_ns : forall n bs, NS (read_u32s n bs).
Proof.
  induction n; intros bs; cbn [read_u32s]; [discriminate|]. apply ns_bind; [apply take_ns|]. intros p _.
  apply ns_bind; [apply IHn|]. intros q _. discriminate.
Qed.

Lemma read_u32s_length : forall n bs vs r, read_u32s n bs = Ok (vs, r) -> length vs = n.
Proof.
  induction n; intros bs vs r H; cbn [read_u32s] in H.
  - inversion H. reflexivity.
  - destruct (take 4 bs) as [p| |]; cbn [obind] in H; try discriminate.
    destruct (read_u32s n (snd p)) as [q| |] eqn:E; cbn [obind] in H; try discriminate.
    inversion H; subst. cbn [length]. f_equal. destruct q as [vs' r']. now apply (IHn _ _ _ E).
Qed.

Lemma read_count_ns : forall c bs, NS (read_count_u32s c bs).
Proof. intros. unfold read_count_u32s. destruct (_ <? _); [discriminate|apply read_u32s_ns]. Qed.

Lemma read_count_length : forall c bs vs r, read_count_u32s c bs = Ok (vs, r) -> N.of_nat (length vs) = c.
Proof.
  intros c bs vs r H. unfold read_count_u32s in H. destruct (_ <? _); [discriminate|].
  rewrite (read_u32s_length _ _ _ _ H). lia.
Qed.

Definition BOK (bs : list N) : Prop := Forall (fun b => b < 256) bs.

Lemma BOK_bytes_ok : forall bs, BOK bs -> bytes_ok bs = true.
Proof.
  intros bs H. unfold bytes_ok. apply forallb_forall. intros b Hb. unfold BOK in H. rewrite Forall_forall in H.
  specialize (H b Hb). unfold byte_ok. lia.
Qed.

Lemma take_ok : forall n bs d r, take n bs = Ok (d, r) -> bs = d ++ r /\ length d = n.
Proof.
  intros n bs d r H. unfold take in H. destruct (Nat.ltb_spec (length bs) n); [discriminate|]. inversion H; subst.
  split; [symmetry; apply firstn_skipn|]. apply firstn_length_le. lia.
Qed.

Lemma take_BOK : forall n bs d r, BOK bs -> take n bs = Ok (d, r) -> BOK d /\ BOK r.
Proof.
  intros n bs d r HB H. destruct (take_ok _ _ _ _ H) as [-> _]. unfold BOK in *. apply Forall_app in HB. assumption.
Qed.

Lemma le_val_4_bound : forall d, BOK d -> length d = 4%nat -> le_val d < 2 ^ 32.
Proof.
  intros d HB Hl. pose proof (le_val_bound d (BOK_bytes_ok d HB)) as H. rewrite Hl in H.
  change (256 ^ N.of_nat 4) with (2 ^ 32) in H. assumption.
Qed.

Lemma read_u32s_BOK : forall n bs vs r, BOK bs -> read_u32s n bs = Ok (vs, r) -> (forall c, In c vs -> c < 2 ^ 32) /\ BOK r.
Proof.
  induction n; intros bs vs r HB H; cbn [read_u32s] in H.
  - inversion H; subst. split; [intros c []|assumption].
  - destruct (take 4 bs) as [[d r1]| |] eqn:Et; cbn [obind] in H; try discriminate. cbn [fst snd] in H.
    destruct (take_BOK _ _ _ _ HB Et) as [HBd HBr]. destruct (take_ok _ _ _ _ Et) as [_ Hl].
    destruct (read_u32s n r1) as [[vs' r']| |] eqn:Er; cbn [obind] in H; try discriminate. cbn [fst snd] in H.
    inversion H; subst. destruct (IHn _ _ _ HBr Er) as [A B]. split; [|assumption].
    intros c [<-|Hc]; [now apply le_val_4_bound|now apply A].
Qed.

(* the insertion loop of HashSet::deserialize never reaches "HashSet full"; the set it builds holds
   exactly the non-empty coupons read, none of which has value 0 *)
Lemma set_insert_all_spec : forall lg compact vs st S, SetRep lg st S -> hs_len st + N.of_nat (length vs) <= 2 ^ lg ->
  NS (set_insert_all compact vs st) /\
  forall st', set_insert_all compact vs st = Ok st' ->
    exists S', SetRep lg st' S' /\ hs_len st' <= hs_len st + N.of_nat (length vs) /\
      (forall c, In c S' <-> In c S \/ (In c vs /\ c <> 0)) /\
      (forall c, In c vs -> c <> 0 -> get_value c <> 0).
Proof.
  intros lg compact. induction vs as [|v r IH]; intros st S HR Hlen; cbn [set_insert_all].
  - split; [discriminate|]. intros st' H. inversion H; subst. exists S. split; [assumption|]. split; [lia|].
    split; [intros c; cbn [In]; tauto|intros c []].
  - cbn [length] in Hlen. rewrite COUPON_EMPTY_0. destruct (N.eqb_spec v 0) as [E|E].
    + destruct compact; [split; [discriminate|discriminate]|].
      destruct (IH st S HR ltac:(lia)) as [A B]. split; [assumption|]. intros st' H. destruct (B st' H) as (S' & HR' & Hl & Hin & Hval).
      exists S'. split; [assumption|]. split; [cbn [length]; lia|]. split.
      * intros c. rewrite (Hin c). cbn [In]. split; [intros [?|[? ?]]; [now left|right; split; [now right|assumption]]|].
        intros [?|[[?|?] ?]]; [now left|congruence|right; now split].
      * intros c [<-|Hc] Hc0; [congruence|now apply Hval].
    + destruct (N.eqb_spec (get_value v) 0) as [Ev|Ev]; [split; [discriminate|discriminate]|].
      destruct (set_update_spec lg st S v HR ltac:(lia) E) as (st1 & Hu & HR1 & Hold & Hnew). rewrite Hu. cbn [obind].
      assert (Hl1 : hs_len st1 <= hs_len st + 1).
      { destruct (in_dec N.eq_dec v S) as [Hin|Hnin]; [rewrite (Hold Hin); lia|rewrite (Hnew Hnin); lia]. }
      destruct (IH st1 (v :: S) HR1 ltac:(lia)) as [A B]. split; [assumption|]. intros st' H.
      destruct (B st' H) as (S' & HR' & Hl & Hin & Hval).
      exists S'. split; [assumption|]. split; [cbn [length]; lia|]. split.
      * intros c. rewrite (Hin c). cbn [In]. split.
        -- intros [[<-|?]|[? ?]]; [right; split; [now left|assumption]|now left|right; split; [now right|assumption]].
        -- intros [?|[[<-|?] ?]]; [left; now right|left; now left|right; now split].
      * intros c [<-|Hc] Hc0; [assumption|now apply Hval].
Qed.

Lemma set_deserialize_spec : forall bs lg compact,
  NS (set_deserialize bs lg compact) /\
  forall st, set_deserialize bs lg compact = Ok st ->
    hs_lg st = lg /\ (exists S, SetRep lg st S /\ (forall c, In c S -> c <> 0 /\ get_value c <> 0) /\
                       (BOK bs -> forall c, In c S -> c < 2 ^ 32)) /\ 4 * hs_len st <= 3 * 2 ^ lg.
Proof.
  intros bs lg compact. unfold set_deserialize, set_overloaded. rewrite RESIZE_NUM_3, RESIZE_DEN_4.
  destruct (take 4 bs) as [p| |] eqn:Et; cbn [obind]; [|split; [discriminate|discriminate]|exfalso; now apply (take_ns 4 bs)].
  set (count := le_val (fst p)).
  destruct (compact && (3 * 2 ^ lg <? 4 * count)) eqn:Eov; [split; [discriminate|discriminate]|].
  set (stored := if compact then count else 2 ^ lg).
  destruct (read_count_u32s stored (snd p)) as [q| |] eqn:Er; cbn [obind];
    [|split; [discriminate|discriminate]|exfalso; now apply (read_count_ns stored (snd p))].
  destruct q as [vs r]. cbn [fst]. pose proof (read_count_length _ _ _ _ Er) as Hlen.
  assert (Hfit : hs_len (set_new lg) + N.of_nat (length vs) <= 2 ^ lg).
  { unfold set_new. cbn [hs_len]. rewrite Hlen. unfold stored. destruct compact; [cbn [andb] in Eov; lia|lia]. }
  destruct (set_insert_all_spec lg compact vs (set_new lg) [] (set_new_rep lg) Hfit) as [Hns Hok].
  destruct (set_insert_all compact vs (set_new lg)) as [st| |] eqn:Ei; cbn [obind]; [|split; [discriminate|discriminate]|contradiction].
  destruct (Hok st eq_refl) as (S' & HR' & _ & Hin & Hval).
  destruct (negb (hs_len st =? count)); [split; [discriminate|discriminate]|].
  destruct (N.ltb_spec (3 * 2 ^ lg) (4 * hs_len st)); [split; [discriminate|discriminate]|].
  split; [discriminate|]. intros st' Hst. inversion Hst; subst st'. split; [now destruct HR'|]. split; [|assumption].
  exists S'. split; [assumption|]. split.
  - intros c Hc. apply Hin in Hc. destruct Hc as [[]|[Hc Hc0]]. split; [assumption|now apply Hval].
  - intros HB c Hc. apply Hin in Hc. destruct Hc as [[]|[Hc _]].
    destruct p as [d rest]. destruct (take_BOK 4 bs d rest HB Et) as [_ HBr]. cbn [snd] in Er.
    unfold read_count_u32s in Er. destruct (N.of_nat (length rest) <? 4 * stored); [discriminate|].
    now apply (proj1 (read_u32s_BOK _ _ _ _ HBr Er)).
Qed.

(* the aux loop of Array4::deserialize never reaches an unreachable!() of the aux map *)
Lemma a4_read_aux_spec : forall lgk bytes cm cs m, 4 <= lgk <= 21 -> AuxInv lgk m ->
  NS (a4_read_aux bytes cm lgk cs m) /\
  forall m', a4_read_aux bytes cm lgk cs m = Ok m' ->
    AuxInv lgk m' /\
    (forall j v, amaps m' j v <-> amaps m j v \/
       (exists c, In c cs /\ j = N.land (get_slot c) (2 ^ lgk - 1) /\ v = get_value c)) /\
    (forall c, In c cs -> a4_get_raw bytes (N.land (get_slot c) (2 ^ lgk - 1)) = 15 /\ cm + 15 <= get_value c) /\
    NoDup (map (fun c => N.land (get_slot c) (2 ^ lgk - 1)) cs) /\
    (forall c v, In c cs -> ~ amaps m (N.land (get_slot c) (2 ^ lgk - 1)) v).
Proof.
  intros lgk bytes cm. induction cs as [|c r IH]; intros m Hlg HA; cbn [a4_read_aux].
  - split; [discriminate|]. intros m' H. inversion H; subst. split; [assumption|]. split.
    + intros j v. split; [tauto|]. intros [?|(c & [] & _)]. assumption.
    + split; [intros c []|]. split; [constructor|intros c v []].
  - set (slot := N.land (get_slot c) (2 ^ lgk - 1)). set (value := get_value c).
    assert (Hslot : slot < 2 ^ lgk) by (unfold slot; rewrite land_mask; apply N.mod_lt; apply N.pow_nonzero; lia).
    rewrite AUX_TOKEN_15.
    destruct (amaps_dec lgk m slot HA) as [(v0 & Hv0)|Hnone].
    + rewrite (aux_get_some lgk m slot v0 HA Hv0). cbn [obind]. rewrite !orb_true_r. split; [discriminate|discriminate].
    + rewrite (aux_get_none lgk m slot HA Hnone). cbn [obind]. rewrite orb_false_r.
      destruct (negb (a4_get_raw bytes slot =? 15) || (value <? cm + 15)) eqn:Echk; [split; [discriminate|discriminate]|].
      apply orb_false_elim in Echk. destruct Echk as [E1 E2]. apply negb_false_iff in E1. apply N.eqb_eq in E1. apply N.ltb_ge in E2.
      destruct (aux_insert_spec lgk m slot value HA Hslot Hnone ltac:(lia)) as (m1 & Hins & HA1 & Hm1).
      rewrite Hins. cbn [obind]. destruct (IH m1 Hlg HA1) as [Hns Hok]. split; [assumption|].
      intros m' H. destruct (Hok m' H) as (HA' & Hm' & Hchk & Hnd & Hfresh). split; [assumption|]. split; [|split; [|split]].
      * intros j v. rewrite Hm', Hm1. cbn [In]. split.
        -- intros [[[-> ->]|?]|(c' & Hc' & Hj & Hv)]; [right; exists c; split; [now left|split; reflexivity]|now left|].
           right. exists c'. split; [now right|split; assumption].
        -- intros [?|(c' & [<-|Hc'] & Hj & Hv)]; [left; now right|left; left; now split|]. right. exists c'. now split.
      * intros c' [<-|Hc']; [split; assumption|now apply Hchk].
      * cbn [map]. constructor; [|assumption]. intros Hin. apply in_map_iff in Hin. destruct Hin as (c' & Heq & Hc').
        apply (Hfresh c' value Hc'). rewrite Heq. apply Hm1. left. now split.
      * intros c' v [<-|Hc'] Hmv; [now apply (Hnone v)|]. apply (Hfresh c' v Hc'). apply Hm1. now right.
Qed.

Lemma list_insert_all_ns : forall vs l, NS (list_insert_all vs l).
Proof.
  induction vs as [|v r IH]; intros l; cbn [list_insert_all]; [discriminate|].
  destruct (v =? COUPON_EMPTY); [apply IH|]. destruct (get_value v =? 0); [discriminate|apply IH].
Qed.

Lemma a4_scan_ns : forall bytes cm slots num tokens, NS (a4_scan bytes cm slots num tokens).
Proof.
  intros bytes cm. induction slots as [|s r IH]; intros num tokens; cbn [a4_scan]; [discriminate|].
  destruct (_ =? AUX_TOKEN); [apply IH|]. destruct (MAX_VALUE <? _); [discriminate|apply IH].
Qed.

Lemma read_hll_body_ns : forall bs n ooo, NS (read_hll_body bs n ooo).
Proof.
  intros. unfold read_hll_body. do 3 (apply ns_bind; [apply take_ns|intros ? _]). destruct (negb _); [discriminate|].
  repeat (apply ns_bind; [apply take_ns|intros ? _]). discriminate.
Qed.

Lemma a4_deserialize_ns : forall bs cm lgk ooo, 4 <= lgk <= 21 -> NS (a4_deserialize bs cm lgk ooo).
Proof.
  intros bs cm lgk ooo Hlg. unfold a4_deserialize. do 3 (apply ns_bind; [apply take_ns|intros ? _]).
  destruct (negb (image_fields_ok _ _ _)); [discriminate|]. repeat (apply ns_bind; [apply take_ns|intros ? _]).
  destruct (MAX_VALUE <? cm); [discriminate|]. apply ns_bind; [apply take_ns|intros p6 _].
  apply ns_bind; [apply a4_scan_ns|intros [num tokens] _]. destruct (negb _); [discriminate|].
  destruct (_ =? 0); [discriminate|]. apply ns_bind; [apply read_count_ns|intros q _].
  apply ns_bind; [|intros m _; discriminate].
  apply (a4_read_aux_spec lgk _ _ (fst q) (aux_new lgk) Hlg). now apply aux_new_inv.
Qed.

(* HllSketch::deserialize returns Ok or Err for EVERY byte string: no modelled panic site
   (shift overflow, "HashSet full", the aux map's unreachable!()s, expect()) is reachable *)
Theorem hll_deserialize_total : forall bs, hll_deserialize bs <> Stuck.
Proof.
  intros bs. unfold hll_deserialize. destruct (length bs <? 8)%nat; [discriminate|].
  destruct (negb _); [discriminate|]. destruct (negb _); [discriminate|].
  destruct ((nth 3 bs 0 <? 4) || (21 <? nth 3 bs 0)) eqn:Elg; [discriminate|].
  assert (Hlg : 4 <= nth 3 bs 0 <= 21) by lia.
  destruct (_ =? 3); [discriminate|].
  destruct (_ =? MODE_LIST).
  { destruct (negb _); [discriminate|]. destruct (negb _); [discriminate|]. apply ns_bind; [|intros; discriminate].
    unfold list_deserialize. destruct (_ <=? _); [discriminate|].
    apply ns_bind; [|intros l _; destruct (negb _); discriminate]. destruct (_ && _); [|discriminate].
    apply ns_bind; [apply read_count_ns|intros p _; apply list_insert_all_ns]. }
  destruct (_ =? MODE_SET).
  { destruct (negb _); [discriminate|]. destruct (nth 3 bs 0 <? 8); [discriminate|].
    destruct ((nth 4 bs 0 <? LG_MIN_SET_SIZE) || _); [discriminate|].
    apply ns_bind; [apply set_deserialize_spec|intros; discriminate]. }
  destruct (_ =? MODE_HLL); [|discriminate].
  destruct (negb _); [discriminate|].
  match goal with |- context [match ?t with T4 => _ | T6 => _ | T8 => _ end] => destruct t end.
  - apply ns_bind; [now apply a4_deserialize_ns|intros; discriminate].
  - apply ns_bind; [|intros; discriminate]. unfold a6_deserialize. apply ns_bind; [apply read_hll_body_ns|].
    intros [[[e n] data] rest] _. discriminate.
  - apply ns_bind; [|intros; discriminate]. unfold a8_deserialize. apply ns_bind; [apply read_hll_body_ns|].
    intros [[[e n] data] rest] _. destruct (existsb _ _); discriminate.
Qed.

(* ================= what an accepted image guarantees ================= *)
Lemma arr_of_list_get : forall l i a j,
  aget (arr_of_list i l a) j = if (i <=? j) && (j <? i + N.of_nat (length l)) then nth (N.to_nat (j - i)) l 0 else aget a j.
Proof.
  induction l as [|b r IH]; intros i a j; cbn [arr_of_list length].
  - replace ((i <=? j) && (j <? i + N.of_nat 0)) with false by lia. reflexivity.
  - rewrite IH, aget_aset. destruct (N.eqb_spec i j) as [<-|Hne].
    + replace ((i + 1 <=? i) && (i <? i + 1 + N.of_nat (length r))) with false by lia.
      replace ((i <=? i) && (i <? i + N.of_nat (S (length r)))) with true by lia. rewrite N.sub_diag. reflexivity.
    + destruct (N.leb_spec (i + 1) j) as [H1|H1].
      * replace (i <=? j) with true by lia. cbn [andb].
        replace (j <? i + N.of_nat (S (length r))) with (j <? i + 1 + N.of_nat (length r)) by lia.
        destruct (j <? i + 1 + N.of_nat (length r)); [|reflexivity].
        replace (N.to_nat (j - i)) with (S (N.to_nat (j - (i + 1)))) by lia. reflexivity.
      * replace (i <=? j) with false by lia. reflexivity.
Qed.

Lemma arr_of_list_WF : forall l, Forall (fun b => b < 256) l -> WFb (arr_of_list 0 l aempty).
Proof.
  intros l H j. rewrite arr_of_list_get. destruct (_ && _); [|rewrite aget_empty; lia].
  destruct (nth_in_or_default (N.to_nat (j - 0)) l 0) as [Hin|Hd]; [|rewrite Hd; lia].
  rewrite Forall_forall in H. now apply H.
Qed.

(* the nibble scan: no register beyond 63; num = registers at cur_min; tokens = exception tokens *)
Lemma a4_scan_spec : forall bytes cm slots num tokens num' tokens',
  a4_scan bytes cm slots num tokens = Ok (num', tokens') ->
  (forall j, In j slots -> a4_get_raw bytes j <> 15 -> cm + a4_get_raw bytes j <= 63) /\
  num' = num + N.of_nat (length (filter (fun j => a4_get_raw bytes j =? 0) slots)) /\
  tokens' = tokens + N.of_nat (length (filter (fun j => a4_get_raw bytes j =? 15) slots)).
Proof.
  intros bytes cm. induction slots as [|s r IH]; intros num tokens num' tokens' H; cbn [a4_scan filter length] in *.
  - inversion H; subst. split; [intros j []|]. split; lia.
  - rewrite AUX_TOKEN_15 in H. unfold MAX_VALUE in H.
    destruct (N.eqb_spec (a4_get_raw bytes s) 15) as [E15|E15].
    + destruct (IH _ _ _ _ H) as (A & B & C). replace (a4_get_raw bytes s =? 0) with false by lia.
      split; [|split; [assumption|cbn [length]; lia]]. intros j [<-|Hj] Hne; [contradiction|now apply A].
    + destruct (N.ltb_spec 63 (cm + a4_get_raw bytes s)) as [Hbig|Hok]; [discriminate|].
      destruct (IH _ _ _ _ H) as (A & B & C). split; [|split; [|assumption]].
      * intros j [<-|Hj] Hne; [assumption|now apply A].
      * destruct (N.eqb_spec (a4_get_raw bytes s) 0); cbn [length]; lia.
Qed.

(* an Array4 assembled the way Array4::deserialize does satisfies the invariant of C02 (B.4) for
   the register file read off the nibbles and the exception list *)
Lemma a4_built_inv : forall lgk bytes cm num tokens cs (aux : option auxmap) (e : hip),
  4 <= lgk <= 21 -> WFb bytes -> cm <= 63 ->
  a4_scan bytes cm (Nseq 0 (N.to_nat (2 ^ lgk))) 0 0 = Ok (num, tokens) ->
  N.of_nat (length cs) = tokens -> (forall c, In c cs -> c < 2 ^ 32) ->
  ((tokens = 0 /\ aux = None) \/ (exists m, a4_read_aux bytes cm lgk cs (aux_new lgk) = Ok m /\ aux = Some m)) ->
  exists regs, Inv4 lgk regs (mkA4 lgk bytes cm num aux e) /\ (forall j, j < 2 ^ lgk -> regs j <= 63) /\
    (forall j, j < 2 ^ lgk -> a4_get_raw bytes j < 15 -> regs j = cm + a4_get_raw bytes j) /\
    (forall j, j < 2 ^ lgk -> a4_get_raw bytes j = 15 ->
       exists c, In c cs /\ N.land (get_slot c) (2 ^ lgk - 1) = j /\ regs j = get_value c).
Proof.
  intros lgk bytes cm num tokens cs aux e Hlg W Hcm Hscan Hlen Hc32 Haux.
  set (k := 2 ^ lgk) in *. destruct (a4_scan_spec _ _ _ _ _ _ _ Hscan) as (Hval & Hnum & Htok).
  rewrite N.add_0_l in Hnum, Htok.
  set (T := filter (fun j => a4_get_raw bytes j =? 15) (Nseq 0 (N.to_nat k))) in *.
  assert (HT : forall j, In j T <-> j < k /\ a4_get_raw bytes j = 15).
  { intros j. unfold T. rewrite filter_In, Nseq_range_In. lia. }
  set (slot_of_c := fun c => N.land (get_slot c) (k - 1)).
  (* the exceptions as a relation, and every token slot has one *)
  assert (Hrel : exists (amap : N -> N -> Prop),
            AuxOK lgk aux /\ (forall j v, auxdom aux j v <-> amap j v) /\
            (forall j v, amap j v <-> exists c, In c cs /\ slot_of_c c = j /\ v = get_value c) /\
            (forall c, In c cs -> a4_get_raw bytes (slot_of_c c) = 15 /\ cm + 15 <= get_value c) /\
            NoDup (map slot_of_c cs)).
  { destruct Haux as [[Ht ->]|(m & Hm & ->)].
    - assert (cs = []) by (destruct cs; [reflexivity|cbn [length] in Hlen; lia]). subst cs.
      exists (fun _ _ => False). split; [exact I|]. split; [intros; cbn [auxdom]; tauto|]. split.
      + intros j v. split; [tauto|]. intros (c & [] & _).
      + split; [intros c []|constructor].
    - destruct (a4_read_aux_spec lgk bytes cm cs (aux_new lgk) Hlg (proj1 (aux_new_inv lgk Hlg))) as [_ Hok].
      destruct (Hok m Hm) as (HA & Hmaps & Hchk & Hnd & _).
      exists (amaps m). split; [exact HA|]. split; [intros; cbn [auxdom]; tauto|]. split; [|split; assumption].
      intros j v. rewrite Hmaps. split.
      + intros [H|H]; [exfalso; now apply (proj2 (aux_new_inv lgk Hlg) j v)|].
        destruct H as (c & Hc & -> & ->). exists c. split; [assumption|]. split; reflexivity.
      + intros (c & Hc & <- & ->). right. exists c. split; [assumption|]. split; reflexivity. }
  destruct Hrel as (amap & HAok & Hdom & Hamap & Hchk & Hnd).
  assert (Hslot_lt : forall c, slot_of_c c < k).
  { intros c. unfold slot_of_c, k. rewrite land_mask. apply N.mod_lt. apply N.pow_nonzero. lia. }
  (* pigeonhole: the |cs| distinct exception slots are token slots, and there are |cs| token slots *)
  assert (Hcover : forall j, In j T -> In j (map slot_of_c cs)).
  { apply NoDup_length_incl; [assumption| |].
    - rewrite map_length. unfold T in *. lia.
    - intros j Hj. apply in_map_iff in Hj. destruct Hj as (c & <- & Hc). apply HT. split; [apply Hslot_lt|]. now apply Hchk. }
  (* the register file *)
  set (pick := fun j => match List.find (fun c => slot_of_c c =? j) cs with Some c => get_value c | None => 0 end).
  set (regs := fun j => if a4_get_raw bytes j <? 15 then cm + a4_get_raw bytes j else pick j).
  assert (Hpick : forall j, In j (map slot_of_c cs) -> exists c, In c cs /\ slot_of_c c = j /\ pick j = get_value c /\ amap j (pick j)).
  { intros j Hj. unfold pick. destruct (List.find (fun c => slot_of_c c =? j) cs) as [c|] eqn:Ef.
    - apply find_some in Ef. destruct Ef as [Hc Heq]. apply N.eqb_eq in Heq. exists c. split; [assumption|]. split; [assumption|].
      split; [reflexivity|]. apply Hamap. exists c. split; [assumption|]. split; [assumption|reflexivity].
    - exfalso. apply in_map_iff in Hj. destruct Hj as (c & Hs & Hc). pose proof (find_none _ _ Ef c Hc) as Hn. cbv beta in Hn. lia. }
  assert (Hamap_fun : forall j v, amap j v -> v = pick j).
  { intros j v Hv. apply Hamap in Hv. destruct Hv as (c & Hc & Hs & ->).
    destruct (Hpick j ltac:(apply in_map_iff; exists c; split; assumption)) as (c' & Hc' & Hs' & Hp & _). rewrite Hp.
    (* NoDup slots: c = c' *)
    assert (c = c'); [|congruence].
    clear -Hnd Hc Hc' Hs Hs'. induction cs as [|x r IH]; [destruct Hc|]. cbn [map] in Hnd. inversion Hnd as [|? ? Hnin Hnd']; subst.
    destruct Hc as [->|Hc], Hc' as [->|Hc']; [reflexivity| | |now apply IH].
    - exfalso. apply Hnin. rewrite <- Hs'. apply in_map_iff. exists c'. split; [reflexivity|assumption]. 
    - exfalso. apply Hnin. rewrite Hs'. rewrite <- Hs'. apply in_map_iff. exists c. split; [congruence|assumption]. }
  exists regs. split; [|split; [|split]].
  - split; [reflexivity|]. cbn [a4_bytes a4_cur_min a4_aux a4_num]. split.
    + split; [assumption|]. split; [assumption|]. split.
      * intros j Hj. unfold regs. pose proof (a4_get_le bytes j W) as Hle. split.
        -- intros Hl. destruct (N.ltb_spec (a4_get_raw bytes j) 15); [reflexivity|lia].
        -- intros E15. rewrite E15. cbn. change (15 <? 15) with false. cbv iota.
           destruct (Hpick j (Hcover j (proj2 (HT j) (conj Hj E15)))) as (c & Hc & Hs & Hp & Ha).
           split; [rewrite Hp; rewrite <- Hs in E15; now apply Hchk|]. now apply Hdom.
      * intros j v Hd. apply Hdom in Hd. apply Hamap in Hd. destruct Hd as (c & Hc & <- & ->).
        split; [apply Hslot_lt|now apply Hchk].
    + rewrite Hnum. unfold count_regs. fold k. do 2 f_equal. apply filter_ext_in. intros j Hj. apply Nseq_range_In in Hj.
      unfold regs. pose proof (a4_get_le bytes j W) as Hle. destruct (N.ltb_spec (a4_get_raw bytes j) 15) as [Hl|Hl]; [lia|].
      assert (E15 : a4_get_raw bytes j = 15) by lia.
      destruct (Hpick j (Hcover j (proj2 (HT j) (conj Hj E15)))) as (c & Hc & Hs & Hp & _).
      rewrite <- Hs in E15. destruct (Hchk c Hc) as [_ Hge]. rewrite Hp. lia.
  - intros j Hj. unfold regs. pose proof (a4_get_le bytes j W) as Hle. destruct (N.ltb_spec (a4_get_raw bytes j) 15) as [Hl|Hl].
    + apply Hval; [now apply Nseq_range_In|lia].
    + assert (E15 : a4_get_raw bytes j = 15) by lia.
      destruct (Hpick j (Hcover j (proj2 (HT j) (conj Hj E15)))) as (c & Hc & Hs & Hp & _). rewrite Hp.
      rewrite get_value_div. specialize (Hc32 c Hc). unfold cvalue, P26. change (2 ^ 32) with 4294967296 in Hc32. lia.
  - intros j Hj Hl. unfold regs. destruct (N.ltb_spec (a4_get_raw bytes j) 15); [reflexivity|lia].
  - intros j Hj E15. destruct (Hpick j (Hcover j (proj2 (HT j) (conj Hj E15)))) as (c & Hc & Hs & Hp & _).
    exists c. split; [assumption|]. split; [assumption|]. unfold regs. rewrite E15. change (15 <? 15) with false. cbv iota. assumption.
Qed.

Lemma list_nth_Nseq : forall (l : list N), map (fun j => nth (N.to_nat j) l 0) (Nseq 0 (length l)) = l.
Proof.
  intros l. assert (H : forall s, map (fun j => nth (N.to_nat (j - s)) l 0) (Nseq s (length l)) = l).
  { induction l as [|b r IH]; intros s; cbn [length Nseq map]; [reflexivity|]. rewrite N.sub_diag. cbn [N.to_nat nth]. f_equal.
    rewrite <- (IH (s + 1)) at 2. apply map_ext_in. intros j Hj. apply Nseq_In in Hj.
    replace (N.to_nat (j - s)) with (S (N.to_nat (j - (s + 1)))) by lia. reflexivity. }
  rewrite <- (H 0) at 2. apply map_ext. intros j. now rewrite N.sub_0_r.
Qed.

Lemma filter_count_nth : forall (p : N -> bool) (l : list N),
  N.of_nat (length (filter p l)) = count_regs (N.of_nat (length l)) (fun j => p (nth (N.to_nat j) l 0)).
Proof.
  intros p l. unfold count_regs. rewrite Nat2N.id. rewrite <- (list_nth_Nseq l) at 1. now rewrite filter_map_len.
Qed.

(* the estimator fields of an accepted array image are finite and non-negative (check_image_field,
   /repo fix 08d9c35): no NaN / infinity / negative value reaches the composite estimator *)
Definition est_wf (e : hip) : Prop :=
  image_field_ok (h_accum e) = true /\ image_field_ok (h_kxq0 e) = true /\ image_field_ok (h_kxq1 e) = true.

Lemma est_of_image_wf : forall d1 d2 d3 ooo, image_fields_ok d1 d2 d3 = true -> est_wf (est_of_image d1 d2 d3 ooo).
Proof.
  intros d1 d2 d3 ooo H. unfold image_fields_ok in H. apply andb_prop in H. destruct H as [H H3]. apply andb_prop in H. destruct H as [H1 H2].
  unfold est_wf, est_of_image, hip_set_ooo. cbn [h_accum h_kxq0 h_kxq1]. split; [|split; assumption].
  destruct ooo; [reflexivity|assumption].
Qed.

Lemma read_hll_body_ok : forall bs n ooo e auxc data rest, read_hll_body bs n ooo = Ok (e, auxc, data, rest) ->
  length data = N.to_nat n /\ (BOK bs -> BOK data /\ BOK rest) /\ est_wf e.
Proof.
  intros bs n ooo e auxc data rest H. unfold read_hll_body in H.
  destruct (take 8 bs) as [[d1 r1]| |] eqn:E1; cbn [obind fst snd] in H; try discriminate.
  destruct (take 8 r1) as [[d2 r2]| |] eqn:E2; cbn [obind fst snd] in H; try discriminate.
  destruct (take 8 r2) as [[d3 r3]| |] eqn:E3; cbn [obind fst snd] in H; try discriminate.
  destruct (image_fields_ok d1 d2 d3) eqn:Ef; cbn [negb] in H; [|discriminate].
  destruct (take 4 r3) as [[d4 r4]| |] eqn:E4; cbn [obind fst snd] in H; try discriminate.
  destruct (take 4 r4) as [[d5 r5]| |] eqn:E5; cbn [obind fst snd] in H; try discriminate.
  destruct (take (N.to_nat n) r5) as [[d6 r6]| |] eqn:E6; cbn [obind fst snd] in H; try discriminate.
  inversion H; subst. split; [now destruct (take_ok _ _ _ _ E6)|]. split; [|now apply est_of_image_wf].
  intros HB. destruct (take_BOK _ _ _ _ HB E1) as [_ B1]. destruct (take_BOK _ _ _ _ B1 E2) as [_ B2].
  destruct (take_BOK _ _ _ _ B2 E3) as [_ B3]. destruct (take_BOK _ _ _ _ B3 E4) as [_ B4].
  destruct (take_BOK _ _ _ _ B4 E5) as [_ B5]. apply (take_BOK _ _ _ _ B5 E6).
Qed.

(* an accepted Hll8 array: registers within 6 bits, num_zeros exact, nothing beyond k *)
Lemma a8_deserialize_ok : forall bs lgk ooo a, a8_deserialize bs lgk ooo = Ok a ->
  a8_lgk a = lgk /\ (forall j, a8_get a j <= 63) /\ (forall j, 2 ^ lgk <= j -> a8_get a j = 0) /\
  a8_nz a = count_regs (2 ^ lgk) (fun j => a8_get a j =? 0) /\ est_wf (a8_est a).
Proof.
  intros bs lgk ooo a H. unfold a8_deserialize in H.
  destruct (read_hll_body bs (2 ^ lgk) ooo) as [[[[e n] data] rest]| |] eqn:Eb; cbn [obind] in H; try discriminate.
  destruct (read_hll_body_ok _ _ _ _ _ _ _ Eb) as (Hlen & _ & Hew).
  destruct (existsb (fun v => MAX_VALUE <? v) data) eqn:Ex; [discriminate|]. inversion H; subst a. clear H.
  unfold a8_get. cbn [a8_lgk a8_bytes a8_nz a8_est].
  assert (Hget : forall j, aget (arr_of_list 0 data aempty) j = if j <? 2 ^ lgk then nth (N.to_nat j) data 0 else 0).
  { intros j. rewrite arr_of_list_get, Hlen, N2Nat.id, N.add_0_l, N.sub_0_r, aget_empty. replace (0 <=? j) with true by lia. reflexivity. }
  assert (H63 : forall v, In v data -> v <= 63).
  { intros v Hv. destruct (N.leb_spec v 63); [assumption|]. exfalso.
    assert (existsb (fun v => MAX_VALUE <? v) data = true); [|congruence]. apply existsb_exists. exists v. split; [assumption|]. unfold MAX_VALUE. lia. }
  split; [reflexivity|]. split; [|split; [|split; [|assumption]]].
  - intros j. rewrite Hget. destruct (j <? 2 ^ lgk); [|lia].
    destruct (nth_in_or_default (N.to_nat j) data 0) as [Hin|Hd]; [now apply H63|rewrite Hd; lia].
  - intros j Hj. rewrite Hget. replace (j <? 2 ^ lgk) with false by lia. reflexivity.
  - rewrite (filter_count_nth (fun v => v =? 0) data), Hlen, N2Nat.id. apply count_regs_ext. intros j Hj.
    rewrite Hget. replace (j <? 2 ^ lgk) with true by lia. reflexivity.
Qed.

(* an accepted Hll6 array: a byte array, num_zeros exact *)
Lemma a6_deserialize_ok : forall bs lgk ooo a, BOK bs -> a6_deserialize bs lgk ooo = Ok a ->
  a6_lgk a = lgk /\ WFb (a6_bytes a) /\ a6_nz a = count_regs (2 ^ lgk) (fun j => a6_get a j =? 0) /\ est_wf (a6_est a).
Proof.
  intros bs lgk ooo a HB H. unfold a6_deserialize in H.
  destruct (read_hll_body bs (a6_num_bytes lgk) ooo) as [[[[e n] data] rest]| |] eqn:Eb; cbn [obind] in H; try discriminate.
  destruct (read_hll_body_ok _ _ _ _ _ _ _ Eb) as (_ & HBd & Hew). inversion H; subst a. unfold a6_get. cbn [a6_lgk a6_bytes a6_nz a6_est].
  split; [reflexivity|]. split; [apply arr_of_list_WF; now apply HBd|]. split; [reflexivity|assumption].
Qed.

(* an accepted Hll4 array satisfies the Array4 invariant of C02 for some register file <= 63 *)
Lemma a4_deserialize_ok : forall bs cm lgk ooo a, BOK bs -> 4 <= lgk <= 21 -> a4_deserialize bs cm lgk ooo = Ok a ->
  (exists regs, Inv4 lgk regs a /\ (forall j, j < 2 ^ lgk -> regs j <= 63)) /\ est_wf (a4_est a).
Proof.
  intros bs cm lgk ooo a HB Hlg H. unfold a4_deserialize in H.
  destruct (take 8 bs) as [[d1 r1]| |] eqn:E1; cbn [obind fst snd] in H; try discriminate.
  destruct (take 8 r1) as [[d2 r2]| |] eqn:E2; cbn [obind fst snd] in H; try discriminate.
  destruct (take 8 r2) as [[d3 r3]| |] eqn:E3; cbn [obind fst snd] in H; try discriminate.
  destruct (image_fields_ok d1 d2 d3) eqn:Ef; cbn [negb] in H; [|discriminate].
  pose proof (est_of_image_wf d1 d2 d3 ooo Ef) as Hew.
  destruct (take 4 r3) as [[d4 r4]| |] eqn:E4; cbn [obind fst snd] in H; try discriminate.
  destruct (take 4 r4) as [[d5 r5]| |] eqn:E5; cbn [obind fst snd] in H; try discriminate.
  unfold MAX_VALUE in H. destruct (N.ltb_spec 63 cm) as [|Hcm]; [discriminate|].
  destruct (take (N.to_nat (2 ^ (lgk - 1))) r5) as [[d6 r6]| |] eqn:E6; cbn [obind fst snd] in H; try discriminate.
  destruct (a4_scan _ cm _ 0 0) as [[num tokens]| |] eqn:Es; cbn [obind] in H; try discriminate.
  assert (HB6 : BOK d6 /\ BOK r6).
  { destruct (take_BOK _ _ _ _ HB E1) as [_ B1]. destruct (take_BOK _ _ _ _ B1 E2) as [_ B2].
    destruct (take_BOK _ _ _ _ B2 E3) as [_ B3]. destruct (take_BOK _ _ _ _ B3 E4) as [_ B4].
    destruct (take_BOK _ _ _ _ B4 E5) as [_ B5]. apply (take_BOK _ _ _ _ B5 E6). }
  destruct HB6 as [HBd HBr]. pose proof (arr_of_list_WF d6 HBd) as W.
  destruct (N.eqb_spec (le_val d5) tokens) as [Etok|]; [|discriminate]. cbn [negb] in H.
  destruct (N.eqb_spec (le_val d5) 0) as [E0|E0].
  - inversion H; subst a. split; [|exact Hew].
    destruct (a4_built_inv lgk _ cm num tokens [] None (est_of_image d1 d2 d3 ooo) Hlg W Hcm Es) as (regs & HI & Hb & _).
    + cbn [length]. lia.
    + intros c [].
    + left. split; [lia|reflexivity].
    + exists regs. split; assumption.
  - destruct (read_count_u32s (le_val d5) r6) as [[cs rr]| |] eqn:Er; cbn [obind fst snd] in H; try discriminate.
    destruct (a4_read_aux _ cm lgk cs (aux_new lgk)) as [m| |] eqn:Ea; cbn [obind] in H; try discriminate.
    inversion H; subst a. split; [|exact Hew].
    assert (Hc32 : forall c, In c cs -> c < 2 ^ 32).
    { unfold read_count_u32s in Er. destruct (N.of_nat (length r6) <? 4 * le_val d5); [discriminate|]. now apply (read_u32s_BOK _ _ _ _ HBr Er). }
    destruct (a4_built_inv lgk _ cm num tokens cs (Some m) (est_of_image d1 d2 d3 ooo) Hlg W Hcm Es) as (regs & HI & Hb & _).
    + rewrite (read_count_length _ _ _ _ Er). assumption.
    + assumption.
    + right. exists m. split; [assumption|reflexivity].
    + exists regs. split; assumption.
Qed.

Lemma valid_of_u32 : forall c, c < 2 ^ 32 -> get_value c <> 0 -> valid c.
Proof.
  intros c Hc Hv. rewrite get_value_div in Hv. unfold valid, cvalue, P26 in *. change (2 ^ 32) with 4294967296 in Hc. lia.
Qed.

(* the insertion loop of List::deserialize: the list holds the distinct non-empty coupons read *)
Lemma list_insert_all_spec : forall vs l ds, ListInv l ds -> (length ds + length vs <= 8)%nat ->
  forall l', list_insert_all vs l = Ok l' ->
    exists ds', ListInv l' ds' /\ (forall c, In c ds' <-> In c ds \/ (In c vs /\ c <> 0)) /\
                (forall c, In c vs -> c <> 0 -> get_value c <> 0).
Proof.
  induction vs as [|v r IH]; intros l ds HL Hlen l' H; cbn [list_insert_all] in H.
  - inversion H; subst. exists ds. split; [assumption|]. split; [intros c; cbn [In]; tauto|intros c []].
  - cbn [length] in Hlen. rewrite COUPON_EMPTY_0 in H. destruct (N.eqb_spec v 0) as [E|E].
    + destruct (IH l ds HL ltac:(lia) l' H) as (ds' & HL' & Hin & Hval). exists ds'. split; [assumption|]. split.
      * intros c. rewrite (Hin c). cbn [In]. split; [intros [?|[? ?]]; [now left|right; split; [now right|assumption]]|].
        intros [?|[[?|?] ?]]; [now left|congruence|right; now split].
      * intros c [<-|Hc] Hc0; [congruence|now apply Hval].
    + destruct (N.eqb_spec (get_value v) 0) as [Ev|Ev]; [discriminate|].
      destruct (in_dec N.eq_dec v ds) as [Hin|Hnin].
      * rewrite (list_update_old l ds v HL Hin) in H.
        destruct (IH l ds HL ltac:(lia) l' H) as (ds' & HL' & Hin' & Hval). exists ds'. split; [assumption|]. split.
        -- intros c. rewrite (Hin' c). cbn [In]. split; [intros [?|[? ?]]; [now left|right; split; [now right|assumption]]|].
           intros [?|[[<-|?] ?]]; [now left|now left|right; now split].
        -- intros c [<-|Hc] Hc0; [assumption|now apply Hval].
      * pose proof (list_update_new l ds v HL Hnin E ltac:(lia)) as HL1.
        destruct (IH (list_update l v) (ds ++ [v]) HL1 ltac:(rewrite app_length; cbn [length]; lia) l' H) as (ds' & HL' & Hin' & Hval).
        exists ds'. split; [assumption|]. split.
        -- intros c. rewrite (Hin' c), in_app_iff. cbn [In]. split.
           ++ intros [[?|[<-|[]]]|[? ?]]; [now left|right; split; [now left|assumption]|right; split; [now right|assumption]].
           ++ intros [?|[[<-|?] ?]]; [left; now left|left; right; now left|right; now split].
        -- intros c [<-|Hc] Hc0; [assumption|now apply Hval].
Qed.

(* an accepted list: the list invariant of C02 (8 slots, the coupons first, all distinct, counted),
   fewer than 8 valid coupons -- so the next update is never dropped (defects D1 and 2f7e0d8) *)
Lemma list_deserialize_ok : forall bs count empty compact l, BOK bs ->
  list_deserialize bs LG_LIST_SIZE count empty compact = Ok l ->
  exists ds, ListInv l ds /\ (length ds < 8)%nat /\ Forall valid ds.
Proof.
  intros bs count empty compact l HB H. unfold list_deserialize in H. change (2 ^ LG_LIST_SIZE) with 8 in H.
  destruct (N.leb_spec 8 count) as [|Hc8]; [discriminate|].
  destruct (negb empty && ((0 <? count) || _)).
  - destruct (read_count_u32s _ bs) as [[vs r]| |] eqn:Er; cbn [obind fst] in H; try discriminate.
    destruct (list_insert_all vs (list_new LG_LIST_SIZE)) as [l1| |] eqn:Ei; cbn [obind] in H; try discriminate.
    destruct (N.eqb_spec (hl_len l1) count) as [El|]; cbn [negb] in H; [|discriminate]. inversion H; subst l1.
    pose proof (read_count_length _ _ _ _ Er) as Hlen.
    assert (Hv32 : forall c, In c vs -> c < 2 ^ 32).
    { unfold read_count_u32s in Er. destruct (N.of_nat (length bs) <? _); [discriminate|]. now apply (read_u32s_BOK _ _ _ _ HB Er). }
    destruct (list_insert_all_spec vs (list_new LG_LIST_SIZE) [] list_new_inv) with (l' := l) as (ds & HL & Hin & Hval); [|assumption|].
    + cbn [length]. destruct compact; lia.
    + exists ds. split; [assumption|]. pose proof HL as (_ & Hl & _). split; [lia|].
      apply Forall_forall. intros c Hc. apply Hin in Hc. destruct Hc as [[]|[Hc Hc0]].
      apply valid_of_u32; [now apply Hv32|now apply Hval].
  - cbn [obind] in H. destruct (negb _); [discriminate|]. inversion H; subst l. exists []. split; [apply list_new_inv|].
    split; [cbn; lia|constructor].
Qed.

(* what HllSketch::deserialize guarantees about a value it returns as Ok (real byte strings) *)
Definition image_wf (s : hsketch) : Prop :=
  let lgk := sk_lgk s in
  4 <= lgk <= 21 /\
  match sk_mode s with
  | MList l _ => exists ds, ListInv l ds /\ (length ds < 8)%nat /\ Forall valid ds
  | MSet st _ => 8 <= lgk /\ 5 <= hs_lg st /\ hs_lg st <= lgk - 3 /\ (exists S, SetRep (hs_lg st) st S /\ Forall valid S) /\
                 4 * hs_len st <= 3 * 2 ^ hs_lg st
  | MArr4 a => (exists regs, Inv4 lgk regs a /\ (forall j, j < 2 ^ lgk -> regs j <= 63)) /\ est_wf (a4_est a)
  | MArr6 a => a6_lgk a = lgk /\ WFb (a6_bytes a) /\ a6_nz a = count_regs (2 ^ lgk) (fun j => a6_get a j =? 0) /\
               est_wf (a6_est a)
  | MArr8 a => a8_lgk a = lgk /\ (forall j, a8_get a j <= 63) /\ (forall j, 2 ^ lgk <= j -> a8_get a j = 0) /\
               a8_nz a = count_regs (2 ^ lgk) (fun j => a8_get a j =? 0) /\ est_wf (a8_est a)
  end.

Theorem hll_deserialize_ok_wf : forall bs s, BOK bs -> hll_deserialize bs = Ok s -> image_wf s.
Proof.
  intros bs s HB H. unfold hll_deserialize in H. destruct (length bs <? 8)%nat eqn:El; [discriminate|].
  destruct (negb (nth 2 bs 0 =? FAMILY_HLL)); [discriminate|]. destruct (negb (nth 1 bs 0 =? SER_VER)); [discriminate|].
  destruct ((nth 3 bs 0 <? 4) || (21 <? nth 3 bs 0)) eqn:Elg; [discriminate|].
  assert (Hlg : 4 <= nth 3 bs 0 <= 21) by lia.
  destruct (N.land (N.shiftr (nth 7 bs 0) 2) 3 =? 3); [discriminate|].
  assert (HBr : BOK (skipn 8 bs)).
  { unfold BOK in *. rewrite <- (firstn_skipn 8 bs) in HB. apply Forall_app in HB. tauto. }
  destruct (N.land (nth 7 bs 0) 3 =? MODE_LIST).
  { destruct (negb (nth 0 bs 0 =? LIST_PREINTS)); [discriminate|].
    destruct (N.eqb_spec (nth 4 bs 0) LG_LIST_SIZE) as [E3|]; [|discriminate]. cbn [negb] in H.
    destruct (list_deserialize _ _ _ _ _) as [l| |] eqn:Edl; cbn [obind] in H; try discriminate. inversion H; subst s.
    unfold image_wf. cbn [sk_lgk sk_mode]. split; [assumption|]. rewrite E3 in Edl.
    now apply (list_deserialize_ok _ _ _ _ _ HBr Edl). }
  destruct (N.land (nth 7 bs 0) 3 =? MODE_SET).
  { destruct (negb (nth 0 bs 0 =? SET_PREINTS)); [discriminate|]. destruct (N.ltb_spec (nth 3 bs 0) 8); [discriminate|].
    destruct ((nth 4 bs 0 <? LG_MIN_SET_SIZE) || (nth 3 bs 0 - 3 <? nth 4 bs 0)) eqn:Er; [discriminate|].
    destruct (set_deserialize _ _ _) as [st| |] eqn:Eds; cbn [obind] in H; try discriminate. inversion H; subst s.
    destruct (proj2 (set_deserialize_spec _ _ _) st Eds) as (Hl & (S & HS & Hnz & H32) & Hload).
    unfold image_wf. cbn [sk_lgk sk_mode]. split; [assumption|]. rewrite Hl. unfold LG_MIN_SET_SIZE in Er.
    split; [assumption|]. split; [lia|]. split; [lia|]. split; [|assumption]. exists S. split; [assumption|].
    apply Forall_forall. intros c Hc. apply valid_of_u32; [now apply (H32 HBr)|now apply Hnz]. }
  destruct (N.land (nth 7 bs 0) 3 =? MODE_HLL); [|discriminate].
  destruct (negb (nth 0 bs 0 =? HLL_PREINTS)); [discriminate|].
  match type of H with context [match ?t with T4 => _ | T6 => _ | T8 => _ end] => destruct t end.
  - destruct (a4_deserialize _ _ _ _) as [a| |] eqn:Ea; cbn [obind] in H; try discriminate. inversion H; subst s.
    unfold image_wf. cbn [sk_lgk sk_mode]. split; [assumption|]. now apply (a4_deserialize_ok _ _ _ _ _ HBr Hlg Ea).
  - destruct (a6_deserialize _ _ _) as [a| |] eqn:Ea; cbn [obind] in H; try discriminate. inversion H; subst s.
    unfold image_wf. cbn [sk_lgk sk_mode]. split; [assumption|]. now apply (a6_deserialize_ok _ _ _ _ HBr Ea).
  - destruct (a8_deserialize _ _ _) as [a| |] eqn:Ea; cbn [obind] in H; try discriminate. inversion H; subst s.
    unfold image_wf. cbn [sk_lgk sk_mode]. split; [assumption|]. now apply (a8_deserialize_ok _ _ _ _ Ea).
Qed.

(* ---------- the bridge: an accepted canonical image is a well-formed source (SrcOK) ----------
   "canonical": a set image holds at least 8 coupons (the crate and the reference implementations
   leave list mode only then) and an Hll4 image has at least one register at cur_min (the writer
   raises cur_min otherwise).  Non-canonical images are accepted too and are harmless in the crate,
   but the invariants of C02 / C03 do not describe them. *)
Definition image_canonical (s : hsketch) : Prop :=
  match sk_mode s with MSet st _ => 8 <= hs_len st | MArr4 a => 0 < a4_num a | _ => True end.

Lemma regs_canon_ok : forall lgk (f : N -> N), 4 <= lgk <= 21 -> (forall j, j < 2 ^ lgk -> f j <= 63) ->
  let cs := canon 0 (map f (Nseq 0 (N.to_nat (2 ^ lgk)))) in
  Forall valid cs /\ (forall j, j < 2 ^ lgk -> spec_regs lgk cs j = f j) /\ (forall j, 2 ^ lgk <= j -> spec_regs lgk cs j = 0).
Proof.
  intros lgk f Hlg H63 cs. split; [|split].
  - apply canon_valid. apply Forall_forall. intros v Hv. apply in_map_iff in Hv. destruct Hv as (j & <- & Hj).
    apply H63. now apply Nseq_range_In.
  - intros j Hj. unfold cs. rewrite canon_regs_full by lia. replace (j <? 2 ^ lgk) with true by lia. reflexivity.
  - intros j Hj. now apply spec_regs_out_of_range.
Qed.

Theorem wf_src_ok : forall s, image_wf s -> image_canonical s ->
  exists cs, SrcOK (sk_lgk s) (tag_flag (sk_tag s)) cs s.
Proof.
  intros [lgk m] [Hlg Hm] Hcan. unfold image_canonical, sk_tag in *. cbn [sk_lgk sk_mode] in *. unfold SrcOK. cbn [sk_lgk sk_mode].
  destruct m as [l t|st t|a|a|a]; cbn [tag_flag].
  - destruct Hm as (ds & HL & Hlen & Hv). exists ds. split; [reflexivity|]. split; [assumption|]. split; [assumption|].
    split; [reflexivity|]. exists ds. split; [assumption|]. split; [assumption|]. intros c; tauto.
  - destruct Hm as (A & B & C & (S & HS & Hv) & D). exists S. split; [reflexivity|]. split; [assumption|]. split; [assumption|].
    split; [reflexivity|]. split; [assumption|]. split; [assumption|]. split; [assumption|]. split; [assumption|]. split; assumption.
  - destruct Hm as ((regs & HI & H63) & _). destruct (regs_canon_ok lgk regs Hlg H63) as (Hv & Hr & _).
    eexists. split; [reflexivity|]. split; [assumption|]. split; [exact Hv|]. split; [reflexivity|]. split; [|assumption].
    apply (inv4_ext hip lgk regs); [|assumption]. intros j Hj. symmetry. now apply Hr.
  - destruct Hm as (Hk & W & Hz & _).
    destruct (regs_canon_ok lgk (a6_get a) Hlg ltac:(intros j _; pose proof (a6_get_lt (a6_bytes a) j W); unfold a6_get; lia)) as (Hv & Hr & _).
    eexists. split; [reflexivity|]. split; [assumption|]. split; [exact Hv|]. split; [reflexivity|]. split; [assumption|].
    split; [assumption|]. split; [intros j Hj; symmetry; now apply Hr|].
    rewrite Hz. unfold spec_zeros. apply count_regs_ext. intros j Hj. now rewrite Hr.
  - destruct Hm as (Hk & H63 & Hout & Hz & _).
    destruct (regs_canon_ok lgk (a8_get a) Hlg ltac:(intros j _; apply H63)) as (Hv & Hr & Ho).
    eexists. split; [reflexivity|]. split; [assumption|]. split; [exact Hv|]. split; [reflexivity|]. split; [assumption|]. split.
    + intros j. destruct (N.lt_ge_cases j (2 ^ lgk)) as [Hj|Hj]; [symmetry; now apply Hr|]. rewrite (Hout j Hj). symmetry. now apply Ho.
    + rewrite Hz. unfold spec_zeros. apply count_regs_ext. intros j Hj. now rewrite Hr.
Qed.

(* the reader's Ok values that are canonical are well-formed sources: every theorem of C02 / C03 /
   C11 / C17 stated over SrcOK (merging into a union, further updates, re-serialization) applies *)
Theorem hll_deserialize_src_ok : forall bs s, BOK bs -> hll_deserialize bs = Ok s -> image_canonical s ->
  exists cs, SrcOK (sk_lgk s) (tag_flag (sk_tag s)) cs s.
Proof. intros bs s HB H Hc. apply wf_src_ok; [now apply (hll_deserialize_ok_wf bs)|assumption]. Qed.

(* ================= C11: serialize then deserialize ================= *)
Lemma take_app : forall a b, take (length a) (a ++ b) = Ok (a, b).
Proof.
  intros. unfold take. rewrite app_length. replace (length a + length b <? length a)%nat with false by lia.
  now rewrite (firstn_app_exact a b (length a) eq_refl), (skipn_app_exact a b (length a) eq_refl).
Qed.

Lemma take_app_n : forall n a b, length a = n -> take n (a ++ b) = Ok (a, b).
Proof. intros n a b <-. apply take_app. Qed.

Lemma le_bytes4_val : forall c, c < 2 ^ 32 -> le_val (le_bytes 4 c) = c.
Proof. intros c H. apply le_val_le_bytes_small. exact H. Qed.

Lemma read_u32s_u32s : forall vs r, (forall c, In c vs -> c < 2 ^ 32) -> read_u32s (length vs) (u32s vs ++ r) = Ok (vs, r).
Proof.
  induction vs as [|c vs IH]; intros r H; cbn [length read_u32s u32s flat_map]; [reflexivity|].
  fold (u32s vs). rewrite <- app_assoc. rewrite (take_app_n 4 (le_bytes 4 c) _ (le_bytes_length 4 c)). cbn [obind fst snd].
  rewrite IH by (intros c' Hc'; apply H; now right). cbn [obind fst snd]. rewrite le_bytes4_val by (apply H; now left). reflexivity.
Qed.

Lemma read_count_u32s_u32s : forall vs r, (forall c, In c vs -> c < 2 ^ 32) ->
  read_count_u32s (N.of_nat (length vs)) (u32s vs ++ r) = Ok (vs, r).
Proof.
  intros vs r H. unfold read_count_u32s. rewrite app_length, u32s_length.
  replace (N.of_nat (4 * length vs + length r) <? 4 * N.of_nat (length vs)) with false by lia.
  rewrite Nat2N.id. now apply read_u32s_u32s.
Qed.

Lemma valid_lt32 : forall c, valid c -> c < 2 ^ 32.
Proof. intros c [_ H]. unfold cvalue, P26 in H. change (2 ^ 32) with 4294967296. lia. Qed.

(* the mode byte decodes to its two fields *)
Lemma mode_byte_fields : forall cur t, cur < 3 ->
  N.land (mode_byte cur t) 3 = cur /\ N.land (N.shiftr (mode_byte cur t) 2) 3 = tgt_num t /\ tgt_num t < 3.
Proof.
  intros cur t H. assert (Hc : cur = 0 \/ cur = 1 \/ cur = 2) by lia.
  destruct Hc as [ -> | [ -> | -> ] ]; destruct t; vm_compute; repeat split; reflexivity.
Qed.

Lemma tgt_of_num : forall t, (if tgt_num t =? tgt_num T4 then T4 else if tgt_num t =? tgt_num T6 then T6 else T8) = t.
Proof. destruct t; reflexivity. Qed.

(* the image of an in-memory array of bytes reads back to the same cells *)
Lemma arr_bytes_roundtrip : forall a n j, j < n -> aget (arr_of_list 0 (arr_bytes a n) aempty) j = aget a j.
Proof.
  intros a n j Hj. rewrite arr_of_list_get, arr_bytes_length, N2Nat.id, N.add_0_l, N.sub_0_r.
  replace ((0 <=? j) && (j <? n)) with true by lia. unfold arr_bytes. rewrite nth_map_Nseq by lia. f_equal. lia.
Qed.

Lemma arr_bytes_roundtrip_out : forall a n j, n <= j -> aget (arr_of_list 0 (arr_bytes a n) aempty) j = 0.
Proof.
  intros a n j Hj. rewrite arr_of_list_get, arr_bytes_length, N2Nat.id, N.add_0_l.
  replace ((0 <=? j) && (j <? n)) with false by lia. apply aget_empty.
Qed.

Lemma arr_bytes_BOK : forall a n, WFb a -> BOK (arr_bytes a n).
Proof. intros a n W. unfold BOK, arr_bytes. apply Forall_forall. intros b Hb. apply in_map_iff in Hb. destruct Hb as (j & <- & _). apply W. Qed.

(* ---------- list mode: the copy is IDENTICAL (8 slots, same coupons in the same order: D1) ---------- *)
Lemma list_inv_eq : forall l l' ds, ListInv l ds -> ListInv l' ds -> l' = l.
Proof.
  intros [lg cps len] [lg' cps' len'] ds (A & B & _ & _ & _ & C) (A' & B' & _ & _ & _ & C').
  cbn [hl_lg hl_coupons hl_len] in *. congruence.
Qed.

(* List::deserialize's insertion loop on distinct valid coupons appends them *)
Lemma list_insert_all_fresh : forall vs l ds, ListInv l ds -> NoDup (ds ++ vs) -> Forall valid vs -> (length ds + length vs <= 8)%nat ->
  exists l', list_insert_all vs l = Ok l' /\ ListInv l' (ds ++ vs).
Proof.
  induction vs as [|v r IH]; intros l ds HL Hnd Hv Hlen; cbn [list_insert_all].
  - exists l. split; [reflexivity|]. now rewrite app_nil_r.
  - inversion Hv as [|? ? Hvv Hvr]; subst. rewrite COUPON_EMPTY_0. pose proof (valid_nonzero v Hvv) as Hv0.
    replace (v =? 0) with false by lia. rewrite get_value_div. replace (cvalue v =? 0) with false by (destruct Hvv; lia).
    cbn [length] in Hlen.
    assert (Hnin : ~ In v ds).
    { intros Hin. apply NoDup_remove_2 in Hnd. apply Hnd. apply in_or_app. now left. }
    pose proof (list_update_new l ds v HL Hnin Hv0 ltac:(lia)) as HL1.
    destruct (IH (list_update l v) (ds ++ [v]) HL1) as (l' & Hr & HL').
    + now rewrite <- app_assoc.
    + assumption.
    + rewrite app_length. cbn [length]. lia.
    + exists l'. split; [assumption|]. rewrite <- app_assoc in HL'. exact HL'.
Qed.

Lemma list_roundtrip : forall lgk t (l : hlist) ds, 4 <= lgk <= 21 -> ListInv l ds -> (length ds < 8)%nat ->
  Forall valid ds -> hll_deserialize (list_serialize l lgk t) = Ok (mkSketch lgk (MList l t)).
Proof.
  intros lgk t l ds Hlg HL Hlen Hv. pose proof HL as (Hc & Hl & Hnd & H0 & _ & Hl3).
  destruct (mode_byte_fields MODE_LIST t ltac:(vm_compute; reflexivity)) as (Hm1 & Hm2 & Hm3).
  unfold list_serialize. rewrite Hl3, Hc, (filter_nonzero_app_zeros ds _ H0), Hl, Nat2N.id, firstn_all.
  replace (3 mod 256) with 3 by reflexivity. replace (N.of_nat (length ds) mod 256) with (N.of_nat (length ds)) by (symmetry; apply N.mod_small; lia).
  unfold hll_deserialize. cbn [app length nth skipn Nat.ltb Nat.leb].
  rewrite !N.eqb_refl. cbn [negb]. replace ((lgk <? 4) || (21 <? lgk)) with false by lia.
  rewrite Hm2, Hm1. replace (tgt_num t =? 3) with false by lia. rewrite tgt_of_num. rewrite N.eqb_refl.
  change (3 =? LG_LIST_SIZE) with true. cbn [negb]. unfold list_deserialize. change (2 ^ 3) with 8.
  replace (8 <=? N.of_nat (length ds)) with false by lia.
  destruct ds as [|d ds'].
  - cbn [length N.of_nat N.eqb]. change (0 =? 0) with true. cbv iota.
    replace (negb (negb (N.land (N.lor EMPTY_FLAG COMPACT_FLAG) EMPTY_FLAG =? 0))) with false by reflexivity. cbn [andb obind].
    change (hl_len (list_new 3)) with 0. change (0 =? 0) with true. cbn [negb].
    rewrite (list_inv_eq l (list_new 3) [] HL list_new_inv). reflexivity.
  - set (dss := d :: ds') in *. replace (N.of_nat (length dss) =? 0) with false by (unfold dss; cbn [length]; lia).
    replace (negb (negb (N.land (N.lor 0 COMPACT_FLAG) EMPTY_FLAG =? 0))) with true by reflexivity.
    replace (negb (N.land (N.lor 0 COMPACT_FLAG) COMPACT_FLAG =? 0)) with true by reflexivity.
    replace (0 <? N.of_nat (length dss)) with true by (unfold dss; cbn [length]; lia). cbn [andb orb].
    rewrite <- (app_nil_r (u32s dss)). rewrite read_count_u32s_u32s by (intros c Hc'; apply valid_lt32; rewrite Forall_forall in Hv; now apply Hv).
    cbn [obind fst].
    destruct (list_insert_all_fresh dss (list_new 3) [] list_new_inv Hnd Hv ltac:(cbn [length]; lia)) as (l' & Hr & HL').
    cbn [app] in HL'. rewrite Hr. cbn [obind]. pose proof HL' as (_ & Hl' & _). rewrite Hl', N.eqb_refl. cbn [negb].
    rewrite (list_inv_eq l l' dss HL HL'). reflexivity.
Qed.

(* ---------- set mode: same lg size, same coupon set, same count (the table is rebuilt) ---------- *)
Lemma set_insert_all_nonzero : forall compact vs st, (forall c, In c vs -> c <> 0 /\ get_value c <> 0) ->
  set_insert_all compact vs st = set_update_all vs st.
Proof.
  intros compact. induction vs as [|v r IH]; intros st H; cbn [set_insert_all set_update_all]; [reflexivity|].
  rewrite COUPON_EMPTY_0. destruct (H v (or_introl eq_refl)) as [Hv0 Hvv]. replace (v =? 0) with false by lia.
  replace (get_value v =? 0) with false by lia.
  destruct (set_update st v); cbn [obind]; [apply IH; intros c Hc; apply H; now right|reflexivity|reflexivity].
Qed.

Lemma set_roundtrip : forall lgk t (st : hset) S, 8 <= lgk <= 21 -> 5 <= hs_lg st -> hs_lg st <= lgk - 3 ->
  SetRep (hs_lg st) st S -> Forall valid S -> 4 * hs_len st <= 3 * 2 ^ hs_lg st ->
  exists st', hll_deserialize (set_serialize st lgk t) = Ok (mkSketch lgk (MSet st' t)) /\
    hs_lg st' = hs_lg st /\ hs_len st' = hs_len st /\ SetRep (hs_lg st) st' S.
Proof.
  intros lgk t st S Hlg H5 H3 HR Hv Hload. set (lg := hs_lg st) in *.
  destruct (mode_byte_fields MODE_SET t ltac:(vm_compute; reflexivity)) as (Hm1 & Hm2 & Hm3).
  set (it := set_iter st). set (sorted := sortN it).
  assert (Hperm : Permutation it sorted) by apply sortN_perm.
  assert (Hin : forall c, In c sorted <-> In c S).
  { intros c. rewrite <- (set_iter_In lg st S c HR). split; intros Hc; [apply (Permutation_in _ (Permutation_sym Hperm) Hc)|apply (Permutation_in _ Hperm Hc)]. }
  assert (Hvs : forall c, In c sorted -> valid c) by (intros c Hc; rewrite Forall_forall in Hv; apply Hv; now apply Hin).
  assert (Hnd : NoDup sorted) by (apply (Permutation_NoDup Hperm); now apply (set_iter_NoDup lg st S)).
  assert (Hcard : hs_len st = N.of_nat (length sorted)).
  { unfold sorted. rewrite sortN_length. apply (set_len_card lg st S HR). }
  assert (Hp : 32 <= 2 ^ lg) by (change 32 with (2 ^ 5); apply N.pow_le_mono_r; lia).
  assert (Hlgb : 2 ^ lg <= 2 ^ 18) by (apply N.pow_le_mono_r; lia). change (2 ^ 18) with 262144 in Hlgb.
  unfold set_serialize. fold lg it sorted. replace (lg mod 256) with lg by (symmetry; apply N.mod_small; lia).
  unfold hll_deserialize. cbn [app length nth skipn Nat.ltb Nat.leb].
  rewrite !N.eqb_refl. cbn [negb]. replace ((lgk <? 4) || (21 <? lgk)) with false by lia.
  rewrite Hm2, Hm1. replace (tgt_num t =? 3) with false by lia. rewrite tgt_of_num.
  change (MODE_SET =? MODE_LIST) with false. cbv iota. rewrite N.eqb_refl. cbn [negb].
  replace (lgk <? 8) with false by lia. unfold LG_MIN_SET_SIZE. replace ((lg <? 5) || (lgk - 3 <? lg)) with false by lia.
  unfold set_deserialize. rewrite (take_app_n 4 (le_bytes 4 (hs_len st)) _ (le_bytes_length 4 _)). cbn [obind fst snd].
  rewrite le_bytes4_val by (change (2 ^ 32) with 4294967296; lia).
  replace (negb (N.land COMPACT_FLAG COMPACT_FLAG =? 0)) with true by reflexivity. cbn [andb].
  unfold set_overloaded. rewrite RESIZE_NUM_3, RESIZE_DEN_4. replace (3 * 2 ^ lg <? 4 * hs_len st) with false by lia.
  replace (read_count_u32s (hs_len st) (u32s sorted)) with (read_count_u32s (N.of_nat (length sorted)) (u32s sorted ++ []))
    by (now rewrite app_nil_r, <- Hcard).
  rewrite read_count_u32s_u32s by (intros c Hc; apply valid_lt32; now apply Hvs). cbn [obind fst].
  rewrite set_insert_all_nonzero by (intros c Hc; split; [apply valid_nonzero; now apply Hvs|rewrite get_value_div; destruct (Hvs c Hc); lia]).
  destruct (set_update_all_fresh lg sorted (set_new lg) [] (set_new_rep lg) Hnd) as (st' & Hall & HR' & Hl').
  - intros c Hc. split; [apply valid_nonzero; now apply Hvs|tauto].
  - unfold set_new. cbn [hs_len]. lia.
  - rewrite Hall. cbn [obind]. unfold set_new in Hl'. cbn [hs_len] in Hl'.
    replace (hs_len st' =? hs_len st) with true by lia. cbn [negb].
    replace (3 * 2 ^ lg <? 4 * hs_len st') with false by lia.
    exists st'. split; [reflexivity|]. destruct HR' as (Hlg' & HI' & Hlen' & Hent'). split; [assumption|]. split; [lia|].
    split; [assumption|]. split; [assumption|]. split; [assumption|].
    intros c. rewrite Hent', app_nil_r, <- in_rev. apply Hin.
Qed.

(* ---------- array modes ---------- *)
Lemma ooo_flag_bit : forall b : bool,
  negb (N.land (N.lor COMPACT_FLAG (if b then OOO_FLAG else 0)) OOO_FLAG =? 0) = b.
Proof. destruct b; reflexivity. Qed.

(* the estimator read back: each field is the 8-byte pattern decoded again, and an out-of-order
   image gets a zero HIP accumulator (set_out_of_order(true) of the reader).  The bit-cast identity
   float_of_bits (bits_of_float f) = f is NOT proved here; it is tied by the correspondence run. *)
Definition est_reread (e : hip) : hip :=
  est_of_image (f64b (h_accum e)) (f64b (h_kxq0 e)) (f64b (h_kxq1 e)) (h_ooo e).

(* the reader's check_image_field on what the writer wrote: hip_accum, kxq0, kxq1 finite and >= 0
   (true of every estimator the crate builds -- sums of non-negative terms -- but that needs an
   analysis of binary64 sums which is not done here: it is a HYPOTHESIS of the round-trip theorems) *)
Definition est_fields_ok (e : hip) : Prop :=
  image_fields_ok (f64b (h_accum e)) (f64b (h_kxq0 e)) (f64b (h_kxq1 e)) = true.

Lemma est_reread_ooo : forall e, h_ooo (est_reread e) = h_ooo e.
Proof. intros e. unfold est_reread, est_of_image, hip_set_ooo. reflexivity. Qed.

(* reading back the preamble of an array image *)
Lemma read_hll_body_image : forall (e : hip) num auxc data tail nbytes,
  length data = N.to_nat nbytes -> est_fields_ok e ->
  read_hll_body (f64b (h_accum e) ++ f64b (h_kxq0 e) ++ f64b (h_kxq1 e) ++ le_bytes 4 num ++ le_bytes 4 auxc ++ data ++ tail)
                nbytes (h_ooo e)
  = Ok (est_reread e, le_val (le_bytes 4 auxc), data, tail).
Proof.
  intros e num auxc data tail nbytes Hlen Hok. unfold read_hll_body.
  rewrite (take_app_n 8 _ _ (f64b_length _)). cbn [obind fst snd].
  rewrite (take_app_n 8 _ _ (f64b_length _)). cbn [obind fst snd].
  rewrite (take_app_n 8 _ _ (f64b_length _)). cbn [obind fst snd].
  unfold est_fields_ok in Hok. rewrite Hok. cbn [negb].
  rewrite (take_app_n 4 _ _ (le_bytes_length 4 _)). cbn [obind fst snd].
  rewrite (take_app_n 4 _ _ (le_bytes_length 4 _)). cbn [obind fst snd].
  rewrite (take_app_n _ _ _ Hlen). cbn [obind fst snd]. reflexivity.
Qed.

Lemma read_hll_body_image0 : forall (e : hip) num auxc data nbytes,
  length data = N.to_nat nbytes -> est_fields_ok e ->
  read_hll_body (f64b (h_accum e) ++ f64b (h_kxq0 e) ++ f64b (h_kxq1 e) ++ le_bytes 4 num ++ le_bytes 4 auxc ++ data)
                nbytes (h_ooo e)
  = Ok (est_reread e, le_val (le_bytes 4 auxc), data, []).
Proof. intros e num auxc data nbytes Hlen Hok. pose proof (read_hll_body_image e num auxc data [] nbytes Hlen Hok) as H. rewrite app_nil_r in H. exact H. Qed.

Lemma hll_deserialize_hll_header : forall lgk cm t (e : hip) rest, 4 <= lgk <= 21 ->
  hll_deserialize (hll_header lgk cm t e ++ rest) =
  match t with
  | T4 => obind (a4_deserialize (f64b (h_accum e) ++ f64b (h_kxq0 e) ++ f64b (h_kxq1 e) ++ rest) cm lgk (h_ooo e))
                (fun a => Ok (mkSketch lgk (MArr4 a)))
  | T6 => obind (a6_deserialize (f64b (h_accum e) ++ f64b (h_kxq0 e) ++ f64b (h_kxq1 e) ++ rest) lgk (h_ooo e))
                (fun a => Ok (mkSketch lgk (MArr6 a)))
  | T8 => obind (a8_deserialize (f64b (h_accum e) ++ f64b (h_kxq0 e) ++ f64b (h_kxq1 e) ++ rest) lgk (h_ooo e))
                (fun a => Ok (mkSketch lgk (MArr8 a)))
  end.
Proof.
  intros lgk cm t e rest Hlg.
  destruct (mode_byte_fields MODE_HLL t ltac:(vm_compute; reflexivity)) as (Hm1 & Hm2 & Hm3).
  unfold hll_header, hll_deserialize. rewrite <- !app_assoc. cbn [app length nth skipn Nat.ltb Nat.leb].
  rewrite !N.eqb_refl. cbn [negb]. replace ((lgk <? 4) || (21 <? lgk)) with false by lia.
  rewrite Hm2, Hm1. replace (tgt_num t =? 3) with false by lia. rewrite tgt_of_num.
  change (MODE_HLL =? MODE_LIST) with false. change (MODE_HLL =? MODE_SET) with false. cbv iota. rewrite N.eqb_refl. cbn [negb].
  rewrite ooo_flag_bit. reflexivity.
Qed.

Lemma a8_roundtrip : forall lgk (a : arr8 hip), 4 <= lgk <= 21 -> a8_lgk a = lgk -> (forall j, j < 2 ^ lgk -> a8_get a j <= 63) ->
  est_fields_ok (a8_est a) ->
  exists a', hll_deserialize (a8_serialize a lgk) = Ok (mkSketch lgk (MArr8 a')) /\
    a8_lgk a' = lgk /\ (forall j, j < 2 ^ lgk -> a8_get a' j = a8_get a j) /\ (forall j, 2 ^ lgk <= j -> a8_get a' j = 0) /\
    a8_nz a' = count_regs (2 ^ lgk) (fun j => a8_get a j =? 0) /\ a8_est a' = est_reread (a8_est a).
Proof.
  intros lgk a Hlg Hk H63 Hef. unfold a8_serialize. rewrite <- ?app_assoc. rewrite hll_deserialize_hll_header by assumption.
  rewrite Hk. unfold a8_deserialize.
  rewrite (read_hll_body_image0 (a8_est a) (a8_nz a) 0 _ (2 ^ lgk)) by (apply arr_bytes_length || assumption). cbn [obind].
  assert (Hex : existsb (fun v => MAX_VALUE <? v) (arr_bytes (a8_bytes a) (2 ^ lgk)) = false).
  { destruct (existsb _ _) eqn:E; [|reflexivity]. apply existsb_exists in E. destruct E as (v & Hv & Hgt).
    unfold arr_bytes in Hv. apply in_map_iff in Hv. destruct Hv as (j & <- & Hj). apply Nseq_range_In in Hj.
    specialize (H63 j Hj). unfold a8_get, MAX_VALUE in *. lia. }
  rewrite Hex. cbn [obind]. eexists. split; [reflexivity|]. unfold a8_get. cbn [a8_lgk a8_bytes a8_nz a8_est].
  split; [reflexivity|]. split; [intros j Hj; now apply arr_bytes_roundtrip|]. split; [intros j Hj; now apply arr_bytes_roundtrip_out|].
  split; [|reflexivity]. unfold arr_bytes. rewrite filter_map_len. reflexivity.
Qed.

Lemma a6_slot_bytes : forall lgk j, 4 <= lgk -> j < 2 ^ lgk -> N.shiftr (j * 6) 3 + 1 < a6_num_bytes lgk.
Proof.
  intros lgk j Hlg Hj. unfold a6_num_bytes. rewrite !shiftr_div. change (2 ^ 3) with 8. change (2 ^ 2) with 4.
  assert (H16 : exists q, 2 ^ lgk = 16 * q).
  { exists (2 ^ (lgk - 4)). replace lgk with (4 + (lgk - 4)) at 1 by lia. now rewrite N.pow_add_r. }
  destruct H16 as (q & Hq). rewrite Hq in *. lia.
Qed.

Lemma a6_roundtrip : forall lgk (a : arr6 hip), 4 <= lgk <= 21 -> a6_lgk a = lgk -> est_fields_ok (a6_est a) ->
  exists a', hll_deserialize (a6_serialize a lgk) = Ok (mkSketch lgk (MArr6 a')) /\
    a6_lgk a' = lgk /\ (forall j, j < 2 ^ lgk -> a6_get a' j = a6_get a j) /\
    a6_nz a' = count_regs (2 ^ lgk) (fun j => a6_get a j =? 0) /\ a6_est a' = est_reread (a6_est a) /\
    (WFb (a6_bytes a) -> WFb (a6_bytes a')).
Proof.
  intros lgk a Hlg Hk Hef. unfold a6_serialize. rewrite <- ?app_assoc. rewrite hll_deserialize_hll_header by assumption.
  rewrite Hk. unfold a6_deserialize.
  rewrite (read_hll_body_image0 (a6_est a) (a6_nz a) 0 _ (a6_num_bytes lgk)) by (apply arr_bytes_length || assumption). cbn [obind].
  set (bytes' := arr_of_list 0 (arr_bytes (a6_bytes a) (a6_num_bytes lgk)) aempty).
  assert (Hget : forall j, j < 2 ^ lgk -> a6_get_raw bytes' j = a6_get_raw (a6_bytes a) j).
  { intros j Hj. pose proof (a6_slot_bytes lgk j ltac:(lia) Hj) as Hb. unfold a6_get_raw, bytes'.
    rewrite !arr_bytes_roundtrip by lia. reflexivity. }
  eexists. split; [reflexivity|]. unfold a6_get. cbn [a6_lgk a6_bytes a6_nz a6_est]. fold bytes'.
  split; [reflexivity|]. split; [assumption|]. split; [|split; [reflexivity|]].
  - unfold count_regs. do 2 f_equal. apply filter_ext_in. intros j Hj. apply Nseq_range_In in Hj. now rewrite Hget.
  - intros W. apply arr_of_list_WF. now apply arr_bytes_BOK.
Qed.

Lemma a4_scan_ok : forall bytes cm slots num tokens,
  (forall j, In j slots -> a4_get_raw bytes j <> 15 -> cm + a4_get_raw bytes j <= 63) ->
  a4_scan bytes cm slots num tokens
  = Ok (num + N.of_nat (length (filter (fun j => a4_get_raw bytes j =? 0) slots)),
        tokens + N.of_nat (length (filter (fun j => a4_get_raw bytes j =? 15) slots))).
Proof.
  intros bytes cm. induction slots as [|s r IH]; intros num tokens H; cbn [a4_scan filter length].
  - f_equal. f_equal; lia.
  - rewrite AUX_TOKEN_15. unfold MAX_VALUE. destruct (N.eqb_spec (a4_get_raw bytes s) 15) as [E|E].
    + rewrite IH by (intros j Hj; apply H; now right). replace (a4_get_raw bytes s =? 0) with false by lia.
      cbn [length]. f_equal. f_equal; lia.
    + pose proof (H s (or_introl eq_refl) E) as Hle. replace (63 <? cm + a4_get_raw bytes s) with false by lia.
      rewrite IH by (intros j Hj; apply H; now right).
      destruct (N.eqb_spec (a4_get_raw bytes s) 0); cbn [length]; f_equal; f_equal; lia.
Qed.

Lemma a4_read_aux_ok : forall lgk bytes cm cs m, 4 <= lgk <= 21 -> AuxInv lgk m ->
  (forall c, In c cs -> a4_get_raw bytes (N.land (get_slot c) (2 ^ lgk - 1)) = 15 /\ cm + 15 <= get_value c /\
                        forall v, ~ amaps m (N.land (get_slot c) (2 ^ lgk - 1)) v) ->
  NoDup (map (fun c => N.land (get_slot c) (2 ^ lgk - 1)) cs) ->
  exists m', a4_read_aux bytes cm lgk cs m = Ok m'.
Proof.
  intros lgk bytes cm. induction cs as [|c r IH]; intros m Hlg HA Hc Hnd; cbn [a4_read_aux]; [eauto|].
  set (slot := N.land (get_slot c) (2 ^ lgk - 1)).
  assert (Hslot : slot < 2 ^ lgk) by (unfold slot; rewrite land_mask; apply N.mod_lt; apply N.pow_nonzero; lia).
  destruct (Hc c (or_introl eq_refl)) as (Hraw & Hval & Hnone). fold slot in Hraw, Hnone.
  rewrite (aux_get_none lgk m slot HA Hnone). cbn [obind]. rewrite AUX_TOKEN_15, Hraw.
  replace (get_value c <? cm + 15) with false by lia. cbn.
  destruct (aux_insert_spec lgk m slot (get_value c) HA Hslot Hnone ltac:(lia)) as (m1 & Hins & HA1 & Hm1).
  rewrite Hins. cbn [obind]. cbn [map] in Hnd. inversion Hnd as [|? ? Hnin Hnd']; subst.
  apply IH; try assumption. intros c' Hc'. destruct (Hc c' (or_intror Hc')) as (A & B & C). split; [assumption|]. split; [assumption|].
  intros v Hv. apply Hm1 in Hv. destruct Hv as [[Heq _]|Hv]; [|now apply (C v)].
  apply Hnin. fold slot. rewrite <- Heq. apply in_map_iff. exists c'. split; [reflexivity|assumption].
Qed.

Lemma a4_raw_roundtrip : forall lgk bytes j, 1 <= lgk -> j < 2 ^ lgk ->
  a4_get_raw (arr_of_list 0 (arr_bytes bytes (2 ^ (lgk - 1))) aempty) j = a4_get_raw bytes j.
Proof.
  intros lgk bytes j Hlg Hj. unfold a4_get_raw. rewrite arr_bytes_roundtrip; [reflexivity|].
  rewrite shiftr_div. change (2 ^ 1) with 2. replace lgk with (1 + (lgk - 1)) in Hj by lia. rewrite N.pow_add_r in Hj.
  change (2 ^ 1) with 2 in Hj. pose proof (pow2_pos (lgk - 1)). lia.
Qed.

(* Hll4: the copy satisfies the Array4 invariant for the SAME register file (same nibbles, same
   exceptions as a map, same cur_min and num_at_cur_min) *)
Lemma a4_roundtrip : forall lgk regs (a : arr4 hip), 4 <= lgk <= 21 -> Inv4 lgk regs a -> (forall j, j < 2 ^ lgk -> regs j <= 63) ->
  est_fields_ok (a4_est a) ->
  exists a', hll_deserialize (a4_serialize a lgk) = Ok (mkSketch lgk (MArr4 a')) /\
    Inv4 lgk regs a' /\ a4_cur_min a' = a4_cur_min a /\ a4_num a' = a4_num a /\ a4_est a' = est_reread (a4_est a).
Proof.
  intros lgk regs a Hlg HI Hb Hef. pose proof HI as (Hk & HC & Hn). pose proof HC as (W & HA & Hr & Hd).
  set (k := 2 ^ lgk) in *. set (cm := a4_cur_min a) in *.
  set (ps := match a4_aux a with Some m => aux_pairs m | None => [] end).
  set (cs := map (fun p => pack_coupon (fst p) (snd p)) ps).
  set (data := arr_bytes (a4_bytes a) (2 ^ (lgk - 1))).
  set (bytes' := arr_of_list 0 data aempty).
  assert (Hraw : forall j, j < k -> a4_get_raw bytes' j = a4_get_raw (a4_bytes a) j).
  { intros j Hj. apply a4_raw_roundtrip; [lia|assumption]. }
  assert (Hps : forall j v, In (j, v) ps <-> auxdom (a4_aux a) j v).
  { intros j v. unfold ps. destruct (a4_aux a) as [m|]; cbn [auxdom]; [apply aux_pairs_In|tauto]. }
  assert (Hpnd : NoDup (map fst ps)).
  { unfold ps. destruct (a4_aux a) as [m|]; [apply (aux_pairs_NoDup lgk m HA)|constructor]. }
  assert (Hcm : cm <= 63).
  { pose proof (core4_ge lgk regs _ _ _ 0 HC (pow2_pos lgk)). specialize (Hb 0 (pow2_pos lgk)). lia. }
  (* facts about the coupons of the exception list *)
  assert (Hcs : forall c, In c cs -> exists j v, In (j, v) ps /\ c = pack_coupon j v /\ j < k /\
                  N.land (get_slot c) (k - 1) = j /\ get_value c = v /\ v = regs j /\ a4_get_raw (a4_bytes a) j = 15 /\ cm + 15 <= v).
  { intros c Hc. unfold cs in Hc. apply in_map_iff in Hc. destruct Hc as ([j v] & <- & Hp). cbn [fst snd].
    pose proof (proj1 (Hps j v) Hp) as Hdom. destruct (Hd j v Hdom) as [Hj Hraw15]. destruct (Hr j Hj) as [_ B].
    destruct (B Hraw15) as [Hge Hdom']. pose proof (auxdom_fun lgk _ j v (regs j) HA Hdom Hdom') as Hv.
    exists j, v. split; [assumption|]. split; [reflexivity|]. split; [assumption|].
    split; [rewrite (pack_slot_small lgk) by (lia || assumption); unfold k; rewrite land_mask; now apply N.mod_small|].
    split; [apply pack_value|]. split; [assumption|]. split; [assumption|]. lia. }
  assert (Hlen_cs : length cs = length ps) by (unfold cs; now rewrite map_length).
  assert (Htok : N.of_nat (length ps) = N.of_nat (length (filter (fun j => a4_get_raw bytes' j =? 15) (Nseq 0 (N.to_nat k))))).
  { unfold ps. rewrite (aux_pairs_count lgk regs a HI). unfold count_regs. fold k. do 2 f_equal. apply filter_ext_in.
    intros j Hj. apply Nseq_range_In in Hj. rewrite (Hraw j Hj). destruct (Hr j Hj) as [A B].
    pose proof (a4_get_le _ j W) as Hle. fold cm. destruct (N.eq_dec (a4_get_raw (a4_bytes a) j) 15) as [E|E].
    - destruct (B E). lia.
    - rewrite A by lia. lia. }
  assert (Hnum : a4_num a = N.of_nat (length (filter (fun j => a4_get_raw bytes' j =? 0) (Nseq 0 (N.to_nat k))))).
  { rewrite Hn. unfold count_regs. fold k. do 2 f_equal. apply filter_ext_in. intros j Hj. apply Nseq_range_In in Hj.
    rewrite (Hraw j Hj). pose proof (core4_raw0 lgk regs _ _ _ j HC Hj) as Hz. fold cm in Hz. fold cm. lia. }
  assert (Hscan : a4_scan bytes' cm (Nseq 0 (N.to_nat k)) 0 0 = Ok (a4_num a, N.of_nat (length ps))).
  { rewrite a4_scan_ok.
    - rewrite !N.add_0_l, <- Hnum, <- Htok. reflexivity.
    - intros j Hj Hne. apply Nseq_range_In in Hj. rewrite (Hraw j Hj) in *. destruct (Hr j Hj) as [A _].
      pose proof (a4_get_le _ j W) as Hle. fold cm in A. rewrite <- A by lia. now apply Hb. }
  (* run the reader *)
  unfold a4_serialize. fold ps cs. rewrite Hk. fold data. rewrite <- ?app_assoc.
  rewrite hll_deserialize_hll_header by assumption. unfold a4_deserialize.
  rewrite (take_app_n 8 _ _ (f64b_length _)). cbn [obind fst snd].
  rewrite (take_app_n 8 _ _ (f64b_length _)). cbn [obind fst snd].
  rewrite (take_app_n 8 _ _ (f64b_length _)). cbn [obind fst snd].
  unfold est_fields_ok in Hef. rewrite Hef. cbn [negb].
  rewrite (take_app_n 4 _ _ (le_bytes_length 4 _)). cbn [obind fst snd].
  rewrite (take_app_n 4 _ _ (le_bytes_length 4 _)). cbn [obind fst snd].
  fold cm. unfold MAX_VALUE. replace (63 <? cm) with false by lia.
  assert (Hdl : length data = N.to_nat (2 ^ (lgk - 1))) by apply arr_bytes_length.
  rewrite (take_app_n _ _ _ Hdl). cbn [obind fst snd]. fold bytes'. fold k. rewrite Hscan. cbn [obind].
  assert (Hps32 : N.of_nat (length ps) < 2 ^ 32).
  { unfold ps. rewrite (aux_pairs_count lgk regs a HI). pose proof (count_regs_le (2 ^ lgk) (fun j => a4_cur_min a + 15 <=? regs j)).
    assert (2 ^ lgk <= 2 ^ 21) by (apply N.pow_le_mono_r; lia). change (2 ^ 21) with 2097152 in *. change (2 ^ 32) with 4294967296. lia. }
  rewrite le_bytes4_val by assumption. rewrite N.eqb_refl. cbn [negb].
  fold (est_reread (a4_est a)).
  destruct (N.eqb_spec (N.of_nat (length ps)) 0) as [E0|E0].
  - (* no exceptions *)
    destruct (a4_built_inv lgk bytes' cm (a4_num a) (N.of_nat (length ps)) [] None (est_reread (a4_est a)) Hlg
                (arr_of_list_WF data (arr_bytes_BOK _ _ W)) Hcm Hscan) as (regs' & HI' & _ & Hlow & Hhigh).
    + cbn [length]. lia.
    + intros c [].
    + left. split; [assumption|reflexivity].
    + eexists. split; [reflexivity|]. cbn [a4_cur_min a4_num a4_est]. split; [|repeat split; reflexivity].
      apply (inv4_ext hip lgk regs'); [|assumption]. intros j Hj. fold k in Hj.
      pose proof (a4_get_le bytes' j (arr_of_list_WF data (arr_bytes_BOK _ _ W))) as Hle.
      destruct (N.eq_dec (a4_get_raw bytes' j) 15) as [E|E].
      * destruct (Hhigh j Hj E) as (c & [] & _).
      * rewrite (Hlow j Hj ltac:(lia)), (Hraw j Hj). destruct (Hr j Hj) as [A _]. fold cm in A. rewrite A by (rewrite <- (Hraw j Hj); lia). reflexivity.
  - (* the exception list *)
    assert (Hc32 : forall c, In c cs -> c < 2 ^ 32).
    { intros c Hc. destruct (Hcs c Hc) as (j & v & _ & -> & Hj & _ & _ & Hv & _ & _). rewrite pack_coupon_add.
      specialize (Hb j Hj). rewrite <- Hv in Hb. unfold P26. change (2 ^ 32) with 4294967296.
      assert (j mod 67108864 < 67108864) by (apply N.mod_lt; lia). lia. }
    replace (N.of_nat (length ps)) with (N.of_nat (length cs)) by (now rewrite Hlen_cs).
    rewrite <- (app_nil_r (u32s cs)). rewrite read_count_u32s_u32s by assumption. cbn [obind fst snd].
    destruct (a4_read_aux_ok lgk bytes' cm cs (aux_new lgk) Hlg (proj1 (aux_new_inv lgk Hlg))) as (m' & Hm').
    + intros c Hc. destruct (Hcs c Hc) as (j & v & _ & _ & Hj & Hs & Hv & _ & H15 & Hge). fold k. rewrite Hs, Hv, (Hraw j Hj).
      split; [assumption|]. split; [assumption|]. intros v'. apply (proj2 (aux_new_inv lgk Hlg)).
    + fold k. unfold cs. rewrite map_map.
      assert (Hmap : map (fun p => N.land (get_slot (pack_coupon (fst p) (snd p))) (k - 1)) ps = map fst ps).
      { apply map_ext_in. intros [j v] Hp. cbn [fst snd]. destruct (Hcs (pack_coupon j v)) as (j' & v' & _ & Heq & Hj' & Hs & _).
        - unfold cs. apply in_map_iff. exists (j, v). split; [reflexivity|assumption].
        - pose proof (proj1 (Hps j v) Hp) as Hdom. destruct (Hd j v Hdom) as [Hj _]. fold k in Hj.
          rewrite (pack_slot_small lgk) by (lia || assumption). unfold k. rewrite land_mask. now apply N.mod_small. }
      rewrite Hmap. assumption.
    + rewrite Hm'. cbn [obind].
      destruct (a4_built_inv lgk bytes' cm (a4_num a) (N.of_nat (length cs)) cs (Some m') (est_reread (a4_est a)) Hlg
                  (arr_of_list_WF data (arr_bytes_BOK _ _ W)) Hcm) as (regs' & HI' & _ & Hlow & Hhigh).
      * now rewrite Hlen_cs.
      * reflexivity.
      * assumption.
      * right. exists m'. split; [assumption|reflexivity].
      * eexists. split; [reflexivity|]. cbn [a4_cur_min a4_num a4_est]. split; [|repeat split; reflexivity].
        apply (inv4_ext hip lgk regs'); [|assumption]. intros j Hj. fold k in Hj.
        pose proof (a4_get_le bytes' j (arr_of_list_WF data (arr_bytes_BOK _ _ W))) as Hle.
        destruct (N.eq_dec (a4_get_raw bytes' j) 15) as [E|E].
        -- destruct (Hhigh j Hj E) as (c & Hc & Hsl & Hrv). rewrite Hrv.
           destruct (Hcs c Hc) as (j' & v' & _ & _ & _ & Hs' & Hv' & Hreg & _). fold k in Hsl. rewrite Hs' in Hsl. subst j'. congruence.
        -- rewrite (Hlow j Hj ltac:(lia)), (Hraw j Hj). destruct (Hr j Hj) as [A _]. fold cm in A.
           rewrite A by (rewrite <- (Hraw j Hj); lia). reflexivity.
Qed.

(* ---------- the round trip of any well-formed sketch ---------- *)
(* what the copy s' of s (which represents lg_k / coupon list cs) is *)
Definition rt_ok (lgk : N) (cs : list N) (s s' : hsketch) : Prop :=
  sk_lgk s' = lgk /\
  match sk_mode s, sk_mode s' with
  | MList l t, MList l' t' => l' = l /\ t' = t
  | MSet st t, MSet st' t' => t' = t /\ hs_lg st' = hs_lg st /\ hs_len st' = hs_len st /\ SetRep (hs_lg st) st' cs
  | MArr4 a, MArr4 a' => Inv4 lgk (spec_regs lgk cs) a' /\ a4_cur_min a' = a4_cur_min a /\ a4_num a' = a4_num a /\
                         a4_est a' = est_reread (a4_est a)
  | MArr6 a, MArr6 a' => a6_lgk a' = lgk /\ WFb (a6_bytes a') /\ (forall j, j < 2 ^ lgk -> a6_get a' j = spec_regs lgk cs j) /\
                         a6_nz a' = spec_zeros lgk cs /\ a6_est a' = est_reread (a6_est a)
  | MArr8 a, MArr8 a' => a8_lgk a' = lgk /\ (forall j, a8_get a' j = spec_regs lgk cs j) /\
                         a8_nz a' = spec_zeros lgk cs /\ a8_est a' = est_reread (a8_est a)
  | _, _ => False
  end.

(* the estimator fields pass the reader's check (see est_fields_ok: a hypothesis) *)
Definition est_ok (s : hsketch) : Prop :=
  match sk_mode s with
  | MArr4 a => est_fields_ok (a4_est a) | MArr6 a => est_fields_ok (a6_est a) | MArr8 a => est_fields_ok (a8_est a)
  | _ => True
  end.

Theorem hll_roundtrip : forall lgk arrf cs s, SrcOK lgk arrf cs s -> est_ok s ->
  exists s', hll_deserialize (hll_serialize s) = Ok s' /\ rt_ok lgk cs s s'.
Proof.
  intros lgk arrf cs s HS Hef. pose proof HS as (Hk & Hlg & Hv & Hm). unfold hll_serialize, rt_ok, est_ok in *.
  rewrite Hk. destruct (sk_mode s) as [l t|st t|a|a|a] eqn:Em.
  - destruct Hm as (_ & ds & HL & Hlen & Hss).
    rewrite (list_roundtrip lgk t l ds Hlg HL Hlen (forall_valid_set ds cs Hss Hv)).
    eexists. split; [reflexivity|]. cbn [sk_lgk sk_mode]. repeat split; reflexivity.
  - destruct Hm as (_ & H8 & H5 & H3 & HR & _ & Hload).
    destruct (set_roundtrip lgk t st cs ltac:(lia) H5 H3 HR Hv Hload) as (st' & Hd & A & B & C).
    rewrite Hd. eexists. split; [reflexivity|]. cbn [sk_lgk sk_mode]. split; [reflexivity|]. split; [reflexivity|].
    split; [assumption|]. split; assumption.
  - destruct Hm as (_ & HI & _).
    destruct (a4_roundtrip lgk _ a Hlg HI ltac:(intros j _; now apply spec_regs_bound) Hef) as (a' & Hd & A & B & C & D).
    rewrite Hd. eexists. split; [reflexivity|]. cbn [sk_lgk sk_mode]. split; [reflexivity|]. split; [assumption|].
    split; [assumption|]. split; assumption.
  - destruct Hm as (_ & Hk6 & W & Hr & Hz).
    destruct (a6_roundtrip lgk a Hlg Hk6 Hef) as (a' & Hd & A & B & C & D & W').
    rewrite Hd. eexists. split; [reflexivity|]. cbn [sk_lgk sk_mode]. split; [reflexivity|]. split; [assumption|].
    split; [now apply W'|]. split; [intros j Hj; rewrite (B j Hj); now apply Hr|]. split; [|assumption].
    rewrite C. unfold spec_zeros. apply count_regs_ext. intros j Hj. now rewrite Hr.
  - destruct Hm as (_ & Hk8 & Hr & Hz).
    destruct (a8_roundtrip lgk a Hlg Hk8 ltac:(intros j _; rewrite Hr; now apply spec_regs_bound) Hef) as (a' & Hd & A & B & C & D & F).
    rewrite Hd. eexists. split; [reflexivity|]. cbn [sk_lgk sk_mode]. split; [reflexivity|]. split; [assumption|].
    split; [|split; [|assumption]].
    + intros j. destruct (N.lt_ge_cases j (2 ^ lgk)) as [Hj|Hj]; [now rewrite (B j Hj)|].
      rewrite (C j Hj). symmetry. now apply spec_regs_out_of_range.
    + rewrite D. unfold spec_zeros. apply count_regs_ext. intros j _. now rewrite Hr.
Qed.

(* for every stream: the sketch survives serialize / deserialize *)
Theorem hll_roundtrip_of_stream : forall lgk t cs, 4 <= lgk <= 21 -> Forall valid cs ->
  exists s, run_stream hip_new hip_update hip_carry lgk t cs = Ok s /\
    (est_ok s -> exists s', hll_deserialize (hll_serialize s) = Ok s' /\ rt_ok lgk cs s s').
Proof.
  intros lgk t cs Hlg Hv. destruct (stream_is_source lgk t cs Hlg Hv) as (s & Hr & HS).
  exists s. split; [assumption|]. intros Hef. apply (hll_roundtrip lgk _ cs s HS Hef).
Qed.

(* the copy is again a well-formed representation of the same abstract state, so everything C02 and
   C03 prove about further updates and merges applies to it as it does to the original *)
Lemma rt_src_ok : forall lgk arrf cs s s', SrcOK lgk arrf cs s -> rt_ok lgk cs s s' -> SrcOK lgk arrf cs s'.
Proof.
  intros lgk arrf cs s s' (Hk & Hlg & Hv & Hm) (Hk' & Hrt). unfold SrcOK. split; [assumption|]. split; [assumption|].
  split; [assumption|]. destruct (sk_mode s) as [l t|st t|a|a|a] eqn:Em; destruct (sk_mode s') as [l' t'|st' t'|a'|a'|a'] eqn:Em';
    try contradiction.
  - destruct Hrt as [-> ->]. assumption.
  - destruct Hrt as (-> & Hl & Hn & HR). destruct Hm as (E & A & B & C & D & F & G). rewrite Hl, Hn.
    split; [assumption|]. split; [assumption|]. split; [assumption|]. split; [assumption|]. split; [assumption|]. split; assumption.
  - destruct Hrt as (HI & _ & Hn & _). destruct Hm as (E & _ & Hpos). split; [assumption|]. split; [assumption|]. now rewrite Hn.
  - destruct Hrt as (A & W & B & C & _). destruct Hm as (E & _). split; [assumption|]. split; [assumption|]. split; [assumption|]. split; assumption.
  - destruct Hrt as (A & B & C & _). destruct Hm as (E & _). split; [assumption|]. split; [assumption|]. split; assumption.
Qed.

(* "the copy behaves identically under further updates": the original and the deserialized copy,
   fed the same further coupons, keep the same lg_k, mode, coupon set / register file and count
   (the estimator state is not compared here: see est_reread) *)
Theorem copy_same_under_updates : forall lgk arrf cs s us, SrcOK lgk arrf cs s -> est_ok s -> Forall valid us ->
  exists s' r r', hll_deserialize (hll_serialize s) = Ok s' /\
    update_all hip_new hip_update hip_carry us s = Ok r /\ update_all hip_new hip_update hip_carry us s' = Ok r' /\
    sk_lgk r = sk_lgk r' /\ sk_tag r = sk_tag r' /\ sk_len r = sk_len r' /\
    (forall c, In c (sk_coupons r) <-> In c (sk_coupons r')) /\
    (forall j, j < 2 ^ lgk -> sk_reg r j = sk_reg r' j).
Proof.
  intros lgk arrf cs s us HS Hef Hus. destruct (hll_roundtrip lgk arrf cs s HS Hef) as (s' & Hd & Hrt).
  pose proof (rt_src_ok lgk arrf cs s s' HS Hrt) as HS'.
  destruct (src_updates_agree lgk arrf cs s s' us HS HS' Hus) as (r & r' & A & B & C).
  exists s', r, r'. split; [assumption|]. split; [assumption|]. split; assumption.
Qed.

(* ---------- a concrete instance: est_ok holds, the image is accepted and re-serializes identically ---------- *)
Definition est_okb (s : hsketch) : bool :=
  match sk_mode s with
  | MArr4 a => image_fields_ok (f64b (h_accum (a4_est a))) (f64b (h_kxq0 (a4_est a))) (f64b (h_kxq1 (a4_est a)))
  | MArr6 a => image_fields_ok (f64b (h_accum (a6_est a))) (f64b (h_kxq0 (a6_est a))) (f64b (h_kxq1 (a6_est a)))
  | MArr8 a => image_fields_ok (f64b (h_accum (a8_est a))) (f64b (h_kxq0 (a8_est a))) (f64b (h_kxq1 (a8_est a)))
  | _ => true
  end.
Lemma est_okb_ok : forall s, est_okb s = true -> est_ok s.
Proof. intros s. unfold est_okb, est_ok, est_fields_ok. destruct (sk_mode s); auto. Qed.

Definition obool {A} (x : outcome A) (f : A -> bool) : bool := match x with Ok a => f a | _ => false end.
Lemma obool_true : forall {A} (x : outcome A) f, obool x f = true -> exists a, x = Ok a /\ f a = true.
Proof. intros A [a| |] f H; cbn [obool] in H; try discriminate. now exists a. Qed.

Lemma Nlist_eqb_eq : forall a b : list N, list_eqb N.eqb a b = true -> a = b.
Proof.
  induction a as [|x a IH]; intros [|y b] H; cbn [list_eqb] in H; try discriminate; [reflexivity|].
  apply andb_prop in H. destruct H as [H1 H2]. apply N.eqb_eq in H1. subst. f_equal. now apply IH.
Qed.

Definition rt_example_check (lgk : N) (t : tgt) : bool :=
  obool (run_stream hip_new hip_update hip_carry lgk t HllC02.ex_stream2) (fun s =>
    est_okb s && match sk_tag s with TagArray => true | _ => false end &&
    obool (hll_deserialize (hll_serialize s)) (fun s' => list_eqb N.eqb (hll_serialize s') (hll_serialize s))).

Lemma rt_example_computed : rt_example_check 8 T4 = true /\ rt_example_check 8 T6 = true /\ rt_example_check 9 T8 = true.
Proof. vm_compute. repeat split; reflexivity. Qed.

(* array-mode sketches of all three types built from a 200-coupon stream: the hypothesis est_ok
   holds, the image is accepted, and the copy re-serializes to the identical bytes *)
Lemma rt_example_of : forall lgk t, rt_example_check lgk t = true ->
  exists s s', run_stream hip_new hip_update hip_carry lgk t HllC02.ex_stream2 = Ok s /\ sk_tag s = TagArray /\ est_ok s /\
    hll_deserialize (hll_serialize s) = Ok s' /\ hll_serialize s' = hll_serialize s.
Proof.
  intros lgk t H. unfold rt_example_check in H. apply obool_true in H. destruct H as (s & Hr & H).
  apply andb_prop in H. destruct H as [H H3]. apply andb_prop in H. destruct H as [H1 H2].
  apply obool_true in H3. destruct H3 as (s' & Hd & He). exists s, s'. split; [assumption|].
  split; [destruct (sk_tag s); (discriminate || reflexivity)|]. split; [now apply est_okb_ok|]. split; [assumption|now apply Nlist_eqb_eq].
Qed.

Lemma rt_example : 
  (exists s s', run_stream hip_new hip_update hip_carry 8 T4 HllC02.ex_stream2 = Ok s /\ sk_tag s = TagArray /\ est_ok s /\
    hll_deserialize (hll_serialize s) = Ok s' /\ hll_serialize s' = hll_serialize s) /\
  (exists s s', run_stream hip_new hip_update hip_carry 8 T6 HllC02.ex_stream2 = Ok s /\ sk_tag s = TagArray /\ est_ok s /\
    hll_deserialize (hll_serialize s) = Ok s' /\ hll_serialize s' = hll_serialize s) /\
  (exists s s', run_stream hip_new hip_update hip_carry 9 T8 HllC02.ex_stream2 = Ok s /\ sk_tag s = TagArray /\ est_ok s /\
    hll_deserialize (hll_serialize s) = Ok s' /\ hll_serialize s' = hll_serialize s).
Proof. destruct rt_example_computed as (A & B & C). split; [now apply rt_example_of|]. split; now apply rt_example_of. Qed.

(* ================= C13: foreign variants (list mode) ================= *)
From DS Require Import Spec.HllLayout.

Definition list_of_coupons (cs : list N) : hlist := mkList 3 (cs ++ repeat 0 (8 - length cs)) (N.of_nat (length cs)).

Lemma list_of_coupons_inv : forall cs, NoDup cs -> Forall valid cs -> (length cs < 8)%nat -> ListInv (list_of_coupons cs) cs.
Proof.
  intros cs Hnd Hv Hlen. unfold ListInv, list_of_coupons. cbn [hl_coupons hl_len hl_lg]. split; [reflexivity|]. split; [reflexivity|].
  split; [assumption|]. split; [|split; [lia|reflexivity]]. intros H0. rewrite Forall_forall in Hv. apply (valid_nonzero 0 (Hv 0 H0)). reflexivity.
Qed.

(* the spec encoder's compact list image is what the crate's writer would emit for that list *)
Lemma enc_list_compact_is_serialize : forall lgk t cs, (length cs < 8)%nat -> Forall valid cs ->
  enc_list true lgk (tgt_num t) cs = list_serialize (list_of_coupons cs) lgk t.
Proof.
  intros lgk t cs Hlen Hv. unfold enc_list, list_serialize, list_of_coupons. cbn [hl_lg hl_coupons hl_len].
  assert (H0 : ~ In 0 cs) by (intros H0; rewrite Forall_forall in Hv; apply (valid_nonzero 0 (Hv 0 H0)); reflexivity).
  rewrite (filter_nonzero_app_zeros cs _ H0), Nat2N.id, firstn_all.
  replace (N.of_nat (length cs) mod 256) with (N.of_nat (length cs)) by (symmetry; apply N.mod_small; lia).
  replace (mode_b L_MODE_LIST (tgt_num t)) with (mode_byte MODE_LIST t) by (destruct t; reflexivity).
  destruct (N.eqb_spec (N.of_nat (length cs)) 0) as [E|E].
  - destruct cs; [reflexivity|cbn [length] in E; lia].
  - reflexivity.
Qed.

Lemma list_insert_all_zeros : forall vs n l, list_insert_all (vs ++ repeat 0 n) l = list_insert_all vs l.
Proof.
  induction vs as [|v r IH]; intros n l; cbn [app list_insert_all].
  - induction n as [|n IHn]; cbn [repeat list_insert_all]; [reflexivity|]. rewrite COUPON_EMPTY_0. change (0 =? 0) with true. exact IHn.
  - destruct (v =? COUPON_EMPTY); [apply IH|]. destruct (get_value v =? 0); [reflexivity|apply IH].
Qed.

(* both list variants of the cross-language format are read back to the list they encode *)
Theorem list_variants_read_back : forall compact lgk t cs, 4 <= lgk <= 21 -> NoDup cs -> Forall valid cs -> (length cs < 8)%nat ->
  hll_deserialize (enc_list compact lgk (tgt_num t) cs) = Ok (mkSketch lgk (MList (list_of_coupons cs) t)).
Proof.
  intros compact lgk t cs Hlg Hnd Hv Hlen. destruct compact.
  - rewrite (enc_list_compact_is_serialize lgk t cs Hlen Hv).
    apply (list_roundtrip lgk t (list_of_coupons cs) cs Hlg (list_of_coupons_inv cs Hnd Hv Hlen) Hlen Hv).
  - (* updatable: all 8 slots stored *)
    destruct (mode_byte_fields MODE_LIST t ltac:(vm_compute; reflexivity)) as (Hm1 & Hm2 & Hm3).
    unfold enc_list. replace (mode_b L_MODE_LIST (tgt_num t)) with (mode_byte MODE_LIST t) by (destruct t; reflexivity).
    unfold hll_deserialize. cbn [app length nth skipn Nat.ltb Nat.leb].
    change (L_FAMILY =? FAMILY_HLL) with true. change (L_SER_VER =? SER_VER) with true. cbn [negb].
    replace ((lgk <? 4) || (21 <? lgk)) with false by lia.
    rewrite Hm2, Hm1. replace (tgt_num t =? 3) with false by lia. rewrite tgt_of_num. rewrite N.eqb_refl.
    change (L_PRE_LIST =? LIST_PREINTS) with true. change (3 =? LG_LIST_SIZE) with true. cbn [negb].
    unfold list_deserialize. change (2 ^ 3) with 8. replace (8 <=? N.of_nat (length cs)) with false by lia.
    assert (Hpad : forall c, In c (cs ++ repeat 0 (8 - length cs)) -> c < 2 ^ 32).
    { intros c Hc. apply in_app_or in Hc. destruct Hc as [Hc|Hc]; [apply valid_lt32; rewrite Forall_forall in Hv; now apply Hv|].
      apply repeat_spec in Hc. subst c. reflexivity. }
    assert (Hpl : length (cs ++ repeat 0 (8 - length cs)) = 8%nat) by (rewrite app_length, repeat_length; lia).
    destruct cs as [|d ds'].
    + cbn [length N.of_nat]. change (0 =? 0) with true. cbv iota.
      replace (negb (negb (N.land (L_FLAG_EMPTY + 0) EMPTY_FLAG =? 0))) with false by reflexivity. cbn [andb obind]. reflexivity.
    + set (dss := d :: ds') in *. replace (N.of_nat (length dss) =? 0) with false by (unfold dss; cbn [length]; lia).
      replace (negb (negb (N.land (0 + 0) EMPTY_FLAG =? 0))) with true by reflexivity.
      replace (negb (N.land (0 + 0) COMPACT_FLAG =? 0)) with false by reflexivity.
      replace (0 <? N.of_nat (length dss)) with true by (unfold dss; cbn [length]; lia). cbn [andb orb].
      change (u32l (dss ++ repeat 0 (8 - length dss))) with (u32s (dss ++ repeat 0 (8 - length dss))).
      replace 8 with (N.of_nat (length (dss ++ repeat 0 (8 - length dss)))) at 1 by (rewrite Hpl; reflexivity).
      rewrite <- (app_nil_r (u32s _)). rewrite read_count_u32s_u32s by assumption. cbn [obind fst].
      rewrite list_insert_all_zeros.
      destruct (list_insert_all_fresh dss (list_new 3) [] list_new_inv Hnd Hv ltac:(cbn [length]; lia)) as (l' & Hr & HL').
      cbn [app] in HL'. rewrite Hr. cbn [obind]. pose proof HL' as (_ & Hl' & _). rewrite Hl', N.eqb_refl. cbn [negb].
      rewrite (list_inv_eq (list_of_coupons dss) l' dss (list_of_coupons_inv dss Hnd Hv Hlen) HL'). reflexivity.
Qed.

(* ================= C13: Hll8 array images, every flag variant ================= *)
(* an HLL-mode preamble with ANY flags byte and ANY lg_arr byte (the reader ignores COMPACT, EMPTY and
   lg_arr for array images -- repaired defect D4) *)
Lemma hll_deserialize_any_hll8_header : forall lgk lg_arr flags cm rest, 4 <= lgk <= 21 ->
  hll_deserialize ([HLL_PREINTS; SER_VER; FAMILY_HLL; lgk; lg_arr; flags; cm; mode_byte MODE_HLL T8] ++ rest) =
  obind (a8_deserialize rest lgk (negb (N.land flags OOO_FLAG =? 0))) (fun a => Ok (mkSketch lgk (MArr8 a))).
Proof.
  intros lgk lg_arr flags cm rest Hlg.
  destruct (mode_byte_fields MODE_HLL T8 ltac:(vm_compute; reflexivity)) as (Hm1 & Hm2 & Hm3).
  unfold hll_deserialize. cbn [app length nth skipn Nat.ltb Nat.leb].
  rewrite !N.eqb_refl. cbn [negb]. replace ((lgk <? 4) || (21 <? lgk)) with false by lia.
  rewrite Hm2, Hm1. replace (tgt_num T8 =? 3) with false by reflexivity. rewrite tgt_of_num.
  change (MODE_HLL =? MODE_LIST) with false. change (MODE_HLL =? MODE_SET) with false. cbv iota. reflexivity.
Qed.

(* any flags byte: the general form (the reader ignores COMPACT and EMPTY for array images) *)
Lemma hll8_any_flags_read_back : forall lgk lg_arr flags cm hipb q0b q1b num auxc regs tail,
  4 <= lgk <= 21 -> length hipb = 8%nat -> length q0b = 8%nat -> length q1b = 8%nat ->
  length regs = N.to_nat (2 ^ lgk) -> (forall v, In v regs -> v <= 63) -> image_fields_ok hipb q0b q1b = true ->
  exists a, hll_deserialize ([HLL_PREINTS; SER_VER; FAMILY_HLL; lgk; lg_arr; flags; cm; mode_byte MODE_HLL T8]
                             ++ hipb ++ q0b ++ q1b ++ le_bytes 4 num ++ le_bytes 4 auxc ++ regs ++ tail)
            = Ok (mkSketch lgk (MArr8 a)) /\
    a8_lgk a = lgk /\ (forall j, a8_get a j = if j <? 2 ^ lgk then nth (N.to_nat j) regs 0 else 0) /\
    a8_nz a = N.of_nat (length (filter (fun v => v =? 0) regs)) /\
    a8_est a = est_of_image hipb q0b q1b (negb (N.land flags OOO_FLAG =? 0)).
Proof.
  intros lgk lg_arr flags cm hipb q0b q1b num auxc regs tail Hlg H1 H2 H3 Hlen H63 Hf.
  rewrite hll_deserialize_any_hll8_header by assumption. unfold a8_deserialize, read_hll_body.
  rewrite (take_app_n 8 _ _ H1). cbn [obind fst snd]. rewrite (take_app_n 8 _ _ H2). cbn [obind fst snd].
  rewrite (take_app_n 8 _ _ H3). cbn [obind fst snd]. rewrite Hf. cbn [negb].
  rewrite (take_app_n 4 _ _ (le_bytes_length 4 _)). cbn [obind fst snd].
  rewrite (take_app_n 4 _ _ (le_bytes_length 4 _)). cbn [obind fst snd]. rewrite (take_app_n _ _ _ Hlen). cbn [obind fst snd].
  assert (Hex : existsb (fun v => MAX_VALUE <? v) regs = false).
  { destruct (existsb _ regs) eqn:E; [|reflexivity]. apply existsb_exists in E. destruct E as (v & Hv & Hgt).
    specialize (H63 v Hv). unfold MAX_VALUE in Hgt. lia. }
  rewrite Hex. eexists. split; [reflexivity|]. unfold a8_get. cbn [a8_lgk a8_bytes a8_nz a8_est].
  split; [reflexivity|]. split; [|split; reflexivity].
  intros j. rewrite arr_of_list_get, Hlen, N2Nat.id, N.add_0_l, N.sub_0_r, aget_empty. replace (0 <=? j) with true by lia. reflexivity.
Qed.

(* the Hll8 array image of the SPEC encoder (Spec.HllLayout.enc_hll_pre: COMPACT flag on or off, OOO
   flag on or off, any lg_arr byte, any cur_min byte, any num_at_cur_min / aux count fields, any
   trailing bytes) whose three estimator fields are finite and non-negative is read back to an
   Array8 with exactly the encoded registers, the recomputed zero count, the encoded kxq0 / kxq1 and
   OOO flag, and the encoded HIP accumulator unless the image is out of order (then 0) *)
Theorem hll8_variants_read_back : forall compact ooo lgk lg_arr cm hipv q0 q1 num auxc regs tail,
  4 <= lgk <= 21 -> hipv < 2 ^ 64 -> q0 < 2 ^ 64 -> q1 < 2 ^ 64 ->
  length regs = N.to_nat (2 ^ lgk) -> (forall v, In v regs -> v <= 63) ->
  image_field_ok (float_of_bits (Nz hipv)) = true -> image_field_ok (float_of_bits (Nz q0)) = true ->
  image_field_ok (float_of_bits (Nz q1)) = true ->
  exists a, hll_deserialize (enc_hll_pre compact ooo lgk 2 lg_arr cm hipv q0 q1 num auxc ++ regs ++ tail)
            = Ok (mkSketch lgk (MArr8 a)) /\
    a8_lgk a = lgk /\ (forall j, a8_get a j = if j <? 2 ^ lgk then nth (N.to_nat j) regs 0 else 0) /\
    a8_nz a = N.of_nat (length (filter (fun v => v =? 0) regs)) /\
    h_ooo (a8_est a) = ooo /\ h_kxq0 (a8_est a) = float_of_bits (Nz q0) /\ h_kxq1 (a8_est a) = float_of_bits (Nz q1) /\
    h_accum (a8_est a) = if ooo then 0%float else float_of_bits (Nz hipv).
Proof.
  intros compact ooo lgk lg_arr cm hipv q0 q1 num auxc regs tail Hlg Hh H0 H1 Hlen H63 Fh F0 F1.
  assert (V : forall x, x < 2 ^ 64 -> le_val (le_bytes 8 x) = x).
  { intros x Hx. apply le_val_le_bytes_small. exact Hx. }
  set (flags := (if compact then L_FLAG_COMPACT else 0) + (if ooo then L_FLAG_OOO else 0)).
  assert (Hfl : negb (N.land flags OOO_FLAG =? 0) = ooo) by (unfold flags; destruct compact, ooo; reflexivity).
  destruct (hll8_any_flags_read_back lgk lg_arr flags cm (le_bytes 8 hipv) (le_bytes 8 q0) (le_bytes 8 q1) num auxc regs tail Hlg
              (le_bytes_length 8 _) (le_bytes_length 8 _) (le_bytes_length 8 _) Hlen H63) as (a & Hd & A & B & C & D).
  { unfold image_fields_ok. rewrite !V by assumption. rewrite Fh, F0, F1. reflexivity. }
  exists a. split.
  - rewrite <- Hd. unfold enc_hll_pre. fold flags. rewrite <- !app_assoc. reflexivity.
  - split; [assumption|]. split; [assumption|]. split; [assumption|]. rewrite D, Hfl. unfold est_of_image, hip_set_ooo.
    cbn [h_ooo h_kxq0 h_kxq1 h_accum]. rewrite !V by assumption. repeat split; reflexivity.
Qed.
