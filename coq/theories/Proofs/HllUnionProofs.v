(* HLL union proofs (C03): HllUnion refines "the sketch of the combined streams".
   Abstract input = (lg_k, array-mode flag, coupon list); a source sketch represents it when its
   coupon set / register file is the Spec's for that coupon list (SrcOK), whatever its type and
   estimator state (so deserialized, out-of-order and union-produced sketches are covered). *)
From DS Require Import Base.Prelude Model.Hll Model.HllUnion Proofs.HllBase Proofs.HllArray8 Proofs.HllArray6
  Proofs.HllOpenAddr Proofs.HllSet Proofs.HllAux Proofs.HllArray4 Proofs.HllRefine.
From Coq Require Import ZifyBool ZifyNat ZifyN Permutation Floats.
Open Scope N_scope.
Ltac Zify.zify_post_hook ::= Z.div_mod_to_equations.

(* ---------- coupons made from registers: pack_coupon(slot, value) for value > 0 ---------- *)
Fixpoint canon (s : N) (vals : list N) : list N :=
  match vals with
  | [] => []
  | v :: r => if 0 <? v then pack_coupon s v :: canon (s + 1) r else canon (s + 1) r
  end.

Lemma cvalue_pack : forall s v, cvalue (pack_coupon s v) = v.
Proof. intros. rewrite <- get_value_div. apply pack_value. Qed.

Lemma cslot_pack : forall lgk s v, lgk <= 26 -> s < 2 ^ lgk -> cslot lgk (pack_coupon s v) = s.
Proof.
  intros lgk s v Hk Hs. rewrite <- slot_of_cslot. unfold slot_of. rewrite (pack_slot_small lgk) by assumption.
  rewrite land_mask. now apply N.mod_small.
Qed.

Lemma canon_valid : forall vals s, Forall (fun v => v <= 63) vals -> Forall valid (canon s vals).
Proof.
  induction vals as [|v r IH]; intros s H; cbn [canon]; [constructor|]. inversion H; subst.
  destruct (N.ltb_spec 0 v); [|now apply IH]. constructor; [|now apply IH].
  unfold valid. rewrite cvalue_pack. lia.
Qed.

Lemma canon_regs : forall lgk vals s0 j, lgk <= 26 -> s0 + N.of_nat (length vals) <= 2 ^ lgk ->
  spec_regs lgk (canon s0 vals) j =
  if (s0 <=? j) && (j <? s0 + N.of_nat (length vals)) then nth (N.to_nat (j - s0)) vals 0 else 0.
Proof.
  intros lgk. induction vals as [|v r IH]; intros s0 j Hk Hlen; cbn [canon length].
  - cbn [spec_regs]. destruct ((s0 <=? j) && (j <? s0 + N.of_nat 0)); [destruct (N.to_nat (j - s0))|]; reflexivity.
  - cbn [length] in Hlen.
    assert (Hrec : spec_regs lgk (canon (s0 + 1) r) j =
                   if (s0 + 1 <=? j) && (j <? s0 + 1 + N.of_nat (length r)) then nth (N.to_nat (j - (s0 + 1))) r 0 else 0).
    { apply IH; [assumption|lia]. }
    assert (Hnth : forall (x : N), s0 < x -> nth (N.to_nat (x - s0)) (v :: r) 0 = nth (N.to_nat (x - (s0 + 1))) r 0).
    { intros x Hx. replace (N.to_nat (x - s0)) with (S (N.to_nat (x - (s0 + 1)))) by lia. reflexivity. }
    destruct (N.ltb_spec 0 v) as [Hv|Hv].
    + cbn [spec_regs]. rewrite cslot_pack, cvalue_pack by (assumption || lia). rewrite Hrec.
      destruct (N.eqb_spec s0 j) as [<-|Hne].
      * replace ((s0 + 1 <=? s0) && (s0 <? s0 + 1 + N.of_nat (length r))) with false by lia.
        replace ((s0 <=? s0) && (s0 <? s0 + N.of_nat (S (length r)))) with true by lia.
        rewrite N.sub_diag. cbn [N.to_nat nth]. lia.
      * destruct (N.leb_spec (s0 + 1) j) as [H1|H1].
        -- replace (s0 <=? j) with true by lia. cbn [andb].
           replace (j <? s0 + N.of_nat (S (length r))) with (j <? s0 + 1 + N.of_nat (length r)) by lia.
           destruct (j <? s0 + 1 + N.of_nat (length r)); [|reflexivity]. symmetry. apply Hnth. lia.
        -- replace (s0 <=? j) with false by lia. reflexivity.
    + assert (v = 0) by lia. subst v. rewrite Hrec.
      destruct (N.eqb_spec s0 j) as [<-|Hne].
      * replace ((s0 + 1 <=? s0) && (s0 <? s0 + 1 + N.of_nat (length r))) with false by lia.
        replace ((s0 <=? s0) && (s0 <? s0 + N.of_nat (S (length r)))) with true by lia.
        rewrite N.sub_diag. reflexivity.
      * destruct (N.leb_spec (s0 + 1) j) as [H1|H1].
        -- replace (s0 <=? j) with true by lia. cbn [andb].
           replace (j <? s0 + N.of_nat (S (length r))) with (j <? s0 + 1 + N.of_nat (length r)) by lia.
           destruct (j <? s0 + 1 + N.of_nat (length r)); [|reflexivity]. symmetry. apply Hnth. lia.
        -- replace (s0 <=? j) with false by lia. reflexivity.
Qed.

Lemma nth_map_Nseq : forall (f : N -> N) n s i, (i < n)%nat -> nth i (map f (Nseq s n)) 0 = f (s + N.of_nat i).
Proof.
  induction n; intros s i Hi; [lia|]. cbn [Nseq map]. destruct i as [|i]; cbn [nth].
  - f_equal. lia.
  - rewrite IHn by lia. f_equal. lia.
Qed.

(* the registers of the coupons made from a register file f of 2^lgk slots are f again *)
Lemma canon_regs_full : forall lgk (f : N -> N) j, lgk <= 26 ->
  spec_regs lgk (canon 0 (map f (Nseq 0 (N.to_nat (2 ^ lgk))))) j = if j <? 2 ^ lgk then f j else 0.
Proof.
  intros lgk f j Hk. rewrite canon_regs by (rewrite ?map_length, ?Nseq_length; lia). rewrite map_length, Nseq_length.
  rewrite N2Nat.id, N.add_0_l. cbn [N.leb]. replace (0 <=? j) with true by lia. cbn [andb].
  destruct (N.ltb_spec j (2 ^ lgk)); [|reflexivity].
  rewrite N.sub_0_r, nth_map_Nseq by lia. f_equal. lia.
Qed.

(* ---------- pointwise-maximum merge with slot folding ---------- *)
Fixpoint maxsel (mask s : N) (vals : list N) (j : N) : N :=
  match vals with
  | [] => 0
  | v :: r => N.max (if N.land s mask =? j then v else 0) (maxsel mask (s + 1) r j)
  end.

Lemma max_at_get : forall bytes slot val j,
  aget (a8_max_at bytes slot val) j = if slot =? j then N.max (aget bytes j) val else aget bytes j.
Proof.
  intros. unfold a8_max_at. destruct (N.ltb_spec (aget bytes slot) val) as [H|H].
  - rewrite aget_aset. destruct (N.eqb_spec slot j) as [<-|]; [lia|reflexivity].
  - destruct (N.eqb_spec slot j) as [<-|]; [lia|reflexivity].
Qed.

Lemma max_all_get : forall vals bytes mask s j,
  aget (a8_max_all bytes mask s vals) j = N.max (aget bytes j) (maxsel mask s vals j).
Proof.
  induction vals as [|v r IH]; intros bytes mask s j; cbn [a8_max_all maxsel]; [lia|].
  rewrite IH, max_at_get. destruct (N.land s mask =? j); lia.
Qed.

Lemma maxsel_ge : forall vals mask s j i, (i < length vals)%nat -> N.land (s + N.of_nat i) mask = j ->
  nth i vals 0 <= maxsel mask s vals j.
Proof.
  induction vals as [|v r IH]; intros mask s j i Hi Hs; cbn [length] in Hi; [lia|]. cbn [maxsel].
  destruct i as [|i]; cbn [nth].
  - rewrite N.add_0_r in Hs. rewrite Hs, N.eqb_refl. lia.
  - specialize (IH mask (s + 1) j i ltac:(lia)). rewrite <- Hs in IH.
    replace (s + 1 + N.of_nat i) with (s + N.of_nat (S i)) in IH by lia. specialize (IH eq_refl). rewrite Hs in IH. lia.
Qed.

Lemma maxsel_attained : forall vals mask s j, maxsel mask s vals j <> 0 ->
  exists i, (i < length vals)%nat /\ N.land (s + N.of_nat i) mask = j /\ maxsel mask s vals j = nth i vals 0.
Proof.
  induction vals as [|v r IH]; intros mask s j H; cbn [maxsel] in *; [lia|].
  destruct (N.eqb_spec (N.land s mask) j) as [E|E].
  - destruct (N.le_gt_cases (maxsel mask (s + 1) r j) v) as [L|L].
    + exists 0%nat. cbn [length nth]. rewrite N.add_0_r. split; [lia|]. split; [assumption|lia].
    + destruct (IH mask (s + 1) j ltac:(lia)) as (i & Hi & Hs & Hv). exists (S i). cbn [length nth].
      split; [lia|]. split; [rewrite <- Hs; f_equal; lia|lia].
  - destruct (IH mask (s + 1) j ltac:(lia)) as (i & Hi & Hs & Hv). exists (S i). cbn [length nth].
    split; [lia|]. split; [rewrite <- Hs; f_equal; lia|lia].
Qed.

Lemma cslot_fold : forall dlg slg c, dlg <= slg -> cslot dlg c = cslot slg c mod 2 ^ dlg.
Proof.
  intros dlg slg c H. unfold cslot. replace slg with (dlg + (slg - dlg)) by lia. rewrite N.pow_add_r.
  pose proof (pow2_pos dlg). pose proof (pow2_pos (slg - dlg)).
  rewrite N.mod_mul_r by lia. rewrite (N.mul_comm (2 ^ dlg)), N.mod_add by lia. now rewrite N.mod_mod by lia.
Qed.

(* folding the register file of cs at slg down to dlg gives the register file of cs at dlg *)
Lemma maxsel_fold : forall dlg slg cs j, dlg <= slg ->
  maxsel (2 ^ dlg - 1) 0 (map (spec_regs slg cs) (Nseq 0 (N.to_nat (2 ^ slg)))) j = spec_regs dlg cs j.
Proof.
  intros dlg slg cs j Hle. set (vals := map (spec_regs slg cs) (Nseq 0 (N.to_nat (2 ^ slg)))).
  assert (Hlen : length vals = N.to_nat (2 ^ slg)) by (unfold vals; now rewrite map_length, Nseq_length).
  assert (Hnth : forall i, (i < length vals)%nat -> nth i vals 0 = spec_regs slg cs (N.of_nat i)).
  { intros i Hi. unfold vals. rewrite nth_map_Nseq by lia. f_equal. }
  apply N.le_antisymm.
  - destruct (N.eq_dec (maxsel (2 ^ dlg - 1) 0 vals j) 0) as [Z|Z]; [lia|].
    destruct (maxsel_attained vals _ 0 j Z) as (i & Hi & Hs & Hv). rewrite Hv, Hnth by assumption.
    rewrite N.add_0_l, land_mask in Hs.
    destruct (N.eq_dec (spec_regs slg cs (N.of_nat i)) 0) as [Z'|Z']; [lia|].
    destruct (spec_regs_attained slg cs _ Z') as (c & Hin & Hsl & Hval). rewrite <- Hval.
    replace j with (cslot dlg c); [now apply spec_regs_max_ge|]. rewrite (cslot_fold dlg slg c Hle), Hsl. assumption.
  - destruct (N.eq_dec (spec_regs dlg cs j) 0) as [Z|Z]; [lia|].
    destruct (spec_regs_attained dlg cs j Z) as (c & Hin & Hsl & Hval).
    pose proof (cslot_lt slg c) as Hlt.
    pose proof (maxsel_ge vals (2 ^ dlg - 1) 0 j (N.to_nat (cslot slg c)) ltac:(lia)) as Hge.
    rewrite N2Nat.id, N.add_0_l, land_mask, <- (cslot_fold dlg slg c Hle) in Hge. specialize (Hge Hsl).
    rewrite Hnth, N2Nat.id in Hge by lia. pose proof (spec_regs_max_ge slg cs c Hin). lia.
Qed.

(* ---------- equal register files ---------- *)
Definition req (lg : N) (a b : list N) : Prop := forall j, spec_regs lg a j = spec_regs lg b j.

Lemma req_refl : forall lg a, req lg a a. Proof. intros lg a j. reflexivity. Qed.
Lemma req_trans : forall lg a b c, req lg a b -> req lg b c -> req lg a c.
Proof. intros lg a b c H1 H2 j. now rewrite H1. Qed.
Lemma req_sym : forall lg a b, req lg a b -> req lg b a.
Proof. intros lg a b H j. now rewrite H. Qed.
Lemma req_same_set : forall lg a b, same_set a b -> req lg a b.
Proof. intros lg a b H j. now apply spec_regs_set. Qed.
Lemma req_app : forall lg a a' b b', req lg a a' -> req lg b b' -> req lg (a ++ b) (a' ++ b').
Proof. intros lg a a' b b' H1 H2 j. now rewrite !spec_regs_app, H1, H2. Qed.
Lemma req_app_comm : forall lg a b, req lg (a ++ b) (b ++ a).
Proof. intros lg a b j. rewrite !spec_regs_app. lia. Qed.
Lemma req_cons : forall lg c a b, req lg a b -> req lg (c :: a) (c :: b).
Proof. intros lg c a b H. apply (req_app lg [c] [c] a b); [apply req_refl|assumption]. Qed.
Lemma req_rev : forall lg a, req lg (rev a) a.
Proof. intros. apply req_same_set. intros c. symmetry. apply in_rev. Qed.

(* equality of register files survives folding to a smaller lg_k *)
Lemma req_fold : forall dlg slg a b, dlg <= slg -> req slg a b -> req dlg a b.
Proof.
  intros dlg slg a b Hle H j. rewrite <- (maxsel_fold dlg slg a j Hle), <- (maxsel_fold dlg slg b j Hle).
  f_equal. apply map_ext. intros s. apply H.
Qed.

Lemma req_zeros : forall lg a b, req lg a b -> spec_zeros lg a = spec_zeros lg b.
Proof. intros lg a b H. unfold spec_zeros. apply count_regs_ext. intros j _. now rewrite H. Qed.

Lemma count_regs_full_all : forall k p j, count_regs k p = k -> j < k -> p j = true.
Proof.
  intros k p j H Hj. destruct (p j) eqn:E; [reflexivity|]. exfalso.
  pose proof (count_regs_change k p (fun i => if i =? j then true else p i) j Hj) as Hc. cbv beta in Hc.
  rewrite N.eqb_refl, E in Hc.
  specialize (Hc ltac:(intros i _ Hne; destruct (N.eqb_spec i j); [contradiction|reflexivity])).
  pose proof (count_regs_le k (fun i => if i =? j then true else p i)). lia.
Qed.

(* a register file with a valid coupon has a non-zero register; with none it is all zero *)
Lemma zeros_lt_of_coupon : forall lg cs c, In c cs -> valid c -> spec_zeros lg cs < 2 ^ lg.
Proof.
  intros lg cs c Hin [Hv _]. pose proof (count_regs_le (2 ^ lg) (fun j => spec_regs lg cs j =? 0)) as Hle.
  unfold spec_zeros. destruct (N.eq_dec (count_regs (2 ^ lg) (fun j => spec_regs lg cs j =? 0)) (2 ^ lg)) as [E|E]; [|lia].
  pose proof (count_regs_full_all _ _ (cslot lg c) E (cslot_lt lg c)) as H. cbv beta in H.
  pose proof (spec_regs_max_ge lg cs c Hin). lia.
Qed.

Lemma zeros_full_no_coupon : forall lg cs, Forall valid cs -> spec_zeros lg cs = 2 ^ lg -> cs = [].
Proof.
  intros lg cs Hv Hz. destruct cs as [|c r]; [reflexivity|]. exfalso. inversion Hv; subst.
  pose proof (zeros_lt_of_coupon lg (c :: r) c (or_introl eq_refl) ltac:(assumption)). lia.
Qed.

(* ---------- Rep8 under the bulk operations ---------- *)
Definition R8 (lg : N) (seen : list N) (a : arr8 hip) : Prop := Rep8 lg seen a (a8_est a).

Lemma a8_values_regs : forall lg seen a, R8 lg seen a -> a8_values a = map (spec_regs lg seen) (Nseq 0 (N.to_nat (2 ^ lg))).
Proof. intros lg seen a (Hk & Hr & _). unfold a8_values. rewrite Hk. apply map_ext. intros j. apply Hr. Qed.

Lemma rebuild_R8 : forall lg seen a, a8_lgk a = lg -> (forall j, a8_get a j = spec_regs lg seen j) ->
  R8 lg seen (a8_rebuild_cached_values a).
Proof.
  intros lg seen a Hk Hr. unfold a8_rebuild_cached_values. destruct (kxq_sums (a8_values a)) as [q0 q1].
  unfold R8, Rep8, a8_get in *. cbn [a8_lgk a8_bytes a8_nz a8_est]. split; [assumption|]. split; [assumption|].
  split; [|reflexivity]. unfold a8_values, a8_get. rewrite filter_map_len, Hk. unfold spec_zeros, count_regs.
  do 2 f_equal. apply filter_ext. intros j. now rewrite Hr.
Qed.

Lemma set_ooo_R8 : forall lg seen a b, R8 lg seen a -> R8 lg seen (a8_set_ooo b a).
Proof. intros lg seen a b (Hk & Hr & Hz & _). unfold R8, Rep8, a8_set_ooo, a8_get in *. cbn. tauto. Qed.
Lemma set_hip_R8 : forall lg seen a v, R8 lg seen a -> R8 lg seen (a8_set_hip_accum v a).
Proof. intros lg seen a v (Hk & Hr & Hz & _). unfold R8, Rep8, a8_set_hip_accum, a8_get in *. cbn. tauto. Qed.
Lemma rebuild_est_R8 : forall lg seen a, R8 lg seen a -> R8 lg seen (a8_rebuild_estimator_from_registers a).
Proof.
  intros lg seen a (Hk & Hr & _). unfold a8_rebuild_estimator_from_registers. apply set_ooo_R8.
  now apply rebuild_R8.
Qed.
Lemma new_R8 : forall lg, R8 lg [] (a8_new lg (hip_new lg)).
Proof. intros. apply rep8_new. Qed.

(* max-merging the registers of cs (at slg) into an array that represents seen at dlg <= slg *)
Lemma merge_regs : forall dlg slg cs seen bytes, dlg <= slg -> (forall j, aget bytes j = spec_regs dlg seen j) ->
  forall j, aget (a8_max_all bytes (2 ^ dlg - 1) 0 (map (spec_regs slg cs) (Nseq 0 (N.to_nat (2 ^ slg))))) j
            = spec_regs dlg (cs ++ seen) j.
Proof. intros dlg slg cs seen bytes Hle Hr j. rewrite max_all_get, maxsel_fold, spec_regs_app, Hr by assumption. lia. Qed.

Lemma merged_R8 : forall dlg slg cs seen (dst : arr8 hip), dlg <= slg -> R8 dlg seen dst ->
  R8 dlg (cs ++ seen)
     (a8_set_ooo true (a8_rebuild_cached_values
        (mkA8 (a8_lgk dst) (a8_max_all (a8_bytes dst) (2 ^ dlg - 1) 0 (map (spec_regs slg cs) (Nseq 0 (N.to_nat (2 ^ slg)))))
              (a8_nz dst) (a8_est dst)))).
Proof.
  intros dlg slg cs seen dst Hle (Hk & Hr & _). apply set_ooo_R8. apply rebuild_R8; [assumption|].
  intros j. unfold a8_get. cbn [a8_bytes]. apply merge_regs; assumption.
Qed.

Lemma ooo_after_set : forall a, h_ooo (a8_est (a8_set_ooo true a)) = true.
Proof. reflexivity. Qed.

(* ---------- canonical coupon replay ---------- *)
Lemma copy_via_coupons_fold : forall vals dst s,
  copy_array46_via_coupons dst s vals = fold_left (a8_update hip_update) (canon s vals) dst.
Proof.
  induction vals as [|v r IH]; intros dst s; cbn [copy_array46_via_coupons canon]; [reflexivity|].
  rewrite IH. destruct (0 <? v); reflexivity.
Qed.

Lemma a6_fill_fold : forall vals a s, Forall (fun v => v <= 63) vals ->
  a6_fill a s vals = fold_left (a6_update hip_update) (canon s vals) a.
Proof.
  induction vals as [|v r IH]; intros a s H; cbn [a6_fill canon]; [reflexivity|]. inversion H; subst.
  rewrite IH by assumption. replace (N.min v 63) with v by lia. destruct (0 <? v); reflexivity.
Qed.

Lemma a4_fill_fold : forall vals a s, a4_fill a s vals = a4_update_all hip_update (canon s vals) a.
Proof.
  induction vals as [|v r IH]; intros a s; cbn [a4_fill canon]; [reflexivity|].
  destruct (0 <? v); cbn [a4_update_all obind]; [|apply IH].
  destruct (a4_update hip_update a (pack_coupon s v)); cbn [obind]; [apply IH|reflexivity|reflexivity].
Qed.

Lemma regs_vals_le63 : forall lg cs, Forall valid cs ->
  Forall (fun v => v <= 63) (map (spec_regs lg cs) (Nseq 0 (N.to_nat (2 ^ lg)))).
Proof. intros lg cs H. apply Forall_forall. intros v Hv. apply in_map_iff in Hv. destruct Hv as (j & <- & _). now apply spec_regs_bound. Qed.

(* the canonical coupons of the register file of cs at lg have that register file *)
Lemma canon_req : forall lg cs, lg <= 26 ->
  req lg (rev (canon 0 (map (spec_regs lg cs) (Nseq 0 (N.to_nat (2 ^ lg)))))) cs.
Proof.
  intros lg cs Hk. eapply req_trans; [apply req_rev|]. intros j. rewrite canon_regs_full by assumption.
  destruct (N.ltb_spec j (2 ^ lg)); [reflexivity|]. symmetry. now apply spec_regs_out_of_range.
Qed.

(* ---------- source sketches ---------- *)
(* sketch s represents the abstract HLL state (lgk, arrf, cs): lg_k, array-mode flag, coupons;
   any target type, any estimator state (HIP value, kxq, out-of-order flag) *)
Definition SrcOK (lgk : N) (arrf : bool) (cs : list N) (s : hsketch) : Prop :=
  sk_lgk s = lgk /\ 4 <= lgk <= 21 /\ Forall valid cs /\
  match sk_mode s with
  | MList l t => arrf = false /\ exists ds, ListInv l ds /\ (length ds < 8)%nat /\ same_set ds cs
  | MSet st t => arrf = false /\ 8 <= lgk /\ 5 <= hs_lg st /\ hs_lg st <= lgk - 3 /\ SetRep (hs_lg st) st cs /\
                 8 <= hs_len st /\ 4 * hs_len st <= 3 * 2 ^ hs_lg st
  | MArr4 a => arrf = true /\ Inv4 lgk (spec_regs lgk cs) a /\ 0 < a4_num a
  | MArr6 a => arrf = true /\ a6_lgk a = lgk /\ WFb (a6_bytes a) /\ (forall j, j < 2 ^ lgk -> a6_get a j = spec_regs lgk cs j) /\
               a6_nz a = spec_zeros lgk cs
  | MArr8 a => arrf = true /\ a8_lgk a = lgk /\ (forall j, a8_get a j = spec_regs lgk cs j) /\ a8_nz a = spec_zeros lgk cs
  end.

Lemma a4_value_list_regs : forall lgk regs (a : arr4 hip) slots, Inv4 lgk regs a -> (forall j, In j slots -> j < 2 ^ lgk) ->
  a4_value_list a slots = Ok (map regs slots).
Proof.
  intros lgk regs a. induction slots as [|s r IH]; intros HI Hs; cbn [a4_value_list map]; [reflexivity|].
  rewrite (a4_get_regs hip (fun _ _ _ x => x) lgk regs a s HI (Hs s (or_introl eq_refl))). cbn [obind].
  rewrite IH; [reflexivity|assumption|]. intros j Hj. apply Hs. now right.
Qed.

Lemma src_values : forall lgk cs s, SrcOK lgk true cs s ->
  mode_values (sk_mode s) = Ok (map (spec_regs lgk cs) (Nseq 0 (N.to_nat (2 ^ lgk)))).
Proof.
  intros lgk cs s (Hk & Hlg & Hv & Hm). unfold mode_values. destruct (sk_mode s) as [l t|st t|a|a|a].
  - destruct Hm; discriminate.
  - destruct Hm; discriminate.
  - destruct Hm as (_ & HI & _). pose proof HI as (Hk4 & _). rewrite Hk4.
    apply (a4_value_list_regs lgk); [assumption|]. intros j Hj. now apply Nseq_range_In.
  - destruct Hm as (_ & Hk6 & _ & Hr & _). rewrite Hk6. f_equal. apply map_ext_in. intros j Hj. apply Hr. now apply Nseq_range_In.
  - destruct Hm as (_ & Hk8 & Hr & _). unfold a8_values. rewrite Hk8. f_equal. apply map_ext. intros j. apply Hr.
Qed.

Lemma src_is_array : forall lgk arrf cs s, SrcOK lgk arrf cs s -> mode_is_array (sk_mode s) = arrf.
Proof. intros lgk arrf cs s (_ & _ & _ & Hm). destruct (sk_mode s); cbn; destruct Hm as [-> _]; reflexivity. Qed.

Lemma src_coupons : forall lgk cs s, SrcOK lgk false cs s ->
  exists it, mode_coupons (sk_mode s) = Ok it /\ same_set it cs /\ NoDup it.
Proof.
  intros lgk cs s (Hk & Hlg & Hv & Hm). unfold mode_coupons. destruct (sk_mode s) as [l t|st t|a|a|a];
    try (destruct Hm; discriminate).
  - destruct Hm as (_ & ds & HL & _ & Hss). exists (list_iter l). split; [reflexivity|].
    rewrite (list_iter_inv l ds HL). split; [assumption|]. now destruct HL as (_ & _ & ? & _).
  - destruct Hm as (_ & _ & _ & _ & HR & _). exists (set_iter st). split; [reflexivity|]. split.
    + intros c. now apply (set_iter_In (hs_lg st) st cs).
    + now apply (set_iter_NoDup (hs_lg st) st cs).
Qed.

(* HllSketch::is_empty says whether the represented coupon list is empty *)
Lemma src_is_empty : forall lgk arrf cs s, SrcOK lgk arrf cs s -> (sketch_is_empty s = true <-> cs = []).
Proof.
  intros lgk arrf cs s (Hk & Hlg & Hv & Hm). unfold sketch_is_empty. destruct (sk_mode s) as [l t|st t|a|a|a].
  - destruct Hm as (_ & ds & (_ & Hl & _) & _ & Hss). split.
    + intros H. assert (ds = []) by (destruct ds; [reflexivity|cbn [length] in Hl; lia]). subst ds.
      destruct cs as [|c r]; [reflexivity|]. exfalso. apply (Hss c). now left.
    + intros ->. destruct ds as [|d r]; [cbn [length] in Hl; lia|]. exfalso. apply (Hss d). now left.
  - destruct Hm as (_ & _ & _ & _ & HR & H8 & _). split; [lia|]. intros ->.
    rewrite (set_card (hs_lg st) st [] HR) in H8. cbv in H8. lia.
  - destruct Hm as (_ & (Hk4 & HC & Hn) & Hpos). rewrite Hk4. split.
    + intros H. apply (zeros_full_no_coupon lgk); [assumption|]. unfold spec_zeros.
      assert (E0 : a4_cur_min a = 0) by lia. rewrite E0 in Hn. lia.
    + intros ->. assert (Hz : forall j, j < 2 ^ lgk -> a4_cur_min a = 0).
      { intros j Hj. pose proof (core4_ge lgk _ _ _ _ j HC Hj) as H. cbn [spec_regs] in H. lia. }
      pose proof (Hz 0 (pow2_pos lgk)) as E0. rewrite Hn, E0.
      rewrite count_regs_all by (intros; reflexivity). rewrite N.eqb_refl. reflexivity.
  - destruct Hm as (_ & Hk6 & _ & _ & Hz). rewrite Hk6, Hz. split.
    + intros H. apply (zeros_full_no_coupon lgk); [assumption|lia].
    + intros ->. rewrite spec_zeros_nil. lia.
  - destruct Hm as (_ & Hk8 & _ & Hz). rewrite Hk8, Hz. split.
    + intros H. apply (zeros_full_no_coupon lgk); [assumption|lia].
    + intros ->. rewrite spec_zeros_nil. lia.
Qed.

Lemma fold_a8_update_ooo : forall cs (a : arr8 hip), h_ooo (a8_est (fold_left (a8_update hip_update) cs a)) = h_ooo (a8_est a).
Proof.
  induction cs as [|c r IH]; intros a; cbn [fold_left]; [reflexivity|]. rewrite IH. unfold a8_update.
  destruct (a8_get a (slot_of (a8_lgk a) c) <? get_value c); reflexivity.
Qed.

Lemma mode_est_ok : forall lgk cs s, SrcOK lgk true cs s -> exists se, mode_est (sk_mode s) = Ok se.
Proof.
  intros lgk cs s (_ & _ & _ & Hm). unfold mode_est. destruct (sk_mode s); try (destruct Hm; discriminate); eauto.
Qed.

(* copy_or_downsample: an Array8 holding the source's registers folded to min(src lg_k, tgt lg_k);
   an out-of-order source gives an out-of-order copy (the repaired defect D3) *)
Lemma cod_spec : forall slg scs s tgt, SrcOK slg true scs s -> 4 <= tgt <= 21 ->
  exists a fed, copy_or_downsample (sk_mode s) slg tgt = Ok a /\ R8 (N.min slg tgt) fed a /\ Forall valid fed /\
    req (N.min slg tgt) fed scs /\
    (forall se, mode_est (sk_mode s) = Ok se -> h_ooo se = true -> h_ooo (a8_est a) = true).
Proof.
  intros slg scs s tgt HS Htgt. pose proof (src_values slg scs s HS) as Hvals.
  destruct (mode_est_ok slg scs s HS) as (se & Hse).
  pose proof HS as (Hk & Hlg & Hv & Hm).
  unfold copy_or_downsample. destruct (N.leb_spec slg tgt) as [Hle|Hgt].
  - replace (N.min slg tgt) with slg by lia. rewrite Hse, Hvals. cbn [obind].
    set (vals := map (spec_regs slg scs) (Nseq 0 (N.to_nat (2 ^ slg)))).
    assert (Hcopy : exists r fed, (match sk_mode s with
              | MArr8 _ => a8_merge_array_same_lgk (a8_new slg (hip_new slg)) vals
              | _ => Ok (copy_array46_via_coupons (a8_new slg (hip_new slg)) 0 vals)
              end) = Ok r /\ R8 slg fed r /\ Forall valid fed /\ req slg fed scs /\
              (forall a8, sk_mode s = MArr8 a8 -> h_ooo (a8_est r) = true)).
    { assert (Hvia : exists r fed, Ok (copy_array46_via_coupons (a8_new slg (hip_new slg)) 0 vals) = Ok r /\
                        R8 slg fed r /\ Forall valid fed /\ req slg fed scs).
      { eexists. exists (rev (canon 0 vals)). split; [reflexivity|]. rewrite copy_via_coupons_fold.
        split; [|split; [apply Forall_rev; apply canon_valid; now apply regs_vals_le63|apply canon_req; lia]].
        pose proof (rep8_fold hip hip_update slg (canon 0 vals) [] _ _ (new_R8 slg)) as H.
        rewrite app_nil_r in H. unfold R8. destruct H as (A & B & C & _). repeat split; assumption. }
      destruct (sk_mode s) as [l t|st t|a4|a6|a8] eqn:Em; try (destruct Hm; discriminate).
      - destruct Hvia as (r & fed & A & B & C & D). exists r, fed. split; [assumption|]. split; [assumption|].
        split; [assumption|]. split; [assumption|]. intros a8 H0. discriminate H0.
      - destruct Hvia as (r & fed & A & B & C & D). exists r, fed. split; [assumption|]. split; [assumption|].
        split; [assumption|]. split; [assumption|]. intros a8 H0. discriminate H0.
      - unfold a8_merge_array_same_lgk. cbn [a8_new a8_lgk a8_bytes a8_nz a8_est].
        unfold vals at 1. rewrite map_length, Nseq_length, N2Nat.id, N.eqb_refl.
        eexists. exists (scs ++ []). split; [reflexivity|].
        split; [apply (merged_R8 slg slg scs [] (a8_new slg (hip_new slg))); [lia|apply new_R8]|].
        split; [now rewrite app_nil_r|]. split; [rewrite app_nil_r; apply req_refl|]. intros; reflexivity. }
    destruct Hcopy as (r & fed & Hr & HR & Hfv & Hreq & Hooo8). rewrite Hr. cbn [obind].
    eexists. exists fed. split; [reflexivity|]. split; [|split; [assumption|split; [assumption|]]].
    + assert (HR2 : R8 slg fed (if h_ooo (a8_est r) then r else a8_set_hip_accum (h_accum se) r))
        by (destruct (h_ooo (a8_est r)); [assumption|now apply set_hip_R8]).
      destruct (h_ooo se); [apply rebuild_est_R8|]; assumption.
    + intros se' Hse' Ho. assert (se' = se) by congruence. subst se'. rewrite Ho. reflexivity.
  - replace (N.min slg tgt) with tgt by lia. unfold merge_array_with_downsample.
    replace (tgt <? slg) with true by lia. rewrite Hvals. cbn [obind].
    set (vals := map (spec_regs slg scs) (Nseq 0 (N.to_nat (2 ^ slg)))).
    pose proof (merged_R8 tgt slg scs [] (a8_new tgt (hip_new tgt)) ltac:(lia) (new_R8 tgt)) as HR.
    cbn [a8_new a8_lgk a8_bytes a8_nz a8_est] in HR. fold vals in HR.
    assert (Hres : exists r, (match sk_mode s with
              | MArr8 _ => a8_merge_array_with_downsample (a8_new tgt (hip_new tgt)) vals slg
              | _ => Ok (merge_array46_with_downsample (a8_new tgt (hip_new tgt)) tgt vals)
              end) = Ok r /\ R8 tgt (scs ++ []) r /\ h_ooo (a8_est r) = true).
    { destruct (sk_mode s) as [l t|st t|a4|a6|a8] eqn:Em; try (destruct Hm; discriminate).
      - eexists. split; [reflexivity|]. split; [exact HR|reflexivity].
      - eexists. split; [reflexivity|]. split; [exact HR|reflexivity].
      - unfold a8_merge_array_with_downsample. cbn [a8_new a8_lgk a8_bytes a8_nz a8_est].
        unfold vals at 1. rewrite map_length, Nseq_length, N2Nat.id, N.eqb_refl.
        replace (tgt <? slg) with true by lia. cbn [andb]. eexists. split; [reflexivity|]. split; [exact HR|reflexivity]. }
    destruct Hres as (r & Hr & HR' & Ho). rewrite Hr. exists r, (scs ++ []). split; [reflexivity|].
    split; [assumption|]. split; [now rewrite app_nil_r|]. split; [rewrite app_nil_r; apply req_refl|]. intros; assumption.
Qed.

(* ---------- the gadget ---------- *)
Definition TT (lgk : N) (seen : list N) : Prop := True.
Lemma TT_cons : forall lgk c seen, TT lgk seen -> TT lgk (c :: seen). Proof. intros; exact I. Qed.
Lemma TT_cond : forall lgk seen, ArrCond lgk (distinct seen) -> TT lgk seen. Proof. intros; exact I. Qed.

Local Notation GS ao lg seen g := (Sim hip ao lg T8 seen g g).

Lemma gsim_cases : forall (ao : N -> list N -> Prop) lg seen (g : hsketch), GS ao lg seen g ->
  (exists l ds, g = mkSketch lg (MList l T8) /\ ListInv l ds /\ (length ds < 8)%nat /\ same_set ds seen) \/
  (exists st, g = mkSketch lg (MSet st T8) /\ 8 <= lg /\ 5 <= hs_lg st /\ hs_lg st <= lg - 3 /\
              SetRep (hs_lg st) st seen /\ 8 <= hs_len st /\ 4 * hs_len st <= 3 * 2 ^ hs_lg st) \/
  (exists fed a, g = mkSketch lg (MArr8 a) /\ same_set fed seen /\ Forall valid fed /\ ao lg seen /\ R8 lg fed a).
Proof.
  intros ao lg seen g H. inversion H as [l ds HL Hlen Hss E1 E2|st A B C D F G E1 E2|fed e m m8 Hss Hv Hao HR HR8 E1 E2].
  - left. exists l, ds. split; [now symmetry|]. split; [assumption|]. split; assumption.
  - right. left. exists st. split; [now symmetry|]. split; [assumption|]. split; [assumption|]. split; [assumption|].
    split; [assumption|]. split; assumption.
  - right. right. subst m8. destruct m as [| |?|?|a]; cbn [RepT] in HR8; try contradiction.
    exists fed, a. split; [reflexivity|]. split; [assumption|]. split; [assumption|]. split; [assumption|].
    destruct HR8 as (A & B & C & D). unfold R8, Rep8. rewrite D. split; [assumption|]. split; [assumption|]. split; [assumption|reflexivity].
Qed.

Lemma gsim_arr : forall (ao : N -> list N -> Prop) lg fed (a : arr8 hip), ao lg fed -> Forall valid fed -> R8 lg fed a ->
  GS ao lg fed (mkSketch lg (MArr8 a)).
Proof.
  intros ao lg fed a Hao Hv HR. apply (SimArr hip ao lg T8 fed fed (a8_est a) (MArr8 a) (MArr8 a)); try assumption.
  intros c; tauto.
Qed.

Lemma sim_weaken : forall (ao ao' : N -> list N -> Prop) lg t seen (s s8 : hsketch),
  (forall l sn, ao l sn -> ao' l sn) -> Sim hip ao lg t seen s s8 -> Sim hip ao' lg t seen s s8.
Proof.
  intros ao ao' lg t seen s s8 Himp H. destruct H.
  - eapply SimList; eassumption.
  - apply SimSet; assumption.
  - eapply SimArr; try eassumption. now apply Himp.
Qed.

Lemma sim_set_eq : forall (ao : N -> list N -> Prop) lg t seen seen' (s s8 : hsketch), (forall l a b, same_set a b -> ao l a -> ao l b) ->
  same_set seen seen' -> Sim hip ao lg t seen s s8 -> Sim hip ao lg t seen' s s8.
Proof.
  intros ao lg t seen seen' s s8 Hao Hss H. destruct H as [l ds HL Hlen Hd|st A B C HR F G|fed e m m8 Hf Hv Ha HR HR8].
  - apply (SimList hip ao lg t seen' l ds); try assumption. intros c. rewrite (Hd c). apply Hss.
  - apply SimSet; try assumption. destruct HR as (R1 & R2 & R3 & R4). split; [assumption|]. split; [assumption|].
    split; [assumption|]. intros c. rewrite R4. apply Hss.
  - apply (SimArr hip ao lg t seen' fed e m m8); try assumption.
    + intros c. rewrite (Hf c). apply Hss.
    + now apply (Hao lg seen seen').
Qed.

Lemma TT_set : forall l a b, same_set a b -> TT l a -> TT l b. Proof. intros; exact I. Qed.
Lemma AC_set : forall l a b, same_set a b -> AC l a -> AC l b.
Proof. intros l a b H. unfold AC. now rewrite (distinct_set a b H). Qed.

Lemma same_set_nil : forall cs, same_set [] cs -> cs = [].
Proof. intros [|c r] H; [reflexivity|]. exfalso. apply (H c). now left. Qed.

Lemma req_nil_valid : forall lg cs, Forall valid cs -> req lg [] cs -> cs = [].
Proof.
  intros lg [|c r] Hv H; [reflexivity|]. exfalso. inversion Hv as [|? ? [Hc _] _]; subst.
  pose proof (spec_regs_max_ge lg (c :: r) c (or_introl eq_refl)) as Hge. rewrite <- (H (cslot lg c)) in Hge.
  cbn [spec_regs] in Hge. lia.
Qed.

Lemma array_absorbing : forall cs (g g' : hsketch), update_all hip_new hip_update hip_carry cs g = Ok g' ->
  sk_tag g = TagArray -> sk_tag g' = TagArray.
Proof.
  induction cs as [|c r IH]; intros g g' Hu Ht; cbn [update_all] in Hu.
  - inversion Hu; subst. assumption.
  - destruct (update_with_coupon hip_new hip_update hip_carry g c) as [g1| |] eqn:E1; cbn [obind] in Hu; try discriminate.
    apply (IH g1 g' Hu). unfold sk_tag in *. unfold update_with_coupon in E1.
    destruct (sk_mode g) as [l t|st t|a|a|a] eqn:Em; try discriminate.
    + destruct (a4_update hip_update a c); cbn [obind] in E1; inversion E1; reflexivity.
    + inversion E1; reflexivity.
    + inversion E1; reflexivity.
Qed.

(* the union's state: gadget g at lg_k = lg represents the coupon list cs (all coupons merged
   since the last reset); harr = some non-empty array-mode input was merged *)
Definition GInv (lg_max : N) (harr : bool) (lg : N) (cs : list N) (u : hunion) : Prop :=
  un_lg_max u = lg_max /\ 4 <= lg_max <= 21 /\ 4 <= lg /\ lg <= lg_max /\ Forall valid cs /\
  exists seen, Forall valid seen /\ req lg seen cs /\ GS TT lg seen (un_gadget u) /\
    (sk_tag (un_gadget u) <> TagArray -> same_set seen cs) /\
    (sk_tag (un_gadget u) = TagArray -> cs <> []) /\
    (harr = false -> lg = lg_max /\ same_set seen cs /\ GS AC lg_max seen (un_gadget u)) /\
    (harr = true -> sk_tag (un_gadget u) = TagArray).

Lemma gs_new : forall (ao : N -> list N -> Prop) lg, GS ao lg [] (mkSketch lg (MList (list_new LG_INIT_LIST_SIZE) T8)).
Proof. intros. apply (SimList hip ao lg T8 [] _ []); [apply list_new_inv|cbn; lia|intros c; tauto]. Qed.

Lemma ginv_new : forall lg_max, 4 <= lg_max <= 21 ->
  exists u, union_new lg_max = Ok u /\ GInv lg_max false lg_max [] u.
Proof.
  intros lg_max H. unfold union_new, hll_new, sketch_new. replace ((4 <=? lg_max) && (lg_max <=? 21)) with true by lia.
  cbn [obind]. eexists. split; [reflexivity|]. unfold GInv. cbn [un_lg_max un_gadget].
  split; [reflexivity|]. split; [assumption|]. split; [lia|]. split; [lia|]. split; [constructor|].
  exists []. split; [constructor|]. split; [apply req_refl|]. split; [apply gs_new|].
  split; [intros _ c; tauto|]. split; [intros Ht; discriminate Ht|]. split; [|discriminate].
  intros _. split; [reflexivity|]. split; [intros c; tauto|apply gs_new].
Qed.

(* an empty gadget is the empty list (the state after new / reset) *)
Lemma gadget_empty : forall lg_max harr lg cs u, GInv lg_max harr lg cs u -> sketch_is_empty (un_gadget u) = true ->
  cs = [] /\ harr = false /\ lg = lg_max /\ sk_tag (un_gadget u) = TagList.
Proof.
  intros lg_max harr lg cs u (Hm & Hlm & Hl4 & Hle & Hcv & seen & Hsv & Hreq & HG & Hsp & Hne & Hna & Hha) He.
  destruct (gsim_cases TT lg seen _ HG) as [(l & ds & Eg & HL & Hlen & Hss)|[(st & Eg & _ & _ & _ & _ & H8 & _)|(fed & a & Eg & Hss & Hfv & _ & HR)]];
    rewrite Eg in *; unfold sketch_is_empty, sk_tag in *; cbn [sk_mode] in *.
  - destruct HL as (_ & Hl & _). assert (ds = []) by (destruct ds; [reflexivity|cbn [length] in Hl; lia]). subst ds.
    assert (Hs0 : seen = []) by (apply same_set_nil; assumption). subst seen.
    assert (cs = []) by (apply same_set_nil; apply Hsp; discriminate). subst cs.
    split; [reflexivity|]. destruct harr.
    + specialize (Hha eq_refl). discriminate.
    + destruct (Hna eq_refl) as (-> & _). repeat split; reflexivity.
  - lia.
  - exfalso. specialize (Hne eq_refl). destruct HR as (Hk & _ & Hz & _). rewrite Hk, Hz in He.
    assert (Hfn : fed <> []).
    { intros ->. apply Hne. apply (req_nil_valid lg); [assumption|]. eapply req_trans; [|exact Hreq].
      apply req_same_set. assumption. }
    destruct fed as [|c r]; [contradiction|]. inversion Hfv as [|? ? Hc _].
    pose proof (zeros_lt_of_coupon lg (c :: r) c (or_introl eq_refl) Hc). lia.
Qed.

(* ---------- merging an array-mode source into an Array8 ---------- *)
Lemma merge_same_spec : forall lg scs s seen (dst : arr8 hip), SrcOK lg true scs s -> R8 lg seen dst ->
  exists r, merge_array_same_lgk dst (sk_mode s) = Ok r /\ R8 lg (scs ++ seen) r /\ h_ooo (a8_est r) = true.
Proof.
  intros lg scs s seen dst HS HR. pose proof (src_values lg scs s HS) as Hvals.
  pose proof (merged_R8 lg lg scs seen dst ltac:(lia) HR) as HM. destruct HR as (Hk & _).
  unfold merge_array_same_lgk. rewrite Hvals. cbn [obind].
  destruct HS as (_ & _ & _ & Hm). destruct (sk_mode s) as [l t|st t|a4|a6|a8]; try (destruct Hm; discriminate).
  - eexists. split; [reflexivity|]. unfold merge_array46_same_lgk, a8_rebuild_estimator_from_registers. rewrite Hk in HM |- *.
    split; [exact HM|reflexivity].
  - eexists. split; [reflexivity|]. unfold merge_array46_same_lgk, a8_rebuild_estimator_from_registers. rewrite Hk in HM |- *.
    split; [exact HM|reflexivity].
  - unfold a8_merge_array_same_lgk. rewrite map_length, Nseq_length, N2Nat.id. rewrite Hk in HM |- *. rewrite N.eqb_refl.
    eexists. split; [reflexivity|]. split; [exact HM|reflexivity].
Qed.

Lemma merge_down_spec : forall dlg slg scs s seen (dst : arr8 hip), SrcOK slg true scs s -> R8 dlg seen dst -> dlg < slg ->
  exists r, merge_array_with_downsample dst dlg (sk_mode s) slg = Ok r /\ R8 dlg (scs ++ seen) r /\ h_ooo (a8_est r) = true.
Proof.
  intros dlg slg scs s seen dst HS HR Hlt. pose proof (src_values slg scs s HS) as Hvals.
  pose proof (merged_R8 dlg slg scs seen dst ltac:(lia) HR) as HM. destruct HR as (Hk & _).
  unfold merge_array_with_downsample. replace (dlg <? slg) with true by lia. rewrite Hvals. cbn [obind].
  destruct HS as (_ & _ & _ & Hm). destruct (sk_mode s) as [l t|st t|a4|a6|a8]; try (destruct Hm; discriminate).
  - eexists. split; [reflexivity|]. unfold merge_array46_with_downsample, a8_rebuild_estimator_from_registers.
    split; [exact HM|reflexivity].
  - eexists. split; [reflexivity|]. unfold merge_array46_with_downsample, a8_rebuild_estimator_from_registers.
    split; [exact HM|reflexivity].
  - unfold a8_merge_array_with_downsample. rewrite map_length, Nseq_length, N2Nat.id. rewrite Hk in HM |- *. rewrite N.eqb_refl.
    replace (dlg <? slg) with true by lia. cbn [andb]. eexists. split; [reflexivity|]. split; [exact HM|reflexivity].
Qed.

Lemma merge_into_spec : forall dlg slg scs s seen (dst : arr8 hip), SrcOK slg true scs s -> R8 dlg seen dst -> dlg <= slg ->
  exists r, merge_array_into_array8 dst dlg (sk_mode s) slg = Ok r /\ R8 dlg (scs ++ seen) r /\ h_ooo (a8_est r) = true.
Proof.
  intros dlg slg scs s seen dst HS HR Hle. unfold merge_array_into_array8.
  replace (slg <? dlg) with false by lia. destruct (N.eqb_spec dlg slg) as [->|Hne].
  - now apply merge_same_spec.
  - apply merge_down_spec; [assumption|assumption|lia].
Qed.

(* an Array8 as a source *)
Lemma a8_src_ok : forall lg fed (a : arr8 hip), 4 <= lg <= 21 -> Forall valid fed -> R8 lg fed a ->
  SrcOK lg true fed (mkSketch lg (MArr8 a)).
Proof.
  intros lg fed a Hlg Hv (Hk & Hr & Hz & _). unfold SrcOK. cbn [sk_lgk sk_mode].
  split; [reflexivity|]. split; [assumption|]. split; [assumption|]. split; [reflexivity|]. split; [assumption|]. split; assumption.
Qed.

(* ---------- steps of the union ---------- *)
Lemma ginv_set : forall lg_max harr lg cs cs' u, GInv lg_max harr lg cs u -> same_set cs cs' -> Forall valid cs' ->
  GInv lg_max harr lg cs' u.
Proof.
  intros lg_max harr lg cs cs' u (Hm & Hlm & Hl4 & Hle & Hcv & seen & Hsv & Hreq & HG & Hsp & Hne & Hna & Hha) Hss Hv.
  split; [assumption|]. split; [assumption|]. split; [assumption|]. split; [assumption|]. split; [assumption|].
  exists seen. split; [assumption|]. split; [eapply req_trans; [exact Hreq|now apply req_same_set]|]. split; [assumption|].
  split; [intros H c; rewrite (Hsp H c); apply Hss|]. split.
  - intros H E. subst cs'. apply (Hne H). now apply same_set_nil; intros c; rewrite (Hss c).
  - split; [|assumption]. intros H. destruct (Hna H) as (A & B & C). split; [assumption|]. split; [|assumption].
    intros c. rewrite (B c). apply Hss.
Qed.

Lemma ginv_arr : forall lg_max lg' cs' fed (a : arr8 hip) u',
  un_lg_max u' = lg_max -> un_gadget u' = mkSketch lg' (MArr8 a) -> 4 <= lg_max <= 21 -> 4 <= lg' -> lg' <= lg_max ->
  Forall valid cs' -> cs' <> [] -> Forall valid fed -> R8 lg' fed a -> req lg' fed cs' ->
  GInv lg_max true lg' cs' u'.
Proof.
  intros lg_max lg' cs' fed a u' Hm Hg Hlm Hl4 Hle Hcv Hne Hfv HR Hreq.
  split; [assumption|]. split; [assumption|]. split; [assumption|]. split; [assumption|]. split; [assumption|].
  exists fed. rewrite Hg. split; [assumption|]. split; [assumption|]. split; [now apply gsim_arr|].
  split; [intros H; exfalso; apply H; reflexivity|]. split; [intros _; assumption|]. split; [discriminate|reflexivity].
Qed.

(* feeding coupons to the gadget (update_value, merge_coupons_into_gadget) *)
Lemma gadget_feed : forall lg_max harr lg cs u it, GInv lg_max harr lg cs u -> Forall valid it ->
  exists g', update_all hip_new hip_update hip_carry it (un_gadget u) = Ok g' /\
             (it <> [] -> GInv lg_max harr lg (it ++ cs) (mkUnion lg_max g')) /\ (it = [] -> g' = un_gadget u).
Proof.
  intros lg_max harr lg cs u it (Hm & Hlm & Hl4 & Hle & Hcv & seen & Hsv & Hreq & HG & Hsp & Hne & Hna & Hha) Hit.
  destruct (sim_run hip hip_new hip_update hip_carry TT TT_cons TT_cond lg T8 it seen _ _ ltac:(lia) Hit Hsv HG)
    as (g' & g'' & Hu & Hu' & HG').
  assert (g'' = g') by congruence. subst g''. exists g'. split; [assumption|]. split.
  - intros Hnn. split; [reflexivity|]. split; [assumption|]. split; [assumption|]. split; [assumption|].
    split; [apply Forall_app; split; assumption|].
    exists (rev it ++ seen). cbn [un_gadget]. split; [apply Forall_app; split; [now apply Forall_rev|assumption]|].
    split; [apply req_app; [apply req_rev|assumption]|]. split; [assumption|].
    assert (Hkeep : sk_tag g' <> TagArray -> same_set seen cs).
    { intros H. apply Hsp. intros Ht. apply H. now apply (array_absorbing it (un_gadget u) g'). }
    split.
    + intros H c. rewrite !in_app_iff, <- in_rev, (Hkeep H c). tauto.
    + split; [intros _ E; destruct it; [contradiction|discriminate]|]. split.
      * intros H. destruct (Hna H) as (A & B & C). split; [assumption|]. split.
        -- intros c. rewrite !in_app_iff, <- in_rev, (B c). tauto.
        -- subst lg.
           destruct (sim_run hip hip_new hip_update hip_carry AC AC_cons AC_cond lg_max T8 it seen _ _ ltac:(lia) Hit Hsv C)
             as (g1 & g2 & H1 & H2 & HG1).
           assert (g1 = g') by congruence. assert (g2 = g') by congruence. subst g1 g2. assumption.
      * intros H. now apply (array_absorbing it (un_gadget u) g' Hu (Hha H)).
  - intros ->. cbn [update_all] in Hu. congruence.
Qed.

Lemma forall_valid_set : forall a b, same_set a b -> Forall valid b -> Forall valid a.
Proof. intros a b H. apply Forall_same_set. intros c. apply H. Qed.

Definition is_nil (cs : list N) : bool := match cs with [] => true | _ => false end.

(* HllUnion::update *)
Lemma union_step : forall lg_max harr lg cs u slg sarr scs s,
  GInv lg_max harr lg cs u -> SrcOK slg sarr scs s ->
  exists u', union_update u s = Ok u' /\
    GInv lg_max (harr || (sarr && negb (is_nil scs)))
         (if sarr && negb (is_nil scs) then N.min lg slg else lg) (scs ++ cs) u'.
Proof.
  intros lg_max harr lg cs u slg sarr scs s HGI HS.
  pose proof (src_is_empty slg sarr scs s HS) as Hemp. unfold union_update.
  destruct (sketch_is_empty s) eqn:Ee.
  { (* empty source: ignored *)
    assert (scs = []) by (now apply Hemp). subst scs. cbn [is_nil negb app]. rewrite andb_false_r, orb_false_r.
    exists u. split; [reflexivity|assumption]. }
  assert (Hnn : scs <> []) by (intros E; apply Hemp in E; congruence).
  assert (Hnil : is_nil scs = false) by (destruct scs; [contradiction|reflexivity]).
  rewrite Hnil. cbn [negb]. rewrite andb_true_r.
  rewrite (src_is_array slg sarr scs s HS).
  pose proof HGI as (Hm & Hlm & Hl4 & Hle & Hcv & seen & Hsv & Hreq & HG & Hsp & Hne & Hna & Hha).
  pose proof HS as (Hsk & Hslg & Hscv & Hsm).
  assert (Hglg : sk_lgk (un_gadget u) = lg).
  { destruct (gsim_cases TT lg seen _ HG) as [(l & ds & Eg & _)|[(st & Eg & _)|(fed & a & Eg & _)]]; rewrite Eg; reflexivity. }
  assert (Hcv' : Forall valid (scs ++ cs)) by (apply Forall_app; split; assumption).
  assert (Hne' : scs ++ cs <> []) by (destruct scs; [contradiction|discriminate]).
  rewrite Hsk, Hglg. destruct sarr.
  - (* ---- array-mode source ---- *)
    rewrite orb_true_r. unfold update_from_array. destruct (sketch_is_empty (un_gadget u)) eqn:Eg.
    + (* empty gadget: copy or downsample *)
      destruct (gadget_empty lg_max harr lg cs u HGI Eg) as (-> & -> & -> & _).
      destruct (cod_spec slg scs s lg_max HS Hlm) as (a & fed & Hc & HR & Hfv & Hrq & _).
      rewrite Hm, Hc. cbn [obind]. eexists. split; [reflexivity|]. pose proof HR as (Hk & _). rewrite Hk.
      rewrite (N.min_comm lg_max slg). rewrite app_nil_r in *.
      apply (ginv_arr lg_max (N.min slg lg_max) scs fed a); try reflexivity; try assumption; lia.
    + destruct (gsim_cases TT lg seen _ HG) as [(l & ds & Egd & HL & Hlen & Hss)|[(st & Egd & Hst)|(fed & old & Egd & Hss & Hfv & _ & HR)]].
      * (* sparse (list) gadget: promote and merge *)
        rewrite Egd. cbn [sk_mode mode_is_array8]. unfold promote_gadget_and_merge_array. rewrite Egd. cbn [sk_mode].
        assert (Hh : harr = false) by (destruct harr; [specialize (Hha eq_refl); rewrite Egd in Hha; discriminate|reflexivity]).
        destruct (Hna Hh) as (-> & Hsc & _).
        destruct (cod_spec slg scs s lg_max HS Hlm) as (a & fed & Hc & HR & Hfv & Hrq & _).
        rewrite Hm, Hc. cbn [obind merge_coupons_into_mode mode_coupons]. rewrite (list_iter_inv l ds HL).
        eexists. split; [reflexivity|].
        assert (Hdv : Forall valid ds) by (apply (forall_valid_set ds seen); assumption).
        pose proof (rep8_fold hip hip_update (N.min slg lg_max) ds fed a (a8_est a) HR) as HR2.
        set (n2 := fold_left (a8_update hip_update) ds a) in *.
        assert (HR2' : R8 (N.min slg lg_max) (rev ds ++ fed) n2).
        { destruct HR2 as (A & B & C & _). unfold R8, Rep8. repeat split; assumption. }
        pose proof HR2' as (Hk2 & _). rewrite Hk2. rewrite (N.min_comm lg_max slg).
        apply (ginv_arr lg_max (N.min slg lg_max) (scs ++ cs) (rev ds ++ fed) n2); try reflexivity; try assumption; try lia.
        -- apply Forall_app. split; [now apply Forall_rev|assumption].
        -- eapply req_trans; [apply req_app_comm|]. apply req_app; [assumption|].
           eapply req_trans; [apply req_rev|]. apply req_same_set. intros c. rewrite (Hss c). apply Hsc.
      * (* sparse (set) gadget: promote and merge *)
        destruct Hst as (H8 & Hlg5 & Hlgm & HRs & Hl8 & Hload).
        rewrite Egd. cbn [sk_mode mode_is_array8]. unfold promote_gadget_and_merge_array. rewrite Egd. cbn [sk_mode].
        assert (Hh : harr = false) by (destruct harr; [specialize (Hha eq_refl); rewrite Egd in Hha; discriminate|reflexivity]).
        destruct (Hna Hh) as (-> & Hsc & _).
        destruct (cod_spec slg scs s lg_max HS Hlm) as (a & fed & Hc & HR & Hfv & Hrq & _).
        rewrite Hm, Hc. cbn [obind merge_coupons_into_mode mode_coupons].
        eexists. split; [reflexivity|].
        assert (Hit : same_set (set_iter st) seen) by (intros c; now apply (set_iter_In (hs_lg st) st seen)).
        assert (Hdv : Forall valid (set_iter st)) by (apply (forall_valid_set _ seen); assumption).
        pose proof (rep8_fold hip hip_update (N.min slg lg_max) (set_iter st) fed a (a8_est a) HR) as HR2.
        set (n2 := fold_left (a8_update hip_update) (set_iter st) a) in *.
        assert (HR2' : R8 (N.min slg lg_max) (rev (set_iter st) ++ fed) n2).
        { destruct HR2 as (A & B & C & _). unfold R8, Rep8. repeat split; assumption. }
        pose proof HR2' as (Hk2 & _). rewrite Hk2. rewrite (N.min_comm lg_max slg).
        apply (ginv_arr lg_max (N.min slg lg_max) (scs ++ cs) (rev (set_iter st) ++ fed) n2); try reflexivity; try assumption; try lia.
        -- apply Forall_app. split; [now apply Forall_rev|assumption].
        -- eapply req_trans; [apply req_app_comm|]. apply req_app; [assumption|].
           eapply req_trans; [apply req_rev|]. apply req_same_set. intros c. rewrite (Hit c). apply Hsc.
      * (* array gadget *)
        rewrite Egd. cbn [sk_mode mode_is_array8]. unfold merge_array_into_array_gadget. rewrite Egd. cbn [sk_mode sk_lgk].
        assert (Hrq : req lg fed cs) by (eapply req_trans; [apply req_same_set; exact Hss|exact Hreq]).
        destruct (N.ltb_spec slg lg) as [Hlt|Hge].
        -- (* the source has the smaller lg_k: the gadget shrinks *)
           destruct (merge_down_spec slg lg fed (mkSketch lg (MArr8 old)) [] (a8_new slg (hip_new slg))
                       (a8_src_ok lg fed old ltac:(lia) Hfv HR) (new_R8 slg) Hlt) as (n1 & H1 & HR1 & _).
           cbn [sk_mode] in H1. rewrite H1. cbn [obind].
           destruct (merge_same_spec slg scs s (fed ++ []) n1 HS HR1) as (n2 & H2 & HR2 & _).
           rewrite H2. cbn [obind]. eexists. split; [reflexivity|]. replace (N.min lg slg) with slg by lia.
           apply (ginv_arr lg_max slg (scs ++ cs) (scs ++ fed ++ []) n2); try reflexivity; try assumption; try lia.
           ++ apply Forall_app. split; [assumption|]. now rewrite app_nil_r.
           ++ rewrite app_nil_r. apply req_app; [apply req_refl|]. apply (req_fold slg lg); [lia|assumption].
        -- destruct (merge_into_spec lg slg scs s fed old HS HR Hge) as (r & Hr & HRr & _).
           rewrite Hr. cbn [obind]. eexists. split; [reflexivity|]. replace (N.min lg slg) with lg by lia.
           apply (ginv_arr lg_max lg (scs ++ cs) (scs ++ fed) r); try reflexivity; try assumption; try lia.
           ++ apply Forall_app. split; assumption.
           ++ apply req_app; [apply req_refl|assumption].
  - (* ---- list/set source ---- *)
    rewrite orb_false_r. destruct (src_coupons slg scs s HS) as (it & Hit & Hits & Hnd).
    assert (Hitv : Forall valid it) by (apply (forall_valid_set it scs); assumption).
    assert (Hitn : it <> []) by (intros ->; apply Hnn; now apply same_set_nil).
    unfold update_from_list_or_set. destruct (sketch_is_empty (un_gadget u) && (slg =? lg)) eqn:Efast.
    + (* empty gadget, same lg_k: clone as Hll8 *)
      apply andb_prop in Efast. destruct Efast as [Eg Elg]. apply N.eqb_eq in Elg.
      destruct (gadget_empty lg_max harr lg cs u HGI Eg) as (-> & -> & -> & _). rewrite Elg in *. clear Elg.
      assert (Hnew : exists g', (match sketch_tgt s with T8 => Ok s | _ => convert_coupon_mode_to_hll8 (sk_mode s) lg_max end) = Ok g' /\
                      GS AC lg_max scs g' /\ sk_tag g' <> TagArray).
      { destruct s as [k m]. cbn [sk_lgk sk_mode] in *. subst k. unfold sketch_tgt. cbn [sk_mode].
        destruct m as [l t|st t|a|a|a]; try (destruct Hsm; discriminate).
        - destruct Hsm as (_ & ds & HL & Hlen & Hss).
          exists (mkSketch lg_max (MList l T8)). split; [destruct t; reflexivity|].
          split; [apply (SimList hip AC lg_max T8 scs l ds); assumption|discriminate].
        - destruct Hsm as (_ & A & B & C & D & F & G).
          exists (mkSketch lg_max (MSet st T8)). split; [destruct t; reflexivity|].
          split; [apply SimSet; assumption|discriminate]. }
      destruct Hnew as (g' & Hg' & HGA & Htag). rewrite Hg'. cbn [obind]. eexists. split; [reflexivity|].
      rewrite app_nil_r. split; [exact Hm|]. split; [assumption|]. split; [lia|]. split; [lia|]. split; [assumption|].
      exists scs. cbn [un_gadget]. split; [assumption|]. split; [apply req_refl|].
      split; [apply (sim_weaken AC TT); [intros; exact I|assumption]|].
      split; [intros _ c; tauto|]. split; [intros _; assumption|]. split; [|discriminate].
      intros _. split; [reflexivity|]. split; [intros c; tauto|assumption].
    + (* otherwise the coupons are replayed into the gadget *)
      unfold merge_coupons_into_gadget. rewrite Hit. cbn [obind].
      destruct (gadget_feed lg_max harr lg cs u it HGI Hitv) as (g' & Hu & HGI' & _).
      rewrite Hu. cbn [obind]. rewrite Hm. eexists. split; [reflexivity|].
      apply (ginv_set lg_max harr lg (it ++ cs)); [now apply HGI'| |assumption].
      intros c. rewrite !in_app_iff, (Hits c). tauto.
Qed.

(* HllUnion::update_value (the item's coupon c) *)
Lemma union_value_step : forall lg_max harr lg cs u c, GInv lg_max harr lg cs u -> valid c ->
  exists u', union_update_value u c = Ok u' /\ GInv lg_max harr lg (c :: cs) u'.
Proof.
  intros lg_max harr lg cs u c HGI Hc. unfold union_update_value, hll_update.
  destruct (gadget_feed lg_max harr lg cs u [c] HGI (Forall_cons _ Hc (Forall_nil _))) as (g' & Hu & HGI' & _).
  cbn [update_all] in Hu. destruct (update_with_coupon hip_new hip_update hip_carry (un_gadget u) c) as [g1| |]; cbn [obind] in Hu; try discriminate.
  inversion Hu; subst g1. cbn [obind]. destruct HGI as (Hm & _). rewrite Hm. eexists. split; [reflexivity|].
  apply (HGI' ltac:(discriminate)).
Qed.

Lemma union_reset_step : forall lg_max harr lg cs u, GInv lg_max harr lg cs u ->
  exists u', union_reset u = Ok u' /\ GInv lg_max false lg_max [] u'.
Proof. intros lg_max harr lg cs u (Hm & Hlm & _). unfold union_reset. rewrite Hm. now apply ginv_new. Qed.

(* ---------- what the union shows ---------- *)
Definition union_shows (lg_max : N) (harr : bool) (lg : N) (cs : list N) (g : hsketch) : Prop :=
  sk_lgk g = lg /\ sk_tgt g = T8 /\
  (sk_tag g = TagArray <-> (harr = true \/ spec_mode lg_max (distinct cs) = TagArray)) /\
  (sk_tag g = TagArray -> forall j, j < 2 ^ lg -> sk_reg g j = Ok (spec_regs lg cs j)) /\
  (sk_tag g <> TagArray ->
     lg = lg_max /\ sk_tag g = spec_mode lg_max (distinct cs) /\ NoDup (sk_coupons g) /\
     (forall c, In c (sk_coupons g) <-> In c cs) /\ sk_len g = distinct cs).

Lemma ginv_shows : forall lg_max harr lg cs u, GInv lg_max harr lg cs u -> union_shows lg_max harr lg cs (un_gadget u).
Proof.
  intros lg_max harr lg cs u (Hm & Hlm & Hl4 & Hle & Hcv & seen & Hsv & Hreq & HG & Hsp & Hne & Hna & Hha).
  destruct harr.
  - specialize (Hha eq_refl).
    destruct (gsim_cases TT lg seen _ HG) as [(l & ds & Eg & _)|[(st & Eg & _)|(fed & a & Eg & Hss & Hfv & _ & HR)]];
      rewrite Eg in *; try discriminate.
    unfold union_shows, sk_tag, sk_tgt, sk_reg. cbn [sk_lgk sk_mode]. split; [reflexivity|]. split; [reflexivity|].
    split; [split; [intros _; now left|reflexivity]|]. split; [|intros H; exfalso; now apply H].
    intros _ j Hj. destruct HR as (_ & Hr & _). rewrite Hr. f_equal.
    rewrite <- (Hreq j). now apply spec_regs_set.
  - destruct (Hna eq_refl) as (-> & Hsc & HGA).
    pose proof (sim_abs hip lg_max T8 seen _ _ Hlm HGA) as Habs.
    apply (abs_ok_set hip lg_max T8 seen cs _ Hsc) in Habs. destruct Habs as (Hk & Ht & Htag & Hbody).
    unfold union_shows. split; [assumption|]. split; [assumption|]. split.
    + rewrite Htag. split; [now right|]. intros [H|H]; [discriminate|assumption].
    + split.
      * intros H. rewrite H in Hbody. assumption.
      * intros H. split; [reflexivity|]. split; [assumption|]. destruct (sk_tag (un_gadget u)); [assumption|assumption|contradiction].
Qed.

(* ---------- to_sketch ---------- *)
Lemma tosk_spec : forall lg_max harr lg cs u t, GInv lg_max harr lg cs u ->
  exists r, union_to_sketch u t = Ok r /\ sk_tgt r = t /\
    SrcOK lg (match sk_tag (un_gadget u) with TagArray => true | _ => false end) cs r /\
    sk_tag r = sk_tag (un_gadget u) /\ sk_len r = sk_len (un_gadget u) /\
    sk_est_inputs r = sk_est_inputs (un_gadget u).
Proof.
  intros lg_max harr lg cs u t (Hm & Hlm & Hl4 & Hle & Hcv & seen & Hsv & Hreq & HG & Hsp & Hne & Hna & Hha).
  assert (Hlg : 4 <= lg <= 21) by lia.
  unfold union_to_sketch.
  destruct (gsim_cases TT lg seen _ HG) as [(l & ds & Eg & HL & Hlen & Hss)|[(st & Eg & H8 & H5 & H3 & HRs & Hl8 & Hld)|(fed & a & Eg & Hss & Hfv & _ & HR)]];
    rewrite Eg in *; unfold sketch_tgt, sk_tag, sk_tgt, sk_len, sk_est_inputs in *; cbn [sk_mode sk_lgk] in *.
  - specialize (Hsp ltac:(discriminate)).
    exists (mkSketch lg (MList l t)). split; [destruct t; reflexivity|]. cbn [sk_mode sk_lgk]. split; [reflexivity|].
    split; [|repeat split; reflexivity]. unfold SrcOK. cbn [sk_mode sk_lgk]. split; [reflexivity|]. split; [assumption|].
    split; [assumption|]. split; [reflexivity|]. exists ds. split; [assumption|]. split; [assumption|].
    intros c. rewrite (Hss c). apply Hsp.
  - specialize (Hsp ltac:(discriminate)).
    exists (mkSketch lg (MSet st t)). split; [destruct t; reflexivity|]. cbn [sk_mode sk_lgk]. split; [reflexivity|].
    split; [|repeat split; reflexivity]. unfold SrcOK. cbn [sk_mode sk_lgk]. split; [reflexivity|]. split; [assumption|].
    split; [assumption|]. split; [reflexivity|]. split; [assumption|]. split; [assumption|]. split; [assumption|].
    split; [|split; assumption]. destruct HRs as (A & B & C & D). split; [assumption|]. split; [assumption|]. split; [assumption|].
    intros c. rewrite (D c). apply Hsp.
  - assert (Hrq : req lg fed cs) by (eapply req_trans; [apply req_same_set; exact Hss|exact Hreq]).
    pose proof (a8_values_regs lg fed a HR) as Hvals. pose proof HR as (Hk8 & Hr8 & Hz8 & _).
    set (vals := map (spec_regs lg fed) (Nseq 0 (N.to_nat (2 ^ lg)))) in *.
    assert (Hcv63 : Forall (fun v => v <= 63) vals) by (now apply regs_vals_le63).
    assert (Hcan : Forall valid (canon 0 vals)) by (now apply canon_valid).
    assert (Hcrq : req lg (rev (canon 0 vals)) cs) by (eapply req_trans; [apply canon_req; lia|exact Hrq]).
    destruct t.
    + (* Hll4 *)
      unfold convert_array8_to_type. rewrite Hvals, a4_fill_fold.
      destruct (rep4_fold hip hip_update lg (canon 0 vals) [] _ _ Hlg Hcan (Forall_nil _) (rep4_new hip lg (hip_new lg)))
        as (a4 & Hall & HR4).
      rewrite Hall. cbn [obind]. rewrite app_nil_r in HR4. eexists. split; [reflexivity|]. cbn [sk_mode sk_lgk].
      split; [reflexivity|]. pose proof (rep4_unhit hip lg _ a4 _ HR4) as Hun. destruct HR4 as ((Hk4 & HC4 & Hn4) & Hpos & _).
      split; [|split; [reflexivity|split; [reflexivity|]]].
      * unfold SrcOK. cbn [sk_mode sk_lgk]. split; [reflexivity|]. split; [assumption|]. split; [assumption|].
        split; [reflexivity|]. split; [|assumption].
        apply (inv4_ext hip lg (spec_regs lg (rev (canon 0 vals)))); [intros j _; apply Hcrq|].
        split; [assumption|]. split; assumption.
      * cbn [a4_est a4_cur_min a4_num]. rewrite Hun, Hz8. do 2 f_equal. apply req_zeros.
        eapply req_trans; [apply canon_req; lia|apply req_refl].
    + (* Hll6 *)
      unfold convert_array8_to_type. rewrite Hvals, (a6_fill_fold vals _ 0 Hcv63).
      pose proof (rep6_fold hip hip_update lg (canon 0 vals) [] _ _ Hcan (Forall_nil _) (rep6_new hip lg (hip_new lg))) as HR6.
      rewrite app_nil_r in HR6. destruct HR6 as (Hk6 & W6 & Hr6 & Hz6 & _).
      eexists. split; [reflexivity|]. cbn [sk_mode sk_lgk]. split; [reflexivity|].
      split; [|split; [reflexivity|split; [reflexivity|]]].
      * unfold SrcOK. cbn [sk_mode sk_lgk]. split; [reflexivity|]. split; [assumption|]. split; [assumption|].
        split; [reflexivity|]. unfold a6_get in *. cbn [a6_lgk a6_bytes a6_nz]. split; [assumption|]. split; [assumption|]. split.
        -- intros j Hj. rewrite Hr6 by assumption. apply Hcrq.
        -- rewrite Hz6. now apply req_zeros.
      * cbn [a6_est a6_nz]. rewrite Hz6, Hz8. do 2 f_equal. apply req_zeros. apply canon_req. lia.
    + (* Hll8: the gadget itself *)
      exists (mkSketch lg (MArr8 a)). split; [reflexivity|]. cbn [sk_mode sk_lgk]. split; [reflexivity|].
      split; [|repeat split; reflexivity]. unfold SrcOK. cbn [sk_mode sk_lgk]. split; [reflexivity|]. split; [assumption|].
      split; [assumption|]. split; [reflexivity|]. split; [assumption|]. split.
      * intros j. rewrite Hr8. apply Hrq.
      * rewrite Hz8. now apply req_zeros.
Qed.

Lemma mode_tag_array_dec : forall t : mode_tag, {t = TagArray} + {t <> TagArray}.
Proof. intros []; [right|right|left]; congruence. Qed.

(* ================= the theorems of C03 ================= *)
(* an abstract input: lg_k, array-mode flag, the coupon list it represents *)
Record ainput := mkIn { in_lgk : N; in_arr : bool; in_cs : list N }.
Definition in_active (i : ainput) : bool := in_arr i && negb (is_nil (in_cs i)).   (* non-empty array-mode input *)

(* operations on a union, each carrying the abstract meaning of its argument *)
Inductive uop :=
| UMerge (i : ainput) (s : hsketch)      (* update(&s), s represents i *)
| UValue (c : N)                         (* update_value(item), c = the item's coupon *)
| UReset.

Definition uop_ok (o : uop) : Prop :=
  match o with
  | UMerge i s => SrcOK (in_lgk i) (in_arr i) (in_cs i) s
  | UValue c => valid c
  | UReset => True
  end.

Definition uop_run (u : hunion) (o : uop) : outcome hunion :=
  match o with UMerge _ s => union_update u s | UValue c => union_update_value u c | UReset => union_reset u end.

Fixpoint uops_run (ops : list uop) (u : hunion) : outcome hunion :=
  match ops with [] => Ok u | o :: r => obind (uop_run u o) (uops_run r) end.

(* the Spec: (some non-empty array-mode input merged, lg_k, all coupons) since the last reset *)
Definition sstate : Type := (bool * N * list N)%type.
Definition spec_step (lg_max : N) (st : sstate) (o : uop) : sstate :=
  let '(harr, lg, cs) := st in
  match o with
  | UMerge i _ => (harr || in_active i, if in_active i then N.min lg (in_lgk i) else lg, in_cs i ++ cs)
  | UValue c => (harr, lg, c :: cs)
  | UReset => (false, lg_max, [])
  end.
Definition spec_run (lg_max : N) (ops : list uop) (st : sstate) : sstate := fold_left (spec_step lg_max) ops st.

Lemma uops_refine : forall lg_max ops harr lg cs u, Forall uop_ok ops -> GInv lg_max harr lg cs u ->
  exists u', uops_run ops u = Ok u' /\
    let '(harr', lg', cs') := spec_run lg_max ops (harr, lg, cs) in GInv lg_max harr' lg' cs' u'.
Proof.
  intros lg_max. induction ops as [|o r IH]; intros harr lg cs u Hok HG; cbn [uops_run spec_run fold_left].
  - exists u. split; [reflexivity|assumption].
  - inversion Hok as [|? ? Ho Hr]; subst. destruct o as [i s|c|]; cbn [uop_run spec_step uop_ok] in *.
    + destruct (union_step lg_max harr lg cs u _ _ _ s HG Ho) as (u1 & Hu & HG1). rewrite Hu. cbn [obind].
      apply (IH _ _ _ u1 Hr HG1).
    + destruct (union_value_step lg_max harr lg cs u c HG Ho) as (u1 & Hu & HG1). rewrite Hu. cbn [obind].
      apply (IH _ _ _ u1 Hr HG1).
    + destruct (union_reset_step lg_max harr lg cs u HG) as (u1 & Hu & HG1). rewrite Hu. cbn [obind].
      apply (IH _ _ _ u1 Hr HG1).
Qed.

(* union_refines (with update_value and reset interleaved): never stuck, and the gadget shows the
   Spec state: coupon-set union while sparse, per-slot maximum at the folded lg_k otherwise *)
Theorem union_refines : forall lg_max ops, 4 <= lg_max <= 21 -> Forall uop_ok ops ->
  exists u0 u, union_new lg_max = Ok u0 /\ uops_run ops u0 = Ok u /\
    let '(harr, lg, cs) := spec_run lg_max ops (false, lg_max, []) in
    union_shows lg_max harr lg cs (un_gadget u) /\ un_lg_max u = lg_max.
Proof.
  intros lg_max ops Hlm Hok. destruct (ginv_new lg_max Hlm) as (u0 & Hn & HG0).
  destruct (uops_refine lg_max ops false lg_max [] u0 Hok HG0) as (u & Hr & HG).
  exists u0, u. split; [assumption|]. split; [assumption|].
  destruct (spec_run lg_max ops (false, lg_max, [])) as [[harr lg] cs].
  split; [now apply ginv_shows|]. now destruct HG.
Qed.

(* ---------- order and repetition of the inputs do not matter ---------- *)
Definition merges (l : list (ainput * hsketch)) : list uop := map (fun p => UMerge (fst p) (snd p)) l.

Definition sp_harr (ins : list ainput) : bool := existsb in_active ins.
Fixpoint sp_lg (lg_max : N) (ins : list ainput) : N :=
  match ins with [] => lg_max | i :: r => if in_active i then N.min (sp_lg lg_max r) (in_lgk i) else sp_lg lg_max r end.
Definition sp_cs (ins : list ainput) : list N := concat (map in_cs ins).

Definition st_harr (st : sstate) : bool := fst (fst st).
Definition st_lg (st : sstate) : N := snd (fst st).
Definition st_cs (st : sstate) : list N := snd st.

Lemma spec_run_merges : forall lg_max l harr lg cs,
  let st := spec_run lg_max (merges l) (harr, lg, cs) in
  st_harr st = harr || sp_harr (map fst l) /\ st_lg st <= lg /\
  (forall x, st_lg st <= x <-> lg <= x \/ exists i, In i (map fst l) /\ in_active i = true /\ in_lgk i <= x) /\
  same_set (st_cs st) (sp_cs (map fst l) ++ cs).
Proof.
  intros lg_max. induction l as [|[i s] r IH]; intros harr lg cs.
  - cbn [merges map spec_run fold_left st_harr st_lg st_cs fst snd sp_harr existsb sp_cs concat app].
    rewrite orb_false_r. split; [reflexivity|]. split; [lia|].
    split; [|intros c; tauto]. intros x. split; [tauto|]. intros [H|(i & [] & _)]. assumption.
  - change (spec_run lg_max (merges ((i, s) :: r)) (harr, lg, cs))
      with (spec_run lg_max (merges r) (harr || in_active i, (if in_active i then N.min lg (in_lgk i) else lg), in_cs i ++ cs)).
    specialize (IH (harr || in_active i) (if in_active i then N.min lg (in_lgk i) else lg) (in_cs i ++ cs)).
    cbv zeta in *. set (st := spec_run lg_max (merges r) _) in *. clearbody st.
    destruct IH as (Hh & Hle & Hchar & Hcs). cbn [map fst]. split; [|split; [|split]].
    + rewrite Hh. unfold sp_harr. cbn [existsb]. now rewrite orb_assoc.
    + destruct (in_active i); lia.
    + intros x. rewrite Hchar. cbn [In]. split.
      * intros [H|(j & Hj & Ha & Hx)].
        -- destruct (in_active i) eqn:Ea; [|now left]. destruct (N.le_gt_cases lg x); [now left|].
           right. exists i. split; [now left|]. split; [assumption|lia].
        -- right. exists j. split; [now right|]. now split.
      * intros [H|(j & [<-|Hj] & Ha & Hx)].
        -- left. destruct (in_active i); lia.
        -- left. rewrite Ha. lia.
        -- right. exists j. now split.
    + intros c. rewrite (Hcs c). unfold sp_cs. cbn [map concat]. rewrite !in_app_iff. tauto.
Qed.

Lemma existsb_set : forall (f : ainput -> bool) a b, (forall i, In i a <-> In i b) -> existsb f a = existsb f b.
Proof.
  intros f a b H. destruct (existsb f a) eqn:Ea; symmetry.
  - apply existsb_exists in Ea. destruct Ea as (i & Hi & Hf). apply existsb_exists. exists i. split; [now apply H|assumption].
  - destruct (existsb f b) eqn:Eb; [|reflexivity]. apply existsb_exists in Eb. destruct Eb as (i & Hi & Hf).
    assert (existsb f a = true) by (apply existsb_exists; exists i; split; [now apply H|assumption]). congruence.
Qed.

Lemma sp_cs_set : forall a b, (forall i, In i a <-> In i b) -> same_set (sp_cs a) (sp_cs b).
Proof.
  intros a b H c. unfold sp_cs. rewrite !in_concat. split; intros (l & Hl & Hc); apply in_map_iff in Hl;
    destruct Hl as (i & <- & Hi); exists (in_cs i); (split; [apply in_map; now apply H|assumption]).
Qed.

(* two unions fed sketches of the same SET of abstract inputs (any order, any repetition, any
   concrete representation of each input) show the same state *)
Theorem union_order_independent : forall lg_max l l', 4 <= lg_max <= 21 ->
  Forall uop_ok (merges l) -> Forall uop_ok (merges l') ->
  (forall i, In i (map fst l) <-> In i (map fst l')) ->
  exists u0 u u', union_new lg_max = Ok u0 /\ uops_run (merges l) u0 = Ok u /\ uops_run (merges l') u0 = Ok u' /\
    sk_lgk (un_gadget u) = sk_lgk (un_gadget u') /\ sk_tag (un_gadget u) = sk_tag (un_gadget u') /\
    sk_len (un_gadget u) = sk_len (un_gadget u') /\
    (forall c, In c (sk_coupons (un_gadget u)) <-> In c (sk_coupons (un_gadget u'))) /\
    (forall j, j < 2 ^ sk_lgk (un_gadget u) -> sk_reg (un_gadget u) j = sk_reg (un_gadget u') j).
Proof.
  intros lg_max l l' Hlm Hok Hok' Hset.
  destruct (union_refines lg_max (merges l) Hlm Hok) as (u0 & u & Hn & Hr & Hsh).
  destruct (union_refines lg_max (merges l') Hlm Hok') as (u0' & u' & Hn' & Hr' & Hsh').
  assert (u0' = u0) by congruence. subst u0'. exists u0, u, u'. split; [assumption|]. split; [assumption|]. split; [assumption|].
  pose proof (spec_run_merges lg_max l false lg_max []) as S. pose proof (spec_run_merges lg_max l' false lg_max []) as S'.
  cbv zeta in S, S'. unfold st_harr, st_lg, st_cs in S, S'.
  destruct (spec_run lg_max (merges l) (false, lg_max, [])) as [[harr lg] cs].
  destruct (spec_run lg_max (merges l') (false, lg_max, [])) as [[harr' lg'] cs'].
  cbn [fst snd] in S, S'.
  destruct S as (Hh & _ & Hch & Hcs), S' as (Hh' & _ & Hch' & Hcs').
  destruct Hsh as ((Hk & _ & Htag & Harr & Hsp) & _), Hsh' as ((Hk' & _ & Htag' & Harr' & Hsp') & _).
  assert (Eh : harr = harr') by (rewrite Hh, Hh'; cbn [orb]; unfold sp_harr; now apply existsb_set).
  assert (El : lg = lg').
  { apply N.le_antisymm.
    - apply Hch. destruct (proj1 (Hch' lg') (N.le_refl _)) as [H|(i & Hi & Ha & Hx)]; [now left|].
      right. exists i. split; [now apply Hset|]. now split.
    - apply Hch'. destruct (proj1 (Hch lg) (N.le_refl _)) as [H|(i & Hi & Ha & Hx)]; [now left|].
      right. exists i. split; [now apply Hset|]. now split. }
  assert (Ec : same_set cs cs').
  { intros c. rewrite (Hcs c), (Hcs' c), !app_nil_r. now apply sp_cs_set. }
  rewrite <- Eh, <- El in *. rewrite Hk, Hk'. split; [reflexivity|].
  assert (Ed : distinct cs = distinct cs') by (now apply distinct_set).
  assert (Et : sk_tag (un_gadget u) = TagArray <-> sk_tag (un_gadget u') = TagArray) by (rewrite Htag, Htag', Ed; tauto).
  destruct (mode_tag_array_dec (sk_tag (un_gadget u))) as [Ha|Hna].
  - pose proof (proj1 Et Ha) as Ha'. split; [congruence|].
    assert (Hshape : forall g : hsketch, sk_tag g = TagArray -> sk_len g = 0 /\ sk_coupons g = []).
    { intros g. unfold sk_tag, sk_len, sk_coupons. destruct (sk_mode g); try discriminate; intros _; split; reflexivity. }
    destruct (Hshape _ Ha) as (L1 & C1), (Hshape _ Ha') as (L2 & C2). rewrite L1, L2, C1, C2.
    split; [reflexivity|]. split; [tauto|]. intros j Hj. rewrite (Harr Ha j Hj), (Harr' Ha' j Hj). f_equal.
    now apply spec_regs_set.
  - assert (Hna' : sk_tag (un_gadget u') <> TagArray) by (intros H; apply Hna; now apply Et).
    destruct (Hsp Hna) as (_ & T1 & _ & C1 & L1), (Hsp' Hna') as (_ & T2 & _ & C2 & L2).
    split; [congruence|]. split; [congruence|]. split; [intros c; rewrite (C1 c), (C2 c); apply Ec|].
    intros j _. unfold sk_tag, sk_reg in *. destruct (sk_mode (un_gadget u)), (sk_mode (un_gadget u')); try reflexivity;
      try (exfalso; apply Hna; reflexivity); try (exfalso; apply Hna'; reflexivity).
Qed.

(* ---------- what a source sketch shows ---------- *)
Lemma src_shows : forall lgk arrf cs s, SrcOK lgk arrf cs s ->
  sk_lgk s = lgk /\ (sk_tag s = TagArray <-> arrf = true) /\
  (arrf = true -> forall j, j < 2 ^ lgk -> sk_reg s j = Ok (spec_regs lgk cs j)) /\
  (arrf = false -> NoDup (sk_coupons s) /\ (forall c, In c (sk_coupons s) <-> In c cs) /\ sk_len s = distinct cs).
Proof.
  intros lgk arrf cs s HS. pose proof HS as (Hk & Hlg & Hv & Hm). split; [assumption|].
  unfold sk_tag, sk_reg, sk_coupons, sk_len. destruct (sk_mode s) as [l t|st t|a|a|a].
  - destruct Hm as (-> & ds & HL & Hlen & Hss). split; [split; discriminate|]. split; [discriminate|]. intros _.
    rewrite (list_iter_inv l ds HL). pose proof HL as (_ & Hl & Hnd & _). split; [assumption|]. split; [assumption|].
    rewrite Hl. now apply NoDup_card.
  - destruct Hm as (-> & _ & _ & _ & HR & _). split; [split; discriminate|]. split; [discriminate|]. intros _.
    split; [now apply (set_iter_NoDup (hs_lg st) st cs)|]. split; [intros c; now apply (set_iter_In (hs_lg st) st cs)|].
    now apply (set_card (hs_lg st)).
  - destruct Hm as (-> & HI & _). split; [split; reflexivity|]. split; [|discriminate]. intros _ j Hj.
    apply (a4_get_regs hip (fun _ _ _ x => x) lgk _ a j HI Hj).
  - destruct Hm as (-> & _ & _ & Hr & _). split; [split; reflexivity|]. split; [|discriminate]. intros _ j Hj. now rewrite Hr.
  - destruct Hm as (-> & _ & Hr & _). split; [split; reflexivity|]. split; [|discriminate]. intros _ j _. now rewrite Hr.
Qed.

(* to_sketch(t): the result does not depend on t -- same lg_k, mode, coupon set / registers, and
   the same estimator inputs (HIP accumulator, kxq0, kxq1, out-of-order flag, unhit count), hence
   the same estimate and bounds (the repaired defect D2); and it is a well-formed source sketch
   representing exactly the union's Spec state, so unions compose *)
Theorem to_sketch_type_independent : forall lg_max ops t, 4 <= lg_max <= 21 -> Forall uop_ok ops ->
  exists u0 u r r8, union_new lg_max = Ok u0 /\ uops_run ops u0 = Ok u /\
    union_to_sketch u t = Ok r /\ union_to_sketch u T8 = Ok r8 /\ sk_tgt r = t /\
    sk_lgk r = sk_lgk r8 /\ sk_tag r = sk_tag r8 /\ sk_len r = sk_len r8 /\
    sk_est_inputs r = sk_est_inputs r8 /\
    (forall c, In c (sk_coupons r) <-> In c (sk_coupons r8)) /\
    (forall j, j < 2 ^ sk_lgk r -> sk_reg r j = sk_reg r8 j) /\
    let '(harr, lg, cs) := spec_run lg_max ops (false, lg_max, []) in
    SrcOK lg (match sk_tag (un_gadget u) with TagArray => true | _ => false end) cs r.
Proof.
  intros lg_max ops t Hlm Hok. destruct (ginv_new lg_max Hlm) as (u0 & Hn & HG0).
  destruct (uops_refine lg_max ops false lg_max [] u0 Hok HG0) as (u & Hr & HG).
  destruct (spec_run lg_max ops (false, lg_max, [])) as [[harr lg] cs].
  destruct (tosk_spec lg_max harr lg cs u t HG) as (r & Ht & Htt & HS & Htag & Hlen & Hest).
  destruct (tosk_spec lg_max harr lg cs u T8 HG) as (r8 & Ht8 & _ & HS8 & Htag8 & Hlen8 & Hest8).
  exists u0, u, r, r8. split; [assumption|]. split; [assumption|]. split; [assumption|]. split; [assumption|]. split; [assumption|].
  destruct (src_shows _ _ _ _ HS) as (Hk & Hta & Hregs & Hcoup). destruct (src_shows _ _ _ _ HS8) as (Hk8 & Hta8 & Hregs8 & Hcoup8).
  split; [congruence|]. split; [congruence|]. split; [congruence|]. split; [congruence|]. split; [|split; [|assumption]].
  - destruct (sk_tag (un_gadget u)) eqn:Eg.
    + destruct (Hcoup eq_refl) as (_ & A & _), (Hcoup8 eq_refl) as (_ & B & _). intros c. now rewrite A, B.
    + destruct (Hcoup eq_refl) as (_ & A & _), (Hcoup8 eq_refl) as (_ & B & _). intros c. now rewrite A, B.
    + unfold sk_tag, sk_coupons in *. destruct (sk_mode r), (sk_mode r8); try discriminate; intros c; tauto.
  - intros j Hj. rewrite Hk in Hj. destruct (sk_tag (un_gadget u)) eqn:Eg.
    + unfold sk_tag, sk_reg in *. destruct (sk_mode r), (sk_mode r8); try discriminate; reflexivity.
    + unfold sk_tag, sk_reg in *. destruct (sk_mode r), (sk_mode r8); try discriminate; reflexivity.
    + now rewrite (Hregs eq_refl j Hj), (Hregs8 eq_refl j Hj).
Qed.

(* ---------- the out-of-order flag of a source reaches the gadget (the repaired defect D3) ---------- *)
Lemma union_step_ooo : forall lg_max harr lg cs u slg scs s se u',
  GInv lg_max harr lg cs u -> SrcOK slg true scs s -> scs <> [] ->
  mode_est (sk_mode s) = Ok se -> h_ooo se = true -> union_update u s = Ok u' ->
  exists a, sk_mode (un_gadget u') = MArr8 a /\ h_ooo (a8_est a) = true.
Proof.
  intros lg_max harr lg cs u slg scs s se u' HGI HS Hnn Hse Hooo Hup.
  pose proof (src_is_empty slg true scs s HS) as Hemp. unfold union_update in Hup.
  destruct (sketch_is_empty s) eqn:Ee; [exfalso; apply Hnn; now apply Hemp|].
  rewrite (src_is_array slg true scs s HS) in Hup.
  pose proof HGI as (Hm & Hlm & Hl4 & Hle & Hcv & seen & Hsv & Hreq & HG & Hsp & Hne & Hna & Hha).
  pose proof HS as (Hsk & Hslg & Hscv & Hsm).
  assert (Hglg : sk_lgk (un_gadget u) = lg).
  { destruct (gsim_cases TT lg seen _ HG) as [(l & ds & Eg & _)|[(st & Eg & _)|(fed & a & Eg & _)]]; rewrite Eg; reflexivity. }
  rewrite Hsk, Hglg in Hup. unfold update_from_array in Hup.
  destruct (cod_spec slg scs s lg_max HS Hlm) as (a & fed & Hc & HR & Hfv & Hrq & Ho). specialize (Ho se Hse Hooo).
  destruct (sketch_is_empty (un_gadget u)) eqn:Eg.
  - rewrite Hm, Hc in Hup. cbn [obind] in Hup. inversion Hup; subst u'. cbn [un_gadget sk_mode]. now exists a.
  - destruct (gsim_cases TT lg seen _ HG) as [(l & ds & Egd & _)|[(st & Egd & _)|(fed0 & old & Egd & Hss & Hfv0 & _ & HR0)]];
      rewrite Egd in Hup; cbn [sk_mode mode_is_array8] in Hup.
    + unfold promote_gadget_and_merge_array in Hup. rewrite Hm, Hc, Egd in Hup.
      cbn [obind merge_coupons_into_mode mode_coupons sk_mode] in Hup. inversion Hup; subst u'. cbn [un_gadget sk_mode].
      eexists. split; [reflexivity|]. now rewrite fold_a8_update_ooo.
    + unfold promote_gadget_and_merge_array in Hup. rewrite Hm, Hc, Egd in Hup.
      cbn [obind merge_coupons_into_mode mode_coupons sk_mode] in Hup. inversion Hup; subst u'. cbn [un_gadget sk_mode].
      eexists. split; [reflexivity|]. now rewrite fold_a8_update_ooo.
    + unfold merge_array_into_array_gadget in Hup. rewrite Egd in Hup. cbn [sk_mode sk_lgk] in Hup.
      destruct (N.ltb_spec slg lg) as [Hlt|Hge].
      * destruct (merge_down_spec slg lg fed0 (mkSketch lg (MArr8 old)) [] (a8_new slg (hip_new slg))
                    (a8_src_ok lg fed0 old ltac:(lia) Hfv0 HR0) (new_R8 slg) Hlt) as (n1 & H1 & HR1 & _).
        cbn [sk_mode] in H1. rewrite H1 in Hup. cbn [obind] in Hup.
        destruct (merge_same_spec slg scs s (fed0 ++ []) n1 HS HR1) as (n2 & H2 & _ & Ho2).
        rewrite H2 in Hup. cbn [obind] in Hup. inversion Hup; subst u'. cbn [un_gadget sk_mode]. now exists n2.
      * destruct (merge_into_spec lg slg scs s fed0 old HS HR0 Hge) as (r & Hr & _ & Hor).
        rewrite Hr in Hup. cbn [obind] in Hup. inversion Hup; subst u'. cbn [un_gadget sk_mode]. now exists r.
Qed.

(* full statement (not proved: needs positivity of a sum of binary64 HIP increments):
     union_nonzero : some merged input is non-empty -> the gadget's estimate is > 0.
   Proved part: after ANY operations, merging a non-empty out-of-order array-mode sketch leaves an
   out-of-order Array8 gadget, i.e. the estimate is the composite estimate of a non-empty register
   file and never the zeroed HIP accumulator of the source. *)
Theorem union_nonzero_partial : forall lg_max ops i s se, 4 <= lg_max <= 21 -> Forall uop_ok ops ->
  uop_ok (UMerge i s) -> in_active i = true -> mode_est (sk_mode s) = Ok se -> h_ooo se = true ->
  exists u0 u u' a, union_new lg_max = Ok u0 /\ uops_run ops u0 = Ok u /\ union_update u s = Ok u' /\
    sk_mode (un_gadget u') = MArr8 a /\ h_ooo (a8_est a) = true /\ a8_nz a < 2 ^ a8_lgk a.
Proof.
  intros lg_max ops i s se Hlm Hok Hs Hact Hse Hooo. destruct (ginv_new lg_max Hlm) as (u0 & Hn & HG0).
  destruct (uops_refine lg_max ops false lg_max [] u0 Hok HG0) as (u & Hr & HG).
  destruct (spec_run lg_max ops (false, lg_max, [])) as [[harr lg] cs]. cbn [uop_ok] in Hs.
  unfold in_active in Hact. apply andb_prop in Hact. destruct Hact as [Ha Hn0]. rewrite Ha in Hs.
  assert (Hnn : in_cs i <> []) by (destruct (in_cs i); [discriminate|discriminate]).
  destruct (union_step lg_max harr lg cs u _ _ _ s HG Hs) as (u' & Hu & HG').
  destruct (union_step_ooo lg_max harr lg cs u _ _ s se u' HG Hs Hnn Hse Hooo Hu) as (a & Hma & Hoa).
  exists u0, u, u', a. split; [assumption|]. split; [assumption|]. split; [assumption|]. split; [assumption|]. split; [assumption|].
  match type of HG' with GInv _ _ ?l _ _ => set (lg' := l) in * end. clearbody lg'.
  destruct HG' as (_ & _ & _ & _ & Hcv' & seen & Hsv & Hreq & HGs & _ & Hne & _).
  destruct (gsim_cases TT lg' seen _ HGs) as [(l & ds & Eg & _)|[(st & Eg & _)|(fed & a' & Eg & Hss & Hfv & _ & HR)]];
    rewrite Eg in Hma; cbn [sk_mode] in Hma; try discriminate. inversion Hma; subst a'.
  destruct HR as (Hk & _ & Hz & _). rewrite Hk, Hz.
  assert (Hfn : fed <> []).
  { intros ->. unfold sk_tag in Hne. rewrite Eg in Hne. cbn [sk_mode] in Hne. apply (Hne eq_refl).
    apply (req_nil_valid lg' _ Hcv'). eapply req_trans; [|exact Hreq]. now apply req_same_set. }
  destruct fed as [|c r]; [contradiction|]. inversion Hfv as [|? ? Hc _].
  apply (zeros_lt_of_coupon lg' (c :: r) c (or_introl eq_refl) Hc).
Qed.

(* ---------- sketches built in-process (and their out-of-order copies) are well-formed sources ---------- *)
Definition tag_flag (t : mode_tag) : bool := match t with TagArray => true | _ => false end.

Lemma sim_src_ok : forall (ao : N -> list N -> Prop) lgk t seen (s s8 : hsketch), 4 <= lgk <= 21 -> Forall valid seen ->
  Sim hip ao lgk t seen s s8 -> SrcOK lgk (tag_flag (sk_tag s)) seen s.
Proof.
  intros ao lgk t seen s s8 Hlg Hv HS.
  destruct HS as [l ds HL Hlen Hss|st A B C HR F G|fed e m m8 Hf Hfv Ha HR HR8]; unfold SrcOK, sk_tag; cbn [sk_lgk sk_mode tag_flag].
  - split; [reflexivity|]. split; [assumption|]. split; [assumption|]. split; [reflexivity|]. exists ds.
    split; [assumption|]. split; assumption.
  - split; [reflexivity|]. split; [assumption|]. split; [assumption|]. split; [reflexivity|]. split; [assumption|].
    split; [assumption|]. split; [assumption|]. split; [assumption|]. split; assumption.
  - assert (Hrq : req lgk fed seen) by (now apply req_same_set).
    destruct t, m; cbn [RepT] in HR; try contradiction; cbn [tag_flag].
    + destruct HR as (HI & Hpos & _). split; [reflexivity|]. split; [assumption|]. split; [assumption|]. split; [reflexivity|].
      split; [|assumption]. apply (inv4_ext hip lgk (spec_regs lgk fed)); [intros j _; apply Hrq|assumption].
    + destruct HR as (Hk & W & Hr & Hz & _). split; [reflexivity|]. split; [assumption|]. split; [assumption|]. split; [reflexivity|].
      split; [assumption|]. split; [assumption|]. split; [intros j Hj; rewrite Hr by assumption; apply Hrq|rewrite Hz; now apply req_zeros].
    + destruct HR as (Hk & Hr & Hz & _). split; [reflexivity|]. split; [assumption|]. split; [assumption|]. split; [reflexivity|].
      split; [assumption|]. split; [intros j; rewrite Hr; apply Hrq|rewrite Hz; now apply req_zeros].
Qed.

Lemma src_ok_set : forall lgk arrf cs cs' s, same_set cs cs' -> Forall valid cs' -> SrcOK lgk arrf cs s -> SrcOK lgk arrf cs' s.
Proof.
  intros lgk arrf cs cs' s Hss Hv' (Hk & Hlg & Hv & Hm). pose proof (req_same_set lgk cs cs' Hss) as Hrq.
  split; [assumption|]. split; [assumption|]. split; [assumption|]. destruct (sk_mode s) as [l t|st t|a|a|a].
  - destruct Hm as (E & ds & HL & Hlen & Hd). split; [assumption|]. exists ds. split; [assumption|]. split; [assumption|].
    intros c. rewrite (Hd c). apply Hss.
  - destruct Hm as (E & A & B & C & (R1 & R2 & R3 & R4) & F & G). repeat (split; [assumption|]). split; [|split; assumption].
    split; [assumption|]. split; [assumption|]. split; [assumption|]. intros c. rewrite (R4 c). apply Hss.
  - destruct Hm as (E & HI & Hpos). split; [assumption|]. split; [|assumption].
    apply (inv4_ext hip lgk (spec_regs lgk cs)); [intros j _; apply Hrq|assumption].
  - destruct Hm as (E & Hk6 & W & Hr & Hz). split; [assumption|]. split; [assumption|]. split; [assumption|].
    split; [intros j Hj; rewrite Hr by assumption; apply Hrq|rewrite Hz; now apply req_zeros].
  - destruct Hm as (E & Hk8 & Hr & Hz). repeat (split; [assumption|]). split; [intros j; rewrite Hr; apply Hrq|rewrite Hz; now apply req_zeros].
Qed.

(* ---------- a well-formed source under further updates ----------
   Every SrcOK sketch (built in-process, produced by to_sketch, or accepted by the reader and
   canonical: see HllCodecProofs.wf_src_ok) is in the lock-step invariant of C02 with an Hll8 twin,
   so everything proved there about update steps applies to it, not only to fresh sketches. *)
Lemma src_sim : forall (ao : N -> list N -> Prop) lgk arrf cs s, SrcOK lgk arrf cs s -> (arrf = true -> ao lgk cs) ->
  exists s8, Sim hip ao lgk (sk_tgt s) cs s s8.
Proof.
  intros ao lgk arrf cs [k m] (Hk & Hlg & Hv & Hm) Hao. cbn [sk_lgk sk_mode] in *. subst k. unfold sk_tgt. cbn [sk_mode].
  assert (Htw : forall e : hip, exists a8 : arr8 hip, Rep8 lgk cs a8 e).
  { intros e. set (vals := map (spec_regs lgk cs) (Nseq 0 (N.to_nat (2 ^ lgk)))).
    pose proof (rep8_fold hip hip_update lgk (canon 0 vals) [] _ _ (new_R8 lgk)) as H. rewrite app_nil_r in H.
    destruct H as (A & B & C & _).
    set (x := fold_left (a8_update hip_update) (canon 0 vals) (a8_new lgk (hip_new lgk))) in *.
    assert (Hrq : req lgk (rev (canon 0 vals)) cs) by (apply canon_req; lia).
    exists (mkA8 (a8_lgk x) (a8_bytes x) (a8_nz x) e). unfold Rep8, a8_get in *. cbn [a8_lgk a8_bytes a8_nz a8_est].
    split; [assumption|]. split; [intros j; rewrite B; apply Hrq|]. split; [rewrite C; now apply req_zeros|reflexivity]. }
  destruct m as [l t|st t|a|a|a].
  - destruct Hm as (_ & ds & HL & Hlen & Hss). exists (mkSketch lgk (MList l T8)). now apply (SimList hip ao lgk t cs l ds).
  - destruct Hm as (_ & A & B & C & D & F & G). exists (mkSketch lgk (MSet st T8)). now apply SimSet.
  - destruct Hm as (E & HI & Hpos). destruct (Htw (a4_est a)) as (a8 & H8). exists (mkSketch lgk (MArr8 a8)).
    apply (SimArr hip ao lgk T4 cs cs (a4_est a) (MArr4 a) (MArr8 a8)); [intros c; tauto|assumption|now apply Hao| |exact H8].
    cbn [RepT]. split; [assumption|]. split; [assumption|reflexivity].
  - destruct Hm as (E & Hk6 & W & Hr & Hz). destruct (Htw (a6_est a)) as (a8 & H8). exists (mkSketch lgk (MArr8 a8)).
    apply (SimArr hip ao lgk T6 cs cs (a6_est a) (MArr6 a) (MArr8 a8)); [intros c; tauto|assumption|now apply Hao| |exact H8].
    cbn [RepT]. split; [assumption|]. split; [assumption|]. split; [assumption|]. split; [assumption|reflexivity].
  - destruct Hm as (E & Hk8 & Hr & Hz). exists (mkSketch lgk (MArr8 a)).
    assert (H8 : Rep8 lgk cs a (a8_est a)) by (split; [assumption|]; split; [assumption|]; split; [assumption|reflexivity]).
    apply (SimArr hip ao lgk T8 cs cs (a8_est a) (MArr8 a) (MArr8 a)); [intros c; tauto|assumption|now apply Hao|exact H8|exact H8].
Qed.

Lemma sim_tgt : forall (ao : N -> list N -> Prop) lgk t seen (s s8 : hsketch), Sim hip ao lgk t seen s s8 -> sk_tgt s = t /\ sk_lgk s = lgk.
Proof.
  intros ao lgk t seen s s8 HS. destruct HS as [l ds|st|fed e m m8 Hf Hfv Ha HR HR8]; unfold sk_tgt; cbn [sk_mode sk_lgk];
    try (split; reflexivity).
  destruct t, m; cbn [RepT] in HR; try contradiction; split; reflexivity.
Qed.

Lemma update_all_array_tag : forall us (s s' : hsketch), sk_tag s = TagArray ->
  update_all hip_new hip_update hip_carry us s = Ok s' -> sk_tag s' = TagArray.
Proof.
  induction us as [|c r IH]; intros s s' Ht Hr; cbn [update_all] in Hr; [inversion Hr; subst; assumption|].
  destruct (update_with_coupon hip_new hip_update hip_carry s c) as [s1| |] eqn:E; cbn [obind] in Hr; try discriminate.
  apply (IH s1 s'); [|assumption]. unfold update_with_coupon in E. unfold sk_tag in *.
  destruct (sk_mode s) as [l t|st t|a|a|a]; try discriminate.
  - destruct (a4_update hip_update a c); cbn [obind] in E; inversion E. reflexivity.
  - inversion E. reflexivity.
  - inversion E. reflexivity.
Qed.

(* the update step on ANY well-formed source: never stuck, the result is again a well-formed source
   of the same lg_k and target type, representing the old coupons plus the new ones *)
Theorem src_updates : forall lgk arrf cs s us, SrcOK lgk arrf cs s -> Forall valid us ->
  exists s', update_all hip_new hip_update hip_carry us s = Ok s' /\
    SrcOK lgk (tag_flag (sk_tag s')) (rev us ++ cs) s' /\ sk_tgt s' = sk_tgt s /\
    (arrf = true -> sk_tag s' = TagArray).
Proof.
  intros lgk arrf cs s us HS Hus. pose proof HS as (Hk & Hlg & Hv & Hm).
  destruct (src_sim TT lgk arrf cs s HS (fun _ => I)) as (s8 & HSim).
  destruct (sim_run hip hip_new hip_update hip_carry TT TT_cons TT_cond lgk (sk_tgt s) us cs s s8 Hlg Hus Hv HSim)
    as (s' & s8' & Hr & _ & HS').
  exists s'. split; [assumption|]. split; [|split].
  - apply (sim_src_ok TT lgk (sk_tgt s) _ s' s8'); [assumption| |assumption].
    apply Forall_app. split; [now apply Forall_rev|assumption].
  - apply (sim_tgt TT lgk _ _ s' s8' HS').
  - intros ->. apply (update_all_array_tag us s s'); [|assumption].
    unfold sk_tag. destruct (sk_mode s); try reflexivity; destruct Hm; discriminate.
Qed.

(* a list- or set-mode source (e.g. a deserialized one) after further updates shows exactly the
   Spec state of "its coupons, then the new ones": mode tag by the distinct count, coupon set or
   register file -- the statement C02 proves for a sketch built from scratch *)
Theorem src_updates_abs : forall lgk cs s us, SrcOK lgk false cs s -> Forall valid us ->
  exists s', update_all hip_new hip_update hip_carry us s = Ok s' /\ hll_abs_ok lgk (sk_tgt s) (rev us ++ cs) s'.
Proof.
  intros lgk cs s us HS Hus. pose proof HS as (Hk & Hlg & Hv & Hm).
  destruct (src_sim AC lgk false cs s HS ltac:(discriminate)) as (s8 & HSim).
  destruct (sim_run hip hip_new hip_update hip_carry AC AC_cons AC_cond lgk (sk_tgt s) us cs s s8 Hlg Hus Hv HSim)
    as (s' & s8' & Hr & _ & HS').
  exists s'. split; [assumption|]. now apply (sim_abs hip lgk (sk_tgt s) _ s' s8').
Qed.

(* an array-mode source after further updates: still an array of the same type whose registers are
   the Spec registers of its coupons plus the new ones *)
Theorem src_updates_arr : forall lgk cs s us, SrcOK lgk true cs s -> Forall valid us ->
  exists s', update_all hip_new hip_update hip_carry us s = Ok s' /\ sk_lgk s' = lgk /\ sk_tgt s' = sk_tgt s /\
    sk_tag s' = TagArray /\ forall j, j < 2 ^ lgk -> sk_reg s' j = Ok (spec_regs lgk (rev us ++ cs) j).
Proof.
  intros lgk cs s us HS Hus. destruct (src_updates lgk true cs s us HS Hus) as (s' & Hr & HS' & Ht & Harr).
  exists s'. split; [assumption|]. rewrite (Harr eq_refl) in HS'. cbn [tag_flag] in HS'.
  destruct (src_shows lgk true _ s' HS') as (A & _ & C & _).
  split; [assumption|]. split; [assumption|]. split; [now apply Harr|]. now apply C.
Qed.

(* two well-formed sources of the same coupon list (an original and its deserialized copy, or two
   images of one abstract state) stay indistinguishable under the same further updates *)
Theorem src_updates_agree : forall lgk arrf cs s1 s2 us, SrcOK lgk arrf cs s1 -> SrcOK lgk arrf cs s2 -> Forall valid us ->
  exists r1 r2, update_all hip_new hip_update hip_carry us s1 = Ok r1 /\ update_all hip_new hip_update hip_carry us s2 = Ok r2 /\
    sk_lgk r1 = sk_lgk r2 /\ sk_tag r1 = sk_tag r2 /\ sk_len r1 = sk_len r2 /\
    (forall c, In c (sk_coupons r1) <-> In c (sk_coupons r2)) /\
    (forall j, j < 2 ^ lgk -> sk_reg r1 j = sk_reg r2 j).
Proof.
  intros lgk arrf cs s1 s2 us H1 H2 Hus. destruct arrf.
  - destruct (src_updates_arr lgk cs s1 us H1 Hus) as (r1 & Hr1 & K1 & _ & T1 & R1).
    destruct (src_updates_arr lgk cs s2 us H2 Hus) as (r2 & Hr2 & K2 & _ & T2 & R2).
    exists r1, r2. split; [assumption|]. split; [assumption|]. split; [congruence|]. split; [congruence|].
    unfold sk_tag, sk_len, sk_coupons in *. destruct (sk_mode r1); try discriminate; destruct (sk_mode r2); try discriminate;
      (split; [reflexivity|]; split; [tauto|]; intros j Hj; now rewrite (R1 j Hj), (R2 j Hj)).
  - destruct (src_updates_abs lgk cs s1 us H1 Hus) as (r1 & Hr1 & K1 & _ & T1 & B1).
    destruct (src_updates_abs lgk cs s2 us H2 Hus) as (r2 & Hr2 & K2 & _ & T2 & B2).
    exists r1, r2. split; [assumption|]. split; [assumption|]. split; [congruence|]. split; [congruence|].
    rewrite T1 in B1. rewrite T2 in B2. destruct (spec_mode lgk (distinct (rev us ++ cs))) eqn:Em.
    + destruct B1 as (_ & C1 & L1), B2 as (_ & C2 & L2). split; [congruence|]. split; [intros c; rewrite (C1 c), (C2 c); tauto|].
      intros j _. unfold sk_tag, sk_reg in *. destruct (sk_mode r1); try discriminate; destruct (sk_mode r2); try discriminate; reflexivity.
    + destruct B1 as (_ & C1 & L1), B2 as (_ & C2 & L2). split; [congruence|]. split; [intros c; rewrite (C1 c), (C2 c); tauto|].
      intros j _. unfold sk_tag, sk_reg in *. destruct (sk_mode r1); try discriminate; destruct (sk_mode r2); try discriminate; reflexivity.
    + split.
      * unfold sk_tag, sk_len in *. destruct (sk_mode r1); try discriminate; destruct (sk_mode r2); try discriminate; reflexivity.
      * split; [unfold sk_tag, sk_coupons in *; destruct (sk_mode r1); try discriminate; destruct (sk_mode r2); try discriminate; tauto|].
        intros j Hj. now rewrite (B1 j Hj), (B2 j Hj).
Qed.

(* a sketch built by HllSketch::new + updates represents its own stream *)
Theorem stream_is_source : forall lgk t cs, 4 <= lgk <= 21 -> Forall valid cs ->
  exists s, run_stream hip_new hip_update hip_carry lgk t cs = Ok s /\ SrcOK lgk (tag_flag (sk_tag s)) cs s.
Proof.
  intros lgk t cs Hlg Hv.
  destruct (sim_stream hip hip_new hip_update hip_carry AC AC_cons AC_cond lgk t cs Hlg Hv) as (s & s8 & Hr & _ & HS).
  exists s. split; [assumption|]. apply (src_ok_set lgk _ (rev cs) cs); [intros c; symmetry; apply in_rev|assumption|].
  apply (sim_src_ok AC lgk t (rev cs) s s8); [assumption|now apply Forall_rev|assumption].
Qed.

(* replacing the estimator state (e.g. deserializing with the out-of-order flag set) keeps it one *)
Definition with_est (f : hip -> hip) (s : hsketch) : hsketch :=
  match sk_mode s with
  | MArr4 a => mkSketch (sk_lgk s) (MArr4 (mkA4 (a4_lgk a) (a4_bytes a) (a4_cur_min a) (a4_num a) (a4_aux a) (f (a4_est a))))
  | MArr6 a => mkSketch (sk_lgk s) (MArr6 (mkA6 (a6_lgk a) (a6_bytes a) (a6_nz a) (f (a6_est a))))
  | MArr8 a => mkSketch (sk_lgk s) (MArr8 (mkA8 (a8_lgk a) (a8_bytes a) (a8_nz a) (f (a8_est a))))
  | _ => s
  end.

Lemma with_est_src_ok : forall f lgk arrf cs s, SrcOK lgk arrf cs s -> SrcOK lgk arrf cs (with_est f s).
Proof.
  intros f lgk arrf cs s (Hk & Hlg & Hv & Hm). unfold with_est. destruct (sk_mode s) as [l t|st t|a|a|a] eqn:Em.
  - unfold SrcOK. rewrite Em. repeat (split; [assumption|]). assumption.
  - unfold SrcOK. rewrite Em. repeat (split; [assumption|]). assumption.
  - unfold SrcOK. cbn [sk_lgk sk_mode]. split; [assumption|]. split; [assumption|]. split; [assumption|].
    destruct Hm as (E & (Hk4 & HC & Hn) & Hpos). split; [assumption|]. split; [|assumption]. split; [assumption|]. split; assumption.
  - unfold SrcOK. cbn [sk_lgk sk_mode]. split; [assumption|]. split; [assumption|]. split; [assumption|]. exact Hm.
  - unfold SrcOK. cbn [sk_lgk sk_mode]. split; [assumption|]. split; [assumption|]. split; [assumption|]. exact Hm.
Qed.

(* ---------- a concrete non-trivial instance (non-vacuity of the hypotheses) ---------- *)
From DS Require Proofs.HllC02.
Definition ex_in1 : ainput := mkIn 10 true HllC02.ex_stream2.                (* array, lg_k 10, marked out of order *)
Definition ex_in2 : ainput := mkIn 8 true (firstn 60 HllC02.ex_stream2).     (* array, lg_k 8, Hll4 *)
Definition ex_in3 : ainput := mkIn 10 false (firstn 5 HllC02.ex_stream).     (* list *)
Definition hrun := run_stream hip_new hip_update hip_carry.

Lemma spec_run_ex : forall lg_max i1 i2 i3 s1 s2 s3 c,
  in_active i1 = true -> in_active i2 = true -> in_active i3 = false ->
  spec_run lg_max [UMerge i1 s1; UMerge i2 s2; UMerge i3 s3; UValue c] (false, lg_max, [])
  = (true, N.min (N.min lg_max (in_lgk i1)) (in_lgk i2), c :: in_cs i3 ++ in_cs i2 ++ in_cs i1 ++ []).
Proof. intros lg_max i1 i2 i3 s1 s2 s3 c H1 H2 H3. cbn [spec_run fold_left spec_step]. rewrite H1, H2, H3. reflexivity. Qed.

Lemma tag_of_run : forall lgk t cs s tg, hrun lgk t cs = Ok s ->
  option_map sk_tag (match hrun lgk t cs with Ok s => Some s | _ => None end) = Some tg -> sk_tag s = tg.
Proof. intros lgk t cs s tg R H. rewrite R in H. cbn in H. congruence. Qed.

Lemma ex_sources : exists s1 s2 s3,
  hrun 10 T6 (in_cs ex_in1) = Ok s1 /\ hrun 8 T4 (in_cs ex_in2) = Ok s2 /\ hrun 10 T8 (in_cs ex_in3) = Ok s3 /\
  SrcOK 10 true (in_cs ex_in1) s1 /\ SrcOK 8 true (in_cs ex_in2) s2 /\ SrcOK 10 false (in_cs ex_in3) s3.
Proof.
  destruct HllC02.ex_stream_valid as [V1 V2].
  assert (V60 : Forall valid (firstn 60 HllC02.ex_stream2)) by (apply HllC02.validb_Forall; vm_compute; reflexivity).
  assert (V5 : Forall valid (firstn 5 HllC02.ex_stream)) by (apply HllC02.validb_Forall; vm_compute; reflexivity).
  destruct (stream_is_source 10 T6 _ ltac:(lia) V2) as (s1 & R1 & S1).
  destruct (stream_is_source 8 T4 _ ltac:(lia) V60) as (s2 & R2 & S2).
  destruct (stream_is_source 10 T8 _ ltac:(lia) V5) as (s3 & R3 & S3).
  rewrite (tag_of_run 10 T6 _ s1 TagArray R1) in S1 by (vm_compute; reflexivity).
  rewrite (tag_of_run 8 T4 _ s2 TagArray R2) in S2 by (vm_compute; reflexivity).
  rewrite (tag_of_run 10 T8 _ s3 TagList R3) in S3 by (vm_compute; reflexivity).
  exists s1, s2, s3. split; [exact R1|]. split; [exact R2|]. split; [exact R3|]. split; [exact S1|]. split; [exact S2|exact S3].
Qed.

Lemma ex_in_active : in_active ex_in1 = true /\ in_active ex_in2 = true /\ in_active ex_in3 = false.
Proof. repeat split; vm_compute; reflexivity. Qed.

Lemma union_example : exists s1 s2 s3,
  hrun 10 T6 (in_cs ex_in1) = Ok s1 /\ hrun 8 T4 (in_cs ex_in2) = Ok s2 /\ hrun 10 T8 (in_cs ex_in3) = Ok s3 /\
  Forall uop_ok [UMerge ex_in1 (with_est (hip_set_ooo true) s1); UMerge ex_in2 s2; UMerge ex_in3 s3; UValue (pack_coupon 77 9)] /\
  exists u0 u, union_new 10 = Ok u0 /\
  uops_run [UMerge ex_in1 (with_est (hip_set_ooo true) s1); UMerge ex_in2 s2; UMerge ex_in3 s3; UValue (pack_coupon 77 9)] u0 = Ok u /\
  sk_lgk (un_gadget u) = 8 /\ sk_tag (un_gadget u) = TagArray.
Proof.
  destruct ex_sources as (s1 & s2 & s3 & R1 & R2 & R3 & S1 & S2 & S3). exists s1, s2, s3.
  assert (Hval : valid (pack_coupon 77 9)) by (unfold valid; rewrite cvalue_pack; lia).
  assert (Hok : Forall uop_ok [UMerge ex_in1 (with_est (hip_set_ooo true) s1); UMerge ex_in2 s2; UMerge ex_in3 s3; UValue (pack_coupon 77 9)]).
  { constructor; [apply (with_est_src_ok _ 10 true (in_cs ex_in1)); exact S1|]. constructor; [exact S2|].
    constructor; [exact S3|]. constructor; [exact Hval|constructor]. }
  split; [exact R1|]. split; [exact R2|]. split; [exact R3|]. split; [exact Hok|].
  destruct (union_refines 10 _ ltac:(lia) Hok) as (u0 & u & Hn & Hrun & Hsh).
  exists u0, u. split; [assumption|]. split; [assumption|].
  destruct ex_in_active as (A1 & A2 & A3).
  rewrite (spec_run_ex 10 ex_in1 ex_in2 ex_in3 _ _ _ _ A1 A2 A3) in Hsh.
  destruct Hsh as ((Hk & _ & Htag & _) & _).
  split; [rewrite Hk; reflexivity|]. apply Htag. now left.
Qed.
