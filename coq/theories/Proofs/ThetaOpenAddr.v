(* Open addressing without deletion, for the theta hash table (DESIGN.md Appendix B.2).

   Table size 2^lg, probe sequence  p_j(x) = (x + j * stride x) mod 2^lg  with
   stride x = 2 * ((x >> lg) & 127) + 1  odd, hence  j |-> p_j(x)  is a bijection of [0, 2^lg).
   Invariant [OA]: every stored key x sits at some p_j(x) and no slot p_i(x), i < j, is empty
   or holds x.  Under [OA] and with at least one empty slot, [find_in_entries] returns the slot
   of the key if it is stored and otherwise the first empty slot on the key's path (it never
   returns None and never runs out of fuel); storing the key there preserves [OA]; keys are
   never duplicated nor lost; re-inserting a duplicate-free list into a table with enough
   room ([insert_all], the loop of resize/rebuild) stores exactly that list. *)
From Coq Require Import List PArith Pnat NArith Nnat ZArith Bool Lia Znumtheory Zpow_facts Permutation.
From DS Require Import Base.Prelude Base.ThetaLib Model.Theta Proofs.ThetaLibProofs.
From DS Require Gen.GenTheta.
Open Scope N_scope.

(* ---------- the literals of get_stride, as translated from the Rust source ---------- *)
Lemma stride_lits : lit GenTheta.LIT_get_stride 0 = 2 /\ lit GenTheta.LIT_get_stride 1 = 1.
Proof. split; reflexivity. Qed.

Lemma get_stride_odd : forall key lg, exists m, get_stride key lg = 2 * m + 1.
Proof.
  intros. unfold get_stride. destruct stride_lits as [-> ->].
  exists (N.land (N.shiftr key lg) STRIDE_MASK). reflexivity.
Qed.

Lemma pow2_nz : forall lg, 2 ^ lg <> 0.
Proof. intros. apply N.pow_nonzero. discriminate. Qed.

Lemma pow2_pos : forall lg, 0 < 2 ^ lg.
Proof. intros. pose proof (pow2_nz lg). lia. Qed.

Lemma land_mask : forall x lg, N.land x (2 ^ lg - 1) = x mod 2 ^ lg.
Proof.
  intros. rewrite <- N.land_ones. f_equal. rewrite N.ones_equiv, N.sub_1_r. reflexivity.
Qed.

(* ---------- the probe sequence ---------- *)
Definition pidx (lg key j : N) : N := (key + j * get_stride key lg) mod 2 ^ lg.

Lemma pidx_lt : forall lg key j, pidx lg key j < 2 ^ lg.
Proof. intros. unfold pidx. apply N.mod_lt, pow2_nz. Qed.

Lemma pidx_0 : forall lg key, pidx lg key 0 = N.land key (2 ^ lg - 1).
Proof. intros. unfold pidx. rewrite land_mask. f_equal. lia. Qed.

Lemma pidx_step : forall lg key j,
  N.land (pidx lg key j + get_stride key lg) (2 ^ lg - 1) = pidx lg key (j + 1).
Proof.
  intros. rewrite land_mask. unfold pidx.
  rewrite N.add_mod_idemp_l by apply pow2_nz. f_equal. lia.
Qed.

Lemma rel_prime_pow2_odd : forall (lg m : Z), (0 <= lg)%Z -> rel_prime (2 ^ lg) (2 * m + 1).
Proof.
  intros lg m Hlg. apply rel_prime_sym. apply rel_prime_Zpower_r; [exact Hlg|].
  apply bezout_rel_prime. apply (Bezout_intro _ _ _ 1 (- m))%Z. lia.
Qed.

Lemma pidx_inj_le : forall lg key j1 j2,
  j1 <= j2 -> j2 < 2 ^ lg -> pidx lg key j1 = pidx lg key j2 -> j1 = j2.
Proof.
  intros lg key j1 j2 Hle Hlt E. unfold pidx in E.
  destruct (get_stride_odd key lg) as [m Hm]. rewrite Hm in E.
  set (M := 2 ^ lg) in *.
  assert (HM : (Z.of_N M = 2 ^ Z.of_N lg)%Z) by (unfold M; rewrite N2Z.inj_pow; reflexivity).
  assert (HMpos : (0 < Z.of_N M)%Z) by (pose proof (pow2_pos lg); unfold M; lia).
  apply (f_equal Z.of_N) in E. rewrite !N2Z.inj_mod in E.
  rewrite !N2Z.inj_add, !N2Z.inj_mul, !N2Z.inj_add, !N2Z.inj_mul in E.
  change (Z.of_N 2) with 2%Z in E. change (Z.of_N 1) with 1%Z in E.
  set (a1 := (Z.of_N key + Z.of_N j1 * (2 * Z.of_N m + 1))%Z) in *.
  set (a2 := (Z.of_N key + Z.of_N j2 * (2 * Z.of_N m + 1))%Z) in *.
  assert (Hdiv : (Z.of_N M | a2 - a1)%Z).
  { apply Z.mod_divide; [lia|]. rewrite Zminus_mod, <- E, Z.sub_diag. apply Z.mod_0_l. lia. }
  replace (a2 - a1)%Z with ((Z.of_N j2 - Z.of_N j1) * (2 * Z.of_N m + 1))%Z in Hdiv by (unfold a1, a2; ring).
  rewrite Z.mul_comm in Hdiv.
  apply Gauss in Hdiv.
  - destruct Hdiv as [c Hc].
    assert (c = 0)%Z by nia. subst c. lia.
  - rewrite HM. apply rel_prime_pow2_odd. lia.
Qed.

Lemma pidx_inj : forall lg key j1 j2,
  j1 < 2 ^ lg -> j2 < 2 ^ lg -> pidx lg key j1 = pidx lg key j2 -> j1 = j2.
Proof.
  intros lg key j1 j2 H1 H2 E. destruct (N.le_ge_cases j1 j2).
  - eapply pidx_inj_le; eauto.
  - symmetry. eapply pidx_inj_le; eauto.
Qed.

Lemma NoDup_map_local : forall (A B : Type) (f : A -> B) (l : list A),
  NoDup l -> (forall a b, In a l -> In b l -> f a = f b -> a = b) -> NoDup (map f l).
Proof.
  induction l as [|a l IH]; intros ND Hinj; cbn [map]; [constructor|].
  inversion ND as [|? ? Hn ND']; subst. constructor.
  - rewrite in_map_iff. intros [b [E Hb]].
    assert (b = a) by (apply Hinj; [now right|now left|exact E]). subst b. contradiction.
  - apply IH; [exact ND'|]. intros x y Hx Hy. apply Hinj; now right.
Qed.

(* the probe sequence visits every slot *)
Lemma pidx_surj : forall lg key i, i < 2 ^ lg -> exists j, j < 2 ^ lg /\ pidx lg key j = i.
Proof.
  intros lg key i Hi.
  set (R := rangeN (N.to_nat (2 ^ lg)) 0).
  set (P := map (pidx lg key) R).
  assert (NDP : NoDup P).
  { apply NoDup_map_local; [apply rangeN_NoDup|].
    intros a b Ha Hb. apply rangeN0_In in Ha. apply rangeN0_In in Hb. now apply pidx_inj. }
  assert (Hincl : incl P R).
  { intros x Hx. apply in_map_iff in Hx. destruct Hx as [j [E _]]. subst x.
    apply rangeN0_In. apply pidx_lt. }
  assert (Hlen : (length R <= length P)%nat) by (unfold P; rewrite map_length; lia).
  pose proof (NoDup_length_incl NDP Hlen Hincl) as Hback.
  assert (HiR : In i R) by (apply rangeN0_In; exact Hi).
  apply Hback in HiR. apply in_map_iff in HiR. destruct HiR as [j [E Hj]].
  exists j. split; [now apply rangeN0_In|exact E].
Qed.

(* ---------- find_in_entries ---------- *)
Definition stop (sl : slots) (lg key j : N) : Prop :=
  sl_get sl (pidx lg key j) = 0 \/ sl_get sl (pidx lg key j) = key.

Lemma stop_dec : forall sl lg key j, {stop sl lg key j} + {~ stop sl lg key j}.
Proof.
  intros. unfold stop.
  destruct (N.eq_dec (sl_get sl (pidx lg key j)) 0); [left; now left|].
  destruct (N.eq_dec (sl_get sl (pidx lg key j)) key); [left; now right|].
  right. intros [|]; contradiction.
Qed.

Lemma first_stop : forall sl lg key (n : nat),
  (exists j0, j0 < N.of_nat n /\ stop sl lg key j0 /\ forall j', j' < j0 -> ~ stop sl lg key j')
  \/ (forall j, j < N.of_nat n -> ~ stop sl lg key j).
Proof.
  induction n as [|n IH].
  - right. intros j Hj. cbn in Hj. lia.
  - destruct IH as [[j0 [H0 [H1 H2]]]|Hnone].
    + left. exists j0. split; [lia|]. split; assumption.
    + destruct (stop_dec sl lg key (N.of_nat n)) as [Hs|Hs].
      * left. exists (N.of_nat n). split; [lia|]. split; [exact Hs|exact Hnone].
      * right. intros j Hj. destruct (N.eq_dec j (N.of_nat n)) as [->|]; [exact Hs|].
        apply Hnone. lia.
Qed.

Lemma probe_nat_run : forall sl lg key fuel j j0,
  j <= j0 -> j0 < 2 ^ lg -> (N.to_nat j0 - N.to_nat j < fuel)%nat ->
  stop sl lg key j0 -> (forall j', j <= j' -> j' < j0 -> ~ stop sl lg key j') ->
  iter_until_nat (probe_step sl key (2 ^ lg - 1) (get_stride key lg) (N.land key (2 ^ lg - 1)))
                 fuel (pidx lg key j) = inl (Some (pidx lg key j0)).
Proof.
  induction fuel as [|fuel IH]; intros j j0 Hle Hlt Hfuel Hstop Hfirst; [lia|].
  cbn [iter_until_nat]. unfold probe_step at 1.
  destruct (N.eq_dec j j0) as [->|Hne].
  - destruct Hstop as [E|E]; rewrite E.
    + rewrite N.eqb_refl. reflexivity.
    + rewrite N.eqb_refl, orb_true_r. reflexivity.
  - assert (Hns : ~ stop sl lg key j) by (apply Hfirst; lia).
    destruct (N.eqb_spec (sl_get sl (pidx lg key j)) 0) as [E|_]; [exfalso; apply Hns; now left|].
    destruct (N.eqb_spec (sl_get sl (pidx lg key j)) key) as [E|_]; [exfalso; apply Hns; now right|].
    cbn [orb]. rewrite pidx_step.
    destruct (N.eqb_spec (pidx lg key (j + 1)) (N.land key (2 ^ lg - 1))) as [E|_].
    + rewrite <- pidx_0 in E. apply pidx_inj in E; [lia|lia|apply pow2_pos].
    + apply IH; [lia|exact Hlt|lia|exact Hstop|]. intros j' H1 H2. apply Hfirst; lia.
Qed.

Lemma size_fuel_pow2 : forall lg, Pos.to_nat (size_fuel (2 ^ lg)) = N.to_nat (2 ^ lg).
Proof.
  intros. pose proof (pow2_nz lg). unfold size_fuel. destruct (2 ^ lg); [contradiction|reflexivity].
Qed.

(* with a free slot somewhere, find returns the first slot on the key's path that is empty
   or holds the key *)
Lemma find_spec : forall sl lg key,
  (exists i, i < 2 ^ lg /\ sl_get sl i = 0) ->
  exists j0, j0 < 2 ^ lg /\ find_in_entries sl key lg = Some (pidx lg key j0) /\
             stop sl lg key j0 /\ forall j', j' < j0 -> ~ stop sl lg key j'.
Proof.
  intros sl lg key [i [Hi Ei]].
  destruct (pidx_surj lg key i Hi) as [j [Hj Ej]].
  destruct (first_stop sl lg key (N.to_nat (2 ^ lg))) as [[j0 [H0 [H1 H2]]]|Hnone].
  - rewrite N2Nat.id in H0. exists j0. split; [exact H0|]. split; [|split; assumption].
    assert (HR := probe_nat_run sl lg key (N.to_nat (2 ^ lg)) 0 j0).
    rewrite pidx_0 in HR.
    unfold find_in_entries. cbv zeta. rewrite iter_until_nat_eq, size_fuel_pow2.
    rewrite HR; [reflexivity|lia|exact H0|lia|exact H1|].
    intros j' _ Hlt. now apply H2.
  - exfalso. apply (Hnone j); [rewrite N2Nat.id; exact Hj|]. left. rewrite Ej. exact Ei.
Qed.

(* ---------- the layout invariant ---------- *)
Definition on_path (sl : slots) (lg i x : N) : Prop :=
  exists j, j < 2 ^ lg /\ pidx lg x j = i /\ forall j', j' < j -> ~ stop sl lg x j'.

Definition OA (lg : N) (sl : slots) : Prop :=
  (forall i, 2 ^ lg <= i -> sl_get sl i = 0) /\
  (forall i, i < 2 ^ lg -> sl_get sl i <> 0 -> on_path sl lg i (sl_get sl i)).

Lemma OA_empty : forall lg, OA lg sl_empty.
Proof.
  intros lg. split; intros i Hi; [apply sl_get_empty|].
  intros H. rewrite sl_get_empty in H. contradiction.
Qed.

(* a key is stored at most once *)
Lemma OA_unique : forall lg sl i1 i2 x,
  OA lg sl -> i1 < 2 ^ lg -> i2 < 2 ^ lg -> x <> 0 -> sl_get sl i1 = x -> sl_get sl i2 = x -> i1 = i2.
Proof.
  intros lg sl i1 i2 x [_ Hpath] H1 H2 Hx E1 E2.
  destruct (Hpath i1 H1) as [j1 [Hj1 [P1 F1]]]; [congruence|].
  destruct (Hpath i2 H2) as [j2 [Hj2 [P2 F2]]]; [congruence|].
  rewrite E1 in *. rewrite E2 in *.
  destruct (N.lt_trichotomy j1 j2) as [Hlt|[Heq|Hgt]].
  - exfalso. apply (F2 j1 Hlt). right. rewrite P1. exact E1.
  - subst j2. congruence.
  - exfalso. apply (F1 j2 Hgt). right. rewrite P2. exact E2.
Qed.

Lemma OA_values_NoDup : forall lg sl, OA lg sl -> NoDup (sl_values sl (2 ^ lg)).
Proof.
  intros lg sl H. unfold sl_values. apply NoDup_filter_map; [apply rangeN_NoDup|].
  intros a b Ha Hb E Hnz. apply rangeN0_In in Ha. apply rangeN0_In in Hb.
  eapply OA_unique; eauto.
Qed.

(* find stopped at an empty slot: the key is not stored anywhere *)
Lemma OA_find_absent : forall lg sl key j0,
  OA lg sl -> key <> 0 -> sl_get sl (pidx lg key j0) = 0 ->
  (forall j', j' < j0 -> ~ stop sl lg key j') ->
  forall i, i < 2 ^ lg -> sl_get sl i <> key.
Proof.
  intros lg sl key j0 [_ Hpath] Hk E0 Hfirst i Hi Ei.
  destruct (Hpath i Hi) as [j [Hj [Pj Fj]]]; [congruence|]. rewrite Ei in *.
  destruct (N.lt_trichotomy j j0) as [Hlt|[Heq|Hgt]].
  - apply (Hfirst j Hlt). right. rewrite Pj. exact Ei.
  - subst j. rewrite Pj in E0. congruence.
  - apply (Fj j0 Hgt). left. exact E0.
Qed.

(* storing an absent key in the first empty slot of its path preserves the invariant *)
Lemma OA_insert : forall lg sl key j0,
  OA lg sl -> key <> 0 -> j0 < 2 ^ lg -> sl_get sl (pidx lg key j0) = 0 ->
  (forall j', j' < j0 -> ~ stop sl lg key j') ->
  (forall i, i < 2 ^ lg -> sl_get sl i <> key) ->
  OA lg (sl_set sl (pidx lg key j0) key).
Proof.
  intros lg sl key j0 [Hout Hpath] Hk Hj0 E0 Hfirst Habs.
  set (idx := pidx lg key j0). assert (Hidx : idx < 2 ^ lg) by apply pidx_lt.
  split.
  - intros i Hi. rewrite sl_get_set_other by lia. now apply Hout.
  - intros i Hi Hnz. destruct (N.eq_dec i idx) as [->|Hne].
    + rewrite sl_get_set_same. exists j0. split; [exact Hj0|]. split; [reflexivity|].
      intros j' Hj' Hs. apply (Hfirst j' Hj').
      assert (Hd : pidx lg key j' <> idx).
      { unfold idx. intro E. apply pidx_inj in E; lia. }
      unfold stop in *. rewrite sl_get_set_other in Hs by congruence. exact Hs.
    + rewrite sl_get_set_other in * by congruence.
      destruct (Hpath i Hi Hnz) as [j [Hj [Pj Fj]]].
      exists j. split; [exact Hj|]. split; [exact Pj|].
      intros j' Hj' Hs. apply (Fj j' Hj'). unfold stop in *.
      destruct (N.eq_dec (pidx lg (sl_get sl i) j') idx) as [Ed|Ed].
      * rewrite Ed, sl_get_set_same in Hs. destruct Hs as [Hs|Hs]; [contradiction|].
        exfalso. apply (Habs i Hi). congruence.
      * rewrite sl_get_set_other in Hs by congruence. exact Hs.
Qed.

(* the stored values after filling an empty slot *)
Lemma values_insert : forall lg sl idx key,
  OA lg sl -> OA lg (sl_set sl idx key) ->
  idx < 2 ^ lg -> sl_get sl idx = 0 -> key <> 0 -> (forall i, i < 2 ^ lg -> sl_get sl i <> key) ->
  Permutation (key :: sl_values sl (2 ^ lg)) (sl_values (sl_set sl idx key) (2 ^ lg)).
Proof.
  intros lg sl idx key HOA HOA' Hidx E0 Hk Habs.
  apply NoDup_Permutation.
  - constructor; [|now apply OA_values_NoDup].
    rewrite sl_values_In. intros [_ [i [Hi Ei]]]. now apply (Habs i Hi).
  - now apply OA_values_NoDup.
  - intros x. cbn [In]. rewrite !sl_values_In. split.
    + intros [<-|[Hx [i [Hi Ei]]]].
      * split; [exact Hk|]. exists idx. split; [exact Hidx|apply sl_get_set_same].
      * split; [exact Hx|]. exists i. split; [exact Hi|].
        rewrite sl_get_set_other; [exact Ei|]. intro Z. subst i. congruence.
    + intros [Hx [i [Hi Ei]]]. destruct (N.eq_dec i idx) as [->|Hne].
      * left. rewrite sl_get_set_same in Ei. exact Ei.
      * right. split; [exact Hx|]. exists i. split; [exact Hi|].
        rewrite sl_get_set_other in Ei by congruence. exact Ei.
Qed.

(* what try_insert / insert_all need to know about one find *)
Lemma find_cases : forall lg sl key,
  OA lg sl -> key <> 0 -> N.of_nat (length (sl_values sl (2 ^ lg))) < 2 ^ lg ->
  exists idx, idx < 2 ^ lg /\ find_in_entries sl key lg = Some idx /\
    (sl_get sl idx = key \/
     (sl_get sl idx = 0 /\ ~ In key (sl_values sl (2 ^ lg)) /\ OA lg (sl_set sl idx key) /\
      Permutation (key :: sl_values sl (2 ^ lg)) (sl_values (sl_set sl idx key) (2 ^ lg)))).
Proof.
  intros lg sl key HOA Hk Hroom.
  destruct (find_spec sl lg key (sl_values_free_slot _ _ Hroom)) as [j0 [Hj0 [Hfind [Hstop Hfirst]]]].
  exists (pidx lg key j0). split; [apply pidx_lt|]. split; [exact Hfind|].
  destruct Hstop as [E0|Ek]; [right|left; exact Ek].
  pose proof (OA_find_absent lg sl key j0 HOA Hk E0 Hfirst) as Habs.
  pose proof (OA_insert lg sl key j0 HOA Hk Hj0 E0 Hfirst Habs) as HOA'.
  split; [exact E0|]. split; [|split; [exact HOA'|]].
  - rewrite sl_values_In. intros [_ [i [Hi Ei]]]. now apply (Habs i Hi).
  - apply values_insert; auto. apply pidx_lt.
Qed.

(* ---------- the re-insertion loop of resize / rebuild ---------- *)
Lemma insert_all_spec : forall lg es sl,
  OA lg sl -> NoDup es ->
  (forall e, In e es -> e <> 0 /\ ~ In e (sl_values sl (2 ^ lg))) ->
  N.of_nat (length (sl_values sl (2 ^ lg)) + length es) <= 2 ^ lg ->
  exists sl', insert_all sl lg es = Ok sl' /\ OA lg sl' /\
              Permutation (es ++ sl_values sl (2 ^ lg)) (sl_values sl' (2 ^ lg)).
Proof.
  induction es as [|e r IH]; intros sl HOA ND Hes Hroom; cbn [insert_all].
  - exists sl. split; [reflexivity|]. split; [exact HOA|apply Permutation_refl].
  - inversion ND as [|? ? Hnotin ND']; subst.
    destruct (Hes e (or_introl eq_refl)) as [He Hnew].
    cbn [length] in Hroom.
    destruct (find_cases lg sl e HOA He) as [idx [Hidx [Hfind Hcase]]]; [lia|].
    rewrite Hfind.
    destruct Hcase as [Epresent|[E0 [_ [HOA' Hperm]]]].
    { exfalso. apply Hnew. apply sl_values_In. split; [exact He|]. exists idx. auto. }
    destruct (IH (sl_set sl idx e) HOA' ND') as [sl' [Hrun [HOA'' Hperm']]].
    + intros e' He'. destruct (Hes e' (or_intror He')) as [Hnz Hnin]. split; [exact Hnz|].
      intro Hin. eapply Permutation_in in Hin; [|apply Permutation_sym; exact Hperm].
      destruct Hin as [<-|Hin]; contradiction.
    + rewrite <- (Permutation_length Hperm). cbn [length]. lia.
    + exists sl'. split; [exact Hrun|]. split; [exact HOA''|].
      eapply Permutation_trans; [|exact Hperm'].
      cbn [app]. eapply Permutation_trans; [apply Permutation_middle|].
      apply Permutation_app_head. exact Hperm.
Qed.
