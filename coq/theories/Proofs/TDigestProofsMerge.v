(* The merge pass (do_merge) as a relation: what follows from [merge_rel 0], soundness of the
   checker [valid_merge], and the invariants of in-process digests (C15; td_total / td_minmax of C10). *)
From Coq Require Import QArith Qabs Lia Lqa Qfield Permutation.
From DS Require Import Base.Prelude Model.TDigest Spec.TDigestSpec Proofs.TDigestProofsBase Proofs.TDigestProofsSort.
Open Scope Q_scope.

(* ---------- small list lemmas ---------- *)
Lemma last_indep {A} (l : list A) d d' : l <> [] -> last l d = last l d'.
Proof.
  induction l as [|a l IH]; intros H; [congruence|]. destruct l as [|b l]; [reflexivity|].
  change (last (a :: b :: l) d) with (last (b :: l) d). change (last (a :: b :: l) d') with (last (b :: l) d').
  apply IH. congruence.
Qed.

Lemma last_nth {A} (l : list A) d : last l d = nth (length l - 1) l d.
Proof.
  induction l as [|a l IH]; [reflexivity|]. destruct l as [|b l]; [reflexivity|].
  change (last (a :: b :: l) d) with (last (b :: l) d). rewrite IH. cbn [length].
  replace (S (S (length l)) - 1)%nat with (S (length l)) by lia. replace (S (length l) - 1)%nat with (length l) by lia.
  reflexivity.
Qed.

Lemma last_rev {A} (l : list A) d : last (rev l) d = hd d l.
Proof. destruct l as [|a l]; [reflexivity|]. cbn [rev hd]. apply last_last. Qed.

Lemma hd_app_ne {A} (a b : list A) d : a <> [] -> hd d (a ++ b) = hd d a.
Proof. destruct a; [congruence|reflexivity]. Qed.

Lemma hd_rev {A} (l : list A) d : hd d (rev l) = last l d.
Proof.
  induction l as [|a l IH]; [reflexivity|]. cbn [rev]. destruct l as [|b l]; [reflexivity|].
  rewrite hd_app_ne.
  - rewrite IH. reflexivity.
  - cbn [rev]. intros E. apply app_eq_nil in E as [_ E]. discriminate.
Qed.

Lemma concat_rev_map_rev {A} (gs : list (list A)) : concat (rev (map (@rev A) gs)) = rev (concat gs).
Proof.
  induction gs as [|g gs IH]; [reflexivity|]. cbn [map rev concat]. rewrite concat_app, IH. cbn [concat].
  rewrite app_nil_r, rev_app_distr. reflexivity.
Qed.

Lemma Forall2_rev {A B} (R : A -> B -> Prop) a b : Forall2 R a b -> Forall2 R (rev a) (rev b).
Proof.
  induction 1; [constructor|]. cbn [rev]. apply Forall2_app; auto.
Qed.

Lemma Forall2_map_r {A B C} (R : A -> C -> Prop) (f : B -> C) a b :
  Forall2 (fun x y => R x (f y)) a b -> Forall2 R a (map f b).
Proof. induction 1; constructor; auto. Qed.

Lemma Forall2_impl {A B} (R R' : A -> B -> Prop) a b : (forall x y, R x y -> R' x y) -> Forall2 R a b -> Forall2 R' a b.
Proof. intros H. induction 1; constructor; auto. Qed.

Lemma Forall2_len {A B} (R : A -> B -> Prop) a b : Forall2 R a b -> length a = length b.
Proof. induction 1; cbn; auto. Qed.

(* ---------- group means ---------- *)
Lemma msum_cons c g : msum (c :: g) = c_mean c * c_w c + msum g.
Proof. reflexivity. Qed.

Lemma msum_app a b : msum (a ++ b) == msum a + msum b.
Proof. induction a as [|c a IH]; cbn [app]; [cbn; ring|]. rewrite !msum_cons, IH. ring. Qed.

Lemma msum_rev g : msum (rev g) == msum g.
Proof. induction g as [|c g IH]; [reflexivity|]. cbn [rev]. rewrite msum_app, IH, !msum_cons. cbn. ring. Qed.

Lemma group_mean_rev g : group_mean (rev g) == group_mean g.
Proof. unfold group_mean. rewrite msum_rev, sumw_rev. reflexivity. Qed.

Lemma sumw_pos g : g <> [] -> (1 <= sumw g)%Z.
Proof. destruct g as [|c g]; [congruence|]. intros _. rewrite sumw_cons. pose proof (c_wz_pos c). pose proof (sumw_nonneg g). lia. Qed.

Lemma sumwQ_pos g : g <> [] -> 1 <= inject_Z (sumw g).
Proof. intros H. change 1 with (inject_Z 1). rewrite <- Zle_Qle. apply sumw_pos; auto. Qed.

Lemma msum_lb lo g : lbP lo g -> lo * inject_Z (sumw g) <= msum g.
Proof.
  induction g as [|c g IH]; intros L; [rewrite sumw_nil; change (msum []) with 0; change (inject_Z 0) with 0; lra|].
  rewrite sumw_cons, msum_cons, inject_Z_plus. fold (c_w c).
  assert (lo <= c_mean c) by (apply L; left; reflexivity).
  assert (lbP lo g) by (intros x Hx; apply L; right; auto).
  specialize (IH H0). pose proof (c_w_ge1 c). nra.
Qed.

Lemma msum_ub hi g : ubP hi g -> msum g <= hi * inject_Z (sumw g).
Proof.
  induction g as [|c g IH]; intros L; [rewrite sumw_nil; change (msum []) with 0; change (inject_Z 0) with 0; lra|].
  rewrite sumw_cons, msum_cons, inject_Z_plus. fold (c_w c).
  assert (c_mean c <= hi) by (apply L; left; reflexivity).
  assert (ubP hi g) by (intros x Hx; apply L; right; auto).
  specialize (IH H0). pose proof (c_w_ge1 c). nra.
Qed.

Lemma group_mean_lb lo g : g <> [] -> lbP lo g -> lo <= group_mean g.
Proof.
  intros Hne L. unfold group_mean. pose proof (sumwQ_pos g Hne). apply Qle_shift_div_l; [lra|]. apply msum_lb; auto.
Qed.

Lemma group_mean_ub hi g : g <> [] -> ubP hi g -> group_mean g <= hi.
Proof.
  intros Hne L. unfold group_mean. pose proof (sumwQ_pos g Hne). apply Qle_shift_div_r; [lra|]. apply msum_ub; auto.
Qed.

Lemma msum_red_eq g : msum_red g == msum g.
Proof.
  induction g as [|c g IH]; [reflexivity|]. unfold msum_red, msum in *. cbn [fold_right]. rewrite Qred_correct, IH. reflexivity.
Qed.

Lemma group_mean_red_eq g : group_mean_red g == group_mean g.
Proof. unfold group_mean_red, group_mean. rewrite msum_red_eq. reflexivity. Qed.

Lemma group_mean_single x : group_mean [x] == c_mean x.
Proof.
  unfold group_mean. rewrite msum_cons, sumw_cons. cbn [msum sumw fold_right]. rewrite Z.add_0_r. fold (c_w x).
  pose proof (c_w_ge1 x). field. lra.
Qed.

(* ---------- the normalised relation: groups of an ascending list ---------- *)
Definition fls (gs : list (list centroid)) : Prop :=
  gs = [] \/ (is_single (hd [] gs) = true /\ is_single (last gs []) = true).

Lemma fls_of_bool gs : first_last_single gs = true -> fls gs.
Proof.
  unfold first_last_single, fls. destruct gs as [|g gs]; [auto|]. intros H. apply andb_prop in H as [H1 H2]. right.
  split; [exact H1|]. rewrite (last_indep (g :: gs) [] g) by congruence. exact H2.
Qed.

Lemma is_single_rev {A} (g : list A) : is_single (rev g) = is_single g.
Proof. destruct g as [|a [|b g]]; try reflexivity. cbn [rev]. destruct (rev g) as [|? [|? ?]]; reflexivity. Qed.

Lemma map_nil_inv {A B} (f : A -> B) l : map f l = [] -> l = [].
Proof. destruct l; [auto|discriminate]. Qed.

Lemma last_map {A B} (f : A -> B) l d : last (map f l) (f d) = f (last l d).
Proof. induction l as [|a [|b l] IH]; try reflexivity. exact IH. Qed.

Lemma hd_map {A B} (f : A -> B) l d : hd (f d) (map f l) = f (hd d l).
Proof. destruct l; reflexivity. Qed.

Lemma fls_rev gs : fls gs -> fls (rev (map (@rev centroid) gs)).
Proof.
  intros [->|[H1 H2]]; [left; reflexivity|]. right. split.
  - rewrite hd_rev. change (@nil centroid) with (rev (@nil centroid)). rewrite last_map, is_single_rev. exact H2.
  - rewrite last_rev. change (@nil centroid) with (rev (@nil centroid)). rewrite hd_map, is_single_rev. exact H1.
Qed.

Definition grp (o : centroid) (g : list centroid) : Prop := snd o = Z.to_pos (sumw g) /\ c_mean o == group_mean g.

Definition grouped (s out : list centroid) (gs : list (list centroid)) : Prop :=
  concat gs = s /\ Forall (fun g => g <> []) gs /\ fls gs /\ Forall2 grp out gs.

Lemma rev_ne {A} (g : list A) : g <> [] -> rev g <> [].
Proof. destruct g; [congruence|]. intros _ E. cbn [rev] in E. apply app_eq_nil in E as [_ E]. discriminate. Qed.

Lemma grouped_rev s out gs : grouped s out gs -> grouped (rev s) (rev out) (rev (map (@rev centroid) gs)).
Proof.
  intros (C & N & F & G). split; [|split; [|split]].
  - rewrite concat_rev_map_rev, C. reflexivity.
  - apply Forall_rev. apply Forall_forall. intros g Hg. apply in_map_iff in Hg as (g0 & <- & Hg0).
    apply rev_ne. rewrite Forall_forall in N. apply N; auto.
  - apply fls_rev; auto.
  - rewrite <- map_rev. apply Forall2_map_r. apply Forall2_rev in G. eapply Forall2_impl; [|exact G].
    intros o g [H1 H2]. split; [rewrite sumw_rev; exact H1|rewrite group_mean_rev; exact H2].
Qed.

Lemma merge_rel_norm rv input out : merge_rel 0 rv input out ->
  input <> [] /\ exists gs, grouped (ssort input) out gs.
Proof.
  intros (Hne & gs & C & N & F & L & G). split; auto.
  assert (G' : Forall2 grp (orient rv out) gs).
  { eapply Forall2_impl; [|exact G]. intros o g [H1 H2]. split; auto.
    apply Qabs_Qle_condition in H2. lra. }
  apply fls_of_bool in F.
  destruct rv; cbn [orient] in *.
  - exists (rev (map (@rev centroid) gs)).
    pose proof (grouped_rev _ _ _ (conj C (conj N (conj F G')))) as H. rewrite !rev_involutive in H. exact H.
  - exists gs. split; [|split; [|split]]; auto.
Qed.

(* ---------- consequences ---------- *)
Lemma grouped_weights s out gs : grouped s out gs -> sumw out = sumw s.
Proof.
  intros (C & N & _ & G). subst s. induction G as [|o g out gs [H1 _] G IH]; [reflexivity|].
  inversion N; subst. cbn [concat]. rewrite sumw_cons, sumw_app, IH by auto.
  unfold c_wz. rewrite H1. rewrite Z2Pos.id by (pose proof (sumw_pos g H2); lia). reflexivity.
Qed.

Lemma grouped_lb lo s out gs : grouped s out gs -> lbP lo s -> lbP lo out.
Proof.
  intros (C & N & _ & G) L. subst s. induction G as [|o g out gs [_ H2] G IH]; [intros ? []|].
  inversion N; subst. cbn [concat] in L. apply lbP_app in L as [L1 L2].
  intros c [<-|Hc]; [rewrite H2; apply group_mean_lb; auto|apply IH; auto].
Qed.

Lemma grouped_ub hi s out gs : grouped s out gs -> ubP hi s -> ubP hi out.
Proof.
  intros (C & N & _ & G) L. subst s. induction G as [|o g out gs [_ H2] G IH]; [intros ? []|].
  inversion N; subst. cbn [concat] in L. apply ubP_app in L as [L1 L2].
  intros c [<-|Hc]; [rewrite H2; apply group_mean_ub; auto|apply IH; auto].
Qed.

(* bounds only need the Forall2 part *)
Lemma groups_lb lo out gs : Forall (fun g => g <> []) gs -> Forall2 grp out gs -> lbP lo (concat gs) -> lbP lo out.
Proof.
  intros N G. induction G as [|o g out gs [_ H2] G IH]; intros L; [intros ? []|].
  inversion N; subst. cbn [concat] in L. apply lbP_app in L as [L1 L2].
  intros c [<-|Hc]; [rewrite H2; apply group_mean_lb; auto|apply IH; auto].
Qed.

Lemma grouped_sorted s out gs : grouped s out gs -> ssorted s -> ssorted out.
Proof.
  intros (C & N & _ & G) S. subst s. induction G as [|o g out gs [_ H2] G IH]; [exact I|].
  inversion N; subst. cbn [concat] in S. apply ssorted_app in S as (S1 & S2 & S3). cbn [ssorted]. split.
  - apply (groups_lb (c_mean o) out gs); auto.
    intros y Hy. rewrite H2. apply group_mean_ub; auto. intros x Hx. apply S3; auto.
  - apply IH; auto.
Qed.

(* the first output centroid is the first (smallest) input element *)
Lemma grouped_head x s out gs : grouped (x :: s) out gs ->
  exists o out', out = o :: out' /\ snd o = snd x /\ c_mean o == c_mean x.
Proof.
  intros (C & N & F & G). destruct G as [|o g out gs [H1 H2] G]; [discriminate|].
  destruct F as [F|[F _]]; [discriminate|]. cbn [hd] in F.
  destruct g as [|y [|z g]]; try discriminate. cbn [concat app] in C. inversion C; subst y.
  exists o, out. split; [reflexivity|]. split.
  - rewrite H1, sumw_cons. cbn [sumw fold_right]. rewrite Z.add_0_r. unfold c_wz. apply Pos2Z.id.
  - rewrite H2. apply group_mean_single.
Qed.

(* ---------- the theorems about one pass ---------- *)
Theorem merge_weights rv input out : merge_rel 0 rv input out -> sumw out = sumw input.
Proof.
  intros H. destruct (merge_rel_norm _ _ _ H) as (_ & gs & G). rewrite (grouped_weights _ _ _ G).
  apply sumw_perm, ssort_perm.
Qed.

Theorem merge_sorted rv input out : merge_rel 0 rv input out -> sortedP out.
Proof.
  intros H. destruct (merge_rel_norm _ _ _ H) as (_ & gs & G). apply ssorted_sortedP.
  eapply grouped_sorted; [exact G|apply ssort_sorted].
Qed.

Theorem merge_in_range rv input out lo hi : merge_rel 0 rv input out ->
  lbP lo input -> ubP hi input -> lbP lo out /\ ubP hi out.
Proof.
  intros H L U. destruct (merge_rel_norm _ _ _ H) as (_ & gs & G). split.
  - eapply grouped_lb; [exact G|]. eapply lbP_perm; [apply Permutation_sym, ssort_perm|exact L].
  - eapply grouped_ub; [exact G|]. intros c Hc. apply U. eapply Permutation_in; [apply ssort_perm|exact Hc].
Qed.

Lemma merge_out_ne rv input out : merge_rel 0 rv input out -> out <> [].
Proof.
  intros H. destruct (merge_rel_norm _ _ _ H) as (Hne & gs & G). pose proof (grouped_weights _ _ _ G) as W.
  intros ->. rewrite (sumw_perm _ _ (ssort_perm input)) in W. pose proof (sumw_pos input Hne). cbn in W. lia.
Qed.

(* first centroid = a minimal input element (weight and mean), last centroid = a maximal one *)
Theorem merge_extremes rv input out : merge_rel 0 rv input out ->
  (exists c, In c input /\ lbP (c_mean c) input /\ snd (firstc out) = snd c /\ c_mean (firstc out) == c_mean c) /\
  (exists c, In c input /\ ubP (c_mean c) input /\ snd (lastc out) = snd c /\ c_mean (lastc out) == c_mean c).
Proof.
  intros H. destruct (merge_rel_norm _ _ _ H) as (Hne & gs & G).
  pose proof (ssort_perm input) as P. pose proof (ssort_sorted input) as S. split.
  - destruct (ssort input) as [|x s] eqn:E.
    { apply Permutation_nil in P. congruence. }
    destruct (grouped_head x s out gs G) as (o & out' & -> & H1 & H2).
    exists x. split; [eapply Permutation_in; [exact P|left; reflexivity]|]. split.
    + eapply lbP_perm; [exact P|]. destruct S as [S1 _]. intros c [<-|Hc]; [lra|apply S1; auto].
    + unfold firstc, nthc. cbn [nth]. auto.
  - apply grouped_rev in G.
    assert (S' : forall c, In c (ssort input) -> c_mean c <= c_mean (hd dflt (rev (ssort input)))).
    { intros c Hc. rewrite hd_rev. destruct (In_nth _ _ dflt Hc) as (i & Hi & <-).
      pose proof (sortedP_nth _ (ssorted_sortedP _ S) i (length (ssort input) - 1) ltac:(lia) ltac:(lia)) as HH.
      unfold nthc in HH.
      rewrite last_nth. exact HH. }
    destruct (rev (ssort input)) as [|x s] eqn:E.
    { apply (f_equal (@length _)) in E. rewrite rev_length in E. cbn in E. apply Permutation_length in P.
      destruct input; [congruence|]. cbn in *. lia. }
    destruct (grouped_head x s _ _ G) as (o & out' & Eo & H1 & H2).
    assert (Hx : In x (ssort input)) by (apply in_rev; rewrite E; left; reflexivity).
    exists x. split; [eapply Permutation_in; [exact P|exact Hx]|]. split.
    + intros c Hc. cbn [hd] in S'. apply S'. eapply Permutation_in; [apply Permutation_sym; exact P|exact Hc].
    + assert (lastc out = o).
      { unfold lastc, nthc. rewrite <- (rev_involutive out), Eo. cbn [rev]. rewrite app_length. cbn [length].
        replace (length (rev out') + 1 - 1)%nat with (length (rev out')) by lia. rewrite app_nth2 by lia.
        rewrite Nat.sub_diag. reflexivity. }
      rewrite H0. auto.
Qed.

(* ---------- soundness of the checker ---------- *)
Lemma take_weight_spec : forall fuel w l g rest, take_weight fuel w l = Some (g, rest) ->
  l = g ++ rest /\ sumw g = w /\ g <> [].
Proof.
  induction fuel as [|f IH]; intros w l g rest H; [discriminate|]. cbn [take_weight] in H.
  destruct l as [|c r]; [discriminate|].
  destruct (c_wz c =? w)%Z eqn:E1.
  - inversion H; subst. apply Z.eqb_eq in E1. split; [reflexivity|]. split; [rewrite sumw_cons; cbn; lia|congruence].
  - destruct (c_wz c <? w)%Z; [|discriminate].
    destruct (take_weight f (w - c_wz c) r) as [[g' rest']|] eqn:E2; [|discriminate]. inversion H; subst.
    apply IH in E2 as (-> & E3 & _). split; [reflexivity|]. split; [rewrite sumw_cons; lia|congruence].
Qed.

Lemma group_by_out_spec : forall out s gs, group_by_out s out = Some gs ->
  concat gs = s /\ Forall (fun g => g <> []) gs /\ Forall2 (fun o g => c_wz o = sumw g) out gs.
Proof.
  induction out as [|o out IH]; intros s gs H; cbn [group_by_out] in H.
  - destruct s; [|discriminate]. inversion H; subst. split; [reflexivity|]. split; constructor.
  - destruct (take_weight (S (length s)) (c_wz o) s) as [[g rest]|] eqn:E; [|discriminate].
    destruct (group_by_out rest out) as [gs'|] eqn:E2; [|discriminate]. inversion H; subst.
    apply take_weight_spec in E as (-> & E3 & E4). apply IH in E2 as (<- & N & G).
    split; [reflexivity|]. split; constructor; auto.
Qed.

Lemma forallb_combine {A B} (P : A -> B -> Prop) (f : A * B -> bool) a b :
  Forall2 P a b -> forallb f (combine a b) = true -> Forall2 (fun x y => P x y /\ f (x, y) = true) a b.
Proof.
  induction 1 as [|x y a b Hxy HF IH]; intros Hb; [constructor|]. cbn [combine forallb] in Hb. apply andb_prop in Hb as [H1 H2].
  constructor; auto.
Qed.

Theorem valid_merge_sound eps rv input out : valid_merge eps rv input out = true -> merge_rel eps rv input out.
Proof.
  unfold valid_merge, merge_rel. intros H. destruct input as [|c0 input0] eqn:Ei; [discriminate|]. rewrite <- Ei in *.
  split; [rewrite Ei; congruence|].
  destruct (group_by_out _ _) as [gs|] eqn:E; [|discriminate]. apply andb_prop in H as [H1 H2].
  apply group_by_out_spec in E as (C & N & G). exists gs. split; [exact C|]. split; [exact N|]. split; [exact H1|].
  split.
  - rewrite <- (Forall2_len _ _ _ G). destruct rv; cbn [orient]; [apply rev_length|reflexivity].
  - pose proof (forallb_combine _ _ _ _ G H2) as G2. eapply Forall2_impl; [|exact G2].
    intros o g [A B]. cbn [fst snd] in B. split.
    + unfold c_wz in A. rewrite <- A. symmetry. apply Pos2Z.id.
    + unfold close in B. apply Qle_bool_iff in B. rewrite group_mean_red_eq in B. exact B.
Qed.
