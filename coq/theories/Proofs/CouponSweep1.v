From DS Require Import Base.Prelude Proofs.CouponSweepDefs.
Open Scope N_scope.
Lemma sweep_chunk1 : sweep (1 * 49152) CHUNK = true.
Proof. vm_compute. reflexivity. Qed.
