(* HLL: no valid API sequence reaches a modelled panic site (C17 part): restatements of the
   refinement theorems of C02 / C03 / C11 / C14 as "never Stuck". *)
From DS Require Import Base.Prelude Model.Hll Model.HllUnion Model.HllCodec Proofs.HllBase Proofs.HllArray4 Proofs.HllRefine
  Proofs.HllUnionProofs Proofs.HllCodecProofs.
From Coq Require Import ZifyBool ZifyNat ZifyN.
Open Scope N_scope.

(* HllSketch::new panics exactly outside 4..=21 (the documented precondition) *)
Lemma new_stuck_iff : forall lgk t, hll_new lgk t = Stuck <-> ~ (4 <= lgk <= 21).
Proof.
  intros lgk t. unfold hll_new, sketch_new.
  destruct (N.leb_spec 4 lgk) as [H4|H4]; destruct (N.leb_spec lgk 21) as [H21|H21]; cbn [andb]; split; intros H;
    try discriminate; try reflexivity; try lia.
Qed.

(* updates: any stream of coupons, any type, any lg_k in range *)
Lemma updates_never_stuck : forall lgk t cs, 4 <= lgk <= 21 -> Forall valid cs ->
  exists s, run_stream hip_new hip_update hip_carry lgk t cs = Ok s.
Proof. intros lgk t cs H Hv. destruct (hll_refines hip hip_new hip_update hip_carry lgk t cs H Hv) as (s & Hs & _). now exists s. Qed.

(* unions: any sequence of update / update_value / reset on well-formed inputs, then to_sketch of any type *)
Lemma union_never_stuck : forall lg_max ops t, 4 <= lg_max <= 21 -> Forall uop_ok ops ->
  exists u0 u r, union_new lg_max = Ok u0 /\ uops_run ops u0 = Ok u /\ union_to_sketch u t = Ok r.
Proof.
  intros lg_max ops t H Hok. destruct (to_sketch_type_independent lg_max ops t H Hok) as (u0 & u & r & r8 & A & B & C & _).
  exists u0, u, r. repeat split; assumption.
Qed.

(* serialize / deserialize of any reachable sketch: never a panic site; and Ok whenever the estimator
   fields pass the reader's finiteness check (est_ok, a hypothesis: see HllCodecProofs.est_fields_ok) *)
Lemma roundtrip_never_stuck : forall lgk t cs, 4 <= lgk <= 21 -> Forall valid cs ->
  exists s, run_stream hip_new hip_update hip_carry lgk t cs = Ok s /\ hll_deserialize (hll_serialize s) <> Stuck /\
    (est_ok s -> exists s', hll_deserialize (hll_serialize s) = Ok s').
Proof.
  intros lgk t cs H Hv. destruct (hll_roundtrip_of_stream lgk t cs H Hv) as (s & A & B). exists s. split; [assumption|].
  split; [apply hll_deserialize_total|]. intros He. destruct (B He) as (s' & Hd & _). now exists s'.
Qed.

(* a deserialized (canonical) sketch under further updates: never a panic site *)
Lemma deserialized_updates_never_stuck : forall bs s us, BOK bs -> hll_deserialize bs = Ok s -> image_canonical s ->
  Forall valid us -> exists s', update_all hip_new hip_update hip_carry us s = Ok s'.
Proof.
  intros bs s us HB Hd Hc Hus. destruct (hll_deserialize_src_ok bs s HB Hd Hc) as (cs & HS).
  destruct (src_updates _ _ cs s us HS Hus) as (s' & Hr & _). now exists s'.
Qed.

(* a deserialized (canonical) sketch is an admissible union input: the hypothesis uop_ok of
   union_never_stuck and of every C03 theorem is met by what the reader returns *)
Lemma deserialized_is_union_input : forall bs s, BOK bs -> hll_deserialize bs = Ok s -> image_canonical s ->
  exists i, uop_ok (UMerge i s).
Proof.
  intros bs s HB Hd Hc. destruct (hll_deserialize_src_ok bs s HB Hd Hc) as (cs & HS).
  exists (mkIn (sk_lgk s) (tag_flag (sk_tag s)) cs). exact HS.
Qed.
