(* Proofs about Model/Freq.v PART A (the abstract Frequent Items sketch): the bracket
   invariant and the potential argument of DESIGN.md Appendix B.7, for arbitrary samples
   and arbitrary replay orders, over arbitrary histories and merge trees. *)
From DS Require Import Base.Prelude Model.Freq.
From Coq Require Import Permutation.
Open Scope N_scope.

(* ---------- constants ---------- *)
Lemma LG_MIN_val : LG_MIN = 3. Proof. reflexivity. Qed.
Lemma LOAD_NUM_val : LOAD_NUM = 3. Proof. reflexivity. Qed.
Lemma LOAD_DEN_val : LOAD_DEN = 4. Proof. reflexivity. Qed.
Lemma SAMPLE_SIZE_val : SAMPLE_SIZE = 1024. Proof. reflexivity. Qed.
Lemma MAX_SAMPLE_SIZE_val : MAX_SAMPLE_SIZE = 1024. Proof. reflexivity. Qed.
(* EPSILON_FACTOR = 3.5 = 7/2 : the constant of the epsilon theorem *)
Lemma EPSILON_FACTOR_val : Gen.GenFreq.EPSILON_FACTOR_bits = 0x400C000000000000%Z. Proof. reflexivity. Qed.

Lemma pow2_split : forall lg, 3 <= lg -> 2 ^ lg = 8 * 2 ^ (lg - 3).
Proof.
  intros lg H. replace lg with (3 + (lg - 3)) at 1 by lia. rewrite N.pow_add_r. reflexivity.
Qed.

Lemma cap_val : forall lg, 3 <= lg -> cap_of_lg lg = 6 * 2 ^ (lg - 3).
Proof.
  intros lg H. unfold cap_of_lg. rewrite LOAD_NUM_val, LOAD_DEN_val, (pow2_split lg H).
  replace (8 * 2 ^ (lg - 3) * 3) with ((6 * 2 ^ (lg - 3)) * 4) by lia.
  apply N.div_mul. lia.
Qed.

Lemma pow2_pos : forall n, 1 <= 2 ^ n.
Proof. intros. assert (2 ^ n <> 0) by (apply N.pow_nonzero; lia). lia. Qed.

Lemma cap_ge6 : forall lg, 3 <= lg -> 6 <= cap_of_lg lg.
Proof. intros lg H. rewrite (cap_val lg H). pose proof (pow2_pos (lg - 3)). lia. Qed.

Lemma cap_succ : forall lg, 3 <= lg -> cap_of_lg lg + 1 <= cap_of_lg (lg + 1).
Proof.
  intros lg H. rewrite (cap_val lg H), (cap_val (lg + 1)) by lia.
  replace (lg + 1 - 3) with (1 + (lg - 3)) by lia. rewrite N.pow_add_r.
  pose proof (pow2_pos (lg - 3)). lia.
Qed.

(* the sample length of a purge at a full table of lg_max = lg, and the number of sampled
   counters that are >= the upper median *)
Definition sample_len (lg : N) : N := N.min (N.min SAMPLE_SIZE (cap_of_lg lg)) MAX_SAMPLE_SIZE.
Definition half_sample (lg : N) : N := sample_len lg - sample_len lg / 2.

Lemma sample_len_ge6 : forall lg, 3 <= lg -> 6 <= sample_len lg.
Proof.
  intros lg H. unfold sample_len. rewrite SAMPLE_SIZE_val, MAX_SAMPLE_SIZE_val.
  pose proof (cap_ge6 lg H). lia.
Qed.

Lemma half_sample_ge1 : forall lg, 3 <= lg -> 1 <= half_sample lg.
Proof.
  intros lg H. unfold half_sample. pose proof (sample_len_ge6 lg H).
  assert (sample_len lg / 2 < sample_len lg) by (apply N.div_lt; lia). lia.
Qed.

(* map sizes up to 1024: the sample is the whole capacity 3M/4 and half of it is 3M/8 *)
Lemma half_sample_small : forall lg, 3 <= lg -> lg <= 10 -> half_sample lg = 3 * 2 ^ (lg - 3).
Proof.
  intros lg H3 H10. unfold half_sample, sample_len. rewrite SAMPLE_SIZE_val, MAX_SAMPLE_SIZE_val, (cap_val lg H3).
  assert (2 ^ (lg - 3) <= 2 ^ 7) by (apply N.pow_le_mono_r; lia).
  change (2 ^ 7) with 128 in H.
  rewrite (N.min_r 1024 (6 * 2 ^ (lg - 3))) by lia. rewrite N.min_l by lia.
  replace (6 * 2 ^ (lg - 3)) with ((3 * 2 ^ (lg - 3)) * 2) by lia.
  rewrite N.div_mul by lia. lia.
Qed.

(* larger maps: the sample is capped at 1024, only 512 counters are guaranteed to be >= the median *)
Lemma half_sample_large : forall lg, 11 <= lg -> half_sample lg = 512.
Proof.
  intros lg H. unfold half_sample, sample_len. rewrite SAMPLE_SIZE_val, MAX_SAMPLE_SIZE_val, (cap_val lg) by lia.
  assert (2 ^ 8 <= 2 ^ (lg - 3)) by (apply N.pow_le_mono_r; lia).
  change (2 ^ 8) with 256 in H0.
  rewrite (N.min_l 1024) by lia. rewrite N.min_l by lia. reflexivity.
Qed.

(* ---------- counter lists ---------- *)
Definition keys (cs : counters) : list Z := map fst cs.
Definition allpos (cs : counters) : Prop := Forall (fun p => 0 < snd p) cs.

Lemma cs_get_notin : forall cs x, ~ In x (keys cs) -> cs_get cs x = 0.
Proof.
  induction cs as [|[k v] r IH]; intros x Hn; cbn [cs_get]; [reflexivity|].
  cbn [keys map fst In] in Hn. destruct (Z.eqb_spec x k) as [->|Hne].
  - exfalso. apply Hn. left. reflexivity.
  - apply IH. intro Hin. apply Hn. right. exact Hin.
Qed.

Lemma cs_get_add : forall cs x w y,
  cs_get (cs_add cs x w) y = if Z.eqb y x then cs_get cs x + w else cs_get cs y.
Proof.
  induction cs as [|[k v] r IH]; intros x w y; cbn [cs_add cs_get].
  - destruct (Z.eqb_spec y x); reflexivity.
  - destruct (Z.eqb_spec x k) as [->|Hxk]; cbn [cs_get].
    + destruct (Z.eqb_spec y k) as [->|Hyk]; reflexivity.
    + rewrite IH. destruct (Z.eqb_spec y k) as [->|Hyk].
      * destruct (Z.eqb_spec k x) as [E|_]; [congruence|reflexivity].
      * reflexivity.
Qed.

Lemma keys_add : forall cs x w k, In k (keys (cs_add cs x w)) <-> k = x \/ In k (keys cs).
Proof.
  induction cs as [|[k0 v] r IH]; intros x w k; cbn [cs_add].
  - cbn. intuition.
  - destruct (Z.eqb_spec x k0) as [->|Hne]; cbn [keys map fst In].
    + intuition.
    + fold (keys (cs_add r x w)). fold (keys r). rewrite IH. intuition.
Qed.

Lemma nodup_add : forall cs x w, NoDup (keys cs) -> NoDup (keys (cs_add cs x w)).
Proof.
  induction cs as [|[k0 v] r IH]; intros x w Hnd; cbn [cs_add].
  - cbn. constructor; [intros []|constructor].
  - destruct (Z.eqb_spec x k0) as [->|Hne]; cbn [keys map fst] in *.
    + exact Hnd.
    + inversion Hnd as [|? ? Hnin Hnd']; subst. constructor.
      * fold (keys (cs_add r x w)). rewrite keys_add. intros [E|Hin]; [congruence|exact (Hnin Hin)].
      * apply IH. exact Hnd'.
Qed.

Lemma allpos_add : forall cs x w, 0 < w -> allpos cs -> allpos (cs_add cs x w).
Proof.
  induction cs as [|[k0 v] r IH]; intros x w Hw Hp; cbn [cs_add].
  - constructor; [exact Hw|constructor].
  - inversion Hp as [|? ? Hv Hr]; subst. destruct (Z.eqb x k0).
    + constructor; [cbn [snd] in *; lia|exact Hr].
    + constructor; [exact Hv|apply IH; assumption].
Qed.

Lemma length_add : forall cs x w, (length (cs_add cs x w) <= S (length cs))%nat.
Proof.
  induction cs as [|[k0 v] r IH]; intros x w; cbn [cs_add].
  - cbn. lia.
  - destruct (Z.eqb x k0); cbn [length]; [lia|]. specialize (IH x w). lia.
Qed.

Lemma length_add_ge : forall cs x w, (length cs <= length (cs_add cs x w))%nat.
Proof.
  induction cs as [|[k0 v] r IH]; intros x w; cbn [cs_add].
  - cbn. lia.
  - destruct (Z.eqb x k0); cbn [length]; [lia|]. specialize (IH x w). lia.
Qed.

Lemma sum_add : forall cs x w, cs_sum (cs_add cs x w) = cs_sum cs + w.
Proof.
  unfold cs_sum. induction cs as [|[k0 v] r IH]; intros x w; cbn [cs_add].
  - cbn [map snd sumN]. lia.
  - destruct (Z.eqb x k0); cbn [map snd sumN]; [lia|]. rewrite IH. lia.
Qed.

(* cs_sub, one element at a time *)
Lemma cs_sub_cons : forall m k v r,
  cs_sub m ((k, v) :: r) = if 0 <? v - m then (k, v - m) :: cs_sub m r else cs_sub m r.
Proof. intros. unfold cs_sub. cbn [map filter fst snd]. reflexivity. Qed.

Lemma keys_sub : forall m cs k, In k (keys (cs_sub m cs)) -> In k (keys cs).
Proof.
  induction cs as [|[k0 v] r IH]; intros k Hin; [exact Hin|].
  rewrite cs_sub_cons in Hin. cbn [keys map fst In]. destruct (0 <? v - m).
  - cbn [keys map fst In] in Hin. destruct Hin as [E|Hin]; [left; exact E|right; apply IH; exact Hin].
  - right. apply IH. exact Hin.
Qed.

Lemma nodup_sub : forall m cs, NoDup (keys cs) -> NoDup (keys (cs_sub m cs)).
Proof.
  induction cs as [|[k0 v] r IH]; intros Hnd; [exact Hnd|].
  rewrite cs_sub_cons. cbn [keys map fst] in Hnd. inversion Hnd as [|? ? Hnin Hnd']; subst.
  destruct (0 <? v - m); [|apply IH; exact Hnd'].
  cbn [keys map fst]. constructor; [|apply IH; exact Hnd'].
  intro Hin. apply Hnin. apply (keys_sub m). exact Hin.
Qed.

Lemma allpos_sub : forall m cs, allpos (cs_sub m cs).
Proof.
  intros m cs. unfold allpos, cs_sub. apply Forall_forall. intros p Hin.
  apply filter_In in Hin. destruct Hin as [_ H]. apply N.ltb_lt in H. exact H.
Qed.

Lemma cs_get_sub : forall m cs y, NoDup (keys cs) -> cs_get (cs_sub m cs) y = cs_get cs y - m.
Proof.
  induction cs as [|[k0 v] r IH]; intros y Hnd; [cbn; lia|].
  cbn [keys map fst] in Hnd. inversion Hnd as [|? ? Hnin Hnd']; subst.
  rewrite cs_sub_cons. cbn [cs_get]. destruct (N.ltb_spec 0 (v - m)) as [Hpos|Hz]; cbn [cs_get].
  - destruct (Z.eqb y k0); [reflexivity|apply IH; exact Hnd'].
  - destruct (Z.eqb_spec y k0) as [->|Hne]; [|apply IH; exact Hnd'].
    rewrite IH by exact Hnd'. rewrite (cs_get_notin r k0 Hnin). lia.
Qed.

(* counting *)
Lemma count_if_cons : forall f x l, count_if f (x :: l) = (if f x then 1 else 0) + count_if f l.
Proof. intros. unfold count_if. cbn [filter]. destruct (f x); cbn [length]; lia. Qed.

Lemma count_if_nil : forall f, count_if f [] = 0.
Proof. reflexivity. Qed.

Lemma count_lt_ge : forall m l, count_lt m l + count_ge m l = N.of_nat (length l).
Proof.
  intros m. unfold count_lt, count_ge. induction l as [|x l IH]; [reflexivity|].
  rewrite !count_if_cons. cbn [length]. destruct (N.ltb_spec x m); destruct (N.leb_spec m x); lia.
Qed.

(* each purge takes m * #{c >= m} out of the counters *)
Lemma sum_sub : forall m cs, cs_sum (cs_sub m cs) + m * count_ge m (map snd cs) <= cs_sum cs.
Proof.
  intros m. unfold count_ge. induction cs as [|[k0 v] r IH]; [cbn; lia|].
  rewrite cs_sub_cons. cbn [map snd]. rewrite count_if_cons. unfold cs_sum in *. cbn [map snd sumN].
  destruct (N.ltb_spec 0 (v - m)); destruct (N.leb_spec m v); cbn [map snd sumN]; lia.
Qed.

(* a counter equal to the purge amount is removed *)
Lemma length_sub : forall m cs, In m (map snd cs) -> (S (length (cs_sub m cs)) <= length cs)%nat.
Proof.
  assert (Hle : forall m cs, (length (cs_sub m cs) <= length cs)%nat).
  { intros m. induction cs as [|[k0 v] r IH]; [cbn; lia|].
    rewrite cs_sub_cons. destruct (0 <? v - m); cbn [length]; lia. }
  intros m. induction cs as [|[k0 v] r IH]; intros Hin; [destruct Hin|].
  rewrite cs_sub_cons. cbn [map snd In] in Hin. destruct Hin as [E|Hin].
  - subst v. rewrite N.sub_diag. cbn [N.ltb]. replace (0 <? 0) with false by reflexivity.
    cbn [length]. specialize (Hle m r). lia.
  - specialize (IH Hin). destruct (0 <? v - m); cbn [length]; lia.
Qed.

(* ---------- median and sub-multiset ---------- *)
Lemma median_spec : forall l m, median_of l = Some m ->
  In m l /\ N.of_nat (length l) - N.of_nat (length l) / 2 <= count_ge m l.
Proof.
  intros l m H. unfold median_of in H. apply find_some in H. destruct H as [Hin Hm].
  split; [exact Hin|]. unfold is_median in Hm. apply andb_true_iff in Hm. destruct Hm as [H1 _].
  apply N.leb_le in H1. pose proof (count_lt_ge m l). lia.
Qed.

Lemma remove_one_spec : forall v l l', remove_one v l = Some l' ->
  In v l /\ (forall f, count_if f l = (if f v then 1 else 0) + count_if f l').
Proof.
  intros v. induction l as [|x r IH]; intros l' H; [discriminate|].
  cbn [remove_one] in H. destruct (N.eqb_spec x v) as [->|Hne].
  - inversion H; subst. split; [left; reflexivity|]. intros f. apply count_if_cons.
  - destruct (remove_one v r) as [r'|] eqn:E; [|discriminate]. inversion H; subst.
    destruct (IH r' eq_refl) as [Hin Hc]. split; [right; exact Hin|].
    intros f. rewrite !count_if_cons, Hc. lia.
Qed.

Lemma submset_spec : forall s l, submset s l = true ->
  (forall v, In v s -> In v l) /\ (forall f, count_if f s <= count_if f l).
Proof.
  induction s as [|v s IH]; intros l H.
  - split; [intros ? []|]. intros f. rewrite count_if_nil. lia.
  - cbn [submset] in H. destruct (remove_one v l) as [l'|] eqn:E; [|discriminate].
    destruct (remove_one_spec v l l' E) as [Hin Hc]. destruct (IH l' H) as [Hi Hcs]. split.
    + intros u [->|Hu]; [exact Hin|].
      specialize (Hi u Hu).
      (* l' is l with one element removed *)
      clear - E Hi. revert l' E Hi. induction l as [|x r IHl]; intros l' E Hi; [discriminate|].
      cbn [remove_one] in E. destruct (x =? v).
      * inversion E; subst. right. exact Hi.
      * destruct (remove_one v r) as [r'|] eqn:E'; [|discriminate]. inversion E; subst.
        destruct Hi as [->|Hi]; [left; reflexivity|right; apply (IHl r' eq_refl Hi)].
    + intros f. rewrite count_if_cons, Hc. specialize (Hcs f). lia.
Qed.

(* ---------- the invariant ---------- *)
(* [f] the true frequencies, [W] the true total weight, [hm] a number of counters every purge is
   guaranteed to hit, [k] slack on the capacity (1 between adjust_or_put and resize-or-purge) *)
Record Good (k : N) (f : Z -> N) (W hm : N) (s : fi) : Prop := mkGood {
  g_nodup : NoDup (keys (fi_cs s));
  g_pos : allpos (fi_cs s);
  g_br : forall x, cs_get (fi_cs s) x <= f x /\ f x <= cs_get (fi_cs s) x + fi_offset s;
  g_pot : fi_offset s * hm + cs_sum (fi_cs s) <= W;
  g_lgmin : LG_MIN <= fi_lg_cur s;
  g_lgmax : fi_lg_cur s <= fi_lg_max s;
  g_cap : fi_num_active s <= fi_cur_cap s + k;
  g_hm1 : 1 <= hm;
  g_hm : hm <= half_sample (fi_lg_max s)
}.

Lemma good_ext : forall k f g W hm s, (forall x, f x = g x) -> Good k f W hm s -> Good k g W hm s.
Proof.
  intros k f g W hm s E [H1 H2 H3 H4 H5 H6 H7 H8 H9]. constructor; try assumption.
  intros x. rewrite <- E. apply H3.
Qed.

Lemma good_weaken : forall k f W hm hm' s, 1 <= hm' -> hm' <= hm -> Good k f W hm s -> Good k f W hm' s.
Proof.
  intros k f W hm hm' s L1 L2 [H1 H2 H3 H4 H5 H6 H7 H8 H9]. constructor; try assumption; try lia.
  assert (fi_offset s * hm' <= fi_offset s * hm) by (apply N.mul_le_mono_l; exact L2). lia.
Qed.

Lemma good_new : forall lg, Good 0 (fun _ => 0) 0 (half_sample (N.max lg LG_MIN)) (fi_new_lg lg).
Proof.
  intros lg. unfold fi_new_lg, fi_with_lg. constructor; cbn [fi_cs fi_offset fi_lg_cur fi_lg_max].
  - constructor.
  - constructor.
  - intros x. cbn. lia.
  - cbn. lia.
  - lia.
  - lia.
  - unfold fi_num_active, fi_cur_cap. cbn [fi_cs length fi_lg_cur]. lia.
  - apply half_sample_ge1. rewrite LG_MIN_val. lia.
  - lia.
Qed.

(* a purge of a table that is one over its (maximal) capacity *)
Lemma purge_good : forall f W hm s smp s',
  Good 1 f W hm s -> fi_lg_cur s = fi_lg_max s -> fi_cur_cap s < fi_num_active s ->
  fi_purge smp s = Some s' ->
  Good 0 f W hm s' /\ fi_weight s' = fi_weight s /\ fi_lg_max s' = fi_lg_max s.
Proof.
  intros f W hm s smp s' [Hnd Hpos Hbr Hpot Hlgmin Hlgmax Hcap Hhm1 Hhm] Hfull Hover Hp.
  unfold fi_purge in Hp.
  destruct ((N.of_nat (length smp) =? fi_purge_limit s) && submset smp (map snd (fi_cs s))) eqn:Hc; [|discriminate].
  apply andb_true_iff in Hc. destruct Hc as [Hlen Hsub]. apply N.eqb_eq in Hlen.
  destruct (median_of smp) as [m|] eqn:Hmed; [|discriminate]. inversion Hp; subst s'; clear Hp.
  destruct (median_spec smp m Hmed) as [Hin Hge].
  destruct (submset_spec smp (map snd (fi_cs s)) Hsub) as [Hincl Hcnt].
  (* the sample has the full length *)
  assert (H3 : 3 <= fi_lg_max s) by (rewrite LG_MIN_val in Hlgmin; lia).
  assert (Hlim : fi_purge_limit s = sample_len (fi_lg_max s)).
  { unfold fi_purge_limit, sample_len, fi_sample_size, fi_max_cap.
    unfold fi_cur_cap in Hover. rewrite Hfull in Hover. lia. }
  assert (Hhit : hm <= count_ge m (map snd (fi_cs s))).
  { specialize (Hcnt (fun v => m <=? v)). fold (count_ge m smp) in Hcnt.
    fold (count_ge m (map snd (fi_cs s))) in Hcnt.
    unfold half_sample in Hhm. rewrite <- Hlim, <- Hlen in Hhm. lia. }
  split; [|split; reflexivity].
  constructor; cbn [fi_cs fi_offset fi_lg_cur fi_lg_max]; try assumption.
  - apply nodup_sub. exact Hnd.
  - apply allpos_sub.
  - intros x. rewrite cs_get_sub by exact Hnd. destruct (Hbr x) as [Hl Hu]. lia.
  - pose proof (sum_sub m (fi_cs s)) as Hs.
    assert (m * hm <= m * count_ge m (map snd (fi_cs s))) by (apply N.mul_le_mono_l; exact Hhit). lia.
  - unfold fi_num_active, fi_cur_cap in *. cbn [fi_cs fi_lg_cur].
    pose proof (length_sub m (fi_cs s) (Hincl m Hin)). lia.
Qed.

Lemma rop_good : forall f W hm s tape s' tape',
  Good 1 f W hm s -> fi_resize_or_purge tape s = Some (s', tape') ->
  Good 0 f W hm s' /\ fi_weight s' = fi_weight s /\ fi_lg_max s' = fi_lg_max s.
Proof.
  intros f W hm s tape s' tape' HG H. unfold fi_resize_or_purge in H.
  destruct (N.ltb_spec (fi_cur_cap s) (fi_num_active s)) as [Hover|Hfit].
  - destruct (N.ltb_spec (fi_lg_cur s) (fi_lg_max s)) as [Hgrow|Hmax].
    + inversion H; subst; clear H. split; [|split; reflexivity].
      destruct HG as [Hnd Hpos Hbr Hpot Hlgmin Hlgmax Hcap Hhm1 Hhm].
      constructor; cbn [fi_cs fi_offset fi_lg_cur fi_lg_max]; try assumption; try lia.
      unfold fi_num_active, fi_cur_cap in *. cbn [fi_cs fi_lg_cur].
      assert (3 <= fi_lg_cur s) by (rewrite LG_MIN_val in Hlgmin; lia).
      pose proof (cap_succ (fi_lg_cur s) H). lia.
    + destruct tape as [|smp tape0]; [discriminate|].
      destruct (fi_purge smp s) as [s1|] eqn:Hp; [|discriminate]. inversion H; subst; clear H.
      apply (purge_good f W hm s smp s' HG); [|exact Hover|exact Hp].
      destruct HG. lia.
  - inversion H; subst; clear H. split; [|split; reflexivity].
    destruct HG as [Hnd Hpos Hbr Hpot Hlgmin Hlgmax Hcap Hhm1 Hhm].
    constructor; try assumption. lia.
Qed.

Definition fadd (f : Z -> N) (x : Z) (w : N) : Z -> N := fun y => (if Z.eqb y x then w else 0) + f y.

Lemma update_good : forall f W hm s tape x w s' tape',
  Good 0 f W hm s -> fi_update tape s x w = Some (s', tape') ->
  Good 0 (fadd f x w) (W + w) hm s' /\ fi_weight s' = fi_weight s + w /\ fi_lg_max s' = fi_lg_max s.
Proof.
  intros f W hm s tape x w s' tape' HG H. unfold fi_update in H.
  destruct (N.eqb_spec w 0) as [->|Hw].
  - inversion H; subst; clear H. split; [|split; [lia|reflexivity]].
    rewrite N.add_0_r. apply (good_ext 0 f); [|exact HG].
    intros y. unfold fadd. destruct (Z.eqb y x); lia.
  - apply (rop_good (fadd f x w) (W + w) hm) in H.
    + cbn [fi_weight fi_lg_max] in H. exact H.
    + destruct HG as [Hnd Hpos Hbr Hpot Hlgmin Hlgmax Hcap Hhm1 Hhm].
      constructor; cbn [fi_cs fi_offset fi_lg_cur fi_lg_max]; try assumption.
      * apply nodup_add. exact Hnd.
      * apply allpos_add; [lia|exact Hpos].
      * intros y. rewrite cs_get_add. unfold fadd. destruct (Hbr y) as [Hl Hu].
        destruct (Z.eqb_spec y x) as [->|Hne]; lia.
      * rewrite sum_add. lia.
      * unfold fi_num_active, fi_cur_cap in *. cbn [fi_cs fi_lg_cur].
        pose proof (length_add (fi_cs s) x w). lia.
Qed.

(* replaying a list of (item, count) pairs *)
Fixpoint cnt (l : counters) (y : Z) : N :=
  match l with
  | [] => 0
  | (k, v) :: r => (if Z.eqb y k then v else 0) + cnt r y
  end.

Lemma replay_good : forall l f W hm s tape s' tape',
  Good 0 f W hm s -> fi_replay tape s l = Some (s', tape') ->
  Good 0 (fun y => cnt l y + f y) (W + cs_sum l) hm s' /\ fi_weight s' = fi_weight s + cs_sum l /\
  fi_lg_max s' = fi_lg_max s.
Proof.
  induction l as [|[x c] r IH]; intros f W hm s tape s' tape' HG H; cbn [fi_replay] in H.
  - inversion H; subst; clear H. unfold cs_sum. cbn [map sumN cnt]. rewrite !N.add_0_r.
    split; [|split; reflexivity]. apply (good_ext 0 f); [|exact HG]. intros y. lia.
  - destruct (fi_update tape s x c) as [[s1 tape1]|] eqn:Hu; [|discriminate].
    destruct (update_good f W hm s tape x c s1 tape1 HG Hu) as [HG1 [Hw1 Hm1]].
    destruct (IH _ _ _ _ _ _ _ HG1 H) as [HG2 [Hw2 Hm2]].
    unfold cs_sum in *. cbn [map snd sumN cnt]. split; [|split].
    + replace (W + (c + sumN (map snd r))) with (W + c + sumN (map snd r)) by lia.
      apply (good_ext 0 (fun y => cnt r y + fadd f x c y)); [|exact HG2].
      intros y. unfold fadd. lia.
    + rewrite Hw2, Hw1. lia.
    + rewrite Hm2, Hm1. reflexivity.
Qed.

Lemma cnt_perm : forall l l', Permutation l l' -> forall y, cnt l y = cnt l' y.
Proof.
  intros l l' P. induction P as [|[k v] l l' P IH|[k v] [k' v'] l|l l' l'' P1 IH1 P2 IH2]; intros y; cbn [cnt].
  - reflexivity.
  - rewrite IH. reflexivity.
  - lia.
  - rewrite IH1. apply IH2.
Qed.

Lemma sum_perm : forall l l', Permutation l l' -> cs_sum l = cs_sum l'.
Proof.
  unfold cs_sum. intros l l' P.
  induction P as [|[k v] l l' P IH|[k v] [k' v'] l|l l' l'' P1 IH1 P2 IH2]; cbn [map snd sumN]; lia.
Qed.

Lemma cnt_nodup : forall l y, NoDup (keys l) -> cnt l y = cs_get l y.
Proof.
  induction l as [|[k v] r IH]; intros y Hnd; cbn [cnt cs_get]; [reflexivity|].
  cbn [keys map fst] in Hnd. inversion Hnd as [|? ? Hnin Hnd']; subst.
  destruct (Z.eqb_spec y k) as [->|Hne].
  - rewrite IH by exact Hnd'. rewrite (cs_get_notin r k Hnin). lia.
  - rewrite IH by exact Hnd'. lia.
Qed.

(* an empty-weight partner is really empty: nothing is lost by the early return *)
Lemma good_weight0 : forall g hm o, Good 0 g 0 hm o -> fi_offset o = 0 /\ forall x, g x = 0.
Proof.
  intros g hm o [Hnd Hpos Hbr Hpot Hlgmin Hlgmax Hcap Hhm1 Hhm].
  assert (Hoff : fi_offset o = 0).
  { destruct (N.eq_dec (fi_offset o) 0) as [E|Hne]; [exact E|].
    assert (1 * 1 <= fi_offset o * hm) by (apply N.mul_le_mono; lia). lia. }
  split; [exact Hoff|]. intros x. destruct (Hbr x) as [Hl Hu].
  assert (Hget : cs_get (fi_cs o) x <= cs_sum (fi_cs o)).
  { clear. unfold cs_sum. induction (fi_cs o) as [|[k v] r IH]; cbn [cs_get map snd sumN]; [lia|].
    destruct (Z.eqb x k); lia. }
  lia.
Qed.

Lemma merge_good : forall f W hm g V hm' s o order tape s' tape',
  Good 0 f W hm s -> fi_weight s = W -> Good 0 g V hm' o -> fi_weight o = V ->
  Permutation order (fi_cs o) ->
  fi_merge tape order s o = Some (s', tape') ->
  Good 0 (fun y => f y + g y) (W + V) (N.min hm hm') s' /\ fi_weight s' = W + V /\ fi_lg_max s' = fi_lg_max s.
Proof.
  intros f W hm g V hm' s o order tape s' tape' HGs Hws HGo Hwo Hperm H. unfold fi_merge in H.
  assert (Hmin1 : 1 <= N.min hm hm') by (destruct HGs, HGo; lia).
  destruct (N.eqb_spec (fi_weight o) 0) as [Hz|Hnz].
  - inversion H; subst s' tape'; clear H. rewrite <- Hwo, Hz in *.
    destruct (good_weight0 g hm' o HGo) as [_ Hg0]. rewrite N.add_0_r.
    split; [|split; [exact Hws|reflexivity]].
    apply (good_weaken 0 _ W hm); [exact Hmin1|lia|].
    apply (good_ext 0 f); [|exact HGs]. intros y. rewrite Hg0. lia.
  - destruct (fi_replay tape s order) as [[s1 tape1]|] eqn:Hr; [|discriminate].
    inversion H; subst s' tape'; clear H.
    destruct (replay_good order f W hm s tape s1 tape1 HGs Hr) as [HG1 [Hw1 Hm1]].
    cbn [fi_weight fi_lg_max]. split; [|split; [lia|exact Hm1]].
    destruct HG1 as [Hnd Hpos Hbr Hpot Hlgmin Hlgmax Hcap Hhm1 Hhm].
    destruct HGo as [Hnd' Hpos' Hbr' Hpot' _ _ _ Hhm1' _].
    constructor; cbn [fi_cs fi_offset fi_lg_cur fi_lg_max]; try assumption; try lia.
    + intros y. destruct (Hbr y) as [Hl Hu]. destruct (Hbr' y) as [Hl' Hu'].
      rewrite (cnt_perm order (fi_cs o) Hperm y), (cnt_nodup (fi_cs o) y Hnd') in Hl, Hu. lia.
    + rewrite (sum_perm order (fi_cs o) Hperm) in Hpot.
      assert (fi_offset s1 * N.min hm hm' <= fi_offset s1 * hm) by (apply N.mul_le_mono_l; lia).
      assert (fi_offset o * N.min hm hm' <= fi_offset o * hm') by (apply N.mul_le_mono_l; lia).
      lia.
Qed.

(* ---------- histories and merge trees ---------- *)
Inductive hist : Type :=
| HNew (lg : N)                      (* FrequentItemsSketch::new(1 << lg) *)
| HUpd (h : hist) (x : Z) (w : N)    (* update_with_count(x, w) *)
| HMerge (h1 h2 : hist)              (* h1.merge(&h2) *)
| HReset (h : hist).                 (* reset() *)

(* the Spec: exact frequency of every item and exact total weight *)
Fixpoint truth (h : hist) (x : Z) : N :=
  match h with
  | HNew _ => 0
  | HUpd h y w => (if Z.eqb x y then w else 0) + truth h x
  | HMerge a b => truth a x + truth b x
  | HReset _ => 0
  end.
Fixpoint weight (h : hist) : N :=
  match h with
  | HNew _ => 0
  | HUpd h _ w => weight h + w
  | HMerge a b => weight a + weight b
  | HReset _ => 0
  end.
(* lg_max_map_size of the sketch a history produces *)
Fixpoint lgm (h : hist) : N :=
  match h with
  | HNew lg => N.max lg LG_MIN
  | HUpd h _ _ => lgm h
  | HMerge a _ => lgm a
  | HReset h => lgm h
  end.
(* the smallest half-sample among the sketches that contributed *)
Fixpoint hmin (h : hist) : N :=
  match h with
  | HNew lg => half_sample (N.max lg LG_MIN)
  | HUpd h _ _ => hmin h
  | HMerge a b => N.min (hmin a) (hmin b)
  | HReset h => half_sample (lgm h)
  end.

(* the sketches a history can produce: any admissible samples, any replay order *)
Inductive runs : hist -> fi -> Prop :=
| R_new : forall lg, runs (HNew lg) (fi_new_lg lg)
| R_upd : forall h s x w tape s' tape',
    runs h s -> fi_update tape s x w = Some (s', tape') -> runs (HUpd h x w) s'
| R_merge : forall h1 h2 s o order tape s' tape',
    runs h1 s -> runs h2 o -> Permutation order (fi_cs o) ->
    fi_merge tape order s o = Some (s', tape') -> runs (HMerge h1 h2) s'
| R_reset : forall h s, runs h s -> runs (HReset h) (fi_reset s).

Theorem runs_good : forall h s, runs h s ->
  Good 0 (truth h) (weight h) (hmin h) s /\ fi_weight s = weight h /\ fi_lg_max s = lgm h.
Proof.
  intros h s R. induction R as [lg|h s x w tape s' tape' R IH Hu|h1 h2 s o order tape s' tape' R1 IH1 R2 IH2 Hperm Hm|h s R IH].
  - split; [apply good_new|split; reflexivity].
  - destruct IH as [HG [Hw Hl]]. destruct (update_good _ _ _ _ _ _ _ _ _ HG Hu) as [HG' [Hw' Hl']].
    cbn [truth weight hmin lgm]. split; [|split; [lia|congruence]].
    apply (good_ext 0 (fadd (truth h) x w)); [|exact HG']. intros y. reflexivity.
  - destruct IH1 as [HG1 [Hw1 Hl1]]. destruct IH2 as [HG2 [Hw2 Hl2]].
    destruct (merge_good _ _ _ _ _ _ _ _ _ _ _ _ HG1 Hw1 HG2 Hw2 Hperm Hm) as [HG' [Hw' Hl']].
    cbn [truth weight hmin lgm]. split; [exact HG'|split; [exact Hw'|congruence]].
  - destruct IH as [HG [Hw Hl]]. cbn [truth weight hmin lgm]. unfold fi_reset. rewrite <- Hl.
    assert (E : N.max (fi_lg_max s) LG_MIN = fi_lg_max s) by (destruct HG; lia).
    pose proof (good_new (fi_lg_max s)) as HN. unfold fi_new_lg in HN. rewrite E in HN.
    split; [exact HN|split; [reflexivity|]]. unfold fi_with_lg. cbn [fi_lg_max]. exact E.
Qed.

(* ---------- the C07 statements ---------- *)
Theorem fi_bounds : forall h s, runs h s -> forall x, fi_lower s x <= truth h x /\ truth h x <= fi_upper s x.
Proof. intros h s R x. destruct (runs_good h s R) as [[] _]. unfold fi_lower, fi_upper. auto. Qed.

Theorem fi_width : forall s x, fi_upper s x - fi_lower s x <= fi_max_error s.
Proof. intros. unfold fi_upper, fi_lower, fi_max_error. lia. Qed.

Theorem fi_estimate_between : forall s x, fi_lower s x <= fi_estimate s x /\ fi_estimate s x <= fi_upper s x.
Proof.
  intros. unfold fi_upper, fi_lower, fi_estimate. destruct (N.ltb_spec 0 (cs_get (fi_cs s) x)); lia.
Qed.

Theorem fi_total_exact : forall h s, runs h s -> fi_total s = weight h.
Proof. intros h s R. destruct (runs_good h s R) as [_ [Hw _]]. exact Hw. Qed.

(* potential: offset * h + sum of counters <= N *)
Theorem fi_potential : forall h s, runs h s -> fi_max_error s * hmin h + cs_sum (fi_cs s) <= weight h.
Proof. intros h s R. destruct (runs_good h s R) as [[] _]. unfold fi_max_error. assumption. Qed.

(* every sketch of the tree was created with map size 2^lg (lg >= 3) *)
Fixpoint uniform (lg : N) (h : hist) : Prop :=
  match h with
  | HNew l => N.max l LG_MIN = lg
  | HUpd h _ _ => uniform lg h
  | HMerge a b => uniform lg a /\ uniform lg b
  | HReset h => uniform lg h
  end.

Lemma uniform_lgm : forall lg h, uniform lg h -> lgm h = lg.
Proof. induction h; cbn [uniform lgm]; intros H; auto. destruct H. auto. Qed.

Lemma uniform_hmin : forall lg h, uniform lg h -> hmin h = half_sample lg.
Proof.
  induction h; cbn [uniform hmin]; intros H; auto.
  - rewrite H. reflexivity.
  - destruct H as [Ha Hb]. rewrite IHh1, IHh2 by assumption. lia.
  - rewrite (uniform_lgm lg h H). reflexivity.
Qed.

Lemma uniform_ge3 : forall lg h, uniform lg h -> 3 <= lg.
Proof.
  induction h; cbn [uniform]; intros H; auto.
  - rewrite LG_MIN_val in H. lia.
  - destruct H. auto.
Qed.

(* maximum_error <= (3.5 / M) * N for one map size M = 2^lg <= 1024, as 2 M err <= 7 N *)
Theorem fi_epsilon : forall lg h s, runs h s -> uniform lg h -> lg <= 10 ->
  2 * 2 ^ lg * fi_max_error s <= 7 * weight h.
Proof.
  intros lg h s R U H10. pose proof (fi_potential h s R) as P.
  pose proof (uniform_ge3 lg h U) as H3.
  rewrite (uniform_hmin lg h U), (half_sample_small lg H3 H10) in P.
  rewrite (pow2_split lg H3). set (p := 2 ^ (lg - 3)) in *. nia.
Qed.

(* any sizes: 512 counters are hit by every purge of a map larger than 1024 *)
Theorem fi_epsilon_large : forall lg h s, runs h s -> uniform lg h -> 11 <= lg ->
  512 * fi_max_error s <= weight h.
Proof.
  intros lg h s R U H11. pose proof (fi_potential h s R) as P.
  rewrite (uniform_hmin lg h U), (half_sample_large lg H11) in P. lia.
Qed.

(* frequent_items *)
Lemma rows_of_in : forall nfp thr off cs r, In r (rows_of nfp thr off cs) ->
  exists k v, In (k, v) cs /\ r = (k, v + off, v + off, v) /\ (if nfp then thr < v else thr < v + off).
Proof.
  intros nfp thr off cs r H. unfold rows_of in H. apply in_flat_map in H. destruct H as [[k v] [Hin Hr]].
  cbn [fst snd] in Hr. exists k, v. split; [exact Hin|].
  destruct nfp.
  - destruct (N.ltb_spec thr v); [|destruct Hr]. destruct Hr as [<-|[]]. split; [reflexivity|assumption].
  - destruct (N.ltb_spec thr (v + off)); [|destruct Hr]. destruct Hr as [<-|[]]. split; [reflexivity|assumption].
Qed.

Lemma in_cs_get : forall cs k v, NoDup (keys cs) -> In (k, v) cs -> cs_get cs k = v.
Proof.
  induction cs as [|[k0 v0] r IH]; intros k v Hnd Hin; [destruct Hin|].
  cbn [keys map fst] in Hnd. inversion Hnd as [|? ? Hnin Hnd']; subst. cbn [cs_get].
  destruct Hin as [E|Hin].
  - inversion E; subst. rewrite Z.eqb_refl. reflexivity.
  - destruct (Z.eqb_spec k k0) as [->|Hne]; [|apply IH; assumption].
    exfalso. apply Hnin. change k0 with (fst (k0, v)). apply in_map. exact Hin.
Qed.

Lemma cs_get_in : forall cs k, 0 < cs_get cs k -> In (k, cs_get cs k) cs.
Proof.
  induction cs as [|[k0 v0] r IH]; intros k H; cbn [cs_get] in H |- *; [lia|].
  destruct (Z.eqb_spec k k0) as [E|Hne]; [left; rewrite E; reflexivity|right; apply IH; exact H].
Qed.

(* NoFalsePositives: every returned item has a true count above the (effective) threshold,
   and its row brackets the truth *)
Theorem fi_nfp : forall h s thr r, runs h s -> In r (fi_frequent_thr true thr s) ->
  N.max thr (fi_max_error s) < truth h (row_item r) /\
  row_lb r <= truth h (row_item r) /\ truth h (row_item r) <= row_ub r.
Proof.
  intros h s thr r R Hin. destruct (runs_good h s R) as [[Hnd _ Hbr _ _ _ _ _ _] _].
  unfold fi_frequent_thr in Hin. apply rows_of_in in Hin. destruct Hin as [k [v [Hkv [-> Hthr]]]].
  cbn [row_item row_lb row_ub fst snd]. pose proof (in_cs_get _ _ _ Hnd Hkv) as Hget.
  destruct (Hbr k) as [Hl Hu]. unfold fi_max_error. rewrite Hget in Hl, Hu. lia.
Qed.

(* NoFalseNegatives: every item whose true count exceeds the (effective) threshold is returned *)
Theorem fi_nfn : forall h s thr x, runs h s -> N.max thr (fi_max_error s) < truth h x ->
  exists r, In r (fi_frequent_thr false thr s) /\ row_item r = x /\
            row_lb r <= truth h x /\ truth h x <= row_ub r.
Proof.
  intros h s thr x R Hx. destruct (runs_good h s R) as [[Hnd _ Hbr _ _ _ _ _ _] _].
  destruct (Hbr x) as [Hl Hu]. unfold fi_max_error in Hx.
  assert (Hpos : 0 < cs_get (fi_cs s) x) by lia.
  exists (x, cs_get (fi_cs s) x + fi_offset s, cs_get (fi_cs s) x + fi_offset s, cs_get (fi_cs s) x).
  cbn [row_item row_lb row_ub fst snd]. split; [|split; [reflexivity|split; assumption]].
  unfold fi_frequent_thr, rows_of. apply in_flat_map. exists (x, cs_get (fi_cs s) x).
  split; [apply cs_get_in; exact Hpos|]. cbn [fst snd].
  destruct (N.ltb_spec (N.max thr (fi_offset s)) (cs_get (fi_cs s) x + fi_offset s)); [left; reflexivity|lia].
Qed.

(* the rows of NoFalsePositives are among those of NoFalseNegatives *)
Theorem fi_capacity : forall h s, runs h s ->
  fi_num_active s <= fi_cur_cap s /\ fi_cur_cap s <= fi_max_cap s.
Proof.
  intros h s R. destruct (runs_good h s R) as [[_ _ _ _ Hlgmin Hlgmax Hcap _ _] _].
  split; [lia|]. unfold fi_cur_cap, fi_max_cap.
  rewrite LG_MIN_val in Hlgmin. rewrite (cap_val (fi_lg_cur s)), (cap_val (fi_lg_max s)) by lia.
  assert (2 ^ (fi_lg_cur s - 3) <= 2 ^ (fi_lg_max s - 3)) by (apply N.pow_le_mono_r; lia). lia.
Qed.

(* ---------- scripted runs (used for witnesses and examples) ---------- *)
Fixpoint exec_updates (s : fi) (l : list (Z * N * choices)) : option fi :=
  match l with
  | [] => Some s
  | (x, w, tape) :: r => match fi_update tape s x w with
                         | Some (s', _) => exec_updates s' r
                         | None => None
                         end
  end.
Fixpoint hist_updates (h : hist) (l : list (Z * N * choices)) : hist :=
  match l with
  | [] => h
  | (x, w, _) :: r => hist_updates (HUpd h x w) r
  end.

Lemma exec_runs : forall l h s s', runs h s -> exec_updates s l = Some s' -> runs (hist_updates h l) s'.
Proof.
  induction l as [|[[x w] tape] r IH]; intros h s s' R H; cbn [exec_updates hist_updates] in *.
  - inversion H; subst. exact R.
  - destruct (fi_update tape s x w) as [[s1 t1]|] eqn:E; [|discriminate].
    apply (IH (HUpd h x w) s1 s'); [|exact H]. apply (R_upd h s x w tape s1 t1 R E).
Qed.

Lemma uniform_updates : forall lg l h, uniform lg h -> uniform lg (hist_updates h l).
Proof. induction l as [|[[x w] tape] r IH]; intros h U; cbn [hist_updates]; [exact U|]. apply IH. exact U. Qed.

Lemma weight_updates : forall l h, weight (hist_updates h l) = weight h + sumN (map (fun p => snd (fst p)) l).
Proof.
  induction l as [|[[x w] tape] r IH]; intros h; cbn [hist_updates map sumN fst snd]; [lia|].
  rewrite IH. cbn [weight]. lia.
Qed.

(* Map size 2048: the sample is capped at 1024 of the 1537 counters, so only 512 counters are
   guaranteed to be >= the median and epsilon = 3.5/M is NOT guaranteed.  Witness: 1537
   distinct items, the 514 first ones with weight 100, the others with weight 1, the sample
   being the first 1024 counters: median 100, maximum_error = 100 > 3.5/2048 * 52423 = 89.6. *)
Definition script_2048 : list (Z * N * choices) :=
  map (fun i => (Z.of_nat i, if (i <? 514)%nat then 100 else 1, [])) (seq 0 1536)
  ++ [(1536%Z, 1, [repeat 100 514 ++ repeat 1 510])].

Theorem eps_2048_refuted :
  exists h s, runs h s /\ uniform 11 h /\ 7 * weight h < 2 * 2 ^ 11 * fi_max_error s.
Proof.
  exists (hist_updates (HNew 11) script_2048), (mkFi 11 11 100 52423 []).
  split; [|split].
  - apply (exec_runs script_2048 (HNew 11) (fi_new_lg 11)); [apply R_new|]. vm_compute. reflexivity.
  - apply uniform_updates. reflexivity.
  - rewrite weight_updates. vm_compute. reflexivity.
Qed.

(* ---------- progress: an admissible choice always exists ---------- *)
(* an extremal element among those satisfying a test, for any total preorder *)
Lemma list_extremal : forall (R : N -> N -> Prop),
  (forall a b, R a b \/ R b a) -> (forall a b c, R a b -> R b c -> R a c) ->
  forall (P : N -> bool) l, (exists x, In x l /\ P x = true) ->
  exists m, In m l /\ P m = true /\ forall y, In y l -> P y = true -> R m y.
Proof.
  intros R Rtot Rtrans P. induction l as [|a r IH]; intros [x [Hin Hx]]; [destruct Hin|].
  assert (Rrefl : forall a, R a a) by (intros b; destruct (Rtot b b); assumption).
  destruct (existsb P r) eqn:Er.
  - apply existsb_exists in Er. destruct (IH Er) as [m [Hm [HPm Hmin]]].
    destruct (P a) eqn:Ea.
    + destruct (Rtot a m) as [Ham|Hma].
      * exists a. split; [left; reflexivity|split; [exact Ea|]].
        intros y [<-|Hy] HPy; [apply Rrefl|]. apply (Rtrans a m y Ham). apply Hmin; assumption.
      * exists m. split; [right; exact Hm|split; [exact HPm|]].
        intros y [<-|Hy] HPy; [exact Hma|apply Hmin; assumption].
    + exists m. split; [right; exact Hm|split; [exact HPm|]].
      intros y [<-|Hy] HPy; [congruence|apply Hmin; assumption].
  - assert (Hnone : forall y, In y r -> P y = false).
    { intros y Hy. destruct (P y) eqn:Ey; [|reflexivity].
      assert (existsb P r = true) by (apply existsb_exists; exists y; split; assumption). congruence. }
    destruct Hin as [<-|Hin]; [|rewrite (Hnone x Hin) in Hx; discriminate].
    exists a. split; [left; reflexivity|split; [exact Hx|]].
    intros y [<-|Hy] HPy; [apply Rrefl|rewrite (Hnone y Hy) in HPy; discriminate].
Qed.

Lemma count_if_ext_in : forall f g l, (forall v, In v l -> f v = g v) -> count_if f l = count_if g l.
Proof.
  intros f g. induction l as [|x r IH]; intros H; [reflexivity|].
  rewrite !count_if_cons, (H x (or_introl eq_refl)), IH; [reflexivity|].
  intros v Hv. apply H. right. exact Hv.
Qed.

Lemma count_if_all : forall f l, (forall v, In v l -> f v = true) -> count_if f l = N.of_nat (length l).
Proof.
  intros f. induction l as [|x r IH]; intros H; [reflexivity|].
  rewrite count_if_cons, (H x (or_introl eq_refl)), IH; [cbn [length]; lia|].
  intros v Hv. apply H. right. exact Hv.
Qed.

Lemma count_if_pos : forall f l, 0 < count_if f l -> exists x, In x l /\ f x = true.
Proof.
  intros f. induction l as [|x r IH]; intros H; [rewrite count_if_nil in H; lia|].
  rewrite count_if_cons in H. destruct (f x) eqn:E.
  - exists x. split; [left; reflexivity|exact E].
  - destruct (IH ltac:(lia)) as [y [Hy Hf]]. exists y. split; [right; exact Hy|exact Hf].
Qed.

Lemma median_exists : forall l, l <> [] -> exists m, median_of l = Some m.
Proof.
  intros l Hne. set (n := N.of_nat (length l)). set (k := n / 2).
  assert (Hn : 0 < n) by (destruct l; [congruence|unfold n; cbn [length]; lia]).
  assert (Hk : k < n) by (apply N.div_lt; lia).
  assert (Hge_tot : forall a b : N, b <= a \/ a <= b) by (intros; lia).
  assert (Hge_tr : forall a b c : N, b <= a -> c <= b -> c <= a) by (intros; lia).
  assert (Hle_tot : forall a b : N, a <= b \/ b <= a) by (intros; lia).
  assert (Hle_tr : forall a b c : N, a <= b -> b <= c -> a <= c) by (intros; lia).
  (* the maximum has every element below it *)
  destruct (list_extremal (fun a b => b <= a) Hge_tot Hge_tr (fun _ => true) l) as [M [HM [_ HMmax]]].
  { destruct l as [|a r]; [congruence|]. exists a. split; [left; reflexivity|reflexivity]. }
  assert (HPM : (k <? count_le M l) = true).
  { apply N.ltb_lt. unfold count_le. rewrite count_if_all; [exact Hk|].
    intros v Hv. apply N.leb_le. apply HMmax; [exact Hv|reflexivity]. }
  (* the least element m with k < #{v <= m} *)
  destruct (list_extremal N.le Hle_tot Hle_tr (fun x => k <? count_le x l) l) as [m [Hm [HPm Hmmin]]].
  { exists M. split; assumption. }
  assert (Hmed : is_median l m = true).
  { unfold is_median. fold n. fold k. rewrite HPm, andb_true_r. apply N.leb_le.
    destruct (N.le_gt_cases (count_lt m l) k) as [Hle|Hgt]; [exact Hle|exfalso].
    (* the largest element below m would also qualify *)
    destruct (list_extremal (fun a b => b <= a) Hge_tot Hge_tr (fun y => y <? m) l) as [m' [Hm' [Hlt Hm'max]]].
    { apply count_if_pos. fold (count_lt m l). lia. }
    apply N.ltb_lt in Hlt.
    assert (E : count_le m' l = count_lt m l).
    { apply count_if_ext_in. intros v Hv. destruct (N.ltb_spec v m) as [Hvm|Hvm].
      - apply N.leb_le. apply Hm'max; [exact Hv|apply N.ltb_lt; exact Hvm].
      - apply N.leb_gt. lia. }
    assert (m <= m') by (apply Hmmin; [exact Hm'|apply N.ltb_lt; rewrite E; exact Hgt]). lia. }
  unfold median_of. destruct (find (is_median l) l) as [x|] eqn:F; [exists x; reflexivity|].
  rewrite (find_none _ _ F m Hm) in Hmed. discriminate.
Qed.

Lemma submset_firstn : forall n l, submset (firstn n l) l = true.
Proof.
  induction n as [|n IH]; intros l; [reflexivity|]. destruct l as [|x r]; [reflexivity|].
  cbn [firstn submset remove_one]. rewrite N.eqb_refl. apply IH.
Qed.

Lemma rop_progress : forall f W hm s, Good 1 f W hm s ->
  exists tape s', fi_resize_or_purge tape s = Some (s', []).
Proof.
  intros f W hm s HG. unfold fi_resize_or_purge.
  destruct (N.ltb_spec (fi_cur_cap s) (fi_num_active s)) as [Hover|Hfit]; [|exists [], s; reflexivity].
  destruct (fi_lg_cur s <? fi_lg_max s); [eexists [], _; reflexivity|].
  set (vals := map snd (fi_cs s)).
  set (smp := firstn (N.to_nat (fi_purge_limit s)) vals).
  assert (Hlen : N.of_nat (length vals) = fi_num_active s) by (unfold vals, fi_num_active; rewrite map_length; reflexivity).
  assert (Hlim : fi_purge_limit s <= fi_num_active s) by (unfold fi_purge_limit; lia).
  assert (Hsl : N.of_nat (length smp) = fi_purge_limit s).
  { unfold smp. rewrite firstn_length. lia. }
  assert (Hpos : 1 <= fi_purge_limit s).
  { destruct HG as [_ _ _ _ Hlgmin Hlgmax _ _ _]. rewrite LG_MIN_val in Hlgmin.
    unfold fi_purge_limit, fi_sample_size, fi_max_cap. rewrite SAMPLE_SIZE_val, MAX_SAMPLE_SIZE_val.
    pose proof (cap_ge6 (fi_lg_max s) ltac:(lia)). pose proof (cap_ge6 (fi_lg_cur s) ltac:(lia)).
    unfold fi_cur_cap in Hover. lia. }
  destruct (median_exists smp) as [m Hm].
  { intro E. rewrite E in Hsl. cbn [length] in Hsl. lia. }
  exists [smp]. unfold fi_purge. fold vals. rewrite Hsl, N.eqb_refl. unfold smp at 1. rewrite submset_firstn.
  cbn [andb]. rewrite Hm. eexists. reflexivity.
Qed.

Lemma good_add : forall f W hm s x w, 0 < w -> Good 0 f W hm s ->
  Good 1 (fadd f x w) (W + w) hm
       (mkFi (fi_lg_max s) (fi_lg_cur s) (fi_offset s) (fi_weight s + w) (cs_add (fi_cs s) x w)).
Proof.
  intros f W hm s x w Hw [Hnd Hpos Hbr Hpot Hlgmin Hlgmax Hcap Hhm1 Hhm].
  constructor; cbn [fi_cs fi_offset fi_lg_cur fi_lg_max]; try assumption.
  - apply nodup_add. exact Hnd.
  - apply allpos_add; [exact Hw|exact Hpos].
  - intros y. rewrite cs_get_add. unfold fadd. destruct (Hbr y) as [Hl Hu].
    destruct (Z.eqb_spec y x) as [->|Hne]; lia.
  - rewrite sum_add. lia.
  - unfold fi_num_active, fi_cur_cap in *. cbn [fi_cs fi_lg_cur].
    pose proof (length_add (fi_cs s) x w). lia.
Qed.

Lemma update_progress_good : forall f W hm s x w, Good 0 f W hm s ->
  exists tape s', fi_update tape s x w = Some (s', []).
Proof.
  intros f W hm s x w HG. unfold fi_update. destruct (N.eqb_spec w 0) as [->|Hw]; [exists [], s; reflexivity|].
  apply (rop_progress (fadd f x w) (W + w) hm). apply good_add; [lia|exact HG].
Qed.

Theorem update_progress : forall h s x w, runs h s -> exists tape s', fi_update tape s x w = Some (s', []).
Proof. intros h s x w R. destruct (runs_good h s R) as [HG _]. apply (update_progress_good _ _ _ s x w HG). Qed.

(* an unused tail of the tape is returned untouched *)
Lemma rop_tape_app : forall tape s s' rest extra,
  fi_resize_or_purge tape s = Some (s', rest) -> fi_resize_or_purge (tape ++ extra) s = Some (s', rest ++ extra).
Proof.
  intros tape s s' rest extra H. unfold fi_resize_or_purge in *.
  destruct (fi_cur_cap s <? fi_num_active s); [|inversion H; subst; reflexivity].
  destruct (fi_lg_cur s <? fi_lg_max s); [inversion H; subst; reflexivity|].
  destruct tape as [|smp t]; [discriminate|]. cbn [app].
  destruct (fi_purge smp s); [|discriminate]. inversion H; subst. reflexivity.
Qed.

Lemma update_tape_app : forall tape s x w s' rest extra,
  fi_update tape s x w = Some (s', rest) -> fi_update (tape ++ extra) s x w = Some (s', rest ++ extra).
Proof.
  intros tape s x w s' rest extra H. unfold fi_update in *.
  destruct (w =? 0); [inversion H; subst; reflexivity|]. apply rop_tape_app. exact H.
Qed.

Lemma replay_progress : forall l f W hm s, Good 0 f W hm s ->
  exists tape s', fi_replay tape s l = Some (s', []).
Proof.
  induction l as [|[x c] r IH]; intros f W hm s HG; [exists [], s; reflexivity|].
  destruct (update_progress_good f W hm s x c HG) as [t1 [s1 H1]].
  destruct (update_good f W hm s t1 x c s1 [] HG H1) as [HG1 _].
  destruct (IH _ _ _ s1 HG1) as [t2 [s2 H2]].
  exists (t1 ++ t2), s2. cbn [fi_replay]. rewrite (update_tape_app t1 s x c s1 [] t2 H1). cbn [app]. exact H2.
Qed.

Theorem merge_progress : forall h1 h2 s o, runs h1 s -> runs h2 o ->
  exists tape s', fi_merge tape (fi_cs o) s o = Some (s', []).
Proof.
  intros h1 h2 s o R1 R2. destruct (runs_good h1 s R1) as [HG _]. unfold fi_merge.
  destruct (fi_weight o =? 0); [exists [], s; reflexivity|].
  destruct (replay_progress (fi_cs o) _ _ _ s HG) as [tape [s1 H]].
  exists tape. rewrite H. eexists. reflexivity.
Qed.

(* script of the non-vacuity example of Props/C07.v: map size 8, the 7th insert purges *)
Definition c07_example_script : list (Z * N * choices) :=
  [(1%Z, 5, []); (2%Z, 3, []); (3%Z, 9, []); (4%Z, 1, []); (5%Z, 1, []); (6%Z, 7, []);
   (7%Z, 2, [[5; 3; 9; 1; 1; 7]])].

