(* Proofs for C01 (deterministic half): the confidence bounds of HLL, CPC and theta sketches, as computed in
   binary64 by the functions of Model/Bounds.v over the tables translated from the Rust source on this run,
   are ordered  lb <= estimate <= ub  and nested in the number of standard deviations, for EVERY estimate. *)
From Coq Require Import ZArith NArith Reals Lia Lra Bool List.
From Coq Require Import Floats.
From DS Require Import Base.Prelude Base.FloatBits Base.FloatLemmas Model.Bounds.
Import ListNotations.
Open Scope N_scope.

(* the model's helper functions are the ones the float lemmas talk about *)
Lemma sel_max_glue : Bounds.sel_max = FloatLemmas.sel_max. Proof. reflexivity. Qed.
Lemma fmin_glue : Bounds.fmin = FloatLemmas.fmin. Proof. reflexivity. Qed.
Lemma fmax_glue : Bounds.fmax = FloatLemmas.fmax. Proof. reflexivity. Qed.

Definition Nrange (s : N) (n : nat) : list N := map (fun i => s + N.of_nat i) (seq 0 n).
Lemma Nrange_In : forall s n x, s <= x < s + N.of_nat n -> In x (Nrange s n).
Proof.
  intros s n x H. unfold Nrange. apply in_map_iff. exists (N.to_nat (x - s)). split; [lia|].
  apply in_seq. lia.
Qed.

(* ---------- a chain of six divisors:  0 < u3 <= u2 <= u1 <= 1 <= l1 <= l2 <= l3, all finite ---------- *)
Definition divs_check (l1 l2 l3 u1 u2 u3 : float) : bool :=
  forallb PrimFloat.is_finite [l1; l2; l3; u1; u2; u3] &&
  PrimFloat.leb 1 l1 && PrimFloat.leb l1 l2 && PrimFloat.leb l2 l3 &&
  PrimFloat.ltb 0 u3 && PrimFloat.leb u3 u2 && PrimFloat.leb u2 u1 && PrimFloat.leb u1 1.

Record divs_ok (l1 l2 l3 u1 u2 u3 : float) : Prop := {
  d_fl1 : fin l1; d_fl2 : fin l2; d_fl3 : fin l3; d_pu1 : fpos u1; d_pu2 : fpos u2; d_pu3 : fpos u3;
  d_1l1 : (1 <= FR l1)%R; d_l12 : (FR l1 <= FR l2)%R; d_l23 : (FR l2 <= FR l3)%R;
  d_u32 : (FR u3 <= FR u2)%R; d_u21 : (FR u2 <= FR u1)%R; d_u11 : (FR u1 <= 1)%R }.

Lemma divs_check_ok : forall l1 l2 l3 u1 u2 u3, divs_check l1 l2 l3 u1 u2 u3 = true -> divs_ok l1 l2 l3 u1 u2 u3.
Proof.
  intros l1 l2 l3 u1 u2 u3 H. unfold divs_check in H. cbn [forallb] in H.
  repeat (apply andb_prop in H; destruct H as [H ?]).
  repeat match goal with Hx : (_ && _)%bool = true |- _ => apply andb_prop in Hx; destruct Hx end.
  assert (F1 : PrimFloat.is_finite 1%float = true) by reflexivity.
  assert (F0 : PrimFloat.is_finite 0%float = true) by reflexivity.
  assert (P3 : fpos u3) by (apply fpos_of_bool; assumption).
  assert (L32 : (FR u3 <= FR u2)%R) by (apply FR_le_of_bool; assumption).
  assert (L21 : (FR u2 <= FR u1)%R) by (apply FR_le_of_bool; assumption).
  constructor; try (apply fin_of_bool; assumption); try (apply FR_le_of_bool; assumption); try exact P3.
  - split; [apply fin_of_bool; assumption|]. destruct P3. lra.
  - split; [apply fin_of_bool; assumption|]. destruct P3. lra.
  - rewrite <- FR_one. apply FR_le_of_bool; assumption.
  - rewrite <- FR_one. apply FR_le_of_bool; assumption.
Qed.

(* the seven values  lb3 <= lb2 <= lb1 <= e <= ub1 <= ub2 <= ub3  obtained by dividing e by such a chain *)
Definition chain7 (b3 b2 b1 e a1 a2 a3 : float) : Prop :=
  fle b3 b2 /\ fle b2 b1 /\ fle b1 e /\ fle e a1 /\ fle a1 a2 /\ fle a2 a3.

Lemma div_chain : forall l1 l2 l3 u1 u2 u3 e, divs_ok l1 l2 l3 u1 u2 u3 -> fnn e ->
  chain7 (PrimFloat.div e l3) (PrimFloat.div e l2) (PrimFloat.div e l1) e
         (PrimFloat.div e u1) (PrimFloat.div e u2) (PrimFloat.div e u3).
Proof.
  intros l1 l2 l3 u1 u2 u3 e D He. destruct D.
  assert (P1 : fpos l1) by (split; [assumption|lra]).
  assert (P2 : fpos l2) by (split; [assumption|lra]).
  assert (P3 : fpos l3) by (split; [assumption|lra]).
  unfold chain7. repeat split.
  - apply fdiv_antitone; assumption.
  - apply fdiv_antitone; assumption.
  - apply fdiv_le_self; assumption.
  - apply fdiv_ge_self; assumption.
  - apply fdiv_antitone; assumption.
  - apply fdiv_antitone; assumption.
Qed.

(* =========================== HLL =========================== *)
Definition hll_div_check (lgk : N) (ooo : bool) : bool :=
  divs_check (hll_div lgk false ooo 1) (hll_div lgk false ooo 2) (hll_div lgk false ooo 3)
             (hll_div lgk true ooo 1) (hll_div lgk true ooo 2) (hll_div lgk true ooo 3).

(* finite sweep over lg_k = 4..21 x {in order, out of order}: kernel computation over the translated tables *)
Lemma hll_div_sweep : forallb (fun lgk => hll_div_check lgk false && hll_div_check lgk true) (Nrange 4 18) = true.
Proof. vm_compute. reflexivity. Qed.

Lemma hll_divs : forall lgk ooo, 4 <= lgk <= 21 ->
  divs_ok (hll_div lgk false ooo 1) (hll_div lgk false ooo 2) (hll_div lgk false ooo 3)
          (hll_div lgk true ooo 1) (hll_div lgk true ooo 2) (hll_div lgk true ooo 3).
Proof.
  intros lgk ooo H. apply divs_check_ok.
  pose proof hll_div_sweep as S. rewrite forallb_forall in S.
  specialize (S lgk (Nrange_In 4 18 lgk ltac:(lia))). apply andb_prop in S. destruct S as [S0 S1].
  destruct ooo; assumption.
Qed.

Theorem hll_bounds_nested : forall lgk ooo est, 4 <= lgk <= 21 -> fnn est ->
  chain7 (hll_lower lgk ooo 3 est) (hll_lower lgk ooo 2 est) (hll_lower lgk ooo 1 est) est
         (hll_upper lgk ooo 1 est) (hll_upper lgk ooo 2 est) (hll_upper lgk ooo 3 est).
Proof. intros lgk ooo est H He. unfold hll_lower, hll_upper. apply div_chain; [now apply hll_divs|exact He]. Qed.

(* the relative-error terms tighten as k grows: a row of the table that was swapped with a neighbour breaks this *)
Definition hll_k_check (lgk : N) (ooo : bool) : bool :=
  forallb (fun s => PrimFloat.leb (hll_div (lgk + 1) false ooo s) (hll_div lgk false ooo s) &&
                    PrimFloat.leb (hll_div lgk true ooo s) (hll_div (lgk + 1) true ooo s)) [1; 2; 3].
Lemma hll_k_sweep : forallb (fun lgk => hll_k_check lgk false && hll_k_check lgk true) (Nrange 4 17) = true.
Proof. vm_compute. reflexivity. Qed.

Theorem hll_bounds_tighten_with_k : forall lgk ooo s est, 4 <= lgk <= 20 -> 1 <= s <= 3 -> fnn est ->
  fle (hll_lower lgk ooo s est) (hll_lower (lgk + 1) ooo s est) /\
  fle (hll_upper (lgk + 1) ooo s est) (hll_upper lgk ooo s est).
Proof.
  intros lgk ooo s est H Hs He.
  pose proof hll_k_sweep as S. rewrite forallb_forall in S.
  specialize (S lgk (Nrange_In 4 17 lgk ltac:(lia))). apply andb_prop in S. destruct S as [S0 S1].
  assert (K : hll_k_check lgk ooo = true) by (destruct ooo; assumption). clear S0 S1.
  unfold hll_k_check in K. rewrite forallb_forall in K.
  assert (Hin : In s [1; 2; 3]) by (cbn; lia). specialize (K s Hin). apply andb_prop in K. destruct K as [K1 K2].
  pose proof (hll_divs lgk ooo ltac:(lia)) as D0. pose proof (hll_divs (lgk + 1) ooo ltac:(lia)) as D1.
  assert (Hl0 : fpos (hll_div lgk false ooo s) /\ fpos (hll_div lgk true ooo s)).
  { destruct D0. assert (s = 1 \/ s = 2 \/ s = 3) as [->|[->| ->]] by lia; split; try assumption; split; try assumption; lra. }
  assert (Hl1 : fpos (hll_div (lgk + 1) false ooo s) /\ fpos (hll_div (lgk + 1) true ooo s)).
  { destruct D1. assert (s = 1 \/ s = 2 \/ s = 3) as [->|[->| ->]] by lia; split; try assumption; split; try assumption; lra. }
  destruct Hl0 as [A0 B0], Hl1 as [A1 B1]. unfold hll_lower, hll_upper. split.
  - apply fdiv_antitone; auto. apply (fle_fin _ _ (proj1 A1) (proj1 A0)). exact K1.
  - apply fdiv_antitone; auto. apply (fle_fin _ _ (proj1 B0) (proj1 B1)). exact K2.
Qed.

(* =========================== CPC =========================== *)
Definition cpc_div_check (lgk : N) (icon : bool) : bool :=
  divs_check (cpc_lb_div icon lgk 1) (cpc_lb_div icon lgk 2) (cpc_lb_div icon lgk 3)
             (cpc_ub_div icon lgk 1) (cpc_ub_div icon lgk 2) (cpc_ub_div icon lgk 3).
Lemma cpc_div_sweep : forallb (fun lgk => cpc_div_check lgk false && cpc_div_check lgk true) (Nrange 4 23) = true.
Proof. vm_compute. reflexivity. Qed.

Lemma cpc_divs : forall lgk icon, 4 <= lgk <= 26 ->
  divs_ok (cpc_lb_div icon lgk 1) (cpc_lb_div icon lgk 2) (cpc_lb_div icon lgk 3)
          (cpc_ub_div icon lgk 1) (cpc_ub_div icon lgk 2) (cpc_ub_div icon lgk 3).
Proof.
  intros lgk icon H. apply divs_check_ok.
  pose proof cpc_div_sweep as S. rewrite forallb_forall in S.
  specialize (S lgk (Nrange_In 4 23 lgk ltac:(lia))). apply andb_prop in S. destruct S as [S0 S1].
  destruct icon; assumption.
Qed.

(* what the theorems need of f64::ceil (std); Model/Bounds.fceil is the executable instance tied to the crate *)
Definition ceil_spec (cf : float -> float) : Prop :=
  (forall x, fnn_inf x -> fnn_inf (cf x) /\ fle x (cf x)) /\
  (forall x y, fnn_inf x -> fnn_inf y -> fle x y -> fle (cf x) (cf y)).

Theorem cpc_bounds_nested : forall cf icon lgk c est, ceil_spec cf -> 4 <= lgk <= 26 -> 0 < c ->
  fnn est -> fnn (u2f c) -> (FR (u2f c) <= FR est)%R ->
  chain7 (cpc_lower icon lgk c 3 est) (cpc_lower icon lgk c 2 est) (cpc_lower icon lgk c 1 est) est
         (cpc_upper_with cf icon lgk c 1 est) (cpc_upper_with cf icon lgk c 2 est) (cpc_upper_with cf icon lgk c 3 est).
Proof.
  intros cf icon lgk c est [Cge Cmono] H Hc He Hcf Hce.
  pose proof (cpc_divs lgk icon H) as D.
  pose proof (div_chain _ _ _ _ _ _ est D He) as (L32 & L21 & L1e & Eu1 & U12 & U23).
  destruct D.
  assert (P1 : fpos (cpc_lb_div icon lgk 1)) by (split; [assumption|lra]).
  assert (P2 : fpos (cpc_lb_div icon lgk 2)) by (split; [assumption|lra]).
  assert (P3 : fpos (cpc_lb_div icon lgk 3)) by (split; [assumption|lra]).
  assert (Q : forall d, fpos d -> fnn_inf (PrimFloat.div est d)) by (intros; now apply fdiv_nn_inf).
  assert (Ce : fle (u2f c) est) by (apply fle_fin; [apply Hcf|apply He|exact Hce]).
  unfold cpc_lower, cpc_upper_with. replace (c =? 0) with false by (symmetry; apply N.eqb_neq; lia).
  rewrite sel_max_glue. unfold chain7. repeat split.
  - apply sel_max_mono; auto; left; exact Hcf.
  - apply sel_max_mono; auto; left; exact Hcf.
  - apply sel_max_le; assumption.
  - apply (fle_trans_nn est (PrimFloat.div est (cpc_ub_div icon lgk 1)) _); auto.
    + left; exact He.
    + apply Cge; auto.
    + apply Cge; auto.
  - apply Cmono; auto.
  - apply Cmono; auto.
Qed.

(* the ICON estimate is at least the number of coupons, whatever the polynomial evaluates to *)
Theorem icon_estimate_ge_coupons : forall lgk c e, icon_estimate lgk c = Some e -> fnn (u2f c) -> fle (u2f c) e.
Proof.
  intros lgk c e H Hc. unfold icon_estimate in H.
  assert (R : fle (u2f c) (u2f c)) by (apply fle_refl_nn; left; exact Hc).
  destruct (c =? 0) eqn:E0.
  { inversion H; subst. apply N.eqb_eq in E0. subst c. exact R. }
  destruct (c =? 1) eqn:E1.
  { inversion H; subst. apply N.eqb_eq in E1. subst c. vm_compute. reflexivity. }
  match type of H with (if ?b then _ else _) = _ => destruct b; [discriminate|] end.
  inversion H as [H1]. clear H.
  match goal with |- fle _ (if ?b then _ else _) => destruct b eqn:Eb end.
  - exact Eb.
  - exact R.
Qed.


(* =========================== Theta =========================== *)
Theorem theta_bounds_ordered : forall n theta raw_lb raw_ub, fnn (u2f n) -> fpos theta ->
  let est := PrimFloat.div (u2f n) theta in
  fle (bb_lower_of n theta raw_lb) est /\ fle est (bb_upper_of n theta raw_ub false).
Proof.
  intros n theta rl ru Hn Ht est.
  assert (Hnn : PrimFloat.is_nan est = false) by (apply fnn_inf_nonnan; now apply fdiv_nn_inf).
  unfold bb_lower_of, bb_upper_of. rewrite fmin_glue, fmax_glue. fold est. split.
  - now apply fmin_le_left.
  - now apply fmax_ge_left.
Qed.

Lemma theta_frac_max : theta_frac MAX_THETA = 1%float.
Proof. vm_compute. reflexivity. Qed.

(* exact mode (theta = MAX_THETA): estimate and both bounds are exactly the retained count *)
Theorem theta_exact_mode : forall n raw_lb raw_ub empty, fin (u2f n) ->
  theta_estimate false n MAX_THETA = u2f n /\
  theta_lower_of n MAX_THETA raw_lb = u2f n /\ theta_upper_of empty n MAX_THETA raw_ub = u2f n.
Proof.
  intros n rl ru empty Hn. unfold theta_estimate, theta_lower_of, theta_upper_of.
  rewrite theta_frac_max, N.ltb_irrefl. repeat split. apply fdiv_one. exact Hn.
Qed.

(* the HLL family's own transcription of get_rel_err (Model/HllEst.v, in-order case, used by C02's bit-for-bit
   correspondence) and the one of Model/Bounds.v agree on the whole domain: lg_k 4..21, both bounds, 1..3 standard deviations *)
From DS Require Model.HllEst.
Definition relerr_agree (lgk : N) : bool :=
  forallb (fun up => forallb (fun s =>
     Z.eqb (bits_of_float (HllEst.get_rel_err_hip lgk up s)) (bits_of_float (hll_rel_err lgk up false s))) [1; 2; 3])
     [false; true].
Lemma relerr_agree_sweep : forallb relerr_agree (Nrange 4 18) = true.
Proof. vm_compute. reflexivity. Qed.
Theorem hll_rel_err_models_agree : forall lgk up s, 4 <= lgk <= 21 -> 1 <= s <= 3 ->
  bits_of_float (HllEst.get_rel_err_hip lgk up s) = bits_of_float (hll_rel_err lgk up false s).
Proof.
  intros lgk up s H Hs. pose proof relerr_agree_sweep as S. rewrite forallb_forall in S.
  specialize (S lgk (Nrange_In 4 18 lgk ltac:(lia))). unfold relerr_agree in S. rewrite forallb_forall in S.
  assert (Hu : In up [false; true]) by (destruct up; cbn; auto). specialize (S up Hu). rewrite forallb_forall in S.
  assert (Hin : In s [1; 2; 3]) by (cbn; lia). specialize (S s Hin). now apply Z.eqb_eq.
Qed.
