(* TDigestView::quantile over exact rationals: case characterisation, range, end values, monotonicity. *)
From Coq Require Import QArith Qabs Lia Lqa Qfield.
From DS Require Import Base.Prelude Model.TDigest Spec.TDigestSpec Proofs.TDigestProofsBase Proofs.TDigestProofsRank.
Open Scope Q_scope.

Definition half_if_unit (c : centroid) : Q := if Pos.eqb (snd c) 1 then 1 # 2 else 0.

Lemma half_if_unit_cases c :
  (snd c = 1%positive /\ half_if_unit c = 1 # 2 /\ c_w c == 1) \/ (snd c <> 1%positive /\ half_if_unit c = 0 /\ 2 <= c_w c).
Proof.
  unfold half_if_unit. destruct (Pos.eqb (snd c) 1) eqn:E.
  - apply Pos.eqb_eq in E. left. split; auto. split; auto. apply c_w_unit; auto.
  - apply Pos.eqb_neq in E. right. split; auto. split; auto. apply c_w_ge2; auto.
Qed.

(* the interpolation inside one gap: r = m_i + s * (m_j - m_i), s = 0 on the unit plateau of i,
   1 on the unit plateau of j, linear in between *)
Definition gap_s (ci cj : centroid) (Ci dw wt s : Q) : Prop :=
  let lw := half_if_unit ci in let rw := half_if_unit cj in
  (wt - Ci < lw /\ s == 0) \/
  (lw <= wt - Ci /\ Ci + dw - wt <= rw /\ s == 1) \/
  (lw <= wt - Ci /\ rw < Ci + dw - wt /\ s * (dw - lw - rw) == wt - Ci - lw).

Lemma q_gap_char ci cj Ci dw wt :
  dw == (c_w ci + c_w cj) / 2 -> Ci <= wt -> wt < Ci + dw ->
  exists s, 0 <= s /\ s <= 1 /\ gap_s ci cj Ci dw wt s /\
            q_gap ci cj Ci dw wt == c_mean ci + s * (c_mean cj - c_mean ci).
Proof.
  intros Hdw H1 H2. unfold q_gap, gap_s. fold (half_if_unit ci) (half_if_unit cj).
  destruct (Pos.eqb (snd ci) 1 && Qltb (wt - Ci) (1 # 2)) eqn:E1.
  { apply andb_prop in E1 as [U L]. qb L. exists 0. split; [lra|]. split; [lra|]. split.
    - left. unfold half_if_unit. rewrite U. split; [lra|reflexivity].
    - ring. }
  assert (L1 : half_if_unit ci <= wt - Ci).
  { unfold half_if_unit. destruct (Pos.eqb (snd ci) 1); cbn [andb] in E1; [qb E1; lra|lra]. }
  destruct (Pos.eqb (snd cj) 1 && Qle_bool (Ci + dw - wt) (1 # 2)) eqn:E2.
  { apply andb_prop in E2 as [U L]. qb L. exists 1. split; [lra|]. split; [lra|]. split.
    - right; left. unfold half_if_unit at 2. rewrite U. split; [auto|]. split; [lra|reflexivity].
    - ring. }
  assert (L2 : half_if_unit cj < Ci + dw - wt).
  { unfold half_if_unit. destruct (Pos.eqb (snd cj) 1); cbn [andb] in E2; [qb E2; lra|lra]. }
  set (lw := half_if_unit ci) in *. set (rw := half_if_unit cj) in *.
  exists ((wt - Ci - lw) / (dw - lw - rw)). split; [apply Qle_shift_div_l; lra|]. split; [apply Qle_shift_div_r; lra|]. split.
  - right; right. split; auto. split; auto. field. lra.
  - unfold weighted_average. field. lra.
Qed.

(* s is non-decreasing in the target weight *)
Lemma gap_s_mono ci cj Ci dw wt wt' s s' :
  dw == (c_w ci + c_w cj) / 2 -> wt <= wt' -> 0 <= s -> s <= 1 -> 0 <= s' -> s' <= 1 ->
  gap_s ci cj Ci dw wt s -> gap_s ci cj Ci dw wt' s' -> s <= s'.
Proof.
  intros Hdw Hw Hs0 Hs1 Hs0' Hs1' G G'. unfold gap_s in *.
  set (lw := half_if_unit ci) in *. set (rw := half_if_unit cj) in *.
  destruct G as [(A & E)|[(A & B & E)|(A & B & E)]]; destruct G' as [(A' & E')|[(A' & B' & E')|(A' & B' & E')]]; try lra.
  apply (div_mono s s' (dw - lw - rw) (wt - Ci - lw) (wt' - Ci - lw)); [lra|exact E|exact E'|lra].
Qed.

Lemma q_loop_cons ci cj r wsf2 wt :
  q_loop (ci :: cj :: r) wsf2 wt =
  if Qltb wt (inject_Z wsf2 / 2 + inject_Z (c_wz ci + c_wz cj) / 2)
  then Some (q_gap ci cj (inject_Z wsf2 / 2) (inject_Z (c_wz ci + c_wz cj) / 2) wt)
  else q_loop (cj :: r) (wsf2 + (c_wz ci + c_wz cj))%Z wt.
Proof. reflexivity. Qed.

Section Quantile.
Variable v : view.
Hypothesis Hwf : wf_view v.
Notation cs := (v_cs v).
Notation n := (length (v_cs v)).
Notation T := (tq v).
Notation m i := (c_mean (nthc (v_cs v) i)).
Notation w i := (c_w (nthc (v_cs v) i)).
Notation C i := (centre (v_cs v) i).

Lemma nth_app_at {A} (pre suf : list A) d : forall k, nth (length pre + k) (pre ++ suf) d = nth k suf d.
Proof. intros k. rewrite app_nth2 by lia. f_equal. lia. Qed.

Lemma q_loop_char : forall suf pre, cs = pre ++ suf -> suf <> [] -> forall wt, C (length pre) <= wt ->
  match q_loop suf (cen2 cs (length pre)) wt with
  | Some r => exists i, (length pre <= i)%nat /\ (S i < n)%nat /\ C i <= wt /\ wt < C (S i) /\
                        r = q_gap (nthc cs i) (nthc cs (S i)) (inject_Z (cen2 cs i) / 2)
                                  (inject_Z (c_wz (nthc cs i) + c_wz (nthc cs (S i))) / 2) wt
  | None => C (n - 1) <= wt
  end.
Proof.
  induction suf as [|ci suf IH]; intros pre E Hne wt Hw; [congruence|].
  destruct suf as [|cj suf'].
  - cbn [q_loop]. rewrite E, app_length. cbn [length]. replace (length pre + 1 - 1)%nat with (length pre) by lia.
    rewrite <- E. exact Hw.
  - assert (Eci : ci = nthc cs (length pre)).
    { unfold nthc. rewrite E. replace (length pre) with (length pre + 0)%nat at 1 by lia. rewrite nth_app_at. reflexivity. }
    assert (Ecj : cj = nthc cs (S (length pre))).
    { unfold nthc. rewrite E. replace (S (length pre)) with (length pre + 1)%nat by lia. rewrite nth_app_at. reflexivity. }
    assert (Hlen : (S (length pre) < n)%nat).
    { rewrite E, app_length. cbn [length]. lia. }
    rewrite q_loop_cons.
    pose proof (centre_cen2 cs (length pre)) as HC0.
    pose proof (centre_S cs (length pre) Hlen) as HC1.
    destruct (Qltb wt _) eqn:EQ; qb EQ.
    + exists (length pre). split; [lia|]. split; [auto|]. split; [auto|]. split.
      * rewrite HC1, HC0. rewrite <- Eci, <- Ecj. unfold c_w. rewrite inject_Z_plus in EQ. exact EQ.
      * rewrite <- Eci, <- Ecj. reflexivity.
    + specialize (IH (pre ++ [ci])). rewrite <- app_assoc in IH. cbn [app] in IH. specialize (IH E ltac:(congruence) wt).
      rewrite app_length in IH. cbn [length] in IH. replace (length pre + 1)%nat with (S (length pre)) in IH by lia.
      rewrite cen2_S in IH by auto. rewrite <- Eci, <- Ecj in IH.
      replace (cen2 cs (length pre) + (c_wz ci + c_wz cj))%Z with (cen2 cs (length pre) + c_wz ci + c_wz cj)%Z by lia.
      assert (Hw' : C (S (length pre)) <= wt).
      { rewrite HC1, HC0. rewrite <- Eci, <- Ecj. unfold c_w. rewrite inject_Z_plus in EQ. exact EQ. }
      specialize (IH Hw').
      destruct (q_loop _ _ _) as [r|]; auto.
      destruct IH as (i & I1 & I2 & I3 & I4 & I5). exists i. split; [lia|]. auto.
Qed.

(* ---------------- the cases of quantile (wt = q * total) ---------------- *)
Inductive quant_case (wt r : Q) : Prop :=
| QC_min : wt < 1 -> r == v_min v -> quant_case wt r
| QC_max : 1 <= wt -> T - 1 <= wt -> r == v_max v -> quant_case wt r
| QC_single : n = 1%nat -> 1 <= wt -> wt < T - 1 -> r == m 0 -> quant_case wt r
| QC_left t : (2 <= n)%nat -> 1 <= wt -> wt < T - 1 -> 1 < w 0 -> wt < w 0 / 2 ->
    t * (w 0 / 2 - 1) == wt - 1 -> r == v_min v + t * (m 0 - v_min v) -> quant_case wt r
| QC_right t : (2 <= n)%nat -> 1 <= wt -> wt < T - 1 -> 1 < w (n - 1) -> T - wt <= w (n - 1) / 2 ->
    t * (w (n - 1) / 2 - 1) == T - wt - 1 -> r == v_max v - t * (v_max v - m (n - 1)) -> quant_case wt r
| QC_gap i s : (2 <= n)%nat -> 1 <= wt -> wt < T - 1 -> (S i < n)%nat -> C i <= wt -> wt < C (S i) ->
    0 <= s -> s <= 1 -> gap_s (nthc cs i) (nthc cs (S i)) (C i) ((w i + w (S i)) / 2) wt s ->
    r == m i + s * (m (S i) - m i) -> quant_case wt r.

Lemma gap_s_proper ci cj Ci Ci' dw dw' wt s : Ci == Ci' -> dw == dw' -> gap_s ci cj Ci dw wt s -> gap_s ci cj Ci' dw' wt s.
Proof.
  intros E1 E2. unfold gap_s. intros [(A & E)|[(A & B & E)|(A & B & E)]].
  - left. split; [lra|auto].
  - right; left. split; [lra|]. split; [lra|auto].
  - right; right. split; [lra|]. split; [lra|]. rewrite <- E1, <- E2. exact E.
Qed.

Lemma quantile_cases q : exists r, quantile v q = Ok (Some r) /\ quant_case (q * T) r.
Proof.
  pose proof (n_pos v Hwf) as Hn. pose proof (T_pos v Hwf) as HT.
  unfold quantile. destruct (v_cs v) as [|c0 rest] eqn:Ecs; [cbn in Hn; lia|].
  set (wt := q * T).
  destruct (Qltb wt 1) eqn:E1; qb E1.
  { eexists; split; [reflexivity|]. apply QC_min; auto. reflexivity. }
  destruct (Qle_bool (T - 1) wt) eqn:E2; qb E2.
  { eexists; split; [reflexivity|]. apply QC_max; auto. reflexivity. }
  destruct rest as [|c1 rest'].
  { eexists; split; [reflexivity|]. apply QC_single; auto; rewrite Ecs; reflexivity. }
  assert (Hn2 : (2 <= n)%nat) by (rewrite Ecs; cbn [length]; lia).
  cbv zeta. rewrite <- Ecs.
  assert (Ec0 : c0 = nthc cs 0) by (rewrite Ecs; reflexivity). rewrite Ec0. clear Ec0.
  destruct (Qltb 1 (w 0) && Qltb wt (w 0 / 2)) eqn:E3.
  { apply andb_prop in E3 as [A B]. qb A. qb B.
    eexists; split; [reflexivity|].
    apply (QC_left _ _ ((wt - 1) / (w 0 / 2 - 1))); auto; try reflexivity.
    field. q2. lra. }
  destruct (Qltb 1 (w (n - 1)) && Qle_bool (T - wt) (w (n - 1) / 2)) eqn:E4.
  { apply andb_prop in E4 as [A B]. qb A. qb B.
    eexists; split; [reflexivity|].
    apply (QC_right _ _ ((T - wt - 1) / (w (n - 1) / 2 - 1))); auto; try reflexivity.
    field. q2. lra. }
  (* the loop *)
  assert (HC0 : C 0 <= wt).
  { rewrite (C0 v). destruct (Qltb 1 (w 0)) eqn:A; cbn [andb] in E3.
    - qb E3. exact E3.
    - qb A. pose proof (c_w_ge1 (nthc cs 0)). q2. lra. }
  pose proof (q_loop_char cs [] eq_refl ltac:(rewrite Ecs; congruence) wt HC0) as HL.
  cbn [length] in HL. rewrite cen2_0 in HL.
  destruct (q_loop cs (c_wz (nthc cs 0)) wt) as [r|].
  - destruct HL as (i & _ & I2 & I3 & I4 & I5). eexists; split; [reflexivity|].
    destruct (q_gap_char (nthc cs i) (nthc cs (S i)) (inject_Z (cen2 cs i) / 2)
               (inject_Z (c_wz (nthc cs i) + c_wz (nthc cs (S i))) / 2) wt) as (s & S0 & S1 & G & Hr).
    + unfold c_w. rewrite inject_Z_plus. reflexivity.
    + rewrite <- centre_cen2. exact I3.
    + rewrite <- centre_cen2. rewrite (centre_S cs i I2) in I4. unfold c_w in I4. rewrite inject_Z_plus. exact I4.
    + apply (QC_gap _ _ i s); auto.
      * eapply gap_s_proper; [| |exact G].
        -- symmetry. apply centre_cen2.
        -- unfold c_w. rewrite inject_Z_plus. reflexivity.
      * rewrite I5. exact Hr.
  - (* unreachable: the loop always returns for a well-formed view *)
    exfalso. rewrite (Clast v Hwf) in HL.
    destruct (Qltb 1 (w (n - 1))) eqn:A; cbn [andb] in E4.
    + qb E4. lra.
    + qb A. pose proof (c_w_ge1 (nthc cs (n - 1))). q2. lra.
Qed.

Lemma quantile_total q : exists r, quantile v q = Ok (Some r).
Proof. destruct (quantile_cases q) as (r & H & _). eauto. Qed.

Lemma quant_case_of q r : quantile v q = Ok (Some r) -> quant_case (q * T) r.
Proof. intros H. destruct (quantile_cases q) as (r' & H' & Hc). rewrite H in H'. inversion H'; subst. exact Hc. Qed.

Theorem quantile_0 : quantile v 0 = Ok (Some (v_min v)).
Proof.
  pose proof (n_pos v Hwf) as Hn. unfold quantile. destruct (v_cs v) as [|c0 rest]; [cbn in Hn; lia|].
  assert (E : Qltb (0 * T) 1 = true) by (apply Qltb_true; lra). rewrite E. reflexivity.
Qed.

Theorem quantile_1 : quantile v 1 = Ok (Some (v_max v)).
Proof.
  pose proof (n_pos v Hwf) as Hn. pose proof (T_pos v Hwf) as HT. unfold quantile. destruct (v_cs v) as [|c0 rest]; [cbn in Hn; lia|].
  assert (E : Qltb (1 * T) 1 = false) by (apply Qltb_false; lra). rewrite E.
  assert (E' : Qle_bool (T - 1) (1 * T) = true) by (apply Qle_bool_iff; lra). rewrite E'. reflexivity.
Qed.

Lemma m_in_range i : (i < n)%nat -> v_min v <= m i /\ m i <= v_max v.
Proof.
  intros H. pose proof (min_le_m0 v Hwf). pose proof (mlast_le_max v Hwf).
  pose proof (m_mono v Hwf 0 i ltac:(lia) H). pose proof (m_mono v Hwf i (n - 1) ltac:(lia) ltac:(lia)). split; lra.
Qed.

(* finer bounds used for monotonicity: every case sits between two adjacent markers *)
Lemma left_case_bounds wt t : 1 <= wt -> 1 < w 0 -> wt < w 0 / 2 -> t * (w 0 / 2 - 1) == wt - 1 -> 0 <= t /\ t < 1.
Proof.
  intros H1 H2 H3 Ht. split.
  - apply (div_mono 0 t (w 0 / 2 - 1) 0 (wt - 1)); auto; q2; lra.
  - destruct (Qlt_le_dec t 1) as [L|L]; auto. exfalso.
    assert (0 <= (t - 1) * (w 0 / 2 - 1)) by (apply Qmult_le_0_compat; q2; lra). q2. lra.
Qed.

Lemma right_case_bounds wt t : wt < T - 1 -> 1 < w (n - 1) -> T - wt <= w (n - 1) / 2 ->
  t * (w (n - 1) / 2 - 1) == T - wt - 1 -> 0 < t /\ t <= 1.
Proof.
  intros H1 H2 H3 Ht. split.
  - destruct (Qlt_le_dec 0 t) as [L|L]; auto. exfalso.
    assert (0 <= (0 - t) * (w (n - 1) / 2 - 1)) by (apply Qmult_le_0_compat; q2; lra). q2. lra.
  - apply (div_mono t 1 (w (n - 1) / 2 - 1) (T - wt - 1) (w (n - 1) / 2 - 1)); auto; q2; lra.
Qed.

Theorem quantile_range q r : quantile v q = Ok (Some r) -> v_min v <= r /\ r <= v_max v.
Proof.
  intros H. apply quant_case_of in H. pose proof (n_pos v Hwf) as Hn. pose proof (min_le_max v Hwf) as Hmm.
  destruct H as [? Hr|? ? Hr|? ? ? Hr|t Hn2 W1 W2 A B Ht Hr|t Hn2 W1 W2 A B Ht Hr|i s Hn2 W1 W2 Hi Ci Cj S0 S1 G Hr].
  - rewrite Hr. lra.
  - rewrite Hr. lra.
  - rewrite Hr. apply m_in_range. lia.
  - destruct (left_case_bounds _ t W1 A B Ht). destruct (m_in_range 0 ltac:(lia)). rewrite Hr. split; nra.
  - destruct (right_case_bounds _ t W2 A B Ht). destruct (m_in_range (n - 1) ltac:(lia)). rewrite Hr. split; nra.
  - destruct (m_in_range i ltac:(lia)). destruct (m_in_range (S i) Hi).
    pose proof (m_mono v Hwf i (S i) ltac:(lia) Hi). rewrite Hr. split; nra.
Qed.

Theorem quantile_mono q q' r r' : q <= q' -> quantile v q = Ok (Some r) -> quantile v q' = Ok (Some r') -> r <= r'.
Proof.
  intros Hq Hx Hy. destruct (quantile_range q r Hx) as [Rx0 Rx1]. destruct (quantile_range q' r' Hy) as [Ry0 Ry1].
  apply quant_case_of in Hx. apply quant_case_of in Hy.
  pose proof (T_pos v Hwf) as HT. pose proof (n_pos v Hwf) as Hn.
  assert (Hw : q * T <= q' * T) by nra.
  set (wt := q * T) in *. set (wt' := q' * T) in *.
  destruct Hx as [? Hr|? ? Hr|En ? ? Hr|t Hn2 W1 W2 A B Ht Hr|t Hn2 W1 W2 A B Ht Hr|i s Hn2 W1 W2 Hi Ci Cj S0 S1 G Hr].
  - rewrite Hr. lra.
  - destruct Hy as [? Hr'|? ? Hr'|? ? ? Hr'|t' ? W1' W2' A' B' Ht' Hr'|t' ? W1' W2' A' B' Ht' Hr'|i' s' ? W1' W2' Hi' Ci' Cj' S0' S1' G' Hr'];
      try lra; try (rewrite Hr, Hr'; lra).
  - destruct Hy as [? Hr'|? ? Hr'|? ? ? Hr'|t' ? W1' W2' A' B' Ht' Hr'|t' ? W1' W2' A' B' Ht' Hr'|i' s' ? W1' W2' Hi' Ci' Cj' S0' S1' G' Hr'];
      try lra; try lia; try (rewrite Hr, Hr'; lra).
  - (* left tail *)
    destruct (left_case_bounds _ t W1 A B Ht) as [T0 T1]. destruct (m_in_range 0 ltac:(lia)) as [M0 M1].
    assert (Rm : r <= m 0) by (rewrite Hr; nra).
    destruct Hy as [? Hr'|? ? Hr'|? ? ? Hr'|t' ? W1' W2' A' B' Ht' Hr'|t' ? W1' W2' A' B' Ht' Hr'|i' s' ? W1' W2' Hi' Ci' Cj' S0' S1' G' Hr'].
    + lra.
    + lra.
    + lia.
    + destruct (left_case_bounds _ t' W1' A' B' Ht') as [T0' T1'].
      assert (t <= t') by (apply (div_mono t t' (w 0 / 2 - 1) (wt - 1) (wt' - 1)); auto; q2; lra).
      rewrite Hr, Hr'. nra.
    + destruct (right_case_bounds _ t' W2' A' B' Ht') as [T0' T1']. destruct (m_in_range (n - 1) ltac:(lia)) as [L0 L1].
      pose proof (m_mono v Hwf 0 (n - 1) ltac:(lia) ltac:(lia)). assert (m (n - 1) <= r') by (rewrite Hr'; nra). lra.
    + destruct (m_in_range i' ltac:(lia)). pose proof (m_mono v Hwf 0 i' ltac:(lia) ltac:(lia)).
      pose proof (m_mono v Hwf i' (S i') ltac:(lia) Hi'). assert (m i' <= r') by (rewrite Hr'; nra). lra.
  - (* right tail *)
    destruct (right_case_bounds _ t W2 A B Ht) as [T0 T1]. destruct (m_in_range (n - 1) ltac:(lia)) as [M0 M1].
    assert (Rm : m (n - 1) <= r) by (rewrite Hr; nra).
    pose proof (Clast v Hwf) as HCl.
    destruct Hy as [? Hr'|? ? Hr'|? ? ? Hr'|t' ? W1' W2' A' B' Ht' Hr'|t' ? W1' W2' A' B' Ht' Hr'|i' s' ? W1' W2' Hi' Ci' Cj' S0' S1' G' Hr'].
    + lra.
    + lra.
    + lia.
    + exfalso. pose proof (w2_le_T v Hwf 0 (n - 1) ltac:(lia) ltac:(lia)). q2. lra.
    + destruct (right_case_bounds _ t' W2' A' B' Ht') as [T0' T1'].
      assert (t' <= t) by (apply (div_mono t' t (w (n - 1) / 2 - 1) (T - wt' - 1) (T - wt - 1)); auto; q2; lra).
      rewrite Hr, Hr'. nra.
    + exfalso. pose proof (C_le v (S i') (n - 1) ltac:(lia) ltac:(lia)). q2. lra.
  - (* a gap *)
    destruct (m_in_range i ltac:(lia)) as [M0 M1]. destruct (m_in_range (S i) Hi) as [N0 N1].
    pose proof (m_mono v Hwf i (S i) ltac:(lia) Hi) as Mi.
    assert (Rm : r <= m (S i)) by (rewrite Hr; nra).
    destruct Hy as [? Hr'|? ? Hr'|? ? ? Hr'|t' ? W1' W2' A' B' Ht' Hr'|t' ? W1' W2' A' B' Ht' Hr'|i' s' ? W1' W2' Hi' Ci' Cj' S0' S1' G' Hr'].
    + lra.
    + lra.
    + lia.
    + exfalso. pose proof (C_le v 0 i ltac:(lia) ltac:(lia)). pose proof (C0 v). lra.
    + destruct (right_case_bounds _ t' W2' A' B' Ht') as [T0' T1']. destruct (m_in_range (n - 1) ltac:(lia)) as [L0 L1].
      pose proof (m_mono v Hwf (S i) (n - 1) ltac:(lia) ltac:(lia)). assert (m (n - 1) <= r') by (rewrite Hr'; nra). lra.
    + pose proof (m_mono v Hwf i' (S i') ltac:(lia) Hi') as Mi'.
      assert (Rm' : m i' <= r') by (rewrite Hr'; nra).
      destruct (Nat.lt_trichotomy i i') as [Hc|[Hc|Hc]].
      * pose proof (m_mono v Hwf (S i) i' ltac:(lia) ltac:(lia)). lra.
      * subst i'. assert (s <= s') by (apply (gap_s_mono (nthc cs i) (nthc cs (S i)) (C i) ((w i + w (S i)) / 2) wt wt' s s'); auto; reflexivity).
        rewrite Hr, Hr'. nra.
      * exfalso. pose proof (C_le v (S i') i ltac:(lia) ltac:(lia)). lra.
Qed.

End Quantile.
