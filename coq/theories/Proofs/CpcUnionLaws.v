(* Order and repetition of the inputs do not matter for the union result (model level). *)
From DS Require Import Base.Prelude Model.Cpc Model.CpcUnion Proofs.CpcBits Proofs.CpcSpec Proofs.CpcProofs Proofs.CpcInv
  Proofs.CpcStep Proofs.CpcUpdate Proofs.CpcMain Proofs.CpcUnionSpec Proofs.CpcUnionLemmas Proofs.CpcUnionProofs.
From Coq Require Import Permutation.
From Coq Require Import ZifyBool ZifyNat ZifyN.
Ltac Zify.zify_post_hook ::= Z.div_mod_to_equations.
Open Scope N_scope.

Lemma rows_of_below : forall K M M', mbelow (N.of_nat K) M M' -> rows_of M K = rows_of M' K.
Proof.
  intros K M M' H. apply list_eq_bits; [rewrite !rows_of_length; reflexivity|].
  intros r c Hr. rewrite rows_of_length in Hr. rewrite !nthN_rows_of by exact Hr. rewrite (H r Hr). reflexivity.
Qed.

(* two input lists with the same Spec give the same observable result *)
Lemma same_spec_same_result : forall lg0 l l',
  4 <= lg0 <= 26 ->
  Forall (fun x => Vin (fst (fst x)) (snd (fst x)) (snd x)) l ->
  Forall (fun x => Vin (fst (fst x)) (snd (fst x)) (snd x)) l' ->
  fst (uspec lg0 (ins_of l')) = fst (uspec lg0 (ins_of l)) ->
  mbelow (2 ^ fst (uspec lg0 (ins_of l))) (snd (uspec lg0 (ins_of l'))) (snd (uspec lg0 (ins_of l))) ->
  dom (uspec lg0 (ins_of l)) ->
  usteps_fit (lg0, mzero) (ins_of l) -> usteps_fit (lg0, mzero) (ins_of l') ->
  result_fits (fst (uspec lg0 (ins_of l))) (snd (uspec lg0 (ins_of l))) ->
  exists u u' s s',
    union_of lg0 (map (fun x => fst (fst x)) l) = Ok u /\ union_of lg0 (map (fun x => fst (fst x)) l') = Ok u' /\
    union_to_sketch u = Ok s /\ union_to_sketch u' = Ok s' /\
    u_lgk u' = u_lgk u /\ union_num_coupons u' = union_num_coupons u /\
    build_bit_matrix s' = build_bit_matrix s /\ c_lgk s' = c_lgk s /\ c_num s' = c_num s /\ c_off s' = c_off s /\
    cpc_flavor s' = cpc_flavor s.
Proof.
  intros lg0 l l' Hrg HF HF' E1 E2 Hdom Hsf Hsf' Hrf.
  assert (Hpop : pop_rows (snd (uspec lg0 (ins_of l'))) (Knat (fst (uspec lg0 (ins_of l)))) =
                 pop_rows (snd (uspec lg0 (ins_of l))) (Knat (fst (uspec lg0 (ins_of l))))).
  { apply pop_rows_below. rewrite Knat_N. exact E2. }
  assert (Hdom' : dom (uspec lg0 (ins_of l'))).
  { unfold dom in *. rewrite E1, Hpop. exact Hdom. }
  assert (Hrf' : result_fits (fst (uspec lg0 (ins_of l'))) (snd (uspec lg0 (ins_of l')))).
  { unfold result_fits in *. rewrite E1, Hpop. intros Hd. rewrite <- (Hrf Hd). f_equal. unfold load. f_equal. f_equal.
    apply filter_ext_in. intros x Hx. apply positions_In in Hx. unfold surp.
    assert (Hr : x / 64 < 2 ^ fst (uspec lg0 (ins_of l))) by (pose proof (pow_pos (fst (uspec lg0 (ins_of l)))); lia).
    rewrite (E2 _ Hr). reflexivity. }
  destruct (cpc_union_refines lg0 l Hrg HF Hdom Hsf Hrf) as [u [Eu [Hl [Hn [s [Es [_ [Hb [Hls [Hns [Ho _]]]]]]]]]]].
  destruct (cpc_union_refines lg0 l' Hrg HF' Hdom' Hsf' Hrf') as [u' [Eu' [Hl' [Hn' [s' [Es' [_ [Hb' [Hls' [Hns' [Ho' _]]]]]]]]]]].
  exists u, u', s, s'. repeat (split; [assumption|]).
  split; [congruence|]. split; [rewrite Hn', Hn, E1; exact Hpop|].
  split; [rewrite Hb', Hb, E1; f_equal; apply rows_of_below; rewrite Knat_N; exact E2|].
  split; [congruence|].
  assert (Hc : c_num s' = c_num s) by (rewrite Hns', Hns, E1; exact Hpop).
  split; [exact Hc|]. split; [rewrite Ho', Ho, Hc, E1; reflexivity|].
  unfold cpc_flavor. rewrite Hc, Hls', Hls, E1. reflexivity.
Qed.

Lemma ins_of_perm : forall l l', Permutation l l' -> Permutation (ins_of l) (ins_of l').
Proof. intros l l' P. unfold ins_of. apply Permutation_map. exact P. Qed.

(* commutativity / associativity: any reordering of the inputs *)
Theorem cpc_union_order_irrelevant : forall lg0 l l',
  4 <= lg0 <= 26 -> Forall (fun x => Vin (fst (fst x)) (snd (fst x)) (snd x)) l -> Permutation l l' ->
  dom (uspec lg0 (ins_of l)) ->
  usteps_fit (lg0, mzero) (ins_of l) -> usteps_fit (lg0, mzero) (ins_of l') ->
  result_fits (fst (uspec lg0 (ins_of l))) (snd (uspec lg0 (ins_of l))) ->
  exists u u' s s',
    union_of lg0 (map (fun x => fst (fst x)) l) = Ok u /\ union_of lg0 (map (fun x => fst (fst x)) l') = Ok u' /\
    union_to_sketch u = Ok s /\ union_to_sketch u' = Ok s' /\
    u_lgk u' = u_lgk u /\ union_num_coupons u' = union_num_coupons u /\
    build_bit_matrix s' = build_bit_matrix s /\ c_lgk s' = c_lgk s /\ c_num s' = c_num s /\ c_off s' = c_off s /\
    cpc_flavor s' = cpc_flavor s.
Proof.
  intros lg0 l l' Hrg HF P Hdom Hsf Hsf' Hrf.
  assert (HF' : Forall (fun x => Vin (fst (fst x)) (snd (fst x)) (snd x)) l') by (apply (Permutation_Forall P); exact HF).
  destruct (uspec_perm lg0 (ins_of l) (ins_of l') (ins_of_perm l l' P)) as [E1 E2].
  apply same_spec_same_result; try assumption; [symmetry; exact E1|apply mbelow_sym; exact E2].
Qed.

(* idempotence: feeding an input a second time changes nothing *)
Theorem cpc_union_repetition_irrelevant : forall lg0 l x,
  4 <= lg0 <= 26 -> Forall (fun x => Vin (fst (fst x)) (snd (fst x)) (snd x)) l -> In x l ->
  dom (uspec lg0 (ins_of l)) ->
  usteps_fit (lg0, mzero) (ins_of l) -> usteps_fit (lg0, mzero) (ins_of (l ++ [x])) ->
  result_fits (fst (uspec lg0 (ins_of l))) (snd (uspec lg0 (ins_of l))) ->
  exists u u' s s',
    union_of lg0 (map (fun x => fst (fst x)) l) = Ok u /\ union_of lg0 (map (fun x => fst (fst x)) (l ++ [x])) = Ok u' /\
    union_to_sketch u = Ok s /\ union_to_sketch u' = Ok s' /\
    u_lgk u' = u_lgk u /\ union_num_coupons u' = union_num_coupons u /\
    build_bit_matrix s' = build_bit_matrix s /\ c_lgk s' = c_lgk s /\ c_num s' = c_num s /\ c_off s' = c_off s /\
    cpc_flavor s' = cpc_flavor s.
Proof.
  intros lg0 l x Hrg HF Hin Hdom Hsf Hsf' Hrf.
  assert (HF' : Forall (fun x => Vin (fst (fst x)) (snd (fst x)) (snd x)) (l ++ [x])).
  { apply Forall_app. split; [exact HF|]. constructor; [|constructor]. rewrite Forall_forall in HF. apply HF. exact Hin. }
  assert (Hin' : In (snd (fst x), snd x) (ins_of l)).
  { unfold ins_of. apply in_map_iff. exists x. split; [reflexivity|exact Hin]. }
  destruct (uspec_idem lg0 (ins_of l) _ Hin') as [E1 E2].
  assert (Eapp : ins_of (l ++ [x]) = ins_of l ++ [(snd (fst x), snd x)]) by (unfold ins_of; rewrite map_app; reflexivity).
  apply same_spec_same_result; try assumption; rewrite ?Eapp; try assumption.
Qed.
