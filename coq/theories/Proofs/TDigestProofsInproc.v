(* Invariants of in-process digests (every history of update / compress / merge whose merge passes
   satisfy the exact merge relation): total_weight = number of values offered, min / max are the
   exact extremes, centroid weights sum to centroids_weight, means sorted and inside [min, max],
   first / last mean = min / max once compressed (so the view is well-formed and unit_ends_tight),
   the buffer never exceeds 4 * (2k + fudge). *)
From Coq Require Import QArith Qabs Lia Lqa Qfield Permutation.
From DS Require Import Base.Prelude Model.TDigest Spec.TDigestSpec Proofs.TDigestProofsBase Proofs.TDigestProofsSort
  Proofs.TDigestProofsMerge.
Open Scope Q_scope.

(* ---------- option min / max ---------- *)
Lemma omin_spec a x : exists m, omin a x = Some m /\ m <= x /\ (match a with Some m0 => m <= m0 | None => True end) /\
  (m == x \/ a = Some m).
Proof.
  destruct a as [m0|]; cbn [omin].
  - destruct (Qltb x m0) eqn:E; qb E.
    + exists x. split; [reflexivity|]. split; [lra|]. split; [lra|left; reflexivity].
    + exists m0. split; [reflexivity|]. split; [lra|]. split; [lra|right; reflexivity].
  - exists x. split; [reflexivity|]. split; [lra|]. split; [exact I|left; reflexivity].
Qed.

Lemma omax_spec a x : exists m, omax a x = Some m /\ x <= m /\ (match a with Some m0 => m0 <= m | None => True end) /\
  (m == x \/ a = Some m).
Proof.
  destruct a as [m0|]; cbn [omax].
  - destruct (Qltb m0 x) eqn:E; qb E.
    + exists x. split; [reflexivity|]. split; [lra|]. split; [lra|left; reflexivity].
    + exists m0. split; [reflexivity|]. split; [lra|]. split; [lra|right; reflexivity].
  - exists x. split; [reflexivity|]. split; [lra|]. split; [exact I|left; reflexivity].
Qed.

Lemma omin_keep m x : m <= x -> omin (Some m) x = Some m.
Proof. intros H. cbn [omin]. assert (E : Qltb x m = false) by (apply Qltb_false; exact H). rewrite E. reflexivity. Qed.

Lemma omax_keep m x : x <= m -> omax (Some m) x = Some m.
Proof. intros H. cbn [omax]. assert (E : Qltb m x = false) by (apply Qltb_false; exact H). rewrite E. reflexivity. Qed.

Lemma is_min_push a l x : is_min a l -> is_min (omin a x) (l ++ [x]).
Proof.
  intros H. destruct (omin_spec a x) as (m & E & H1 & H2 & H3). rewrite E. cbn [is_min]. split.
  - destruct H3 as [H3| ->].
    + exists x. split; [apply in_or_app; right; left; reflexivity|symmetry; exact H3].
    + destruct H as [(y & Hy & Ey) _]. exists y. split; [apply in_or_app; left; exact Hy|exact Ey].
  - intros y Hy. apply in_app_or in Hy as [Hy|[<-|[]]]; [|exact H1].
    destruct a as [m0|]; cbn [is_min] in H; [|subst l; destruct Hy]. destruct H as [_ H]. specialize (H y Hy). lra.
Qed.

Lemma is_max_push a l x : is_max a l -> is_max (omax a x) (l ++ [x]).
Proof.
  intros H. destruct (omax_spec a x) as (m & E & H1 & H2 & H3). rewrite E. cbn [is_max]. split.
  - destruct H3 as [H3| ->].
    + exists x. split; [apply in_or_app; right; left; reflexivity|symmetry; exact H3].
    + destruct H as [(y & Hy & Ey) _]. exists y. split; [apply in_or_app; left; exact Hy|exact Ey].
  - intros y Hy. apply in_app_or in Hy as [Hy|[<-|[]]]; [|exact H1].
    destruct a as [m0|]; cbn [is_max] in H; [|subst l; destruct Hy]. destruct H as [_ H]. specialize (H y Hy). lra.
Qed.

Lemma is_min_merge a b l1 l2 : is_min a l1 -> is_min b l2 -> is_min (omin2 a b) (l1 ++ l2).
Proof.
  intros Ha Hb. destruct b as [x|]; cbn [omin2].
  - destruct Hb as [(y & Hy & Ey) Lb]. destruct (omin_spec a x) as (m & E & H1 & H2 & H3). rewrite E. split.
    + destruct H3 as [H3| ->].
      * exists y. split; [apply in_or_app; right; exact Hy|rewrite Ey; symmetry; exact H3].
      * destruct Ha as [(z & Hz & Ez) _]. exists z. split; [apply in_or_app; left; exact Hz|exact Ez].
    + intros z Hz. apply in_app_or in Hz as [Hz|Hz].
      * destruct a as [m0|]; cbn [is_min] in Ha; [|subst l1; destruct Hz]. destruct Ha as [_ Ha]. specialize (Ha z Hz). lra.
      * specialize (Lb z Hz). lra.
  - cbn [is_min] in Hb. subst l2. rewrite app_nil_r. exact Ha.
Qed.

Lemma is_max_merge a b l1 l2 : is_max a l1 -> is_max b l2 -> is_max (omax2 a b) (l1 ++ l2).
Proof.
  intros Ha Hb. destruct b as [x|]; cbn [omax2].
  - destruct Hb as [(y & Hy & Ey) Lb]. destruct (omax_spec a x) as (m & E & H1 & H2 & H3). rewrite E. split.
    + destruct H3 as [H3| ->].
      * exists y. split; [apply in_or_app; right; exact Hy|rewrite Ey; symmetry; exact H3].
      * destruct Ha as [(z & Hz & Ez) _]. exists z. split; [apply in_or_app; left; exact Hz|exact Ez].
    + intros z Hz. apply in_app_or in Hz as [Hz|Hz].
      * destruct a as [m0|]; cbn [is_max] in Ha; [|subst l1; destruct Hz]. destruct Ha as [_ Ha]. specialize (Ha z Hz). lra.
      * specialize (Lb z Hz). lra.
  - cbn [is_max] in Hb. subst l2. rewrite app_nil_r. exact Ha.
Qed.

(* ---------- the buffer limit ---------- *)
Lemma buf_limit_eq k : buf_limit k = (4 * (2 * k + (if (k <? 30)%Z then 30 else 10)))%Z.
Proof. unfold buf_limit, capacity, fudge. cbn [nth GenTDigest.LIT_make]. change GenTDigest.BUFFER_MULTIPLIER with 4%Z. destruct (k <? 30)%Z; lia. Qed.

Lemma MIN_K_eq : MIN_K = 10%Z. Proof. reflexivity. Qed.

Lemma buf_limit_pos k : (10 <= k)%Z -> (1 <= buf_limit k)%Z.
Proof. intros H. rewrite buf_limit_eq. destruct (k <? 30)%Z; lia. Qed.

(* ---------- the invariant ---------- *)
Definition lo_of (o : option Q) (m : Q) : Prop := match o with Some mn => mn <= m | None => False end.
Definition hi_of (o : option Q) (m : Q) : Prop := match o with Some mx => m <= mx | None => False end.

Definition attained_min (d : td) : Prop :=
  match td_min d with
  | Some mn => (exists x, In x (td_buf d) /\ x == mn) \/ (td_cs d <> [] /\ c_mean (firstc (td_cs d)) == mn)
  | None => td_cs d = [] /\ td_buf d = []
  end.
Definition attained_max (d : td) : Prop :=
  match td_max d with
  | Some mx => (exists x, In x (td_buf d) /\ x == mx) \/ (td_cs d <> [] /\ c_mean (lastc (td_cs d)) == mx)
  | None => td_cs d = [] /\ td_buf d = []
  end.

Record Inv (d : td) (vals : list Q) : Prop := mkInv {
  inv_cw : td_cw d = sumw (td_cs d);
  inv_total : td_total d = Z.of_nat (length vals);
  inv_min : is_min (td_min d) vals;
  inv_max : is_max (td_max d) vals;
  inv_sorted : sortedP (td_cs d);
  inv_cs_lo : forall c, In c (td_cs d) -> lo_of (td_min d) (c_mean c);
  inv_cs_hi : forall c, In c (td_cs d) -> hi_of (td_max d) (c_mean c);
  inv_buf : forall x, In x (td_buf d) -> In x vals;
  inv_amin : attained_min d;
  inv_amax : attained_max d;
  inv_k : (10 <= td_k d)%Z;
  inv_buflen : (Z.of_nat (length (td_buf d)) <= buf_limit (td_k d))%Z
}.

Lemma inv_new k d : td_new k = Ok d -> Inv d [].
Proof.
  unfold td_new. destruct (k <? MIN_K)%Z eqn:E; [discriminate|]. intros H. inversion H; subst. rewrite MIN_K_eq in E.
  constructor; cbn; auto; try tauto; try lia. pose proof (buf_limit_pos k ltac:(lia)). lia.
Qed.

Lemma inv_push d vals x : Inv d vals -> td_needs_compress_on_update d = false -> Inv (td_push d x) (vals ++ [x]).
Proof.
  intros I Hn. unfold td_needs_compress_on_update in Hn. apply Z.leb_gt in Hn.
  destruct (omin_spec (td_min d) x) as (mn & Emn & A1 & A2 & A3).
  destruct (omax_spec (td_max d) x) as (mx & Emx & B1 & B2 & B3).
  constructor; unfold td_push; cbn [td_cw td_cs td_min td_max td_buf td_k].
  - apply (inv_cw _ _ I).
  - unfold td_total. cbn [td_cw td_buf]. rewrite !app_length. cbn [length]. pose proof (inv_total _ _ I) as H. unfold td_total in H. lia.
  - apply is_min_push, (inv_min _ _ I).
  - apply is_max_push, (inv_max _ _ I).
  - apply (inv_sorted _ _ I).
  - intros c Hc. pose proof (inv_cs_lo _ _ I c Hc) as H. rewrite Emn. unfold lo_of in *. destruct (td_min d); [lra|contradiction].
  - intros c Hc. pose proof (inv_cs_hi _ _ I c Hc) as H. rewrite Emx. unfold hi_of in *. destruct (td_max d); [lra|contradiction].
  - intros y Hy. apply in_app_or in Hy as [Hy|Hy]; apply in_or_app; [left; apply (inv_buf _ _ I); auto|right; exact Hy].
  - unfold attained_min. cbn [td_min td_buf td_cs]. rewrite Emn.
    destruct A3 as [A3|A3].
    + left. exists x. split; [apply in_or_app; right; left; reflexivity|symmetry; exact A3].
    + pose proof (inv_amin _ _ I) as H. unfold attained_min in H. rewrite A3 in H. destruct H as [(y & Hy & Ey)|H]; [|right; exact H].
      left. exists y. split; [apply in_or_app; left; exact Hy|exact Ey].
  - unfold attained_max. cbn [td_max td_buf td_cs]. rewrite Emx.
    destruct B3 as [B3|B3].
    + left. exists x. split; [apply in_or_app; right; left; reflexivity|symmetry; exact B3].
    + pose proof (inv_amax _ _ I) as H. unfold attained_max in H. rewrite B3 in H. destruct H as [(y & Hy & Ey)|H]; [|right; exact H].
      left. exists y. split; [apply in_or_app; left; exact Hy|exact Ey].
  - apply (inv_k _ _ I).
  - rewrite app_length. cbn [length]. pose proof (inv_buflen _ _ I). lia.
Qed.

(* ---------- one pass over an input all of whose elements are known ---------- *)
Lemma sumw_units l : sumw (map unit_c l) = Z.of_nat (length l).
Proof. induction l as [|x l IH]; [reflexivity|]. cbn [map length]. rewrite sumw_cons, IH. unfold unit_c, c_wz. cbn [snd]. lia. Qed.

Lemma firstc_in cs : cs <> [] -> In (firstc cs) cs.
Proof. destruct cs; [congruence|]. intros _. left. reflexivity. Qed.

Lemma lastc_in cs : cs <> [] -> In (lastc cs) cs.
Proof. intros H. unfold lastc, nthc. apply nth_In. destruct cs; [congruence|cbn; lia]. Qed.

(* adopt with a pass output whose means lie within the (already known) extremes *)
Lemma adopt_minmax d added out mn mx : td_min d = Some mn -> td_max d = Some mx -> out <> [] ->
  lbP mn out -> ubP mx out ->
  adopt d added out = mkTd (td_k d) (negb (td_rev d)) (Some mn) (Some mx) out (td_cw d + added)%Z [].
Proof.
  intros Emn Emx Hne L U. unfold adopt. destruct out as [|c out'] eqn:Eo; [congruence|]. rewrite <- Eo in *.
  rewrite Emn, Emx. f_equal.
  - subst out. apply omin_keep. apply L. left. reflexivity.
  - apply omax_keep. apply U. change (nthc out (length out - 1)) with (lastc out). apply lastc_in. exact Hne.
Qed.

Section Pass.
Variables (d : td) (input out : list centroid) (vals : list Q) (mn mx : Q) (added : Z).
Hypothesis Emn : td_min d = Some mn.
Hypothesis Emx : td_max d = Some mx.
Hypothesis Hrel : merge_rel 0 (td_rev d) input out.
Hypothesis Hlo : lbP mn input.
Hypothesis Hhi : ubP mx input.
Hypothesis Hamin : exists c, In c input /\ c_mean c == mn.
Hypothesis Hamax : exists c, In c input /\ c_mean c == mx.
Hypothesis Hsum : (td_cw d + added)%Z = sumw input.
Hypothesis Htot : (td_cw d + added)%Z = Z.of_nat (length vals).
Hypothesis Hmin : is_min (Some mn) vals.
Hypothesis Hmax : is_max (Some mx) vals.
Hypothesis Hk : (10 <= td_k d)%Z.

Lemma inv_adopt : Inv (adopt d added out) vals.
Proof.
  destruct (merge_in_range _ _ _ mn mx Hrel Hlo Hhi) as [L U].
  pose proof (merge_out_ne _ _ _ Hrel) as Hne.
  rewrite (adopt_minmax d added out mn mx Emn Emx Hne L U).
  destruct (merge_extremes _ _ _ Hrel) as [(c1 & C1 & C2 & _ & C4) (c2 & D1 & D2 & _ & D4)].
  constructor; cbn [td_cw td_cs td_min td_max td_buf td_k].
  - rewrite Hsum. symmetry. eapply merge_weights; eauto.
  - unfold td_total. cbn [td_cw td_buf length]. lia.
  - exact Hmin.
  - exact Hmax.
  - eapply merge_sorted; eauto.
  - intros c Hc. cbn [lo_of]. apply L; auto.
  - intros c Hc. cbn [hi_of]. apply U; auto.
  - intros x [].
  - unfold attained_min. cbn [td_min td_buf td_cs]. right. split; [exact Hne|].
    destruct Hamin as (y & Hy & Ey). pose proof (C2 y Hy). pose proof (Hlo c1 C1). lra.
  - unfold attained_max. cbn [td_max td_buf td_cs]. right. split; [exact Hne|].
    destruct Hamax as (y & Hy & Ey). pose proof (D2 y Hy). pose proof (Hhi c2 D1). lra.
  - exact Hk.
  - cbn [length]. pose proof (buf_limit_pos _ Hk). lia.
Qed.
End Pass.

Lemma values_nonempty_min d vals : Inv d vals -> vals <> [] -> exists mn mx, td_min d = Some mn /\ td_max d = Some mx.
Proof.
  intros I H. pose proof (inv_min _ _ I) as H1. pose proof (inv_max _ _ I) as H2.
  destruct (td_min d), (td_max d); cbn in *; try congruence. eauto.
Qed.

Lemma inv_nonempty_vals d vals : Inv d vals -> td_is_empty d = false -> vals <> [].
Proof.
  intros I H E. subst vals. pose proof (inv_total _ _ I) as T. pose proof (inv_cw _ _ I) as C. unfold td_total in T. cbn [length] in T.
  unfold td_is_empty in H. destruct (td_cs d) as [|c cs] eqn:Ec.
  - destruct (td_buf d) as [|x b]; [discriminate|]. cbn [length] in T. rewrite C in T. cbn in T. lia.
  - rewrite C, sumw_cons in T. pose proof (c_wz_pos c). pose proof (sumw_nonneg cs). lia.
Qed.

Lemma in_units x l : In x l -> In (unit_c x) (map unit_c l).
Proof. apply in_map. Qed.

(* compress *)
Lemma inv_compress d vals out : Inv d vals -> td_buf d <> [] ->
  merge_rel 0 (td_rev d) (compress_input d) out -> Inv (td_compress_with d out) vals.
Proof.
  intros I Hb Hrel. unfold td_compress_with. destruct (td_buf d) as [|b0 buf'] eqn:Eb; [congruence|]. rewrite <- Eb in *.
  assert (Hv : vals <> []).
  { intros E. pose proof (inv_buf _ _ I b0 ltac:(rewrite Eb; left; reflexivity)) as H. rewrite E in H. destruct H. }
  destruct (values_nonempty_min d vals I Hv) as (mn & mx & Emn & Emx).
  pose proof (inv_min _ _ I) as Hmin. pose proof (inv_max _ _ I) as Hmax. rewrite Emn in Hmin. rewrite Emx in Hmax.
  apply (inv_adopt d (compress_input d) out vals mn mx); auto.
  - intros c Hc. unfold compress_input in Hc. apply in_app_or in Hc as [Hc|Hc].
    + apply in_map_iff in Hc as (x & <- & Hx). apply (proj2 Hmin). apply (inv_buf _ _ I); auto.
    + pose proof (inv_cs_lo _ _ I c Hc) as H. rewrite Emn in H. exact H.
  - intros c Hc. unfold compress_input in Hc. apply in_app_or in Hc as [Hc|Hc].
    + apply in_map_iff in Hc as (x & <- & Hx). apply (proj2 Hmax). apply (inv_buf _ _ I); auto.
    + pose proof (inv_cs_hi _ _ I c Hc) as H. rewrite Emx in H. exact H.
  - pose proof (inv_amin _ _ I) as H. unfold attained_min in H. rewrite Emn in H. unfold compress_input.
    destruct H as [(x & Hx & Ex)|(Hne & E)].
    + exists (unit_c x). split; [apply in_or_app; left; apply in_units; auto|exact Ex].
    + exists (firstc (td_cs d)). split; [apply in_or_app; right; apply firstc_in; auto|exact E].
  - pose proof (inv_amax _ _ I) as H. unfold attained_max in H. rewrite Emx in H. unfold compress_input.
    destruct H as [(x & Hx & Ex)|(Hne & E)].
    + exists (unit_c x). split; [apply in_or_app; left; apply in_units; auto|exact Ex].
    + exists (lastc (td_cs d)). split; [apply in_or_app; right; apply lastc_in; auto|exact E].
  - unfold compress_input. rewrite sumw_app, sumw_units, (inv_cw _ _ I). lia.
  - pose proof (inv_total _ _ I) as H. unfold td_total in H. lia.
  - apply (inv_k _ _ I).
Qed.

(* merge with a non-empty partner *)
Lemma inv_merge d o vd vo out : Inv d vd -> Inv o vo -> td_is_empty o = false ->
  merge_rel 0 (td_rev d) (merge_input d o) out -> Inv (td_merge_with d o out) (vd ++ vo).
Proof.
  intros Id Io He Hrel. unfold td_merge_with. rewrite He.
  pose proof (inv_nonempty_vals o vo Io He) as Hvo.
  destruct (values_nonempty_min o vo Io Hvo) as (mno & mxo & Emno & Emxo).
  pose proof (is_min_merge _ _ _ _ (inv_min _ _ Id) (inv_min _ _ Io)) as Hmin.
  pose proof (is_max_merge _ _ _ _ (inv_max _ _ Id) (inv_max _ _ Io)) as Hmax.
  set (dm := td_merge_minmax d o).
  assert (Hrev : td_rev dm = td_rev d) by reflexivity.
  assert (Hcw : td_cw dm = td_cw d) by reflexivity.
  assert (Hkk : td_k dm = td_k d) by reflexivity.
  assert (Emin' : td_min dm = omin2 (td_min d) (td_min o)) by reflexivity.
  assert (Emax' : td_max dm = omax2 (td_max d) (td_max o)) by reflexivity.
  rewrite Emno in *. rewrite Emxo in *. cbn [omin2 omax2] in *.
  destruct (omin_spec (td_min d) mno) as (mn & Emn & A1 & A2 & A3).
  destruct (omax_spec (td_max d) mxo) as (mx & Emx & B1 & B2 & B3).
  rewrite Emn in *. rewrite Emx in *.
  pose proof (inv_min _ _ Io) as Hmino. pose proof (inv_max _ _ Io) as Hmaxo. rewrite Emno in Hmino. rewrite Emxo in Hmaxo.
  apply (inv_adopt dm (merge_input d o) out (vd ++ vo) mn mx); auto.
  - (* lower bound of the whole input *)
    intros c Hc. unfold merge_input in Hc. apply in_app_or in Hc as [Hc|Hc]; [|apply in_app_or in Hc as [Hc|Hc]; [|apply in_app_or in Hc as [Hc|Hc]]].
    + apply in_map_iff in Hc as (x & <- & Hx). apply (proj2 Hmin). apply in_or_app. left. apply (inv_buf _ _ Id); auto.
    + apply in_map_iff in Hc as (x & <- & Hx). apply (proj2 Hmin). apply in_or_app. right. apply (inv_buf _ _ Io); auto.
    + pose proof (inv_cs_lo _ _ Io c Hc) as H. rewrite Emno in H. cbn [lo_of] in H. lra.
    + pose proof (inv_cs_lo _ _ Id c Hc) as H. destruct (td_min d) as [m0|]; cbn [lo_of] in H; [lra|contradiction].
  - intros c Hc. unfold merge_input in Hc. apply in_app_or in Hc as [Hc|Hc]; [|apply in_app_or in Hc as [Hc|Hc]; [|apply in_app_or in Hc as [Hc|Hc]]].
    + apply in_map_iff in Hc as (x & <- & Hx). apply (proj2 Hmax). apply in_or_app. left. apply (inv_buf _ _ Id); auto.
    + apply in_map_iff in Hc as (x & <- & Hx). apply (proj2 Hmax). apply in_or_app. right. apply (inv_buf _ _ Io); auto.
    + pose proof (inv_cs_hi _ _ Io c Hc) as H. rewrite Emxo in H. cbn [hi_of] in H. lra.
    + pose proof (inv_cs_hi _ _ Id c Hc) as H. destruct (td_max d) as [m0|]; cbn [hi_of] in H; [lra|contradiction].
  - (* the minimum is the mean of an input element *)
    unfold merge_input. destruct A3 as [A3|A3].
    + pose proof (inv_amin _ _ Io) as H. unfold attained_min in H. rewrite Emno in H.
      destruct H as [(x & Hx & Ex)|(Hne & E)].
      * exists (unit_c x). split; [apply in_or_app; right; apply in_or_app; left; apply in_units; auto|cbn; lra].
      * exists (firstc (td_cs o)). split; [apply in_or_app; right; apply in_or_app; right; apply in_or_app; left; apply firstc_in; auto|lra].
    + pose proof (inv_amin _ _ Id) as H. unfold attained_min in H. rewrite A3 in H.
      destruct H as [(x & Hx & Ex)|(Hne & E)].
      * exists (unit_c x). split; [apply in_or_app; left; apply in_units; auto|exact Ex].
      * exists (firstc (td_cs d)). split; [apply in_or_app; right; apply in_or_app; right; apply in_or_app; right; apply firstc_in; auto|exact E].
  - unfold merge_input. destruct B3 as [B3|B3].
    + pose proof (inv_amax _ _ Io) as H. unfold attained_max in H. rewrite Emxo in H.
      destruct H as [(x & Hx & Ex)|(Hne & E)].
      * exists (unit_c x). split; [apply in_or_app; right; apply in_or_app; left; apply in_units; auto|cbn; lra].
      * exists (lastc (td_cs o)). split; [apply in_or_app; right; apply in_or_app; right; apply in_or_app; left; apply lastc_in; auto|lra].
    + pose proof (inv_amax _ _ Id) as H. unfold attained_max in H. rewrite B3 in H.
      destruct H as [(x & Hx & Ex)|(Hne & E)].
      * exists (unit_c x). split; [apply in_or_app; left; apply in_units; auto|exact Ex].
      * exists (lastc (td_cs d)). split; [apply in_or_app; right; apply in_or_app; right; apply in_or_app; right; apply lastc_in; auto|exact E].
  - rewrite Hcw. unfold merge_input. rewrite !sumw_app, !sumw_units, (inv_cw _ _ Id). unfold td_total. rewrite (inv_cw _ _ Io). lia.
  - rewrite Hcw, app_length, Nat2Z.inj_add. pose proof (inv_total _ _ Id) as H1. pose proof (inv_total _ _ Io) as H2.
    unfold td_total in *. lia.
  - rewrite Hkk. apply (inv_k _ _ Id).
Qed.

Lemma inv_empty_vals o vo : Inv o vo -> td_is_empty o = true -> vo = [].
Proof.
  intros I H. pose proof (inv_total _ _ I) as T. pose proof (inv_cw _ _ I) as C. unfold td_total in T. unfold td_is_empty in H.
  destruct (td_cs o); [|discriminate]. destruct (td_buf o); [|discriminate]. rewrite C in T. cbn in T.
  destruct vo; [reflexivity|cbn in T; lia].
Qed.

(* ---------- every state reachable in process satisfies the invariant ---------- *)
Theorem reach_inv h d : reach h d -> inprocess h -> Inv d (values h).
Proof.
  induction 1; cbn [values inprocess]; intros HP.
  - eapply inv_new; eauto.
  - contradiction.
  - apply inv_push; auto.
  - specialize (IHreach HP). apply inv_push.
    + apply inv_compress; auto. unfold td_needs_compress_on_update in H0. apply Z.leb_le in H0.
      intros E. rewrite E in H0. cbn [length] in H0. pose proof (buf_limit_pos _ (inv_k _ _ IHreach)). lia.
    + unfold td_needs_compress_on_update, td_compress_with.
      destruct (td_buf d) eqn:Eb.
      * unfold td_needs_compress_on_update in H0. rewrite Eb in H0. apply Z.leb_le in H0. cbn in H0. pose proof (buf_limit_pos _ (inv_k _ _ IHreach)). lia.
      * unfold adopt. cbn [td_buf td_k length]. apply Z.leb_gt. pose proof (buf_limit_pos _ (inv_k _ _ IHreach)). lia.
  - auto.
  - apply inv_compress; auto.
  - destruct HP as [HP1 HP2]. rewrite (inv_empty_vals o (values h2) (IHreach2 HP2) H1), app_nil_r. auto.
  - destruct HP as [HP1 HP2]. apply inv_merge; auto.
Qed.

(* ---------- what the properties say, read off the invariant ---------- *)
Theorem td_total_exact h d : reach h d -> inprocess h -> td_total d = Z.of_nat (length (values h)).
Proof. intros R P. apply (inv_total _ _ (reach_inv _ _ R P)). Qed.

Theorem td_minmax_exact h d : reach h d -> inprocess h -> is_min (td_min d) (values h) /\ is_max (td_max d) (values h).
Proof. intros R P. pose proof (reach_inv _ _ R P) as I. split; [apply (inv_min _ _ I)|apply (inv_max _ _ I)]. Qed.

Theorem buffer_bound h d : reach h d -> inprocess h -> (Z.of_nat (length (td_buf d)) <= buf_limit (td_k d))%Z.
Proof. intros R P. apply (inv_buflen _ _ (reach_inv _ _ R P)). Qed.

(* centroid weights sum to total_weight (with the buffered values), means sorted and inside [min, max] *)
Theorem inproc_structure h d : reach h d -> inprocess h ->
  (sumw (td_cs d) + Z.of_nat (length (td_buf d)))%Z = td_total d /\ sortedP (td_cs d) /\
  (forall c, In c (td_cs d) -> exists mn mx, td_min d = Some mn /\ td_max d = Some mx /\ mn <= c_mean c /\ c_mean c <= mx).
Proof.
  intros R P. pose proof (reach_inv _ _ R P) as I. split; [unfold td_total; rewrite (inv_cw _ _ I); reflexivity|].
  split; [apply (inv_sorted _ _ I)|]. intros c Hc.
  pose proof (inv_cs_lo _ _ I c Hc) as H1. pose proof (inv_cs_hi _ _ I c Hc) as H2.
  destruct (td_min d) as [mn|], (td_max d) as [mx|]; cbn in H1, H2; try contradiction. exists mn, mx. auto.
Qed.

(* a compressed, non-empty in-process digest presents a well-formed view whose first / last means
   ARE min / max: all the C10 theorems apply to it *)
Theorem inproc_view_wf h d : reach h d -> inprocess h -> td_buf d = [] -> td_cs d <> [] ->
  wf_view (td_view d) /\ unit_ends_tight (td_view d) /\
  v_min (td_view d) == c_mean (firstc (td_cs d)) /\ c_mean (lastc (td_cs d)) == v_max (td_view d).
Proof.
  intros R P Hb Hc. pose proof (reach_inv _ _ R P) as I.
  pose proof (inv_amin _ _ I) as A. pose proof (inv_amax _ _ I) as B. unfold attained_min, attained_max in A, B. rewrite Hb in A, B.
  assert (E1 : v_min (td_view d) == c_mean (firstc (td_cs d))).
  { unfold td_view. cbn [v_min]. destruct (td_min d) as [mn|]; [|destruct A; congruence].
    destruct A as [(x & [] & _)|[_ A]]. symmetry. exact A. }
  assert (E2 : c_mean (lastc (td_cs d)) == v_max (td_view d)).
  { unfold td_view. cbn [v_max]. destruct (td_max d) as [mx|]; [|destruct B; congruence].
    destruct B as [(x & [] & _)|[_ B]]. exact B. }
  split; [|split; [|split]]; auto.
  - constructor; cbn [td_view v_cs v_total]; auto.
    + apply (inv_sorted _ _ I).
    + change (v_cs (td_view d)) with (td_cs d). rewrite E1. lra.
    + change (v_cs (td_view d)) with (td_cs d). rewrite E2. lra.
    + apply (inv_cw _ _ I).
  - split; intros _; auto.
Qed.

Lemma td_new_ok k : (10 <= k)%Z -> exists d, td_new k = Ok d.
Proof. intros H. unfold td_new. rewrite MIN_K_eq. replace (k <? 10)%Z with false by lia. eauto. Qed.


