(* The main theorems of C05: the CPC sketch refines the bit-matrix Spec for every stream of pairs. *)
From DS Require Import Base.Prelude Model.Cpc Proofs.CpcBits Proofs.CpcSpec Proofs.CpcProofs Proofs.CpcInv
  Proofs.CpcStep Proofs.CpcUpdate.
From Coq Require Import ZifyBool ZifyNat ZifyN.
Ltac Zify.zify_post_hook ::= Z.div_mod_to_equations.
Open Scope N_scope.

(* ---------- one row_col_update ---------- *)
Lemma step_inv : forall lgk s M rc,
  Inv lgk s M -> valid lgk rc ->
  8 * pop_rows (spec_update M rc) (Knat lgk) < 475 * 2 ^ lgk ->
  fits lgk (spec_update M rc) (pop_rows (spec_update M rc) (Knat lgk)) ->
  exists s', row_col_update s rc = Ok s' /\ Inv lgk s' (spec_update M rc).
Proof.
  intros lgk s M rc I V Hdom Hfits. pose proof V as [Hrow Hrc].
  pose proof (inv_lgk lgk s M I) as Hl. pose proof (rep_wf s M (inv_rep lgk s M I)) as W.
  unfold row_col_update.
  destruct (rc mod 64 <? c_fic s) eqn:Efic.
  - (* below the first interesting column: the bit is already set *)
    exists s. split; [reflexivity|]. apply inv_dup; try assumption.
    apply (inv_fic lgk s M I); [exact Hrow|lia].
  - rewrite Hl. assert (2 ^ lgk <=? rc / 64 = false) as -> by lia.
    destruct (c_num s =? 0) eqn:EC.
    + (* EMPTY -> SPARSE *)
      assert (HC : c_num s = 0) by lia.
      pose proof (inv_alloc lgk s M I HC) as I1.
      destruct (wf_empty s W HC) as [_ Hw]. unfold windowed in Hw.
      assert (Hwin1 : c_win (set_table s (Some [])) = c_win s) by reflexivity.
      rewrite Hwin1. destruct (c_win s) eqn:Ew; [|discriminate].
      apply (sparse_step lgk _ M rc []); try assumption; try reflexivity.
      apply windowed_false. exact Ew.
    + destruct (c_win s) eqn:Ew.
      * destruct (c_table s) as [t|] eqn:Et; [|pose proof (wf_tab s W Et); lia].
        apply (sparse_step lgk s M rc t); try assumption. apply windowed_false. exact Ew.
      * apply windowed_step; try assumption. apply windowed_true. congruence.
Qed.

(* ---------- streams ---------- *)
Lemma pop_rows_mono : forall lgk cs M, Forall (valid lgk) cs ->
  pop_rows M (Knat lgk) <= pop_rows (fold_left spec_update cs M) (Knat lgk).
Proof.
  intros lgk cs. induction cs as [|x cs IH]; intros M HF; cbn [fold_left]; [lia|].
  inversion HF as [|? ? [Hx _] HF']; subst.
  specialize (IH (spec_update M x) HF').
  rewrite (pop_rows_step M x) in IH by (rewrite Knat_N; exact Hx).
  destruct (N.testbit (M (x / 64)) (x mod 64)); lia.
Qed.

Lemma run_inv : forall lgk cs s M, Inv lgk s M -> Forall (valid lgk) cs ->
  8 * pop_rows (fold_left spec_update cs M) (Knat lgk) < 475 * 2 ^ lgk ->
  fits_stream lgk M cs ->
  exists s', run_from s cs = Ok s' /\ Inv lgk s' (fold_left spec_update cs M).
Proof.
  intros lgk cs. induction cs as [|x cs IH]; intros s M I HF Hdom Hfs; cbn [fold_left run_from fits_stream] in *.
  - exists s. split; [reflexivity|exact I].
  - inversion HF as [|? ? Hx HF']; subst. destruct Hfs as [Hf1 Hfs'].
    pose proof (pop_rows_mono lgk cs (spec_update M x) HF') as Hm.
    destruct (step_inv lgk s M x I Hx ltac:(lia) Hf1) as [s1 [E1 I1]].
    rewrite E1. cbn [obind]. apply IH; assumption.
Qed.

(* the stream never makes the surprising-value table outgrow its capacity *)
Definition cpc_fits (lgk : N) (cs : list N) : Prop := fits_stream lgk (fun _ => 0) cs.

(* ---------- C05: cpc_refines ---------- *)
Definition fic_ok (lgk : N) (s : cpc) (M : matrix) : Prop :=
  c_fic s <= c_off s /\ forall r c, r < 2 ^ lgk -> c < c_fic s -> N.testbit (M r) c = true.

Lemma flavor_sparse_iff : forall lgk C, determine_flavor lgk C <= SPARSE <-> 32 * C < 3 * 2 ^ lgk.
Proof.
  intros lgk C. pose proof (pow_pos lgk). unfold determine_flavor, EMPTY, SPARSE, HYBRID, PINNED, SLIDING. consts.
  destruct (C =? 0) eqn:E0; [lia|].
  destruct (C * 32 <? 3 * 2 ^ lgk) eqn:E1; [lia|].
  destruct (C * 2 <? 2 ^ lgk); [lia|]. destruct (C * 8 <? 27 * 2 ^ lgk); lia.
Qed.

Theorem cpc_refines : forall lgk cs,
  4 <= lgk <= 26 -> Forall (valid lgk) cs -> 8 * distinct cs < 475 * 2 ^ lgk -> cpc_fits lgk cs ->
  exists s, cpc_run lgk cs = Ok s /\
    build_bit_matrix s = Ok (rows_of (spec cs) (Knat lgk)) /\
    c_num s = pop_rows (spec cs) (Knat lgk) /\
    c_num s = distinct cs /\
    c_off s = determine_correct_offset lgk (c_num s) /\
    (c_win s = [] <-> cpc_flavor s <= SPARSE) /\
    fic_ok lgk s (spec cs) /\
    c_off s <= 56 /\
    cpc_validate s = Ok true.
Proof.
  intros lgk cs Hrg HF Hdom Hfit.
  assert (Hrows : Forall (fun rc => rc / 64 < N.of_nat (Knat lgk)) cs).
  { apply Forall_forall. intros x Hx. rewrite Forall_forall in HF. destruct (HF x Hx) as [H _]. rewrite Knat_N. exact H. }
  pose proof (pop_rows_spec_distinct cs (Knat lgk) Hrows) as Hdist.
  destruct (new_inv lgk Hrg) as [s0 [E0 I0]].
  destruct (run_inv lgk cs s0 (fun _ => 0) I0 HF) as [s [E I]].
  { fold (spec cs). rewrite Hdist. exact Hdom. }
  { exact Hfit. }
  fold (spec cs) in I.
  exists s. unfold cpc_run. rewrite E0. cbn [obind]. split; [exact E|].
  destruct I as [R Hl Hrg' Hoff Hwin Hfl Hfic Hnm].
  destruct (build_bits s (rep_wf s _ R)) as [m [Em [Hlen Hbits]]].
  assert (Hm : m = rows_of (spec cs) (Knat lgk)).
  { apply list_eq_bits; [rewrite rows_of_length, Hlen, Hl; reflexivity|].
    intros r c Hr. rewrite Hlen, Knat_N in Hr. rewrite (Hbits r c Hr).
    unfold nthN at 1. rewrite rows_of_nth by (rewrite Hl in Hr; unfold Knat; lia). rewrite N2Nat.id.
    destruct (c <? 64) eqn:Ec.
    - apply (rep_bits s _ R); [exact Hr|lia].
    - symmetry. apply Mwf_spec. lia. }
  assert (Hnum : c_num s = pop_rows (spec cs) (Knat lgk)) by (rewrite (rep_num s _ R), Hl; reflexivity).
  assert (Hd : 8 * c_num s < 475 * 2 ^ lgk) by (rewrite Hnum, Hdist; exact Hdom).
  split; [rewrite Em, Hm; reflexivity|].
  split; [exact Hnum|]. split; [rewrite Hnum; exact Hdist|].
  split; [rewrite dco_coff by exact Hd; exact Hoff|].
  split.
  { unfold cpc_flavor. rewrite Hl, flavor_sparse_iff. unfold windowed in Hwin. destruct (c_win s).
    - split; [intros _|reflexivity]. destruct (N.lt_ge_cases (32 * c_num s) (3 * 2 ^ lgk)) as [L|L]; [exact L|].
      apply Hwin in L. discriminate.
    - split; [discriminate|]. intros L. exfalso. assert (3 * 2 ^ lgk <= 32 * c_num s) by (apply Hwin; reflexivity). lia. }
  split; [split; assumption|].
  split; [rewrite Hoff; apply coff_le56; [apply pow_pos|exact Hd]|].
  unfold cpc_validate. rewrite Em. cbn [obind]. f_equal. apply N.eqb_eq.
  rewrite Hm, Hnum. reflexivity.
Qed.

(* ---------- from_matrix_abs ---------- *)
(* a state rebuilt from a matrix at any window offset <= 56 represents exactly that matrix
   (used by window moves and by CpcUnion::to_sketch) *)
Theorem from_matrix_abs : forall lgk m off C fic0 mg kxp hip,
  length m = Knat lgk -> Forall (fun w => w < 2 ^ 64) m -> off <= 56 -> C <> 0 ->
  (forall r c, r < 2 ^ lgk -> c < 64 -> N.testbit (nthN m r 0) c = true -> r * 64 + c <> U32MAX) ->
  tbl_full lgk (load lgk (fun r => nthN m r 0) true off) = false ->
  exists win tab fic,
    from_matrix lgk 255 255 off m = Ok (win, tab, fic) /\
    build_bit_matrix (mkCpc lgk fic0 C (Some tab) off win mg kxp hip) = Ok m /\
    fic <= off /\ (forall r c, r < 2 ^ lgk -> c < fic -> N.testbit (nthN m r 0) c = true).
Proof.
  intros lgk m off C fic0 mg kxp hip Hlen Hlt Hoff HC Hnm Hfit.
  assert (H64 : Forall word64 m).
  { apply Forall_forall. intros w Hw. apply word64_lt. rewrite Forall_forall in Hlt. apply Hlt. exact Hw. }
  destruct (from_matrix_succeeds lgk m off Hlen Hoff Hnm Hfit) as [win [tab [fic Efm]]].
  exists win, tab, fic. split; [exact Efm|].
  destruct (from_matrix_state lgk m off C fic0 mg kxp hip win tab fic Hlen H64 Hoff HC Hnm Efm) as [W [Hw Hb]].
  destruct (build_bits _ W) as [m' [Em [Hlen' Hbits]]]. proj.
  split.
  - rewrite Em. f_equal. apply list_eq_bits; [rewrite Hlen', Hlen; reflexivity|].
    intros r c Hr. rewrite Hlen', Knat_N in Hr. rewrite (Hbits r c Hr).
    destruct (c <? 64) eqn:Ec.
    + apply Hb; [exact Hr|lia].
    + symmetry. assert (Hw64 : word64 (nthN m r 0)).
      { apply nthN_Forall; [exact H64|rewrite Hlen, Knat_N; exact Hr]. }
      apply Hw64. lia.
  - rewrite (from_matrix_fic _ _ _ _ _ _ _ _ Efm). apply (fm_fic_ok lgk m off Hlen Hoff).
Qed.

(* ---------- thresholds ---------- *)
Lemma run_from_app : forall cs s x,
  run_from s (cs ++ [x]) = obind (run_from s cs) (fun s' => row_col_update s' x).
Proof.
  induction cs as [|y cs IH]; intros s x; cbn [app run_from obind].
  - destruct (row_col_update s x); reflexivity.
  - destruct (row_col_update s y) as [s1| |]; cbn [obind]; [apply IH|reflexivity|reflexivity].
Qed.

Lemma cpc_run_app : forall lgk cs x,
  cpc_run lgk (cs ++ [x]) = obind (cpc_run lgk cs) (fun s => row_col_update s x).
Proof.
  intros. unfold cpc_run. destruct (cpc_new lgk); cbn [obind]; try reflexivity. apply run_from_app.
Qed.

Lemma cpc_run_inv : forall lgk cs,
  4 <= lgk <= 26 -> Forall (valid lgk) cs -> 8 * distinct cs < 475 * 2 ^ lgk -> cpc_fits lgk cs ->
  exists s, cpc_run lgk cs = Ok s /\ Inv lgk s (spec cs).
Proof.
  intros lgk cs Hrg HF Hdom Hfit.
  assert (Hrows : Forall (fun rc => rc / 64 < N.of_nat (Knat lgk)) cs).
  { apply Forall_forall. intros x Hx. rewrite Forall_forall in HF. destruct (HF x Hx) as [H _]. rewrite Knat_N. exact H. }
  pose proof (pop_rows_spec_distinct cs (Knat lgk) Hrows) as Hdist.
  destruct (new_inv lgk Hrg) as [s0 [E0 I0]].
  destruct (run_inv lgk cs s0 (fun _ => 0) I0 HF) as [s [E I]].
  { fold (spec cs). rewrite Hdist. exact Hdom. }
  { exact Hfit. }
  exists s. unfold cpc_run. rewrite E0. cbn [obind]. split; [exact E|exact I].
Qed.

Lemma fits_stream_prefix : forall lgk a b M, fits_stream lgk M (a ++ b) -> fits_stream lgk M a.
Proof.
  intros lgk a. induction a as [|x a IH]; intros b M H; cbn [app fits_stream] in *; [exact I|].
  destruct H as [H1 H2]. split; [exact H1|apply (IH b); exact H2].
Qed.

(* the window moves exactly when 8C reaches (27 + 8w)K, by exactly one column, and the new offset is
   the correct offset of the new coupon count *)
Theorem cpc_flavor_thresholds : forall lgk cs rc s,
  4 <= lgk <= 26 -> Forall (valid lgk) cs -> valid lgk rc -> 8 * distinct (cs ++ [rc]) < 475 * 2 ^ lgk ->
  cpc_fits lgk (cs ++ [rc]) ->
  cpc_run lgk cs = Ok s ->
  exists s', row_col_update s rc = Ok s' /\
    (c_num s' = c_num s \/ c_num s' = c_num s + 1) /\
    ((c_off s' = c_off s + 1 /\ (27 + 8 * c_off s) * 2 ^ lgk <= 8 * c_num s') \/
     (c_off s' = c_off s /\ 8 * c_num s' < (27 + 8 * c_off s) * 2 ^ lgk)) /\
    c_off s' = determine_correct_offset lgk (c_num s').
Proof.
  intros lgk cs rc s Hrg HF V Hdom Hfit Hrun.
  assert (HF' : Forall (valid lgk) (cs ++ [rc])) by (apply Forall_app; split; [exact HF|constructor; [exact V|constructor]]).
  destruct (cpc_run_inv lgk (cs ++ [rc]) Hrg HF' Hdom Hfit) as [s' [E' I']].
  assert (Hd0 : 8 * distinct cs < 475 * 2 ^ lgk).
  { assert (distinct cs <= distinct (cs ++ [rc])); [|lia]. unfold distinct. rewrite nodup_snoc_length.
    destruct (in_dec N.eq_dec rc cs); lia. }
  destruct (cpc_run_inv lgk cs Hrg HF Hd0 (fits_stream_prefix lgk cs [rc] _ Hfit)) as [s0 [E0 I0]].
  rewrite Hrun in E0. injection E0 as <-.
  rewrite cpc_run_app, Hrun in E'. cbn [obind] in E'.
  exists s'. split; [exact E'|].
  pose proof (pow_pos lgk) as HK.
  assert (Hrows : forall l, Forall (valid lgk) l -> Forall (fun rc => rc / 64 < N.of_nat (Knat lgk)) l).
  { intros l Hl. apply Forall_forall. intros x Hx. rewrite Forall_forall in Hl. destruct (Hl x Hx) as [H _].
    rewrite Knat_N. exact H. }
  assert (Hn : c_num s = distinct cs).
  { rewrite (rep_num s _ (inv_rep _ _ _ I0)), (inv_lgk _ _ _ I0). apply pop_rows_spec_distinct. apply Hrows. exact HF. }
  assert (Hn' : c_num s' = distinct (cs ++ [rc])).
  { rewrite (rep_num s' _ (inv_rep _ _ _ I')), (inv_lgk _ _ _ I'). apply pop_rows_spec_distinct. apply Hrows. exact HF'. }
  assert (Hstep : c_num s' = c_num s \/ c_num s' = c_num s + 1).
  { rewrite Hn, Hn'. unfold distinct. rewrite nodup_snoc_length. destruct (in_dec N.eq_dec rc cs); lia. }
  pose proof (inv_off _ _ _ I0) as Ho. pose proof (inv_off _ _ _ I') as Ho'.
  pose proof (coff_bound (2 ^ lgk) (c_num s) HK) as Hb. rewrite <- Ho in Hb.
  split; [exact Hstep|]. split.
  - destruct Hstep as [Hs|Hs].
    + right. split; [rewrite Ho', Hs, <- Ho; reflexivity|rewrite Hs; exact Hb].
    + destruct (N.le_gt_cases ((27 + 8 * c_off s) * 2 ^ lgk) (8 * c_num s')) as [L|L].
      * left. split; [|exact L]. rewrite Ho', Hs.
        rewrite (coff_move (2 ^ lgk) (c_num s) HK); [rewrite <- Ho; reflexivity|]. rewrite <- Ho, <- Hs. exact L.
      * right. split; [|exact L]. rewrite Ho', Hs.
        rewrite (coff_stay (2 ^ lgk) (c_num s) HK); [rewrite <- Ho; reflexivity|]. rewrite <- Ho, <- Hs. exact L.
  - rewrite dco_coff; [exact Ho'|]. rewrite Hn'. exact Hdom.
Qed.

(* the flavor code is the position of C among the thresholds 1, 3K/32, K/2, 27K/8 *)
Theorem cpc_flavor_spec : forall lgk C,
  (determine_flavor lgk C = EMPTY <-> C = 0) /\
  (determine_flavor lgk C = SPARSE <-> 0 < C /\ 32 * C < 3 * 2 ^ lgk) /\
  (determine_flavor lgk C = HYBRID <-> 3 * 2 ^ lgk <= 32 * C /\ 2 * C < 2 ^ lgk) /\
  (determine_flavor lgk C = PINNED <-> 2 ^ lgk <= 2 * C /\ 8 * C < 27 * 2 ^ lgk) /\
  (determine_flavor lgk C = SLIDING <-> 27 * 2 ^ lgk <= 8 * C).
Proof.
  intros lgk C. pose proof (pow_pos lgk). unfold determine_flavor, EMPTY, SPARSE, HYBRID, PINNED, SLIDING. consts.
  destruct (C =? 0) eqn:E0; [repeat split; intros; try lia|].
  destruct (C * 32 <? 3 * 2 ^ lgk) eqn:E1; [repeat split; intros; try lia|].
  destruct (C * 2 <? 2 ^ lgk) eqn:E2; [repeat split; intros; try lia|].
  destruct (C * 8 <? 27 * 2 ^ lgk) eqn:E3; repeat split; intros; try lia.
Qed.

(* ---------- no panic ---------- *)
Lemma row_col_of_hash_valid : forall lgk h1 h2, 4 <= lgk <= 26 -> valid lgk (row_col_of_hash lgk h1 h2).
Proof.
  intros lgk h1 h2 Hrg. pose proof (pow_pos lgk) as HK. unfold row_col_of_hash, valid. consts.
  set (col := if 63 <? lz64 h2 then 63 else lz64 h2).
  assert (Hcol : col < 64) by (unfold col; destruct (63 <? lz64 h2) eqn:E; lia).
  pose proof (N.mod_lt h1 (2 ^ lgk) ltac:(lia)) as Hrow.
  destruct (h1 mod 2 ^ lgk * 64 + col =? U32MAX) eqn:E.
  - apply N.eqb_eq in E. rewrite E. change (N.lxor U32MAX 64) with 4294967231. unfold U32MAX in *. split; [lia|lia].
  - apply N.eqb_neq in E. split; [lia|exact E].
Qed.

Theorem cpc_no_stuck : forall lgk cs,
  4 <= lgk <= 26 -> Forall (valid lgk) cs -> 8 * distinct cs < 475 * 2 ^ lgk -> cpc_fits lgk cs ->
  exists s, cpc_run lgk cs = Ok s /\ (exists m, build_bit_matrix s = Ok m) /\ cpc_validate s = Ok true.
Proof.
  intros lgk cs Hrg HF Hdom Hfit. destruct (cpc_refines lgk cs Hrg HF Hdom Hfit) as [s [E [Hm [_ [_ [_ [_ [_ [_ Hv]]]]]]]]].
  exists s. split; [exact E|]. split; [eexists; exact Hm|exact Hv].
Qed.

(* the public update path: pairs derived from 128-bit hashes are always valid *)
Theorem cpc_update_no_stuck : forall lgk hs,
  4 <= lgk <= 26 ->
  8 * distinct (map (fun h => row_col_of_hash lgk (fst h) (snd h)) hs) < 475 * 2 ^ lgk ->
  cpc_fits lgk (map (fun h => row_col_of_hash lgk (fst h) (snd h)) hs) ->
  exists s, cpc_run lgk (map (fun h => row_col_of_hash lgk (fst h) (snd h)) hs) = Ok s.
Proof.
  intros lgk hs Hrg Hdom Hfit.
  destruct (cpc_no_stuck lgk (map (fun h => row_col_of_hash lgk (fst h) (snd h)) hs) Hrg) as [s [E _]]; [|exact Hdom|exact Hfit|exists s; exact E].
  apply Forall_forall. intros x Hx. apply in_map_iff in Hx. destruct Hx as [h [<- _]].
  apply row_col_of_hash_valid. exact Hrg.
Qed.

Lemma correct_offset_spec : forall lgk C, 8 * C < 475 * 2 ^ lgk ->
  determine_correct_offset lgk C = coff (2 ^ lgk) C /\ coff (2 ^ lgk) C <= 56.
Proof.
  intros lgk C H. split; [exact (dco_coff lgk C H)|exact (coff_le56 (2 ^ lgk) C (pow_pos lgk) H)].
Qed.

Lemma move_window_literals : MW_FF = 255 /\ MW_FF2 = 255.
Proof. split; reflexivity. Qed.

(* without the capacity hypothesis the no-panic claim fails inside 8C < 475K: lg_k = 4, the 24 rightmost columns of
   every row (384 coupons, 8C = 3072 < 7600) need more than the 384 surprising values a lg_k-4 table can hold; the
   model is Stuck exactly where the crate panics (PairTable::rebuild, pair_table.rs) *)
Definition overflow_stream : list N :=
  flat_map (fun c => map (fun r => r * 64 + c) (map N.of_nat (seq 0 16))) (map (fun i => 40 + N.of_nat i) (seq 0 24)).

Lemma table_capacity_needed :
  Forall (valid 4) overflow_stream /\ 8 * distinct overflow_stream < 475 * 2 ^ 4 /\ cpc_run 4 overflow_stream = Stuck.
Proof.
  split; [|split].
  - unfold valid. apply Forall_forall. intros x Hx. unfold overflow_stream in Hx.
    apply in_flat_map in Hx. destruct Hx as [c [Hc Hx]]. apply in_map_iff in Hx. destruct Hx as [r [<- Hr]].
    apply in_map_iff in Hc. destruct Hc as [i [<- Hi]]. apply in_seq in Hi.
    apply in_map_iff in Hr. destruct Hr as [j [<- Hj]]. apply in_seq in Hj.
    change (2 ^ 4) with 16. unfold U32MAX. split; lia.
  - vm_compute. reflexivity.
  - vm_compute. reflexivity.
Qed.
