(* HLL proofs, part 2: the spec estimator trace and the Array8 refinement. *)
From DS Require Import Base.Prelude Model.Hll Proofs.HllBase.
From Coq Require Import ZifyBool ZifyNat ZifyN.
Open Scope N_scope.
Ltac Zify.zify_post_hook ::= Z.div_mod_to_equations.

Lemma spec_regs_cons_same : forall lgk seen c j, cslot lgk c = j -> spec_regs lgk seen j < cvalue c ->
  spec_regs lgk (c :: seen) j = cvalue c.
Proof. intros lgk seen c j Hs Hlt. cbn [spec_regs]. rewrite Hs, N.eqb_refl. lia. Qed.

Lemma spec_regs_cons_other : forall lgk seen c j, cslot lgk c <> j ->
  spec_regs lgk (c :: seen) j = spec_regs lgk seen j.
Proof. intros lgk seen c j Hs. cbn [spec_regs]. destruct (N.eqb_spec (cslot lgk c) j); [contradiction|reflexivity]. Qed.

Lemma spec_regs_cons_noop : forall lgk seen c j, cvalue c <= spec_regs lgk seen (cslot lgk c) ->
  spec_regs lgk (c :: seen) j = spec_regs lgk seen j.
Proof.
  intros lgk seen c j Hle. cbn [spec_regs]. destruct (N.eqb_spec (cslot lgk c) j) as [<-|]; [lia|reflexivity].
Qed.

(* number of zero registers of the spec *)
Definition spec_zeros (lgk : N) (seen : list N) : N :=
  count_regs (2 ^ lgk) (fun j => spec_regs lgk seen j =? 0).

Lemma spec_zeros_nil : forall lgk, spec_zeros lgk [] = 2 ^ lgk.
Proof. intros. unfold spec_zeros. apply count_regs_all. intros. reflexivity. Qed.

Lemma spec_zeros_grow : forall lgk seen c, spec_regs lgk seen (cslot lgk c) < cvalue c ->
  spec_zeros lgk (c :: seen) = (if spec_regs lgk seen (cslot lgk c) =? 0 then spec_zeros lgk seen - 1 else spec_zeros lgk seen)
  /\ (spec_regs lgk seen (cslot lgk c) = 0 -> 1 <= spec_zeros lgk seen).
Proof.
  intros lgk seen c Hlt. unfold spec_zeros.
  pose proof (count_regs_change (2 ^ lgk) (fun j => spec_regs lgk seen j =? 0)
                (fun j => spec_regs lgk (c :: seen) j =? 0) (cslot lgk c) (cslot_lt lgk c)) as H.
  cbv beta in H. rewrite (spec_regs_cons_same lgk seen c _ eq_refl Hlt) in H.
  assert (Hq : (cvalue c =? 0) = false) by lia. rewrite Hq in H.
  specialize (H ltac:(intros j _ Hj; rewrite spec_regs_cons_other by congruence; reflexivity)).
  destruct (spec_regs lgk seen (cslot lgk c) =? 0) eqn:E0; split; lia.
Qed.

Section Est.
Variable E : Type.
Variable eupd : N -> N -> N -> E -> E.

(* what the textbook sketch feeds its estimator when coupon c arrives after the coupons [seen]:
   the transition (old register value, new value) iff the register grows *)
Definition est_step (lgk : N) (seen : list N) (c : N) (e : E) : E :=
  let old := spec_regs lgk seen (cslot lgk c) in
  if old <? cvalue c then eupd lgk old (cvalue c) e else e.

Fixpoint spec_est (lgk : N) (seen cs : list N) (e : E) : E :=
  match cs with
  | [] => e
  | c :: r => spec_est lgk (c :: seen) r (est_step lgk seen c e)
  end.

(* ---------- Array8 ---------- *)
Definition Rep8 (lgk : N) (seen : list N) (a : arr8 E) (e : E) : Prop :=
  a8_lgk a = lgk /\ (forall j, a8_get a j = spec_regs lgk seen j) /\
  a8_nz a = spec_zeros lgk seen /\ a8_est a = e.

Lemma rep8_new : forall lgk e, Rep8 lgk [] (a8_new lgk e) e.
Proof.
  intros. unfold Rep8, a8_new, a8_get. cbn [a8_lgk a8_bytes a8_nz a8_est spec_regs].
  split; [reflexivity|]. split; [intros; apply aget_empty|]. split; [now rewrite spec_zeros_nil|reflexivity].
Qed.

Lemma rep8_step : forall lgk seen a e c, Rep8 lgk seen a e ->
  Rep8 lgk (c :: seen) (a8_update eupd a c) (est_step lgk seen c e).
Proof.
  intros lgk seen a e c (Hk & Hr & Hz & He). unfold a8_update, est_step.
  rewrite Hk, slot_of_cslot, get_value_div, Hr.
  destruct (N.ltb_spec (spec_regs lgk seen (cslot lgk c)) (cvalue c)) as [Hlt|Hge].
  - unfold Rep8, a8_get. cbn [a8_lgk a8_bytes a8_nz a8_est].
    split; [reflexivity|]. split; [|split].
    + intros j. rewrite aget_aset. destruct (N.eqb_spec (cslot lgk c) j) as [Ej|Ej].
      * now rewrite (spec_regs_cons_same lgk seen c j Ej) by (rewrite <- Ej; assumption).
      * rewrite spec_regs_cons_other by assumption. apply Hr.
    + destruct (spec_zeros_grow lgk seen c Hlt) as [Hs _]. rewrite Hs, Hz. reflexivity.
    + now rewrite He.
  - unfold Rep8. split; [assumption|]. split; [|split; [|assumption]].
    + intros j. rewrite spec_regs_cons_noop by assumption. apply Hr.
    + rewrite Hz. unfold spec_zeros. apply count_regs_ext. intros j _.
      now rewrite spec_regs_cons_noop by assumption.
Qed.

Lemma rep8_fold : forall lgk cs seen a e, Rep8 lgk seen a e ->
  Rep8 lgk (rev cs ++ seen) (fold_left (a8_update eupd) cs a) (spec_est lgk seen cs e).
Proof.
  induction cs; intros seen a0 e H; cbn [fold_left spec_est rev app]; [assumption|].
  rewrite <- app_assoc. cbn [app]. apply IHcs. now apply rep8_step.
Qed.

End Est.

Arguments est_step {E}. Arguments spec_est {E}. Arguments Rep8 {E}.
