(* HLL proofs, part 8: HllSketch::update_with_coupon refines the Spec (sketch.rs).
   One lock-step invariant relates the sketch of target type t and the Hll8 sketch fed the
   same stream: same list / same hash set while sparse; in array mode both represent the
   per-slot maxima of one list [fed] of coupons and carry the SAME estimator state.  From it:
   hll_refines, hll_set_determined, hll_types_same_estimator. *)
From DS Require Import Base.Prelude Model.Hll Proofs.HllBase Proofs.HllArray8 Proofs.HllArray6
  Proofs.HllOpenAddr Proofs.HllSet Proofs.HllAux Proofs.HllArray4.
From Coq Require Import ZifyBool ZifyNat ZifyN Permutation.
Open Scope N_scope.
Ltac Zify.zify_post_hook ::= Z.div_mod_to_equations.

Lemma LG_INIT_SET_5 : LG_INIT_SET_SIZE = 5. Proof. reflexivity. Qed.
Lemma LIST_TO_ARRAY_8 : LIST_TO_ARRAY_BELOW = 8. Proof. reflexivity. Qed.
Lemma SET_GAP_3 : SET_MAX_LG_GAP = 3. Proof. reflexivity. Qed.

Definition same_set (a b : list N) : Prop := forall c, In c a <-> In c b.

Lemma same_set_cons : forall a b c, same_set a b -> same_set (c :: a) (c :: b).
Proof. intros a b c H x. cbn [In]. now rewrite (H x). Qed.

Lemma same_set_absorb : forall a b c, same_set a b -> In c a -> same_set a (c :: b).
Proof. intros a b c H Hin x. cbn [In]. rewrite <- (H x). split; [tauto|]. intros [<-|?]; assumption. Qed.

Lemma NoDup_card : forall ds seen, NoDup ds -> same_set ds seen -> N.of_nat (length ds) = distinct seen.
Proof.
  intros ds seen Hnd H. unfold distinct, spec_coupons. f_equal.
  apply Nat.le_antisymm; apply NoDup_incl_length; try assumption; try apply NoDup_nodup;
    intros c Hc; [apply nodup_In; now apply H|apply nodup_In in Hc; now apply H].
Qed.

Lemma distinct_cons_ge : forall c seen, distinct seen <= distinct (c :: seen).
Proof.
  intros. unfold distinct, spec_coupons. cbn [nodup]. destruct (in_dec N.eq_dec c seen); cbn [length]; lia.
Qed.

Lemma Forall_same_set : forall (P : N -> Prop) a b, (forall c, In c a -> In c b) -> Forall P b -> Forall P a.
Proof. intros P a b H Hb. rewrite Forall_forall in *. intros c Hc. apply Hb. now apply H. Qed.

(* array mode is reached at d = 8 for lg_k < 8, else when 4d exceeds 3 * 2^(lg_k - 3) *)
Definition ArrCond (lgk d : N) : Prop := 8 <= d /\ (lgk < 8 \/ 3 * 2 ^ (lgk - 3) < 4 * d).

Lemma spec_mode_list : forall lgk d, d < 8 -> spec_mode lgk d = TagList.
Proof. intros. unfold spec_mode. destruct (N.ltb_spec d 8); [reflexivity|lia]. Qed.
Lemma spec_mode_set : forall lgk d, 8 <= d -> 8 <= lgk -> 4 * d <= 3 * 2 ^ (lgk - 3) -> spec_mode lgk d = TagSet.
Proof.
  intros. unfold spec_mode. destruct (N.ltb_spec d 8); [lia|]. destruct (N.ltb_spec lgk 8); [lia|].
  destruct (N.ltb_spec (3 * 2 ^ (lgk - 3)) (4 * d)); [lia|reflexivity].
Qed.
Lemma spec_mode_array : forall lgk d, ArrCond lgk d -> spec_mode lgk d = TagArray.
Proof.
  intros lgk d [H8 H]. unfold spec_mode. destruct (N.ltb_spec d 8); [lia|]. destruct (N.ltb_spec lgk 8); [reflexivity|].
  destruct (N.ltb_spec (3 * 2 ^ (lgk - 3)) (4 * d)); [reflexivity|lia].
Qed.

Section Sketch.
Variable E : Type.
Variable einit : N -> E.
Variable eupd : N -> N -> N -> E -> E.
Variable ecarry : N -> E -> E.
(* what is recorded about array mode: for C02 "the number of distinct coupons has passed the
   promotion threshold" (ArrCond); for a union gadget nothing (True) *)
Variable arr_ok : N -> list N -> Prop.
Hypothesis arr_ok_cons : forall lgk c seen, arr_ok lgk seen -> arr_ok lgk (c :: seen).
Hypothesis arr_ok_cond : forall lgk seen, ArrCond lgk (distinct seen) -> arr_ok lgk seen.

Local Notation upd := (update_with_coupon einit eupd ecarry).

(* the array of target type t represents [fed] with estimator state e *)
Definition RepT (lgk : N) (fed : list N) (m : mode E) (e : E) (t : tgt) : Prop :=
  match t, m with
  | T4, MArr4 a => Rep4 lgk fed a e
  | T6, MArr6 a => Rep6 lgk fed a e
  | T8, MArr8 a => Rep8 lgk fed a e
  | _, _ => False
  end.

Lemma promote_to_array_spec : forall lgk t cs len, 4 <= lgk <= 21 -> Forall valid cs ->
  exists m, promote_to_array einit eupd ecarry cs len t lgk = Ok m /\
            RepT lgk (rev cs) m (ecarry len (spec_est eupd lgk [] cs (einit lgk))) t.
Proof.
  intros lgk t cs len Hlgk Hcs. unfold promote_to_array. destruct t.
  - destruct (rep4_fold E eupd lgk cs [] _ _ Hlgk Hcs (Forall_nil _) (rep4_new E lgk (einit lgk)))
      as (a' & Hall & ((Hk & HC & Hn) & Hpos & He)).
    rewrite Hall. cbn [obind]. eexists. split; [reflexivity|]. rewrite app_nil_r in *. cbn [RepT].
    split; [|split; [assumption|cbn [a4_est]; now rewrite He]]. split; [assumption|]. split; assumption.
  - eexists. split; [reflexivity|]. cbn [RepT].
    pose proof (rep6_fold E eupd lgk cs [] _ _ Hcs (Forall_nil _) (rep6_new E lgk (einit lgk))) as (Hk & W & Hr & Hz & He).
    rewrite app_nil_r in *. unfold Rep6, a6_get in *. cbn [a6_lgk a6_bytes a6_nz a6_est]. now rewrite He.
  - eexists. split; [reflexivity|]. cbn [RepT].
    pose proof (rep8_fold E eupd lgk cs [] _ _ (rep8_new E lgk (einit lgk))) as (Hk & Hr & Hz & He).
    rewrite app_nil_r in *. unfold Rep8, a8_get in *. cbn [a8_lgk a8_bytes a8_nz a8_est]. now rewrite He.
Qed.

Lemma repT_step : forall lgk t fed m e c, 4 <= lgk <= 21 -> Forall valid (c :: fed) -> RepT lgk fed m e t ->
  exists m', upd (mkSketch lgk m) c = Ok (mkSketch lgk m') /\ RepT lgk (c :: fed) m' (est_step eupd lgk fed c e) t.
Proof.
  intros lgk t fed m e c Hlgk Hv HR. unfold update_with_coupon. cbn [sk_lgk sk_mode].
  destruct t, m; cbn [RepT] in HR; try contradiction.
  - destruct (rep4_step E eupd lgk fed a e c Hlgk Hv HR) as (a' & Hu & HR'). rewrite Hu. cbn [obind].
    exists (MArr4 a'). split; [reflexivity|assumption].
  - exists (MArr6 (a6_update eupd a c)). split; [reflexivity|]. now apply rep6_step.
  - exists (MArr8 (a8_update eupd a c)). split; [reflexivity|]. now apply rep8_step.
Qed.

(* ---------- the lock-step invariant ---------- *)
Inductive Sim (lgk : N) (t : tgt) (seen : list N) : sketch E -> sketch E -> Prop :=
| SimList : forall l ds, ListInv l ds -> (length ds < 8)%nat -> same_set ds seen ->
    Sim lgk t seen (mkSketch lgk (MList l t)) (mkSketch lgk (MList l T8))
| SimSet : forall st, 8 <= lgk -> 5 <= hs_lg st -> hs_lg st <= lgk - 3 -> SetRep (hs_lg st) st seen ->
    8 <= hs_len st -> 4 * hs_len st <= 3 * 2 ^ hs_lg st ->
    Sim lgk t seen (mkSketch lgk (MSet st t)) (mkSketch lgk (MSet st T8))
| SimArr : forall fed e m m8, same_set fed seen -> Forall valid fed -> arr_ok lgk seen ->
    RepT lgk fed m e t -> RepT lgk fed m8 e T8 ->
    Sim lgk t seen (mkSketch lgk m) (mkSketch lgk m8).

Lemma sim_new : forall lgk t, Sim lgk t [] (mkSketch lgk (MList (list_new LG_INIT_LIST_SIZE) t))
                                     (mkSketch lgk (MList (list_new LG_INIT_LIST_SIZE) T8)).
Proof. intros. apply (SimList lgk t [] _ []); [apply list_new_inv|cbn; lia|intros c; tauto]. Qed.

Lemma set_card : forall lg st seen, SetRep lg st seen -> hs_len st = distinct seen.
Proof.
  intros lg st seen HR. rewrite (set_len_card lg st seen HR). apply NoDup_card.
  - now apply (set_iter_NoDup lg st seen).
  - intros c. now apply (set_iter_In lg st seen).
Qed.

(* promotion of a container (its iter list cs, all distinct) to array mode, both types at once *)
Lemma sim_promote_array : forall lgk t cs len seen, 4 <= lgk <= 21 -> Forall valid seen -> same_set cs seen ->
  ArrCond lgk (distinct seen) ->
  exists m m8, promote_to_array einit eupd ecarry cs len t lgk = Ok m /\
               promote_to_array einit eupd ecarry cs len T8 lgk = Ok m8 /\
               Sim lgk t seen (mkSketch lgk m) (mkSketch lgk m8).
Proof.
  intros lgk t cs len seen Hlgk Hv Hss Hc.
  assert (Hcs : Forall valid cs) by (apply (Forall_same_set valid cs seen); [intros c; apply Hss|assumption]).
  destruct (promote_to_array_spec lgk t cs len Hlgk Hcs) as (m & Hp & HR).
  destruct (promote_to_array_spec lgk T8 cs len Hlgk Hcs) as (m8 & Hp8 & HR8).
  exists m, m8. split; [assumption|]. split; [assumption|].
  apply (SimArr lgk t seen (rev cs) (ecarry len (spec_est eupd lgk [] cs (einit lgk))) m m8); try assumption.
  - intros c. rewrite <- in_rev. apply Hss.
  - apply Forall_rev. assumption.
  - now apply arr_ok_cond.
Qed.

Lemma sim_step : forall lgk t seen s s8 c, 4 <= lgk <= 21 -> Forall valid (c :: seen) -> Sim lgk t seen s s8 ->
  exists s' s8', upd s c = Ok s' /\ upd s8 c = Ok s8' /\ Sim lgk t (c :: seen) s' s8'.
Proof.
  intros lgk t seen s s8 c Hlgk Hv HS. inversion Hv as [|? ? Hc Hseen]; subst.
  pose proof (valid_nonzero c Hc) as Hc0.
  destruct HS as [l ds HL Hlen Hss|st Hk8 Hlg5 Hlgm HR Hlen8 Hload|fed e m m8 Hss Hfed Hcond HR HR8].
  - (* list mode *)
    unfold update_with_coupon. cbn [sk_lgk sk_mode]. rewrite LIST_TO_ARRAY_8.
    destruct (in_dec N.eq_dec c ds) as [Hin|Hnin].
    + rewrite (list_update_old l ds c HL Hin). rewrite (list_full_inv l ds HL).
      destruct (Nat.eqb_spec (length ds) 8) as [E8|_]; [lia|].
      eexists. eexists. split; [reflexivity|]. split; [reflexivity|].
      apply (SimList lgk t _ l ds); try assumption. now apply same_set_absorb.
    + pose proof (list_update_new l ds c HL Hnin Hc0 Hlen) as HL'.
      assert (Hss' : same_set (ds ++ [c]) (c :: seen)).
      { intros x. rewrite in_app_iff. cbn [In]. rewrite (Hss x). tauto. }
      rewrite (list_full_inv _ _ HL'), (list_iter_inv _ _ HL'). rewrite app_length. cbn [length].
      destruct (Nat.eqb_spec (length ds + 1) 8) as [E8|N8].
      * (* full: promote *)
        assert (Hd8 : distinct (c :: seen) = 8).
        { rewrite <- (NoDup_card (ds ++ [c]) (c :: seen)); [rewrite app_length; cbn [length]; lia| |assumption].
          destruct HL' as (_ & _ & Hnd & _). assumption. }
        destruct (N.ltb_spec lgk 8) as [Hk|Hk].
        -- destruct (sim_promote_array lgk t (ds ++ [c]) (hl_len (list_update l c)) (c :: seen) Hlgk Hv Hss')
             as (m & m8 & Hp & Hp8 & HS').
           { split; [lia|now left]. }
           rewrite Hp, Hp8. cbn [obind]. eexists. eexists. split; [reflexivity|]. split; [reflexivity|assumption].
        -- unfold promote_to_set. rewrite LG_INIT_SET_5.
           destruct (set_update_all_fresh 5 (ds ++ [c]) (set_new 5) [] (set_new_rep 5)) as (st' & Hall & HR' & Hl').
           { destruct HL' as (_ & _ & Hnd & _). assumption. }
           { intros x Hx. split; [|tauto]. destruct HL' as (_ & _ & _ & H0 & _). intros ->. contradiction. }
           { unfold set_new. cbn [hs_len]. rewrite app_length. cbn [length]. change (2 ^ 5) with 32. lia. }
           rewrite Hall. cbn [obind]. eexists. eexists. split; [reflexivity|]. split; [reflexivity|].
           destruct HR' as (Hlg' & HR'). rewrite app_nil_r in HR'.
           assert (HRs : SetRep (hs_lg st') st' (c :: seen)).
           { rewrite Hlg'. split; [assumption|]. destruct HR' as (A & B & C). split; [assumption|]. split; [assumption|].
             intros x. rewrite C, <- in_rev. apply Hss'. }
           unfold set_new in Hl'. cbn [hs_len] in Hl'. rewrite app_length in Hl'. cbn [length] in Hl'.
           apply SimSet; try assumption; rewrite ?Hlg'; try lia.
      * eexists. eexists. split; [reflexivity|]. split; [reflexivity|].
        apply (SimList lgk t _ _ (ds ++ [c])); try assumption. rewrite app_length. cbn [length]. lia.
  - (* set mode *)
    unfold update_with_coupon. cbn [sk_lgk sk_mode]. rewrite RESIZE_NUM_3, RESIZE_DEN_4, SET_GAP_3.
    set (lg := hs_lg st) in *.
    assert (Hp32 : 32 <= 2 ^ lg) by (change 32 with (2 ^ 5); apply N.pow_le_mono_r; lia).
    destruct (set_update_spec lg st seen c HR ltac:(lia) Hc0) as (st' & Hu & HR' & Hold & Hnew).
    rewrite Hu. cbn [obind]. unfold set_capacity.
    assert (Hlg' : hs_lg st' = lg) by (destruct HR'; assumption).
    rewrite Hlg'.
    destruct (in_dec N.eq_dec c seen) as [Hin|Hnin].
    + rewrite (Hold Hin). destruct (N.ltb_spec (3 * 2 ^ lg) (4 * hs_len st)) as [Hx|_]; [lia|].
      eexists. eexists. split; [reflexivity|]. split; [reflexivity|].
      apply SimSet; try assumption. fold lg. rewrite <- (Hold Hin). assumption.
    + specialize (Hnew Hnin).
      destruct (N.ltb_spec (3 * 2 ^ lg) (4 * hs_len st')) as [Hx|Hx].
      * assert (Hcard : hs_len st' = distinct (c :: seen)) by (apply (set_card lg); assumption).
        assert (Hiter : same_set (set_iter st') (c :: seen)) by (intros x; apply (set_iter_In lg); assumption).
        destruct (N.eqb_spec lg (lgk - 3)) as [Elg|Nlg].
        -- destruct (sim_promote_array lgk t (set_iter st') (hs_len st') (c :: seen) Hlgk Hv Hiter)
             as (m & m8 & Hp & Hp8 & HS').
           { rewrite <- Hcard. split; [lia|]. right. rewrite <- Elg. assumption. }
           rewrite Hp, Hp8. cbn [obind]. eexists. eexists. split; [reflexivity|]. split; [reflexivity|assumption].
        -- unfold grow_set. rewrite Hlg'.
           destruct (set_update_all_fresh (lg + 1) (set_iter st') (set_new (lg + 1)) [] (set_new_rep (lg + 1)))
             as (st2 & Hall & HR2 & Hl2).
           { now apply (set_iter_NoDup lg st' (c :: seen)). }
           { intros x Hx'. split; [|tauto]. now apply (set_iter_nonzero lg st'). }
           { unfold set_new. cbn [hs_len]. rewrite <- (set_len_card lg st' _ HR'). rewrite N.pow_add_r. lia. }
           rewrite Hall. cbn [obind]. eexists. eexists. split; [reflexivity|]. split; [reflexivity|].
           destruct HR2 as (Hlg2 & HR2). rewrite app_nil_r in HR2.
           assert (HRs : SetRep (hs_lg st2) st2 (c :: seen)).
           { rewrite Hlg2. split; [assumption|]. destruct HR2 as (A & B & C). split; [assumption|]. split; [assumption|].
             intros x. rewrite C, <- in_rev. apply Hiter. }
           unfold set_new in Hl2. cbn [hs_len] in Hl2. rewrite <- (set_len_card lg st' _ HR') in Hl2.
           apply SimSet; try assumption; rewrite ?Hlg2; try lia. rewrite N.pow_add_r. lia.
      * eexists. eexists. split; [reflexivity|]. split; [reflexivity|].
        apply SimSet; try assumption; rewrite ?Hlg'; try lia; try assumption.
  - (* array mode *)
    destruct (repT_step lgk t fed m e c Hlgk (Forall_cons _ Hc Hfed) HR) as (m' & Hu & HR').
    destruct (repT_step lgk T8 fed m8 e c Hlgk (Forall_cons _ Hc Hfed) HR8) as (m8' & Hu8 & HR8').
    exists (mkSketch lgk m'), (mkSketch lgk m8'). split; [assumption|]. split; [assumption|].
    apply (SimArr lgk t _ (c :: fed) (est_step eupd lgk fed c e) m' m8'); try assumption.
    + now apply same_set_cons.
    + now constructor.
    + now apply arr_ok_cons.
Qed.

Lemma sim_run : forall lgk t cs seen s s8, 4 <= lgk <= 21 -> Forall valid cs -> Forall valid seen ->
  Sim lgk t seen s s8 ->
  exists s' s8', update_all einit eupd ecarry cs s = Ok s' /\ update_all einit eupd ecarry cs s8 = Ok s8' /\
                 Sim lgk t (rev cs ++ seen) s' s8'.
Proof.
  induction cs as [|c r IH]; intros seen s s8 Hlgk Hcs Hseen HS; cbn [update_all rev app].
  - exists s, s8. split; [reflexivity|]. split; [reflexivity|assumption].
  - inversion Hcs as [|? ? Hc Hr]; subst.
    destruct (sim_step lgk t seen s s8 c Hlgk (Forall_cons _ Hc Hseen) HS) as (s1 & s81 & Hu & Hu8 & HS1).
    rewrite Hu, Hu8. cbn [obind].
    destruct (IH (c :: seen) s1 s81 Hlgk Hr (Forall_cons _ Hc Hseen) HS1) as (s' & s8' & Hall & Hall8 & HS').
    exists s', s8'. split; [assumption|]. split; [assumption|]. rewrite <- app_assoc. exact HS'.
Qed.

Lemma sim_stream : forall lgk t cs, 4 <= lgk <= 21 -> Forall valid cs ->
  exists s s8, run_stream einit eupd ecarry lgk t cs = Ok s /\ run_stream einit eupd ecarry lgk T8 cs = Ok s8 /\
               Sim lgk t (rev cs) s s8.
Proof.
  intros lgk t cs Hlgk Hcs. unfold run_stream, sketch_new.
  replace ((4 <=? lgk) && (lgk <=? 21)) with true by lia. cbn [obind].
  destruct (sim_run lgk t cs [] _ _ Hlgk Hcs (Forall_nil _) (sim_new lgk t)) as (s & s8 & H1 & H2 & HS).
  rewrite app_nil_r in HS. exists s, s8. split; [assumption|]. split; assumption.
Qed.

End Sketch.

(* the instance used for C02: array mode means the promotion threshold has been passed *)
Definition AC (lgk : N) (seen : list N) : Prop := ArrCond lgk (distinct seen).
Lemma AC_cons : forall lgk c seen, AC lgk seen -> AC lgk (c :: seen).
Proof.
  intros lgk c seen [H8 Hor]. pose proof (distinct_cons_ge c seen) as Hge. split; [lia|].
  destruct Hor as [?|?]; [now left|right; lia].
Qed.
Lemma AC_cond : forall lgk seen, ArrCond lgk (distinct seen) -> AC lgk seen.
Proof. intros. assumption. Qed.

(* ================= what a sketch shows (the abstraction) ================= *)
Definition sk_tag {E} (s : sketch E) : mode_tag :=
  match sk_mode s with MList _ _ => TagList | MSet _ _ => TagSet | _ => TagArray end.
Definition sk_tgt {E} (s : sketch E) : tgt :=
  match sk_mode s with MList _ t => t | MSet _ t => t | MArr4 _ => T4 | MArr6 _ => T6 | MArr8 _ => T8 end.
(* Container::iter and Container::len in list / set mode *)
Definition sk_coupons {E} (s : sketch E) : list N :=
  match sk_mode s with MList l _ => list_iter l | MSet st _ => set_iter st | _ => [] end.
Definition sk_len {E} (s : sketch E) : N :=
  match sk_mode s with MList l _ => hl_len l | MSet st _ => hs_len st | _ => 0 end.
(* Array{4,6,8}::get in array mode *)
Definition sk_reg {E} (s : sketch E) (j : N) : outcome N :=
  match sk_mode s with
  | MArr4 a => a4_get a j | MArr6 a => Ok (a6_get a j) | MArr8 a => Ok (a8_get a j) | _ => Ok 0
  end.
(* what the array hands to its estimator: the estimator state and the number of unhit registers
   (get_bitmap_estimate: num_at_cur_min if cur_min == 0 else 0) *)
Definition sk_est_inputs {E} (s : sketch E) : option (E * N) :=
  match sk_mode s with
  | MArr4 a => Some (a4_est a, if a4_cur_min a =? 0 then a4_num a else 0)
  | MArr6 a => Some (a6_est a, a6_nz a)
  | MArr8 a => Some (a8_est a, a8_nz a)
  | _ => None
  end.

(* the sketch shows the Spec of the coupon list cs *)
Definition hll_abs_ok {E} (lgk : N) (t : tgt) (cs : list N) (s : sketch E) : Prop :=
  sk_lgk s = lgk /\ sk_tgt s = t /\ sk_tag s = spec_mode lgk (distinct cs) /\
  match sk_tag s with
  | TagArray => forall j, j < 2 ^ lgk -> sk_reg s j = Ok (spec_regs lgk cs j)
  | _ => NoDup (sk_coupons s) /\ (forall c, In c (sk_coupons s) <-> In c cs) /\ sk_len s = distinct cs
  end.

Lemma abs_ok_set : forall E lgk t a b (s : sketch E), same_set a b -> hll_abs_ok lgk t a s -> hll_abs_ok lgk t b s.
Proof.
  intros E lgk t a b s Hss (Hk & Ht & Hm & Hbody). split; [assumption|]. split; [assumption|].
  rewrite <- (distinct_set a b Hss). split; [assumption|]. destruct (sk_tag s).
  - destruct Hbody as (A & B & C). split; [assumption|]. split; [|assumption]. intros c. rewrite B. apply Hss.
  - destruct Hbody as (A & B & C). split; [assumption|]. split; [|assumption]. intros c. rewrite B. apply Hss.
  - intros j Hj. rewrite (Hbody j Hj). f_equal. now apply spec_regs_set.
Qed.

Lemma sim_abs : forall E lgk t seen (s s8 : sketch E), 4 <= lgk <= 21 -> Sim E AC lgk t seen s s8 -> hll_abs_ok lgk t seen s.
Proof.
  intros E lgk t seen s s8 Hlgk HS.
  destruct HS as [l ds HL Hlen Hss|st Hk8 Hlg5 Hlgm HR Hlen8 Hload|fed e m m8 Hss Hfed Hcond HR HR8];
    unfold hll_abs_ok, sk_tag, sk_tgt, sk_coupons, sk_len, sk_reg; cbn [sk_lgk sk_mode].
  - pose proof HL as (_ & Hl & Hnd & _). pose proof (NoDup_card ds seen Hnd Hss) as Hcard.
    split; [reflexivity|]. split; [reflexivity|]. split; [symmetry; apply spec_mode_list; lia|].
    rewrite (list_iter_inv l ds HL). split; [assumption|]. split; [assumption|]. now rewrite Hl.
  - pose proof (set_card (hs_lg st) st seen HR) as Hcard.
    split; [reflexivity|]. split; [reflexivity|]. split.
    + symmetry. apply spec_mode_set; try lia. rewrite <- Hcard.
      assert (2 ^ hs_lg st <= 2 ^ (lgk - 3)) by (apply N.pow_le_mono_r; lia). lia.
    + split; [now apply (set_iter_NoDup (hs_lg st) st seen)|]. split; [|assumption]. intros c. now apply (set_iter_In (hs_lg st) st seen).
  - assert (Hreg : forall j, spec_regs lgk fed j = spec_regs lgk seen j) by (intros j; now apply spec_regs_set).
    destruct t, m; cbn [RepT] in HR; try contradiction.
    + destruct HR as (HI & _ & _). pose proof HI as (Hk & _).
      split; [reflexivity|]. split; [reflexivity|]. split; [symmetry; now apply spec_mode_array|].
      intros j Hj. rewrite (a4_get_regs E lgk _ a j HI Hj) || rewrite (a4_get_regs E (fun _ _ _ x => x) lgk _ a j HI Hj). now rewrite Hreg.
    + destruct HR as (Hk & _ & Hr & _).
      split; [reflexivity|]. split; [reflexivity|]. split; [symmetry; now apply spec_mode_array|].
      intros j Hj. now rewrite Hr, Hreg.
    + destruct HR as (Hk & Hr & _).
      split; [reflexivity|]. split; [reflexivity|]. split; [symmetry; now apply spec_mode_array|].
      intros j Hj. now rewrite Hr, Hreg.
Qed.

Lemma sim_est : forall E ao lgk t seen (s s8 : sketch E), Sim E ao lgk t seen s s8 ->
  sk_est_inputs s = sk_est_inputs s8 /\ sk_tag s = sk_tag s8 /\ sk_len s = sk_len s8 /\ sk_lgk s = sk_lgk s8.
Proof.
  intros E ao lgk t seen s s8 HS.
  destruct HS as [l ds HL Hlen Hss|st Hk8 Hlg5 Hlgm HR Hlen8 Hload|fed e m m8 Hss Hfed Hcond HR HR8];
    unfold sk_est_inputs, sk_tag, sk_len; cbn [sk_lgk sk_mode]; try (repeat split; reflexivity).
  destruct m8; cbn [RepT] in HR8; try contradiction. destruct HR8 as (_ & _ & Hz8 & He8).
  destruct t, m; cbn [RepT] in HR; try contradiction.
  - rewrite (rep4_unhit E lgk fed a0 e HR). destruct HR as (_ & _ & He). rewrite He, Hz8, He8. repeat split; reflexivity.
  - destruct HR as (_ & _ & _ & Hz & He). rewrite He, Hz, Hz8, He8. repeat split; reflexivity.
  - destruct HR as (_ & _ & Hz & He). rewrite He, Hz, Hz8, He8. repeat split; reflexivity.
Qed.

(* ================= the theorems of C02 ================= *)
Section Top.
Variable E : Type.
Variable einit : N -> E.
Variable eupd : N -> N -> N -> E -> E.
Variable ecarry : N -> E -> E.
Local Notation run := (run_stream einit eupd ecarry).

Theorem hll_refines : forall lgk t cs, 4 <= lgk <= 21 -> Forall valid cs ->
  exists s, run lgk t cs = Ok s /\ hll_abs_ok lgk t cs s.
Proof.
  intros lgk t cs Hlgk Hcs. destruct (sim_stream E einit eupd ecarry AC AC_cons AC_cond lgk t cs Hlgk Hcs) as (s & s8 & Hr & _ & HS).
  exists s. split; [assumption|]. apply (abs_ok_set E lgk t (rev cs) cs); [intros c; symmetry; apply in_rev|].
  now apply (sim_abs E lgk t (rev cs) s s8).
Qed.

(* order and multiplicity of the stream do not matter *)
Theorem hll_set_determined : forall lgk t cs cs', 4 <= lgk <= 21 -> Forall valid cs -> Forall valid cs' ->
  same_set cs cs' ->
  exists s s', run lgk t cs = Ok s /\ run lgk t cs' = Ok s' /\
    sk_tag s = sk_tag s' /\ sk_len s = sk_len s' /\
    (forall c, In c (sk_coupons s) <-> In c (sk_coupons s')) /\
    (forall j, j < 2 ^ lgk -> sk_reg s j = sk_reg s' j).
Proof.
  intros lgk t cs cs' Hlgk Hcs Hcs' Hss.
  destruct (hll_refines lgk t cs Hlgk Hcs) as (s & Hr & Ha).
  destruct (hll_refines lgk t cs' Hlgk Hcs') as (s' & Hr' & Ha').
  apply (abs_ok_set E lgk t cs' cs) in Ha'; [|intros c; symmetry; apply Hss].
  exists s, s'. split; [assumption|]. split; [assumption|].
  destruct Ha as (_ & _ & Hm & Hb), Ha' as (_ & _ & Hm' & Hb').
  assert (Htag : sk_tag s = sk_tag s') by congruence. split; [assumption|].
  rewrite <- Htag in Hb'. destruct (sk_tag s) eqn:Et.
  - destruct Hb as (_ & B & C), Hb' as (_ & B' & C'). split; [congruence|]. split.
    + intros c. now rewrite B, B'.
    + intros j _. unfold sk_tag, sk_reg in *. destruct (sk_mode s), (sk_mode s'); try discriminate; reflexivity.
  - destruct Hb as (_ & B & C), Hb' as (_ & B' & C'). split; [congruence|]. split.
    + intros c. now rewrite B, B'.
    + intros j _. unfold sk_tag, sk_reg in *. destruct (sk_mode s), (sk_mode s'); try discriminate; reflexivity.
  - split; [|split].
    + unfold sk_tag, sk_len in *. destruct (sk_mode s), (sk_mode s'); try discriminate; reflexivity.
    + intros c. unfold sk_tag, sk_coupons in *. destruct (sk_mode s), (sk_mode s'); try discriminate; reflexivity.
    + intros j Hj. now rewrite Hb, Hb'.
Qed.

(* the three target types feed identical transitions to one estimator *)
Theorem hll_types_same_estimator : forall lgk cs, 4 <= lgk <= 21 -> Forall valid cs ->
  exists s4 s6 s8, run lgk T4 cs = Ok s4 /\ run lgk T6 cs = Ok s6 /\ run lgk T8 cs = Ok s8 /\
    sk_est_inputs s4 = sk_est_inputs s8 /\ sk_est_inputs s6 = sk_est_inputs s8 /\
    sk_tag s4 = sk_tag s8 /\ sk_tag s6 = sk_tag s8 /\ sk_len s4 = sk_len s8 /\ sk_len s6 = sk_len s8.
Proof.
  intros lgk cs Hlgk Hcs.
  destruct (sim_stream E einit eupd ecarry AC AC_cons AC_cond lgk T4 cs Hlgk Hcs) as (s4 & s8 & H4 & H8 & HS4).
  destruct (sim_stream E einit eupd ecarry AC AC_cons AC_cond lgk T6 cs Hlgk Hcs) as (s6 & s8' & H6 & H8' & HS6).
  assert (s8' = s8) by congruence. subst s8'.
  destruct (sim_est E AC lgk T4 _ s4 s8 HS4) as (A4 & B4 & C4 & _).
  destruct (sim_est E AC lgk T6 _ s6 s8 HS6) as (A6 & B6 & C6 & _).
  exists s4, s6, s8. repeat split; assumption.
Qed.

End Top.

(* with the HIP estimator: estimates and bounds of the three types coincide *)
Lemma est_inputs_queries : forall (s s' : hsketch), sk_est_inputs s = sk_est_inputs s' -> sk_tag s = sk_tag s' ->
  sk_len s = sk_len s' -> sk_lgk s = sk_lgk s' ->
  hll_estimate s = hll_estimate s' /\
  (forall nsd, hll_upper_bound s nsd = hll_upper_bound s' nsd) /\
  (forall nsd, hll_lower_bound s nsd = hll_lower_bound s' nsd).
Proof.
  intros s s' He Ht Hl Hk. unfold hll_estimate, hll_upper_bound, hll_lower_bound, sk_est_inputs, sk_tag, sk_len in *.
  rewrite Hk. destruct (sk_mode s), (sk_mode s'); try discriminate; cbn in Hl; subst;
    try (inversion He; subst); repeat split; try reflexivity; try (intros; congruence).
Qed.

Theorem hll_types_same_estimates : forall lgk cs, 4 <= lgk <= 21 -> Forall valid cs ->
  exists s4 s6 s8, run_stream hip_new hip_update hip_carry lgk T4 cs = Ok s4 /\
    run_stream hip_new hip_update hip_carry lgk T6 cs = Ok s6 /\
    run_stream hip_new hip_update hip_carry lgk T8 cs = Ok s8 /\
    hll_estimate s4 = hll_estimate s8 /\ hll_estimate s6 = hll_estimate s8 /\
    (forall nsd, hll_upper_bound s4 nsd = hll_upper_bound s8 nsd /\ hll_upper_bound s6 nsd = hll_upper_bound s8 nsd /\
                 hll_lower_bound s4 nsd = hll_lower_bound s8 nsd /\ hll_lower_bound s6 nsd = hll_lower_bound s8 nsd).
Proof.
  intros lgk cs Hlgk Hcs.
  destruct (sim_stream hip hip_new hip_update hip_carry AC AC_cons AC_cond lgk T4 cs Hlgk Hcs) as (s4 & s8 & H4 & H8 & HS4).
  destruct (sim_stream hip hip_new hip_update hip_carry AC AC_cons AC_cond lgk T6 cs Hlgk Hcs) as (s6 & s8' & H6 & H8' & HS6).
  assert (s8' = s8) by congruence. subst s8'.
  destruct (sim_est hip AC lgk T4 _ s4 s8 HS4) as (A4 & B4 & C4 & D4).
  destruct (sim_est hip AC lgk T6 _ s6 s8 HS6) as (A6 & B6 & C6 & D6).
  destruct (est_inputs_queries s4 s8 A4 B4 C4 D4) as (E4 & U4 & L4).
  destruct (est_inputs_queries s6 s8 A6 B6 C6 D6) as (E6 & U6 & L6).
  exists s4, s6, s8. repeat split; try assumption; auto.
Qed.
