(* Compact theta codecs: round trip through both writers (C11), the reader is total and returns
   only usable values (C14), sizes (C18).  Conformance to the layout specification and the
   foreign variants (C12, C13) are in Proofs/ThetaLayoutProofs.v. *)
From Coq Require Import List NArith Nnat Bool Lia PeanoNat Sorted.
From Coq Require Import ZifyBool ZifyNat ZifyN.
From DS Require Import Base.Prelude Base.Bytes Base.ThetaLib Base.BitExp Model.Theta Model.ThetaCodec Spec.ThetaLayout.
From DS Require Import Proofs.ThetaBitSym Proofs.ThetaBitPack.
From DS Require Gen.GenTheta Gen.GenCodec.
Import ListNotations.
Open Scope N_scope.

Ltac Zify.zify_post_hook ::= Z.div_mod_to_equations.

(* ---------- constants (re-read from the source on this run) ---------- *)
Lemma codec_consts :
  MAX_THETA = 9223372036854775807 /\ BLOCK_WIDTH = 8 /\
  zN GenTheta.UNCOMPRESSED_SERIAL_VERSION = 3 /\ zN GenTheta.COMPRESSED_SERIAL_VERSION = 4 /\
  zN GenCodec.FAMILY_THETA_ID = 3 /\
  zN GenCodec.FAMILY_THETA_MIN_PRE_LONGS = 1 /\ zN GenCodec.FAMILY_THETA_MAX_PRE_LONGS = 3 /\
  zN GenTheta.FLAGS_IS_READ_ONLY = 2 /\ zN GenTheta.FLAGS_IS_EMPTY = 4 /\
  zN GenTheta.FLAGS_IS_COMPACT = 8 /\ zN GenTheta.FLAGS_IS_ORDERED = 16 /\
  zN GenTheta.V2_PREAMBLE_EMPTY = 1 /\ zN GenTheta.V2_PREAMBLE_PRECISE = 2 /\ zN GenTheta.V2_PREAMBLE_ESTIMATE = 3.
Proof. repeat split; reflexivity. Qed.

(* ---------- cursor ---------- *)
Lemma short_spec : forall n l, short n l = (length l <? n)%nat.
Proof.
  induction n as [|n IH]; intros l; [destruct l; reflexivity|].
  destruct l as [|x r]; cbn [short length]; [reflexivity|]. rewrite IH. reflexivity.
Qed.

Lemma rd_app : forall n a b, length a = n -> rd n (a ++ b) = Ok (le_val a, b).
Proof.
  intros n a b H. unfold rd. rewrite short_spec, app_length.
  destruct (Nat.ltb_spec (length a + length b) n); [lia|].
  rewrite firstn_app_exact, skipn_app_exact by exact H. reflexivity.
Qed.

Lemma rd_cons : forall x l, rd 1 (x :: l) = Ok (x, l).
Proof. intros. change (x :: l) with ([x] ++ l). rewrite rd_app by reflexivity. cbn [le_val]. f_equal. f_equal. lia. Qed.

Lemma rd_le : forall n x b, x < 256 ^ N.of_nat n -> rd n (le_bytes n x ++ b) = Ok (x, b).
Proof. intros n x b H. rewrite rd_app by apply le_bytes_length. now rewrite le_val_le_bytes_small. Qed.

Lemma rd_ok_length : forall n bs v r, rd n bs = Ok (v, r) -> length bs = (n + length r)%nat /\ r = skipn n bs.
Proof.
  intros n bs v r H. unfold rd in H. rewrite short_spec in H. destruct (Nat.ltb_spec (length bs) n); [discriminate|].
  inversion H. subst. rewrite skipn_length. split; [lia|reflexivity].
Qed.

Lemma rd_not_stuck : forall n bs, rd n bs <> Stuck.
Proof. intros. unfold rd. destruct (short n bs); discriminate. Qed.

(* ---------- entries ---------- *)
Lemma ascending_b_sorted : forall l, ascending_b l = true <-> StronglySorted N.lt l.
Proof.
  induction l as [|a l IH].
  - split; [constructor|reflexivity].
  - destruct l as [|b r].
    + split; [repeat constructor|reflexivity].
    + cbn [ascending_b]. cbn [ascending_b] in IH. rewrite andb_true_iff, N.ltb_lt. split.
      * intros [Hab Hr]. apply IH in Hr. constructor; [exact Hr|].
        constructor; [exact Hab|]. inversion Hr as [|? ? _ Hall]; subst.
        eapply Forall_impl; [|exact Hall]. intros; cbv beta in *. lia.
      * intros H. inversion H as [|? ? Hs Hall]; subst. inversion Hall; subst. split; [assumption|now apply IH].
Qed.

Lemma flat_map_le8_length : forall cs, length (flat_map (le_bytes 8) cs) = (8 * length cs)%nat.
Proof. induction cs as [|c cs IH]; cbn [flat_map length]; [reflexivity|]. rewrite app_length, le_bytes_length, IH. lia. Qed.

Lemma asc_ascending_b : forall l, asc l = ascending_b l.
Proof.
  induction l as [|a l IH]; [reflexivity|]. destruct l as [|b r]; [reflexivity|].
  cbn [asc ascending_b]. cbn [asc ascending_b] in IH. now rewrite IH.
Qed.

(* the values a compact sketch must have so that both writers and the reader agree on it *)
Record c_wf (sh : N) (c : csk) : Prop := {
  wf_entries : Forall (fun h => 0 < h /\ h < ce_theta c) (ce_entries c);
  wf_theta : 0 < ce_theta c /\ ce_theta c <= MAX_THETA;
  wf_seed : ce_seed_hash c < 65536 /\ (ce_empty c = false -> ce_seed_hash c = sh);
  wf_ordered : ce_ordered c = true -> ascending_b (ce_entries c) = true;
  wf_empty : ce_empty c = true -> ce_entries c = [] /\ ce_theta c = MAX_THETA;
  wf_len : N.of_nat (length (ce_entries c)) < M32
}.

Lemma max_theta_val : MAX_THETA = 9223372036854775807.
Proof. reflexivity. Qed.

Lemma read_hashes_flat : forall theta es rest,
  theta <= M64 -> Forall (fun h => 0 < h /\ h < theta) es ->
  read_hashes (length es) theta (flat_map (le_bytes 8) es ++ rest) = Ok es.
Proof.
  intros theta. induction es as [|e es IH]; intros rest Hth Hall; cbn [length read_hashes flat_map]; [reflexivity|].
  inversion Hall as [|? ? [He0 He] Hall']; subst.
  rewrite <- app_assoc, rd_le by (change (256 ^ N.of_nat 8) with M64; lia).
  cbn [obind]. destruct (N.eqb_spec e 0); [lia|]. destruct (N.leb_spec theta e); [lia|]. cbn [orb].
  rewrite IH by assumption. reflexivity.
Qed.

Lemma read_entries_flat : forall theta es,
  theta <= M64 -> Forall (fun h => 0 < h /\ h < theta) es ->
  read_entries (N.of_nat (length es)) theta (flat_map (le_bytes 8) es) = Ok es.
Proof.
  intros theta es Hth Hall. unfold read_entries. rewrite flat_map_le8_length.
  destruct (N.ltb_spec (N.of_nat (8 * length es) / 8) (N.of_nat (length es))) as [H|_].
  { exfalso. replace (N.of_nat (8 * length es)) with (N.of_nat (length es) * 8) in H by lia.
    rewrite N.div_mul in H by lia. lia. }
  rewrite Nat2N.id. rewrite <- (app_nil_r (flat_map (le_bytes 8) es)). now apply read_hashes_flat.
Qed.

(* ---------- flags ---------- *)
Lemma flags_v3_decode : forall e o : bool,
  let flags := zN GenTheta.FLAGS_IS_READ_ONLY + zN GenTheta.FLAGS_IS_COMPACT
               + (if e then zN GenTheta.FLAGS_IS_EMPTY else 0) + (if o then zN GenTheta.FLAGS_IS_ORDERED else 0) in
  flag_set flags (zN GenTheta.FLAGS_IS_EMPTY) = e /\ flag_set flags (zN GenTheta.FLAGS_IS_ORDERED) = o /\ flags < 256.
Proof. intros [|] [|]; vm_compute; repeat split; reflexivity. Qed.

Lemma flags_v4_decode :
  flag_set c_flags_v4 (zN GenTheta.FLAGS_IS_EMPTY) = false /\ flag_set c_flags_v4 (zN GenTheta.FLAGS_IS_ORDERED) = true.
Proof. vm_compute. split; reflexivity. Qed.

(* ---------- uncompressed round trip ---------- *)
Lemma csk_eta : forall c, c = mkC (ce_entries c) (ce_theta c) (ce_seed_hash c) (ce_ordered c) (ce_empty c).
Proof. destruct c; reflexivity. Qed.

Lemma csk_done : forall c es th sd od em,
  es = ce_entries c -> th = ce_theta c -> sd = ce_seed_hash c -> od = ce_ordered c -> em = ce_empty c ->
  Ok (mkC es th sd od em) = Ok c.
Proof. intros [] * -> -> -> -> ->. reflexivity. Qed.

Lemma ensure_ordered_ok : forall b es, (b = true -> ascending_b es = true) ->
  (if b then ensure_ordered es else Ok tt) = Ok tt.
Proof. intros [|] es H; [|reflexivity]. unfold ensure_ordered. now rewrite H. Qed.

Theorem roundtrip_v3 : forall sh c, c_wf sh c -> c_deser_body sh (c_serialize c) = Ok c.
Proof.
  intros sh c [Hent [Hth0 Hth] [Hsh Hseed] Hord Hemp Hlen].
  destruct codec_consts as [EM [_ [E3 [_ [EF [Emin [Emax _]]]]]]].
  unfold c_serialize, c_deser_body.
  set (pre := c_preamble_longs c).
  set (flags := zN GenTheta.FLAGS_IS_READ_ONLY + zN GenTheta.FLAGS_IS_COMPACT
                + (if ce_empty c then zN GenTheta.FLAGS_IS_EMPTY else 0) + (if ce_ordered c then zN GenTheta.FLAGS_IS_ORDERED else 0)).
  destruct (flags_v3_decode (ce_empty c) (ce_ordered c)) as [Fe [Fo _]]. fold flags in Fe, Fo.
  assert (Hpre : 1 <= pre /\ pre <= 3).
  { unfold pre, c_preamble_longs. destruct (c_is_estimation_mode c); [lia|]. destruct (_ || _); lia. }
  cbn [app]. do 3 (rewrite rd_cons; cbn [obind]). rewrite E3, EF, Emin, Emax.
  rewrite N.eqb_refl. cbn [negb].
  destruct (N.leb_spec 1 pre); [|lia]. destruct (N.leb_spec pre 3); [|lia]. cbn [andb negb].
  change (3 =? 1) with false. change (3 =? 2) with false. change (3 =? 3) with true. cbv iota.
  unfold deserialize_v3.
  change (0 :: 0 :: flags :: ?l) with ([0; 0] ++ flags :: l).
  rewrite (rd_app 2 [0; 0]) by reflexivity. cbn [obind]. rewrite rd_cons. cbn [obind].
  rewrite rd_le by (change (256 ^ N.of_nat 2) with 65536; exact Hsh). cbn [obind].
  rewrite Fe, Fo.
  destruct (ce_empty c) eqn:Eem.
  - (* empty *)
    destruct (Hemp eq_refl) as [E0 Eth]. apply csk_done; cbn [ce_entries ce_theta ce_seed_hash ce_ordered ce_empty]; congruence.
  - pose proof (Hseed eq_refl) as Hseed'. rewrite Hseed', N.eqb_refl. cbn [negb].
    assert (HthM : ce_theta c <= M64) by (unfold M64; lia).
    unfold pre, c_preamble_longs, c_is_estimation_mode, c_num_retained. rewrite Eem. cbn [orb].
    destruct (N.ltb_spec (ce_theta c) MAX_THETA) as [Hest|Hex].
    + (* estimation mode: preamble 3 *)
      change (1 <? 3) with true. change (3 =? 1) with false. change (2 <? 3) with true. cbv iota.
      rewrite <- !app_assoc.
      rewrite rd_le by (change (256 ^ N.of_nat 4) with M32; exact Hlen). cbn [obind].
      change ([0; 0; 0; 0] ++ ?l) with ([0; 0; 0; 0] ++ l). rewrite (rd_app 4 [0; 0; 0; 0]) by reflexivity. cbn [obind].
      rewrite rd_le by (change (256 ^ N.of_nat 8) with M64; unfold M64; lia). cbn [obind].
      unfold ensure_theta. destruct (N.eqb_spec (ce_theta c) 0); [lia|]. destruct (N.ltb_spec MAX_THETA (ce_theta c)); [lia|].
      cbn [orb obind]. rewrite read_entries_flat by assumption. cbn [obind].
      rewrite ensure_ordered_ok by exact Hord. cbn [obind]. apply csk_done; cbn [ce_entries ce_theta ce_seed_hash ce_ordered ce_empty]; congruence.
    + assert (Eth : ce_theta c = MAX_THETA) by lia.
      destruct (N.eqb_spec (N.of_nat (length (ce_entries c))) 1) as [E1|N1].
      * (* single item: preamble 1 *)
        change (1 <? 1) with false. cbv iota. change (1 =? 1) with true. cbv iota. cbn [app obind].
        assert (El : length (ce_entries c) = 1%nat) by lia.
        replace 1 with (N.of_nat (length (ce_entries c))) at 1 by lia.
        rewrite <- Eth. rewrite read_entries_flat by assumption. cbn [obind].
        rewrite ensure_ordered_ok by exact Hord. cbn [obind]. apply csk_done; cbn [ce_entries ce_theta ce_seed_hash ce_ordered ce_empty]; congruence.
      * change (1 <? 2) with true. change (2 =? 1) with false. change (2 <? 2) with false. cbv iota.
        rewrite <- !app_assoc. cbn [app].
        rewrite rd_le by (change (256 ^ N.of_nat 4) with M32; exact Hlen). cbn [obind].
        change (0 :: 0 :: 0 :: 0 :: ?l) with ([0; 0; 0; 0] ++ l). rewrite (rd_app 4 [0; 0; 0; 0]) by reflexivity. cbn [obind].
        rewrite <- Eth. rewrite read_entries_flat by assumption. cbn [obind].
        rewrite ensure_ordered_ok by exact Hord. cbn [obind]. apply csk_done; cbn [ce_entries ce_theta ce_seed_hash ce_ordered ce_empty]; congruence.
Qed.

(* ====================== compressed round trip ====================== *)

(* consecutive entries do not decrease, starting from [prev] *)
Fixpoint chain (prev : N) (es : list N) : Prop :=
  match es with [] => True | e :: r => prev <= e /\ chain e r end.

Lemma ascending_chain : forall es prev, ascending_b es = true ->
  (match es with [] => True | e :: _ => prev <= e end) -> chain prev es.
Proof.
  induction es as [|e es IH]; intros prev Hasc H0; [exact I|].
  cbn [chain]. split; [exact H0|]. destruct es as [|e2 r]; [exact I|].
  cbn [ascending_b] in Hasc. apply andb_prop in Hasc as [H1 H2]. apply IH; [exact H2|lia].
Qed.

Lemma deltas_of_spec : forall es prev, chain prev es -> deltas_of prev es = Ok (deltas prev es).
Proof.
  induction es as [|e es IH]; intros prev H; cbn [deltas_of deltas]; [reflexivity|].
  destruct H as [H1 H2]. destruct (N.ltb_spec e prev); [lia|]. rewrite IH by exact H2. reflexivity.
Qed.

Lemma ored_deltas_spec : forall es prev ored, chain prev es ->
  ored_deltas prev ored es = Ok (fold_left N.lor (deltas prev es) ored).
Proof.
  induction es as [|e es IH]; intros prev ored H; cbn [ored_deltas deltas fold_left]; [reflexivity|].
  destruct H as [H1 H2]. destruct (N.ltb_spec e prev); [lia|]. apply IH. exact H2.
Qed.

Lemma deltas_length : forall es prev, length (deltas prev es) = length es.
Proof. induction es as [|e es IH]; intros; cbn [deltas length]; [reflexivity|]. now rewrite IH. Qed.

Lemma undo_deltas_spec : forall es prev theta, chain prev es -> theta <= M64 ->
  Forall (fun h => 0 < h /\ h < theta) es -> undo_deltas prev theta (deltas prev es) = Ok es.
Proof.
  induction es as [|e es IH]; intros prev theta H Hth Hall; cbn [undo_deltas deltas]; [reflexivity|].
  destruct H as [H1 H2]. inversion Hall as [|? ? [He0 He] Hall']; subst.
  replace (e - prev + prev) with e by lia.
  destruct (N.leb_spec M64 e); [lia|]. destruct (N.eqb_spec e 0); [lia|]. destruct (N.leb_spec theta e); [lia|].
  cbn [orb]. rewrite IH by assumption. reflexivity.
Qed.

Lemma deltas_bound : forall es prev b, chain prev es -> Forall (fun h => h < b) es -> Forall (fun d => d < b) (deltas prev es).
Proof.
  induction es as [|e es IH]; intros prev b H Hall; cbn [deltas]; [constructor|].
  destruct H as [H1 H2]. inversion Hall; subst. constructor; [lia|]. now apply IH.
Qed.

(* ---------- the OR of the deltas bounds every delta ---------- *)
Lemma fold_lor_bit : forall ds acc i,
  N.testbit (fold_left N.lor ds acc) i = N.testbit acc i || existsb (fun d => N.testbit d i) ds.
Proof.
  induction ds as [|d ds IH]; intros acc i; cbn [fold_left existsb]; [now rewrite orb_false_r|].
  rewrite IH, N.lor_spec. now rewrite orb_assoc.
Qed.

Lemma lt_pow2_bits : forall x k, (forall i, k <= i -> N.testbit x i = false) -> x < 2 ^ k.
Proof.
  intros x k H. destruct (N.lt_ge_cases x (2 ^ k)) as [|Hge]; [assumption|exfalso].
  assert (Hnz : x <> 0) by (assert (2 ^ k <> 0) by (apply N.pow_nonzero; lia); lia).
  pose proof (N.bit_log2 x Hnz) as Hb. rewrite H in Hb; [discriminate|].
  apply N.log2_le_pow2; lia.
Qed.

Lemma delta_lt_size : forall ds d, In d ds -> d < 2 ^ N.size (fold_left N.lor ds 0).
Proof.
  intros ds d Hin. set (o := fold_left N.lor ds 0). apply lt_pow2_bits. intros i Hi.
  destruct (N.testbit d i) eqn:E; [exfalso|reflexivity].
  assert (Ho : N.testbit o i = true).
  { unfold o. rewrite fold_lor_bit. apply orb_true_iff. right. apply existsb_exists. exists d. auto. }
  rewrite (testbit_high o (N.size o) i) in Ho; [discriminate| |exact Hi].
  apply N.size_gt.
Qed.

Lemma fold_lor_lt : forall ds k, Forall (fun d => d < 2 ^ k) ds -> fold_left N.lor ds 0 < 2 ^ k.
Proof.
  intros ds k H. apply lt_pow2_bits. intros i Hi. rewrite fold_lor_bit, N.bits_0. cbn [orb].
  destruct (existsb (fun d => N.testbit d i) ds) eqn:E; [exfalso|reflexivity].
  apply existsb_exists in E. destruct E as [d [Hd Hb]]. rewrite Forall_forall in H.
  rewrite (testbit_high d k i (H d Hd) Hi) in Hb. discriminate.
Qed.

Lemma size_le : forall x k, x < 2 ^ k -> N.size x <= k.
Proof.
  intros x k H. destruct (N.eq_dec x 0) as [->|Hnz]; [cbn; lia|].
  rewrite N.size_log2 by exact Hnz. apply N.log2_lt_pow2 in H; lia.
Qed.

Lemma size_pos : forall x, x <> 0 -> 1 <= N.size x.
Proof. intros x H. rewrite N.size_log2 by exact H. lia. Qed.

Lemma fold_lor_nz : forall ds d, In d ds -> d <> 0 -> fold_left N.lor ds 0 <> 0.
Proof.
  intros ds d Hin Hd E. pose proof (N.bit_log2 d Hd) as Hb.
  assert (N.testbit (fold_left N.lor ds 0) (N.log2 d) = true).
  { rewrite fold_lor_bit. apply orb_true_iff. right. apply existsb_exists. exists d. auto. }
  rewrite E, N.bits_0 in H. discriminate.
Qed.

(* ---------- blocks and tail: unpack (pack ds) = ds ---------- *)
Lemma mod_small_all : forall w ds, Forall (fun d => d < 2 ^ N.of_nat w) ds -> map (fun v => v mod 2 ^ N.of_nat w) ds = ds.
Proof.
  intros w ds H. induction H as [|d ds Hd _ IH]; cbn [map]; [reflexivity|]. rewrite IH, N.mod_small by exact Hd. reflexivity.
Qed.

Lemma Forall_lt_weaken : forall w ds, (w <= 63)%nat -> Forall (fun d => d < 2 ^ N.of_nat w) ds -> Forall (fun x => x < 2 ^ 64) ds.
Proof.
  intros w ds Hw H. eapply Forall_impl; [|exact H]. intros d Hd. cbv beta in *.
  assert (2 ^ N.of_nat w <= 2 ^ 64) by (apply N.pow_le_mono_r; lia). lia.
Qed.

Lemma In_firstn_local : forall (A : Type) n (l : list A) x, In x (firstn n l) -> In x l.
Proof.
  intros A n. induction n as [|n IH]; intros l x H; [destruct H|]. destruct l as [|a l]; [destruct H|].
  cbn [firstn] in H. destruct H as [->|H]; [now left|right; now apply IH].
Qed.

Lemma In_skipn_local : forall (A : Type) n (l : list A) x, In x (skipn n l) -> In x l.
Proof.
  intros A n. induction n as [|n IH]; intros l x H; [exact H|]. destruct l as [|a l]; [destruct H|].
  cbn [skipn] in H. right. now apply IH.
Qed.

Lemma Forall_skipn : forall (A : Type) (P : A -> Prop) n l, Forall P l -> Forall P (skipn n l).
Proof. intros A P n l H. apply Forall_forall. intros x Hx. rewrite Forall_forall in H. apply H. apply (In_skipn_local _ n l x Hx). Qed.

Lemma Forall_firstn : forall (A : Type) (P : A -> Prop) n l, Forall P l -> Forall P (firstn n l).
Proof. intros A P n l H. apply Forall_forall. intros x Hx. rewrite Forall_forall in H. apply H. apply (In_firstn_local _ n l x Hx). Qed.

(* the byte count of the packed deltas: whole blocks of w bytes, then the tail *)
Definition packed_len (n w : nat) : nat := ((n / 8) * w + ((n mod 8) * w + 7) / 8)%nat.

Lemma pack_unpack_deltas : forall f1 w ds f2 rest,
  (1 <= w <= 63)%nat -> Forall (fun d => d < 2 ^ N.of_nat w) ds ->
  (length ds / 8 < f1)%nat -> (length ds / 8 < f2)%nat ->
  exists packed,
    pack_deltas f1 (N.of_nat w) ds = Ok packed /\
    length packed = packed_len (length ds) w /\
    Forall (fun x => x < 2 ^ 8) packed /\
    unpack_deltas f2 (N.of_nat w) (N.of_nat (length ds)) (packed ++ rest) = Ok ds.
Proof.
  induction f1 as [|f1 IH]; intros w ds f2 rest Hw Hds Hf1 Hf2; [lia|].
  destruct f2 as [|f2]; [lia|].
  cbn [pack_deltas unpack_deltas]. rewrite block_width. change (N.to_nat 8) with 8%nat. rewrite !short_spec.
  assert (Hds64 : Forall (fun x => x < 2 ^ 64) ds) by (apply (Forall_lt_weaken w); [lia|exact Hds]).
  destruct (Nat.lt_ge_cases (length ds) 8) as [Hshort|Hlong].
  - (* fewer than 8 values: the tail *)
    destruct (Nat.ltb_spec (length ds) 8); [|lia]. cbn [negb].
    destruct (N.leb_spec 8 (N.of_nat (length ds))); [lia|].
    assert (Hdiv : (length ds / 8 = 0)%nat) by (apply Nat.div_small; exact Hshort).
    assert (Hmod : (length ds mod 8 = length ds)%nat) by (apply Nat.mod_small; exact Hshort).
    destruct ds as [|d0 dr] eqn:Eds.
    2:{ rewrite <- Eds in *. assert (Hpos : 0 < N.of_nat (length ds)) by (rewrite Eds; cbn [length]; lia).
      destruct (N.ltb_spec 0 (N.of_nat (length ds))); [|lia].
      rewrite pack_tail_correct by (assumption || lia).
      exists (pack_stream w ds). split; [reflexivity|]. split.
      { rewrite pack_stream_length. unfold packed_len. rewrite Hdiv, Hmod. lia. }
      split; [apply pack_stream_bytes|].
      assert (Hneed : N.to_nat ((N.of_nat (length ds) * N.of_nat w + 7) / 8) = length (pack_stream w ds)).
      { rewrite pack_stream_length. rewrite <- Nat2N.inj_mul.
        change 7 with (N.of_nat 7). rewrite <- Nat2N.inj_add. change 8 with (N.of_nat 8).
        rewrite <- Nat2N.inj_div, Nat2N.id. reflexivity. }
      rewrite Hneed. rewrite short_spec, app_length.
      destruct (Nat.ltb_spec (length (pack_stream w ds) + length rest) (length (pack_stream w ds))); [lia|].
      rewrite firstn_app_exact by reflexivity. rewrite Nat2N.id.
      rewrite unpack_tail_correct by (assumption || lia || apply pack_stream_bytes).
      rewrite pack_unpack_generic by lia. rewrite mod_small_all by exact Hds. reflexivity. }
    exists []. repeat split; try reflexivity. constructor.
  - (* a block of 8 values *)
    destruct (Nat.ltb_spec (length ds) 8); [lia|]. cbn [negb].
    destruct (N.leb_spec 8 (N.of_nat (length ds))); [|lia].
    set (a := firstn 8 ds). set (b := skipn 8 ds).
    assert (Ha : length a = 8%nat) by (unfold a; rewrite firstn_length; lia).
    assert (Hb : length b = (length ds - 8)%nat) by (unfold b; apply skipn_length).
    assert (Hda : Forall (fun d => d < 2 ^ N.of_nat w) a) by (apply Forall_firstn; exact Hds).
    assert (Hdb : Forall (fun d => d < 2 ^ N.of_nat w) b) by (apply Forall_skipn; exact Hds).
    assert (Hdiv : (length ds / 8 = S (length b / 8))%nat).
    { rewrite Hb. replace (length ds) with ((length ds - 8) + 1 * 8)%nat at 1 by lia. rewrite Nat.div_add by lia. lia. }
    assert (Hmod : (length ds mod 8 = length b mod 8)%nat).
    { rewrite Hb. replace (length ds) with ((length ds - 8) + 1 * 8)%nat at 1 by lia. rewrite Nat.mod_add by lia. reflexivity. }
    assert (Hda64 : Forall (fun x => x < 2 ^ 64) a) by (apply Forall_firstn; exact Hds64).
    rewrite pack_block_correct by (assumption || lia).
    cbn [obind].
    destruct (IH w b f2 rest Hw Hdb) as [pb [Hpb [Lpb [Bpb Upb]]]]; [lia|lia|].
    rewrite Hpb. cbn [obind]. exists (pack_stream w a ++ pb). split; [reflexivity|].
    assert (La : length (pack_stream w a) = w).
    { rewrite pack_stream_length, Ha. replace (8 * w + 7)%nat with (7 + w * 8)%nat by lia.
      rewrite Nat.div_add by lia. cbn. lia. }
    split; [rewrite app_length, La, Lpb; unfold packed_len; rewrite Hdiv, Hmod; lia|].
    split; [apply Forall_app; split; [apply pack_stream_bytes|exact Bpb]|].
    rewrite Nat2N.id. rewrite <- app_assoc, short_spec, app_length, La.
    destruct (Nat.ltb_spec (w + length (pb ++ rest)) w); [lia|].
    rewrite firstn_app_exact, skipn_app_exact by exact La.
    rewrite unpack_block_correct by (assumption || lia || apply pack_stream_bytes).
    cbn [obind].
    assert (Hrt : map (field w (pack_stream w a)) (seq 0 8) = a).
    { rewrite <- Ha. rewrite pack_unpack_generic by lia. apply mod_small_all. exact Hda. }
    rewrite Hrt.
    replace (N.of_nat (length ds) - 8) with (N.of_nat (length b)) by lia.
    rewrite Upb. cbn [obind]. unfold a, b. rewrite firstn_skipn. reflexivity.
Qed.

Lemma packed_len_N : forall n w,
  N.of_nat (packed_len n w) = (N.of_nat n / 8) * N.of_nat w + ((N.of_nat n mod 8) * N.of_nat w + 7) / 8.
Proof.
  intros. unfold packed_len. rewrite Nat2N.inj_add, Nat2N.inj_mul. change 8 with (N.of_nat 8). change 7 with (N.of_nat 7).
  rewrite <- Nat2N.inj_div, <- Nat2N.inj_mod.
  rewrite (Nat2N.inj_div ((n mod 8) * w + 7) 8), Nat2N.inj_add, Nat2N.inj_mul. reflexivity.
Qed.

Lemma count_fits : forall n, n < 256 ^ N.of_nat (N.to_nat ((N.size n + 7) / 8)).
Proof.
  intros n. rewrite N2Nat.id. change 256 with (2 ^ 8). rewrite <- N.pow_mul_r.
  pose proof (N.size_gt n) as H. eapply N.lt_le_trans; [exact H|]. apply N.pow_le_mono_r; lia.
Qed.

(* what a value must satisfy to be usable: this is what the reader guarantees for whatever it accepts *)
Record c_safe (c : csk) : Prop := {
  sf_entries : Forall (fun h => 0 < h /\ h < ce_theta c) (ce_entries c);
  sf_theta : 0 < ce_theta c /\ ce_theta c <= MAX_THETA;
  sf_ordered : ce_ordered c = true -> ascending_b (ce_entries c) = true
}.

Lemma wf_safe : forall sh c, c_wf sh c -> c_safe c.
Proof. intros sh c [H1 H2 _ H4 _ _]. constructor; assumption. Qed.

(* what serialize_v4 needs from a compact sketch *)
Lemma v4_facts : forall c, c_safe c -> c_is_suitable_for_compression c = true ->
  let es := ce_entries c in let ds := deltas 0 es in let w := N.size (fold_left N.lor ds 0) in
  chain 0 es /\ es <> [] /\ ce_ordered c = true /\
  compute_entry_bits es = Ok w /\ deltas_of 0 es = Ok ds /\
  1 <= w /\ w <= 63 /\ Forall (fun d => d < 2 ^ w) ds /\ length ds = length es.
Proof.
  intros c [Hent [Hth0 Hth] Hord] Hsuit. cbv zeta.
  unfold c_is_suitable_for_compression, c_num_retained in Hsuit.
  apply andb_prop in Hsuit as [Hsuit _]. apply andb_prop in Hsuit as [Ho Hn].
  assert (Hne : ce_entries c <> []) by (intro E; rewrite E in Hn; discriminate).
  assert (Hch : chain 0 (ce_entries c)).
  { apply ascending_chain; [apply Hord; exact Ho|]. destruct (ce_entries c); [exact I|lia]. }
  split; [exact Hch|]. split; [exact Hne|]. split; [exact Ho|].
  unfold compute_entry_bits. rewrite ored_deltas_spec by exact Hch. cbn [obind].
  split; [reflexivity|]. split; [apply deltas_of_spec; exact Hch|].
  assert (Hb63 : Forall (fun d => d < 2 ^ 63) (deltas 0 (ce_entries c))).
  { apply deltas_bound; [exact Hch|]. eapply Forall_impl; [|exact Hent]. intros h [_ Hh]. cbv beta.
    rewrite max_theta_val in Hth. change (2 ^ 63) with 9223372036854775808. lia. }
  split.
  - apply size_pos. destruct (ce_entries c) as [|e r] eqn:E; [contradiction|].
    cbn [deltas]. apply (fold_lor_nz _ (e - 0)); [now left|].
    inversion Hent as [|? ? [He _] _]; subst. lia.
  - split; [apply size_le; apply fold_lor_lt; exact Hb63|].
    split; [|apply deltas_length].
    apply Forall_forall. intros d Hd. now apply delta_lt_size.
Qed.

Theorem roundtrip_v4 : forall sh c, c_wf sh c -> c_is_suitable_for_compression c = true ->
  exists bs, c_serialize_v4 c = Ok bs /\ c_deser_body sh bs = Ok c.
Proof.
  intros sh c Hwf Hsuit.
  destruct (v4_facts c (wf_safe sh c Hwf) Hsuit) as [Hch [Hne [Ho [Hceb [Hdel [Hw1 [Hw63 [Hds Hdl]]]]]]]].
  destruct Hwf as [Hent [Hth0 Hth] [Hsh Hseed] Hord Hemp Hlen].
  assert (Hnemp : ce_empty c = false).
  { destruct (ce_empty c) eqn:E; [|reflexivity]. destruct (Hemp eq_refl) as [E0 _]. contradiction. }
  destruct codec_consts as [EM [_ [_ [E4 [EF [Emin [Emax _]]]]]]].
  set (es := ce_entries c) in *. set (ds := deltas 0 es) in *. set (w := N.size (fold_left N.lor ds 0)) in *.
  set (n := N.of_nat (length es)).
  assert (Hn1 : 1 <= n) by (unfold n; destruct es; [contradiction|cbn [length]; lia]).
  unfold c_serialize_v4. fold es. rewrite Hceb, Hdel. cbn [obind].
  assert (Hww : w = N.of_nat (N.to_nat w)) by (now rewrite N2Nat.id).
  assert (Hds' : Forall (fun d => d < 2 ^ N.of_nat (N.to_nat w)) ds) by (rewrite <- Hww; exact Hds).
  destruct (pack_unpack_deltas (S (length ds)) (N.to_nat w) ds (S (N.to_nat (n / 8))) []) as [packed [Hp [Lp [Bp Up]]]];
    [lia|exact Hds'| | |].
  { pose proof (Nat.div_le_upper_bound (length ds) 8 (length ds)). assert (length ds / 8 <= length ds)%nat by (apply Nat.div_le_upper_bound; lia). lia. }
  { unfold n. rewrite Hdl. change 8 with (N.of_nat 8). rewrite <- Nat2N.inj_div, Nat2N.id. lia. }
  rewrite <- Hww in Hp, Up. rewrite Hp. cbn [obind]. eexists. split; [reflexivity|].
  unfold c_num_retained. fold es. fold n.
  assert (Hnm : n mod M32 = n) by (apply N.mod_small; exact Hlen). rewrite Hnm.
  set (neb := num_entries_bytes n).
  assert (Hneb : neb = (N.size n + 7) / 8) by (unfold neb, num_entries_bytes; now rewrite Hnm).
  assert (Hneb4 : neb <= 4).
  { rewrite Hneb. assert (N.size n <= 32) by (apply size_le; exact Hlen). lia. }
  unfold c_deser_body. cbn [app]. do 3 (rewrite rd_cons; cbn [obind]).
  rewrite E4, EF, Emin, Emax, N.eqb_refl. cbn [negb].
  set (pre := if c_is_estimation_mode c then 2 else 1).
  assert (Hpre : 1 <= pre /\ pre <= 3) by (unfold pre; destruct (c_is_estimation_mode c); lia).
  destruct (N.leb_spec 1 pre); [|lia]. destruct (N.leb_spec pre 3); [|lia]. cbn [andb negb].
  change (4 =? 1) with false. change (4 =? 2) with false. change (4 =? 3) with false. change (4 =? 4) with true. cbv iota.
  unfold deserialize_v4. do 3 (rewrite rd_cons; cbn [obind]).
  rewrite rd_le by (change (256 ^ N.of_nat 2) with 65536; exact Hsh). cbn [obind].
  destruct (N.leb_spec 1 w); [|lia]. destruct (N.leb_spec w 63); [|lia]. cbn [andb negb].
  destruct (N.ltb_spec 4 neb); [lia|].
  destruct flags_v4_decode as [Fe Fo]. rewrite Fe, Fo. cbn [negb andb].
  rewrite (Hseed Hnemp), N.eqb_refl. cbn [negb].
  assert (Hcount : rd_count neb (le_bytes (N.to_nat neb) n ++ packed) = Ok (n, packed)).
  { unfold rd_count. apply rd_le. rewrite Hneb. apply count_fits. }
  assert (Hrest : forall theta, theta = ce_theta c ->
    obind (ensure_theta theta) (fun _ =>
    obind (rd_count neb (le_bytes (N.to_nat neb) n ++ packed)) (fun '(num_entries, bs) =>
      let packed_bytes := (num_entries / BLOCK_WIDTH) * w + ((num_entries mod BLOCK_WIDTH) * w + 7) / 8 in
      if false && (negb (num_entries =? 0) || negb (theta =? MAX_THETA)) then Err
      else if N.of_nat (length bs) <? packed_bytes then Err
      else
        obind (unpack_deltas (S (N.to_nat (num_entries / BLOCK_WIDTH))) w num_entries bs) (fun ds0 =>
        obind (undo_deltas 0 theta ds0) (fun entries =>
        obind (ensure_ordered entries) (fun _ =>
        Ok (mkC entries theta sh true false)))))) = Ok c).
  { intros theta ->. unfold ensure_theta.
    destruct (N.eqb_spec (ce_theta c) 0); [lia|]. destruct (N.ltb_spec MAX_THETA (ce_theta c)); [lia|]. cbn [orb obind].
    rewrite Hcount. cbn [obind andb]. cbv zeta. rewrite block_width.
    assert (Hpl : N.of_nat (length packed) = n / 8 * w + (n mod 8 * w + 7) / 8).
    { rewrite Lp, packed_len_N, Hdl. fold n. rewrite N2Nat.id. reflexivity. }
    rewrite Hpl, N.ltb_irrefl.
    unfold n at 2. rewrite <- Hdl. rewrite <- (app_nil_r packed). fold n. rewrite Up. cbn [obind].
    unfold ds. rewrite undo_deltas_spec; [|exact Hch|unfold M64; lia|exact Hent]. cbn [obind].
    unfold ensure_ordered. rewrite (Hord Ho). cbn [obind].
    apply csk_done; cbn [ce_entries ce_theta ce_seed_hash ce_ordered ce_empty];
      first [reflexivity | symmetry; assumption | symmetry; apply Hseed; assumption | congruence]. }
  unfold pre, c_is_estimation_mode.
  destruct (N.ltb_spec (ce_theta c) MAX_THETA) as [Hest|Hex].
  - change (1 <? 2) with true. cbv iota.
    rewrite rd_le by (change (256 ^ N.of_nat 8) with M64; unfold M64; lia). cbn [obind].
    apply Hrest. reflexivity.
  - change (1 <? 1) with false. cbv iota. cbn [app obind]. apply Hrest. lia.
Qed.

(* serialize_compressed: whichever form it picks, the reader returns the sketch *)
Theorem roundtrip_compressed : forall sh c, c_wf sh c ->
  exists bs, c_serialize_compressed c = Ok bs /\ c_deser_body sh bs = Ok c.
Proof.
  intros sh c Hwf. unfold c_serialize_compressed.
  destruct (c_is_suitable_for_compression c) eqn:E.
  - now apply roundtrip_v4.
  - exists (c_serialize c). split; [reflexivity|now apply roundtrip_v3].
Qed.

(* ====================== the reader is total and returns only usable values (C14) ====================== *)
Lemma obind_ns : forall (A B : Type) (x : outcome A) (f : A -> outcome B),
  x <> Stuck -> (forall a, x = Ok a -> f a <> Stuck) -> obind x f <> Stuck.
Proof. intros A B [a| |] f Hx Hf; cbn [obind]; [now apply Hf|discriminate|contradiction]. Qed.

Lemma obind_ok : forall (A B : Type) (x : outcome A) (f : A -> outcome B) b,
  obind x f = Ok b -> exists a, x = Ok a /\ f a = Ok b.
Proof. intros A B [a| |] f b H; cbn [obind] in H; try discriminate. exists a. auto. Qed.

Definition bytes_lt (bs : list N) : Prop := Forall (fun x => x < 2 ^ 8) bs.

Lemma rd_bytes : forall n bs v r, bytes_lt bs -> rd n bs = Ok (v, r) -> bytes_lt r /\ v < 256 ^ N.of_nat n.
Proof.
  intros n bs v r Hb H. unfold rd in H. rewrite short_spec in H. destruct (Nat.ltb_spec (length bs) n); [discriminate|].
  inversion H; subst. split; [apply Forall_skipn; exact Hb|].
  assert (Hl : length (firstn n bs) = n) by (rewrite firstn_length; lia).
  rewrite <- Hl at 2. apply le_val_bound. unfold bytes_ok. apply forallb_forall. intros x Hx.
  apply In_firstn_local in Hx. unfold bytes_lt in Hb. rewrite Forall_forall in Hb. specialize (Hb x Hx).
  unfold byte_ok. change (2 ^ 8) with 256 in Hb. lia.
Qed.

Lemma ensure_theta_ns : forall th, ensure_theta th <> Stuck.
Proof. intros. unfold ensure_theta. destruct (_ || _); discriminate. Qed.

Lemma ensure_theta_ok : forall th u0, ensure_theta th = Ok u0 -> 0 < th /\ th <= MAX_THETA.
Proof.
  intros th u0 H. unfold ensure_theta in H.
  destruct (N.eqb_spec th 0); [discriminate|]. destruct (N.ltb_spec MAX_THETA th); [discriminate|]. lia.
Qed.

Lemma ensure_ordered_ns : forall es, ensure_ordered es <> Stuck.
Proof. intros. unfold ensure_ordered. destruct (ascending_b es); discriminate. Qed.

Lemma ensure_ordered_inv : forall es u0, ensure_ordered es = Ok u0 -> ascending_b es = true.
Proof. intros es u0 H. unfold ensure_ordered in H. destruct (ascending_b es); [reflexivity|discriminate]. Qed.

Lemma read_hashes_ns : forall n theta bs, read_hashes n theta bs <> Stuck.
Proof.
  induction n as [|n IH]; intros theta bs; cbn [read_hashes]; [discriminate|].
  apply obind_ns; [apply rd_not_stuck|]. intros [h bs'] _. destruct (_ || _); [discriminate|].
  apply obind_ns; [apply IH|]. intros; discriminate.
Qed.

Lemma read_hashes_ok : forall n theta bs es, read_hashes n theta bs = Ok es ->
  Forall (fun h => 0 < h /\ h < theta) es /\ length es = n /\ (8 * n <= length bs)%nat.
Proof.
  induction n as [|n IH]; intros theta bs es H; cbn [read_hashes] in H.
  - inversion H. subst. repeat split; [constructor|lia].
  - apply obind_ok in H as [[h bs'] [Hrd H]]. apply rd_ok_length in Hrd as [Hl _].
    destruct (N.eqb_spec h 0); [discriminate|]. destruct (N.leb_spec theta h); [discriminate|]. cbn [orb] in H.
    apply obind_ok in H as [r [Hr H]]. inversion H. subst. destruct (IH _ _ _ Hr) as [H1 [H2 H3]].
    repeat split; [constructor; [lia|exact H1]|cbn [length]; lia|lia].
Qed.

Lemma read_entries_ns : forall n theta bs, read_entries n theta bs <> Stuck.
Proof. intros. unfold read_entries. destruct (_ <? _); [discriminate|apply read_hashes_ns]. Qed.

Lemma read_entries_ok : forall n theta bs es, read_entries n theta bs = Ok es ->
  Forall (fun h => 0 < h /\ h < theta) es /\ N.of_nat (length es) = n /\ (8 * length es <= length bs)%nat.
Proof.
  intros n theta bs es H. unfold read_entries in H. destruct (N.ltb_spec (N.of_nat (length bs) / 8) n); [discriminate|].
  destruct (read_hashes_ok _ _ _ _ H) as [H1 [H2 H3]]. repeat split; [exact H1|lia|lia].
Qed.

Lemma undo_deltas_ns : forall ds prev theta, undo_deltas prev theta ds <> Stuck.
Proof.
  induction ds as [|d ds IH]; intros; cbn [undo_deltas]; [discriminate|].
  destruct (M64 <=? d + prev); [discriminate|]. destruct (_ || _); [discriminate|].
  apply obind_ns; [apply IH|]. intros; discriminate.
Qed.

Lemma undo_deltas_ok : forall ds prev theta es, undo_deltas prev theta ds = Ok es ->
  Forall (fun h => 0 < h /\ h < theta) es /\ length es = length ds.
Proof.
  induction ds as [|d ds IH]; intros prev theta es H; cbn [undo_deltas] in H.
  - inversion H. split; [constructor|reflexivity].
  - destruct (M64 <=? d + prev); [discriminate|].
    destruct (N.eqb_spec (d + prev) 0); [discriminate|]. destruct (N.leb_spec theta (d + prev)); [discriminate|].
    cbn [orb] in H. apply obind_ok in H as [r [Hr H]]. inversion H. subst.
    destruct (IH _ _ _ Hr) as [H1 H2]. split; [constructor; [lia|exact H1]|cbn [length]; lia].
Qed.

Lemma unpack_deltas_ns : forall fuel w remaining bs, (1 <= w <= 63)%nat -> bytes_lt bs ->
  (N.to_nat remaining / 8 < fuel)%nat ->
  unpack_deltas fuel (N.of_nat w) remaining bs <> Stuck.
Proof.
  induction fuel as [|fuel IH]; intros w remaining bs Hw Hb Hf; cbn [unpack_deltas]; [lia|].
  rewrite block_width, Nat2N.id, !short_spec.
  destruct (N.leb_spec 8 remaining) as [Hblk|Hshort].
  - destruct (Nat.ltb_spec (length bs) w) as [|Hlen]; [discriminate|].
    rewrite unpack_block_correct; [|exact Hw|rewrite firstn_length; lia|apply Forall_firstn; exact Hb].
    cbn [obind]. apply obind_ns; [apply IH; [exact Hw|apply Forall_skipn; exact Hb|]|intros; discriminate].
    replace (N.to_nat remaining) with (N.to_nat (remaining - 8) + 1 * 8)%nat in Hf by lia. rewrite Nat.div_add in Hf by lia. lia.
  - destruct (N.ltb_spec 0 remaining) as [Hpos|]; [|discriminate].
    destruct (_ <? _)%nat; [discriminate|].
    rewrite unpack_tail_correct; [discriminate|exact Hw|lia|apply Forall_firstn; exact Hb].
Qed.

Lemma unpack_deltas_len : forall fuel w remaining bs ds, (1 <= w <= 63)%nat -> bytes_lt bs ->
  (N.to_nat remaining / 8 < fuel)%nat ->
  unpack_deltas fuel (N.of_nat w) remaining bs = Ok ds -> length ds = N.to_nat remaining.
Proof.
  induction fuel as [|fuel IH]; intros w remaining bs ds Hw Hb Hf H; [lia|]. cbn [unpack_deltas] in H.
  rewrite block_width, Nat2N.id, !short_spec in H.
  destruct (N.leb_spec 8 remaining) as [Hblk|Hshort].
  - destruct (Nat.ltb_spec (length bs) w) as [|Hlen]; [discriminate|].
    rewrite unpack_block_correct in H; [|exact Hw|rewrite firstn_length; lia|apply Forall_firstn; exact Hb].
    cbn [obind] in H. apply obind_ok in H as [r [Hr H]]. inversion H. subst.
    assert (Hdiv : (N.to_nat remaining / 8 = S (N.to_nat (remaining - 8) / 8))%nat).
    { replace (N.to_nat remaining) with (N.to_nat (remaining - 8) + 1 * 8)%nat by lia. rewrite Nat.div_add by lia. lia. }
    pose proof (IH w (remaining - 8) _ r Hw (Forall_skipn _ _ _ _ Hb) ltac:(lia) Hr) as Hlr.
    cbn [length]. lia.
  - destruct (N.ltb_spec 0 remaining) as [Hpos|Hz].
    + destruct (_ <? _)%nat; [discriminate|].
      rewrite unpack_tail_correct in H; [|exact Hw|lia|apply Forall_firstn; exact Hb].
      inversion H. now rewrite map_length, seq_length.
    + inversion H. cbn [length]. lia.
Qed.

Theorem deserialize_never_stuck : forall sh bs, bytes_lt bs -> c_deser_body sh bs <> Stuck.
Proof.
  intros sh bs Hb. unfold c_deser_body.
  apply obind_ns; [apply rd_not_stuck|]. intros [pre bs1] H1. destruct (rd_bytes _ _ _ _ Hb H1) as [Hb1 _].
  apply obind_ns; [apply rd_not_stuck|]. intros [ver bs2] H2. destruct (rd_bytes _ _ _ _ Hb1 H2) as [Hb2 _].
  apply obind_ns; [apply rd_not_stuck|]. intros [fam bs3] H3. destruct (rd_bytes _ _ _ _ Hb2 H3) as [Hb3 _].
  destruct (negb (fam =? _)); [discriminate|]. destruct (negb (_ && _)); [discriminate|].
  destruct (ver =? 1).
  { (* v1 *) unfold deserialize_v1.
    apply obind_ns; [apply rd_not_stuck|]. intros [? ?] _. apply obind_ns; [apply rd_not_stuck|]. intros [? ?] _.
    apply obind_ns; [apply rd_not_stuck|]. intros [? ?] _. apply obind_ns; [apply rd_not_stuck|]. intros [? ?] _.
    apply obind_ns; [apply rd_not_stuck|]. intros [? ?] _. apply obind_ns; [apply ensure_theta_ns|]. intros _ _.
    destruct (_ && _); [discriminate|]. apply obind_ns; [apply read_entries_ns|]. intros ? _.
    apply obind_ns; [apply ensure_ordered_ns|]. intros; discriminate. }
  destruct (ver =? 2).
  { (* v2 *) unfold deserialize_v2.
    apply obind_ns; [apply rd_not_stuck|]. intros [? ?] _. apply obind_ns; [apply rd_not_stuck|]. intros [? ?] _.
    apply obind_ns; [apply rd_not_stuck|]. intros [? ?] _.
    destruct (negb _); [discriminate|]. destruct (pre =? _); [discriminate|].
    destruct (pre =? _).
    { apply obind_ns; [apply rd_not_stuck|]. intros [? ?] _. apply obind_ns; [apply rd_not_stuck|]. intros [? ?] _.
      apply obind_ns; [apply read_entries_ns|]. intros ? _. apply obind_ns; [apply ensure_ordered_ns|]. intros; discriminate. }
    destruct (pre =? _); [|discriminate].
    apply obind_ns; [apply rd_not_stuck|]. intros [? ?] _. apply obind_ns; [apply rd_not_stuck|]. intros [? ?] _.
    apply obind_ns; [apply rd_not_stuck|]. intros [? ?] _. apply obind_ns; [apply ensure_theta_ns|]. intros _ _.
    apply obind_ns; [apply read_entries_ns|]. intros ? _. apply obind_ns; [apply ensure_ordered_ns|]. intros; discriminate. }
  destruct (ver =? 3).
  { (* v3 *) unfold deserialize_v3.
    apply obind_ns; [apply rd_not_stuck|]. intros [? ?] _. apply obind_ns; [apply rd_not_stuck|]. intros [flags ?] _.
    apply obind_ns; [apply rd_not_stuck|]. intros [? ?] _.
    destruct (flag_set flags (zN GenTheta.FLAGS_IS_EMPTY)); [discriminate|]. destruct (negb _); [discriminate|].
    apply obind_ns.
    { destruct (pre =? 1); [discriminate|].
      apply obind_ns; [apply rd_not_stuck|]. intros [? ?] _. apply obind_ns; [apply rd_not_stuck|]. intros [? ?] _.
      destruct (2 <? pre); [|discriminate].
      apply obind_ns; [apply rd_not_stuck|]. intros [? ?] _. apply obind_ns; [apply ensure_theta_ns|]. intros; discriminate. }
    intros [[? ?] ?] _. apply obind_ns; [apply read_entries_ns|]. intros ? _.
    apply obind_ns; [destruct (flag_set flags _); [apply ensure_ordered_ns|discriminate]|]. intros; discriminate. }
  destruct (ver =? 4); [|discriminate].
  (* v4 *) unfold deserialize_v4.
  apply obind_ns; [apply rd_not_stuck|]. intros [eb bs4] H4. destruct (rd_bytes _ _ _ _ Hb3 H4) as [Hb4 _].
  apply obind_ns; [apply rd_not_stuck|]. intros [neb bs5] H5. destruct (rd_bytes _ _ _ _ Hb4 H5) as [Hb5 _].
  apply obind_ns; [apply rd_not_stuck|]. intros [flags bs6] H6. destruct (rd_bytes _ _ _ _ Hb5 H6) as [Hb6 _].
  apply obind_ns; [apply rd_not_stuck|]. intros [seed bs7] H7. destruct (rd_bytes _ _ _ _ Hb6 H7) as [Hb7 _].
  destruct (N.leb_spec 1 eb) as [He1|]; [|discriminate]. destruct (N.leb_spec eb 63) as [He63|]; [|discriminate]. cbn [andb negb].
  destruct (4 <? neb); [discriminate|]. destruct (_ && _); [discriminate|].
  apply obind_ns; [destruct (1 <? pre); [apply rd_not_stuck|discriminate]|].
  intros [theta bs8] H8.
  assert (Hb8 : bytes_lt bs8).
  { destruct (1 <? pre); [destruct (rd_bytes _ _ _ _ Hb7 H8); assumption|inversion H8; subst; exact Hb7]. }
  apply obind_ns; [apply ensure_theta_ns|]. intros _ _.
  apply obind_ns; [apply rd_not_stuck|]. intros [cnt bs9] H9. destruct (rd_bytes _ _ _ _ Hb8 H9) as [Hb9 _].
  destruct (_ && (_ || _)); [discriminate|].
  destruct (N.of_nat (length bs9) <? _); [discriminate|].
  assert (Hw : (1 <= N.to_nat eb <= 63)%nat) by lia.
  apply obind_ns; [rewrite <- (N2Nat.id eb); apply unpack_deltas_ns; try assumption; rewrite block_width; lia|]. intros ds _.
  apply obind_ns; [apply undo_deltas_ns|]. intros es _.
  apply obind_ns; [destruct (flag_set flags _); [apply ensure_ordered_ns|discriminate]|]. intros; discriminate.
Qed.

Lemma safe_intro : forall es th sd od em,
  Forall (fun h => 0 < h /\ h < th) es -> 0 < th /\ th <= MAX_THETA -> (od = true -> ascending_b es = true) ->
  c_safe (mkC es th sd od em).
Proof. intros. constructor; assumption. Qed.

Lemma max_theta_pos : 0 < MAX_THETA /\ MAX_THETA <= MAX_THETA.
Proof. rewrite max_theta_val. lia. Qed.

Lemma ordered_if_inv : forall (b : bool) es u0,
  (if b then ensure_ordered es else Ok tt) = Ok u0 -> b = true -> ascending_b es = true.
Proof. intros b es u0 H ->. eapply ensure_ordered_inv; eauto. Qed.

(* whatever the reader accepts is usable, and its size is justified by the input length *)
Theorem deserialize_ok_safe : forall sh bs c, bytes_lt bs -> c_deser_body sh bs = Ok c ->
  c_safe c /\ (length (ce_entries c) <= 8 * length bs)%nat.
Proof.
  intros sh bs c Hb H. unfold c_deser_body in H.
  apply obind_ok in H as [[pre bs1] [H1 H]]. destruct (rd_bytes _ _ _ _ Hb H1) as [Hb1 _]. apply rd_ok_length in H1 as [L1 _].
  apply obind_ok in H as [[ver bs2] [H2 H]]. destruct (rd_bytes _ _ _ _ Hb1 H2) as [Hb2 _]. apply rd_ok_length in H2 as [L2 _].
  apply obind_ok in H as [[fam bs3] [H3 H]]. destruct (rd_bytes _ _ _ _ Hb2 H3) as [Hb3 _]. apply rd_ok_length in H3 as [L3 _].
  destruct (negb (fam =? _)); [discriminate|]. destruct (negb (_ && _)); [discriminate|].
  destruct (ver =? 1).
  { unfold deserialize_v1 in H.
    apply obind_ok in H as [[? b4] [R4 H]]. apply rd_ok_length in R4 as [L4 _].
    apply obind_ok in H as [[? b5] [R5 H]]. apply rd_ok_length in R5 as [L5 _].
    apply obind_ok in H as [[nn b6] [R6 H]]. apply rd_ok_length in R6 as [L6 _].
    apply obind_ok in H as [[? b7] [R7 H]]. apply rd_ok_length in R7 as [L7 _].
    apply obind_ok in H as [[theta b8] [R8 H]]. apply rd_ok_length in R8 as [L8 _].
    apply obind_ok in H as [u1 [Hth H]]. apply ensure_theta_ok in Hth.
    destruct (_ && _).
    - inversion H. split; [apply safe_intro; [constructor|exact Hth|reflexivity]|cbn [ce_entries length]; lia].
    - apply obind_ok in H as [es [Hes H]]. apply read_entries_ok in Hes as [E1 [E2 E3]].
      apply obind_ok in H as [u2 [Ho H]]. apply ensure_ordered_inv in Ho. inversion H.
      split; [apply safe_intro; auto|cbn [ce_entries]; lia]. }
  destruct (ver =? 2).
  { unfold deserialize_v2 in H.
    apply obind_ok in H as [[? b4] [R4 H]]. apply rd_ok_length in R4 as [L4 _].
    apply obind_ok in H as [[? b5] [R5 H]]. apply rd_ok_length in R5 as [L5 _].
    apply obind_ok in H as [[seed b6] [R6 H]]. apply rd_ok_length in R6 as [L6 _].
    destruct (negb _); [discriminate|]. destruct (pre =? _).
    { inversion H. split; [apply safe_intro; [constructor|apply max_theta_pos|reflexivity]|cbn [ce_entries length]; lia]. }
    destruct (pre =? _).
    { apply obind_ok in H as [[nn b7] [R7 H]]. apply rd_ok_length in R7 as [L7 _].
      apply obind_ok in H as [[? b8] [R8 H]]. apply rd_ok_length in R8 as [L8 _].
      apply obind_ok in H as [es [Hes H]]. apply read_entries_ok in Hes as [E1 [E2 E3]].
      apply obind_ok in H as [u2 [Ho H]]. apply ensure_ordered_inv in Ho. inversion H.
      split; [apply safe_intro; [exact E1|apply max_theta_pos|auto]|cbn [ce_entries]; lia]. }
    destruct (pre =? _); [|discriminate].
    apply obind_ok in H as [[nn b7] [R7 H]]. apply rd_ok_length in R7 as [L7 _].
    apply obind_ok in H as [[? b8] [R8 H]]. apply rd_ok_length in R8 as [L8 _].
    apply obind_ok in H as [[theta b9] [R9 H]]. apply rd_ok_length in R9 as [L9 _].
    apply obind_ok in H as [u1 [Hth H]]. apply ensure_theta_ok in Hth.
    apply obind_ok in H as [es [Hes H]]. apply read_entries_ok in Hes as [E1 [E2 E3]].
    apply obind_ok in H as [u2 [Ho H]]. apply ensure_ordered_inv in Ho. inversion H.
    split; [apply safe_intro; auto|cbn [ce_entries]; lia]. }
  destruct (ver =? 3).
  { unfold deserialize_v3 in H.
    apply obind_ok in H as [[? b4] [R4 H]]. apply rd_ok_length in R4 as [L4 _].
    apply obind_ok in H as [[flags b5] [R5 H]]. apply rd_ok_length in R5 as [L5 _].
    apply obind_ok in H as [[seed b6] [R6 H]]. apply rd_ok_length in R6 as [L6 _].
    destruct (flag_set flags (zN GenTheta.FLAGS_IS_EMPTY)).
    { inversion H. split; [apply safe_intro; [constructor|apply max_theta_pos|reflexivity]|cbn [ce_entries length]; lia]. }
    destruct (negb _); [discriminate|].
    apply obind_ok in H as [[[nn theta] b7] [Hhdr H]].
    assert (Hhd : (0 < theta /\ theta <= MAX_THETA) /\ (length b7 <= length b6)%nat).
    { destruct (pre =? 1).
      - inversion Hhdr; subst. split; [apply max_theta_pos|lia].
      - apply obind_ok in Hhdr as [[? c1] [Q1 Hhdr]]. apply rd_ok_length in Q1 as [M1 _].
        apply obind_ok in Hhdr as [[? c2] [Q2 Hhdr]]. apply rd_ok_length in Q2 as [M2 _].
        destruct (2 <? pre).
        + apply obind_ok in Hhdr as [[th c3] [Q3 Hhdr]]. apply rd_ok_length in Q3 as [M3 _].
          apply obind_ok in Hhdr as [u1 [Hth Hhdr]]. apply ensure_theta_ok in Hth. inversion Hhdr; subst. split; [exact Hth|lia].
        + inversion Hhdr; subst. split; [apply max_theta_pos|lia]. }
    destruct Hhd as [Hth Hl7].
    apply obind_ok in H as [es [Hes H]]. apply read_entries_ok in Hes as [E1 [E2 E3]].
    apply obind_ok in H as [u2 [Ho H]]. inversion H.
    split; [apply safe_intro; [exact E1|exact Hth|intros Hf; eapply ordered_if_inv; eauto]|cbn [ce_entries]; lia]. }
  destruct (ver =? 4); [|discriminate].
  unfold deserialize_v4 in H.
  apply obind_ok in H as [[eb b4] [R4 H]]. destruct (rd_bytes _ _ _ _ Hb3 R4) as [Hb4 _]. apply rd_ok_length in R4 as [L4 _].
  apply obind_ok in H as [[neb b5] [R5 H]]. destruct (rd_bytes _ _ _ _ Hb4 R5) as [Hb5 _]. apply rd_ok_length in R5 as [L5 _].
  apply obind_ok in H as [[flags b6] [R6 H]]. destruct (rd_bytes _ _ _ _ Hb5 R6) as [Hb6 _]. apply rd_ok_length in R6 as [L6 _].
  apply obind_ok in H as [[seed b7] [R7 H]]. destruct (rd_bytes _ _ _ _ Hb6 R7) as [Hb7 _]. apply rd_ok_length in R7 as [L7 _].
  destruct (N.leb_spec 1 eb) as [He1|]; [|discriminate]. destruct (N.leb_spec eb 63) as [He63|]; [|discriminate]. cbn [andb negb] in H.
  destruct (4 <? neb); [discriminate|]. destruct (_ && _); [discriminate|].
  apply obind_ok in H as [[theta b8] [R8 H]].
  assert (Hb8 : bytes_lt b8 /\ (length b8 <= length b7)%nat).
  { destruct (1 <? pre).
    - destruct (rd_bytes _ _ _ _ Hb7 R8). apply rd_ok_length in R8 as [? _]. split; [assumption|lia].
    - inversion R8; subst. split; [exact Hb7|lia]. }
  destruct Hb8 as [Hb8 L8].
  apply obind_ok in H as [u1 [Hth H]]. apply ensure_theta_ok in Hth.
  apply obind_ok in H as [[cnt b9] [R9 H]]. destruct (rd_bytes _ _ _ _ Hb8 R9) as [Hb9 _]. apply rd_ok_length in R9 as [L9 _].
  rewrite block_width in H.
  destruct (_ && (_ || _)); [discriminate|].
  destruct (N.ltb_spec (N.of_nat (length b9)) (cnt / 8 * eb + (cnt mod 8 * eb + 7) / 8)) as [|Hpk]; [discriminate|].
  assert (Hw : (1 <= N.to_nat eb <= 63)%nat) by lia.
  apply obind_ok in H as [ds [Hds H]].
  rewrite <- (N2Nat.id eb) in Hds. apply unpack_deltas_len in Hds; [|exact Hw|exact Hb9|lia].
  apply obind_ok in H as [es [Hes H]]. apply undo_deltas_ok in Hes as [E1 E2].
  apply obind_ok in H as [u2 [Ho H]]. inversion H.
  split; [apply safe_intro; [exact E1|exact Hth|intros Hf; eapply ordered_if_inv; eauto]|].
  cbn [ce_entries]. rewrite E2, Hds.
  (* cnt values of at least one bit each fit in the remaining bytes *)
  assert (Hcnt : cnt <= 8 * N.of_nat (length b9)).
  { clear - Hpk He1.
    assert (Hq : cnt = 8 * (cnt / 8) + cnt mod 8) by (apply N.div_mod; lia).
    assert (Hm : cnt mod 8 < 8) by (apply N.mod_lt; lia).
    set (q := cnt / 8) in *. set (m := cnt mod 8) in *.
    assert (H1 : q <= q * eb) by nia.
    assert (H2 : m <= m * eb) by nia.
    assert (Hd : m * eb + 7 = 8 * ((m * eb + 7) / 8) + (m * eb + 7) mod 8) by (apply N.div_mod; lia).
    assert (Hm2 : (m * eb + 7) mod 8 < 8) by (apply N.mod_lt; lia).
    set (t := (m * eb + 7) / 8) in *. set (u2' := (m * eb + 7) mod 8) in *. set (x := q * eb) in *. set (y := m * eb) in *.
    clearbody q m t u2' x y. lia. }
  clear - Hcnt L1 L2 L3 L4 L5 L6 L7 L8 L9. lia.
Qed.

(* ... and a usable value can be re-serialized both ways without reaching a panic site *)
Theorem safe_serializable : forall c, c_safe c -> exists bs, c_serialize_compressed c = Ok bs.
Proof.
  intros c Hs. unfold c_serialize_compressed.
  destruct (c_is_suitable_for_compression c) eqn:Hsuit; [|eexists; reflexivity].
  destruct (v4_facts c Hs Hsuit) as [Hch [Hne [Ho [Hceb [Hdel [Hw1 [Hw63 [Hds Hdl]]]]]]]].
  set (es := ce_entries c) in *. set (ds := deltas 0 es) in *. set (w := N.size (fold_left N.lor ds 0)) in *.
  unfold c_serialize_v4. fold es. rewrite Hceb, Hdel. cbn [obind].
  assert (Hww : w = N.of_nat (N.to_nat w)) by (now rewrite N2Nat.id).
  assert (Hds' : Forall (fun d => d < 2 ^ N.of_nat (N.to_nat w)) ds) by (rewrite <- Hww; exact Hds).
  destruct (pack_unpack_deltas (S (length ds)) (N.to_nat w) ds (S (length ds)) []) as [packed [Hp _]];
    [lia|exact Hds'| | |].
  { assert (length ds / 8 <= length ds)%nat by (apply Nat.div_le_upper_bound; lia). lia. }
  { assert (length ds / 8 <= length ds)%nat by (apply Nat.div_le_upper_bound; lia). lia. }
  rewrite <- Hww in Hp. rewrite Hp. cbn [obind]. eexists. reflexivity.
Qed.

(* ====================== sizes (C18) ====================== *)
Lemma le_bytes_len : forall n x, length (le_bytes n x) = n.
Proof. exact le_bytes_length. Qed.

Theorem serialize_size : forall c,
  length (c_serialize c) = (8 * N.to_nat (c_preamble_longs c) + 8 * length (ce_entries c))%nat.
Proof.
  intros c. unfold c_serialize. cbn [app length]. rewrite !app_length, le_bytes_length, flat_map_le8_length.
  unfold c_preamble_longs. destruct (c_is_estimation_mode c) eqn:E.
  - change (1 <? 3) with true. cbv iota. rewrite app_length, !le_bytes_length. cbn [length N.to_nat]. lia.
  - destruct (ce_empty c || (c_num_retained c =? 1)).
    + change (1 <? 1) with false. cbv iota. cbn [length N.to_nat]. lia.
    + change (1 <? 2) with true. cbv iota. rewrite app_length, !le_bytes_length. cbn [length N.to_nat]. lia.
Qed.

Lemma preamble_le3 : forall c, (N.to_nat (c_preamble_longs c) <= 3)%nat.
Proof. intros. unfold c_preamble_longs. destruct (c_is_estimation_mode c); [cbn; lia|]. destruct (_ || _); cbn; lia. Qed.

(* ====================== whatever the reader accepts is well-formed ====================== *)
Lemma wf_intro : forall sh es th sd od em,
  Forall (fun h => 0 < h /\ h < th) es -> 0 < th /\ th <= MAX_THETA ->
  sd < 65536 -> (em = false -> sd = sh) -> (od = true -> ascending_b es = true) ->
  (em = true -> es = [] /\ th = MAX_THETA) -> N.of_nat (length es) < M32 ->
  c_wf sh (mkC es th sd od em).
Proof. intros. constructor; cbn [ce_entries ce_theta ce_seed_hash ce_ordered ce_empty]; auto. Qed.

Lemma rd_step : forall n bs v r, bytes_lt bs -> rd n bs = Ok (v, r) -> bytes_lt r /\ v < 256 ^ N.of_nat n.
Proof. exact rd_bytes. Qed.

Lemma andb_eqb_true : forall n th, (n =? 0) && (th =? MAX_THETA) = true -> n = 0 /\ th = MAX_THETA.
Proof. intros n th H. apply andb_prop in H as [H1 H2]. apply N.eqb_eq in H1, H2. auto. Qed.

Lemma nil_of_len0 : forall (es : list N), N.of_nat (length es) = 0 -> es = [].
Proof. intros [|e es] H; [reflexivity|cbn [length] in H; lia]. Qed.

Theorem deserialize_ok_wf : forall sh bs c, sh < 65536 -> bytes_lt bs -> c_deser_body sh bs = Ok c -> c_wf sh c.
Proof.
  intros sh bs c Hsh Hb H. unfold c_deser_body in H.
  apply obind_ok in H as [[pre bs1] [H1 H]]. destruct (rd_step _ _ _ _ Hb H1) as [Hb1 _].
  apply obind_ok in H as [[ver bs2] [H2 H]]. destruct (rd_step _ _ _ _ Hb1 H2) as [Hb2 _].
  apply obind_ok in H as [[fam bs3] [H3 H]]. destruct (rd_step _ _ _ _ Hb2 H3) as [Hb3 _].
  destruct (negb (fam =? _)); [discriminate|]. destruct (negb (_ && _)); [discriminate|].
  change (256 ^ N.of_nat 4) with M32 in *. change (256 ^ N.of_nat 2) with 65536 in *.
  destruct (ver =? 1).
  { unfold deserialize_v1 in H.
    apply obind_ok in H as [[? b4] [R4 H]]. destruct (rd_step _ _ _ _ Hb3 R4) as [B4 _].
    apply obind_ok in H as [[? b5] [R5 H]]. destruct (rd_step _ _ _ _ B4 R5) as [B5 _].
    apply obind_ok in H as [[nn b6] [R6 H]]. destruct (rd_step _ _ _ _ B5 R6) as [B6 V6].
    apply obind_ok in H as [[? b7] [R7 H]]. destruct (rd_step _ _ _ _ B6 R7) as [B7 _].
    apply obind_ok in H as [[theta b8] [R8 H]].
    apply obind_ok in H as [u1 [Hth H]]. apply ensure_theta_ok in Hth.
    destruct ((nn =? 0) && (theta =? MAX_THETA)) eqn:Eem.
    - inversion H. apply andb_eqb_true in Eem as [_ Et].
      apply wf_intro; [constructor|exact Hth|exact Hsh|reflexivity|reflexivity|intros _; split; [reflexivity|exact Et]|cbn [length]; unfold M32; lia].
    - apply obind_ok in H as [es [Hes H]]. apply read_entries_ok in Hes as [E1 [E2 E3]].
      apply obind_ok in H as [u2 [Ho H]]. apply ensure_ordered_inv in Ho. inversion H.
      change (256 ^ N.of_nat 4) with M32 in V6.
      apply wf_intro; [exact E1|exact Hth|exact Hsh|reflexivity|intros _; exact Ho|discriminate|lia]. }
  destruct (ver =? 2).
  { unfold deserialize_v2 in H.
    apply obind_ok in H as [[? b4] [R4 H]]. destruct (rd_step _ _ _ _ Hb3 R4) as [B4 _].
    apply obind_ok in H as [[? b5] [R5 H]]. destruct (rd_step _ _ _ _ B4 R5) as [B5 _].
    apply obind_ok in H as [[seed b6] [R6 H]]. destruct (rd_step _ _ _ _ B5 R6) as [B6 V6].
    destruct (N.eqb_spec seed sh) as [Es|]; [|discriminate]. cbn [negb] in H.
    change (256 ^ N.of_nat 2) with 65536 in V6.
    destruct (pre =? _).
    { inversion H. apply wf_intro; [constructor|apply max_theta_pos|lia|discriminate|reflexivity|intros _; split; reflexivity|cbn [length]; unfold M32; lia]. }
    destruct (pre =? _).
    { apply obind_ok in H as [[nn b7] [R7 H]]. destruct (rd_step _ _ _ _ B6 R7) as [B7 V7].
      apply obind_ok in H as [[? b8] [R8 H]].
      apply obind_ok in H as [es [Hes H]]. apply read_entries_ok in Hes as [E1 [E2 E3]].
      apply obind_ok in H as [u2 [Ho H]]. apply ensure_ordered_inv in Ho. inversion H.
      change (256 ^ N.of_nat 4) with M32 in V7.
      apply wf_intro; [exact E1|apply max_theta_pos|lia|intros _; exact Es|intros _; exact Ho| |lia].
      intros Ez. apply N.eqb_eq in Ez. split; [apply nil_of_len0; lia|reflexivity]. }
    destruct (pre =? _); [|discriminate].
    apply obind_ok in H as [[nn b7] [R7 H]]. destruct (rd_step _ _ _ _ B6 R7) as [B7 V7].
    apply obind_ok in H as [[? b8] [R8 H]]. destruct (rd_step _ _ _ _ B7 R8) as [B8 _].
    apply obind_ok in H as [[theta b9] [R9 H]].
    apply obind_ok in H as [u1 [Hth H]]. apply ensure_theta_ok in Hth.
    apply obind_ok in H as [es [Hes H]]. apply read_entries_ok in Hes as [E1 [E2 E3]].
    apply obind_ok in H as [u2 [Ho H]]. apply ensure_ordered_inv in Ho. inversion H.
    change (256 ^ N.of_nat 4) with M32 in V7.
    apply wf_intro; [exact E1|exact Hth|lia|intros _; exact Es|intros _; exact Ho| |lia].
    intros Ez. apply andb_eqb_true in Ez as [Ez Et]. split; [apply nil_of_len0; lia|exact Et]. }
  destruct (ver =? 3).
  { unfold deserialize_v3 in H.
    apply obind_ok in H as [[? b4] [R4 H]]. destruct (rd_step _ _ _ _ Hb3 R4) as [B4 _].
    apply obind_ok in H as [[flags b5] [R5 H]]. destruct (rd_step _ _ _ _ B4 R5) as [B5 _].
    apply obind_ok in H as [[seed b6] [R6 H]]. destruct (rd_step _ _ _ _ B5 R6) as [B6 V6].
    change (256 ^ N.of_nat 2) with 65536 in V6.
    destruct (flag_set flags (zN GenTheta.FLAGS_IS_EMPTY)).
    { inversion H. apply wf_intro; [constructor|apply max_theta_pos|lia|discriminate|intros _; reflexivity|intros _; split; reflexivity|cbn [length]; unfold M32; lia]. }
    destruct (N.eqb_spec seed sh) as [Es|]; [|discriminate]. cbn [negb] in H.
    apply obind_ok in H as [[[nn theta] b7] [Hhdr H]].
    assert (Hhd : (0 < theta /\ theta <= MAX_THETA) /\ nn < M32).
    { destruct (pre =? 1).
      - inversion Hhdr; subst. split; [apply max_theta_pos|unfold M32; lia].
      - apply obind_ok in Hhdr as [[n0 c1] [Q1 Hhdr]]. destruct (rd_step _ _ _ _ B6 Q1) as [C1 W1].
        change (256 ^ N.of_nat 4) with M32 in W1.
        apply obind_ok in Hhdr as [[? c2] [Q2 Hhdr]].
        destruct (2 <? pre).
        + apply obind_ok in Hhdr as [[th c3] [Q3 Hhdr]].
          apply obind_ok in Hhdr as [u1 [Hth Hhdr]]. apply ensure_theta_ok in Hth. inversion Hhdr; subst. split; assumption.
        + inversion Hhdr; subst. split; [apply max_theta_pos|assumption]. }
    destruct Hhd as [Hth Hnn].
    apply obind_ok in H as [es [Hes H]]. apply read_entries_ok in Hes as [E1 [E2 E3]].
    apply obind_ok in H as [u2 [Ho H]]. inversion H.
    apply wf_intro; [exact E1|exact Hth|lia|intros _; exact Es|intros Hf; eapply ordered_if_inv; eauto|discriminate|lia]. }
  destruct (ver =? 4); [|discriminate].
  unfold deserialize_v4 in H.
  apply obind_ok in H as [[eb b4] [R4 H]]. destruct (rd_step _ _ _ _ Hb3 R4) as [Hb4 _].
  apply obind_ok in H as [[neb b5] [R5 H]]. destruct (rd_step _ _ _ _ Hb4 R5) as [Hb5 _].
  apply obind_ok in H as [[flags b6] [R6 H]]. destruct (rd_step _ _ _ _ Hb5 R6) as [Hb6 _].
  apply obind_ok in H as [[seed b7] [R7 H]]. destruct (rd_step _ _ _ _ Hb6 R7) as [Hb7 V7].
  change (256 ^ N.of_nat 2) with 65536 in V7.
  destruct (N.leb_spec 1 eb) as [He1|]; [|discriminate]. destruct (N.leb_spec eb 63) as [He63|]; [|discriminate]. cbn [andb negb] in H.
  destruct (N.ltb_spec 4 neb) as [|Hneb]; [discriminate|].
  set (em := flag_set flags (zN GenTheta.FLAGS_IS_EMPTY)) in *.
  destruct (negb em && negb (seed =? sh)) eqn:Eseed; [discriminate|].
  apply obind_ok in H as [[theta b8] [R8 H]].
  assert (Hb8 : bytes_lt b8).
  { destruct (1 <? pre); [destruct (rd_step _ _ _ _ Hb7 R8); assumption|inversion R8; subst; exact Hb7]. }
  apply obind_ok in H as [u1 [Hth H]]. apply ensure_theta_ok in Hth.
  apply obind_ok in H as [[cnt b9] [R9 H]]. unfold rd_count in R9. destruct (rd_step _ _ _ _ Hb8 R9) as [Hb9 V9].
  rewrite block_width in H.
  destruct (em && (negb (cnt =? 0) || negb (theta =? MAX_THETA))) eqn:Eflag; [discriminate|].
  destruct (N.ltb_spec (N.of_nat (length b9)) (cnt / 8 * eb + (cnt mod 8 * eb + 7) / 8)) as [|Hpk]; [discriminate|].
  assert (Hw : (1 <= N.to_nat eb <= 63)%nat) by lia.
  apply obind_ok in H as [ds [Hds H]].
  rewrite <- (N2Nat.id eb) in Hds. apply unpack_deltas_len in Hds; [|exact Hw|exact Hb9|lia].
  apply obind_ok in H as [es [Hes H]]. apply undo_deltas_ok in Hes as [E1 E2].
  apply obind_ok in H as [u2 [Ho H]]. inversion H.
  assert (Hcnt : cnt < M32).
  { rewrite N2Nat.id in V9. eapply N.lt_le_trans; [exact V9|]. change M32 with (256 ^ 4). apply N.pow_le_mono_r; lia. }
  apply wf_intro; [exact E1|exact Hth|lia| | | | ].
  - intros Ee. rewrite Ee in Eseed. cbn [negb andb] in Eseed. destruct (N.eqb_spec seed sh); [assumption|discriminate].
  - intros Hf. eapply ordered_if_inv; eauto.
  - intros Ee. rewrite Ee in Eflag. cbn [andb] in Eflag. apply orb_false_iff in Eflag as [F1 F2].
    apply negb_false_iff in F1, F2. apply N.eqb_eq in F1, F2. split; [|exact F2].
    apply nil_of_len0. rewrite E2, Hds. lia.
  - rewrite E2, Hds. lia.
Qed.

(* so the round trips of C11 apply to everything the reader returns *)
Theorem deserialized_roundtrips : forall sh bs c, sh < 65536 -> bytes_lt bs -> c_deser_body sh bs = Ok c ->
  c_deser_body sh (c_serialize c) = Ok c /\
  exists bs', c_serialize_compressed c = Ok bs' /\ c_deser_body sh bs' = Ok c.
Proof.
  intros sh bs c Hsh Hb H. pose proof (deserialize_ok_wf sh bs c Hsh Hb H) as Hwf.
  split; [now apply roundtrip_v3|now apply roundtrip_compressed].
Qed.

(* ---------- the two guards in front of the reader's allocations, whatever happens afterwards ---------- *)
(* read_entries allocates num_entries u64 only after this test has passed *)
Lemma read_entries_guard : forall num_entries len, (len / 8 <? num_entries) = false -> 8 * num_entries <= len.
Proof. intros n len H. apply N.ltb_ge in H. lia. Qed.

(* deserialize_v4 allocates num_entries u64 only after this test has passed (entry_bits >= 1) *)
Lemma v4_guard : forall cnt eb len, 1 <= eb ->
  (len <? cnt / 8 * eb + (cnt mod 8 * eb + 7) / 8) = false -> cnt <= 8 * len.
Proof.
  intros cnt eb len He1 H. apply N.ltb_ge in H.
  assert (Hq : cnt = 8 * (cnt / 8) + cnt mod 8) by (apply N.div_mod; lia).
  assert (Hm : cnt mod 8 < 8) by (apply N.mod_lt; lia).
  set (q := cnt / 8) in *. set (m := cnt mod 8) in *.
  assert (H1 : q <= q * eb) by nia. assert (H2 : m <= m * eb) by nia.
  assert (Hd : m * eb + 7 = 8 * ((m * eb + 7) / 8) + (m * eb + 7) mod 8) by (apply N.div_mod; lia).
  assert (Hm2 : (m * eb + 7) mod 8 < 8) by (apply N.mod_lt; lia).
  set (t := (m * eb + 7) / 8) in *. set (u2' := (m * eb + 7) mod 8) in *. set (x := q * eb) in *. set (y := m * eb) in *.
  clearbody q m t u2' x y. lia.
Qed.

(* ====================== the entry point deserialize_with_seed ======================
   [c_deserialize sh] first rejects a seed whose seed hash is zero (Err), then runs the reader
   [c_deser_body] about which everything above is stated. *)
Lemma deser_ep : forall sh bs, sh <> 0 -> c_deserialize sh bs = c_deser_body sh bs.
Proof. intros sh bs H. unfold c_deserialize. destruct (N.eqb_spec sh 0); [contradiction|reflexivity]. Qed.

Lemma deser_zero_seed : forall bs, c_deserialize 0 bs = Err.
Proof. reflexivity. Qed.

Lemma deser_ok_seed : forall sh bs c, c_deserialize sh bs = Ok c -> sh <> 0 /\ c_deser_body sh bs = Ok c.
Proof. intros sh bs c H. unfold c_deserialize in H. destruct (N.eqb_spec sh 0); [discriminate|auto]. Qed.

Theorem ep_roundtrip_v3 : forall sh c, sh <> 0 -> c_wf sh c -> c_deserialize sh (c_serialize c) = Ok c.
Proof. intros. rewrite deser_ep by assumption. now apply roundtrip_v3. Qed.

Theorem ep_roundtrip_v4 : forall sh c, sh <> 0 -> c_wf sh c -> c_is_suitable_for_compression c = true ->
  exists bs, c_serialize_v4 c = Ok bs /\ c_deserialize sh bs = Ok c.
Proof.
  intros sh c Hs Hwf Hsu. destruct (roundtrip_v4 sh c Hwf Hsu) as [bs [H1 H2]]. exists bs. split; [exact H1|].
  rewrite deser_ep by assumption. exact H2.
Qed.

Theorem ep_roundtrip_compressed : forall sh c, sh <> 0 -> c_wf sh c ->
  exists bs, c_serialize_compressed c = Ok bs /\ c_deserialize sh bs = Ok c.
Proof.
  intros sh c Hs Hwf. destruct (roundtrip_compressed sh c Hwf) as [bs [H1 H2]]. exists bs. split; [exact H1|].
  rewrite deser_ep by assumption. exact H2.
Qed.

Theorem ep_never_stuck : forall sh bs, bytes_lt bs -> c_deserialize sh bs <> Stuck.
Proof.
  intros sh bs Hb. unfold c_deserialize. destruct (sh =? 0); [discriminate|now apply deserialize_never_stuck].
Qed.

Theorem ep_ok_safe : forall sh bs c, bytes_lt bs -> c_deserialize sh bs = Ok c ->
  c_safe c /\ (length (ce_entries c) <= 8 * length bs)%nat.
Proof. intros sh bs c Hb H. apply deser_ok_seed in H as [_ H]. eapply deserialize_ok_safe; eauto. Qed.

Theorem ep_ok_wf : forall sh bs c, sh < 65536 -> bytes_lt bs -> c_deserialize sh bs = Ok c -> sh <> 0 /\ c_wf sh c.
Proof. intros sh bs c Hs Hb H. apply deser_ok_seed in H as [H0 H]. split; [exact H0|]. eapply deserialize_ok_wf; eauto. Qed.

Theorem ep_deserialized_roundtrips : forall sh bs c, sh < 65536 -> bytes_lt bs -> c_deserialize sh bs = Ok c ->
  c_deserialize sh (c_serialize c) = Ok c /\
  exists bs', c_serialize_compressed c = Ok bs' /\ c_deserialize sh bs' = Ok c.
Proof.
  intros sh bs c Hs Hb H. destruct (ep_ok_wf sh bs c Hs Hb H) as [H0 Hwf].
  split; [now apply ep_roundtrip_v3|now apply ep_roundtrip_compressed].
Qed.
