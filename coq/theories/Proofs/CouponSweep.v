From DS Require Import Base.Prelude Base.FloatBits Model.HllEst Proofs.CouponSweepDefs
  Proofs.CouponSweep0 Proofs.CouponSweep1 Proofs.CouponSweep2 Proofs.CouponSweep3.
From Coq Require Import Floats.
Open Scope N_scope.

(* every coupon count a list/set-mode sketch can hold: estimate finite, >= the count, bounds ordered and nested,
   and even the widest lower bound is at least the count *)
Lemma coupon_last : coupon_ok 196608 = true.
Proof. vm_compute. reflexivity. Qed.

Theorem coupon_estimator_ok : forall len, len <= 196608 -> coupon_ok len = true.
Proof.
  intros len H. destruct (N.eq_dec len 196608) as [->|Hne]; [exact coupon_last|]. assert (HC : N.of_nat CHUNK = 49152) by (unfold CHUNK; lia).
  destruct (N.lt_ge_cases len 49152); [apply (sweep_spec CHUNK (0 * 49152)); [exact sweep_chunk0|lia]|].
  destruct (N.lt_ge_cases len 98304); [apply (sweep_spec CHUNK (1 * 49152)); [exact sweep_chunk1|lia]|].
  destruct (N.lt_ge_cases len 147456); [apply (sweep_spec CHUNK (2 * 49152)); [exact sweep_chunk2|lia]|].
  apply (sweep_spec CHUNK (3 * 49152)); [exact sweep_chunk3|lia].
Qed.
