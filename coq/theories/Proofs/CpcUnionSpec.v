(* The Spec of C06: OR of bit matrices whose rows are folded modulo a smaller K; its algebra. *)
From DS Require Import Base.Prelude Model.Cpc Proofs.CpcBits Proofs.CpcSpec Proofs.CpcProofs.
From Coq Require Import Permutation.
From Coq Require Import ZifyBool ZifyNat ZifyN.
Ltac Zify.zify_post_hook ::= Z.div_mod_to_equations.
Open Scope N_scope.

(* equality on the rows of a sketch with K rows *)
Definition mbelow (K : N) (M M' : matrix) : Prop := forall r, r < K -> M r = M' r.

Definition mzero : matrix := fun _ => 0.
Definition mor (A B : matrix) : matrix := fun r => N.lor (A r) (B r).

(* rows folded modulo 2^lt: row r of the result is the OR of the rows r, r + 2^lt, r + 2*2^lt, ... below 2^lf *)
Definition mfold (lf lt : N) (M : matrix) : matrix := fun r =>
  fold_left N.lor (map (fun j => M (r + N.of_nat j * 2 ^ lt)) (seq 0 (N.to_nat (2 ^ (lf - lt))))) 0.

Lemma mbelow_refl : forall K M, mbelow K M M.
Proof. intros K M r _. reflexivity. Qed.
Lemma mbelow_sym : forall K M M', mbelow K M M' -> mbelow K M' M.
Proof. intros K M M' H r Hr. symmetry. apply H. exact Hr. Qed.
Lemma mbelow_trans : forall K A B C, mbelow K A B -> mbelow K B C -> mbelow K A C.
Proof. intros K A B C H1 H2 r Hr. rewrite (H1 r Hr). apply H2. exact Hr. Qed.

Lemma mbelow_bits : forall K M M', (forall r c, r < K -> N.testbit (M r) c = N.testbit (M' r) c) -> mbelow K M M'.
Proof. intros K M M' H r Hr. apply N.bits_inj. intros c. apply H. exact Hr. Qed.

Lemma existsb_map : forall {A B} (f : B -> bool) (g : A -> B) l, existsb f (map g l) = existsb (fun x => f (g x)) l.
Proof. intros A B f g l. induction l as [|x l IH]; cbn [map existsb]; [reflexivity|rewrite IH; reflexivity]. Qed.

Lemma mor_bit : forall A B r c, N.testbit (mor A B r) c = N.testbit (A r) c || N.testbit (B r) c.
Proof. intros. unfold mor. apply N.lor_spec. Qed.

Lemma mfold_bit : forall lf lt M r c,
  N.testbit (mfold lf lt M r) c =
  existsb (fun j => N.testbit (M (r + N.of_nat j * 2 ^ lt)) c) (seq 0 (N.to_nat (2 ^ (lf - lt)))).
Proof.
  intros. unfold mfold. rewrite fold_lor_bits, N.bits_0, existsb_map. reflexivity.
Qed.

Lemma pow_split : forall lf lt, lt <= lf -> 2 ^ lf = 2 ^ lt * 2 ^ (lf - lt).
Proof. intros lf lt H. rewrite <- N.pow_add_r. f_equal. lia. Qed.

Lemma mfold_bit_iff : forall lf lt M r c, lt <= lf -> r < 2 ^ lt ->
  (N.testbit (mfold lf lt M r) c = true <->
   exists r', r' < 2 ^ lf /\ r' mod 2 ^ lt = r /\ N.testbit (M r') c = true).
Proof.
  intros lf lt M r c Hl Hr. rewrite mfold_bit, existsb_exists.
  pose proof (pow_split lf lt Hl) as HP. pose proof (pow_pos lt) as HK. pose proof (pow_pos (lf - lt)) as HF.
  set (K := 2 ^ lt) in *. set (F := 2 ^ (lf - lt)) in *. split.
  - intros [j [Hj Hb]]. apply in_seq in Hj. exists (r + N.of_nat j * K). split; [|split; [|exact Hb]].
    + rewrite HP. assert (N.of_nat j + 1 <= F) by lia.
      assert ((N.of_nat j + 1) * K <= F * K) by (apply N.mul_le_mono_r; assumption). lia.
    + rewrite N.mod_add by lia. apply N.mod_small. exact Hr.
  - intros [r' [H1 [H2 H3]]]. exists (N.to_nat (r' / K)). split.
    + assert (Hq : r' / K < F). { apply N.div_lt_upper_bound; [lia|]. rewrite <- HP. exact H1. }
      revert Hq. generalize (r' / K). intros q Hq. apply in_seq. clearbody K F. lia.
    + rewrite N2Nat.id. replace (r + r' / K * K) with r'; [exact H3|].
      pose proof (N.div_mod r' K ltac:(lia)). lia.
Qed.

(* ---------- algebra of folding ---------- *)
Lemma mfold_id : forall l M, mbelow (2 ^ l) (mfold l l M) M.
Proof.
  intros l M. apply mbelow_bits. intros r c Hr. rewrite mfold_bit, N.sub_diag.
  change (N.to_nat (2 ^ 0)) with 1%nat. cbn [seq existsb]. change (N.of_nat 0) with 0.
  rewrite orb_false_r, N.mul_0_l, N.add_0_r. reflexivity.
Qed.

Lemma bool_eq_iff : forall a b : bool, (a = true <-> b = true) -> a = b.
Proof. intros [|] [|] H; try reflexivity; [symmetry|]; apply H; reflexivity. Qed.

Lemma mfold_or : forall lf lt A B r, mfold lf lt (mor A B) r = mor (mfold lf lt A) (mfold lf lt B) r.
Proof.
  intros. apply N.bits_inj. intros c. rewrite mor_bit, !mfold_bit.
  induction (seq 0 (N.to_nat (2 ^ (lf - lt)))) as [|j l IH]; cbn [existsb]; [reflexivity|].
  rewrite IH, mor_bit. destruct (N.testbit (A (r + N.of_nat j * 2 ^ lt)) c), (N.testbit (B (r + N.of_nat j * 2 ^ lt)) c);
    cbn [orb]; rewrite ?orb_true_r; reflexivity.
Qed.

Lemma mod_mod_mul : forall a b c, b <> 0 -> c <> 0 -> (a mod (b * c)) mod b = a mod b.
Proof.
  intros a b c Hb Hc. rewrite N.mod_mul_r by assumption.
  rewrite (N.mul_comm b), N.mod_add by assumption. apply N.mod_mod. exact Hb.
Qed.

Lemma mfold_fold : forall l1 l2 l3 M, l3 <= l2 -> l2 <= l1 ->
  mbelow (2 ^ l3) (mfold l2 l3 (mfold l1 l2 M)) (mfold l1 l3 M).
Proof.
  intros l1 l2 l3 M H32 H21. apply mbelow_bits. intros r c Hr. apply bool_eq_iff.
  rewrite (mfold_bit_iff l2 l3 _ r c H32 Hr), (mfold_bit_iff l1 l3 M r c ltac:(lia) Hr).
  pose proof (pow_split l2 l3 H32) as HP. pose proof (pow_pos l3) as HK3. pose proof (pow_pos l2) as HK2.
  split.
  - intros [r2 [H1 [H2 H3]]]. apply (mfold_bit_iff l1 l2 M r2 c H21 H1) in H3.
    destruct H3 as [r1 [G1 [G2 G3]]]. exists r1. split; [exact G1|]. split; [|exact G3].
    rewrite <- H2, <- G2. rewrite HP. symmetry. apply mod_mod_mul; [lia|]. pose proof (pow_pos (l2 - l3)). lia.
  - intros [r1 [G1 [G2 G3]]]. exists (r1 mod 2 ^ l2). split; [apply N.mod_lt; lia|]. split.
    + rewrite <- G2. rewrite HP. apply mod_mod_mul; [lia|]. pose proof (pow_pos (l2 - l3)). lia.
    + apply (mfold_bit_iff l1 l2 M _ c H21); [apply N.mod_lt; lia|].
      exists r1. split; [exact G1|]. split; [reflexivity|exact G3].
Qed.

Lemma mfold_ext : forall lf lt M M', lt <= lf -> mbelow (2 ^ lf) M M' -> mbelow (2 ^ lt) (mfold lf lt M) (mfold lf lt M').
Proof.
  intros lf lt M M' Hl H. apply mbelow_bits. intros r c Hr. apply bool_eq_iff.
  rewrite !(mfold_bit_iff lf lt _ r c Hl Hr). split; intros [r' [H1 [H2 H3]]]; exists r'; (split; [exact H1|split; [exact H2|]]).
  - rewrite <- (H r' H1). exact H3.
  - rewrite (H r' H1). exact H3.
Qed.

Lemma mor_ext : forall K A A' B B', mbelow K A A' -> mbelow K B B' -> mbelow K (mor A B) (mor A' B').
Proof. intros K A A' B B' HA HB r Hr. unfold mor. rewrite (HA r Hr), (HB r Hr). reflexivity. Qed.

Lemma mfold_zero : forall lf lt r, mfold lf lt mzero r = 0.
Proof.
  intros. apply N.bits_inj. intros c. rewrite mfold_bit, N.bits_0.
  induction (seq 0 (N.to_nat (2 ^ (lf - lt)))) as [|j l IH]; cbn [existsb]; [reflexivity|].
  rewrite IH. unfold mzero. rewrite N.bits_0. reflexivity.
Qed.

(* word64 rows *)
Definition Mw64 (lg : N) (M : matrix) : Prop := forall r, r < 2 ^ lg -> word64 (M r).

Lemma Mw64_mor : forall lg A B, Mw64 lg A -> Mw64 lg B -> Mw64 lg (mor A B).
Proof. intros lg A B HA HB r Hr c Hc. rewrite mor_bit, (HA r Hr c Hc), (HB r Hr c Hc). reflexivity. Qed.

Lemma Mw64_mfold : forall lf lt M, lt <= lf -> Mw64 lf M -> Mw64 lt (mfold lf lt M).
Proof.
  intros lf lt M Hl H r Hr c Hc. destruct (N.testbit (mfold lf lt M r) c) eqn:E; [|reflexivity].
  apply (mfold_bit_iff lf lt M r c Hl Hr) in E. destruct E as [r' [H1 [_ H3]]].
  rewrite (H r' H1 c Hc) in H3. discriminate.
Qed.

Lemma Mw64_ext : forall lg M M', mbelow (2 ^ lg) M M' -> Mw64 lg M -> Mw64 lg M'.
Proof. intros lg M M' H HM r Hr. rewrite <- (H r Hr). apply HM. exact Hr. Qed.

(* ---------- population counts ---------- *)
Lemma popcount_lor_l : forall a b, popcount a <= popcount (N.lor a b).
Proof.
  intros a b. unfold popcount.
  assert (length (bits_of a) <= length (bits_of (N.lor a b)))%nat; [|lia].
  apply NoDup_incl_length; [apply bits_of_NoDup|].
  intros x Hx. apply bits_of_spec in Hx. apply bits_of_spec. rewrite N.lor_spec, Hx. reflexivity.
Qed.

Lemma popcount_lor_r : forall a b, popcount b <= popcount (N.lor a b).
Proof. intros a b. rewrite N.lor_comm. apply popcount_lor_l. Qed.

Lemma pop_rows_le : forall M M' n, (forall i, (i < n)%nat -> popcount (M (N.of_nat i)) <= popcount (M' (N.of_nat i))) ->
  pop_rows M n <= pop_rows M' n.
Proof.
  intros M M' n. induction n as [|n IH]; intros H; [cbn; lia|].
  rewrite !pop_rows_S. specialize (IH ltac:(intros; apply H; lia)). specialize (H n ltac:(lia)). lia.
Qed.

Lemma pop_rows_mor_l : forall A B n, pop_rows A n <= pop_rows (mor A B) n.
Proof. intros. apply pop_rows_le. intros. apply popcount_lor_l. Qed.
Lemma pop_rows_mor_r : forall A B n, pop_rows B n <= pop_rows (mor A B) n.
Proof. intros. apply pop_rows_le. intros. apply popcount_lor_r. Qed.

Lemma pop_rows_below : forall K M M', mbelow (N.of_nat K) M M' -> pop_rows M K = pop_rows M' K.
Proof. intros K M M' H. apply pop_rows_ext. intros i Hi. apply H. lia. Qed.

Lemma pop_rows_split : forall M n m, pop_rows M (n + m) = pop_rows M n + pop_rows (fun r => M (r + N.of_nat n)) m.
Proof.
  intros M n m. induction m as [|m IH].
  - rewrite Nat.add_0_r. cbn. lia.
  - rewrite Nat.add_succ_r, !pop_rows_S, IH. replace (N.of_nat m + N.of_nat n) with (N.of_nat (n + m)) by lia. lia.
Qed.

(* folding by one level at most halves the count *)
Lemma mfold_one : forall l M, mbelow (2 ^ l) (mfold (l + 1) l M) (mor M (fun r => M (r + 2 ^ l))).
Proof.
  intros l M. apply mbelow_bits. intros r c Hr. rewrite mfold_bit, mor_bit.
  replace (l + 1 - l) with 1 by lia. change (N.to_nat (2 ^ 1)) with 2%nat. cbn [seq existsb].
  change (N.of_nat 0) with 0. change (N.of_nat 1) with 1.
  rewrite orb_false_r, N.mul_0_l, N.add_0_r, N.mul_1_l. reflexivity.
Qed.

Lemma pop_fold_one : forall l M, pop_rows M (Knat (l + 1)) <= 2 * pop_rows (mfold (l + 1) l M) (Knat l).
Proof.
  intros l M. assert (E : Knat (l + 1) = (Knat l + Knat l)%nat).
  { unfold Knat. rewrite N.pow_add_r. change (2 ^ 1) with 2. lia. }
  rewrite E, pop_rows_split.
  rewrite (pop_rows_below (Knat l) (mfold (l + 1) l M) (mor M (fun r => M (r + 2 ^ l)))) by (rewrite Knat_N; apply mfold_one).
  pose proof (pop_rows_mor_l M (fun r => M (r + 2 ^ l)) (Knat l)).
  pose proof (pop_rows_mor_r M (fun r => M (r + 2 ^ l)) (Knat l)).
  rewrite Knat_N. lia.
Qed.

(* C_folded >= C / f : folding from 2^lf to 2^lt rows loses at most the factor f = 2^(lf - lt) *)
Lemma pop_fold : forall d lt M, pop_rows M (Knat (lt + N.of_nat d)) <= 2 ^ N.of_nat d * pop_rows (mfold (lt + N.of_nat d) lt M) (Knat lt).
Proof.
  induction d as [|d IH]; intros lt M.
  - rewrite N.add_0_r. change (2 ^ N.of_nat 0) with 1.
    rewrite (pop_rows_below (Knat lt) (mfold lt lt M) M) by (rewrite Knat_N; apply mfold_id). lia.
  - replace (lt + N.of_nat (S d)) with ((lt + N.of_nat d) + 1) by lia.
    pose proof (pop_fold_one (lt + N.of_nat d) M) as H1.
    pose proof (IH lt (mfold (lt + N.of_nat d + 1) (lt + N.of_nat d) M)) as H2.
    rewrite (pop_rows_below (Knat lt) _ (mfold (lt + N.of_nat d + 1) lt M)) in H2
      by (rewrite Knat_N; apply mfold_fold; lia).
    replace (N.of_nat (S d)) with (N.of_nat d + 1) by lia. rewrite N.pow_add_r. change (2 ^ 1) with 2. nia.
Qed.

Lemma pop_fold' : forall lf lt M, lt <= lf ->
  pop_rows M (Knat lf) <= 2 ^ (lf - lt) * pop_rows (mfold lf lt M) (Knat lt).
Proof.
  intros lf lt M H. pose proof (pop_fold (N.to_nat (lf - lt)) lt M) as P.
  rewrite N2Nat.id in P. replace (lt + (lf - lt)) with lf in P by lia. exact P.
Qed.

Lemma pos_bits_nonempty : forall p i, (1 <= length (pos_bits p i))%nat.
Proof. induction p as [q IH|q IH|]; intros i; cbn [pos_bits length]; [lia|apply IH|lia]. Qed.

Lemma popcount_zero : forall w, popcount w = 0 -> w = 0.
Proof.
  intros [|p] H; [reflexivity|]. unfold popcount in H. cbn [bits_of] in H.
  pose proof (pos_bits_nonempty p 0). lia.
Qed.

Lemma pop_rows_zero_rows : forall M n, pop_rows M n = 0 -> forall i, (i < n)%nat -> M (N.of_nat i) = 0.
Proof.
  intros M n. induction n as [|n IH]; intros H i Hi; [lia|].
  rewrite pop_rows_S in H. destruct (Nat.eq_dec i n) as [->|Hne].
  - apply popcount_zero. lia.
  - apply IH; lia.
Qed.

(* ---------- the union Spec ---------- *)
(* an input: (lg_k, matrix); only the rows below 2^lg_k matter *)
Definition uinput : Type := (N * matrix)%type.
Definition in_empty (i : uinput) : bool := pop_rows (snd i) (Knat (fst i)) =? 0.

(* CpcUnion::update at the abstraction level: empty inputs are ignored; otherwise both sides are folded to
   the smaller lg_k and OR-ed *)
Definition uspec_step (a i : uinput) : uinput :=
  if in_empty i then a
  else let lg := N.min (fst a) (fst i) in (lg, mor (mfold (fst a) lg (snd a)) (mfold (fst i) lg (snd i))).
Definition uspec (lg0 : N) (ins : list uinput) : uinput := fold_left uspec_step ins (lg0, mzero).

(* closed form: the smallest lg_k among the union and the non-empty inputs ... *)
Definition lgmin (lg0 : N) (ins : list uinput) : N :=
  fold_left (fun acc i => if in_empty i then acc else N.min acc (fst i)) ins lg0.
(* ... and the OR of every non-empty input folded to it *)
Fixpoint orfolds (lgm : N) (ins : list uinput) (r : N) : N :=
  match ins with
  | [] => 0
  | i :: rest => N.lor (if in_empty i then 0 else mfold (fst i) lgm (snd i) r) (orfolds lgm rest r)
  end.
Definition or_spec (lg0 : N) (ins : list uinput) : matrix := orfolds (lgmin lg0 ins) ins.

Lemma lgmin_le : forall ins l, lgmin l ins <= l.
Proof.
  induction ins as [|i ins IH]; intros l; cbn [lgmin fold_left]; [lia|].
  fold (lgmin (if in_empty i then l else N.min l (fst i)) ins).
  specialize (IH (if in_empty i then l else N.min l (fst i))). destruct (in_empty i); lia.
Qed.

Lemma lgmin_cons : forall i ins l, lgmin l (i :: ins) = lgmin (if in_empty i then l else N.min l (fst i)) ins.
Proof. reflexivity. Qed.

Lemma lgmin_min : forall ins a b, lgmin (N.min a b) ins = N.min b (lgmin a ins).
Proof.
  induction ins as [|i ins IH]; intros a b; [cbn; lia|].
  rewrite !lgmin_cons. destruct (in_empty i); [apply IH|].
  rewrite <- IH. f_equal. lia.
Qed.

Lemma lgmin_le_in : forall ins i l, In i ins -> in_empty i = false -> lgmin l ins <= fst i.
Proof.
  induction ins as [|j ins IH]; intros i l Hin He; [contradiction|].
  rewrite lgmin_cons. destruct Hin as [->|Hin].
  - rewrite He. pose proof (lgmin_le ins (N.min l (fst i))). lia.
  - apply IH; assumption.
Qed.

Lemma orfolds_bit : forall lgm ins r c,
  N.testbit (orfolds lgm ins r) c =
  existsb (fun i => negb (in_empty i) && N.testbit (mfold (fst i) lgm (snd i) r) c) ins.
Proof.
  induction ins as [|i ins IH]; intros r c; cbn [orfolds existsb]; [apply N.bits_0|].
  rewrite N.lor_spec, IH. destruct (in_empty i); cbn [negb andb]; [rewrite N.bits_0|]; reflexivity.
Qed.

(* the sequential definition equals the closed form *)
Lemma uspec_gen : forall ins lga A,
  fst (fold_left uspec_step ins (lga, A)) = lgmin lga ins /\
  mbelow (2 ^ lgmin lga ins) (snd (fold_left uspec_step ins (lga, A)))
         (fun r => N.lor (mfold lga (lgmin lga ins) A r) (orfolds (lgmin lga ins) ins r)).
Proof.
  induction ins as [|i ins IH]; intros lga A.
  - cbn [fold_left fst snd lgmin orfolds]. split; [reflexivity|].
    intros r Hr. rewrite N.lor_0_r. symmetry. apply mfold_id. exact Hr.
  - cbn [fold_left]. rewrite lgmin_cons. unfold uspec_step at 2 4. cbn [orfolds].
    destruct (in_empty i) eqn:Ei.
    + destruct (IH lga A) as [H1 H2]. split; [exact H1|].
      intros r Hr. rewrite (H2 r Hr), N.lor_0_l. reflexivity.
    + cbn [fst snd].
      set (l1 := N.min lga (fst i)).
      destruct (IH l1 (mor (mfold lga l1 A) (mfold (fst i) l1 (snd i)))) as [H1 H2].
      split; [exact H1|].
      set (lgm := lgmin l1 ins) in *.
      assert (Hle : lgm <= l1) by apply lgmin_le.
      intros r Hr. rewrite (H2 r Hr), mfold_or. unfold mor.
      rewrite (mfold_fold lga l1 lgm A ltac:(lia) ltac:(lia) r Hr).
      rewrite (mfold_fold (fst i) l1 lgm (snd i) ltac:(lia) ltac:(lia) r Hr).
      rewrite N.lor_assoc. reflexivity.
Qed.

Theorem uspec_closed : forall lg0 ins,
  fst (uspec lg0 ins) = lgmin lg0 ins /\
  mbelow (2 ^ lgmin lg0 ins) (snd (uspec lg0 ins)) (or_spec lg0 ins).
Proof.
  intros lg0 ins. unfold uspec. destruct (uspec_gen ins lg0 mzero) as [H1 H2].
  split; [exact H1|]. intros r Hr. rewrite (H2 r Hr), mfold_zero, N.lor_0_l. reflexivity.
Qed.

(* ---------- laws: order and repetition of the inputs do not matter ---------- *)
Lemma lgmin_perm : forall ins ins', Permutation ins ins' -> forall l, lgmin l ins = lgmin l ins'.
Proof.
  intros ins ins' P. induction P as [|x l l' P IH|x y l|l l' l'' P1 IH1 P2 IH2]; intros a.
  - reflexivity.
  - rewrite !lgmin_cons. apply IH.
  - rewrite !lgmin_cons. f_equal. destruct (in_empty x), (in_empty y); lia.
  - rewrite IH1. apply IH2.
Qed.

Lemma orfolds_perm : forall lgm ins ins', Permutation ins ins' -> forall r, orfolds lgm ins r = orfolds lgm ins' r.
Proof.
  intros lgm ins ins' P. induction P as [|x l l' P IH|x y l|l l' l'' P1 IH1 P2 IH2]; intros r; cbn [orfolds].
  - reflexivity.
  - rewrite IH. reflexivity.
  - rewrite !N.lor_assoc. f_equal. apply N.lor_comm.
  - rewrite IH1. apply IH2.
Qed.

Theorem or_spec_perm : forall lg0 ins ins', Permutation ins ins' ->
  lgmin lg0 ins = lgmin lg0 ins' /\ forall r, or_spec lg0 ins r = or_spec lg0 ins' r.
Proof.
  intros lg0 ins ins' P. pose proof (lgmin_perm ins ins' P lg0) as E. split; [exact E|].
  intros r. unfold or_spec. rewrite E. apply orfolds_perm. exact P.
Qed.

Theorem or_spec_dup : forall lg0 ins i, In i ins ->
  lgmin lg0 (i :: ins) = lgmin lg0 ins /\ forall r, or_spec lg0 (i :: ins) r = or_spec lg0 ins r.
Proof.
  intros lg0 ins i Hin.
  assert (E : lgmin lg0 (i :: ins) = lgmin lg0 ins).
  { rewrite lgmin_cons. destruct (in_empty i) eqn:Ei; [reflexivity|].
    rewrite lgmin_min. pose proof (lgmin_le_in ins i lg0 Hin Ei). lia. }
  split; [exact E|]. intros r. unfold or_spec. rewrite E. cbn [orfolds].
  apply N.bits_inj. intros c. rewrite N.lor_spec, orfolds_bit.
  destruct (in_empty i) eqn:Ei; [rewrite N.bits_0; reflexivity|].
  destruct (N.testbit (mfold (fst i) (lgmin lg0 ins) (snd i) r) c) eqn:Eb; [|reflexivity].
  cbn [orb]. symmetry. apply existsb_exists. exists i. split; [exact Hin|]. rewrite Ei, Eb. reflexivity.
Qed.

(* the same laws for the sequential Spec (CpcUnion::update applied input by input) *)
Theorem uspec_perm : forall lg0 ins ins', Permutation ins ins' ->
  fst (uspec lg0 ins) = fst (uspec lg0 ins') /\
  mbelow (2 ^ fst (uspec lg0 ins)) (snd (uspec lg0 ins)) (snd (uspec lg0 ins')).
Proof.
  intros lg0 ins ins' P. destruct (uspec_closed lg0 ins) as [H1 H2]. destruct (uspec_closed lg0 ins') as [H1' H2'].
  destruct (or_spec_perm lg0 ins ins' P) as [E1 E2].
  split; [congruence|]. rewrite H1. intros r Hr. rewrite (H2 r Hr), E2. symmetry. apply H2'. rewrite <- E1. exact Hr.
Qed.

Theorem uspec_idem : forall lg0 ins i, In i ins ->
  fst (uspec lg0 (ins ++ [i])) = fst (uspec lg0 ins) /\
  mbelow (2 ^ fst (uspec lg0 ins)) (snd (uspec lg0 (ins ++ [i]))) (snd (uspec lg0 ins)).
Proof.
  intros lg0 ins i Hin.
  assert (P : Permutation (ins ++ [i]) (i :: ins)) by (apply Permutation_sym, Permutation_cons_append).
  destruct (uspec_perm lg0 _ _ P) as [A1 A2].
  destruct (uspec_closed lg0 (i :: ins)) as [H1 H2]. destruct (uspec_closed lg0 ins) as [H1' H2'].
  destruct (or_spec_dup lg0 ins i Hin) as [E1 E2].
  split; [congruence|]. intros r Hr.
  rewrite (A2 r ltac:(rewrite A1, H1, E1, <- H1'; exact Hr)).
  rewrite (H2 r ltac:(rewrite E1, <- H1'; exact Hr)), E2. symmetry. apply H2'. rewrite <- H1'. exact Hr.
Qed.
