(* Count-Min serialization: round trip (C11), conformance to the cross-language layout (C12),
   the reader accepts what the layout allows (C13), never gets stuck on any bytes (C14), and
   the image size is fixed by the configuration (C18). *)
From DS Require Import Base.Prelude Base.Bytes Model.CountMin Spec.CountMinLayout.
From DS Require Gen.GenCountMin Gen.GenCodec.
From Coq Require Import ZifyBool ZifyNat ZifyN.
Open Scope N_scope.

(* ---------- well-formed (serializable) states ---------- *)
Record wfc (mx sh : N) (s : cm) : Prop := {
  w_nh : 1 <= cm_nh s < 256;
  w_nb : 3 <= cm_nb s < 4294967296;
  w_entries : cm_nh s * cm_nb s < zN GenCountMin.MAX_TABLE_ENTRIES;
  w_sh : cm_seed_hash s = sh /\ sh < 65536;
  w_mx : cm_max s = mx /\ mx < M64;
  w_total : cm_total s <= mx;
  w_cells : Forall (fun c => c <= mx) (cm_counts s);
  w_bound : Forall (fun c => c <= cm_total s) (cm_counts s);
  w_len : length (cm_counts s) = N.to_nat (cm_nh s * cm_nb s);
  w_empty : cm_total s = 0 -> cm_counts s = repeat 0 (N.to_nat (cm_nh s * cm_nb s))
}.

Lemma read_cells_flat mx : forall cs rest,
  mx < M64 -> Forall (fun c => c <= mx) cs ->
  read_cells mx (length cs) (flat_map (le_bytes 8) cs ++ rest) = Ok cs.
Proof.
  induction cs as [|c cs IH]; intros rest Hmx Hall; cbn [length read_cells flat_map]; auto.
  inversion Hall as [|? ? Hc Hall']; subst.
  rewrite <- app_assoc.
  destruct (Nat.ltb_spec (length (le_bytes 8 c ++ flat_map (le_bytes 8) cs ++ rest)) 8) as [Hl|Hl].
  { rewrite app_length, le_bytes_length in Hl. lia. }
  rewrite firstn_app_exact by apply le_bytes_length.
  rewrite skipn_app_exact by apply le_bytes_length.
  rewrite le_val_le_bytes_small by (unfold M64 in Hmx; change (256 ^ N.of_nat 8) with 18446744073709551616; lia).
  replace (mx <? c) with false by lia.
  rewrite IH by auto. reflexivity.
Qed.

Lemma flat_map_le8_length cs : length (flat_map (le_bytes 8) cs) = (8 * length cs)%nat.
Proof. induction cs as [|c cs IH]; cbn [flat_map length]; [reflexivity|]. rewrite app_length, le_bytes_length, IH. lia. Qed.

Lemma forallb_le_true t cs : Forall (fun c => c <= t) cs -> forallb (fun c => c <=? t) cs = true.
Proof. intros H. apply forallb_forall. rewrite Forall_forall in H. intros c Hc. specialize (H c Hc). lia. Qed.

Lemma forallb_le_Forall t cs : forallb (fun c => c <=? t) cs = true -> Forall (fun c => c <= t) cs.
Proof. intros H. apply Forall_forall. rewrite forallb_forall in H. intros c Hc. specialize (H c Hc). lia. Qed.

Lemma header_length s : length (cm_header s) = 16%nat.
Proof. reflexivity. Qed.

(* the sixteen header bytes, written out *)
Lemma header_explicit s :
  cm_header s =
  [ zN GenCountMin.PREAMBLE_LONGS_SHORT; zN GenCountMin.SERIAL_VERSION; zN GenCodec.FAMILY_COUNTMIN_ID;
    (if cm_is_empty s then zN GenCountMin.FLAGS_IS_EMPTY else 0); 0; 0; 0; 0;
    cm_nb s mod 256; cm_nb s / 256 mod 256; cm_nb s / 256 / 256 mod 256; cm_nb s / 256 / 256 / 256 mod 256;
    cm_nh s; cm_seed_hash s mod 256; cm_seed_hash s / 256 mod 256; 0 ].
Proof. reflexivity. Qed.

Theorem roundtrip mx sh s : wfc mx sh s -> cm_deserialize mx sh (cm_serialize s) = Ok s.
Proof.
  intros [Hnh Hnb Hent [Hsh Hshr] [Hmx Hmxr] Htot Hcells Hbound Hlen Hempty].
  unfold cm_serialize, cm_deserialize, cm_parse_header.
  set (payload := if cm_is_empty s then [] else le_bytes 8 (cm_total s) ++ flat_map (le_bytes 8) (cm_counts s)).
  rewrite header_explicit. cbn [app length nth firstn skipn Nat.ltb Nat.leb].
  rewrite !N.eqb_refl. cbn [negb].
  change [cm_nb s mod 256; cm_nb s / 256 mod 256; cm_nb s / 256 / 256 mod 256; cm_nb s / 256 / 256 / 256 mod 256]
    with (le_bytes 4 (cm_nb s)).
  change [cm_seed_hash s mod 256; cm_seed_hash s / 256 mod 256] with (le_bytes 2 (cm_seed_hash s)).
  rewrite (le_val_le_bytes_small 4) by (change (256 ^ N.of_nat 4) with 4294967296; lia).
  rewrite (le_val_le_bytes_small 2) by (change (256 ^ N.of_nat 2) with 65536; lia).
  rewrite Hsh, N.eqb_refl. cbn [negb].
  unfold entries_for_config_checked.
  replace (cm_nh s =? 0) with false by lia. replace (cm_nb s <? 3) with false by lia.
  replace (zN GenCountMin.MAX_TABLE_ENTRIES <=? cm_nh s * cm_nb s) with false by lia.
  cbn [obind]. subst payload. unfold cm_is_empty.
  destruct (N.eqb_spec (cm_total s) 0) as [Ht0|Ht0].
  - change (N.land (zN GenCountMin.FLAGS_IS_EMPTY) (zN GenCountMin.FLAGS_IS_EMPTY) =? 0) with false. cbn [negb].
    unfold cm_make. rewrite <- (Hempty Ht0). destruct s; cbn in *; subst; reflexivity.
  - change (N.land 0 (zN GenCountMin.FLAGS_IS_EMPTY) =? 0) with true. cbn [negb].
    match goal with |- context [N.of_nat ?l <? ?r] => replace (N.of_nat l <? r) with false end.
    2:{ symmetry. apply N.ltb_ge.
        change (zN GenCountMin.PREAMBLE_LONGS_SHORT) with 2. change (zN GenCountMin.LONG_SIZE_BYTES) with 8.
        rewrite app_length, le_bytes_length, flat_map_le8_length, Hlen. lia. }
    replace (S (N.to_nat (cm_nh s * cm_nb s))) with (length (cm_total s :: cm_counts s)) by (cbn [length]; lia).
    change (le_bytes 8 (cm_total s) ++ flat_map (le_bytes 8) (cm_counts s))
      with (flat_map (le_bytes 8) (cm_total s :: cm_counts s)).
    rewrite <- (app_nil_r (flat_map _ _)).
    rewrite read_cells_flat by (auto; constructor; auto).
    cbn [obind]. rewrite (forallb_le_true _ _ Hbound). destruct s; cbn in *; subst; reflexivity.
Qed.

(* ---------- C14: the reader never reaches a panic site, whatever the bytes ---------- *)
Lemma read_cells_not_stuck mx : forall n bs, read_cells mx n bs <> Stuck.
Proof.
  induction n as [|n IH]; intros bs; cbn [read_cells]; [discriminate|].
  destruct (length bs <? 8)%nat; [discriminate|]. destruct (mx <? _); [discriminate|].
  specialize (IH (skipn 8 bs)). destruct (read_cells mx n (skipn 8 bs)); cbn [obind]; congruence.
Qed.

Lemma parse_header_not_stuck sh bs : cm_parse_header sh bs <> Stuck.
Proof.
  unfold cm_parse_header.
  repeat match goal with
         | |- (if ?c then _ else _) <> _ => destruct c; [discriminate|]
         end.
  unfold entries_for_config_checked.
  destruct (_ =? 0); [cbn; discriminate|]. destruct (_ <? 3); [cbn; discriminate|].
  destruct (_ <=? _); cbn; discriminate.
Qed.

Theorem deserialize_never_stuck mx sh bs : cm_deserialize mx sh bs <> Stuck.
Proof.
  unfold cm_deserialize. pose proof (parse_header_not_stuck sh bs) as Hh.
  destruct (cm_parse_header sh bs) as [[[[nh nb] flags] entries]| |]; cbn [obind]; try congruence.
  destruct (negb _); [discriminate|]. destruct (_ <? _); [discriminate|].
  pose proof (read_cells_not_stuck mx (S (N.to_nat entries)) (skipn 16 bs)) as H.
  destruct (read_cells _ _ _) as [[|t cs]| |]; cbn [obind]; try congruence.
  destruct (forallb _ cs); congruence.
Qed.

(* whatever deserialize accepts is a table of the announced shape within the type's range *)
Lemma read_cells_ok mx : forall n bs cs, read_cells mx n bs = Ok cs ->
  length cs = n /\ Forall (fun c => c <= mx) cs /\ (8 * n <= length bs)%nat.
Proof.
  induction n as [|n IH]; intros bs cs H; cbn [read_cells] in H.
  - inversion H; subst. repeat split; auto. lia.
  - destruct (Nat.ltb_spec (length bs) 8); [discriminate|].
    destruct (N.ltb_spec mx (le_val (firstn 8 bs))); [discriminate|].
    destruct (read_cells mx n (skipn 8 bs)) as [r| |] eqn:E; cbn [obind] in H; try discriminate.
    inversion H; subst. apply IH in E as (Hl & Hf & Hb). rewrite skipn_length in Hb.
    repeat split; cbn [length]; auto; lia.
Qed.

Theorem deserialize_ok_shape mx sh bs s :
  cm_deserialize mx sh bs = Ok s ->
  cm_nh s <> 0 /\ 3 <= cm_nb s /\ cm_nh s * cm_nb s < zN GenCountMin.MAX_TABLE_ENTRIES /\
  length (cm_counts s) = N.to_nat (cm_nh s * cm_nb s) /\ Forall (fun c => c <= mx) (cm_counts s) /\
  cm_total s <= mx /\ cm_max s = mx /\ cm_seed_hash s = sh /\
  (* allocation is justified by the input unless the image is flagged empty *)
  (cm_total s <> 0 -> (16 + 8 * (1 + N.to_nat (cm_nh s * cm_nb s)) <= length bs)%nat).
Proof.
  unfold cm_deserialize, cm_parse_header.
  destruct (length bs <? 8)%nat; [discriminate|].
  destruct (negb (nth 2 bs 0 =? _)); [discriminate|].
  destruct (negb (nth 1 bs 0 =? _)); [discriminate|].
  destruct (negb (nth 0 bs 0 =? _)); [discriminate|].
  destruct (Nat.ltb_spec (length bs) 16) as [|Hlen16]; [discriminate|].
  destruct (N.eqb_spec (le_val (firstn 2 (skipn 13 bs))) sh) as [Hsh|]; cbn [negb]; [|discriminate].
  set (nh := nth 12 bs 0). set (nb := le_val (firstn 4 (skipn 8 bs))).
  unfold entries_for_config_checked.
  destruct (N.eqb_spec nh 0); [cbn [obind]; discriminate|].
  destruct (N.ltb_spec nb 3); [cbn [obind]; discriminate|].
  destruct (N.leb_spec (zN GenCountMin.MAX_TABLE_ENTRIES) (nh * nb)); [cbn [obind]; discriminate|].
  cbn [obind]. destruct (negb _).
  - intros Hq. injection Hq as <-. unfold cm_make; cbn [cm_nh cm_nb cm_max cm_seed_hash cm_total cm_counts].
    rewrite repeat_length. repeat split; auto; try lia; try congruence.
    apply Forall_forall. intros c Hc. apply repeat_spec in Hc. lia.
  - destruct (_ <? _); [discriminate|].
    destruct (read_cells mx (S (N.to_nat (nh * nb))) (skipn 16 bs)) as [[|t cs]| |] eqn:E; cbn [obind]; try discriminate.
    destruct (forallb (fun c => c <=? t) cs) eqn:Efb; [|discriminate].
    intros Hq. injection Hq as <-. apply read_cells_ok in E as (Hl & Hf & Hb).
    cbn [length] in Hl. inversion Hf; subst. rewrite skipn_length in Hb.
    cbn [cm_nh cm_nb cm_max cm_seed_hash cm_total cm_counts].
    repeat split; auto; try lia.
Qed.

(* ... and every counter it holds is bounded by its total weight (checked by the repaired reader:
   this is the invariant under which updates and merges cannot overflow while the total fits) *)
Theorem deserialize_ok_bounded mx sh bs s :
  cm_deserialize mx sh bs = Ok s -> Forall (fun c => c <= cm_total s) (cm_counts s).
Proof.
  unfold cm_deserialize.
  destruct (cm_parse_header sh bs) as [[[[nh nb] flags] entries]| |]; cbn [obind]; try discriminate.
  destruct (negb _).
  - intros Hq. injection Hq as <-. unfold cm_make; cbn [cm_total cm_counts].
    apply Forall_forall. intros c Hc. apply repeat_spec in Hc. lia.
  - destruct (_ <? _); [discriminate|].
    destruct (read_cells mx _ _) as [[|t cs]| |]; cbn [obind]; try discriminate.
    destruct (forallb (fun c => c <=? t) cs) eqn:Efb; [|discriminate].
    intros Hq. injection Hq as <-. cbn [cm_total cm_counts]. apply forallb_le_Forall. exact Efb.
Qed.

(* ---------- C12: the layout specification, written from the format description ---------- *)
Definition abs_of (s : cm) : cm_abs := mkAbs (cm_nb s) (cm_nh s) (cm_seed_hash s) (cm_total s) (cm_counts s).

Lemma spec_cells_flat : forall cs rest,
  Forall (fun c => c < M64) cs ->
  spec_cells (length cs) (flat_map (le_bytes 8) cs ++ rest) = Some cs.
Proof.
  induction cs as [|c cs IH]; intros rest Hall; cbn [length spec_cells flat_map]; auto.
  inversion Hall as [|? ? Hc Hall']; subst. rewrite <- app_assoc.
  destruct (Nat.ltb_spec (length (le_bytes 8 c ++ flat_map (le_bytes 8) cs ++ rest)) 8) as [H|H].
  { rewrite app_length, le_bytes_length in H. lia. }
  rewrite firstn_app_exact by apply le_bytes_length.
  rewrite skipn_app_exact by apply le_bytes_length.
  rewrite IH by auto.
  rewrite le_val_le_bytes_small by (unfold M64 in Hc; change (256 ^ N.of_nat 8) with 18446744073709551616; lia).
  reflexivity.
Qed.

(* the glue: the translated constants are the specification's *)
Lemma layout_constants :
  zN GenCountMin.PREAMBLE_LONGS_SHORT = 2 /\ zN GenCountMin.SERIAL_VERSION = 1 /\
  zN GenCodec.FAMILY_COUNTMIN_ID = 18 /\ zN GenCountMin.FLAGS_IS_EMPTY = 1 /\ zN GenCountMin.LONG_SIZE_BYTES = 8.
Proof. repeat split; reflexivity. Qed.

Theorem writer_conforms mx sh s : wfc mx sh s -> spec_decode (cm_serialize s) = Some (abs_of s).
Proof.
  intros [Hnh Hnb Hent [Hsh Hshr] [Hmx Hmxr] Htot Hcells Hbound Hlen Hempty].
  destruct layout_constants as (Hp & Hv & Hf & Hfl & _).
  unfold cm_serialize, spec_decode. rewrite header_explicit. rewrite Hp, Hv, Hf, Hfl.
  cbn [app length nth firstn skipn Nat.ltb Nat.leb]. rewrite !N.eqb_refl. cbn [andb negb].
  change [cm_nb s mod 256; cm_nb s / 256 mod 256; cm_nb s / 256 / 256 mod 256; cm_nb s / 256 / 256 / 256 mod 256]
    with (le_bytes 4 (cm_nb s)).
  change [cm_seed_hash s mod 256; cm_seed_hash s / 256 mod 256] with (le_bytes 2 (cm_seed_hash s)).
  rewrite (le_val_le_bytes_small 4) by (change (256 ^ N.of_nat 4) with 4294967296; lia).
  rewrite (le_val_le_bytes_small 2) by (change (256 ^ N.of_nat 2) with 65536; lia).
  unfold cm_is_empty, abs_of.
  destruct (N.eqb_spec (cm_total s) 0) as [Ht0|Ht0].
  - change (N.testbit 1 0) with true. cbn iota. rewrite Ht0, <- (Hempty Ht0). reflexivity.
  - change (N.testbit 0 0) with false. cbn iota.
    replace (S (N.to_nat (cm_nh s * cm_nb s))) with (length (cm_total s :: cm_counts s)) by (cbn [length]; lia).
    change (le_bytes 8 (cm_total s) ++ flat_map (le_bytes 8) (cm_counts s))
      with (flat_map (le_bytes 8) (cm_total s :: cm_counts s)).
    rewrite <- (app_nil_r (flat_map _ _)).
    rewrite spec_cells_flat; [reflexivity|].
    constructor; [lia|]. eapply Forall_impl; [|exact Hcells]. cbn. intros; lia.
Qed.

(* ---------- C18: image size is a function of the configuration only ---------- *)

Theorem image_size s :
  length (cm_counts s) = N.to_nat (cm_nh s * cm_nb s) ->
  length (cm_serialize s) = if cm_is_empty s then 16%nat else (16 + 8 + 8 * N.to_nat (cm_nh s * cm_nb s))%nat.
Proof.
  intros Hl. unfold cm_serialize. rewrite app_length, header_length.
  destruct (cm_is_empty s); cbn [length]; [lia|].
  rewrite app_length, le_bytes_length, flat_map_le8_length, Hl. lia.
Qed.

(* ---------- reachable states are well-formed, so the round trip applies to them ---------- *)
From DS Require Import Proofs.CountMinProofs.

Lemma all_nth_zero_repeat : forall (l : list N) n, length l = n -> (forall i, (i < n)%nat -> nth i l 0 = 0) -> l = repeat 0 n.
Proof.
  induction l as [|x l IH]; intros n Hl Hz; cbn in Hl; subst n; [reflexivity|].
  cbn [repeat]. f_equal.
  - apply (Hz 0%nat). lia.
  - apply IH; [reflexivity|]. intros i Hi. apply (Hz (S i)). lia.
Qed.

Lemma Forall_nth_le (l : list N) (m : N) : (forall i, (i < length l)%nat -> nth i l 0 <= m) -> Forall (fun c => c <= m) l.
Proof.
  induction l as [|x l IH]; intros H; constructor.
  - apply (H 0%nat). cbn. lia.
  - apply IH. intros i Hi. apply (H (S i)). cbn. lia.
Qed.

Theorem reachable_wfc nh nb mx sh (bucket : N -> N -> N) s h :
  1 <= nh < 256 -> 3 <= nb < 4294967296 -> nh * nb < zN GenCountMin.MAX_TABLE_ENTRIES ->
  sh < 65536 -> mx < M64 -> weight h <= mx -> (forall x r, bucket x r < nb) ->
  Rep nh nb mx sh bucket s h -> wfc mx sh s.
Proof.
  intros Hnh Hnb Hent Hsh Hmx Hfit Hbr ((En & Eb & Em & Es & Hlen) & Ht & Hc).
  assert (Hcell : forall i, (i < length (cm_counts s))%nat -> nth i (cm_counts s) 0 <= cm_total s).
  { intros i Hi. rewrite Hlen in Hi.
    set (r := N.of_nat i / nb). set (b := N.of_nat i mod nb).
    assert (Hr : r < nh) by (subst r; apply N.div_lt_upper_bound; lia).
    assert (Hb : b < nb) by (subst b; apply N.mod_lt; lia).
    assert (Hi' : N.of_nat i = r * nb + b) by (subst r b; rewrite (N.mul_comm _ nb); apply N.div_mod').
    pose proof (Hc r b Hr Hb) as E. unfold cell, nthN in E. rewrite <- Hi', Nat2N.id in E.
    rewrite E, Ht. apply (cell_le_weight nb ltac:(lia) bucket Hbr). }
  constructor; rewrite ?En, ?Eb; auto; try lia.
  - apply Forall_nth_le. intros i Hi. specialize (Hcell i Hi). lia.
  - apply Forall_nth_le. intros i Hi. exact (Hcell i Hi).
  - intros Ht0. apply all_nth_zero_repeat; [exact Hlen|].
    intros i Hi. rewrite <- Hlen in Hi. specialize (Hcell i Hi). lia.
Qed.

(* ---------- C13: every image a foreign writer can emit is read back to the state it encodes ---------- *)
Definition state_of (mx : N) (a : cm_abs) : cm :=
  mkCm (a_nh a) (a_nb a) mx (a_sh a) (a_total a) (a_cells a).

Lemma abs_ok_wfc mx sh a : abs_ok mx sh a -> wfc mx sh (state_of mx a).
Proof.
  intros (Hnh & Hnb & Hent & Hsh & Hshr & Hmx & Htot & Hcells & Hbound & Hlen & Hempty).
  constructor; cbn [state_of cm_nh cm_nb cm_max cm_seed_hash cm_total cm_counts]; auto; unfold M64; try lia.
Qed.

Lemma land1_flag f hi : hi mod 2 = 0 -> f < 2 -> N.land (f + hi) 1 = f.
Proof.
  intros Hhi Hf. change 1 with (N.ones 1). rewrite N.land_ones. change (2 ^ 1) with 2.
  rewrite N.add_mod, Hhi, N.add_0_r, N.mod_mod, N.mod_small by lia. reflexivity.
Qed.

Lemma testbit0_flag f hi : hi mod 2 = 0 -> f < 2 -> N.testbit (f + hi) 0 = (f =? 1).
Proof.
  intros Hhi Hf. rewrite N.bit0_odd. rewrite <- N.negb_even.
  rewrite N.even_add. replace (N.even hi) with true.
  2:{ symmetry. apply N.even_spec. exists (hi / 2). pose proof (N.div_mod hi 2 ltac:(lia)). lia. }
  assert (f = 0 \/ f = 1) as [->| ->] by lia; reflexivity.
Qed.

(* the sixteen header bytes of a foreign image, written out *)
Lemma spec_header_explicit v a payload :
  [2; 1; 18; (if a_total a =? 0 then 1 else 0) + v_flag_hi v]
  ++ le_bytes 4 (v_unused32 v) ++ le_bytes 4 (a_nb a) ++ [a_nh a] ++ le_bytes 2 (a_sh a) ++ [v_unused8 v] ++ payload =
  [2; 1; 18; (if a_total a =? 0 then 1 else 0) + v_flag_hi v;
   v_unused32 v mod 256; v_unused32 v / 256 mod 256; v_unused32 v / 256 / 256 mod 256; v_unused32 v / 256 / 256 / 256 mod 256;
   a_nb a mod 256; a_nb a / 256 mod 256; a_nb a / 256 / 256 mod 256; a_nb a / 256 / 256 / 256 mod 256;
   a_nh a; a_sh a mod 256; a_sh a / 256 mod 256; v_unused8 v] ++ payload.
Proof. reflexivity. Qed.

Theorem foreign_read mx sh v a :
  variant_ok v -> abs_ok mx sh a ->
  cm_deserialize mx sh (spec_encode v a) = Ok (state_of mx a).
Proof.
  intros (_ & _ & Hhi & Hev) (Hnh & Hnb & Hent & Hsh & Hshr & Hmx & Htot & Hcells & Hbound & Hlen & Hempty).
  unfold spec_encode.
  set (payload := if a_total a =? 0 then [] else le_bytes 8 (a_total a) ++ flat_map (le_bytes 8) (a_cells a)).
  repeat rewrite <- app_assoc. rewrite spec_header_explicit.
  unfold cm_deserialize, cm_parse_header.
  destruct layout_constants as (Hp & Hv & Hf & Hfl & Hl8). rewrite Hp, Hv, Hf, Hfl, Hl8.
  cbn [app length nth firstn skipn Nat.ltb Nat.leb]. rewrite !N.eqb_refl. cbn [negb].
  change [a_nb a mod 256; a_nb a / 256 mod 256; a_nb a / 256 / 256 mod 256; a_nb a / 256 / 256 / 256 mod 256]
    with (le_bytes 4 (a_nb a)).
  change [a_sh a mod 256; a_sh a / 256 mod 256] with (le_bytes 2 (a_sh a)).
  rewrite (le_val_le_bytes_small 4) by (change (256 ^ N.of_nat 4) with 4294967296; lia).
  rewrite (le_val_le_bytes_small 2) by (change (256 ^ N.of_nat 2) with 65536; lia).
  rewrite Hsh, N.eqb_refl. cbn [negb].
  unfold entries_for_config_checked.
  replace (a_nh a =? 0) with false by lia. replace (a_nb a <? 3) with false by lia.
  replace (zN GenCountMin.MAX_TABLE_ENTRIES <=? a_nh a * a_nb a) with false
    by (change (zN GenCountMin.MAX_TABLE_ENTRIES) with 1073741824; lia).
  cbn [obind]. subst payload.
  destruct (N.eqb_spec (a_total a) 0) as [Ht0|Ht0].
  - rewrite land1_flag by (auto; lia). cbn [N.eqb negb]. change (1 =? 0) with false. cbn [negb].
    unfold cm_make, state_of. rewrite Ht0, (Hempty Ht0), <- Hsh. reflexivity.
  - rewrite land1_flag by (auto; lia). rewrite N.eqb_refl. cbn [negb].
    match goal with |- context [N.of_nat ?l <? ?r] => replace (N.of_nat l <? r) with false end.
    2:{ symmetry. apply N.ltb_ge. rewrite app_length, le_bytes_length, flat_map_le8_length, Hlen. lia. }
    replace (S (N.to_nat (a_nh a * a_nb a))) with (length (a_total a :: a_cells a)) by (cbn [length]; lia).
    change (le_bytes 8 (a_total a) ++ flat_map (le_bytes 8) (a_cells a))
      with (flat_map (le_bytes 8) (a_total a :: a_cells a)).
    rewrite <- (app_nil_r (flat_map _ _)).
    rewrite read_cells_flat by (unfold M64; auto; constructor; auto).
    cbn [obind]. rewrite (forallb_le_true _ _ Hbound). unfold state_of. rewrite <- Hsh. reflexivity.
Qed.

(* the abstraction of the decoded sketch is the encoded state, and re-serializing it gives the
   canonical image of that state (the unused fields zeroed) *)
Lemma abs_state_of mx a : abs_of (state_of mx a) = a.
Proof. destruct a; reflexivity. Qed.

Lemma reserialize_canonical mx a : cm_serialize (state_of mx a) = spec_encode canonical_variant a.
Proof.
  unfold cm_serialize, spec_encode, cm_header, cm_is_empty, canonical_variant.
  cbn [state_of cm_nh cm_nb cm_max cm_seed_hash cm_total cm_counts v_unused32 v_unused8 v_flag_hi].
  destruct layout_constants as (Hp & Hv & Hf & Hfl & _). rewrite Hp, Hv, Hf, Hfl.
  destruct (a_total a =? 0); rewrite ?N.add_0_r; repeat rewrite <- app_assoc; reflexivity.
Qed.

(* the layout specification is self-consistent: its decoder inverts its encoder on every variant *)
Theorem spec_decode_encode mx sh v a :
  variant_ok v -> abs_ok mx sh a -> spec_decode (spec_encode v a) = Some a.
Proof.
  intros (_ & _ & Hhi & Hev) (Hnh & Hnb & Hent & Hsh & Hshr & Hmx & Htot & Hcells & Hbound & Hlen & Hempty).
  unfold spec_encode.
  set (payload := if a_total a =? 0 then [] else le_bytes 8 (a_total a) ++ flat_map (le_bytes 8) (a_cells a)).
  repeat rewrite <- app_assoc. rewrite spec_header_explicit. unfold spec_decode.
  cbn [app length nth firstn skipn Nat.ltb Nat.leb]. rewrite !N.eqb_refl. cbn [andb negb].
  change [a_nb a mod 256; a_nb a / 256 mod 256; a_nb a / 256 / 256 mod 256; a_nb a / 256 / 256 / 256 mod 256]
    with (le_bytes 4 (a_nb a)).
  change [a_sh a mod 256; a_sh a / 256 mod 256] with (le_bytes 2 (a_sh a)).
  rewrite (le_val_le_bytes_small 4) by (change (256 ^ N.of_nat 4) with 4294967296; lia).
  rewrite (le_val_le_bytes_small 2) by (change (256 ^ N.of_nat 2) with 65536; lia).
  subst payload.
  destruct (N.eqb_spec (a_total a) 0) as [Ht0|Ht0].
  - rewrite testbit0_flag by (auto; lia). cbn [N.eqb]. rewrite N.eqb_refl.
    rewrite <- (Hempty Ht0), <- Ht0. destruct a; reflexivity.
  - rewrite testbit0_flag by (auto; lia). change (0 =? 1) with false. cbn iota.
    replace (S (N.to_nat (a_nh a * a_nb a))) with (length (a_total a :: a_cells a)) by (cbn [length]; lia).
    change (le_bytes 8 (a_total a) ++ flat_map (le_bytes 8) (a_cells a))
      with (flat_map (le_bytes 8) (a_total a :: a_cells a)).
    rewrite <- (app_nil_r (flat_map _ _)).
    rewrite spec_cells_flat; [destruct a; reflexivity|].
    constructor; [unfold M64; lia|]. eapply Forall_impl; [|exact Hcells]. cbn. intros; unfold M64; lia.
Qed.

(* boolean admissibility used by the oracle implies the propositional one (given the type's range) *)
Lemma abs_okb_ok mx sh a : sh < 65536 -> mx < 18446744073709551616 -> abs_okb mx sh a = true -> abs_ok mx sh a.
Proof.
  intros Hsh Hmx H. unfold abs_okb in H.
  repeat match goal with Hc : _ && _ = true |- _ => apply andb_prop in Hc as [? ?] end.
  assert (Hall : Forall (fun c => c <= mx) (a_cells a)) by (apply forallb_le_Forall; assumption).
  assert (Hbnd : Forall (fun c => c <= a_total a) (a_cells a)) by (apply forallb_le_Forall; assumption).
  assert (Hlen : length (a_cells a) = N.to_nat (a_nh a * a_nb a)) by (apply Nat.eqb_eq; assumption).
  assert (Hemp : a_total a = 0 -> a_cells a = repeat 0 (N.to_nat (a_nh a * a_nb a))).
  { intros Ht0.
    match goal with Ho : negb _ || _ = true |- _ => apply Bool.orb_prop in Ho as [Ho|Ho]; [lia|]; rename Ho into H0 end.
    rewrite <- Hlen. clear -H0.
    induction (a_cells a) as [|c l IH]; [reflexivity|]. cbn [forallb] in H0. apply andb_prop in H0 as [Hc Hl].
    cbn [length repeat]. f_equal; [lia|auto]. }
  unfold abs_ok. repeat split; auto; lia.
Qed.

Theorem foreign_read_full mx sh v a :
  variant_ok v -> abs_ok mx sh a ->
  exists s, cm_deserialize mx sh (spec_encode v a) = Ok s /\ abs_of s = a /\ wfc mx sh s /\
            cm_serialize s = spec_encode canonical_variant a.
Proof.
  intros Hv Ha. exists (state_of mx a).
  split; [exact (foreign_read mx sh v a Hv Ha)|]. split; [exact (abs_state_of mx a)|].
  split; [exact (abs_ok_wfc mx sh a Ha)|exact (reserialize_canonical mx a)].
Qed.

(* ---------- the reader of the signed counter types ---------- *)
Lemma read_cells_sg_not_stuck sg mx : forall n bs, read_cells_sg sg mx n bs <> Stuck.
Proof.
  induction n as [|n IH]; intros bs; cbn [read_cells_sg]; [discriminate|].
  destruct (length bs <? 8)%nat; [discriminate|]. destruct (negb _); [discriminate|].
  specialize (IH (skipn 8 bs)). destruct (read_cells_sg sg mx n (skipn 8 bs)); cbn [obind]; congruence.
Qed.

Theorem deserialize_sg_never_stuck sg mx sh bs : cm_deserialize_sg sg mx sh bs <> Stuck.
Proof.
  unfold cm_deserialize_sg. pose proof (parse_header_not_stuck sh bs) as Hh.
  destruct (cm_parse_header sh bs) as [[[[nh nb] flags] entries]| |]; cbn [obind]; try congruence.
  destruct (negb (N.land _ _ =? 0)); [discriminate|]. destruct (_ <? _); [discriminate|].
  pose proof (read_cells_sg_not_stuck sg mx (S (N.to_nat entries)) (skipn 16 bs)) as H.
  destruct (read_cells_sg _ _ _ _) as [[|t cs]| |]; cbn [obind]; try congruence.
  destruct (is_neg sg t); [discriminate|]. destruct (negb (forallb _ cs)); [discriminate|].
  destruct (existsb _ cs); discriminate.
Qed.

(* cells that are not negative are read exactly as the plain reader reads them *)
Lemma read_cells_sg_plain sg mx : forall n bs cs,
  read_cells_sg sg mx n bs = Ok cs -> existsb (is_neg sg) cs = false -> read_cells mx n bs = Ok cs.
Proof.
  induction n as [|n IH]; intros bs cs H Hn; cbn [read_cells_sg read_cells] in *; [exact H|].
  destruct (length bs <? 8)%nat; [discriminate|].
  remember (le_val (firstn 8 bs)) as v eqn:Ev. clear Ev.
  destruct (cell_in_range sg mx v) eqn:Er; cbn [negb] in H; [|discriminate].
  destruct (read_cells_sg sg mx n (skipn 8 bs)) as [r| |] eqn:E; cbn [obind] in H; try discriminate.
  injection H as <-. cbn [existsb] in Hn. apply Bool.orb_false_elim in Hn as [Hv Hr].
  unfold cell_in_range in Er. rewrite Hv in Er. cbn [andb] in Er. rewrite Bool.orb_false_r in Er.
  replace (mx <? v) with false by lia.
  rewrite (IH _ _ E Hr). reflexivity.
Qed.

Lemma read_cells_plain_sg sg mx : forall n bs cs,
  read_cells mx n bs = Ok cs -> read_cells_sg sg mx n bs = Ok cs.
Proof.
  induction n as [|n IH]; intros bs cs H; cbn [read_cells_sg read_cells] in *; [exact H|].
  destruct (length bs <? 8)%nat; [discriminate|].
  remember (le_val (firstn 8 bs)) as v eqn:Ev. clear Ev.
  destruct (N.ltb_spec mx v); [discriminate|].
  destruct (read_cells mx n (skipn 8 bs)) as [r| |] eqn:E; cbn [obind] in H; try discriminate.
  injection H as <-. unfold cell_in_range. replace (v <=? mx) with true by lia. cbn [orb negb].
  rewrite (IH _ _ E). reflexivity.
Qed.

Lemma forallb_bound_plain sg t cs :
  existsb (is_neg sg) cs = false -> forallb (cell_in_bound sg t) cs = forallb (fun c => c <=? t) cs.
Proof.
  induction cs as [|c cs IH]; cbn [existsb forallb]; [reflexivity|]. intros H.
  apply Bool.orb_false_elim in H as [Hc Hr]. unfold cell_in_bound at 1. rewrite Hc, (IH Hr). reflexivity.
Qed.

(* what the signed reader keeps is exactly what the plain reader returns ... *)
Theorem deserialize_sg_some sg mx sh bs s :
  cm_deserialize_sg sg mx sh bs = Ok (Some s) -> cm_deserialize mx sh bs = Ok s.
Proof.
  unfold cm_deserialize_sg, cm_deserialize.
  destruct (cm_parse_header sh bs) as [[[[nh nb] flags] entries]| |]; cbn [obind]; try discriminate.
  destruct (negb (N.land _ _ =? 0)); [intros H; injection H as <-; reflexivity|].
  destruct (_ <? _); [discriminate|].
  destruct (read_cells_sg sg mx _ _) as [[|t cs]| |] eqn:E; cbn [obind]; try discriminate.
  destruct (is_neg sg t) eqn:Et; [discriminate|].
  destruct (forallb (cell_in_bound sg t) cs) eqn:Eb; cbn [negb]; [|discriminate].
  destruct (existsb (is_neg sg) cs) eqn:En; [discriminate|].
  intros H; injection H as <-.
  rewrite (read_cells_sg_plain sg mx _ _ _ E) by (cbn [existsb]; rewrite Et, En; reflexivity).
  cbn [obind]. rewrite <- (forallb_bound_plain sg t cs En), Eb. reflexivity.
Qed.

(* ... and conversely, when the counter type's maximum is below 2^63 whenever it is signed *)
Theorem deserialize_plain_sg sg mx sh bs s :
  (sg = true -> mx < 9223372036854775808) ->
  cm_deserialize mx sh bs = Ok s -> cm_deserialize_sg sg mx sh bs = Ok (Some s).
Proof.
  intros Hs. unfold cm_deserialize_sg, cm_deserialize.
  destruct (cm_parse_header sh bs) as [[[[nh nb] flags] entries]| |]; cbn [obind]; try discriminate.
  destruct (negb (N.land _ _ =? 0)); [intros H; injection H as <-; reflexivity|].
  destruct (_ <? _); [discriminate|].
  destruct (read_cells mx _ _) as [[|t cs]| |] eqn:E; cbn [obind]; try discriminate.
  destruct (forallb (fun c => c <=? t) cs) eqn:Eb; [|discriminate].
  intros H; injection H as <-.
  rewrite (read_cells_plain_sg sg mx _ _ _ E). cbn [obind].
  apply read_cells_ok in E as (_ & Hf & _). inversion Hf as [|? ? Ht Hcs]; subst.
  assert (Hnn : forall v, v <= mx -> is_neg sg v = false).
  { intros v Hv. unfold is_neg. destruct sg; [|reflexivity]. cbn [andb]. specialize (Hs eq_refl). lia. }
  rewrite (Hnn t Ht).
  assert (En : existsb (is_neg sg) cs = false).
  { clear -Hcs Hnn. induction Hcs as [|c cs Hc _ IH]; [reflexivity|]. cbn [existsb]. rewrite (Hnn c Hc), IH. reflexivity. }
  rewrite (forallb_bound_plain sg t cs En), Eb, En. reflexivity.
Qed.

(* for the unsigned types the two readers are the same function *)
Theorem deserialize_sg_unsigned mx sh bs :
  cm_deserialize_sg false mx sh bs = match cm_deserialize mx sh bs with Ok s => Ok (Some s) | Err => Err | Stuck => Stuck end.
Proof.
  destruct (cm_deserialize mx sh bs) as [s| |] eqn:E.
  - apply deserialize_plain_sg; [discriminate|exact E].
  - destruct (cm_deserialize_sg false mx sh bs) as [[s|]| |] eqn:E2; try reflexivity.
    + apply deserialize_sg_some in E2. congruence.
    + exfalso. revert E2. unfold cm_deserialize_sg.
      destruct (cm_parse_header sh bs) as [[[[nh nb] flags] entries]| |]; cbn [obind]; try discriminate.
      destruct (negb (N.land _ _ =? 0)); [discriminate|]. destruct (_ <? _); [discriminate|].
      destruct (read_cells_sg false mx _ _) as [[|t cs]| |]; cbn [obind]; try discriminate.
      cbn [is_neg andb]. destruct (negb _); [discriminate|].
      replace (existsb (is_neg false) cs) with false; [discriminate|].
      clear. induction cs as [|c cs IH]; [reflexivity|]. cbn [existsb is_neg andb orb]. exact IH.
    + exfalso. exact (deserialize_sg_never_stuck false mx sh bs E2).
  - exfalso. exact (deserialize_never_stuck mx sh bs E).
Qed.

Theorem deserialize_sg_agrees sg mx sh bs s :
  (sg = true -> mx < 9223372036854775808) ->
  (cm_deserialize_sg sg mx sh bs = Ok (Some s) <-> cm_deserialize mx sh bs = Ok s).
Proof. intros Hs. split; [apply deserialize_sg_some|apply deserialize_plain_sg; exact Hs]. Qed.
