(* HLL layout conformance (C12): the independent decoder of Spec/HllLayout.v applied to the image the
   modelled writer emits recovers the abstract state of the sketch. *)
From DS Require Import Base.Prelude Base.Bytes Base.FloatBits Base.HllSort Model.Hll Model.HllUnion Model.HllCodec Spec.HllLayout
  Proofs.HllBase Proofs.HllArray8 Proofs.HllArray6 Proofs.HllOpenAddr Proofs.HllSet Proofs.HllAux Proofs.HllArray4
  Proofs.HllRefine Proofs.HllUnionProofs Proofs.HllCodecProofs.
From DS Require Gen.GenHll Gen.GenCodec.
From Coq Require Import ZifyBool ZifyNat ZifyN Permutation.
Open Scope N_scope.
Ltac Zify.zify_post_hook ::= Z.div_mod_to_equations.

(* ---------- reading inside concatenations ---------- *)
Lemma lseq_Nseq : forall n s, lseq s n = Nseq s n.
Proof. induction n; intros s; cbn [lseq Nseq]; [reflexivity|now rewrite IHn]. Qed.

Lemma skipn_app_len : forall {A} (p q : list A) n, length p = n -> skipn n (p ++ q) = q.
Proof. intros A p q n <-. apply skipn_app_exact. reflexivity. Qed.

Lemma skipn_app_plus : forall {A} (p q : list A) m, skipn (length p + m) (p ++ q) = skipn m q.
Proof. induction p as [|x p IH]; intros q m; cbn [length plus app skipn]; [reflexivity|apply IH]. Qed.

Lemma sub_app_skip : forall p q off len, HllLayout.sub (p ++ q) (N.of_nat (length p) + off) len = HllLayout.sub q off len.
Proof.
  intros p q off len. unfold HllLayout.sub. f_equal.
  replace (N.to_nat (N.of_nat (length p) + off)) with (length p + N.to_nat off)%nat by lia. apply skipn_app_plus.
Qed.

Lemma byte_at_app_skip : forall p q i, byte_at (p ++ q) (N.of_nat (length p) + i) = byte_at q i.
Proof.
  intros p q i. unfold byte_at. replace (N.to_nat (N.of_nat (length p) + i)) with (length p + N.to_nat i)%nat by lia.
  rewrite app_nth2 by lia. f_equal. lia.
Qed.

Lemma byte_at_app_l : forall p q i, i < N.of_nat (length p) -> byte_at (p ++ q) i = byte_at p i.
Proof. intros p q i H. unfold byte_at. apply app_nth1. lia. Qed.

Lemma sub_u32s : forall l i rest, (i < length l)%nat -> HllLayout.sub (u32s l ++ rest) (4 * N.of_nat i) 4 = le_bytes 4 (nth i l 0).
Proof.
  induction l as [|c l IH]; intros i rest Hi; cbn [length] in Hi; [lia|]. cbn [u32s flat_map]. fold (u32s l). rewrite <- app_assoc.
  destruct i as [|i].
  - cbn [nth]. unfold HllLayout.sub. cbn [N.of_nat N.mul N.to_nat skipn]. replace (N.to_nat (4 * 0)) with 0%nat by lia. cbn [skipn].
    apply (firstn_app_exact (le_bytes 4 c) _ 4 (le_bytes_length 4 c)).
  - cbn [nth]. replace (4 * N.of_nat (S i)) with (N.of_nat (length (le_bytes 4 c)) + 4 * N.of_nat i) by (rewrite le_bytes_length; lia).
    rewrite sub_app_skip. apply IH. lia.
Qed.

Lemma u32_list_u32s : forall hdr l rest, (forall c, In c l -> c < 2 ^ 32) ->
  u32_list (hdr ++ u32s l ++ rest) (N.of_nat (length hdr)) (N.of_nat (length l)) = l.
Proof.
  intros hdr l rest H. unfold u32_list. rewrite Nat2N.id, lseq_Nseq.
  rewrite <- (list_nth_Nseq l) at 2. apply map_ext_in. intros i Hi. apply Nseq_In in Hi.
  unfold u32_at. rewrite sub_app_skip. replace i with (N.of_nat (N.to_nat i)) at 1 by lia.
  rewrite sub_u32s by lia. apply le_bytes4_val. apply H. apply nth_In. lia.
Qed.

Lemma filter_negb_eqb0_id : forall l, ~ In 0 l -> filter (fun c => negb (c =? 0)) l = l.
Proof.
  induction l as [|c l IH]; intros H; cbn [filter]; [reflexivity|].
  replace (negb (c =? 0)) with true by (assert (c <> 0) by (intros ->; apply H; now left); lia).
  f_equal. apply IH. intros H0. apply H. now right.
Qed.

Lemma tgt_num_lt3 : forall t, tgt_num t < 3. Proof. destruct t; vm_compute; reflexivity. Qed.

Lemma mode_byte_mod : forall cur t, cur < 3 -> mode_byte cur t mod 4 = cur /\ (mode_byte cur t / 4) mod 4 = tgt_num t.
Proof.
  intros cur t H. assert (Hc : cur = 0 \/ cur = 1 \/ cur = 2) by lia.
  destruct Hc as [ -> | [ -> | -> ] ]; destruct t; vm_compute; split; reflexivity.
Qed.

(* ---------- list images ---------- *)
Lemma list_image_conforms : forall lgk t (l : hlist) ds, 4 <= lgk <= 21 -> ListInv l ds -> (length ds < 8)%nat ->
  Forall valid ds ->
  hll_spec_decode (list_serialize l lgk t) = Some (mkImg lgk (tgt_num t) 0 false ds [] 0 0 0 0 0 []).
Proof.
  intros lgk t l ds Hlg HL Hlen Hv. pose proof HL as (Hc & Hl & Hnd & H0 & _ & Hl3).
  destruct (mode_byte_mod MODE_LIST t ltac:(vm_compute; reflexivity)) as (Hm1 & Hm2). pose proof (tgt_num_lt3 t) as Ht3.
  unfold list_serialize. rewrite Hl3, Hc, (filter_nonzero_app_zeros ds _ H0), Hl, Nat2N.id, firstn_all.
  replace (3 mod 256) with 3 by reflexivity. replace (N.of_nat (length ds) mod 256) with (N.of_nat (length ds)) by (symmetry; apply N.mod_small; lia).
  unfold hll_spec_decode.
  set (hdr := [LIST_PREINTS; SER_VER; FAMILY_HLL; lgk; 3; N.lor (if N.of_nat (length ds) =? 0 then EMPTY_FLAG else 0) COMPACT_FLAG;
               N.of_nat (length ds); mode_byte MODE_LIST t]).
  set (body := if N.of_nat (length ds) =? 0 then [] else u32s ds).
  assert (Hhl : length hdr = 8%nat) by reflexivity.
  assert (Hhas8 : has (hdr ++ body) 8 = true) by (unfold has; rewrite app_length, Hhl; lia).
  rewrite Hhas8. cbn [negb].
  assert (Hb : forall i, i < 8 -> byte_at (hdr ++ body) i = byte_at hdr i) by (intros i Hi; apply byte_at_app_l; rewrite Hhl; lia).
  cbv zeta. rewrite !Hb by lia.
  replace (byte_at hdr 0) with LIST_PREINTS by reflexivity. replace (byte_at hdr 1) with SER_VER by reflexivity.
  replace (byte_at hdr 2) with FAMILY_HLL by reflexivity. replace (byte_at hdr 3) with lgk by reflexivity.
  replace (byte_at hdr 4) with 3 by reflexivity.
  replace (byte_at hdr 5) with (N.lor (if N.of_nat (length ds) =? 0 then EMPTY_FLAG else 0) COMPACT_FLAG) by reflexivity.
  replace (byte_at hdr 6) with (N.of_nat (length ds)) by reflexivity.
  replace (byte_at hdr 7) with (mode_byte MODE_LIST t) by reflexivity.
  rewrite Hm1, Hm2. change (SER_VER =? L_SER_VER) with true. change (FAMILY_HLL =? L_FAMILY) with true. cbn [andb].
  replace ((4 <=? lgk) && (lgk <=? 21) && (tgt_num t <? 3)) with true by lia. cbn [andb negb].
  change (MODE_LIST =? L_MODE_LIST) with true. cbv iota. change (LIST_PREINTS =? L_PRE_LIST) with true. cbn [negb].
  fold hdr. destruct (N.eqb_spec (N.of_nat (length ds)) 0) as [E|E].
  - assert (ds = []) by (destruct ds; [reflexivity|cbn [length] in E; lia]). subst ds.
    replace (flag (N.lor EMPTY_FLAG COMPACT_FLAG) L_FLAG_EMPTY) with true by reflexivity. reflexivity.
  - replace (flag (N.lor 0 COMPACT_FLAG) L_FLAG_EMPTY) with false by reflexivity.
    replace (flag (N.lor 0 COMPACT_FLAG) L_FLAG_COMPACT) with true by reflexivity.
    unfold body. replace (has (hdr ++ u32s ds) (8 + 4 * N.of_nat (length ds))) with true
      by (unfold has; rewrite app_length, u32s_length, Hhl; lia). cbn [negb].
    rewrite <- (app_nil_r (u32s ds)). change 8 with (N.of_nat (length hdr)) at 1.
    rewrite u32_list_u32s by (intros c Hc'; apply valid_lt32; rewrite Forall_forall in Hv; now apply Hv).
    now rewrite (filter_negb_eqb0_id ds H0).
Qed.

(* ---------- set images ---------- *)
Lemma set_image_conforms : forall lgk t (st : hset) S, 8 <= lgk <= 21 -> 5 <= hs_lg st -> hs_lg st <= lgk - 3 ->
  SetRep (hs_lg st) st S -> Forall valid S -> 4 * hs_len st <= 3 * 2 ^ hs_lg st ->
  hll_spec_decode (set_serialize st lgk t) = Some (mkImg lgk (tgt_num t) 1 false (sortN (set_iter st)) [] 0 0 0 0 0 []).
Proof.
  intros lgk t st S Hlg H5 H3 HR Hv Hload. set (lg := hs_lg st) in *.
  destruct (mode_byte_mod MODE_SET t ltac:(vm_compute; reflexivity)) as (Hm1 & Hm2). pose proof (tgt_num_lt3 t) as Ht3.
  set (sorted := sortN (set_iter st)).
  assert (Hperm : Permutation (set_iter st) sorted) by apply sortN_perm.
  assert (Hin : forall c, In c sorted -> In c S).
  { intros c Hc. apply (set_iter_In lg st S c HR). apply (Permutation_in _ (Permutation_sym Hperm) Hc). }
  assert (Hvs : forall c, In c sorted -> valid c) by (intros c Hc; rewrite Forall_forall in Hv; apply Hv; now apply Hin).
  assert (Hcard : hs_len st = N.of_nat (length sorted)) by (unfold sorted; rewrite sortN_length; apply (set_len_card lg st S HR)).
  assert (Hlgb : 2 ^ lg <= 2 ^ 18) by (apply N.pow_le_mono_r; lia). change (2 ^ 18) with 262144 in Hlgb.
  unfold set_serialize. fold lg sorted. replace (lg mod 256) with lg by (symmetry; apply N.mod_small; lia).
  set (hdr := [SET_PREINTS; SER_VER; FAMILY_HLL; lgk; lg; COMPACT_FLAG; 0; mode_byte MODE_SET t]).
  assert (Hhl : length hdr = 8%nat) by reflexivity.
  set (bs := hdr ++ le_bytes 4 (hs_len st) ++ u32s sorted).
  assert (Hlen : length bs = (12 + 4 * length sorted)%nat) by (unfold bs; rewrite !app_length, Hhl, le_bytes_length, u32s_length; lia).
  unfold hll_spec_decode. fold bs. replace (has bs 8) with true by (unfold has; lia). cbn [negb]. cbv zeta.
  assert (Hb : forall i, i < 8 -> byte_at bs i = byte_at hdr i) by (intros i Hi; apply byte_at_app_l; rewrite Hhl; lia).
  rewrite !Hb by lia.
  replace (byte_at hdr 0) with SET_PREINTS by reflexivity. replace (byte_at hdr 1) with SER_VER by reflexivity.
  replace (byte_at hdr 2) with FAMILY_HLL by reflexivity. replace (byte_at hdr 3) with lgk by reflexivity.
  replace (byte_at hdr 4) with lg by reflexivity. replace (byte_at hdr 5) with COMPACT_FLAG by reflexivity.
  replace (byte_at hdr 6) with 0 by reflexivity. replace (byte_at hdr 7) with (mode_byte MODE_SET t) by reflexivity.
  rewrite Hm1, Hm2. change (SER_VER =? L_SER_VER) with true. change (FAMILY_HLL =? L_FAMILY) with true. cbn [andb].
  replace ((4 <=? lgk) && (lgk <=? 21) && (tgt_num t <? 3)) with true by lia. cbn [andb negb].
  change (MODE_SET =? L_MODE_LIST) with false. change (MODE_SET =? L_MODE_SET) with true. cbv iota.
  change (SET_PREINTS =? L_PRE_SET) with true. replace (has bs 12) with true by (unfold has; lia). cbn [negb orb].
  replace (flag COMPACT_FLAG L_FLAG_COMPACT) with true by reflexivity.
  assert (Hcount : u32_at bs 8 = hs_len st).
  { unfold u32_at, bs. change 8 with (N.of_nat (length hdr) + 0). rewrite sub_app_skip. unfold HllLayout.sub. cbn [N.to_nat skipn].
    rewrite (firstn_app_exact _ _ 4 (le_bytes_length 4 _)). apply le_bytes4_val. change (2 ^ 32) with 4294967296. lia. }
  rewrite Hcount. replace (has bs (12 + 4 * hs_len st)) with true by (unfold has; lia). cbn [negb].
  assert (Hlist : u32_list bs 12 (hs_len st) = sorted).
  { unfold bs. rewrite app_assoc, Hcard, <- (app_nil_r (u32s sorted)).
    replace 12 with (N.of_nat (length (hdr ++ le_bytes 4 (N.of_nat (length sorted))))) by (rewrite app_length, Hhl, le_bytes_length; reflexivity).
    apply u32_list_u32s. intros c Hc. apply valid_lt32. now apply Hvs. }
  rewrite Hlist. rewrite filter_negb_eqb0_id; [reflexivity|]. intros H0. apply (valid_nonzero 0 (Hvs 0 H0)). reflexivity.
Qed.

(* ---------- array images ---------- *)
Lemma flag_ooo : forall b : bool, flag (N.lor COMPACT_FLAG (if b then OOO_FLAG else 0)) L_FLAG_OOO = b.
Proof. destruct b; reflexivity. Qed.
Lemma flag_compact : forall b : bool, flag (N.lor COMPACT_FLAG (if b then OOO_FLAG else 0)) L_FLAG_COMPACT = true.
Proof. destruct b; reflexivity. Qed.

(* the common shape: 8 header bytes, three f64, num, auxc, the register block, the tail *)
Section ArrayImage.
Variables (lgk cm : N) (t : tgt) (e : hip) (num auxc : N) (data tail : list N).
Hypothesis Hlg : 4 <= lgk <= 21.
Hypothesis Hnum : num < 2 ^ 32.
Hypothesis Hauxc : auxc < 2 ^ 32.

Definition arr_image : list N := hll_header lgk cm t e ++ le_bytes 4 num ++ le_bytes 4 auxc ++ data ++ tail.

Lemma arr_image_split : exists pre, length pre = 40%nat /\ arr_image = pre ++ data ++ tail /\
  (forall i, i < 8 -> byte_at pre i = byte_at [HLL_PREINTS; SER_VER; FAMILY_HLL; lgk; 0;
                                               N.lor COMPACT_FLAG (if h_ooo e then OOO_FLAG else 0); cm; mode_byte MODE_HLL t] i) /\
  u32_at pre 32 = num /\ u32_at pre 36 = auxc.
Proof.
  exists (hll_header lgk cm t e ++ le_bytes 4 num ++ le_bytes 4 auxc). split; [|split; [|split; [|split]]].
  - rewrite !app_length, hll_header_length, !le_bytes_length. reflexivity.
  - unfold arr_image. now rewrite <- !app_assoc.
  - intros i Hi. unfold hll_header. rewrite <- !app_assoc. apply byte_at_app_l. cbn [length]. lia.
  - unfold u32_at. replace 32 with (N.of_nat (length (hll_header lgk cm t e)) + 0) by (rewrite hll_header_length; reflexivity).
    rewrite sub_app_skip. unfold HllLayout.sub. cbn [N.to_nat skipn]. rewrite (firstn_app_exact _ _ 4 (le_bytes_length 4 _)).
    now apply le_bytes4_val.
  - unfold u32_at. rewrite app_assoc.
    replace 36 with (N.of_nat (length (hll_header lgk cm t e ++ le_bytes 4 num)) + 0) by (rewrite app_length, hll_header_length, le_bytes_length; reflexivity).
    rewrite sub_app_skip. unfold HllLayout.sub. cbn [N.to_nat skipn]. rewrite <- (app_nil_r (le_bytes 4 auxc)).
    rewrite (firstn_app_exact _ _ 4 (le_bytes_length 4 _)). now apply le_bytes4_val.
Qed.

(* the decoder on such an image, up to the choice of the register decoding *)
Lemma arr_image_decode :
  hll_spec_decode arr_image =
  let bs := arr_image in let k := 2 ^ lgk in
  if negb (has bs 40) then None else
  if tgt_num t =? 2 then
    if negb (has bs (40 + k)) then None
    else Some (mkImg lgk (tgt_num t) 2 (h_ooo e) [] (map (fun s => byte_at bs (40 + s)) (lseq 0 (N.to_nat k)))
                     (u64_at bs 8) (u64_at bs 16) (u64_at bs 24) 0 num [])
  else if tgt_num t =? 1 then
    if negb (has bs (40 + (3 * k) / 4 + 1)) then None
    else Some (mkImg lgk (tgt_num t) 2 (h_ooo e) [] (map (six_bits bs 40) (lseq 0 (N.to_nat k)))
                     (u64_at bs 8) (u64_at bs 16) (u64_at bs 24) 0 num [])
  else
    let auxoff := 40 + k / 2 in
    if negb (has bs (auxoff + 4 * auxc)) then None
    else
      let ents := filter (fun c => negb (c =? 0)) (u32_list bs auxoff auxc) in
      let aux := map (fun c => ((c mod 2 ^ L_KEY_BITS) mod k, c / 2 ^ L_KEY_BITS)) ents in
      let regs := map (fun s => let nb := nibble bs 40 s in
                                if nb =? L_AUX_TOKEN then match aux_lookup aux s with Some v => v | None => cm + nb end
                                else cm + nb) (lseq 0 (N.to_nat k)) in
      Some (mkImg lgk (tgt_num t) 2 (h_ooo e) [] regs (u64_at bs 8) (u64_at bs 16) (u64_at bs 24) cm num aux).
Proof.
  destruct arr_image_split as (pre & Hpl & Himg & Hb & Hn & Ha).
  destruct (mode_byte_mod MODE_HLL t ltac:(vm_compute; reflexivity)) as (Hm1 & Hm2). pose proof (tgt_num_lt3 t) as Ht3.
  unfold hll_spec_decode. cbv zeta.
  assert (Hbs : forall i, i < 40 -> byte_at arr_image i = byte_at pre i).
  { intros i Hi. rewrite Himg. apply byte_at_app_l. rewrite Hpl. lia. }
  assert (Hu : forall off, off + 4 <= 40 -> u32_at arr_image off = u32_at pre off).
  { intros off Ho. unfold u32_at, HllLayout.sub. rewrite Himg. f_equal.
    rewrite skipn_app. replace (N.to_nat off - length pre)%nat with 0%nat by lia. cbn [skipn].
    rewrite firstn_app. replace (N.to_nat 4 - length (skipn (N.to_nat off) pre))%nat with 0%nat by (rewrite skipn_length; lia).
    cbn [firstn]. now rewrite app_nil_r. }
  assert (H8 : has arr_image 8 = true).
  { unfold has. rewrite Himg, app_length, Hpl. lia. }
  rewrite H8. cbn [negb]. rewrite !Hbs by lia. rewrite !Hb by lia.
  set (hdr := [HLL_PREINTS; SER_VER; FAMILY_HLL; lgk; 0; N.lor COMPACT_FLAG (if h_ooo e then OOO_FLAG else 0); cm; mode_byte MODE_HLL t]).
  replace (byte_at hdr 0) with HLL_PREINTS by reflexivity. replace (byte_at hdr 1) with SER_VER by reflexivity.
  replace (byte_at hdr 2) with FAMILY_HLL by reflexivity. replace (byte_at hdr 3) with lgk by reflexivity.
  replace (byte_at hdr 4) with 0 by reflexivity.
  replace (byte_at hdr 5) with (N.lor COMPACT_FLAG (if h_ooo e then OOO_FLAG else 0)) by reflexivity.
  replace (byte_at hdr 6) with cm by reflexivity. replace (byte_at hdr 7) with (mode_byte MODE_HLL t) by reflexivity.
  rewrite Hm1, Hm2. change (SER_VER =? L_SER_VER) with true. change (FAMILY_HLL =? L_FAMILY) with true. cbn [andb].
  replace ((4 <=? lgk) && (lgk <=? 21) && (tgt_num t <? 3)) with true by lia. cbn [andb negb].
  change (MODE_HLL =? L_MODE_LIST) with false. change (MODE_HLL =? L_MODE_SET) with false. change (MODE_HLL =? L_MODE_HLL) with true.
  cbv iota. change (HLL_PREINTS =? L_PRE_HLL) with true. cbn [negb orb].
  rewrite flag_ooo, flag_compact. rewrite (Hu 32) by lia. rewrite (Hu 36) by lia. rewrite Hn, Ha.
  change MODE_HLL with 2. reflexivity.
Qed.

End ArrayImage.

Lemma byte_at_data : forall pre data tail i, length pre = 40%nat -> i < N.of_nat (length data) ->
  byte_at (pre ++ data ++ tail) (40 + i) = nth (N.to_nat i) data 0.
Proof.
  intros pre data tail i Hp Hi. replace 40 with (N.of_nat (length pre)) by (rewrite Hp; reflexivity).
  rewrite byte_at_app_skip. unfold byte_at. apply app_nth1. lia.
Qed.

Lemma byte_at_arr_bytes : forall pre a n tail i, length pre = 40%nat -> i < n ->
  byte_at (pre ++ arr_bytes a n ++ tail) (40 + i) = aget a i.
Proof.
  intros pre a n tail i Hp Hi. rewrite byte_at_data by (assumption || (rewrite arr_bytes_length; lia)).
  unfold arr_bytes. rewrite nth_map_Nseq by lia. f_equal. lia.
Qed.

Lemma pow2_lt32 : forall lgk, lgk <= 21 -> 2 ^ lgk < 2 ^ 32.
Proof. intros. apply N.pow_lt_mono_r; lia. Qed.

(* Hll8 *)
Lemma a8_image_conforms : forall lgk cs (a : arr8 hip), 4 <= lgk <= 21 -> a8_lgk a = lgk ->
  (forall j, a8_get a j = spec_regs lgk cs j) -> a8_nz a = spec_zeros lgk cs ->
  exists im, hll_spec_decode (a8_serialize a lgk) = Some im /\ im_lgk im = lgk /\ im_type im = 2 /\ im_mode im = 2 /\
    im_ooo im = h_ooo (a8_est a) /\ im_regs im = map (spec_regs lgk cs) (Nseq 0 (N.to_nat (2 ^ lgk))) /\
    im_num_at_cur_min im = spec_zeros lgk cs /\ im_cur_min im = 0 /\ im_aux im = [].
Proof.
  intros lgk cs a Hlg Hk Hr Hz.
  assert (Hnum : a8_nz a < 2 ^ 32).
  { rewrite Hz. unfold spec_zeros. pose proof (count_regs_le (2 ^ lgk) (fun j => spec_regs lgk cs j =? 0)). pose proof (pow2_lt32 lgk ltac:(lia)). lia. }
  assert (Himg : a8_serialize a lgk = arr_image lgk 0 T8 (a8_est a) (a8_nz a) 0 (arr_bytes (a8_bytes a) (2 ^ lgk)) []).
  { unfold a8_serialize, arr_image. rewrite Hk, app_nil_r. reflexivity. }
  rewrite Himg, (arr_image_decode lgk 0 T8 (a8_est a) (a8_nz a) 0 _ [] Hlg Hnum ltac:(change (2 ^ 32) with 4294967296; lia)).
  destruct (arr_image_split lgk 0 T8 (a8_est a) (a8_nz a) 0 (arr_bytes (a8_bytes a) (2 ^ lgk)) [] Hlg Hnum ltac:(change (2 ^ 32) with 4294967296; lia))
    as (pre & Hpl & Hsplit & _).
  cbv zeta. rewrite Hsplit.
  assert (Hlen : N.of_nat (length (pre ++ arr_bytes (a8_bytes a) (2 ^ lgk) ++ [])) = 40 + 2 ^ lgk).
  { rewrite !app_length, Hpl, arr_bytes_length. cbn [length]. lia. }
  unfold has. rewrite Hlen. replace (40 <=? 40 + 2 ^ lgk) with true by lia. cbn [negb].
  change (tgt_num T8 =? 2) with true. cbv iota. rewrite N.leb_refl. cbn [negb].
  eexists. split; [reflexivity|]. cbn [im_lgk im_type im_mode im_ooo im_regs im_num_at_cur_min im_cur_min im_aux].
  repeat split; try reflexivity; try assumption.
  rewrite lseq_Nseq. apply map_ext_in. intros s Hs. apply Nseq_range_In in Hs.
  rewrite byte_at_arr_bytes by assumption. apply Hr.
Qed.

(* Hll6: the 16-bit window of the code reads the same 6 bits as the specification's bit string *)
Lemma six_bits_get_raw : forall pre (bytes : arr) n tail s, length pre = 40%nat -> WFb bytes -> N.shiftr (s * 6) 3 + 1 < n ->
  six_bits (pre ++ arr_bytes bytes n ++ tail) 40 s = a6_get_raw bytes s.
Proof.
  intros pre bytes n tail s Hp W Hs. unfold six_bits, a6_get_raw. cbv zeta.
  rewrite shiftr_div in Hs. change (2 ^ 3) with 8 in Hs.
  replace (6 * s) with (s * 6) by lia.
  rewrite (byte_at_arr_bytes pre bytes n tail (s * 6 / 8) Hp ltac:(lia)).
  replace (40 + s * 6 / 8 + 1) with (40 + (s * 6 / 8 + 1)) by lia.
  rewrite (byte_at_arr_bytes pre bytes n tail (s * 6 / 8 + 1) Hp ltac:(lia)).
  rewrite !shiftr_div. change (2 ^ 3) with 8. change 7 with (2 ^ 3 - 1). rewrite land_mask. change (2 ^ 3) with 8.
  unfold VAL_MASK_6. change (zN GenHll.VAL_MASK_6) with (2 ^ 6 - 1). rewrite land_mask. change (2 ^ 6) with 64.
  rewrite N.lor_comm, lor_shiftl_add by (apply W). change (2 ^ 8) with 256. f_equal. f_equal. lia.
Qed.

Lemma a6_image_conforms : forall lgk cs (a : arr6 hip), 4 <= lgk <= 21 -> a6_lgk a = lgk -> WFb (a6_bytes a) ->
  (forall j, j < 2 ^ lgk -> a6_get a j = spec_regs lgk cs j) -> a6_nz a = spec_zeros lgk cs ->
  exists im, hll_spec_decode (a6_serialize a lgk) = Some im /\ im_lgk im = lgk /\ im_type im = 1 /\ im_mode im = 2 /\
    im_ooo im = h_ooo (a6_est a) /\ im_regs im = map (spec_regs lgk cs) (Nseq 0 (N.to_nat (2 ^ lgk))) /\
    im_num_at_cur_min im = spec_zeros lgk cs /\ im_cur_min im = 0 /\ im_aux im = [].
Proof.
  intros lgk cs a Hlg Hk W Hr Hz.
  assert (Hnum : a6_nz a < 2 ^ 32).
  { rewrite Hz. unfold spec_zeros. pose proof (count_regs_le (2 ^ lgk) (fun j => spec_regs lgk cs j =? 0)). pose proof (pow2_lt32 lgk ltac:(lia)). lia. }
  assert (Himg : a6_serialize a lgk = arr_image lgk 0 T6 (a6_est a) (a6_nz a) 0 (arr_bytes (a6_bytes a) (a6_num_bytes lgk)) []).
  { unfold a6_serialize, arr_image. rewrite Hk, app_nil_r. reflexivity. }
  rewrite Himg, (arr_image_decode lgk 0 T6 (a6_est a) (a6_nz a) 0 _ [] Hlg Hnum ltac:(change (2 ^ 32) with 4294967296; lia)).
  destruct (arr_image_split lgk 0 T6 (a6_est a) (a6_nz a) 0 (arr_bytes (a6_bytes a) (a6_num_bytes lgk)) [] Hlg Hnum ltac:(change (2 ^ 32) with 4294967296; lia))
    as (pre & Hpl & Hsplit & _).
  cbv zeta. rewrite Hsplit.
  assert (Hnb : a6_num_bytes lgk = 3 * 2 ^ lgk / 4 + 1).
  { unfold a6_num_bytes. rewrite shiftr_div. change (2 ^ 2) with 4. f_equal. f_equal. lia. }
  assert (Hlen : N.of_nat (length (pre ++ arr_bytes (a6_bytes a) (a6_num_bytes lgk) ++ [])) = 40 + 3 * 2 ^ lgk / 4 + 1).
  { rewrite !app_length, Hpl, arr_bytes_length, Hnb. cbn [length]. lia. }
  unfold has. rewrite Hlen. replace (40 <=? 40 + 3 * 2 ^ lgk / 4 + 1) with true by lia. cbn [negb].
  change (tgt_num T6 =? 2) with false. change (tgt_num T6 =? 1) with true. cbv iota. rewrite N.leb_refl. cbn [negb].
  eexists. split; [reflexivity|]. cbn [im_lgk im_type im_mode im_ooo im_regs im_num_at_cur_min im_cur_min im_aux].
  repeat split; try reflexivity; try assumption.
  rewrite lseq_Nseq. apply map_ext_in. intros s Hs. apply Nseq_range_In in Hs.
  rewrite six_bits_get_raw; [now apply Hr|assumption|assumption|]. apply a6_slot_bytes; [lia|assumption].
Qed.

(* Hll4 *)
Lemma nibble_get_raw : forall pre (bytes : arr) n tail s, length pre = 40%nat -> s / 2 < n ->
  nibble (pre ++ arr_bytes bytes n ++ tail) 40 s = a4_get_raw bytes s.
Proof.
  intros pre bytes n tail s Hp Hs. unfold nibble, a4_get_raw. cbv zeta. rewrite (byte_at_arr_bytes pre bytes n tail (s / 2) Hp Hs).
  assert (E1 : N.land s 1 = s mod 2) by exact (land_mask s 1).
  assert (E2 : forall b, N.land b 15 = b mod 16) by (intros b; exact (land_mask b 4)).
  assert (E3 : forall x m, N.shiftr x m = x / 2 ^ m) by (intros; apply shiftr_div).
  rewrite E1, E2, !E3. change (2 ^ 1) with 2. change (2 ^ 4) with 16. reflexivity.
Qed.

Lemma a4_image_conforms : forall lgk regs (a : arr4 hip), 4 <= lgk <= 21 -> Inv4 lgk regs a -> (forall j, j < 2 ^ lgk -> regs j <= 63) ->
  exists im, hll_spec_decode (a4_serialize a lgk) = Some im /\ im_lgk im = lgk /\ im_type im = 0 /\ im_mode im = 2 /\
    im_ooo im = h_ooo (a4_est a) /\ im_regs im = map regs (Nseq 0 (N.to_nat (2 ^ lgk))) /\
    im_cur_min im = a4_cur_min a /\ im_num_at_cur_min im = a4_num a /\
    im_aux im = match a4_aux a with Some m => aux_pairs m | None => [] end.
Proof.
  intros lgk regs a Hlg HI Hb. pose proof HI as (Hk & HC & Hn). pose proof HC as (W & HA & Hr & Hd).
  assert (Hnum : a4_num a < 2 ^ 32).
  { rewrite Hn. pose proof (count_regs_le (2 ^ lgk) (fun j => regs j =? a4_cur_min a)). pose proof (pow2_lt32 lgk ltac:(lia)). lia. }
  assert (Hauxc : N.of_nat (length (match a4_aux a with Some m => aux_pairs m | None => [] end)) < 2 ^ 32).
  { rewrite (aux_pairs_count lgk regs a HI). pose proof (count_regs_le (2 ^ lgk) (fun j => a4_cur_min a + 15 <=? regs j)).
    pose proof (pow2_lt32 lgk ltac:(lia)). lia. }
  set (k := 2 ^ lgk) in *. set (cm := a4_cur_min a) in *.
  set (ps := match a4_aux a with Some m => aux_pairs m | None => [] end).
  set (cs := map (fun p => pack_coupon (fst p) (snd p)) ps).
  set (data := arr_bytes (a4_bytes a) (2 ^ (lgk - 1))).
  assert (Hk2 : 2 ^ (lgk - 1) = k / 2).
  { unfold k. replace lgk with (1 + (lgk - 1)) at 2 by lia. rewrite N.pow_add_r. change (2 ^ 1) with 2. rewrite N.mul_comm, N.div_mul by lia. reflexivity. }
  assert (Hps : forall j v, In (j, v) ps <-> auxdom (a4_aux a) j v).
  { intros j v. unfold ps. destruct (a4_aux a) as [m|]; cbn [auxdom]; [apply aux_pairs_In|tauto]. }
  assert (Hpsk : forall j v, In (j, v) ps -> j < k /\ a4_get_raw (a4_bytes a) j = 15 /\ v = regs j).
  { intros j v Hp. apply Hps in Hp. destruct (Hd j v Hp) as [Hj Hraw]. split; [assumption|]. split; [assumption|].
    destruct (Hr j Hj) as [_ B]. destruct (B Hraw) as [_ Hdom]. apply (auxdom_fun lgk _ j v (regs j) HA Hp Hdom). }
  assert (Himg : a4_serialize a lgk = arr_image lgk cm T4 (a4_est a) (a4_num a) (N.of_nat (length ps)) data (u32s cs)).
  { unfold a4_serialize, arr_image. fold ps cs cm. rewrite Hk. reflexivity. }
  rewrite Himg, (arr_image_decode lgk cm T4 (a4_est a) (a4_num a) (N.of_nat (length ps)) data (u32s cs) Hlg Hnum Hauxc).
  destruct (arr_image_split lgk cm T4 (a4_est a) (a4_num a) (N.of_nat (length ps)) data (u32s cs) Hlg Hnum Hauxc) as (pre & Hpl & Hsplit & _).
  cbv zeta. rewrite Hsplit. fold k.
  assert (Hdl : N.of_nat (length data) = k / 2) by (unfold data; rewrite arr_bytes_length, Hk2; lia).
  assert (Hcl : length cs = length ps) by (unfold cs; now rewrite map_length).
  assert (Hlen : N.of_nat (length (pre ++ data ++ u32s cs)) = 40 + k / 2 + 4 * N.of_nat (length ps)).
  { rewrite !app_length, Hpl, u32s_length, Hcl. lia. }
  unfold has. rewrite Hlen. replace (40 <=? 40 + k / 2 + 4 * N.of_nat (length ps)) with true by lia. cbn [negb].
  change (tgt_num T4 =? 2) with false. change (tgt_num T4 =? 1) with false. cbv iota. rewrite N.leb_refl. cbn [negb].
  (* the exception list *)
  assert (Hc32 : forall c, In c cs -> c < 2 ^ 32).
  { intros c Hc. unfold cs in Hc. apply in_map_iff in Hc. destruct Hc as ([j v] & <- & Hp). cbn [fst snd].
    destruct (Hpsk j v Hp) as (Hj & _ & Hv). rewrite pack_coupon_add. specialize (Hb j Hj). rewrite <- Hv in Hb.
    unfold P26. change (2 ^ 32) with 4294967296. assert (j mod 67108864 < 67108864) by (apply N.mod_lt; lia). lia. }
  assert (Hlist : u32_list (pre ++ data ++ u32s cs) (40 + k / 2) (N.of_nat (length ps)) = cs).
  { rewrite app_assoc, <- (app_nil_r (u32s cs)), <- Hcl.
    replace (40 + k / 2) with (N.of_nat (length (pre ++ data))) by (rewrite app_length, Hpl; lia).
    now apply u32_list_u32s. }
  rewrite Hlist.
  assert (Hcs0 : ~ In 0 cs).
  { intros H0. unfold cs in H0. apply in_map_iff in H0. destruct H0 as ([j v] & Heq & Hp). cbn [fst snd] in Heq.
    destruct (Hpsk j v Hp) as (Hj & Hraw & Hv). destruct (Hr j Hj) as [_ B]. destruct (B Hraw) as [Hge _].
    revert Heq. apply pack_nonzero. lia. }
  rewrite (filter_negb_eqb0_id cs Hcs0).
  assert (Haux : map (fun c => ((c mod 2 ^ L_KEY_BITS) mod k, c / 2 ^ L_KEY_BITS)) cs = ps).
  { unfold cs. rewrite map_map. rewrite <- (map_id ps) at 2. apply map_ext_in. intros [j v] Hp. cbn [fst snd].
    destruct (Hpsk j v Hp) as (Hj & _ & _). change (2 ^ L_KEY_BITS) with P26.
    pose proof (cslot_pack lgk j v ltac:(lia) Hj) as Hs. unfold cslot in Hs. fold k in Hs. rewrite Hs.
    pose proof (cvalue_pack j v) as Hv. unfold cvalue in Hv. now rewrite Hv. }
  rewrite Haux.
  eexists. split; [reflexivity|]. cbn [im_lgk im_type im_mode im_ooo im_regs im_num_at_cur_min im_cur_min im_aux].
  repeat split; try reflexivity.
  rewrite lseq_Nseq. apply map_ext_in. intros s Hs. apply Nseq_range_In in Hs. fold k in Hs.
  assert (Hkk : k = 2 * 2 ^ (lgk - 1)).
  { unfold k. replace lgk with (1 + (lgk - 1)) at 1 by lia. now rewrite N.pow_add_r. }
  unfold data. rewrite nibble_get_raw by (assumption || lia).
  change L_AUX_TOKEN with 15. destruct (Hr s Hs) as [A B]. pose proof (a4_get_le _ s W) as Hle.
  destruct (N.eqb_spec (a4_get_raw (a4_bytes a) s) 15) as [E|E].
  - destruct (B E) as [_ Hdom]. assert (Hin : In (s, regs s) ps) by (now apply Hps).
    unfold aux_lookup. destruct (List.find (fun p => fst p =? s) ps) as [[s' v']|] eqn:Ef.
    + apply find_some in Ef. destruct Ef as [Hin' Heq]. cbn [fst] in Heq. apply N.eqb_eq in Heq. subst s'. cbn [snd].
      now destruct (Hpsk s v' Hin') as (_ & _ & ->).
    + exfalso. pose proof (find_none _ _ Ef (s, regs s) Hin) as Hnf. cbn [fst] in Hnf. lia.
  - fold cm in A. rewrite A by lia. reflexivity.
Qed.

(* ---------- every image the writer emits conforms ---------- *)
(* the out-of-order flag of the estimator (false in list / set mode) *)
Definition sk_ooo (s : hsketch) : bool := match sk_est_inputs s with Some (e, _) => h_ooo e | None => false end.

(* what the independent decoder must recover: lg_k, target type, mode, the OOO flag; in list / set
   mode the coupon set; in array mode (ALL three types) the Spec register file, a cur_min byte that
   is a lower bound of the registers (0 for Hll6 / Hll8) and the number of registers equal to it *)
Definition image_shows (lgk : N) (cs : list N) (s : hsketch) (im : himage) : Prop :=
  im_lgk im = lgk /\ im_type im = tgt_num (sk_tgt s) /\ im_ooo im = sk_ooo s /\
  match sk_tag s with
  | TagList => im_mode im = 0 /\ NoDup (im_coupons im) /\ (forall c, In c (im_coupons im) <-> In c cs)
  | TagSet => im_mode im = 1 /\ NoDup (im_coupons im) /\ (forall c, In c (im_coupons im) <-> In c cs)
  | TagArray => im_mode im = 2 /\ im_regs im = map (spec_regs lgk cs) (Nseq 0 (N.to_nat (2 ^ lgk))) /\
                (sk_tgt s <> T4 -> im_cur_min im = 0) /\
                (forall j, j < 2 ^ lgk -> im_cur_min im <= spec_regs lgk cs j) /\
                im_num_at_cur_min im = count_regs (2 ^ lgk) (fun j => spec_regs lgk cs j =? im_cur_min im)
  end.

Theorem hll_image_conforms : forall lgk arrf cs s, SrcOK lgk arrf cs s ->
  exists im, hll_spec_decode (hll_serialize s) = Some im /\ image_shows lgk cs s im.
Proof.
  intros lgk arrf cs s HS. pose proof HS as (Hk & Hlg & Hv & Hm).
  unfold hll_serialize, image_shows, sk_tag, sk_tgt, sk_ooo, sk_est_inputs in *. rewrite Hk.
  destruct (sk_mode s) as [l t|st t|a|a|a] eqn:Em.
  - destruct Hm as (_ & ds & HL & Hlen & Hss).
    rewrite (list_image_conforms lgk t l ds Hlg HL Hlen (forall_valid_set ds cs Hss Hv)).
    eexists. split; [reflexivity|]. cbn [im_lgk im_type im_mode im_coupons im_ooo]. split; [reflexivity|]. split; [reflexivity|].
    split; [reflexivity|]. split; [reflexivity|]. split; [now destruct HL as (_ & _ & ? & _)|assumption].
  - destruct Hm as (_ & H8 & H5 & H3 & HR & _ & Hload).
    rewrite (set_image_conforms lgk t st cs ltac:(lia) H5 H3 HR Hv Hload).
    eexists. split; [reflexivity|]. cbn [im_lgk im_type im_mode im_coupons im_ooo]. split; [reflexivity|]. split; [reflexivity|].
    split; [reflexivity|]. split; [reflexivity|]. split.
    + apply (Permutation_NoDup (sortN_perm _)). now apply (set_iter_NoDup (hs_lg st) st cs).
    + intros c. rewrite <- (set_iter_In (hs_lg st) st cs c HR). split; intros Hc.
      * apply (Permutation_in _ (Permutation_sym (sortN_perm _)) Hc).
      * apply (Permutation_in _ (sortN_perm _) Hc).
  - destruct Hm as (_ & HI & _).
    destruct (a4_image_conforms lgk _ a Hlg HI ltac:(intros j _; now apply spec_regs_bound)) as (im & Hd & A & B & C & D & F & G & H & _).
    exists im. split; [assumption|]. split; [assumption|]. split; [assumption|]. split; [assumption|]. split; [assumption|].
    split; [assumption|]. split; [intros Hne; now elim Hne|]. pose proof HI as (_ & HC & Hn). split.
    + intros j Hj. rewrite G. pose proof (core4_ge lgk _ _ _ _ j HC Hj). lia.
    + rewrite H, G, Hn. reflexivity.
  - destruct Hm as (_ & Hk6 & W & Hr & Hz).
    destruct (a6_image_conforms lgk cs a Hlg Hk6 W Hr Hz) as (im & Hd & A & B & C & D & F & G & H & _).
    exists im. split; [assumption|]. split; [assumption|]. split; [assumption|]. split; [assumption|]. split; [assumption|].
    split; [assumption|]. split; [intros _; assumption|]. rewrite H. split; [intros; lia|]. rewrite G. reflexivity.
  - destruct Hm as (_ & Hk8 & Hr & Hz).
    destruct (a8_image_conforms lgk cs a Hlg Hk8 Hr Hz) as (im & Hd & A & B & C & D & F & G & H & _).
    exists im. split; [assumption|]. split; [assumption|]. split; [assumption|]. split; [assumption|]. split; [assumption|].
    split; [assumption|]. split; [intros _; assumption|]. rewrite H. split; [intros; lia|]. rewrite G. reflexivity.
Qed.

(* for every stream: the image of the reached sketch decodes, under the independent decoder, to the
   Spec state of the stream *)
Theorem hll_image_conforms_of_stream : forall lgk t cs, 4 <= lgk <= 21 -> Forall valid cs ->
  exists s im, run_stream hip_new hip_update hip_carry lgk t cs = Ok s /\
    hll_spec_decode (hll_serialize s) = Some im /\ image_shows lgk cs s im /\ sk_tag s = spec_mode lgk (distinct cs) /\ sk_tgt s = t.
Proof.
  intros lgk t cs Hlg Hv.
  destruct (sim_stream hip hip_new hip_update hip_carry AC AC_cons AC_cond lgk t cs Hlg Hv) as (s & s8 & Hr & _ & HS).
  destruct (stream_is_source lgk t cs Hlg Hv) as (s' & Hr' & HSrc). assert (s' = s) by congruence. subst s'.
  destruct (hll_image_conforms lgk _ cs s HSrc) as (im & Hd & Hsh).
  pose proof (sim_abs hip lgk t (rev cs) s s8 Hlg HS) as Habs.
  apply (abs_ok_set hip lgk t (rev cs) cs) in Habs; [|intros c; symmetry; apply in_rev]. destruct Habs as (_ & Ht & Htag & _).
  exists s, im. split; [assumption|]. split; [assumption|]. split; [assumption|]. split; assumption.
Qed.

(* ---------- the constants translated from the Rust sources are the specification's ---------- *)
Lemma layout_glue :
  zN GenHll.SERIAL_VERSION = L_SER_VER /\ zN GenCodec.FAMILY_HLL_ID = L_FAMILY /\
  zN GenHll.LIST_PREINTS = L_PRE_LIST /\ zN GenHll.HASH_SET_PREINTS = L_PRE_SET /\ zN GenHll.HLL_PREINTS = L_PRE_HLL /\
  zN GenHll.LIST_PREAMBLE_SIZE = 4 * L_PRE_LIST /\ zN GenHll.SET_PREAMBLE_SIZE = 4 * L_PRE_SET /\
  zN GenHll.HLL_PREAMBLE_SIZE = 4 * L_PRE_HLL /\
  zN GenHll.EMPTY_FLAG_MASK = L_FLAG_EMPTY /\ zN GenHll.COMPACT_FLAG_MASK = L_FLAG_COMPACT /\
  zN GenHll.OUT_OF_ORDER_FLAG_MASK = L_FLAG_OOO /\
  zN GenHll.CUR_MODE_LIST = L_MODE_LIST /\ zN GenHll.CUR_MODE_SET = L_MODE_SET /\ zN GenHll.CUR_MODE_HLL = L_MODE_HLL /\
  zN GenHll.TGT_HLL4 = 0 /\ zN GenHll.TGT_HLL6 = 1 /\ zN GenHll.TGT_HLL8 = 2 /\
  zN GenHll.KEY_BITS_26 = L_KEY_BITS /\ zN GenHll.AUX_TOKEN = L_AUX_TOKEN /\ zN GenHll.COUPON_SIZE_BYTES = 4.
Proof. repeat split; reflexivity. Qed.

Lemma mode_byte_spec : forall cur t, cur < 4 -> mode_byte cur t = mode_b cur (tgt_num t).
Proof.
  intros cur t H. assert (Hc : cur = 0 \/ cur = 1 \/ cur = 2 \/ cur = 3) by lia.
  destruct Hc as [ -> | [ -> | [ -> | -> ] ] ]; destruct t; reflexivity.
Qed.

Lemma decoder_example :
  (exists im, hll_spec_decode (enc_list true 10 2 [67108865; 134217731]) = Some im /\ im_coupons im = [67108865; 134217731] /\
              im_mode im = 0 /\ im_type im = 2 /\ im_lgk im = 10) /\
  (exists im, hll_spec_decode (enc_hll_pre true false 4 0 0 1 0 0 0 1 1 ++ [0xF1; 0x11; 0x11; 0x11; 0x11; 0x11; 0x11; 0x11]
                               ++ le_bytes 4 (20 * 67108864 + 1)) = Some im /\
              im_regs im = [2; 20; 2; 2; 2; 2; 2; 2; 2; 2; 2; 2; 2; 2; 2; 2] /\ im_aux im = [(1, 20)]).
Proof. vm_compute. split; eexists; repeat split; reflexivity. Qed.
