(* C01, statistical half, IDEALISED model (uniform hashing: a new distinct item lands in slot j with probability 1/k and
   carries value v >= 1 with probability 2^-v, independently).  Under this model the HIP update rule of
   hll/estimator.rs (hip += k / (kxq0 + kxq1), computed BEFORE the registers move) and of cpc/sketch.rs update_hip
   (hip += k / kxp) makes the accumulator a martingale: the expected increment per distinct item is exactly 1, in every
   state.  Exact rational arithmetic; this says nothing about rounding or about a real hash function. *)
From Coq Require Import QArith List Lia.
Import ListNotations.
Open Scope Q_scope.

(* 2^-r *)
Fixpoint ipow2 (r : nat) : Q := match r with O => 1 | S m => ipow2 m / 2 end.
Lemma ipow2_pos : forall r, 0 < ipow2 r.
Proof. induction r; cbn [ipow2]; [reflexivity|]. apply Qlt_shift_div_l; [reflexivity|]. rewrite Qmult_0_l. exact IHr. Qed.

Fixpoint qsum (l : list Q) : Q := match l with [] => 0 | x :: r => x + qsum r end.
Lemma qsum_pos : forall l, l <> [] -> (forall x, In x l -> 0 < x) -> 0 < qsum l.
Proof.
  induction l as [|a l IH]; intros Hne H; [congruence|]. cbn [qsum].
  destruct l as [|b l'].
  - cbn [qsum]. rewrite Qplus_0_r. apply H. now left.
  - assert (0 < a) by (apply H; now left).
    assert (0 < qsum (b :: l')) by (apply IH; [discriminate|intros x Hx; apply H; now right]).
    rewrite <- (Qplus_0_r 0). apply Qplus_lt_le_compat; [assumption|apply Qlt_le_weak; assumption].
Qed.
Lemma qsum_map_ext : forall (f g : nat -> Q) l, (forall x, f x == g x) -> qsum (map f l) == qsum (map g l).
Proof. intros f g l H. induction l as [|a l IH]; cbn [map qsum]; [reflexivity|]. rewrite IH, (H a). reflexivity. Qed.
Lemma qsum_scale : forall c l, qsum (map (fun x => c * x) l) == c * qsum l.
Proof. induction l as [|a l IH]; cbn [map qsum]; [ring|]. rewrite IH. ring. Qed.

(* HLL: registers rs (one value per slot), kxq = sum of 2^-r.  A new item changes slot j with probability
   P(v > r_j) = 2^-r_j; when it does, the estimator adds k / kxq. *)
Definition kxq (rs : list nat) : Q := qsum (map ipow2 rs).
Definition kq (rs : list nat) : Q := inject_Z (Z.of_nat (length rs)).
Definition expected_hip_increment (rs : list nat) : Q :=
  qsum (map (fun r => (1 / kq rs) * ipow2 r * (kq rs / kxq rs)) rs).

Theorem hll_hip_martingale : forall rs, rs <> [] -> expected_hip_increment rs == 1.
Proof.
  intros rs Hne. unfold expected_hip_increment.
  assert (Hk : ~ kq rs == 0).
  { unfold kq. destruct rs; [congruence|]. cbn [length]. intro H. apply Qeq_bool_iff in H || idtac.
    unfold Qeq in H. cbn in H. lia. }
  assert (Hs : 0 < kxq rs).
  { unfold kxq. apply qsum_pos; [destruct rs; [congruence|discriminate]|].
    intros x Hx. apply in_map_iff in Hx. destruct Hx as (r & <- & _). apply ipow2_pos. }
  assert (Hs0 : ~ kxq rs == 0) by (intro E; rewrite E in Hs; discriminate).
  transitivity (qsum (map (fun x => (1 / kq rs) * (kq rs / kxq rs) * x) (map ipow2 rs))).
  - rewrite map_map. apply qsum_map_ext. intro x. ring.
  - rewrite qsum_scale. fold (kxq rs). field. split; assumption.
Qed.

(* CPC: k rows; an unset cell in column c is hit with probability (1/k) * 2^-(c+1); kxp = sum over unset cells of
   2^-(c+1) (summed over all rows) -- given here as the list of the columns of the unset cells.  A novel coupon adds k / kxp. *)
Definition kxp (unset_cols : list nat) : Q := qsum (map (fun c => ipow2 (S c)) unset_cols).
Definition expected_cpc_increment (k : Q) (unset_cols : list nat) : Q :=
  qsum (map (fun c => (1 / k) * ipow2 (S c) * (k / kxp unset_cols)) unset_cols).

Theorem cpc_hip_martingale : forall k cols, 0 < k -> cols <> [] -> expected_cpc_increment k cols == 1.
Proof.
  intros k cols Hk Hne. unfold expected_cpc_increment.
  assert (Hk0 : ~ k == 0) by (intro E; rewrite E in Hk; discriminate).
  assert (Hs : 0 < kxp cols).
  { unfold kxp. apply qsum_pos; [destruct cols; [congruence|discriminate]|].
    intros x Hx. apply in_map_iff in Hx. destruct Hx as (r & <- & _). apply ipow2_pos. }
  assert (Hs0 : ~ kxp cols == 0) by (intro E; rewrite E in Hs; discriminate).
  transitivity (qsum (map (fun x => (1 / k) * (k / kxp cols) * x) (map (fun c => ipow2 (S c)) cols))).
  - rewrite map_map. apply qsum_map_ext. intro x. ring.
  - rewrite qsum_scale. fold (kxp cols). field. split; assumption.
Qed.
