(* Generic facts used by the Bloom filter proofs: lists indexed by N, single-bit
   arithmetic on N, counting the set positions of a predicate, popcount, and the
   little-endian byte codec. *)
From DS Require Import Base.Prelude Model.Bloom.
From Coq Require Import ZifyBool ZifyNat ZifyN.
Ltac Zify.zify_post_hook ::= Z.div_mod_to_equations.
Open Scope N_scope.

(* ---------- lists ---------- *)
Lemma set_nth_length {A} n (x : A) l : length (set_nth n x l) = length l.
Proof. revert n; induction l as [|y l IH]; intros [|n]; cbn; auto. Qed.

Lemma nth_set_nth_eq {A} n (x d : A) l : (n < length l)%nat -> nth n (set_nth n x l) d = x.
Proof. revert n; induction l as [|y l IH]; intros [|n] H; cbn in *; try lia; auto. apply IH; lia. Qed.

Lemma nth_set_nth_neq {A} n m (x d : A) l : n <> m -> nth m (set_nth n x l) d = nth m l d.
Proof. revert n m; induction l as [|y l IH]; intros [|n] [|m] H; cbn; auto; try congruence. Qed.

Lemma Forall_set_nth {A} (P : A -> Prop) n x l : Forall P l -> P x -> Forall P (set_nth n x l).
Proof.
  intros Hl Hx. revert n. induction Hl as [|y l Hy Hl IH]; intros [|n]; cbn; constructor; auto.
Qed.

Lemma Forall_nth_d {A} (P : A -> Prop) l d n : Forall P l -> P d -> P (nth n l d).
Proof. intros Hl Hd. revert n. induction Hl; intros [|n]; cbn; auto. Qed.

Lemma zip_with_length g a b : length a = length b -> length (zip_with g a b) = length a.
Proof. revert b; induction a as [|x a IH]; intros [|y b] H; cbn in *; try lia. rewrite IH; lia. Qed.

Lemma nth_zip_with g a b i : g 0 0 = 0 -> length a = length b ->
  nth i (zip_with g a b) 0 = g (nth i a 0) (nth i b 0).
Proof.
  intros Hg. revert b i; induction a as [|x a IH]; intros [|y b] [|i] H; cbn in *; try lia; auto.
Qed.

Lemma Forall_zip_with (P : N -> Prop) g a b :
  (forall x y, P x -> P y -> P (g x y)) -> Forall P a -> Forall P b -> Forall P (zip_with g a b).
Proof.
  intros Hg Ha. revert b. induction Ha as [|x a Hx Ha IH]; intros b Hb; cbn; [constructor|].
  destruct Hb as [|y b Hy Hb]; constructor; auto.
Qed.

Lemma nth_repeat {A} (x : A) n i : nth i (repeat x n) x = x.
Proof. revert i; induction n; intros [|i]; cbn; auto. Qed.

Lemma Forall_repeat {A} (P : A -> Prop) x n : P x -> Forall P (repeat x n).
Proof. intros H. induction n; cbn; constructor; auto. Qed.

(* ---------- single bits ---------- *)
Lemma lt_pow2_bits a n : a < 2 ^ n <-> (forall m, n <= m -> N.testbit a m = false).
Proof.
  split.
  - intros H m Hm. destruct (N.eq_dec a 0) as [->|Ha]; [apply N.bits_0|].
    apply N.bits_above_log2. apply N.log2_lt_pow2 in H; lia.
  - intros H. destruct (N.lt_ge_cases a (2 ^ n)) as [|Hge]; auto. exfalso.
    assert (Ha : 0 < a) by (pose proof (N.pow_nonzero 2 n); lia).
    apply N.log2_le_pow2 in Hge; auto.
    specialize (H (N.log2 a) Hge). rewrite N.bit_log2 in H by lia. discriminate.
Qed.

Lemma pow2_ne0 o : 2 ^ o <> 0.
Proof. apply N.pow_nonzero. lia. Qed.

Lemma land_pow2 w o : N.land w (2 ^ o) = if N.testbit w o then 2 ^ o else 0.
Proof.
  apply N.bits_inj. intros n. rewrite N.land_spec, N.pow2_bits_eqb.
  destruct (N.eqb_spec o n) as [->|Hne].
  - destruct (N.testbit w n); cbn [andb]; rewrite ?N.pow2_bits_true, ?N.bits_0; reflexivity.
  - rewrite andb_false_r. destruct (N.testbit w o); rewrite ?N.pow2_bits_false, ?N.bits_0 by auto; reflexivity.
Qed.

Lemma lor_pow2_bits w o n : N.testbit (N.lor w (2 ^ o)) n = (n =? o) || N.testbit w n.
Proof. rewrite N.lor_spec, N.pow2_bits_eqb, orb_comm. f_equal. apply N.eqb_sym. Qed.

Lemma lor_lt a b n : a < 2 ^ n -> b < 2 ^ n -> N.lor a b < 2 ^ n.
Proof.
  rewrite !lt_pow2_bits. intros Ha Hb m Hm. rewrite N.lor_spec, Ha, Hb; auto.
Qed.

Lemma land_lt a b n : a < 2 ^ n -> b < 2 ^ n -> N.land a b < 2 ^ n.
Proof.
  rewrite !lt_pow2_bits. intros Ha Hb m Hm. rewrite N.land_spec, Ha, Hb; auto.
Qed.

Lemma lnot_lt a n : a < 2 ^ n -> N.lnot a n < 2 ^ n.
Proof.
  rewrite !lt_pow2_bits. intros Ha m Hm. rewrite N.lnot_spec_high by auto. auto.
Qed.

Lemma pow2_lt o n : o < n -> 2 ^ o < 2 ^ n.
Proof. intros. apply N.pow_lt_mono_r; lia. Qed.

Lemma shiftr6 p : N.shiftr p 6 = p / 64.
Proof. rewrite N.shiftr_div_pow2. reflexivity. Qed.

Lemma land63 p : N.land p 63 = p mod 64.
Proof. change 63 with (N.ones 6). rewrite N.land_ones. reflexivity. Qed.

Lemma zero_of_bits a n : a < 2 ^ n -> (forall m, m < n -> N.testbit a m = false) -> a = 0.
Proof.
  intros Ha H. apply N.bits_inj. intros m. rewrite N.bits_0.
  destruct (N.lt_ge_cases m n); auto. apply lt_pow2_bits with (m := m) in Ha; auto.
Qed.

(* ---------- counting the positions below n on which a predicate holds ---------- *)
Fixpoint count_below (f : N -> bool) (n : nat) : N :=
  match n with
  | O => 0
  | S k => count_below f k + (if f (N.of_nat k) then 1 else 0)
  end.

(* ... which is the cardinality of { i < n | f i } *)
Lemma count_below_card f n :
  count_below f n = N.of_nat (length (filter f (map N.of_nat (seq 0 n)))).
Proof.
  induction n as [|n IH]; [reflexivity|].
  rewrite seq_S, map_app, filter_app, app_length. cbn [count_below map filter plus].
  rewrite IH. destruct (f (N.of_nat n)); cbn [length]; lia.
Qed.

Lemma count_ext f g n : (forall i, i < N.of_nat n -> f i = g i) -> count_below f n = count_below g n.
Proof.
  induction n as [|n IH]; intros H; [reflexivity|]. cbn [count_below].
  rewrite IH by (intros; apply H; lia). rewrite H by lia. reflexivity.
Qed.

Lemma count_le f n : count_below f n <= N.of_nat n.
Proof. induction n as [|n IH]; cbn [count_below]; [lia|]. destruct (f _); lia. Qed.

Lemma count_zero f n : count_below f n = 0 -> forall i, i < N.of_nat n -> f i = false.
Proof.
  induction n as [|n IH]; intros H i Hi; [lia|]. cbn [count_below] in H.
  destruct (f (N.of_nat n)) eqn:E; [lia|].
  destruct (N.eq_dec i (N.of_nat n)) as [->|]; auto. apply IH; lia.
Qed.

Lemma count_all_false f n : (forall i, i < N.of_nat n -> f i = false) -> count_below f n = 0.
Proof.
  induction n as [|n IH]; intros H; [reflexivity|]. cbn [count_below].
  rewrite IH by (intros; apply H; lia). rewrite H by lia. reflexivity.
Qed.

(* setting one more position *)
Lemma count_set f g n p :
  p < N.of_nat n -> f p = false -> (forall q, g q = (q =? p) || f q) ->
  count_below g n = count_below f n + 1.
Proof.
  intros Hp Hf Hg. induction n as [|n IH]; [lia|]. cbn [count_below].
  destruct (N.eq_dec p (N.of_nat n)) as [E|E].
  - rewrite (count_ext g f n).
    + rewrite Hg, <- E, N.eqb_refl, Hf. cbn. lia.
    + intros i Hi. rewrite Hg. replace (i =? p) with false by lia. reflexivity.
  - rewrite IH by lia. rewrite Hg. replace (N.of_nat n =? p) with false by lia. cbn [orb]. lia.
Qed.

Lemma count_neg f n : count_below (fun i => negb (f i)) n + count_below f n = N.of_nat n.
Proof. induction n as [|n IH]; cbn [count_below]; [lia|]. destruct (f _); cbn [negb]; lia. Qed.

Lemma count_split f a b :
  count_below f (a + b) = count_below f a + count_below (fun i => f (i + N.of_nat a)) b.
Proof.
  induction b as [|b IH]; [rewrite Nat.add_0_r; cbn [count_below]; lia|].
  rewrite Nat.add_succ_r. cbn [count_below]. rewrite IH.
  replace (N.of_nat (a + b)) with (N.of_nat b + N.of_nat a) by lia. lia.
Qed.

(* ---------- popcount ---------- *)
Lemma popcount_div2 w : popcount w = (if N.odd w then 1 else 0) + popcount (N.div2 w).
Proof. destruct w as [|[p|p|]]; cbn; lia. Qed.

Lemma div2_lt w n : w < 2 ^ N.succ n -> N.div2 w < 2 ^ n.
Proof. rewrite N.pow_succ_r', N.div2_div. intros. lia. Qed.

Lemma popcount_count n : forall w, w < 2 ^ N.of_nat n -> popcount w = count_below (N.testbit w) n.
Proof.
  induction n as [|n IH]; intros w Hw.
  - cbn in Hw. assert (w = 0) by lia. subst. reflexivity.
  - rewrite Nat2N.inj_succ in Hw. change (S n) with (1 + n)%nat. rewrite count_split.
    cbn [count_below]. change (N.of_nat 0) with 0. rewrite N.bit0_odd, popcount_div2.
    rewrite (IH (N.div2 w)) by (apply div2_lt; auto).
    rewrite (count_ext (fun i => N.testbit w (i + N.of_nat 1)) (N.testbit (N.div2 w)) n); [lia|].
    intros i _. rewrite N.div2_div, N.div2_bits. f_equal. lia.
Qed.

(* ---------- little-endian bytes ---------- *)
Lemma le_val_le_bytes n x : le_val (le_bytes n x) = x mod 256 ^ N.of_nat n.
Proof.
  revert x. induction n as [|n IH]; intros x.
  - cbn [le_bytes le_val]. change (256 ^ N.of_nat 0) with 1. rewrite N.mod_1_r. reflexivity.
  - cbn [le_bytes le_val]. rewrite IH, Nat2N.inj_succ, N.pow_succ_r', N.mod_mul_r.
    + reflexivity.
    + lia.
    + apply N.pow_nonzero. lia.
Qed.

Lemma le_bytes_length n x : length (le_bytes n x) = n.
Proof. revert x; induction n; intros; cbn; auto. Qed.
