(* HLL proofs, part 7: Array4 (hll/array4.rs).  Nibble packing, the invariant of DESIGN.md
   appendix B.4 over an arbitrary "true value" function [regs], its preservation by update
   and by shift_to_bigger_cur_min, termination of the shift loop, and the refinement to the
   per-slot-maximum Spec with the estimator trace. *)
From DS Require Import Base.Prelude Model.Hll Proofs.HllBase Proofs.HllArray8 Proofs.HllArray6
  Proofs.HllOpenAddr Proofs.HllSet Proofs.HllAux.
From Coq Require Import ZifyBool ZifyNat ZifyN Permutation.
Open Scope N_scope.
Ltac Zify.zify_post_hook ::= Z.div_mod_to_equations.

Lemma AUX_TOKEN_15 : AUX_TOKEN = 15. Proof. reflexivity. Qed.

(* ---------- nibbles: finite sweep over all bytes and all nibble values ---------- *)
Definition nib_check (b v : N) : bool :=
  let pe := N.lor (N.land b 240) (N.land v 15) in
  let po := N.lor (N.land b 15) (N.shiftl v 4) in
  (N.land pe 15 =? v) && (N.shiftr pe 4 =? N.shiftr b 4) && (pe <? 256) &&
  (N.shiftr po 4 =? v) && (N.land po 15 =? N.land b 15) && (po <? 256) &&
  (N.land b 15 <? 16) && (N.shiftr b 4 <? 16).

Lemma nib_sweep : forallb (fun b => forallb (nib_check b) (Nseq 0 16)) (Nseq 0 256) = true.
Proof. vm_compute. reflexivity. Qed.

Lemma nib_facts : forall b v, b < 256 -> v < 16 -> nib_check b v = true.
Proof.
  intros b v Hb Hv. pose proof nib_sweep as H. rewrite forallb_forall in H.
  specialize (H b ltac:(apply Nseq_In; lia)). rewrite forallb_forall in H.
  apply H. apply Nseq_In. lia.
Qed.

Lemma a4_get_le : forall b s, WFb b -> a4_get_raw b s <= 15.
Proof.
  intros b s W. unfold a4_get_raw. pose proof (nib_facts _ 0 (W (N.shiftr s 1)) ltac:(lia)) as H.
  unfold nib_check in H. destruct (N.land s 1 =? 0); lia.
Qed.

Lemma a4_get_empty : forall s, a4_get_raw aempty s = 0.
Proof. intros. unfold a4_get_raw. rewrite aget_empty. now destruct (N.land s 1 =? 0). Qed.

Lemma a4_put_WF : forall b s v, WFb b -> v <= 15 -> WFb (a4_put_raw b s v).
Proof.
  intros b s v W Hv i. unfold a4_put_raw. rewrite aget_aset.
  destruct (N.eqb_spec (N.shiftr s 1) i) as [E|E]; [|apply W].
  pose proof (nib_facts _ v (W (N.shiftr s 1)) ltac:(lia)) as H. unfold nib_check in H.
  destruct (N.land s 1 =? 0); lia.
Qed.

Lemma a4_get_put_same : forall b s v, WFb b -> v <= 15 -> a4_get_raw (a4_put_raw b s v) s = v.
Proof.
  intros b s v W Hv. unfold a4_get_raw, a4_put_raw. rewrite aget_aset_same.
  pose proof (nib_facts _ v (W (N.shiftr s 1)) ltac:(lia)) as H. unfold nib_check in H.
  destruct (N.land s 1 =? 0); lia.
Qed.

Lemma a4_get_put_other : forall b s s' v, WFb b -> v <= 15 -> s' <> s ->
  a4_get_raw (a4_put_raw b s v) s' = a4_get_raw b s'.
Proof.
  intros b s s' v W Hv Hne. unfold a4_get_raw, a4_put_raw. rewrite aget_aset.
  destruct (N.eqb_spec (N.shiftr s 1) (N.shiftr s' 1)) as [E|E]; [|reflexivity].
  pose proof (nib_facts _ v (W (N.shiftr s 1)) ltac:(lia)) as H. unfold nib_check in H.
  rewrite <- E. rewrite !shiftr_div in E. change (2 ^ 1) with 2 in E.
  assert (Hp : N.land s 1 <> N.land s' 1).
  { change 1 with (2 ^ 1 - 1). rewrite !land_mask. change (2 ^ 1) with 2. lia. }
  assert (Hs : N.land s 1 < 2) by (change 1 with (2 ^ 1 - 1); rewrite land_mask; change (2 ^ 1) with 2; lia).
  assert (Hs' : N.land s' 1 < 2) by (change 1 with (2 ^ 1 - 1); rewrite land_mask; change (2 ^ 1) with 2; lia).
  destruct (N.eqb_spec (N.land s 1) 0), (N.eqb_spec (N.land s' 1) 0); lia.
Qed.

(* ---------- the invariant (DESIGN.md appendix B.4) ---------- *)
Definition auxdom (aux : option auxmap) (j v : N) : Prop :=
  match aux with None => False | Some m => amaps m j v end.
Definition AuxOK (lgk : N) (aux : option auxmap) : Prop :=
  match aux with None => True | Some m => AuxInv lgk m end.

(* [regs] is the true register file; k = 2^lgk slots *)
Definition Core4 (lgk : N) (regs : N -> N) (bytes : arr) (cm : N) (aux : option auxmap) : Prop :=
  WFb bytes /\ AuxOK lgk aux /\
  (forall j, j < 2 ^ lgk ->
     (a4_get_raw bytes j < 15 -> regs j = cm + a4_get_raw bytes j) /\
     (a4_get_raw bytes j = 15 -> cm + 15 <= regs j /\ auxdom aux j (regs j))) /\
  (forall j v, auxdom aux j v -> j < 2 ^ lgk /\ a4_get_raw bytes j = 15).

Lemma auxdom_fun : forall lgk aux j v v', AuxOK lgk aux -> auxdom aux j v -> auxdom aux j v' -> v = v'.
Proof. intros lgk [m|] j v v' H; cbn [auxdom AuxOK] in *; [now apply (amaps_fun lgk m j)|tauto]. Qed.

Lemma core4_ext : forall lgk regs regs' bytes cm aux, (forall j, j < 2 ^ lgk -> regs j = regs' j) ->
  Core4 lgk regs bytes cm aux -> Core4 lgk regs' bytes cm aux.
Proof.
  intros lgk regs regs' bytes cm aux Hext (W & HA & Hr & Hd). split; [assumption|]. split; [assumption|].
  split; [|assumption]. intros j Hj. rewrite <- (Hext j Hj). now apply Hr.
Qed.

Lemma core4_ge : forall lgk regs bytes cm aux j, Core4 lgk regs bytes cm aux -> j < 2 ^ lgk ->
  cm + a4_get_raw bytes j <= regs j.
Proof.
  intros lgk regs bytes cm aux j (W & _ & Hr & _) Hj. destruct (Hr j Hj) as [A B].
  pose proof (a4_get_le bytes j W). destruct (N.eq_dec (a4_get_raw bytes j) 15) as [E|E].
  - destruct (B E). lia.
  - rewrite A by lia. lia.
Qed.

Lemma core4_raw0 : forall lgk regs bytes cm aux j, Core4 lgk regs bytes cm aux -> j < 2 ^ lgk ->
  (regs j = cm <-> a4_get_raw bytes j = 0).
Proof.
  intros lgk regs bytes cm aux j (W & _ & Hr & _) Hj. destruct (Hr j Hj) as [A B].
  pose proof (a4_get_le bytes j W). destruct (N.eq_dec (a4_get_raw bytes j) 15) as [E|E].
  - destruct (B E). lia.
  - rewrite A by lia. lia.
Qed.

Definition upd_regs (regs : N -> N) (j nv : N) : N -> N :=
  fun j' => if j' =? j then N.max (regs j') nv else regs j'.

(* the effect of the three writing branches of Array4::update, stated once *)
Lemma core4_write : forall lgk regs bytes cm aux bytes' aux' j nv,
  Core4 lgk regs bytes cm aux -> j < 2 ^ lgk -> regs j < nv ->
  WFb bytes' -> AuxOK lgk aux' ->
  (forall j', j' <> j -> a4_get_raw bytes' j' = a4_get_raw bytes j') ->
  (forall j' v, j' <> j -> (auxdom aux' j' v <-> auxdom aux j' v)) ->
  ((a4_get_raw bytes' j = nv - cm /\ nv - cm < 15 /\ cm <= nv /\ forall v, ~ auxdom aux' j v) \/
   (a4_get_raw bytes' j = 15 /\ cm + 15 <= nv /\ forall v, auxdom aux' j v <-> v = nv)) ->
  Core4 lgk (upd_regs regs j nv) bytes' cm aux'.
Proof.
  intros lgk regs bytes cm aux bytes' aux' j nv (W & HA & Hr & Hd) Hj Hlt W' HA' Hb Ha Hat.
  split; [assumption|]. split; [assumption|]. split.
  - intros j' Hj'. unfold upd_regs. destruct (N.eqb_spec j' j) as [->|Hne].
    + replace (N.max (regs j) nv) with nv by lia.
      destruct Hat as [(Hg & Hs & Hle & Hn)|(Hg & Hle & Hm)]; rewrite Hg.
      * split; [lia|lia].
      * split; [lia|]. intros _. split; [assumption|]. now apply Hm.
    + rewrite (Hb j' Hne). destruct (Hr j' Hj') as [A B]. split; [assumption|].
      intros E. destruct (B E) as [B1 B2]. split; [assumption|]. now apply Ha.
  - intros j' v Hdom. destruct (N.eq_dec j' j) as [->|Hne].
    + split; [assumption|]. destruct Hat as [(_ & _ & _ & Hn)|(Hg & _ & _)]; [exfalso; now apply (Hn v)|assumption].
    + rewrite (Hb j' Hne). apply (Hd j' v). now apply Ha.
Qed.

(* ---------- first loop of shift_to_bigger_cur_min ---------- *)
Definition dec_raw (r : N) : N := if r <? 15 then r - 1 else r.

Lemma shift_slots_spec : forall l bytes n, WFb bytes -> NoDup l -> (forall j, In j l -> a4_get_raw bytes j <> 0) ->
  exists bytes1, a4_shift_slots l bytes n
                 = Ok (bytes1, n + N.of_nat (length (filter (fun j => a4_get_raw bytes j =? 1) l))) /\
    WFb bytes1 /\
    (forall j, In j l -> a4_get_raw bytes1 j = dec_raw (a4_get_raw bytes j)) /\
    (forall j, ~ In j l -> a4_get_raw bytes1 j = a4_get_raw bytes j).
Proof.
  induction l as [|s r IH]; intros bytes n W Hnd Hnz; cbn [a4_shift_slots filter length].
  - exists bytes. split; [f_equal; f_equal; lia|]. split; [assumption|]. split; [intros j []|reflexivity].
  - inversion Hnd as [|? ? Hnin Hnd']; subst. rewrite AUX_TOKEN_15.
    pose proof (Hnz s (or_introl eq_refl)) as Hs0. pose proof (a4_get_le bytes s W) as Hle.
    destruct (N.eqb_spec (a4_get_raw bytes s) 0) as [E0|_]; [contradiction|].
    destruct (N.ltb_spec (a4_get_raw bytes s) 15) as [Hlt|Hge].
    + set (bytes' := a4_put_raw bytes s (a4_get_raw bytes s - 1)).
      assert (W' : WFb bytes') by (apply a4_put_WF; [assumption|lia]).
      assert (Hoth : forall j, j <> s -> a4_get_raw bytes' j = a4_get_raw bytes j).
      { intros j Hj. apply a4_get_put_other; [assumption|lia|assumption]. }
      destruct (IH bytes' (if a4_get_raw bytes s - 1 =? 0 then n + 1 else n) W' Hnd') as (b1 & Hrun & W1 & Hin & Hout).
      { intros j Hj. rewrite Hoth; [apply Hnz; now right|]. intros ->. contradiction. }
      exists b1. split; [|split; [assumption|split]].
      * rewrite Hrun. do 2 f_equal.
        assert (Hf : filter (fun j => a4_get_raw bytes' j =? 1) r = filter (fun j => a4_get_raw bytes j =? 1) r).
        { apply filter_ext_in. intros j Hj. rewrite Hoth; [reflexivity|]. intros ->. contradiction. }
        rewrite Hf. destruct (N.eqb_spec (a4_get_raw bytes s) 1) as [E1|E1];
          destruct (N.eqb_spec (a4_get_raw bytes s - 1) 0); cbn [length]; lia.
      * intros j [<-|Hj].
        -- rewrite Hout by assumption. unfold bytes'. rewrite a4_get_put_same by (assumption || lia).
           unfold dec_raw. destruct (N.ltb_spec (a4_get_raw bytes s) 15); lia.
        -- rewrite Hin by assumption. rewrite Hoth; [reflexivity|]. intros ->. contradiction.
      * intros j Hj. cbn [In] in Hj. rewrite Hout by tauto. apply Hoth. intros ->. tauto.
    + destruct (IH bytes n W Hnd') as (b1 & Hrun & W1 & Hin & Hout).
      { intros j Hj. apply Hnz. now right. }
      exists b1. split; [|split; [assumption|split]].
      * rewrite Hrun. do 2 f_equal. destruct (N.eqb_spec (a4_get_raw bytes s) 1); cbn [length]; lia.
      * intros j [<-|Hj]; [|now apply Hin].
        destruct (in_dec N.eq_dec s r) as [Hs|Hs]; [contradiction|]. rewrite Hout by assumption.
        unfold dec_raw. destruct (N.ltb_spec (a4_get_raw bytes s) 15); lia.
      * intros j Hj. cbn [In] in Hj. apply Hout. tauto.
Qed.

(* ---------- second loop: rebuilding the aux map ---------- *)
Lemma auxdom_new : forall lgk j v, 4 <= lgk <= 21 -> ~ auxdom (Some (aux_new lgk)) j v.
Proof. intros lgk j v Hk. cbn [auxdom]. now apply aux_new_inv. Qed.

(* aux.get_or_insert_with(|| AuxMap::new(lg_config_k)).insert(slot, value) *)
Lemma aux_insert_opt : forall lgk aux j v, 4 <= lgk <= 21 -> AuxOK lgk aux -> j < 2 ^ lgk ->
  (forall v', ~ auxdom aux j v') -> v <> 0 ->
  exists m', aux_insert (match aux with Some m => m | None => aux_new lgk end) j v = Ok m' /\ AuxInv lgk m' /\
    forall j' v', amaps m' j' v' <-> (j' = j /\ v' = v) \/ auxdom aux j' v'.
Proof.
  intros lgk [m|] j v Hk HA Hj Hn Hv; cbn [AuxOK auxdom] in *.
  - now apply aux_insert_spec.
  - destruct (aux_new_inv lgk Hk) as [HI Hnone].
    destruct (aux_insert_spec lgk (aux_new lgk) j v HI Hj (Hnone j) Hv) as (m' & Hi & HI' & Hm').
    exists m'. split; [assumption|]. split; [assumption|]. intros j' v'. rewrite Hm'.
    split; (intros [H|H]; [now left|]); [exfalso; now apply (Hnone j' v')|contradiction].
Qed.

Lemma shift_aux_spec : forall lgk ncm, 4 <= lgk <= 21 ->
  forall pairs bytes aux, WFb bytes -> AuxOK lgk aux -> NoDup (map fst pairs) ->
  (forall j v, In (j, v) pairs -> j < 2 ^ lgk /\ a4_get_raw bytes j = 15 /\ ncm + 14 <= v /\ v <> 0 /\
                                  forall v', ~ auxdom aux j v') ->
  exists bytes2 aux2, a4_shift_aux pairs lgk ncm bytes aux = Ok (bytes2, aux2) /\ WFb bytes2 /\ AuxOK lgk aux2 /\
    (forall j v, In (j, v) pairs -> v - ncm < 15 -> a4_get_raw bytes2 j = v - ncm) /\
    (forall j, (forall v, In (j, v) pairs -> 15 <= v - ncm) -> a4_get_raw bytes2 j = a4_get_raw bytes j) /\
    (forall j v, auxdom aux2 j v <-> auxdom aux j v \/ (In (j, v) pairs /\ 15 <= v - ncm)).
Proof.
  intros lgk ncm Hk. induction pairs as [|[s w] r IH]; intros bytes aux W HA Hnd Hp; cbn [a4_shift_aux].
  - exists bytes, aux. split; [reflexivity|]. split; [assumption|]. split; [assumption|].
    split; [intros j v []|]. split; [reflexivity|]. intros j v. split; [tauto|]. intros [H|[[] _]]. assumption.
  - cbn [map fst] in Hnd. inversion Hnd as [|? ? Hnin Hnd']; subst.
    destruct (Hp s w (or_introl eq_refl)) as (Hs & Hraw & Hw & Hw0 & Hnone).
    rewrite Hraw, AUX_TOKEN_15. cbn [N.eqb negb]. change (15 =? 15) with true. cbn [negb].
    destruct (N.ltb_spec w ncm) as [Hlt|_]; [lia|].
    assert (Hrest : forall j v, In (j, v) r -> j <> s).
    { intros j v Hin ->. apply Hnin. apply in_map_iff. exists (s, v). split; [reflexivity|assumption]. }
    destruct (N.ltb_spec (w - ncm) 15) as [Hns|Hns].
    + set (bytes' := a4_put_raw bytes s (w - ncm)).
      assert (W' : WFb bytes') by (apply a4_put_WF; [assumption|lia]).
      assert (Hoth : forall j, j <> s -> a4_get_raw bytes' j = a4_get_raw bytes j).
      { intros j Hj. apply a4_get_put_other; [assumption|lia|assumption]. }
      destruct (IH bytes' aux W' HA Hnd') as (b2 & a2 & Hrun & W2 & HA2 & Hlow & Hkeep & Hdom).
      { intros j v Hin. destruct (Hp j v (or_intror Hin)) as (A & B & C & D & F).
        rewrite Hoth by (now apply (Hrest j v)). tauto. }
      exists b2, a2. split; [assumption|]. split; [assumption|]. split; [assumption|]. split; [|split].
      * intros j v [Heq|Hin] Hv; [|now apply Hlow]. inversion Heq; subst.
        rewrite Hkeep; [unfold bytes'; apply a4_get_put_same; [assumption|lia]|].
        intros v' Hin'. exfalso. now apply (Hrest j v').
      * intros j Hall. destruct (N.eq_dec j s) as [->|Hne].
        -- specialize (Hall w (or_introl eq_refl)). lia.
        -- rewrite Hkeep; [now apply Hoth|]. intros v Hin. apply Hall. now right.
      * intros j v. rewrite Hdom. split; (intros [H|[Hin Hv]]; [now left|right]); [split; [now right|assumption]|].
        destruct Hin as [Heq|Hin]; [inversion Heq; subst; lia|]. now split.
    + destruct (aux_insert_opt lgk aux s w Hk HA Hs Hnone Hw0) as (m' & Hins & HI' & Hm').
      rewrite Hins. cbn [obind].
      destruct (IH bytes (Some m') W HI' Hnd') as (b2 & a2 & Hrun & W2 & HA2 & Hlow & Hkeep & Hdom).
      { intros j v Hin. destruct (Hp j v (or_intror Hin)) as (A & B & C & D & F).
        split; [assumption|]. split; [assumption|]. split; [assumption|]. split; [assumption|].
        intros v'. cbn [auxdom]. rewrite Hm'. intros [[-> _]|H]; [now apply (Hrest s v)|now apply (F v')]. }
      exists b2, a2. split; [assumption|]. split; [assumption|]. split; [assumption|]. split; [|split].
      * intros j v [Heq|Hin] Hv; [inversion Heq; subst; lia|now apply Hlow].
      * intros j Hall. apply Hkeep. intros v Hin. apply Hall. now right.
      * intros j v. rewrite Hdom. cbn [auxdom]. rewrite Hm'. split.
        -- intros [[[-> ->]|H]|[Hin Hv]]; [right; split; [now left|assumption]|now left|right; split; [now right|assumption]].
        -- intros [H|[[Heq|Hin] Hv]]; [left; now right|inversion Heq; subst; left; left; now split|right; now split].
Qed.

Section Est.
Variable E : Type.
Variable eupd : N -> N -> N -> E -> E.

Definition Inv4 (lgk : N) (regs : N -> N) (a : arr4 E) : Prop :=
  a4_lgk a = lgk /\ Core4 lgk regs (a4_bytes a) (a4_cur_min a) (a4_aux a) /\
  a4_num a = count_regs (2 ^ lgk) (fun j => regs j =? a4_cur_min a).

Lemma inv4_ext : forall lgk regs regs' a, (forall j, j < 2 ^ lgk -> regs j = regs' j) ->
  Inv4 lgk regs a -> Inv4 lgk regs' a.
Proof.
  intros lgk regs regs' a Hext (Hk & Hc & Hn). split; [assumption|]. split; [now apply (core4_ext lgk regs)|].
  rewrite Hn. apply count_regs_ext. intros j Hj. now rewrite (Hext j Hj).
Qed.

Lemma inv4_new : forall lgk e, Inv4 lgk (fun _ => 0) (a4_new lgk e).
Proof.
  intros lgk e. unfold Inv4, a4_new. cbn [a4_lgk a4_bytes a4_cur_min a4_aux a4_num]. split; [reflexivity|]. split.
  - split; [apply WFb_empty|]. split; [exact I|]. split.
    + intros j _. rewrite a4_get_empty. split; [reflexivity|discriminate].
    + intros j v [].
  - symmetry. apply count_regs_all. intros. reflexivity.
Qed.

(* Array4::get returns the true value *)
Lemma a4_get_regs : forall lgk regs a j, Inv4 lgk regs a -> j < 2 ^ lgk -> a4_get a j = Ok (regs j).
Proof.
  intros lgk regs a j (Hk & (W & HA & Hr & Hd) & Hn) Hj. unfold a4_get. rewrite AUX_TOKEN_15.
  destruct (Hr j Hj) as [A B]. pose proof (a4_get_le _ j W) as Hle.
  destruct (N.ltb_spec (a4_get_raw (a4_bytes a) j) 15) as [Hlt|Hge].
  - now rewrite A.
  - destruct (B ltac:(lia)) as [_ Hdom]. destruct (a4_aux a) as [m|]; cbn [auxdom AuxOK] in *; [|contradiction].
    rewrite (aux_get_some lgk m j (regs j) HA Hdom). reflexivity.
Qed.

(* ---------- one shift ---------- *)
Lemma shift_step : forall lgk regs a, 4 <= lgk <= 21 -> Inv4 lgk regs a -> a4_num a = 0 ->
  exists a', a4_shift_to_bigger_cur_min a = Ok a' /\ Inv4 lgk regs a' /\
             a4_cur_min a' = a4_cur_min a + 1 /\ a4_est a' = a4_est a.
Proof.
  intros lgk regs a Hlgk (Hk & HC & Hn) Hz.
  pose proof HC as (W & HA & Hr & Hd).
  set (k := 2 ^ lgk) in *. set (bytes := a4_bytes a) in *. set (cm := a4_cur_min a) in *.
  assert (Hnz : forall j, j < k -> a4_get_raw bytes j <> 0).
  { intros j Hj E0. apply (core4_raw0 lgk regs bytes cm (a4_aux a) j HC Hj) in E0.
    rewrite Hz in Hn. symmetry in Hn. pose proof (count_regs_zero_none k _ j Hn Hj) as F. cbv beta in F. lia. }
  unfold a4_shift_to_bigger_cur_min. rewrite Hk. fold k bytes cm.
  destruct (shift_slots_spec (Nseq 0 (N.to_nat k)) bytes 0 W (Nseq_NoDup _ _)) as (b1 & Hrun & W1 & Hin & _).
  { intros j Hj. apply Hnz. now apply Nseq_range_In. }
  rewrite Hrun. cbn [obind]. rewrite N.add_0_l.
  fold (count_regs k (fun j => a4_get_raw bytes j =? 1)).
  assert (Hb1 : forall j, j < k -> a4_get_raw b1 j = dec_raw (a4_get_raw bytes j)).
  { intros j Hj. apply Hin. now apply Nseq_range_In. }
  assert (Hcount : count_regs k (fun j => a4_get_raw bytes j =? 1) = count_regs k (fun j => regs j =? cm + 1)).
  { apply count_regs_ext. intros j Hj. destruct (Hr j Hj) as [A B]. pose proof (a4_get_le bytes j W).
    destruct (N.eq_dec (a4_get_raw bytes j) 15) as [E15|E15].
    - destruct (B E15). lia.
    - rewrite A by lia. lia. }
  destruct (a4_aux a) as [old|] eqn:Eaux.
  - (* live aux map *)
    cbn [auxdom AuxOK] in *.
    destruct (shift_aux_spec lgk (cm + 1) Hlgk (aux_pairs old) b1 None W1 I (aux_pairs_NoDup lgk old HA))
      as (b2 & aux2 & Hrun2 & W2 & HA2 & Hlow & Hkeep & Hdom).
    { intros j v Hp. apply aux_pairs_In in Hp. destruct (Hd j v Hp) as [Hj Hraw].
      destruct (Hr j Hj) as [_ B]. destruct (B Hraw) as [B1 B2].
      pose proof (amaps_fun lgk old j _ _ HA Hp B2) as ->.
      split; [assumption|]. split; [rewrite Hb1 by assumption; rewrite Hraw; reflexivity|].
      split; [lia|]. split; [lia|]. intros v' []. }
    rewrite Hrun2. cbn [obind]. eexists. split; [reflexivity|]. cbn [a4_cur_min a4_est].
    split; [|split; reflexivity]. unfold Inv4. cbn [a4_lgk a4_bytes a4_cur_min a4_aux a4_num].
    split; [reflexivity|]. split; [|fold k; now rewrite Hcount].
    split; [assumption|]. split; [assumption|]. split.
    + intros j Hj. destruct (Hr j Hj) as [A B]. pose proof (a4_get_le bytes j W) as Hle.
      destruct (N.eq_dec (a4_get_raw bytes j) 15) as [E15|E15].
      * destruct (B E15) as [B1 B2].
        destruct (N.ltb_spec (regs j - (cm + 1)) 15) as [Hs|Hs].
        -- rewrite (Hlow j (regs j)); [|now apply aux_pairs_In|assumption]. split; [lia|lia].
        -- assert (Hall : forall v, In (j, v) (aux_pairs old) -> 15 <= v - (cm + 1)).
           { intros v Hp. apply aux_pairs_In in Hp. now rewrite (amaps_fun lgk old j _ _ HA Hp B2). }
           rewrite (Hkeep j Hall), (Hb1 j Hj), E15. cbn [dec_raw]. change (dec_raw 15) with 15.
           split; [lia|]. intros _. split; [lia|]. apply Hdom. right. split; [now apply aux_pairs_In|assumption].
      * assert (Hall : forall v, In (j, v) (aux_pairs old) -> 15 <= v - (cm + 1)).
        { intros v Hp. apply aux_pairs_In in Hp. destruct (Hd j v Hp). lia. }
        rewrite (Hkeep j Hall), (Hb1 j Hj). unfold dec_raw.
        destruct (N.ltb_spec (a4_get_raw bytes j) 15); [|lia]. specialize (Hnz j Hj).
        rewrite A by lia. split; [lia|lia].
    + intros j v Hdv. apply Hdom in Hdv. destruct Hdv as [[]|[Hp Hv]].
      assert (Hall : forall v', In (j, v') (aux_pairs old) -> 15 <= v' - (cm + 1)).
      { intros v' Hp'. apply aux_pairs_In in Hp, Hp'. now rewrite (amaps_fun lgk old j _ _ HA Hp' Hp). }
      apply aux_pairs_In in Hp. destruct (Hd j v Hp) as [Hj Hraw]. split; [assumption|].
      rewrite (Hkeep j Hall), (Hb1 j Hj), Hraw. reflexivity.
  - (* no aux map *)
    cbn [auxdom AuxOK] in *. eexists. split; [reflexivity|]. cbn [a4_cur_min a4_est].
    split; [|split; reflexivity]. unfold Inv4. cbn [a4_lgk a4_bytes a4_cur_min a4_aux a4_num].
    split; [reflexivity|]. split; [|fold k; now rewrite Hcount].
    split; [assumption|]. split; [exact I|]. split; [|intros j v []].
    intros j Hj. destruct (Hr j Hj) as [A B]. pose proof (a4_get_le bytes j W) as Hle.
    destruct (N.eq_dec (a4_get_raw bytes j) 15) as [E15|E15]; [destruct (B E15) as [_ []]|].
    rewrite (Hb1 j Hj). unfold dec_raw. destruct (N.ltb_spec (a4_get_raw bytes j) 15); [|lia].
    specialize (Hnz j Hj). rewrite A by lia. split; [lia|lia].
Qed.

(* ---------- the loop: terminates because cur_min < min value <= 63 ---------- *)
Lemma shift_loop_spec : forall lgk regs, 4 <= lgk <= 21 -> (forall j, j < 2 ^ lgk -> regs j <= 63) ->
  forall fuel a, Inv4 lgk regs a -> 64 <= N.of_nat fuel + a4_cur_min a ->
  exists a', a4_shift_loop fuel a = Ok a' /\ Inv4 lgk regs a' /\ 0 < a4_num a' /\ a4_est a' = a4_est a /\
             a4_cur_min a <= a4_cur_min a'.
Proof.
  intros lgk regs Hlgk Hb. induction fuel as [|f IH]; intros a HI Hfuel.
  - (* fuel 0 means cur_min >= 64: impossible, register 0 holds at most 63 *)
    exfalso. destruct HI as (_ & HC & _). pose proof (pow2_pos lgk) as Hp.
    pose proof (core4_ge lgk regs _ _ _ 0 HC Hp). specialize (Hb 0 Hp). lia.
  - cbn [a4_shift_loop]. destruct (N.eqb_spec (a4_num a) 0) as [Ez|Ez].
    + destruct (shift_step lgk regs a Hlgk HI Ez) as (a1 & Hs & HI1 & Hcm & He). rewrite Hs. cbn [obind].
      destruct (IH a1 HI1 ltac:(lia)) as (a' & Hl & HI' & Hpos & He' & Hcm').
      exists a'. split; [assumption|]. split; [assumption|]. split; [assumption|]. split; [congruence|lia].
    + exists a. split; [reflexivity|]. split; [assumption|]. split; [lia|]. split; [reflexivity|lia].
Qed.

(* ---------- Array4::update ---------- *)
Lemma count_after_grow : forall k regs j nv cm, j < k -> regs j < nv -> cm < nv ->
  count_regs k (fun j' => upd_regs regs j nv j' =? cm)
  = (if regs j =? cm then count_regs k (fun j' => regs j' =? cm) - 1 else count_regs k (fun j' => regs j' =? cm))
  /\ (regs j = cm -> 1 <= count_regs k (fun j' => regs j' =? cm)).
Proof.
  intros k regs j nv cm Hj Hlt Hcm.
  pose proof (count_regs_change k (fun j' => regs j' =? cm) (fun j' => upd_regs regs j nv j' =? cm) j Hj) as H.
  cbv beta in H. unfold upd_regs in H at 2. rewrite N.eqb_refl in H.
  specialize (H ltac:(intros j' _ Hne; unfold upd_regs; destruct (N.eqb_spec j' j); [contradiction|reflexivity])).
  replace (N.max (regs j) nv =? cm) with false in H by lia.
  destruct (N.eqb_spec (regs j) cm); split; lia.
Qed.

Lemma a4_update_spec : forall lgk regs a c, 4 <= lgk <= 21 -> Inv4 lgk regs a -> 0 < a4_num a ->
  (forall j, j < 2 ^ lgk -> regs j <= 63) -> valid c ->
  exists a', a4_update eupd a c = Ok a' /\
    Inv4 lgk (upd_regs regs (cslot lgk c) (cvalue c)) a' /\ 0 < a4_num a' /\
    a4_est a' = (if regs (cslot lgk c) <? cvalue c then eupd lgk (regs (cslot lgk c)) (cvalue c) (a4_est a) else a4_est a).
Proof.
  intros lgk regs a c Hlgk HI Hpos Hb [Hv1 Hv63].
  pose proof HI as (Hk & HC & Hn). pose proof HC as (W & HA & Hr & Hd).
  unfold a4_update. rewrite Hk, slot_of_cslot, get_value_div, AUX_TOKEN_15.
  set (j := cslot lgk c). set (nv := cvalue c) in *.
  assert (Hj : j < 2 ^ lgk) by apply cslot_lt.
  set (cm := a4_cur_min a) in *. set (bytes := a4_bytes a) in *.
  pose proof (core4_ge lgk regs bytes cm _ j HC Hj) as Hge. pose proof (a4_get_le bytes j W) as Hle.
  destruct (Hr j Hj) as [Hlow Hexc].
  assert (Hnoop : regs j >= nv -> Inv4 lgk (upd_regs regs j nv) a /\
                  a4_est a = (if regs j <? nv then eupd lgk (regs j) nv (a4_est a) else a4_est a)).
  { intros Hge'. split.
    - apply (inv4_ext lgk regs); [|assumption]. intros j' _. unfold upd_regs. destruct (N.eqb_spec j' j); [subst; lia|reflexivity].
    - destruct (N.ltb_spec (regs j) nv); [lia|reflexivity]. }
  destruct (N.leb_spec nv cm) as [H1|H1].
  { exists a. split; [reflexivity|]. destruct (Hnoop ltac:(lia)). tauto. }
  destruct (N.leb_spec nv (a4_get_raw bytes j + cm)) as [H2|H2].
  { exists a. split; [reflexivity|]. destruct (Hnoop ltac:(lia)). tauto. }
  (* the old value *)
  assert (Hov : (if a4_get_raw bytes j <? 15 then Ok (a4_get_raw bytes j + cm)
                 else match a4_aux a with
                      | None => Stuck
                      | Some m => obind (aux_get m j) (fun r => match r with Some v => Ok v | None => Stuck end)
                      end) = Ok (regs j)).
  { destruct (N.ltb_spec (a4_get_raw bytes j) 15) as [Hl|Hl].
    - rewrite Hlow by assumption. f_equal. lia.
    - destruct (Hexc ltac:(lia)) as [_ Hdom]. destruct (a4_aux a) as [m|]; cbn [auxdom AuxOK] in *; [|contradiction].
      now rewrite (aux_get_some lgk m j (regs j) HA Hdom). }
  rewrite Hov. cbn [obind].
  destruct (N.leb_spec nv (regs j)) as [H3|H3].
  { exists a. split; [reflexivity|]. destruct (Hnoop ltac:(lia)). tauto. }
  assert (Hlt : (regs j <? nv) = true) by lia. rewrite Hlt.
  (* the write: new bytes and aux map *)
  assert (Hwrite : exists bytes' aux',
    (if a4_get_raw bytes j =? 15
     then if 15 <=? nv - cm
          then match a4_aux a with
               | None => Stuck
               | Some m => obind (aux_replace m j nv) (fun m' => Ok (bytes, Some m'))
               end
          else Stuck
     else if 15 <=? nv - cm
          then obind (aux_insert (match a4_aux a with Some m => m | None => aux_new lgk end) j nv)
                 (fun m' => Ok (a4_put_raw bytes j 15, Some m'))
          else Ok (a4_put_raw bytes j (nv - cm), a4_aux a)) = Ok (bytes', aux') /\
    Core4 lgk (upd_regs regs j nv) bytes' cm aux').
  { destruct (N.eqb_spec (a4_get_raw bytes j) 15) as [E15|E15].
    - destruct (Hexc E15) as [Hc15 Hdom].
      destruct (N.leb_spec 15 (nv - cm)) as [_|Hs]; [|lia].
      destruct (a4_aux a) as [m|] eqn:Eaux; cbn [auxdom AuxOK] in *; [|contradiction].
      destruct (aux_replace_spec lgk m j (regs j) nv HA Hdom ltac:(lia)) as (m' & Hrep & HI' & Hm').
      rewrite Hrep. cbn [obind]. exists bytes, (Some m'). split; [reflexivity|].
      apply (core4_write lgk regs bytes cm (Some m) bytes (Some m') j nv); try assumption; try lia.
      + intros j' v Hne. cbn [auxdom]. rewrite Hm'. split; [intros [[? _]|[_ ?]]; [contradiction|assumption]|tauto].
      + right. split; [assumption|]. split; [lia|]. intros v. cbn [auxdom]. rewrite Hm'. split.
        * intros [[_ ?]|[? _]]; [assumption|contradiction].
        * intros ->. left. now split.
    - assert (Hnodom : forall v, ~ auxdom (a4_aux a) j v).
      { intros v Hdv. destruct (Hd j v Hdv). contradiction. }
      destruct (N.leb_spec 15 (nv - cm)) as [Hs|Hs].
      + destruct (aux_insert_opt lgk (a4_aux a) j nv Hlgk HA Hj Hnodom ltac:(lia)) as (m' & Hins & HI' & Hm').
        rewrite Hins. cbn [obind]. exists (a4_put_raw bytes j 15), (Some m'). split; [reflexivity|].
        apply (core4_write lgk regs bytes cm (a4_aux a) _ (Some m') j nv); try assumption; try lia.
        * apply a4_put_WF; [assumption|lia].
        * intros j' Hne. apply a4_get_put_other; [assumption|lia|assumption].
        * intros j' v Hne. cbn [auxdom]. rewrite Hm'. split; [intros [[? _]|?]; [contradiction|assumption]|tauto].
        * right. split; [apply a4_get_put_same; [assumption|lia]|]. split; [lia|]. intros v. cbn [auxdom]. rewrite Hm'. split.
          -- intros [[_ ?]|?]; [assumption|]. exfalso. now apply (Hnodom v).
          -- intros ->. left. now split.
      + exists (a4_put_raw bytes j (nv - cm)), (a4_aux a). split; [reflexivity|].
        apply (core4_write lgk regs bytes cm (a4_aux a) _ (a4_aux a) j nv); try assumption; try lia.
        * apply a4_put_WF; [assumption|lia].
        * intros j' Hne. apply a4_get_put_other; [assumption|lia|assumption].
        * intros j' v Hne. reflexivity.
        * left. split; [apply a4_get_put_same; [assumption|lia]|]. split; [assumption|]. split; [lia|assumption]. }
  destruct Hwrite as (bytes' & aux' & Hw & HC'). rewrite Hw. cbn [obind].
  destruct (count_after_grow (2 ^ lgk) regs j nv cm Hj ltac:(lia) ltac:(lia)) as [Hcnt Hone].
  destruct (N.eqb_spec (regs j) cm) as [Ecm|Ecm].
  - destruct (N.eqb_spec (a4_num a) 0) as [E0|E0]; [lia|].
    set (a1 := mkA4 lgk bytes' cm (a4_num a - 1) aux' (eupd lgk (regs j) nv (a4_est a))).
    assert (HI1 : Inv4 lgk (upd_regs regs j nv) a1).
    { unfold Inv4, a1. cbn [a4_lgk a4_bytes a4_cur_min a4_aux a4_num]. split; [reflexivity|]. split; [assumption|].
      rewrite Hcnt, Hn. reflexivity. }
    destruct (shift_loop_spec lgk (upd_regs regs j nv) Hlgk) with (fuel := 64%nat) (a := a1)
      as (a' & Hl & HI' & Hpos' & He' & _).
    + intros j' Hj'. unfold upd_regs. specialize (Hb j' Hj'). destruct (j' =? j); lia.
    + assumption.
    + unfold a1. cbn [a4_cur_min]. lia.
    + exists a'. split; [assumption|]. split; [assumption|]. split; [assumption|]. rewrite He'. reflexivity.
  - eexists. split; [reflexivity|]. cbn [a4_num a4_est]. split; [|split; [assumption|reflexivity]].
    unfold Inv4. cbn [a4_lgk a4_bytes a4_cur_min a4_aux a4_num]. split; [reflexivity|]. split; [assumption|].
    rewrite Hcnt, Hn. reflexivity.
Qed.

End Est.

(* ---------- refinement to the Spec, with the estimator trace ---------- *)
Section Rep.
Variable E : Type.
Variable eupd : N -> N -> N -> E -> E.

Definition Rep4 (lgk : N) (seen : list N) (a : arr4 E) (e : E) : Prop :=
  Inv4 E lgk (spec_regs lgk seen) a /\ 0 < a4_num a /\ a4_est a = e.

Lemma rep4_new : forall lgk e, Rep4 lgk [] (a4_new lgk e) e.
Proof.
  intros. split; [apply inv4_new|]. split; [|reflexivity]. unfold a4_new. cbn [a4_num]. apply pow2_pos.
Qed.

Lemma rep4_step : forall lgk seen a e c, 4 <= lgk <= 21 -> Forall valid (c :: seen) -> Rep4 lgk seen a e ->
  exists a', a4_update eupd a c = Ok a' /\ Rep4 lgk (c :: seen) a' (est_step eupd lgk seen c e).
Proof.
  intros lgk seen a e c Hlgk Hval (HI & Hpos & He). inversion Hval as [|? ? Hc Hseen]; subst.
  destruct (a4_update_spec E eupd lgk (spec_regs lgk seen) a c Hlgk HI Hpos) as (a' & Hu & HI' & Hpos' & He').
  - intros j _. now apply spec_regs_bound.
  - assumption.
  - exists a'. split; [assumption|]. split; [|split; [assumption|]].
    + apply (inv4_ext E lgk (upd_regs (spec_regs lgk seen) (cslot lgk c) (cvalue c))); [|assumption].
      intros j _. unfold upd_regs. cbn [spec_regs]. rewrite (N.eqb_sym j).
      destruct (cslot lgk c =? j); lia.
    + rewrite He'. unfold est_step. reflexivity.
Qed.

Lemma rep4_fold : forall lgk cs seen a e, 4 <= lgk <= 21 -> Forall valid cs -> Forall valid seen -> Rep4 lgk seen a e ->
  exists a', a4_update_all eupd cs a = Ok a' /\ Rep4 lgk (rev cs ++ seen) a' (spec_est eupd lgk seen cs e).
Proof.
  induction cs as [|c r IH]; intros seen a e Hlgk Hcs Hseen HR; cbn [a4_update_all spec_est rev app].
  - exists a. split; [reflexivity|assumption].
  - inversion Hcs as [|? ? Hc Hr]; subst.
    destruct (rep4_step lgk seen a e c Hlgk (Forall_cons _ Hc Hseen) HR) as (a1 & Hu & HR1).
    rewrite Hu. cbn [obind].
    destruct (IH (c :: seen) a1 _ Hlgk Hr (Forall_cons _ Hc Hseen) HR1) as (a' & Hall & HR').
    exists a'. split; [assumption|]. rewrite <- app_assoc. exact HR'.
Qed.

End Rep.

Arguments Inv4 {E}. Arguments Rep4 {E}.

(* what Array4 hands to the estimator as "number of unhit registers" is the number of zero
   registers, exactly what Array6/Array8 hand over *)
Lemma rep4_unhit : forall E lgk seen (a : arr4 E) e, Rep4 lgk seen a e ->
  (if a4_cur_min a =? 0 then a4_num a else 0) = spec_zeros lgk seen.
Proof.
  intros E lgk seen a e ((Hk & HC & Hn) & _ & _). unfold spec_zeros.
  destruct (N.eqb_spec (a4_cur_min a) 0) as [E0|E0].
  - rewrite Hn, E0. reflexivity.
  - symmetry. assert (H : count_regs (2 ^ lgk) (fun j => spec_regs lgk seen j =? 0) <= 0); [|lia].
    destruct (N.eq_dec (count_regs (2 ^ lgk) (fun j => spec_regs lgk seen j =? 0)) 0) as [Z|Z]; [lia|].
    assert (Hp : 0 < count_regs (2 ^ lgk) (fun j => spec_regs lgk seen j =? 0)) by lia.
    destruct (count_regs_pos_ex (2 ^ lgk) _ Hp) as (j & Hj & Hz). cbv beta in Hz.
    pose proof (core4_ge lgk _ _ _ _ j HC Hj). lia.
Qed.
