(* Histories that may START from decoded valid images (heavy end centroids, any number of buffered
   values): the invariant that survives -- weights consistent, means sorted and inside [min, max],
   total = image weights + values offered -- makes every compressed state a well-formed view, so the
   C10 theorems apply to digests that continue from a deserialized image.  Progress: every history
   whose constructor calls meet their preconditions has a reachable state. *)
From Coq Require Import QArith Qabs Lia Lqa Qfield Permutation.
From DS Require Import Base.Prelude Model.TDigest Spec.TDigestSpec Proofs.TDigestProofsBase Proofs.TDigestProofsSort
  Proofs.TDigestProofsMerge Proofs.TDigestProofsInproc.
Open Scope Q_scope.

(* ---------------- a merge pass always has an admissible output ---------------- *)
Lemma concat_singletons {A} (l : list A) : concat (map (fun c => [c]) l) = l.
Proof. induction l as [|a l IH]; [reflexivity|]. cbn [map concat app]. rewrite IH. reflexivity. Qed.

Lemma fls_singletons (l : list centroid) : first_last_single (map (fun c => [c]) l) = true.
Proof.
  destruct l as [|a l]; [reflexivity|]. cbn [map first_last_single is_single andb].
  change ([a] :: map (fun c => [c]) l) with (map (fun c : centroid => [c]) (a :: l)).
  generalize (a :: l) as l0. intros l0. clear. induction l0 as [|b [|b' l0] IH]; try reflexivity. exact IH.
Qed.

Lemma merge_rel_exists rv input : input <> [] -> exists out, merge_rel 0 rv input out.
Proof.
  intros Hne. exists (ssort input). split; [exact Hne|].
  exists (map (fun c => [c]) (orient rv (ssort input))). split; [apply concat_singletons|].
  split; [apply Forall_forall; intros g Hg; apply in_map_iff in Hg as (c & <- & _); discriminate|].
  split; [apply fls_singletons|]. split; [rewrite map_length; destruct rv; cbn [orient]; [apply rev_length|reflexivity]|].
  generalize (orient rv (ssort input)) as l. induction l as [|c l IH]; [constructor|]. cbn [map]. constructor; [|exact IH].
  split.
  - rewrite sumw_cons. cbn [sumw fold_right]. rewrite Z.add_0_r. unfold c_wz. symmetry. apply Pos2Z.id.
  - rewrite group_mean_single. setoid_replace (c_mean c - c_mean c) with 0 by ring. cbn. lra.
Qed.

(* ---------------- the invariant of all histories ---------------- *)
Record InvW (d : td) (h : hist) : Prop := mkInvW {
  iw_k : (10 <= td_k d)%Z;
  iw_cw : td_cw d = sumw (td_cs d);
  iw_total : td_total d = (image_weight h + Z.of_nat (length (values h)))%Z;
  iw_sorted : sortedP (td_cs d);
  iw_cs : forall c, In c (td_cs d) -> in_range d (c_mean c);
  iw_buf : forall x, In x (td_buf d) -> in_range d x;
  iw_empty : td_cs d = [] -> td_buf d = [] -> td_min d = None /\ td_max d = None
}.

Lemma in_range_widen d d' x : in_range d x ->
  (forall mn, td_min d = Some mn -> exists mn', td_min d' = Some mn' /\ mn' <= mn) ->
  (forall mx, td_max d = Some mx -> exists mx', td_max d' = Some mx' /\ mx <= mx') -> in_range d' x.
Proof.
  unfold in_range. intros H Hmin Hmax. destruct (td_min d) as [mn|]; [|contradiction]. destruct (td_max d) as [mx|]; [|contradiction].
  destruct (Hmin mn eq_refl) as (mn' & -> & L1). destruct (Hmax mx eq_refl) as (mx' & -> & L2). lra.
Qed.

Lemma invw_push d h x : InvW d h -> InvW (td_push d x) (HUpd h x).
Proof.
  intros I. destruct (omin_spec (td_min d) x) as (mn & Emn & A1 & A2 & _). destruct (omax_spec (td_max d) x) as (mx & Emx & B1 & B2 & _).
  assert (Wmin : forall m0, td_min d = Some m0 -> exists mn', td_min (td_push d x) = Some mn' /\ mn' <= m0).
  { intros m0 E. exists mn. split; [exact Emn|]. rewrite E in A2. exact A2. }
  assert (Wmax : forall m0, td_max d = Some m0 -> exists mx', td_max (td_push d x) = Some mx' /\ m0 <= mx').
  { intros m0 E. exists mx. split; [exact Emx|]. rewrite E in B2. exact B2. }
  constructor; cbn [values image_weight]; unfold td_push; cbn [td_k td_cw td_cs td_buf].
  - apply (iw_k _ _ I).
  - apply (iw_cw _ _ I).
  - unfold td_total. cbn [td_cw td_buf]. rewrite !app_length. cbn [length]. pose proof (iw_total _ _ I) as H. unfold td_total in H. lia.
  - apply (iw_sorted _ _ I).
  - intros c Hc. eapply (in_range_widen d); [apply (iw_cs _ _ I); exact Hc|exact Wmin|exact Wmax].
  - intros y Hy. apply in_app_or in Hy as [Hy|[<-|[]]].
    + eapply (in_range_widen d); [apply (iw_buf _ _ I); exact Hy|exact Wmin|exact Wmax].
    + unfold in_range. cbn [td_min td_max]. rewrite Emn, Emx. split; lra.
  - intros _ E. destruct (td_buf d); discriminate.
Qed.

(* a pass over an input all of whose means lie in [mn, mx] *)
Lemma invw_adopt d input out h' mn mx added :
  td_min d = Some mn -> td_max d = Some mx -> merge_rel 0 (td_rev d) input out ->
  lbP mn input -> ubP mx input -> (10 <= td_k d)%Z ->
  (td_cw d + added)%Z = sumw input ->
  (td_cw d + added)%Z = (image_weight h' + Z.of_nat (length (values h')))%Z ->
  InvW (adopt d added out) h'.
Proof.
  intros Emn Emx Hrel L U Hk Hsum Htot.
  destruct (merge_in_range _ _ _ mn mx Hrel L U) as [L' U']. pose proof (merge_out_ne _ _ _ Hrel) as Hne.
  rewrite (adopt_minmax d added out mn mx Emn Emx Hne L' U').
  constructor; cbn [td_k td_cw td_cs td_buf td_min td_max]; auto.
  - rewrite Hsum. symmetry. eapply merge_weights; eauto.
  - unfold td_total. cbn [td_cw td_buf length]. lia.
  - eapply merge_sorted; eauto.
  - intros c Hc. unfold in_range. cbn [td_min td_max]. split; [apply L'|apply U']; auto.
  - intros x [].
  - intros E. congruence.
Qed.

Lemma nonempty_minmax d h : InvW d h -> td_is_empty d = false -> exists mn mx, td_min d = Some mn /\ td_max d = Some mx.
Proof.
  intros I H. unfold td_is_empty in H.
  assert (exists x, in_range d x) as (x & Hx).
  { destruct (td_cs d) as [|c cs] eqn:Ec.
    - destruct (td_buf d) as [|b bs] eqn:Eb; [discriminate|]. exists b. apply (iw_buf _ _ I). rewrite Eb. left; reflexivity.
    - exists (c_mean c). apply (iw_cs _ _ I). rewrite Ec. left; reflexivity. }
  unfold in_range in Hx. destruct (td_min d), (td_max d); try contradiction. eauto.
Qed.

Lemma invw_compress d h out : InvW d h -> td_buf d <> [] ->
  merge_rel 0 (td_rev d) (compress_input d) out -> InvW (td_compress_with d out) h.
Proof.
  intros I Hb Hrel. unfold td_compress_with. destruct (td_buf d) as [|b0 buf'] eqn:Eb; [congruence|]. rewrite <- Eb in *.
  assert (He : td_is_empty d = false) by (unfold td_is_empty; rewrite Eb; destruct (td_cs d); reflexivity).
  destruct (nonempty_minmax d h I He) as (mn & mx & Emn & Emx).
  apply (invw_adopt d (compress_input d) out h mn mx); auto.
  - intros c Hc. unfold compress_input in Hc. apply in_app_or in Hc as [Hc|Hc].
    + apply in_map_iff in Hc as (x & <- & Hx). pose proof (iw_buf _ _ I x Hx) as H. unfold in_range in H. rewrite Emn, Emx in H. cbn. lra.
    + pose proof (iw_cs _ _ I c Hc) as H. unfold in_range in H. rewrite Emn, Emx in H. lra.
  - intros c Hc. unfold compress_input in Hc. apply in_app_or in Hc as [Hc|Hc].
    + apply in_map_iff in Hc as (x & <- & Hx). pose proof (iw_buf _ _ I x Hx) as H. unfold in_range in H. rewrite Emn, Emx in H. cbn. lra.
    + pose proof (iw_cs _ _ I c Hc) as H. unfold in_range in H. rewrite Emn, Emx in H. lra.
  - apply (iw_k _ _ I).
  - unfold compress_input. rewrite sumw_app, sumw_units, (iw_cw _ _ I). lia.
  - pose proof (iw_total _ _ I) as H. unfold td_total in H. lia.
Qed.

Lemma invw_merge d o h1 h2 out : InvW d h1 -> InvW o h2 -> td_is_empty o = false ->
  merge_rel 0 (td_rev d) (merge_input d o) out -> InvW (td_merge_with d o out) (HMerge h1 h2).
Proof.
  intros Id Io He Hrel. unfold td_merge_with. rewrite He.
  destruct (nonempty_minmax o h2 Io He) as (mno & mxo & Emno & Emxo).
  set (dm := td_merge_minmax d o).
  destruct (omin_spec (td_min d) mno) as (mn & Emn & A1 & A2 & _). destruct (omax_spec (td_max d) mxo) as (mx & Emx & B1 & B2 & _).
  assert (Emin' : td_min dm = Some mn) by (unfold dm, td_merge_minmax; cbn [td_min]; rewrite Emno; exact Emn).
  assert (Emax' : td_max dm = Some mx) by (unfold dm, td_merge_minmax; cbn [td_max]; rewrite Emxo; exact Emx).
  apply (invw_adopt dm (merge_input d o) out (HMerge h1 h2) mn mx); auto.
  - intros c Hc. unfold merge_input in Hc. apply in_app_or in Hc as [Hc|Hc]; [|apply in_app_or in Hc as [Hc|Hc]; [|apply in_app_or in Hc as [Hc|Hc]]].
    + apply in_map_iff in Hc as (x & <- & Hx). pose proof (iw_buf _ _ Id x Hx) as H. unfold in_range in H.
      destruct (td_min d) as [m0|]; [|contradiction]. destruct (td_max d); [|contradiction]. cbn. lra.
    + apply in_map_iff in Hc as (x & <- & Hx). pose proof (iw_buf _ _ Io x Hx) as H. unfold in_range in H. rewrite Emno, Emxo in H. cbn. lra.
    + pose proof (iw_cs _ _ Io c Hc) as H. unfold in_range in H. rewrite Emno, Emxo in H. lra.
    + pose proof (iw_cs _ _ Id c Hc) as H. unfold in_range in H.
      destruct (td_min d) as [m0|]; [|contradiction]. destruct (td_max d); [|contradiction]. lra.
  - intros c Hc. unfold merge_input in Hc. apply in_app_or in Hc as [Hc|Hc]; [|apply in_app_or in Hc as [Hc|Hc]; [|apply in_app_or in Hc as [Hc|Hc]]].
    + apply in_map_iff in Hc as (x & <- & Hx). pose proof (iw_buf _ _ Id x Hx) as H. unfold in_range in H.
      destruct (td_min d); [|contradiction]. destruct (td_max d) as [m0|]; [|contradiction]. cbn. lra.
    + apply in_map_iff in Hc as (x & <- & Hx). pose proof (iw_buf _ _ Io x Hx) as H. unfold in_range in H. rewrite Emno, Emxo in H. cbn. lra.
    + pose proof (iw_cs _ _ Io c Hc) as H. unfold in_range in H. rewrite Emno, Emxo in H. lra.
    + pose proof (iw_cs _ _ Id c Hc) as H. unfold in_range in H.
      destruct (td_min d); [|contradiction]. destruct (td_max d) as [m0|]; [|contradiction]. lra.
  - apply (iw_k _ _ Id).
  - unfold dm, td_merge_minmax. cbn [td_cw]. unfold merge_input. rewrite !sumw_app, !sumw_units, (iw_cw _ _ Id). unfold td_total. rewrite (iw_cw _ _ Io). lia.
  - unfold dm, td_merge_minmax. cbn [td_cw values image_weight]. rewrite app_length, Nat2Z.inj_add.
    pose proof (iw_total _ _ Id) as H1. pose proof (iw_total _ _ Io) as H2. unfold td_total in *. lia.
Qed.

Lemma image_weight_nonneg h d : reach h d -> (0 <= image_weight h)%Z.
Proof.
  induction 1; cbn [image_weight]; try lia.
  destruct H as [_ Hcw _ _ _ _]. unfold td_total. rewrite Hcw. pose proof (sumw_nonneg (td_cs d0)). lia.
Qed.

Theorem reach_invw h d : reach h d -> InvW d h.
Proof.
  induction 1.
  - unfold td_new in H. destruct (k <? MIN_K)%Z eqn:E; [discriminate|]. inversion H; subst. rewrite MIN_K_eq in E.
    constructor; cbn; auto; try tauto; try lia.
  - destruct H as [Hk Hcw Hs Hc Hb He]. constructor; cbn [values image_weight length]; auto. lia.
  - apply invw_push; auto.
  - apply invw_push.
    assert (Hb : td_buf d <> []).
    { unfold td_needs_compress_on_update in H0. apply Z.leb_le in H0.
      intros E. rewrite E in H0. cbn [length] in H0. pose proof (buf_limit_pos _ (iw_k _ _ IHreach)). lia. }
    pose proof (invw_compress d h out IHreach Hb H1) as I. destruct I as [A B C D E F G]. constructor; cbn [values image_weight]; auto.
  - destruct IHreach as [A B C D E F G]. constructor; cbn [values image_weight]; auto.
  - pose proof (invw_compress d h out IHreach H0 H1) as I. destruct I as [A B C D E F G]. constructor; cbn [values image_weight]; auto.
  - (* merging an empty digest: nothing is offered and it brought no image weight *)
    pose proof (iw_total _ _ IHreach2) as T2. pose proof (iw_cw _ _ IHreach2) as C2. unfold td_total, td_is_empty in *.
    destruct (td_cs o); [|discriminate]. destruct (td_buf o); [|discriminate]. rewrite C2 in T2. cbn in T2.
    pose proof (image_weight_nonneg _ _ H0) as N2.
    assert (E2 : values h2 = []) by (destruct (values h2); [reflexivity|cbn in T2; lia]).
    destruct IHreach1 as [A B C D E F G]. constructor; cbn [values image_weight]; auto.
    rewrite E2, app_nil_r. rewrite E2 in T2. cbn in T2. unfold td_total in *. lia.
  - apply invw_merge; auto.
Qed.

(* ---------------- what follows for every history ---------------- *)
Theorem reach_total h d : reach h d -> td_total d = (image_weight h + Z.of_nat (length (values h)))%Z.
Proof. intros R. apply (iw_total _ _ (reach_invw _ _ R)). Qed.

(* every compressed non-empty state -- in process or continuing from a decoded image -- is a well-formed
   view: all rank / quantile / cdf theorems of C10 apply to it *)
Theorem reach_view_wf h d : reach h d -> td_buf d = [] -> td_cs d <> [] -> wf_view (td_view d).
Proof.
  intros R Hb Hc. pose proof (reach_invw _ _ R) as I.
  assert (He : td_is_empty d = false) by (unfold td_is_empty; destruct (td_cs d); [congruence|reflexivity]).
  destruct (nonempty_minmax d h I He) as (mn & mx & Emn & Emx).
  constructor; unfold td_view; cbn [v_cs v_min v_max v_total]; rewrite ?Emn, ?Emx; auto.
  - apply (iw_sorted _ _ I).
  - pose proof (iw_cs _ _ I (firstc (td_cs d)) (firstc_in _ Hc)) as H. unfold in_range in H. rewrite Emn, Emx in H. lra.
  - pose proof (iw_cs _ _ I (lastc (td_cs d)) (lastc_in _ Hc)) as H. unfold in_range in H. rewrite Emn, Emx in H. lra.
  - apply (iw_cw _ _ I).
Qed.

(* progress: every history whose constructor calls meet their preconditions has a reachable state *)
Theorem reach_progress h : hist_ok h -> exists d, reach h d.
Proof.
  induction h as [k|d0|h IH x|h IH|h1 IH1 h2 IH2]; cbn [hist_ok]; intros Hok.
  - eexists. apply R_new. unfold td_new. rewrite MIN_K_eq. replace (k <? 10)%Z with false by lia. reflexivity.
  - exists d0. apply R_image. exact Hok.
  - destruct (IH Hok) as (d & R). destruct (td_needs_compress_on_update d) eqn:E.
    + assert (Hne : compress_input d <> []).
      { unfold compress_input. unfold td_needs_compress_on_update in E. apply Z.leb_le in E.
        pose proof (buf_limit_pos _ (iw_k _ _ (reach_invw _ _ R))). destruct (td_buf d); [cbn in E; lia|discriminate]. }
      destruct (merge_rel_exists (td_rev d) _ Hne) as (out & Hrel). eexists. eapply R_upd_full; eauto.
    + eexists. eapply R_upd_room; eauto.
  - destruct (IH Hok) as (d & R). destruct (td_buf d) as [|b bs] eqn:Eb.
    + exists d. apply R_compress_nop; auto.
    + assert (Hne : compress_input d <> []) by (unfold compress_input; rewrite Eb; discriminate).
      destruct (merge_rel_exists (td_rev d) _ Hne) as (out & Hrel). eexists. eapply R_compress; eauto. rewrite Eb. discriminate.
  - destruct Hok as [Hok1 Hok2]. destruct (IH1 Hok1) as (d & R1). destruct (IH2 Hok2) as (o & R2).
    destruct (td_is_empty o) eqn:E.
    + exists d. eapply R_merge_empty; eauto.
    + assert (Hne : merge_input d o <> []).
      { unfold merge_input, td_is_empty in *. destruct (td_cs o) as [|c cs] eqn:Ec.
        - destruct (td_buf o) as [|b bs]; [discriminate|]. destruct (td_buf d); discriminate.
        - intros H. apply app_eq_nil in H as [_ H]. apply app_eq_nil in H as [_ H]. discriminate. }
      destruct (merge_rel_exists (td_rev d) _ Hne) as (out & Hrel). eexists. eapply R_merge; eauto.
Qed.

(* after ANY update -- also of a digest decoded from an image announcing more buffered values than the
   capacity -- the buffer is within BUFFER_MULTIPLIER * capacity (repair 5ca8d9c: `>=`) *)
Theorem buffer_bound_after_update h x d : reach (HUpd h x) d -> (Z.of_nat (length (td_buf d)) <= buf_limit (td_k d))%Z.
Proof.
  intros R. inversion R as [| |h0 d0 x0 R0 Hroom|h0 d0 x0 out R0 Hfull Hrel| | | |]; subst.
  - unfold td_needs_compress_on_update in Hroom. apply Z.leb_gt in Hroom.
    unfold td_push. cbn [td_buf td_k]. rewrite app_length. cbn [length]. lia.
  - pose proof (buf_limit_pos _ (iw_k _ _ (reach_invw _ _ R0))) as Hp.
    unfold td_push, td_compress_with. cbn [td_buf td_k].
    destruct (td_buf d0) eqn:Eb.
    + unfold td_needs_compress_on_update in Hfull. rewrite Eb in Hfull. apply Z.leb_le in Hfull. cbn [length] in Hfull. lia.
    + unfold adopt. cbn [td_buf td_k app length]. lia.
Qed.
