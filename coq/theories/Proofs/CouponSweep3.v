From DS Require Import Base.Prelude Proofs.CouponSweepDefs.
Open Scope N_scope.
Lemma sweep_chunk3 : sweep (3 * 49152) CHUNK = true.
Proof. vm_compute. reflexivity. Qed.
