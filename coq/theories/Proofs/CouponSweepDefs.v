(* C01, coupon-mode (list / hash-set) estimator of HLL sketches (hll/container.rs, hll/cubic_interpolation.rs over the
   translated X_ARR / Y_ARR of hll/coupon_mapping.rs): an exhaustive kernel computation over every possible coupon
   count.  A sketch in list or set mode holds at most 3/4 * 2^(lg_k - 3) <= 196608 coupons (lg_k <= 21). *)
From DS Require Import Base.Prelude Base.FloatBits Model.HllEst.
From Coq Require Import Floats.
Open Scope N_scope.

Definition coupon_ok (len : N) : bool :=
  let e := container_estimate len in
  let l := fun s => container_lower_bound len s in
  let u := fun s => container_upper_bound len s in
  PrimFloat.is_finite e && PrimFloat.leb (float_of_Z63 (Nz len)) e &&
  PrimFloat.leb (l 3) (l 2) && PrimFloat.leb (l 2) (l 1) && PrimFloat.leb (l 1) e &&
  PrimFloat.leb e (u 1) && PrimFloat.leb (u 1) (u 2) && PrimFloat.leb (u 2) (u 3) && PrimFloat.is_finite (u 3) &&
  PrimFloat.leb (float_of_Z63 (Nz len)) (l 3).

(* all len in [from, from + n) *)
Fixpoint sweep (from : N) (n : nat) : bool :=
  match n with O => true | S m => coupon_ok from && sweep (from + 1) m end.

Lemma sweep_spec : forall n from len, sweep from n = true -> from <= len < from + N.of_nat n -> coupon_ok len = true.
Proof.
  induction n as [|n IH]; intros from len H Hr; [lia|].
  cbn [sweep] in H. apply andb_prop in H. destruct H as [H0 H1].
  destruct (N.eq_dec len from) as [->|Hne]; [exact H0|].
  apply (IH (from + 1)); [exact H1|lia].
Qed.
Definition CHUNK : nat := Z.to_nat 49152.
