(* Every compact sketch the public API can produce from an update sketch is well-formed for the
   codecs (so both round trips apply to it), and its size is bounded by the configuration. *)
From Coq Require Import List NArith Nnat Bool Lia PeanoNat Sorted Permutation.
From Coq Require Import ZifyBool ZifyNat ZifyN.
From DS Require Import Base.Prelude Base.ThetaLib Model.Theta Model.ThetaCodec.
From DS Require Import Proofs.ThetaLibProofs Proofs.ThetaProofs Proofs.ThetaKmv Proofs.ThetaCodec.
Import ListNotations.
Open Scope N_scope.

Ltac Zify.zify_post_hook ::= Z.div_mod_to_equations.

Section Reach.
Variable reorder : reorder_t.
Hypothesis reorder_perm : reorder_ok reorder.

Theorem compact_wf : forall c ops s ordered, cfg_ok c -> reach reorder c ops s ->
  c_seed_hash c < 65536 ->
  c_wf (c_seed_hash c) (sk_compact s ordered).
Proof.
  intros c ops s ordered Hc Hr Hsh. pose proof (theta0_pos c) as Hp. pose proof (theta0_le_max c) as Hm.
  destruct (compact_spec reorder reorder_perm c ops s ordered Hc Hr) as [HP [Hn [He [_ [Hne [Hem [_ [Hso Hseed]]]]]]]].
  destruct (kmv reorder reorder_perm c ops s Hc Hr) as [_ [Hset _]].
  pose proof (theta_le_initial reorder reorder_perm c ops s Hc Hr) as Hle.
  pose proof (theta_pos reorder reorder_perm c ops s Hc Hr Hp) as Hpos.
  pose proof (capacity reorder reorder_perm c ops s Hc Hr) as [Hcap _].
  set (k := sk_compact s ordered) in *.
  assert (Hth : 0 < ce_theta k /\ ce_theta k <= MAX_THETA).
  { destruct (sk_is_empty s) eqn:E.
    - destruct (Hem eq_refl) as [-> _]. rewrite max_theta_val. lia.
    - rewrite (Hne eq_refl). lia. }
  constructor.
  - apply Forall_forall. intros x Hx.
    destruct (sk_is_empty s) eqn:E.
    + destruct (Hem eq_refl) as [_ E0]. rewrite E0 in Hx. destruct Hx.
    + rewrite (Hne eq_refl). eapply Permutation_in in Hx; [|exact HP]. apply Hset in Hx. tauto.
  - exact Hth.
  - rewrite Hseed. split; [exact Hsh|reflexivity].
  - intros Ho. apply ascending_b_sorted. apply Hso. exact Ho.
  - rewrite He. intros E. destruct (Hem E) as [H1 H2]. split; assumption.
  - unfold c_num_retained in Hn. rewrite Hn. unfold sk_num_retained.
    destruct (lgk_consts) as [_ E26]. destruct Hc as [_ [Hmax _]]. rewrite E26 in Hmax.
    assert (2 ^ (c_lg_nom c + 1) <= 2 ^ 27) by (apply N.pow_le_mono_r; lia).
    change (2 ^ 27) with 134217728 in *. unfold M32. lia.
Qed.

(* sizes: the retained count is bounded by the configuration, and so is the image *)
Theorem retained_bound : forall c ops s, cfg_ok c -> reach reorder c ops s ->
  16 * sk_num_retained s <= 15 * 2 ^ (c_lg_nom c + 1).
Proof. intros c ops s Hc Hr. apply (capacity reorder reorder_perm c ops s Hc Hr). Qed.

Theorem retained_after_trim : forall c ops s, cfg_ok c -> reach reorder c ops s ->
  exists s', reach reorder c (ops ++ [OTrim]) s' /\
             sk_num_retained s' = N.min (sk_num_retained s) (2 ^ c_lg_nom c).
Proof.
  intros c ops s Hc Hr. destruct (trim_spec reorder reorder_perm c ops s Hc Hr) as [s' [_ [Hr' [Hn _]]]].
  exists s'. split; [exact Hr'|exact Hn].
Qed.

Theorem image_size_bound : forall c ops s ordered, cfg_ok c -> reach reorder c ops s ->
  let k := sk_compact s ordered in
  length (c_serialize k) = (8 * N.to_nat (c_preamble_longs k) + 8 * N.to_nat (sk_num_retained s))%nat /\
  (N.to_nat (c_preamble_longs k) <= 3)%nat /\
  16 * N.of_nat (length (c_serialize k)) <= 16 * 24 + 8 * (15 * 2 ^ (c_lg_nom c + 1)).
Proof.
  intros c ops s ordered Hc Hr. cbv zeta.
  destruct (compact_spec reorder reorder_perm c ops s ordered Hc Hr) as [_ [Hn _]].
  pose proof (retained_bound c ops s Hc Hr) as Hb.
  pose proof (preamble_le3 (sk_compact s ordered)) as Hp.
  rewrite serialize_size. unfold c_num_retained in Hn.
  assert (El : length (ce_entries (sk_compact s ordered)) = N.to_nat (sk_num_retained s)) by lia.
  rewrite El. split; [reflexivity|]. split; [exact Hp|]. lia.
Qed.

(* no valid history makes compact() + either serializer reach a panic site *)
Theorem compact_serializable : forall c ops s ordered, cfg_ok c -> reach reorder c ops s ->
  c_seed_hash c < 65536 ->
  exists bs, c_serialize_compressed (sk_compact s ordered) = Ok bs.
Proof.
  intros c ops s ordered Hc Hr Hsh. apply safe_serializable. eapply wf_safe. eapply compact_wf; eauto.
Qed.

(* theta stays a valid sampling threshold: 0 < theta <= 2^63-1 (what the confidence bounds require) *)
Theorem theta_valid : forall c ops s, cfg_ok c -> reach reorder c ops s ->
  0 < t_theta s /\ t_theta s <= MAX_THETA.
Proof.
  intros c ops s Hc Hr. pose proof (theta0_le_max c) as Hm. split.
  - apply (theta_pos reorder reorder_perm c ops s Hc Hr). apply theta0_pos.
  - pose proof (theta_le_initial reorder reorder_perm c ops s Hc Hr). lia.
Qed.

End Reach.
