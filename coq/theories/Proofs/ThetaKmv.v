(* Theta update sketch: the statements of property C04, derived from the invariant of
   Proofs/ThetaProofs.v.  Everything is proved for every order [reorder] in which `rebuild`
   may re-insert the k smallest entries ([reorder_ok]). *)
From Coq Require Import List PArith NArith Nnat ZArith Bool Lia Permutation Sorted Floats.
From Coq Require Import ZifyBool ZifyNat ZifyN.
From DS Require Import Base.Prelude Base.FloatBits Base.ThetaLib Base.ThetaFloat Base.ThetaEstimate Model.Theta.
From DS Require Import Proofs.ThetaLibProofs Proofs.ThetaOpenAddr Proofs.ThetaProofs.
From DS Require Gen.GenTheta.
Open Scope N_scope.

Ltac Zify.zify_post_hook ::= Z.div_mod_to_equations.

(* [h] lies in the open interval (0, th) *)
Definition below (th h : N) : bool := (0 <? h) && (h <? th).

(* the distinct offered hashes in (0, th) *)
Definition kept (th : N) (off : list N) : list N := nodup N.eq_dec (filter (below th) off).

Lemma kept_In : forall th off x, In x (kept th off) <-> In x off /\ 0 < x /\ x < th.
Proof.
  intros. unfold kept, below. rewrite nodup_In, filter_In, andb_true_iff, !N.ltb_lt. tauto.
Qed.

Lemma kept_theta0 : forall c off, kept (theta0 c) off = qual c off.
Proof. reflexivity. Qed.

Lemma sorted_NoDup_lt : forall l, StronglySorted N.le l -> NoDup l -> StronglySorted N.lt l.
Proof.
  induction l as [|a l IH]; intros Hs Hn; [constructor|].
  inversion Hs as [|? ? Hs' Hall]; subst. inversion Hn as [|? ? Hnotin Hn']; subst.
  constructor; [now apply IH|].
  rewrite Forall_forall in *. intros x Hx. specialize (Hall x Hx).
  assert (x <> a) by (intro E; subst; contradiction). lia.
Qed.

Lemma no_reset_dec : forall o, {o = OReset} + {o <> OReset}.
Proof. destruct o; (left; reflexivity) || (right; discriminate). Qed.

(* the starting theta never exceeds MAX_THETA: (2^63 as f64 * p) as u64 <= 2^63 - 1 for every f64 p < 1 (Flocq) *)
Lemma theta0_le_max : forall c, theta0 c <= MAX_THETA.
Proof.
  intros c. unfold theta0, starting_theta.
  destruct (PrimFloat.ltb (float_of_bits (c_pbits c)) 1%float) eqn:E; [|lia].
  pose proof (starting_theta_le (float_of_bits (c_pbits c)) E) as H.
  change (float_of_Z63 (Nz MAX_THETA)) with M63. change U64_MAX with 18446744073709551615%Z.
  change (lit Gen.GenTheta.LIT_starting_theta_from_sampling_probability 0) with 1.
  change MAX_THETA with 9223372036854775807. unfold zN. lia.
Qed.

Section Kmv.
Variable reorder : reorder_t.
Hypothesis reorder_perm : reorder_ok reorder.

(* [s] is the state after the operation history [ops] on a fresh sketch of configuration [c] *)
Definition reach (c : tcfg) (ops : list top) (s : tsk) : Prop := run_ops reorder (sk_new c) ops = Ok s.

Lemma run_ops_app : forall a b s,
  run_ops reorder s (a ++ b) = obind (run_ops reorder s a) (fun s' => run_ops reorder s' b).
Proof.
  induction a as [|o a IH]; intros b s; cbn [app run_ops obind]; [reflexivity|].
  destruct (step_op reorder s o) as [s1| |]; cbn [obind]; [apply IH|reflexivity|reflexivity].
Qed.

Lemma offered_from_app : forall a b off, offered_from off (a ++ b) = offered_from (offered_from off a) b.
Proof. intros. unfold offered_from. apply fold_left_app. Qed.

Lemma reach_inv : forall c ops s, cfg_ok c -> reach c ops s -> Inv c s (offered ops).
Proof.
  intros c ops s Hc Hr. destruct (run_inv reorder reorder_perm c ops Hc) as [s' [H1 H2]].
  unfold reach in Hr. rewrite H1 in Hr. inversion Hr. subst. exact H2.
Qed.

(* ---- never stuck ---- *)
Lemma no_stuck : forall c ops, cfg_ok c -> exists s, reach c ops s.
Proof.
  intros c ops Hc. destruct (run_inv reorder reorder_perm c ops Hc) as [s [H _]]. exists s. exact H.
Qed.

Lemma find_succeeds : forall c ops s h, cfg_ok c -> reach c ops s -> h <> 0 ->
  exists idx, find_in_entries (t_slots s) h (t_lg_cur s) = Some idx /\ idx < 2 ^ t_lg_cur s /\
              (sl_get (t_slots s) idx = h \/ sl_get (t_slots s) idx = 0).
Proof.
  intros c ops s h Hc Hr Hh. destruct (reach_inv c ops s Hc Hr) as [[HW Hcap] _].
  destruct (find_cases (t_lg_cur s) (t_slots s) h (w_oa _ _ _ HW) Hh) as [idx [Hidx [Hf Hcase]]].
  - fold (sk_entries s). rewrite <- (w_n _ _ _ HW).
    pose proof (cap_lt_size c _ Hc (w_lg _ _ _ HW)). lia.
  - exists idx. split; [exact Hf|]. split; [exact Hidx|]. destruct Hcase as [E|[E _]]; auto.
Qed.

Lemma layout_inv : forall c ops s, cfg_ok c -> reach c ops s -> OA (t_lg_cur s) (t_slots s).
Proof. intros c ops s Hc Hr. destruct (reach_inv c ops s Hc Hr) as [[HW _] _]. apply (w_oa _ _ _ HW). Qed.

(* ---- the KMV invariant ---- *)
Lemma kmv : forall c ops s, cfg_ok c -> reach c ops s ->
  NoDup (sk_entries s) /\
  (forall x, In x (sk_entries s) <-> In x (offered ops) /\ 0 < x /\ x < t_theta s) /\
  Permutation (sk_entries s) (kept (t_theta s) (offered ops)) /\
  t_n s = N.of_nat (length (sk_entries s)).
Proof.
  intros c ops s Hc Hr. destruct (reach_inv c ops s Hc Hr) as [[HW _] _].
  pose proof (entries_NoDup _ _ _ HW) as ND.
  split; [exact ND|]. split; [apply (w_set _ _ _ HW)|]. split; [|apply (w_n _ _ _ HW)].
  apply NoDup_Permutation; [exact ND|apply NoDup_nodup|].
  intros x. rewrite kept_In. apply (w_set _ _ _ HW).
Qed.

(* ---- theta ---- *)
Lemma theta_le_initial : forall c ops s, cfg_ok c -> reach c ops s -> t_theta s <= theta0 c.
Proof. intros c ops s Hc Hr. destruct (reach_inv c ops s Hc Hr) as [[HW _] _]. apply (w_theta _ _ _ HW). Qed.

Lemma theta_pos : forall c ops s, cfg_ok c -> reach c ops s -> 0 < theta0 c -> 0 < t_theta s.
Proof. intros c ops s Hc Hr. destruct (reach_inv c ops s Hc Hr) as [[HW _] _]. apply (w_pos _ _ _ HW). Qed.

Lemma mono_from : forall c ops s off s', cfg_ok c -> Inv c s off ->
  Forall (fun o => o <> OReset) ops -> run_ops reorder s ops = Ok s' -> t_theta s' <= t_theta s.
Proof.
  intros c ops. induction ops as [|o r IH]; intros s off s' Hc HI Hnr Hrun; cbn [run_ops] in Hrun.
  - inversion Hrun. lia.
  - inversion Hnr as [|? ? Ho Hr']; subst.
    destruct (step_inv reorder reorder_perm c s off o Hc HI) as [s1 [H1 [H2 H3]]].
    rewrite H1 in Hrun. cbn [obind] in Hrun.
    specialize (IH s1 _ s' Hc H2 Hr' Hrun). specialize (H3 Ho). lia.
Qed.

Lemma monotone : forall c ops1 ops2 s1 s2, cfg_ok c ->
  reach c ops1 s1 -> reach c (ops1 ++ ops2) s2 -> Forall (fun o => o <> OReset) ops2 ->
  t_theta s2 <= t_theta s1.
Proof.
  intros c ops1 ops2 s1 s2 Hc H1 H2 Hnr. unfold reach in *. rewrite run_ops_app, H1 in H2. cbn [obind] in H2.
  eapply mono_from; eauto. eapply reach_inv; eauto.
Qed.

Lemma initial_until_k : forall c ops s, cfg_ok c -> reach c ops s ->
  t_theta s < theta0 c -> 2 ^ c_lg_nom c < N.of_nat (length (qual c (offered ops))).
Proof. intros c ops s Hc Hr. destruct (reach_inv c ops s Hc Hr) as [[HW _] _]. apply (w_est _ _ _ HW). Qed.

(* exact mode: while theta is at its initial value the sketch holds every distinct offered hash
   in (0, theta0), and this is the case as long as no more than k of them were offered *)
Lemma exact_mode : forall c ops s, cfg_ok c -> reach c ops s ->
  (t_theta s = theta0 c ->
     Permutation (sk_entries s) (qual c (offered ops)) /\ t_n s = N.of_nat (length (qual c (offered ops)))) /\
  (N.of_nat (length (qual c (offered ops))) <= 2 ^ c_lg_nom c -> t_theta s = theta0 c).
Proof.
  intros c ops s Hc Hr. split.
  - intros E. destruct (kmv c ops s Hc Hr) as [_ [_ [HP Hn]]]. rewrite E, kept_theta0 in HP.
    split; [exact HP|]. rewrite Hn, (Permutation_length HP). reflexivity.
  - intros Hfew. pose proof (theta_le_initial c ops s Hc Hr).
    destruct (N.lt_ge_cases (t_theta s) (theta0 c)) as [Hlt|]; [|lia].
    pose proof (initial_until_k c ops s Hc Hr Hlt). lia.
Qed.

(* ---- capacity ---- *)
Lemma capacity : forall c ops s, cfg_ok c -> reach c ops s ->
  16 * t_n s <= 15 * 2 ^ (c_lg_nom c + 1) /\ t_n s < 2 ^ t_lg_cur s /\
  5 <= t_lg_cur s /\ t_lg_cur s <= c_lg_nom c + 1.
Proof.
  intros c ops s Hc Hr. destruct (reach_inv c ops s Hc Hr) as [[HW Hcap] _].
  pose proof (w_lg _ _ _ HW) as Hlg. pose proof (cap_lt_size c _ Hc Hlg).
  assert (Hlt : t_n s < 2 ^ t_lg_cur s) by lia.
  rewrite (get_capacity_exact c _ Hc Hlg) in Hcap. destruct Hlg as [H5 [Hle _]].
  split; [|split; [exact Hlt|split; assumption]].
  destruct (pow2_split (t_lg_cur s) H5) as [m [Em Hm]].
  pose proof (pow2_mono _ _ Hle) as Hmono.
  destruct (N.leb_spec (t_lg_cur s) (c_lg_nom c)) as [Hb|Hb]; rewrite Em in *; lia.
Qed.

(* ---- trim ---- *)
Lemma trim_spec : forall c ops s, cfg_ok c -> reach c ops s ->
  exists s', sk_trim reorder s = Ok s' /\ reach c (ops ++ [OTrim]) s' /\
    t_n s' = N.min (t_n s) (2 ^ c_lg_nom c) /\
    (t_n s <= 2 ^ c_lg_nom c -> s' = s) /\
    (2 ^ c_lg_nom c < t_n s ->
       Permutation (firstn (N.to_nat (2 ^ c_lg_nom c)) (sortN (sk_entries s))) (sk_entries s') /\
       t_theta s' = nth (N.to_nat (2 ^ c_lg_nom c)) (sortN (sk_entries s)) 0).
Proof.
  intros c ops s Hc Hr. pose proof (reach_inv c ops s Hc Hr) as HI.
  destruct (trim_inv reorder reorder_perm c s _ Hc HI) as [s' [H1 [_ [_ [H4 H5]]]]].
  exists s'. split; [exact H1|]. split.
  - unfold reach in *. rewrite run_ops_app, Hr. cbn [obind run_ops step_op]. rewrite H1. reflexivity.
  - split; [|split; [exact H4|]].
    + destruct (N.le_gt_cases (t_n s) (2 ^ c_lg_nom c)) as [Hle|Hgt].
      * rewrite (H4 Hle). lia.
      * destruct (H5 Hgt) as [_ [Hn _]]. lia.
    + intros Hgt. destruct (H5 Hgt) as [Hth [_ HP]]. split; assumption.
Qed.

(* ---- reset ---- *)
Lemma reset_spec : forall c ops s, cfg_ok c -> reach c ops s ->
  sk_reset s = sk_new c /\ reach c (ops ++ [OReset]) (sk_new c).
Proof.
  intros c ops s Hc Hr. destruct (reach_inv c ops s Hc Hr) as [[HW _] _].
  assert (E : sk_reset s = sk_new c) by (rewrite reset_is_new, (w_cfg _ _ _ HW); reflexivity).
  split; [exact E|]. unfold reach in *. rewrite run_ops_app, Hr. cbn [obind run_ops step_op]. rewrite E. reflexivity.
Qed.

(* ---- emptiness ---- *)
Lemma empty_iff : forall c ops s, cfg_ok c -> reach c ops s ->
  (sk_is_empty s = true <-> offered ops = []) /\ (sk_is_empty s = true -> sk_entries s = [] /\ t_n s = 0).
Proof.
  intros c ops s Hc Hr. destruct (reach_inv c ops s Hc Hr) as [[HW _] He]. unfold sk_is_empty. rewrite He.
  split.
  - destruct (offered ops); cbn [nilb]; split; intro H; try reflexivity; discriminate.
  - intros Hnil. assert (E : sk_entries s = []).
    { destruct (sk_entries s) as [|x l] eqn:El; [reflexivity|exfalso].
      assert (Hx : In x (sk_entries s)) by (rewrite El; now left).
      apply (w_set _ _ _ HW) in Hx. destruct (offered ops); [destruct Hx as [[] _]|discriminate]. }
    split; [exact E|]. rewrite (w_n _ _ _ HW), E. reflexivity.
Qed.

(* ---- compact ---- *)
Lemma max_theta_val' : MAX_THETA = 9223372036854775807.
Proof. reflexivity. Qed.

Lemma theta_frac_max : theta_frac MAX_THETA = PrimFloat.one.
Proof. vm_compute. reflexivity. Qed.

Lemma estimate_exact : forall s, t_theta s = MAX_THETA -> sk_is_empty s = false ->
  sk_estimate s = float_of_Z63 (Nz (t_n s)).
Proof.
  intros s E Hne. unfold sk_estimate. rewrite Hne, E, theta_frac_max.
  apply fdiv_one. unfold float_of_Z63. apply of_uint63_finite.
Qed.

(* estimation mode too: the estimate is a finite f64, never below the retained count *)
Lemma estimate_finite : forall c ops s, cfg_ok c -> reach c ops s -> sk_is_empty s = false ->
  PrimFloat.is_finite (sk_estimate s) = true /\
  PrimFloat.leb (float_of_Z63 (Nz (t_n s))) (sk_estimate s) = true.
Proof.
  intros c ops s Hc Hr Hne.
  pose proof (theta_pos c ops s Hc Hr (theta0_pos c)) as Hp.
  pose proof (theta_le_initial c ops s Hc Hr) as Hle. pose proof (theta0_le_max c) as Hm.
  destruct (capacity c ops s Hc Hr) as [Hcap _].
  assert (Hn : t_n s < 2 ^ 32).
  { destruct Hc as [_ [Hmax _]]. destruct lgk_consts as [_ E26]. rewrite E26 in Hmax.
    assert (2 ^ (c_lg_nom c + 1) <= 2 ^ 27) by (apply N.pow_le_mono_r; lia).
    change (2 ^ 27) with 134217728 in *. change (2 ^ 32) with 4294967296. lia. }
  unfold sk_estimate. rewrite Hne. unfold theta_frac. change (float_of_Z63 (Nz MAX_THETA)) with M63.
  apply estimate_finite_ge.
  - change (2 ^ 32) with 4294967296 in Hn. unfold Nz. lia.
  - rewrite max_theta_val' in Hm. unfold Nz. lia.
Qed.

Lemma compact_spec : forall c ops s ordered, cfg_ok c -> reach c ops s ->
  let k := sk_compact s ordered in
  Permutation (ce_entries k) (sk_entries s) /\
  c_num_retained k = sk_num_retained s /\
  ce_empty k = sk_is_empty s /\
  c_estimate k = sk_estimate s /\
  (sk_is_empty s = false -> ce_theta k = t_theta s) /\
  (sk_is_empty s = true -> ce_theta k = MAX_THETA /\ ce_entries k = []) /\
  (ordered = true -> ce_ordered k = true) /\
  (ce_ordered k = true -> StronglySorted N.lt (ce_entries k)) /\
  ce_seed_hash k = c_seed_hash c.
Proof.
  intros c ops s ordered Hc Hr. cbv zeta.
  pose proof (reach_inv c ops s Hc Hr) as [[HW _] _].
  pose proof (entries_NoDup _ _ _ HW) as ND.
  destruct (empty_iff c ops s Hc Hr) as [_ Hemp].
  pose proof (w_n _ _ _ HW) as Hn.
  unfold sk_compact.
  set (E := sk_entries s) in *. set (em := sk_is_empty s) in *.
  set (th := if em then MAX_THETA else t_theta s).
  set (single := (N.of_nat (length E) =? 1) && (th =? MAX_THETA)).
  set (ord := ordered || em || single).
  set (ents := if ord && (1 <? N.of_nat (length E)) then sortN E else E).
  cbn [ce_entries ce_theta ce_seed_hash ce_ordered ce_empty].
  assert (HP : Permutation ents E).
  { unfold ents. destruct (ord && (1 <? N.of_nat (length E))); [apply Permutation_sym, sortN_perm|apply Permutation_refl]. }
  split; [exact HP|]. split.
  { unfold c_num_retained, sk_num_retained. cbn [ce_entries]. rewrite (Permutation_length HP). symmetry. exact Hn. }
  split; [reflexivity|]. split.
  { unfold c_estimate, sk_estimate, c_num_retained. cbn [ce_entries ce_theta ce_empty]. fold em.
    destruct em eqn:Eem; [reflexivity|]. unfold th.
    rewrite (Permutation_length HP), <- Hn.
    destruct (N.eqb_spec (t_theta s) MAX_THETA) as [Emax|_]; [|reflexivity].
    rewrite Emax, theta_frac_max. symmetry. apply fdiv_one. unfold float_of_Z63. apply of_uint63_finite. }
  split; [intros H; unfold th; rewrite H; reflexivity|]. split.
  { intros H. unfold th. rewrite H. split; [reflexivity|].
    destruct (Hemp H) as [E0 _]. unfold ents. fold E in E0. rewrite E0. cbn. destruct ord; reflexivity. }
  split; [intros ->; reflexivity|]. split; [|apply (f_equal c_seed_hash (w_cfg _ _ _ HW))].
  intros Hord. unfold ents. rewrite Hord. cbn [andb].
  destruct (N.ltb_spec 1 (N.of_nat (length E))) as [Hlong|Hshort].
  - apply sorted_NoDup_lt; [apply sortN_sorted|apply sortN_NoDup; exact ND].
  - destruct E as [|a [|b r]]; [constructor|constructor; constructor|cbn [length] in Hshort; lia].
Qed.

(* ---- builder ---- *)
Lemma build_ok : forall c, cfg_ok c ->
  PrimFloat.ltb 0%float (float_of_bits (c_pbits c)) = true ->
  PrimFloat.leb (float_of_bits (c_pbits c)) 1%float = true ->
  PrimFloat.leb 0%float (float_of_bits (c_pbits c)) = true ->
  c_seed_hash c <> 0 ->
  sk_build c = Ok (sk_new c).
Proof.
  intros c [H1 [H2 _]] Hp1 Hp2 Hp3 Hsh. unfold sk_build.
  destruct (N.leb_spec MIN_LG_K (c_lg_nom c)); [|lia].
  destruct (N.leb_spec (c_lg_nom c) MAX_LG_K); [|lia].
  cbn [andb negb]. rewrite Hp1, Hp2, Hp3. cbn [andb negb]. destruct (N.eqb_spec (c_seed_hash c) 0); [contradiction|reflexivity].
Qed.

End Kmv.
