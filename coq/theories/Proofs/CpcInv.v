(* The representation relation of the CPC sketch and the lemmas for the two rebuilding steps:
   from_matrix (window move, union result) and promote_sparse_to_windowed. *)
From DS Require Import Base.Prelude Model.Cpc Proofs.CpcBits Proofs.CpcSpec Proofs.CpcProofs.
From Coq Require Import Permutation.
From Coq Require Import ZifyBool ZifyNat ZifyN.
Ltac Zify.zify_post_hook ::= Z.div_mod_to_equations.
Open Scope N_scope.

Ltac proj :=
  cbn [c_lgk c_fic c_num c_table c_off c_win c_merge c_kxp c_hip update_hip set_num set_table set_win] in *.

(* the state [s] represents the matrix [M] (rows below K) *)
Record Rep (s : cpc) (M : matrix) : Prop := {
  rep_wf : Wf s;
  rep_bits : forall r c, r < 2 ^ c_lgk s -> c < 64 -> sk_bit s r c = N.testbit (M r) c;
  rep_num : c_num s = pop_rows M (Knat (c_lgk s))
}.

Lemma rc_recompose : forall rc, rc / 64 * 64 + rc mod 64 = rc.
Proof. intros. lia. Qed.

Lemma rep_novel : forall s s' M rc,
  Rep s M -> Wf s' -> c_lgk s' = c_lgk s -> c_num s' = c_num s + 1 ->
  rc / 64 < 2 ^ c_lgk s ->
  sk_bit s (rc / 64) (rc mod 64) = false ->
  (forall r c, r < 2 ^ c_lgk s -> c < 64 ->
     sk_bit s' r c = sk_bit s r c || ((r =? rc / 64) && (c =? rc mod 64))) ->
  Rep s' (spec_update M rc).
Proof.
  intros s s' M rc R W' Hl Hn Hr Hb Hbits. constructor.
  - exact W'.
  - intros r c Hr' Hc. rewrite Hl in Hr'.
    rewrite Hbits, spec_update_bit, (rep_bits s M R) by assumption. reflexivity.
  - rewrite Hn, Hl, (rep_num s M R). symmetry. apply pop_rows_update.
    + rewrite Knat_N. exact Hr.
    + rewrite <- (rep_bits s M R) by (try exact Hr; lia). exact Hb.
Qed.

Lemma rep_dup : forall s M rc,
  Rep s M -> rc / 64 < 2 ^ c_lgk s -> sk_bit s (rc / 64) (rc mod 64) = true -> Rep s (spec_update M rc).
Proof.
  intros s M rc R Hr Hb.
  assert (HM : N.testbit (M (rc / 64)) (rc mod 64) = true).
  { rewrite <- (rep_bits s M R) by (try exact Hr; lia). exact Hb. }
  constructor.
  - exact (rep_wf s M R).
  - intros r c Hr' Hc. rewrite (spec_update_same M rc HM r). apply (rep_bits s M R); assumption.
  - rewrite (rep_num s M R). apply pop_rows_ext. intros i _. symmetry. apply spec_update_same. exact HM.
Qed.

(* ---------- the number of surprising values a matrix needs at a window offset ---------- *)
(* all positions row * 64 + col of a 2^lgk x 64 matrix *)
Definition positions (lgk : N) : list N := map N.of_nat (seq 0 (N.to_nat (64 * 2 ^ lgk))).

(* is position x a surprising value?  sparse mode ([wd] = false): every set bit; windowed mode at offset w: a zero
   before the window, a one after it *)
Definition surp (M : matrix) (wd : bool) (w x : N) : bool :=
  let r := x / 64 in
  let c := x mod 64 in
  if wd then (if c <? w then negb (N.testbit (M r) c) else if c <? w + 8 then false else N.testbit (M r) c)
  else N.testbit (M r) c.

Definition load (lgk : N) (M : matrix) (wd : bool) (w : N) : N :=
  N.of_nat (length (filter (surp M wd w) (positions lgk))).

Lemma positions_In : forall lgk x, In x (positions lgk) <-> x < 64 * 2 ^ lgk.
Proof.
  intros lgk x. unfold positions. rewrite in_map_iff. split.
  - intros [i [<- Hi]]. apply in_seq in Hi. lia.
  - intros H. exists (N.to_nat x). split; [lia|]. apply in_seq. lia.
Qed.

Lemma positions_NoDup : forall lgk, NoDup (positions lgk).
Proof.
  intros lgk. unfold positions. apply FinFun.Injective_map_NoDup; [|apply seq_NoDup].
  intros a b H. lia.
Qed.

(* a duplicate-free list that contains exactly the positions satisfying P has as many elements as the filter *)
Lemma count_by_filter : forall lgk (P : N -> bool) l, NoDup l ->
  (forall x, In x l <-> x < 64 * 2 ^ lgk /\ P x = true) ->
  N.of_nat (length l) = N.of_nat (length (filter P (positions lgk))).
Proof.
  intros lgk P l ND H. f_equal. apply Permutation_length. apply NoDup_Permutation.
  - exact ND.
  - apply NoDup_filter. apply positions_NoDup.
  - intros x. rewrite filter_In, positions_In. apply H.
Qed.

(* the table of a state that represents M holds exactly the surprising values of M *)
Lemma table_load : forall s M, Rep s M ->
  N.of_nat (length (tlist s)) = load (c_lgk s) M (windowed s) (c_off s).
Proof.
  intros s M [W Hb Hn]. unfold load. apply count_by_filter; [apply (wf_nodup s W)|].
  pose proof (pow_pos (c_lgk s)) as HK.
  intros x. unfold surp. split.
  - intros Hin. pose proof (wf_rows s W x Hin) as Hr. split; [lia|].
    assert (Hc : x mod 64 < 64) by lia.
    rewrite <- (Hb (x / 64) (x mod 64) Hr Hc). unfold sk_bit. rewrite rc_recompose.
    assert (Hm : memN x (tlist s) = true) by (apply memN_In; exact Hin).
    destruct (windowed s) eqn:Ew; [|exact Hm].
    destruct (wf_zone s W Ew x Hin) as [Hz|Hz].
    + assert (x mod 64 <? c_off s = true) as -> by lia. rewrite Hm. reflexivity.
    + assert (x mod 64 <? c_off s = false) as -> by lia. assert (x mod 64 <? c_off s + 8 = false) as -> by lia. exact Hm.
  - intros [Hx Hs]. assert (Hr : x / 64 < 2 ^ c_lgk s) by lia. assert (Hc : x mod 64 < 64) by lia.
    rewrite <- (Hb (x / 64) (x mod 64) Hr Hc) in Hs. unfold sk_bit in Hs. rewrite rc_recompose in Hs.
    apply memN_In. destruct (windowed s); [|exact Hs].
    destruct (x mod 64 <? c_off s); [destruct (memN x (tlist s)); [reflexivity|discriminate]|].
    destruct (x mod 64 <? c_off s + 8); [discriminate|exact Hs].
Qed.

(* ---------- from_matrix ---------- *)
Lemma map_nonempty : forall {A B} (f : A -> B) l, l <> [] -> map f l <> [].
Proof. intros A B f [|x l] H; [congruence|discriminate]. Qed.

Lemma windowed_true : forall s, c_win s <> [] -> windowed s = true.
Proof. intros s H. unfold windowed. destruct (c_win s); [congruence|reflexivity]. Qed.

Lemma windowed_false : forall s, c_win s = [] -> windowed s = false.
Proof. intros s H. unfold windowed. rewrite H. reflexivity. Qed.

Lemma Knat_pos : forall lgk, (0 < Knat lgk)%nat.
Proof. intros. pose proof (pow_pos lgk). unfold Knat. lia. Qed.

Lemma length_nonempty : forall {A} (l : list A), (0 < length l)%nat -> l <> [].
Proof. intros A [|x l] H; [cbn in H; lia|discriminate]. Qed.

(* the state rebuilt from a matrix [m] at window offset [off] records exactly the bits of [m] *)
Lemma from_matrix_state : forall lgk m off C fic0 mg kxp hip win tab fic,
  length m = Knat lgk -> Forall word64 m -> off <= 56 -> C <> 0 ->
  (forall r c, r < 2 ^ lgk -> c < 64 -> N.testbit (nthN m r 0) c = true -> r * 64 + c <> U32MAX) ->
  from_matrix lgk 255 255 off m = Ok (win, tab, fic) ->
  let s := mkCpc lgk fic0 C (Some tab) off win mg kxp hip in
  Wf s /\ windowed s = true /\
  (forall r c, r < 2 ^ lgk -> c < 64 -> sk_bit s r c = N.testbit (nthN m r 0) c).
Proof.
  intros lgk m off C fic0 mg kxp hip win tab fic Hlen Hw64 Hoff HC Hnomax Hfm s. subst s.
  unfold from_matrix in Hfm.
  destruct (memN U32MAX (fm_pairs 0 (map (fm_pattern 255 off) m))) eqn:Emax; [discriminate|].
  destruct (tbl_full lgk (N.of_nat (length (fm_pairs 0 (map (fm_pattern 255 off) m))))) eqn:Efull; [discriminate|].
  injection Hfm as Ewin Etab Efic.
  set (pats := map (fm_pattern 255 off) m) in *.
  assert (Hp64 : Forall word64 pats).
  { unfold pats. apply Forall_forall. intros p Hp. apply in_map_iff in Hp. destruct Hp as [q [<- _]].
    apply fm_pattern_word64. exact Hoff. }
  assert (Hplen : length pats = Knat lgk) by (unfold pats; rewrite map_length; exact Hlen).
  assert (Hin : forall x, In x tab <-> x / 64 < 2 ^ lgk /\ N.testbit (fm_pattern 255 off (nthN m (x / 64) 0)) (x mod 64) = true).
  { intros x. rewrite <- Etab, (fm_pairs_In pats 0 x Hp64), Hplen, Knat_N, N.sub_0_r. split.
    - intros [_ [H2 H3]]. split; [lia|]. unfold pats in H3.
      rewrite (nthN_map _ _ _ 0) in H3 by (rewrite Hlen, Knat_N; lia). exact H3.
    - intros [H2 H3]. split; [lia|]. split; [lia|]. unfold pats.
      rewrite (nthN_map _ _ _ 0) by (rewrite Hlen, Knat_N; lia). exact H3. }
  assert (Hwin_ne : win <> []).
  { rewrite <- Ewin. apply map_nonempty. apply length_nonempty. rewrite Hlen. apply Knat_pos. }
  assert (Hwd : windowed (mkCpc lgk fic0 C (Some tab) off win mg kxp hip) = true) by (apply windowed_true; exact Hwin_ne).
  assert (Hmem : forall r c, r < 2 ^ lgk -> c < 64 ->
            memN (r * 64 + c) tab = N.testbit (fm_pattern 255 off (nthN m r 0)) c).
  { intros r c Hr Hc. destruct (N.testbit (fm_pattern 255 off (nthN m r 0)) c) eqn:E.
    - apply memN_In. apply Hin. rewrite rc_div, rc_mod by exact Hc. split; assumption.
    - apply memN_false. intros H. apply Hin in H. rewrite rc_div, rc_mod in H by exact Hc.
      destruct H as [_ H]. congruence. }
  split; [|split; [exact Hwd|]].
  - constructor; unfold tlist; proj.
    + rewrite <- Etab. apply fm_pairs_NoDup. exact Hp64.
    + intros x Hx. apply Hin in Hx. tauto.
    + intros x Hx Hmax. subst x. apply memN_false in Emax. apply Emax. rewrite Etab. exact Hx.
    + intros _ x Hx. apply Hin in Hx. destruct Hx as [_ Hx].
      rewrite fm_pattern_bits in Hx by exact Hoff.
      destruct (x mod 64 <? off) eqn:E1; [left; lia|].
      destruct (x mod 64 <? off + 8) eqn:E2; [discriminate|right; lia].
    + intros _. rewrite <- Ewin. split; [rewrite map_length; exact Hlen|].
      apply Forall_forall. intros b Hb. apply in_map_iff in Hb. destruct Hb as [p [<- _]].
      unfold fm_byte. apply window_byte_lt.
    + intros H. congruence.
    + exact Hoff.
    + discriminate.
    + intros H. contradiction.
  - intros r c Hr Hc. unfold sk_bit. rewrite Hwd. unfold tlist. proj.
    rewrite (Hmem r c Hr Hc), fm_pattern_bits by exact Hoff.
    destruct (c <? off) eqn:E1; [apply negb_involutive|].
    destruct (c <? off + 8) eqn:E2.
    + rewrite <- Ewin, (nthN_map _ _ _ 0) by (rewrite Hlen, Knat_N; exact Hr).
      unfold fm_byte. rewrite window_byte_bits.
      replace (c - off + off) with c by lia. assert (c - off <? 8 = true) as -> by lia. apply andb_true_r.
    + assert (c <? 64 = true) as -> by lia. reflexivity.
Qed.

(* the pairs listed by from_matrix are exactly the surprising values of the matrix at that offset *)
Lemma fm_pairs_load : forall lgk m off, length m = Knat lgk -> off <= 56 ->
  N.of_nat (length (fm_pairs 0 (map (fm_pattern 255 off) m))) = load lgk (fun r => nthN m r 0) true off.
Proof.
  intros lgk m off Hlen Hoff. set (pats := map (fm_pattern 255 off) m).
  assert (Hp64 : Forall word64 pats).
  { unfold pats. apply Forall_forall. intros p Hp. apply in_map_iff in Hp. destruct Hp as [q [<- _]].
    apply fm_pattern_word64. exact Hoff. }
  assert (Hplen : length pats = Knat lgk) by (unfold pats; rewrite map_length; exact Hlen).
  pose proof (pow_pos lgk) as HK.
  unfold load. apply count_by_filter; [apply fm_pairs_NoDup; exact Hp64|].
  intros x. rewrite (fm_pairs_In pats 0 x Hp64), Hplen, Knat_N, N.sub_0_r. unfold surp.
  assert (Hc : x mod 64 < 64) by lia.
  split.
  - intros [_ [H2 H3]]. split; [lia|]. unfold pats in H3.
    rewrite (nthN_map _ _ _ 0) in H3 by (rewrite Hlen, Knat_N; lia).
    rewrite fm_pattern_bits in H3 by exact Hoff.
    destruct (x mod 64 <? off); [exact H3|]. destruct (x mod 64 <? off + 8); [discriminate|].
    assert (x mod 64 <? 64 = true) as E by lia. rewrite E in H3. exact H3.
  - intros [H2 H3]. split; [lia|]. split; [lia|]. unfold pats.
    rewrite (nthN_map _ _ _ 0) by (rewrite Hlen, Knat_N; lia).
    rewrite fm_pattern_bits by exact Hoff.
    destruct (x mod 64 <? off); [exact H3|]. destruct (x mod 64 <? off + 8); [discriminate|].
    assert (x mod 64 <? 64 = true) as -> by lia. exact H3.
Qed.

(* from_matrix succeeds when the matrix does not contain the unstorable pair and its surprising values fit the table *)
Lemma from_matrix_succeeds : forall lgk m off,
  length m = Knat lgk -> off <= 56 ->
  (forall r c, r < 2 ^ lgk -> c < 64 -> N.testbit (nthN m r 0) c = true -> r * 64 + c <> U32MAX) ->
  tbl_full lgk (load lgk (fun r => nthN m r 0) true off) = false ->
  exists win tab fic, from_matrix lgk 255 255 off m = Ok (win, tab, fic).
Proof.
  intros lgk m off Hlen Hoff Hnomax Hfit. unfold from_matrix.
  rewrite (fm_pairs_load lgk m off Hlen Hoff), Hfit.
  set (pats := map (fm_pattern 255 off) m).
  assert (Hp64 : Forall word64 pats).
  { unfold pats. apply Forall_forall. intros p Hp. apply in_map_iff in Hp. destruct Hp as [q [<- _]].
    apply fm_pattern_word64. lia. }
  destruct (memN U32MAX (fm_pairs 0 pats)) eqn:E; [|do 3 eexists; reflexivity].
  exfalso. apply memN_In in E. apply (fm_pairs_In pats 0 _ Hp64) in E.
  destruct E as [_ [H2 H3]]. unfold pats in H2, H3. rewrite map_length, Hlen, Knat_N in H2.
  rewrite (nthN_map _ _ _ 0) in H3 by (rewrite Hlen, Knat_N; lia).
  rewrite N.sub_0_r in H3. rewrite fm_pattern_bits in H3 by lia.
  change (U32MAX mod 64) with 63 in H3. change (U32MAX / 64) with 67108863 in *.
  assert (63 <? off = false) as E1 by lia. rewrite E1 in H3.
  destruct (63 <? off + 8) eqn:E2; [discriminate|].
  change (63 <? 64) with true in H3. cbv iota in H3.
  apply (Hnomax 67108863 63 ltac:(lia) ltac:(lia) H3). reflexivity.
Qed.

(* first interesting column: every column below it is full *)
Lemma fm_fic_ok : forall lgk m off,
  length m = Knat lgk -> off <= 56 ->
  let fic := fm_fic off (map (fm_pattern 255 off) m) in
  fic <= off /\ forall r c, r < 2 ^ lgk -> c < fic -> N.testbit (nthN m r 0) c = true.
Proof.
  intros lgk m off Hlen Hoff fic. unfold fic, fm_fic.
  set (pats := map (fm_pattern 255 off) m).
  set (allor := fold_left N.lor pats 0).
  assert (Hle : (if off <? tz64 allor then off else tz64 allor) <= off) by (destruct (off <? tz64 allor) eqn:E; lia).
  split; [exact Hle|].
  intros r c Hr Hc.
  assert (Hc2 : c < tz64 allor) by (destruct (off <? tz64 allor) eqn:E; lia).
  pose proof (tz64_below allor c Hc2) as Hz. unfold allor in Hz.
  rewrite fold_lor_bits, N.bits_0 in Hz. cbn [orb] in Hz.
  assert (Hp : N.testbit (fm_pattern 255 off (nthN m r 0)) c = false).
  { destruct (N.testbit (fm_pattern 255 off (nthN m r 0)) c) eqn:E; [|reflexivity].
    exfalso. assert (X : existsb (fun p => N.testbit p c) pats = true).
    { apply existsb_exists. exists (fm_pattern 255 off (nthN m r 0)). split; [|exact E].
      unfold pats. apply in_map. unfold nthN. apply nth_In. rewrite Hlen. unfold Knat. lia. }
    congruence. }
  rewrite fm_pattern_bits in Hp by exact Hoff.
  assert (c <? off = true) as E1 by lia. rewrite E1 in Hp.
  destruct (N.testbit (nthN m r 0) c); [reflexivity|discriminate].
Qed.

(* ---------- promote_sparse_to_windowed ---------- *)
Lemma promote_fold : forall K old win t win' t',
  (forall x, In x old -> x / 64 < N.of_nat K) -> (forall x, In x old -> x <> U32MAX) -> NoDup old ->
  length win = K -> Forall (fun b => b < 256) win -> NoDup t ->
  (forall x, In x t -> ~ In x old) ->
  fold_left promote_step old (win, t) = (win', t') ->
  length win' = K /\ Forall (fun b => b < 256) win' /\ NoDup t' /\
  (forall x, In x t' <-> In x t \/ (In x old /\ 8 <= x mod 64)) /\
  (forall r j, r < N.of_nat K -> j < 8 ->
     N.testbit (nthN win' r 0) j = N.testbit (nthN win r 0) j || memN (r * 64 + j) old).
Proof.
  intros K old. induction old as [|x old IH]; intros win t win' t' Hrows Hnomax ND Hlen Hb NDt Hdisj Hf.
  - cbn [fold_left] in Hf. injection Hf as <- <-. repeat split; try assumption.
    + intros H. left. exact H.
    + intros [H|[[] _]]. exact H.
    + intros r j _ _. cbn [memN existsb]. rewrite orb_false_r. reflexivity.
  - cbn [fold_left] in Hf. inversion ND as [|? ? Hx ND']; subst.
    unfold promote_step at 2 in Hf. consts.
    assert (Hxr : x / 64 < N.of_nat (length win)) by (apply Hrows; left; reflexivity).
    destruct (x mod 64 <? 8) eqn:Ecol.
    + (* into the window *)
      apply IH in Hf; try assumption.
      * destruct Hf as [H1 [H2 [H3 [H4 H5]]]].
        split; [exact H1|]. split; [exact H2|]. split; [exact H3|]. split.
        -- intros y. rewrite H4. cbn [In]. split.
           ++ intros [H|[H H']]; [left; exact H|right; split; [right; exact H|exact H']].
           ++ intros [H|[[H|H] H']]; [left; exact H|subst; lia|right; split; assumption].
        -- intros r j Hr Hj. rewrite (H5 r j Hr Hj).
           rewrite set_nthN_nthN by exact Hxr. rewrite memN_cons, (N.eqb_sym (r * 64 + j) x), pair_eqb by lia.
           destruct (r =? x / 64) eqn:E1; cbn [andb orb].
           ++ apply N.eqb_eq in E1. subst r. rewrite N.lor_spec, N.pow2_bits_eqb, orb_assoc. reflexivity.
           ++ reflexivity.
      * intros y Hy. apply Hrows. right. exact Hy.
      * intros y Hy. apply Hnomax. right. exact Hy.
      * apply set_nthN_length.
      * apply Forall_forall. intros b Hin.
        unfold set_nthN in Hin.
        assert (G : forall n (v : N) (l : list N), v < 256 -> Forall (fun b => b < 256) l -> Forall (fun b => b < 256) (set_nth n v l)).
        { clear. induction n as [|n IHn]; intros v [|a l] Hv HF; cbn [set_nth]; try assumption.
          - inversion HF; subst. constructor; assumption.
          - inversion HF; subst. constructor; [assumption|]. apply IHn; assumption. }
        revert b Hin. apply Forall_forall. apply G; [|exact Hb].
        apply lor_bit_byte; [|lia]. apply nthN_Forall; [exact Hb|exact Hxr].
      * intros y Hy Hy'. apply (Hdisj y Hy). right. exact Hy'.
    + (* into the new table *)
      assert (Ex : fst (tbl_insert_nocap x t) = x :: t).
      { unfold tbl_insert_nocap. assert (x =? U32MAX = false) as ->.
        { apply N.eqb_neq. apply Hnomax. left. reflexivity. }
        assert (memN x t = false) as ->.
        { apply memN_false. intros H. apply (Hdisj x H). left. reflexivity. }
        reflexivity. }
      rewrite Ex in Hf. apply IH in Hf; try assumption.
      * destruct Hf as [H1 [H2 [H3 [H4 H5]]]].
        split; [exact H1|]. split; [exact H2|]. split; [exact H3|]. split.
        -- intros y. rewrite H4. cbn [In]. split.
           ++ intros [[H|H]|[H H']]; [right; split; [left; exact H|subst; lia]|left; exact H|right; split; [right; exact H|exact H']].
           ++ intros [H|[[H|H] H']]; [left; right; exact H|left; left; exact H|right; split; assumption].
        -- intros r j Hr Hj. rewrite (H5 r j Hr Hj).
           rewrite memN_cons, (N.eqb_sym (r * 64 + j) x), pair_eqb by lia.
           assert (x mod 64 =? j = false) as -> by lia. rewrite andb_false_r. reflexivity.
      * intros y Hy. apply Hrows. right. exact Hy.
      * intros y Hy. apply Hnomax. right. exact Hy.
      * reflexivity.
      * constructor; [|exact NDt]. intros H. apply (Hdisj x H). left. reflexivity.
      * intros y [Hy|Hy] Hy'; [subst; contradiction|]. apply (Hdisj y Hy). right. exact Hy'.
Qed.

Lemma from_matrix_fic : forall lgk ff ff2 off m win tab fic,
  from_matrix lgk ff ff2 off m = Ok (win, tab, fic) -> fic = fm_fic off (map (fm_pattern ff off) m).
Proof.
  intros lgk ff ff2 off m win tab fic H. unfold from_matrix in H.
  destruct (memN U32MAX (fm_pairs 0 (map (fm_pattern ff off) m))); [discriminate|].
  destruct (tbl_full lgk (N.of_nat (length (fm_pairs 0 (map (fm_pattern ff off) m))))); [discriminate|].
  injection H as _ _ <-. reflexivity.
Qed.
