(* C12 (CPC part): the framing written by CpcSketch::serialize is the specification's encoding, and the
   independent decoder of Spec/CpcLayout.v inverts it. *)
From DS Require Import Base.Prelude Base.Bytes Model.Cpc Model.CpcFrame Spec.CpcLayout.
From Coq Require Import ZifyBool ZifyNat ZifyN.
Ltac Zify.zify_post_hook ::= Z.div_mod_to_equations.
Open Scope N_scope.

(* ---------- constants: the crate's (translated on this run) are the format's ---------- *)
Lemma layout_constants :
  zN Gen.GenCpcSer.SERIAL_VERSION = 1 /\ zN Gen.GenCodec.FAMILY_CPC_ID = 16 /\
  zN Gen.GenCpcSer.FLAG_COMPRESSED = 1 /\ zN Gen.GenCpcSer.FLAG_HAS_HIP = 2 /\
  zN Gen.GenCpcSer.FLAG_HAS_TABLE = 3 /\ zN Gen.GenCpcSer.FLAG_HAS_WINDOW = 4 /\
  Gen.GenCpcSer.LIT_make_preamble_ints = [2; 0; 1; 4; 1; 1; 1]%Z.
Proof. repeat split; reflexivity. Qed.

Ltac sconsts :=
  change (slit 0) with 2 in *; change (slit 1) with 0 in *; change (slit 2) with 1 in *; change (slit 3) with 4 in *;
  change (slit 4) with 1 in *; change (slit 5) with 1 in *; change (slit 6) with 1 in *.

(* make_preamble_ints agrees with the format's fixed table on every combination a sketch can have *)
Definition fmt_num (hip tab win : bool) : N := (if hip then 1 else 0) + (if tab then 2 else 0) + (if win then 4 else 0).

Theorem preamble_ints_table : forall num hip tab win,
  (num = 0 -> tab = false /\ win = false) -> (num <> 0 -> tab = true \/ win = true) ->
  make_preamble_ints num hip tab win = nthN spec_preints (fmt_num hip tab win) 0.
Proof.
  intros num hip tab win H0 H1. unfold make_preamble_ints. sconsts.
  destruct (0 <? num) eqn:E.
  - specialize (H1 ltac:(lia)). destruct hip, tab, win; try reflexivity; destruct H1; discriminate.
  - destruct (H0 ltac:(lia)) as [-> ->]. destruct hip; reflexivity.
Qed.

(* ---------- byte-list toolkit ---------- *)
Lemma skipn_app_ge : forall {A} (a b : list A) n, (length a <= n)%nat -> skipn n (a ++ b) = skipn (n - length a) b.
Proof. intros A a b n H. rewrite skipn_app, skipn_all2 by exact H. reflexivity. Qed.

Lemma enc_words_length : forall ws, length (enc_words ws) = (4 * length ws)%nat.
Proof.
  induction ws as [|w ws IH]; [reflexivity|]. unfold enc_words in *. cbn [flat_map length].
  rewrite app_length, le_bytes_length, IH. lia.
Qed.

Lemma spec_words_enc : forall ws rest, Forall (fun w => w < 4294967296) ws ->
  spec_words (length ws) (enc_words ws ++ rest) = ws.
Proof.
  induction ws as [|w ws IH]; intros rest HF; [reflexivity|].
  inversion HF as [|? ? Hw HF']; subst. unfold enc_words. cbn [flat_map length spec_words].
  rewrite <- app_assoc. rewrite (firstn_app_exact _ _ 4) by apply le_bytes_length.
  rewrite (skipn_app_exact _ _ 4) by apply le_bytes_length.
  rewrite le_val_le_bytes_small by (change (256 ^ N.of_nat 4) with 4294967296; exact Hw).
  f_equal. apply IH. exact HF'.
Qed.

Lemma u32_le : forall x rest, x < 4294967296 -> le_val (firstn 4 (le_bytes 4 x ++ rest)) = x.
Proof.
  intros x rest H. rewrite (firstn_app_exact _ _ 4) by apply le_bytes_length.
  apply le_val_le_bytes_small. exact H.
Qed.

Lemma u64_le : forall x rest, x < 18446744073709551616 -> le_val (firstn 8 (le_bytes 8 x ++ rest)) = x.
Proof.
  intros x rest H. rewrite (firstn_app_exact _ _ 8) by apply le_bytes_length.
  apply le_val_le_bytes_small. exact H.
Qed.

Lemma u16_le : forall x rest, x < 65536 -> le_val (firstn 2 (le_bytes 2 x ++ rest)) = x.
Proof.
  intros x rest H. rewrite (firstn_app_exact _ _ 2) by apply le_bytes_length.
  apply le_val_le_bytes_small. exact H.
Qed.

(* ---------- the specification's decoder inverts its encoder ---------- *)
Lemma le4 : forall x, x < 4294967296 ->
  le_val [x mod 256; x / 256 mod 256; x / 256 / 256 mod 256; x / 256 / 256 / 256 mod 256] = x.
Proof. intros x H. apply (le_val_le_bytes_small 4 x). exact H. Qed.

Lemma le8 : forall x, x < 18446744073709551616 ->
  le_val [x mod 256; x / 256 mod 256; x / 256 / 256 mod 256; x / 256 / 256 / 256 mod 256;
          x / 256 / 256 / 256 / 256 mod 256; x / 256 / 256 / 256 / 256 / 256 mod 256;
          x / 256 / 256 / 256 / 256 / 256 / 256 mod 256; x / 256 / 256 / 256 / 256 / 256 / 256 / 256 mod 256] = x.
Proof. intros x H. apply (le_val_le_bytes_small 8 x). exact H. Qed.

Lemma le2 : forall x, x < 65536 -> le_val [x mod 256; x / 256 mod 256] = x.
Proof. intros x H. apply (le_val_le_bytes_small 2 x). exact H. Qed.

Lemma spec_words_enc_nil : forall ws, Forall (fun w => w < 4294967296) ws -> spec_words (length ws) (enc_words ws) = ws.
Proof. intros ws H. rewrite <- (app_nil_r (enc_words ws)). apply spec_words_enc. exact H. Qed.

Lemma skipn_enc_words : forall ws rest, skipn (4 * length ws) (enc_words ws ++ rest) = rest.
Proof. intros ws rest. apply skipn_app_exact. apply enc_words_length. Qed.

Ltac closed_nat :=
  repeat match goal with
  | |- context [N.to_nat (4 * ?n)] =>
      lazymatch n with Npos _ => idtac | N0 => idtac end;
      let v := eval vm_compute in (N.to_nat (4 * n)) in change (N.to_nat (4 * n)) with v
  end.

Theorem spec_decode_enc_spec : forall a, abs_wf a -> spec_decode (enc_spec a) = Some a.
Proof.
  intros [lgk fic sh hip num sv win] [Hlgk Hfic Hsh Hnum Hhip Hemp Hemph Hsv Hwin].
  cbn [ca_lgk ca_fic ca_seedhash ca_hip ca_num ca_sv ca_win] in *.
  assert (Hrg : (4 <=? lgk) && (lgk <=? 26) && (fic <=? 63) = true) by lia.
  unfold words_ok, lenN in *.
  destruct sv as [[nsv sw]|]; destruct win as [ww|]; destruct hip as [[k h]|];
    repeat match goal with H : _ /\ _ |- _ => destruct H end;
    try match goal with H : None = None -> _ |- _ => specialize (H eq_refl); subst end;
    try (assert (Hn0 : num <> 0) by (let Z := fresh in intros Z; apply Hemp in Z; destruct Z; discriminate));
    try (assert (Hz : num = 0) by (apply Hemp; split; reflexivity); subst num;
         try (destruct (Hemph eq_refl) as [-> ->]));
    unfold spec_decode, enc_spec, fmt_of, lenN; cbn [ca_lgk ca_fic ca_seedhash ca_hip ca_num ca_sv ca_win];
    try change (2 + 4 + 8 + 16) with 30; try change (2 + 0 + 8 + 16) with 26; try change (2 + 4 + 0 + 16) with 22;
    try change (2 + 0 + 0 + 16) with 18; try change (2 + 4 + 8 + 0) with 14; try change (2 + 0 + 8 + 0) with 10;
    try change (2 + 4 + 0 + 0) with 6; try change (2 + 0 + 0 + 0) with 2;
    try change (1 + 2 + 4) with 7; try change (0 + 2 + 4) with 6; try change (1 + 0 + 4) with 5; try change (0 + 0 + 4) with 4;
    try change (1 + 2 + 0) with 3; try change (0 + 2 + 0) with 2; try change (1 + 0 + 0) with 1; try change (0 + 0 + 0) with 0.
  all: try change (nthN spec_preints 7 0) with 10; try change (nthN spec_preints 6 0) with 6;
       try change (nthN spec_preints 5 0) with 8; try change (nthN spec_preints 4 0) with 4;
       try change (nthN spec_preints 3 0) with 8; try change (nthN spec_preints 2 0) with 4;
       try change (nthN spec_preints 1 0) with 2; try change (nthN spec_preints 0 0) with 2.
  all: cbn [app le_bytes nth length Nat.ltb Nat.leb firstn skipn].
  all: repeat match goal with |- context [N.testbit ?f ?i] =>
         let v := eval vm_compute in (N.testbit f i) in progress change (N.testbit f i) with v end.
  all: repeat match goal with |- context [N.eqb ?x ?y] =>
         lazymatch x with Npos _ => idtac | N0 => idtac end;
         lazymatch y with Npos _ => idtac | N0 => idtac end;
         let v := eval vm_compute in (N.eqb x y) in change (N.eqb x y) with v end.
  all: cbn [andb negb]; rewrite Hrg; cbn [negb].
  all: cbv beta iota zeta.
  all: try change (1 + 2 + 4) with 7; try change (0 + 2 + 4) with 6; try change (1 + 0 + 4) with 5; try change (0 + 0 + 4) with 4;
       try change (1 + 2 + 0) with 3; try change (0 + 2 + 0) with 2; try change (1 + 0 + 0) with 1; try change (0 + 0 + 0) with 0.
  all: cbv beta iota zeta.
  all: unfold u32_at, u64_at, words_at; closed_nat; cbn [skipn firstn].
  all: rewrite ?(le2 sh Hsh), ?(le4 num Hnum).
  all: try (assert (num =? 0 = false) as -> by lia).
  all: repeat match goal with
       | H : ?x < 4294967296 |- context [le_val [?x mod 256; _; _; _]] => rewrite (le4 x H)
       | H : ?x < 18446744073709551616 |- context [le_val [?x mod 256; _; _; _; _; _; _; _]] => rewrite (le8 x H)
       end.
  all: rewrite ?app_length, ?enc_words_length.
  all: repeat match goal with
       | |- context [?a <? ?b] => assert (a <? b = false) as -> by lia
       | |- context [N.eqb ?a ?b] => assert (N.eqb a b = true) as -> by lia
       end.
  all: rewrite ?Nat2N.id.
  all: repeat match goal with |- context [N.to_nat (4 * (?p + N.of_nat ?n))] =>
         let c := eval vm_compute in (N.to_nat (4 * p)) in
         replace (N.to_nat (4 * (p + N.of_nat n))) with (c + 4 * n)%nat by lia end.
  all: cbn [Nat.add skipn].
  all: rewrite ?skipn_enc_words.
  all: repeat match goal with
       | H : Forall _ ?ws |- context [spec_words (length ?ws) (enc_words ?ws ++ _)] => rewrite (spec_words_enc ws _ H)
       | H : Forall _ ?ws |- context [spec_words (length ?ws) (enc_words ?ws)] => rewrite (spec_words_enc_nil ws H)
       end.
  all: try (assert (num =? 0 = false) as -> by lia).
  all: reflexivity.
Qed.

(* ---------- the crate's writer emits the specification's encoding ---------- *)
Definition frame_abs (s : cpc) (seed_hash kxp_bits hip_bits : N) (c : compressed) : cpc_abs :=
  mkCA (c_lgk s) (c_fic s) seed_hash
       (if c_merge s then None else Some (if cpc_is_empty s then (0, 0) else (kxp_bits, hip_bits)))
       (c_num s)
       (match cp_table c with
        | Some (n, w) => Some (match cp_window c with Some _ => n | None => c_num s end, w)
        | None => None
        end)
       (cp_window c).

Theorem frame_is_enc_spec : forall s sh kxp hip c,
  (c_num s = 0 <-> cp_table c = None /\ cp_window c = None) ->
  cpc_frame s sh kxp hip c = enc_spec (frame_abs s sh kxp hip c).
Proof.
  intros s sh kxp hip [tab win] Hemp. cbn [cp_table cp_window] in Hemp.
  unfold cpc_frame, enc_spec, frame_abs, fmt_of, cpc_is_empty, write_hip, lenN, enc_words, flag.
  cbn [cp_table cp_window ca_lgk ca_fic ca_seedhash ca_hip ca_num ca_sv ca_win].
  change (zN Gen.GenCpcSer.SERIAL_VERSION) with 1. change (zN Gen.GenCodec.FAMILY_CPC_ID) with 16.
  change (zN Gen.GenCpcSer.FLAG_COMPRESSED) with 1. change (zN Gen.GenCpcSer.FLAG_HAS_HIP) with 2.
  change (zN Gen.GenCpcSer.FLAG_HAS_TABLE) with 3. change (zN Gen.GenCpcSer.FLAG_HAS_WINDOW) with 4.
  destruct (c_num s =? 0) eqn:EC.
  - assert (H0 : c_num s = 0) by lia. destruct (proj1 Hemp H0) as [-> ->].
    rewrite (preamble_ints_table (c_num s) (negb (c_merge s)) false false) by (intros; try lia; split; reflexivity).
    destruct (c_merge s); cbn [negb fmt_num]; reflexivity.
  - assert (H0 : c_num s <> 0) by lia.
    destruct tab as [[n tw]|]; destruct win as [ww|].
    + rewrite (preamble_ints_table (c_num s) (negb (c_merge s)) true true) by (intros; try lia; left; reflexivity).
      destruct (c_merge s); cbn [negb andb fmt_num app flat_map]; rewrite ?app_nil_r, <- ?app_assoc; reflexivity.
    + rewrite (preamble_ints_table (c_num s) (negb (c_merge s)) true false) by (intros; try lia; left; reflexivity).
      destruct (c_merge s); cbn [negb andb fmt_num app flat_map]; rewrite ?app_nil_r, <- ?app_assoc; reflexivity.
    + rewrite (preamble_ints_table (c_num s) (negb (c_merge s)) false true) by (intros; try lia; right; reflexivity).
      destruct (c_merge s); cbn [negb andb fmt_num app flat_map]; rewrite ?app_nil_r, <- ?app_assoc; reflexivity.
    + exfalso. apply H0. apply Hemp. split; reflexivity.
Qed.

(* well-formed inputs of the framing *)
Record frame_wf (s : cpc) (sh kxp hip : N) (c : compressed) : Prop := {
  fw_lgk : 4 <= c_lgk s <= 26;
  fw_fic : c_fic s <= 63;
  fw_sh : sh < 65536;
  fw_num : c_num s < 4294967296;
  fw_kxp : kxp < 18446744073709551616;
  fw_hip : hip < 18446744073709551616;
  fw_emp : c_num s = 0 <-> cp_table c = None /\ cp_window c = None;
  fw_tab : match cp_table c with Some (n, w) => n < 4294967296 /\ words_ok w | None => True end;
  fw_win : match cp_window c with Some w => words_ok w | None => True end
}.

Theorem writer_conforms : forall s sh kxp hip c, frame_wf s sh kxp hip c ->
  spec_decode (cpc_frame s sh kxp hip c) = Some (frame_abs s sh kxp hip c).
Proof.
  intros s sh kxp hip c [H1 H2 H3 H4 H5 H6 H7 H8 H9].
  rewrite (frame_is_enc_spec s sh kxp hip c H7). apply spec_decode_enc_spec.
  destruct c as [tab win]. unfold frame_abs, cpc_is_empty. cbn [cp_table cp_window] in *.
  constructor; cbn [ca_lgk ca_fic ca_seedhash ca_hip ca_num ca_sv ca_win]; try assumption.
  - destruct (c_merge s); [exact I|]. destruct (c_num s =? 0); split; lia.
  - split.
    + intros H0. destruct (proj1 H7 H0) as [-> ->]. split; reflexivity.
    + intros [Ht Hw]. apply H7. split; [|exact Hw]. destruct tab as [[n w]|]; [discriminate|reflexivity].
  - intros H0. destruct (c_merge s); [exact I|]. assert (c_num s =? 0 = true) as -> by lia. split; reflexivity.
  - destruct tab as [[n w]|]; [|exact I]. destruct H8 as [Hn Hw]. split; [destruct win; assumption|]. split; [exact Hw|].
    intros E. rewrite E. reflexivity.
Qed.
