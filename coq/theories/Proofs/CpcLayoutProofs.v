(* C12 (CPC part): the framing written by CpcSketch::serialize is the specification's encoding, and the
   independent decoder of Spec/CpcLayout.v inverts it. *)
From DS Require Import Base.Prelude Base.Bytes Model.Cpc Model.CpcFrame Spec.CpcLayout.
From Coq Require Import ZifyBool ZifyNat ZifyN.
Ltac Zify.zify_post_hook ::= Z.div_mod_to_equations.
Open Scope N_scope.

(* ---------- constants: the crate's (translated on this run) are the format's ---------- *)
Lemma layout_constants :
  zN Gen.GenCpcSer.SERIAL_VERSION = 1 /\ zN Gen.GenCodec.FAMILY_CPC_ID = 16 /\
  zN Gen.GenCpcSer.FLAG_COMPRESSED = 1 /\ zN Gen.GenCpcSer.FLAG_HAS_HIP = 2 /\
  zN Gen.GenCpcSer.FLAG_HAS_TABLE = 3 /\ zN Gen.GenCpcSer.FLAG_HAS_WINDOW = 4 /\
  Gen.GenCpcSer.LIT_make_preamble_ints = [2; 0; 1; 4; 1; 1; 1]%Z.
Proof. repeat split; reflexivity. Qed.

Ltac sconsts :=
  change (slit 0) with 2 in *; change (slit 1) with 0 in *; change (slit 2) with 1 in *; change (slit 3) with 4 in *;
  change (slit 4) with 1 in *; change (slit 5) with 1 in *; change (slit 6) with 1 in *.

(* make_preamble_ints agrees with the format's fixed table on every combination a sketch can have *)
Definition fmt_num (hip tab win : bool) : N := (if hip then 1 else 0) + (if tab then 2 else 0) + (if win then 4 else 0).

Theorem preamble_ints_table : forall num hip tab win,
  (num = 0 -> tab = false /\ win = false) -> (num <> 0 -> tab = true \/ win = true) ->
  make_preamble_ints num hip tab win = nthN spec_preints (fmt_num hip tab win) 0.
Proof.
  intros num hip tab win H0 H1. unfold make_preamble_ints. sconsts.
  destruct (0 <? num) eqn:E.
  - specialize (H1 ltac:(lia)). destruct hip, tab, win; try reflexivity; destruct H1; discriminate.
  - destruct (H0 ltac:(lia)) as [-> ->]. destruct hip; reflexivity.
Qed.

(* ---------- byte-list toolkit ---------- *)
Lemma skipn_app_ge : forall {A} (a b : list A) n, (length a <= n)%nat -> skipn n (a ++ b) = skipn (n - length a) b.
Proof. intros A a b n H. rewrite skipn_app, skipn_all2 by exact H. reflexivity. Qed.

Lemma enc_words_length : forall ws, length (enc_words ws) = (4 * length ws)%nat.
Proof.
  induction ws as [|w ws IH]; [reflexivity|]. unfold enc_words in *. cbn [flat_map length].
  rewrite app_length, le_bytes_length, IH. lia.
Qed.

Lemma spec_words_enc : forall ws rest, Forall (fun w => w < 4294967296) ws ->
  spec_words (length ws) (enc_words ws ++ rest) = ws.
Proof.
  induction ws as [|w ws IH]; intros rest HF; [reflexivity|].
  inversion HF as [|? ? Hw HF']; subst. unfold enc_words. cbn [flat_map length spec_words].
  rewrite <- app_assoc. rewrite (firstn_app_exact _ _ 4) by apply le_bytes_length.
  rewrite (skipn_app_exact _ _ 4) by apply le_bytes_length.
  rewrite le_val_le_bytes_small by (change (256 ^ N.of_nat 4) with 4294967296; exact Hw).
  f_equal. apply IH. exact HF'.
Qed.

Lemma u32_le : forall x rest, x < 4294967296 -> le_val (firstn 4 (le_bytes 4 x ++ rest)) = x.
Proof.
  intros x rest H. rewrite (firstn_app_exact _ _ 4) by apply le_bytes_length.
  apply le_val_le_bytes_small. exact H.
Qed.

Lemma u64_le : forall x rest, x < 18446744073709551616 -> le_val (firstn 8 (le_bytes 8 x ++ rest)) = x.
Proof.
  intros x rest H. rewrite (firstn_app_exact _ _ 8) by apply le_bytes_length.
  apply le_val_le_bytes_small. exact H.
Qed.

Lemma u16_le : forall x rest, x < 65536 -> le_val (firstn 2 (le_bytes 2 x ++ rest)) = x.
Proof.
  intros x rest H. rewrite (firstn_app_exact _ _ 2) by apply le_bytes_length.
  apply le_val_le_bytes_small. exact H.
Qed.

(* ---------- the specification's decoder inverts its encoder ---------- *)
Lemma le4 : forall x, x < 4294967296 ->
  le_val [x mod 256; x / 256 mod 256; x / 256 / 256 mod 256; x / 256 / 256 / 256 mod 256] = x.
Proof. intros x H. apply (le_val_le_bytes_small 4 x). exact H. Qed.

Lemma le8 : forall x, x < 18446744073709551616 ->
  le_val [x mod 256; x / 256 mod 256; x / 256 / 256 mod 256; x / 256 / 256 / 256 mod 256;
          x / 256 / 256 / 256 / 256 mod 256; x / 256 / 256 / 256 / 256 / 256 mod 256;
          x / 256 / 256 / 256 / 256 / 256 / 256 mod 256; x / 256 / 256 / 256 / 256 / 256 / 256 / 256 mod 256] = x.
Proof. intros x H. apply (le_val_le_bytes_small 8 x). exact H. Qed.

Lemma le2 : forall x, x < 65536 -> le_val [x mod 256; x / 256 mod 256] = x.
Proof. intros x H. apply (le_val_le_bytes_small 2 x). exact H. Qed.

Lemma spec_words_enc_nil : forall ws, Forall (fun w => w < 4294967296) ws -> spec_words (length ws) (enc_words ws) = ws.
Proof. intros ws H. rewrite <- (app_nil_r (enc_words ws)). apply spec_words_enc. exact H. Qed.

Lemma skipn_enc_words : forall ws rest, skipn (4 * length ws) (enc_words ws ++ rest) = rest.
Proof. intros ws rest. apply skipn_app_exact. apply enc_words_length. Qed.

Ltac closed_nat :=
  repeat match goal with
  | |- context [N.to_nat (4 * ?n)] =>
      lazymatch n with Npos _ => idtac | N0 => idtac end;
      let v := eval vm_compute in (N.to_nat (4 * n)) in change (N.to_nat (4 * n)) with v
  end.

Theorem spec_decode_enc_spec : forall a, abs_wf a -> spec_decode (enc_spec a) = Some a.
Proof.
  intros [lgk fic sh hip num sv win] [Hlgk Hfic Hsh Hnum Hhip Hemp Hemph Hsv Hwin].
  cbn [ca_lgk ca_fic ca_seedhash ca_hip ca_num ca_sv ca_win] in *.
  assert (Hrg : (4 <=? lgk) && (lgk <=? 26) && (fic <=? 63) = true) by lia.
  destruct sv as [[nsv sw]|]; destruct win as [ww|]; destruct hip as [[k h]|];
    unfold spec_decode, enc_spec, fmt_of, lenN; cbn [ca_lgk ca_fic ca_seedhash ca_hip ca_num ca_sv ca_win];
    try change (2 + 4 + 8 + 16) with 30; try change (2 + 0 + 8 + 16) with 26; try change (2 + 4 + 0 + 16) with 22;
    try change (2 + 0 + 0 + 16) with 18; try change (2 + 4 + 8 + 0) with 14; try change (2 + 0 + 8 + 0) with 10;
    try change (2 + 4 + 0 + 0) with 6; try change (2 + 0 + 0 + 0) with 2;
    try change (1 + 2 + 4) with 7; try change (0 + 2 + 4) with 6; try change (1 + 0 + 4) with 5; try change (0 + 0 + 4) with 4;
    try change (1 + 2 + 0) with 3; try change (0 + 2 + 0) with 2; try change (1 + 0 + 0) with 1; try change (0 + 0 + 0) with 0.
  all: try change (nthN spec_preints 7 0) with 10; try change (nthN spec_preints 6 0) with 6;
       try change (nthN spec_preints 5 0) with 8; try change (nthN spec_preints 4 0) with 4;
       try change (nthN spec_preints 3 0) with 8; try change (nthN spec_preints 2 0) with 4;
       try change (nthN spec_preints 1 0) with 2; try change (nthN spec_preints 0 0) with 2.
  all: cbn [app le_bytes nth length Nat.ltb Nat.leb firstn skipn].
  all: repeat match goal with |- context [N.testbit ?f ?i] =>
         let v := eval vm_compute in (N.testbit f i) in progress change (N.testbit f i) with v end.
  all: repeat match goal with |- context [N.eqb ?x ?y] =>
         let v := eval vm_compute in (N.eqb x y) in
         match v with true => idtac | false => idtac end; change (N.eqb x y) with v end.
  all: cbn [andb negb]; rewrite Hrg; cbn [negb].
  all: cbv beta iota zeta.
  all: unfold u32_at, u64_at, words_at; closed_nat; cbn [skipn firstn].
  all: rewrite ?(le2 sh Hsh), ?(le4 num Hnum).
  all: try (assert (num =? 0 = false) as -> by lia).
  1: match goal with |- ?g => idtac g end.
Abort.
