(* HLL proofs, part 4: open addressing without deletion (DESIGN.md appendix B.2), generic in
   the key/start/stride functions; instantiated for the coupon hash set and for the aux map.
   Table of 2^lg cells (0 = empty), probe positions pos x n = (start x + n * stride x) mod 2^lg,
   stride odd => n |-> pos x n is a bijection of [0, 2^lg). *)
From DS Require Import Base.Prelude Model.Hll Proofs.HllBase.
From Coq Require Import ZifyBool ZifyNat ZifyN.
Open Scope N_scope.
Ltac Zify.zify_post_hook ::= Z.div_mod_to_equations.

(* ---------- small generic facts ---------- *)
Lemma least_witness : forall (P : N -> Prop), (forall n, P n \/ ~ P n) ->
  forall n0, P n0 -> exists n1, n1 <= n0 /\ P n1 /\ forall m, m < n1 -> ~ P m.
Proof.
  intros P dec n0. induction n0 as [n0 IH] using (well_founded_induction N.lt_wf_0). intros H0.
  assert (D : (exists m, m < n0 /\ P m) \/ ~ (exists m, m < n0 /\ P m)).
  { clear IH H0. induction n0 using N.peano_ind.
    - right. intros (m & Hm & _). lia.
    - destruct IHn0 as [(m & Hm & Pm)|N0].
      + left. exists m. split; [lia|assumption].
      + destruct (dec n0) as [Pn|Pn].
        * left. exists n0. split; [lia|assumption].
        * right. intros (m & Hm & Pm). destruct (N.eq_dec m n0) as [->|Ne]; [contradiction|].
          apply N0. exists m. split; [lia|assumption]. }
  destruct D as [(m & Hm & Pm)|N0].
  - destruct (IH m Hm Pm) as (n1 & L & P1 & Hleast). exists n1. split; [lia|]. split; assumption.
  - exists n0. split; [lia|]. split; [assumption|]. intros m Hm Pm. apply N0. exists m. split; assumption.
Qed.

Lemma pow2_divide_odd : forall s, N.odd s = true -> forall lg d, (2 ^ lg | d * s) -> (2 ^ lg | d).
Proof.
  intros s Hs lg. induction lg using N.peano_ind; intros d H.
  - rewrite N.pow_0_r. apply N.divide_1_l.
  - rewrite N.pow_succ_r' in *.
    assert (Hev : N.even d = true).
    { assert (He : N.even (d * s) = true).
      { destruct H as [q Hq]. rewrite Hq. rewrite N.even_mul, N.even_mul. change (N.even 2) with true. cbn [orb]. apply orb_true_r. }
      rewrite N.even_mul in He. rewrite <- (N.negb_odd s) in He. rewrite Hs in He. cbn [negb] in He.
      now rewrite orb_false_r in He. }
    apply N.even_spec in Hev. destruct Hev as [d' ->].
    apply N.mul_divide_mono_l. apply IHlg.
    rewrite <- N.mul_assoc in H. apply N.mul_divide_cancel_l in H; [assumption|lia].
Qed.

Lemma NoDup_map_inj_on : forall {A B} (f : A -> B) l,
  (forall a b, In a l -> In b l -> f a = f b -> a = b) -> NoDup l -> NoDup (map f l).
Proof.
  induction l; intros Hinj Hnd; cbn [map]; [constructor|]. inversion Hnd; subst. constructor.
  - intros Hin. apply in_map_iff in Hin. destruct Hin as (b & Hb & Hbin).
    assert (b = a) by (apply Hinj; [now right|now left|assumption]). subst. contradiction.
  - apply IHl; [|assumption]. intros x y Hx Hy. apply Hinj; now right.
Qed.

Lemma forallb_false_ex : forall {A} (p : A -> bool) l, forallb p l = false -> exists x, In x l /\ p x = false.
Proof.
  induction l; cbn [forallb]; intros H; [discriminate|].
  destruct (p a) eqn:E.
  - destruct (IHl H) as (x & Hx & Px). exists x. split; [now right|assumption].
  - exists a. split; [now left|assumption].
Qed.

Lemma filter_map_len : forall {A B} (f : A -> B) (p : B -> bool) l,
  length (filter p (map f l)) = length (filter (fun a => p (f a)) l).
Proof. induction l; cbn [map filter]; [reflexivity|]. destruct (p (f a)); cbn [length]; now rewrite IHl. Qed.

Lemma filter_map_swap : forall {A B} (f : A -> B) (p : B -> bool) l,
  filter p (map f l) = map f (filter (fun a => p (f a)) l).
Proof. induction l; cbn [map filter]; [reflexivity|]. destruct (p (f a)); cbn [map]; now rewrite IHl. Qed.

Section OACount.
Variable lg : N.
Definition size : N := 2 ^ lg.
Definition has_empty (tab : arr) : Prop := exists i, i < size /\ aget tab i = 0.

(* ---------- the stored entries ---------- *)
Definition entries (tab : arr) : list N := filter nonzero (acells tab size).
Definition oa_count (tab : arr) : N := count_regs size (fun i => nonzero (aget tab i)).

Lemma entries_In : forall tab e, In e (entries tab) <-> e <> 0 /\ exists i, i < size /\ aget tab i = e.
Proof.
  intros. unfold entries, acells. rewrite filter_In, in_map_iff. unfold nonzero. split.
  - intros ((i & Hi & Hin) & Hnz). split; [lia|]. exists i. split; [now apply Nseq_range_In|assumption].
  - intros (Hnz & i & Hi & Hg). split; [|lia]. exists i. split; [assumption|now apply Nseq_range_In].
Qed.

Lemma entries_length : forall tab, N.of_nat (length (entries tab)) = oa_count tab.
Proof. intros. unfold entries, acells, oa_count, count_regs. now rewrite filter_map_len. Qed.

Lemma entries_empty : entries aempty = [].
Proof.
  unfold entries, acells. induction (Nseq 0 (N.to_nat size)); [reflexivity|].
  cbn [map filter]. rewrite aget_empty. cbn. assumption.
Qed.

Lemma oa_count_insert : forall tab i e, i < size -> aget tab i = 0 -> e <> 0 ->
  oa_count (aset tab i e) = oa_count tab + 1.
Proof.
  intros tab i e Hi Hz Hne. unfold oa_count.
  pose proof (count_regs_change size (fun j => nonzero (aget tab j)) (fun j => nonzero (aget (aset tab i e) j)) i Hi) as H.
  cbv beta in H. rewrite aget_aset_same, Hz in H.
  assert (E1 : nonzero e = true) by (unfold nonzero; lia).
  assert (E2 : nonzero 0 = false) by reflexivity.
  rewrite E1, E2 in H.
  specialize (H ltac:(intros j _ Hj; now rewrite aget_aset_other by congruence)). lia.
Qed.

Lemma oa_count_replace : forall tab i e, i < size -> aget tab i <> 0 -> e <> 0 ->
  oa_count (aset tab i e) = oa_count tab.
Proof.
  intros tab i e Hi Hz Hne. unfold oa_count.
  pose proof (count_regs_change size (fun j => nonzero (aget tab j)) (fun j => nonzero (aget (aset tab i e) j)) i Hi) as H.
  cbv beta in H. rewrite aget_aset_same in H.
  assert (E1 : nonzero e = true) by (unfold nonzero; lia).
  assert (E2 : nonzero (aget tab i) = true) by (unfold nonzero; lia).
  rewrite E1, E2 in H.
  specialize (H ltac:(intros j _ Hj; now rewrite aget_aset_other by congruence)). lia.
Qed.

Lemma has_empty_of_count : forall tab, oa_count tab < size -> has_empty tab.
Proof.
  intros tab H. destruct (forallb (fun i => nonzero (aget tab i)) (Nseq 0 (N.to_nat size))) eqn:E.
  - exfalso. rewrite forallb_forall in E. unfold oa_count in H.
    rewrite count_regs_all in H; [lia|]. intros j Hj. apply E. now apply Nseq_range_In.
  - apply forallb_false_ex in E. destruct E as (i & Hi & Hz). exists i.
    split; [now apply Nseq_range_In|]. unfold nonzero in Hz. lia.
Qed.

Lemma oa_count_empty : oa_count aempty = 0.
Proof. rewrite <- entries_length, entries_empty. reflexivity. Qed.

(* entries after writing cell i *)
Lemma entries_aset_In : forall tab i e e', i < size ->
  (In e' (entries (aset tab i e)) <->
   (e' = e /\ e <> 0) \/ (e' <> 0 /\ exists j, j < size /\ j <> i /\ aget tab j = e')).
Proof.
  intros tab i e e' Hi. rewrite entries_In. split.
  - intros (Hnz & j & Hj & Hg). rewrite aget_aset in Hg. destruct (N.eqb_spec i j).
    + left. split; congruence.
    + right. split; [assumption|]. exists j. split; [assumption|]. split; [congruence|assumption].
  - intros [[-> Hne]|(Hnz & j & Hj & Hji & Hg)].
    + split; [assumption|]. exists i. split; [assumption|apply aget_aset_same].
    + split; [assumption|]. exists j. split; [assumption|]. now rewrite aget_aset_other by congruence.
Qed.

End OACount.

Section OA.
Variable lg : N.
Local Notation size := (size lg).
Local Notation has_empty := (has_empty lg).
Local Notation entries := (entries lg).
Local Notation oa_count := (oa_count lg).
Variable key : N -> N.
Variable start stride : N -> N.
Hypothesis start_lt : forall x, start x < 2 ^ lg.
Hypothesis stride_odd : forall x, N.odd (stride x) = true.

Definition pos (x n : N) : N := (start x + n * stride x) mod size.

Lemma size_pos : 0 < size. Proof. apply pow2_pos. Qed.
Lemma pos_lt : forall x n, pos x n < size.
Proof. intros. apply N.mod_lt. pose proof size_pos. lia. Qed.
Lemma pos_0 : forall x, pos x 0 = start x.
Proof. intros. unfold pos. rewrite N.mul_0_l, N.add_0_r. apply N.mod_small. apply start_lt. Qed.
Lemma pos_succ : forall x n, pos x (n + 1) = (pos x n + stride x) mod size.
Proof.
  intros. unfold pos. pose proof size_pos. rewrite N.add_mod_idemp_l by lia. f_equal. lia.
Qed.

Lemma pos_inj_le : forall x n m, n <= m -> m < size -> pos x n = pos x m -> n = m.
Proof.
  intros x n m Hle Hm H. unfold pos in H. pose proof size_pos as Hp.
  set (a := start x + n * stride x) in *. set (b := start x + m * stride x) in *.
  assert (Hab : b = a + (m - n) * stride x) by (unfold a, b; nia).
  assert (Hdiv : (size | (m - n) * stride x)).
  { exists (b / size - a / size).
    pose proof (N.div_mod a size ltac:(lia)) as Ha. pose proof (N.div_mod b size ltac:(lia)) as Hb.
    assert (a / size <= b / size) by (apply N.div_le_mono; lia).
    rewrite H in Ha. remember (a / size) as qa. remember (b / size) as qb. remember (b mod size) as r.
    remember ((m - n) * stride x) as d. rewrite N.mul_sub_distr_r. nia. }
  apply (pow2_divide_odd _ (stride_odd x)) in Hdiv.
  destruct (N.eq_dec (m - n) 0) as [E|E]; [lia|].
  apply N.divide_pos_le in Hdiv; [|lia]. fold size in Hdiv. lia.
Qed.

Lemma pos_inj : forall x n m, n < size -> m < size -> pos x n = pos x m -> n = m.
Proof.
  intros x n m Hn Hm H. destruct (N.le_ge_cases n m).
  - now apply (pos_inj_le x).
  - symmetry. now apply (pos_inj_le x).
Qed.

Lemma pos_surj : forall x i, i < size -> exists n, n < size /\ pos x n = i.
Proof.
  intros x i Hi.
  assert (Hincl : incl (Nseq 0 (N.to_nat size)) (map (pos x) (Nseq 0 (N.to_nat size)))).
  { apply NoDup_length_incl.
    - apply NoDup_map_inj_on; [|apply Nseq_NoDup].
      intros a b Ha Hb. apply Nseq_range_In in Ha. apply Nseq_range_In in Hb. now apply pos_inj.
    - rewrite map_length. lia.
    - intros p Hp. apply in_map_iff in Hp. destruct Hp as (n & <- & _). apply Nseq_range_In. apply pos_lt. }
  assert (Hin : In i (Nseq 0 (N.to_nat size))) by now apply Nseq_range_In.
  apply Hincl in Hin. apply in_map_iff in Hin. destruct Hin as (n & Hn & Hnin).
  exists n. split; [now apply Nseq_range_In|assumption].
Qed.

Lemma land_size_mask : forall y, N.land y (size - 1) = y mod size.
Proof. intros. unfold size. apply land_mask. Qed.

(* ---------- the probe loop ---------- *)
Definition probe (tab : arr) (x : N) (matches : N -> bool) : outcome (N * bool) :=
  oa_probe (N.to_nat size) tab (size - 1) (stride x) (start x) (start x) matches.

Definition stops (tab : arr) (matches : N -> bool) (p : N) : Prop :=
  aget tab p = 0 \/ matches (aget tab p) = true.

Lemma probe_run : forall tab x matches d n n1 fuel, n + d = n1 -> n1 < size ->
  (forall m, n <= m -> m < n1 -> ~ stops tab matches (pos x m)) ->
  stops tab matches (pos x n1) ->
  (N.of_nat fuel > d) ->
  oa_probe fuel tab (size - 1) (stride x) (start x) (pos x n) matches
  = Ok (pos x n1, negb (aget tab (pos x n1) =? 0)).
Proof.
  intros tab x matches d. induction d using N.peano_ind; intros n n1 fuel Hn Hlt Hpre Hstop Hfuel.
  - rewrite N.add_0_r in Hn. subst n1. destruct fuel as [|f]; [lia|]. cbn [oa_probe].
    destruct Hstop as [Hz|Hm].
    + rewrite Hz. reflexivity.
    + destruct (N.eqb_spec (aget tab (pos x n)) 0) as [E|E]; [reflexivity|]. now rewrite Hm.
  - destruct fuel as [|f]; [lia|]. cbn [oa_probe].
    assert (Hns : ~ stops tab matches (pos x n)) by (apply Hpre; lia).
    unfold stops in Hns.
    destruct (N.eqb_spec (aget tab (pos x n)) 0) as [E|E]; [tauto|].
    destruct (matches (aget tab (pos x n))) eqn:Em; [tauto|].
    rewrite land_size_mask. rewrite <- pos_succ.
    destruct (N.eqb_spec (pos x (n + 1)) (start x)) as [Es|Es].
    + exfalso. rewrite <- pos_0 in Es. apply pos_inj in Es; lia.
    + apply IHd; try lia; try assumption. intros m Hm1 Hm2. apply Hpre; lia.
Qed.

(* with an empty cell somewhere, the probe stops at the first position that is empty or matches *)
Lemma probe_spec : forall tab x matches, has_empty tab ->
  exists n1, n1 < size /\
    (forall m, m < n1 -> aget tab (pos x m) <> 0 /\ matches (aget tab (pos x m)) = false) /\
    stops tab matches (pos x n1) /\
    probe tab x matches = Ok (pos x n1, negb (aget tab (pos x n1) =? 0)).
Proof.
  intros tab x matches (i & Hi & Hz).
  destruct (pos_surj x i Hi) as (n0 & Hn0 & Hp0).
  destruct (least_witness (fun n => stops tab matches (pos x n))) with (n0 := n0) as (n1 & Hle & Hs1 & Hleast).
  - intros n. unfold stops. destruct (N.eq_dec (aget tab (pos x n)) 0); [now left; left|].
    destruct (matches (aget tab (pos x n))); [now left; right|]. right. intros [?|?]; congruence.
  - left. now rewrite Hp0.
  - exists n1. split; [lia|]. split; [|split; [assumption|]].
    + intros m Hm. specialize (Hleast m Hm). unfold stops in Hleast.
      split; [tauto|]. destruct (matches (aget tab (pos x m))); [tauto|reflexivity].
    + unfold probe. rewrite <- (pos_0 x) at 2. apply (probe_run tab x matches n1 0 n1); try lia; try assumption.
      intros m _ Hm. now apply Hleast.
Qed.

(* ---------- the table invariant ---------- *)
Definition path_ok (tab : arr) (i : N) : Prop :=
  let e := aget tab i in
  exists n, n < size /\ pos (key e) n = i /\
    forall m, m < n -> aget tab (pos (key e) m) <> 0 /\ key (aget tab (pos (key e) m)) <> key e.

Definition OAInv (tab : arr) : Prop :=
  (forall i, size <= i -> aget tab i = 0) /\
  (forall i, i < size -> aget tab i <> 0 -> path_ok tab i).

Lemma OAInv_empty : OAInv aempty.
Proof. split; intros; [apply aget_empty|]. rewrite aget_empty in *. congruence. Qed.

(* two cells never hold the same key *)
Lemma OA_distinct : forall tab i j, OAInv tab -> i < size -> j < size ->
  aget tab i <> 0 -> aget tab j <> 0 -> key (aget tab i) = key (aget tab j) -> i = j.
Proof.
  intros tab i j [_ HI] Hi Hj Ni Nj Hk.
  destruct (HI i Hi Ni) as (n & Hn & Hpn & Hpre). destruct (HI j Hj Nj) as (m & Hm & Hpm & Hprem).
  cbv zeta in *. rewrite <- Hk in *.
  destruct (N.lt_trichotomy n m) as [L|[->|L]].
  - exfalso. destruct (Hprem n L) as [_ Hne]. rewrite Hpn in Hne. congruence.
  - congruence.
  - exfalso. destruct (Hpre m L) as [_ Hne]. rewrite Hpm in Hne. congruence.
Qed.

(* find by key *)
Definition find (tab : arr) (x : N) : outcome (N * bool) := probe tab x (fun e => key e =? x).

Lemma find_spec : forall tab x, OAInv tab -> has_empty tab ->
  exists i, i < size /\
    ((aget tab i = 0 /\ find tab x = Ok (i, false) /\
      (forall j, j < size -> aget tab j <> 0 -> key (aget tab j) <> x) /\
      exists n1, n1 < size /\ pos x n1 = i /\ forall m, m < n1 -> aget tab (pos x m) <> 0 /\ key (aget tab (pos x m)) <> x)
     \/ (aget tab i <> 0 /\ key (aget tab i) = x /\ find tab x = Ok (i, true))).
Proof.
  intros tab x HI He. destruct (probe_spec tab x (fun e => key e =? x) He) as (n1 & Hn1 & Hpre & Hstop & Hrun).
  exists (pos x n1). split; [apply pos_lt|].
  destruct (N.eq_dec (aget tab (pos x n1)) 0) as [Ez|Ez].
  - left. split; [assumption|]. unfold find. rewrite Hrun, Ez. split; [reflexivity|]. split.
    + intros j Hj Nj Hk. destruct HI as [_ HI]. destruct (HI j Hj Nj) as (n & Hn & Hpn & Hp). cbv zeta in *.
      rewrite Hk in *.
      destruct (N.lt_trichotomy n n1) as [L|[->|L]].
      * destruct (Hpre n L) as [_ Hm]. rewrite Hpn in Hm. apply N.eqb_neq in Hm. congruence.
      * congruence.
      * destruct (Hp n1 L) as [Hnz _]. congruence.
    + exists n1. split; [assumption|]. split; [reflexivity|]. intros m Hm. destruct (Hpre m Hm) as [A B].
      split; [assumption|]. now apply N.eqb_neq.
  - right. split; [assumption|]. destruct Hstop as [?|Hm]; [contradiction|]. apply N.eqb_eq in Hm.
    split; [assumption|]. unfold find. rewrite Hrun. apply N.eqb_neq in Ez. now rewrite Ez.
Qed.

(* writing a new entry into the empty cell that find returned *)
Lemma OA_insert : forall tab x e n1, OAInv tab -> n1 < size -> aget tab (pos x n1) = 0 ->
  (forall m, m < n1 -> aget tab (pos x m) <> 0 /\ key (aget tab (pos x m)) <> x) ->
  e <> 0 -> key e = x -> OAInv (aset tab (pos x n1) e).
Proof.
  intros tab x e n1 [Hout HI] Hn1 Hz Hpre Hne Hk. split.
  - intros i Hi. rewrite aget_aset_other; [now apply Hout|]. pose proof (pos_lt x n1). lia.
  - intros i Hi. rewrite aget_aset. destruct (N.eqb_spec (pos x n1) i) as [Ei|Ei]; intros Nz.
    + unfold path_ok. rewrite aget_aset. apply N.eqb_eq in Ei. rewrite Ei. apply N.eqb_eq in Ei.
      rewrite Hk. exists n1. split; [assumption|]. split; [assumption|].
      intros m Hm. destruct (Hpre m Hm) as [A B]. rewrite aget_aset_other by congruence. split; assumption.
    + destruct (HI i Hi Nz) as (n & Hn & Hpn & Hp). cbv zeta in *. unfold path_ok.
      rewrite (aget_aset_other _ _ i) by assumption. exists n. split; [assumption|]. split; [assumption|].
      intros m Hm. destruct (Hp m Hm) as [A B]. rewrite aget_aset_other by congruence. split; assumption.
Qed.

(* overwriting the cell of key x with another entry of the same key *)
Lemma OA_replace : forall tab i e, OAInv tab -> i < size -> aget tab i <> 0 ->
  e <> 0 -> key e = key (aget tab i) -> OAInv (aset tab i e).
Proof.
  intros tab i e [Hout HI] Hi Nz Hne Hk. split.
  - intros j Hj. rewrite aget_aset_other; [now apply Hout|lia].
  - intros j Hj. rewrite aget_aset. destruct (N.eqb_spec i j) as [Ej|Ej]; intros Nzj.
    + subst j. destruct (HI i Hi Nz) as (n & Hn & Hpn & Hp). cbv zeta in *. unfold path_ok.
      rewrite aget_aset_same, Hk. exists n. split; [assumption|]. split; [assumption|].
      intros m Hm. destruct (Hp m Hm) as [A B]. rewrite aget_aset_other; [split; assumption|].
      intros E. rewrite <- E in B. congruence.
    + destruct (HI j Hj Nzj) as (n & Hn & Hpn & Hp). cbv zeta in *. unfold path_ok.
      rewrite (aget_aset_other _ _ j) by assumption. exists n. split; [assumption|]. split; [assumption|].
      intros m Hm. destruct (Hp m Hm) as [A B]. rewrite aget_aset.
      destruct (N.eqb_spec i (pos (key (aget tab j)) m)) as [E|E]; [|split; assumption].
      split; [assumption|]. rewrite Hk. now rewrite <- E in B.
Qed.

Lemma entries_NoDup_keys : forall tab, OAInv tab -> NoDup (map key (entries tab)).
Proof.
  intros tab HI. unfold entries, acells. rewrite filter_map_swap, map_map.
  apply NoDup_map_inj_on.
  - intros a b Ha Hb Hk. apply filter_In in Ha. apply filter_In in Hb.
    destruct Ha as [Ha Na], Hb as [Hb Nb]. apply Nseq_range_In in Ha. apply Nseq_range_In in Hb.
    unfold nonzero in *. apply (OA_distinct tab); try assumption; lia.
  - apply NoDup_filter. apply Nseq_NoDup.
Qed.

End OA.
