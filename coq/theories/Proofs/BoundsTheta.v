(* C01, theta sketches at the sketch level: lower_bound <= estimate <= upper_bound for every retained count, every
   theta64 in [1, MAX_THETA], empty or not, whatever the binomial approximation returns. *)
From Coq Require Import ZArith NArith Reals Lia Lra Bool List.
From Coq Require Import Floats.
From Flocq Require Import Core IEEE754.BinarySingleNaN IEEE754.PrimFloat.
From DS Require Import Base.Prelude Base.FloatBits Base.FloatLemmas Model.Bounds Proofs.BoundsFloat Proofs.BoundsProofs.
Open Scope N_scope.

Lemma fzero_nn : fnn 0%float.
Proof. apply fnn_of_bool; vm_compute; reflexivity. Qed.

(* comparing with a zero does not depend on which zero it is *)
Lemma fle_zero_irrel : forall x q, fin q -> FR q = 0%R -> fle x q -> fle x 0%float.
Proof.
  intros x q Fq Rq H. unfold fle, fin, FR in *. rewrite leb_equiv in *.
  change (Prim2B 0%float) with (Prim2B PF.zero). rewrite zero_equiv, Prim2B_B2Prim.
  destruct (Prim2B q) as [s|s| |s m e Hb]; try discriminate.
  - destruct (Prim2B x) as [sx|sx| |sx mx ex Hx]; destruct s; cbn in *; try assumption; try (destruct sx; assumption).
  - exfalso. cbn in Rq. unfold SpecFloat.cond_Zopp in Rq. destruct s; cbn in Rq.
    + pose proof (F2R_lt_0 radix2 (Float radix2 (Z.neg m) e)) as Hn. cbn in Hn. specialize (Hn ltac:(lia)). lra.
    + pose proof (F2R_gt_0 radix2 (Float radix2 (Z.pos m) e)) as Hn. cbn in Hn. specialize (Hn ltac:(lia)). lra.
Qed.

Theorem theta_sketch_bounds_ordered :
  forall empty n th raw_lb raw_ub, n < 2 ^ 63 -> 1 <= th <= MAX_THETA -> (empty = true -> n = 0) ->
  let est := theta_estimate empty n th in
  fle (theta_lower_of n th raw_lb) est /\ fle est (theta_upper_of empty n th raw_ub).
Proof.
  intros empty n th rl ru Hn Hth Hempty est.
  destruct (u2f_spec n Hn) as [Nn _].
  destruct (theta_frac_pos th Hth) as [Pt _].
  unfold est, theta_estimate, theta_lower_of, theta_upper_of.
  destruct (th <? MAX_THETA) eqn:E.
  - destruct empty.
    + unfold bb_upper_of. split; [|apply fle_refl_nn; left; exact fzero_nn].
      set (q := PrimFloat.div (u2f n) (theta_frac th)).
      assert (Hq : fin q /\ FR q = 0%R).
      { destruct (fdiv_cases (u2f n) (theta_frac th) Nn Pt) as [(_ & Hf & HR)|(Hge & _)].
        - split; [exact Hf|]. fold q in HR. rewrite HR. rewrite (Hempty eq_refl).
          destruct (u2f_exact 0 ltac:(lia)) as [_ R0]. rewrite R0. change (IZR (Z.of_N 0)) with 0%R. unfold Rdiv. rewrite Rmult_0_l. apply rnd_0.
        - exfalso. rewrite (Hempty eq_refl) in Hge. destruct (u2f_exact 0 ltac:(lia)) as [_ R0]. rewrite R0 in Hge.
          change (IZR (Z.of_N 0)) with 0%R in Hge. unfold Rdiv in Hge. rewrite Rmult_0_l in Hge. rewrite rnd_0 in Hge.
          pose proof (bpow_gt_0 radix2 emax). lra. }
      destruct Hq as [Fq Rq].
      apply (fle_zero_irrel _ q Fq Rq). unfold bb_lower_of. rewrite fmin_glue. fold q.
      apply fmin_le_left. apply fnn_inf_nonnan. left. split; [exact Fq|lra].
    + apply theta_bounds_ordered; assumption.
  - apply N.ltb_ge in E. assert (th = MAX_THETA) by lia. subst th.
    destruct empty.
    + rewrite (Hempty eq_refl). assert (Z0 : u2f 0 = 0%float) by (vm_compute; reflexivity). rewrite Z0.
      split; apply fle_refl_nn; left; exact fzero_nn.
    + rewrite theta_frac_max, fdiv_one by apply Nn. split; apply fle_refl_nn; left; exact Nn.
Qed.
