(* The modelled reader versus the independent layout decoder (Spec/TDigestLayout.v), for ALL byte
   strings: whatever the reader accepts, it reads exactly what the layout says (C12, C13 soundness);
   every image whose layout content is admissible is accepted and yields that content (C13). *)
From DS Require Import Base.Prelude Base.Bytes Base.TDigestBits Model.TDigestCodec Spec.TDigestLayout Proofs.TDigestCodec.
From DS Require Gen.GenTDigest Gen.GenCodec.
From Coq Require Import ZifyBool ZifyNat ZifyN.
Open Scope N_scope.

(* ---------------- bits ---------------- *)
Lemma land_pow2 x i : N.land x (2 ^ i) = if N.testbit x i then 2 ^ i else 0.
Proof.
  apply N.bits_inj. intros j. rewrite N.land_spec, N.pow2_bits_eqb.
  destruct (N.eqb_spec i j) as [->|Hne].
  - destruct (N.testbit x j) eqn:E; [rewrite N.pow2_bits_true; reflexivity|rewrite N.bits_0; reflexivity].
  - rewrite andb_false_r. destruct (N.testbit x i); [rewrite N.pow2_bits_false by auto; reflexivity|rewrite N.bits_0; reflexivity].
Qed.
Lemma land_test x i : negb (N.land x (2 ^ i) =? 0) = N.testbit x i.
Proof.
  rewrite land_pow2. destruct (N.testbit x i); [|reflexivity].
  assert (2 ^ i <> 0) by (apply N.pow_nonzero; lia). destruct (N.eqb_spec (2 ^ i) 0); [contradiction|reflexivity].
Qed.
Lemma flag_e x : negb (N.land x F_EMPTY =? 0) = N.testbit x 0. Proof. apply (land_test x 0). Qed.
Lemma flag_s x : negb (N.land x F_SINGLE =? 0) = N.testbit x 1. Proof. apply (land_test x 1). Qed.
Lemma flag_r x : negb (N.land x F_REV =? 0) = N.testbit x 2. Proof. apply (land_test x 2). Qed.

(* ---------------- cursor reads = fields at offsets ---------------- *)
Lemma rd_le_inv n X v r : rd_le n X = Ok (v, r) -> (n <= length X)%nat /\ v = le_val (firstn n X) /\ r = skipn n X.
Proof. unfold rd_le. destruct (Nat.ltb_spec (length X) n); [discriminate|]. intros E; inversion E; subst. auto. Qed.
Lemma rd_be_inv n X v r : rd_be n X = Ok (v, r) -> (n <= length X)%nat /\ v = le_val (rev (firstn n X)) /\ r = skipn n X.
Proof. unfold rd_be. destruct (Nat.ltb_spec (length X) n); [discriminate|]. intros E; inversion E; subst. auto. Qed.
Lemma rd_le_ok n X : (n <= length X)%nat -> rd_le n X = Ok (le_val (firstn n X), skipn n X).
Proof. intros H. unfold rd_le. destruct (Nat.ltb_spec (length X) n); [lia|reflexivity]. Qed.
Lemma rd_be_ok n X : (n <= length X)%nat -> rd_be n X = Ok (le_val (rev (firstn n X)), skipn n X).
Proof. intros H. unfold rd_be. destruct (Nat.ltb_spec (length X) n); [lia|reflexivity]. Qed.

Lemma skipn_add {A} a : forall b (l : list A), skipn a (skipn b l) = skipn (b + a) l.
Proof.
  induction b as [|b IH]; intros l; [reflexivity|].
  destruct l as [|x l]; [cbn [skipn Nat.add]; rewrite !skipn_nil; reflexivity|]. cbn [skipn Nat.add]. apply IH.
Qed.

Lemma skipn_nth_cons : forall off (bs : list N), (off < length bs)%nat -> skipn off bs = nth off bs 0 :: skipn (S off) bs.
Proof.
  induction off as [|off IH]; intros [|b bs] H; cbn [length] in H; try lia; [reflexivity|].
  cbn [skipn nth]. apply IH. lia.
Qed.

Lemma field_byte off bs : (off < length bs)%nat -> field off 1 bs = nth off bs 0.
Proof. intros H. unfold field. rewrite skipn_nth_cons by auto. cbn [firstn le_val]. lia. Qed.

Definition fl (f : bool) : flavour := if f then Float else Double.
Lemma vsize_fl f : vsize (fl f) = if f then 4%nat else 8%nat. Proof. destruct f; reflexivity. Qed.

Lemma rd_float_inv f off bs v r : rd_float_le f (skipn off bs) = Ok (v, r) ->
  (off + vsize (fl f) <= length bs)%nat /\ v = value_of (fl f) (field off (vsize (fl f)) bs) /\ r = skipn (off + vsize (fl f)) bs.
Proof.
  unfold rd_float_le, field. destruct f; cbn [fl vsize value_of].
  - destruct (rd_le 4 (skipn off bs)) as [p0| |] eqn:E; cbn [obind]; try discriminate.
    intros H. assert (Hp : (v, r) = (f64_of_f32 (fst p0), snd p0)) by congruence.
    destruct p0 as [v0 r0]. cbn [fst snd] in Hp. apply rd_le_inv in E as (L & E1 & E2). rewrite skipn_length in L.
    assert (Hv : v = f64_of_f32 v0) by congruence. assert (Hr : r = r0) by congruence.
    rewrite Hv, Hr, E1, E2, skipn_add. repeat split; auto. lia.
  - intros E. apply rd_le_inv in E as (L & E1 & E2). rewrite skipn_length in L. rewrite E1, E2, skipn_add. repeat split; auto. lia.
Qed.

Lemma rd_float_ok f off bs : (off + vsize (fl f) <= length bs)%nat ->
  rd_float_le f (skipn off bs) = Ok (value_of (fl f) (field off (vsize (fl f)) bs), skipn (off + vsize (fl f)) bs).
Proof.
  intros H. unfold rd_float_le, field. destruct f; cbn [fl vsize value_of] in *.
  - rewrite rd_le_ok by (rewrite skipn_length; lia). cbn [obind fst snd]. rewrite skipn_add. reflexivity.
  - rewrite rd_le_ok by (rewrite skipn_length; lia). rewrite skipn_add. reflexivity.
Qed.

(* ---------------- the centroid / value loops ---------------- *)
Notation vs2 f := (vsize (fl f) + vsize (fl f))%nat.

Lemma read_centroids_spec f : forall n off bs cw cs cw' rest, (off <= length bs)%nat ->
  read_centroids f n (skipn off bs) cw = Ok (cs, cw', rest) ->
  cs = spec_pairs (fl f) n off bs /\ rest = skipn (off + n * vs2 f) bs /\ (off + n * vs2 f <= length bs)%nat.
Proof.
  induction n as [|n IH]; intros off bs cw cs cw' rest Hoff H; cbn [read_centroids] in H.
  - assert (E : (cs, cw', rest) = ([], cw, skipn off bs)) by congruence.
    assert (cs = []) by congruence. assert (rest = skipn off bs) by congruence. subst.
    cbn [spec_pairs]. rewrite Nat.mul_0_l, Nat.add_0_r. repeat split; auto.
  - destruct (rd_float_le f (skipn off bs)) as [[m r1]| |] eqn:E1; cbn [obind fst snd] in H; try discriminate.
    apply rd_float_inv in E1 as (L1 & -> & ->).
    assert (Hvs := vsize_fl f).
    destruct (rd_le (if f then 4 else 8) (skipn (off + vsize (fl f)) bs)) as [[w r2]| |] eqn:E2; cbn [obind fst snd] in H; try discriminate.
    rewrite <- Hvs in E2. apply rd_le_inv in E2 as (L2 & -> & ->). rewrite skipn_length in L2. rewrite skipn_add in H.
    destruct (finite_ok _); cbn [negb] in H; [|discriminate].
    destruct (_ =? 0); [discriminate|]. destruct (U64MAX <? _); [discriminate|].
    match type of H with context [read_centroids f n (skipn ?o bs) ?c] =>
      destruct (read_centroids f n (skipn o bs) c) as [[[cs0 cw0] rest0]| |] eqn:E3; cbn [obind] in H; try discriminate;
      apply IH in E3 as (-> & -> & L3); [|lia]
    end.
    assert (Ecs : cs = (value_of (fl f) (field off (vsize (fl f)) bs), le_val (firstn (vsize (fl f)) (skipn (off + vsize (fl f)) bs)))
                        :: spec_pairs (fl f) n (off + vsize (fl f) + vsize (fl f)) bs) by congruence.
    assert (Er : rest = skipn (off + vsize (fl f) + vsize (fl f) + n * vs2 f) bs) by congruence.
    subst cs rest. cbn [spec_pairs]. unfold field.
    replace (off + vsize (fl f) + vsize (fl f) + n * vs2 f)%nat with (off + S n * vs2 f)%nat in * by lia.
    repeat split; auto.
Qed.

Lemma read_values_spec f : forall n off bs vs rest, (off <= length bs)%nat ->
  read_values f n (skipn off bs) = Ok (vs, rest) ->
  vs = spec_values (fl f) n off bs /\ (off + n * vsize (fl f) <= length bs)%nat.
Proof.
  induction n as [|n IH]; intros off bs vs rest Hoff H; cbn [read_values] in H.
  - assert (vs = []) by congruence. subst. cbn [spec_values]. split; auto. lia.
  - destruct (rd_float_le f (skipn off bs)) as [[v r1]| |] eqn:E1; cbn [obind fst snd] in H; try discriminate.
    apply rd_float_inv in E1 as (L1 & -> & ->).
    destruct (finite_ok _); cbn [negb] in H; [|discriminate].
    destruct (read_values f n (skipn (off + vsize (fl f)) bs)) as [[vs0 rest0]| |] eqn:E3; cbn [obind fst snd] in H; try discriminate.
    apply IH in E3 as (-> & L3); [|lia].
    assert (Evs : vs = value_of (fl f) (field off (vsize (fl f)) bs) :: spec_values (fl f) n (off + vsize (fl f)) bs) by congruence.
    subst vs. cbn [spec_values]. split; auto. lia.
Qed.

(* ---------------- the reader reads what the layout says (own format) ---------------- *)
Definition abs_of (s : tdb) : td_abs :=
  mkTdAbs (b_k s) (b_rev s) (if tdb_is_empty s then None else Some (b_min s, b_max s)) (b_cs s) (b_buf s).

Theorem dec_reads_layout f bs s : nth 2 bs 0 = FAMID -> tdb_dec f bs = Ok s ->
  exists a, spec_decode (fl f) bs = Some a /\ a_k a = b_k s /\ a_cs a = b_cs s /\ a_buf a = b_buf s /\
            (tdb_is_empty s = false -> a = abs_of s).
Proof.
  intros Hfam. unfold tdb_dec.
  destruct (rd_le 1 bs) as [[pre r0]| |] eqn:E0; cbn [obind fst snd]; try discriminate.
  apply rd_le_inv in E0 as (L0 & Epre & ->).
  destruct (rd_le 1 (skipn 1 bs)) as [[ver r1]| |] eqn:E1; cbn [obind fst snd]; try discriminate.
  apply rd_le_inv in E1 as (L1 & Ever & ->). rewrite skipn_length in L1. rewrite skipn_add. cbn [Nat.add].
  destruct (rd_le 1 (skipn 2 bs)) as [[fam r2]| |] eqn:E2; cbn [obind fst snd]; try discriminate.
  apply rd_le_inv in E2 as (L2 & Efam & ->). rewrite skipn_length in L2. rewrite skipn_add. cbn [Nat.add].
  fold (field 0 1 bs) in Epre. change (skipn 1 bs) with (skipn 1 bs) in Ever.
  assert (Epre' : pre = nth 0 bs 0) by (rewrite Epre; apply (field_byte 0); lia).
  assert (Ever' : ver = nth 1 bs 0) by (rewrite Ever; apply (field_byte 1); lia).
  assert (Efam' : fam = nth 2 bs 0) by (rewrite Efam; apply (field_byte 2); lia).
  rewrite Efam', Hfam, N.eqb_refl. cbn [negb].
  destruct (N.eqb_spec ver SERVER) as [Ev|]; cbn [negb]; [|discriminate].
  destruct (rd_le 2 (skipn 3 bs)) as [[k r3]| |] eqn:E3; cbn [obind fst snd]; try discriminate.
  apply rd_le_inv in E3 as (L3 & Ek & ->). rewrite skipn_length in L3. rewrite skipn_add. cbn [Nat.add].
  destruct (N.ltb_spec k MINK) as [|Hk]; [discriminate|].
  destruct (rd_le 1 (skipn 5 bs)) as [[flags r4]| |] eqn:E4; cbn [obind fst snd]; try discriminate.
  apply rd_le_inv in E4 as (L4 & Efl & ->). rewrite skipn_length in L4. rewrite skipn_add. cbn [Nat.add].
  assert (Efl' : flags = nth 5 bs 0) by (rewrite Efl; apply (field_byte 5); lia).
  rewrite flag_e, flag_s, flag_r.
  destruct (N.eqb_spec pre (if N.testbit flags 0 || N.testbit flags 1 then PRE1 else PRE2)) as [Ep|]; cbn [negb]; [|discriminate].
  destruct (rd_le 2 (skipn 6 bs)) as [[un r5]| |] eqn:E5; cbn [obind fst snd]; try discriminate.
  apply rd_le_inv in E5 as (L5 & _ & ->). rewrite skipn_length in L5. rewrite skipn_add. cbn [Nat.add].
  unfold spec_decode.
  replace (length bs <? 8)%nat with false by (symmetry; apply Nat.ltb_ge; lia).
  rewrite <- Ever', Hfam, Ev. change (SERVER =? 1) with true. change (FAMID =? 20) with true. cbn [andb negb].
  rewrite <- Efl', <- Epre'. fold (field 3 2 bs) in Ek. rewrite <- Ek.
  destruct (N.testbit flags 0) eqn:B0.
  - (* empty *)
    cbn [orb] in Ep. intros HH. apply make_eq in HH as [_ Es]. cbn [no_items_b] in Es. subst s. rewrite Ep. change (PRE1 =? 1) with true.
    eexists. split; [reflexivity|]. cbn. repeat split; auto; discriminate.
  - destruct (N.testbit flags 1) eqn:B1.
    + (* single *)
      cbn [orb] in Ep.
      destruct (rd_float_le f (skipn 8 bs)) as [[v r6]| |] eqn:E6; cbn [obind fst snd]; try discriminate.
      apply rd_float_inv in E6 as (L6 & -> & ->).
      destruct (finite_ok _); cbn [negb]; [|discriminate].
      intros HH. apply make_eq in HH as [_ Es]. cbn [no_items_b] in Es. subst s. rewrite Ep. change (PRE1 =? 1) with true. cbn [negb orb].
      repeat match goal with
             | |- context [(length bs <? ?n)%nat] =>
                 replace (length bs <? n)%nat with false by (symmetry; apply Nat.ltb_ge; lia)
             end.
      eexists. split; [reflexivity|]. cbn [a_k a_cs a_buf b_k b_cs b_buf]. repeat split; auto.
    + (* general form *)
      cbn [orb] in Ep.
      destruct (rd_le 4 (skipn 8 bs)) as [[nc r6]| |] eqn:E6; cbn [obind fst snd]; try discriminate.
      apply rd_le_inv in E6 as (L6 & Enc & ->). rewrite skipn_length in L6. rewrite skipn_add. cbn [Nat.add].
      destruct (rd_le 4 (skipn 12 bs)) as [[nb r7]| |] eqn:E7; cbn [obind fst snd]; try discriminate.
      apply rd_le_inv in E7 as (L7 & Enb & ->). rewrite skipn_length in L7. rewrite skipn_add. cbn [Nat.add].
      destruct (rd_float_le f (skipn 16 bs)) as [[mn r8]| |] eqn:E8; cbn [obind fst snd]; try discriminate.
      apply rd_float_inv in E8 as (L8 & -> & ->).
      destruct (rd_float_le f (skipn (16 + vsize (fl f)) bs)) as [[mx r9]| |] eqn:E9; cbn [obind fst snd]; try discriminate.
      apply rd_float_inv in E9 as (L9 & -> & ->).
      destruct (is_nan64 _ || is_nan64 _); [discriminate|].
      destruct (_ <? _) eqn:Epay; [discriminate|].
      destruct (read_centroids f (N.to_nat nc) _ 0) as [[[cs cw] rest]| |] eqn:E10; cbn [obind]; try discriminate.
      apply read_centroids_spec in E10 as (-> & -> & L10); [|lia].
      destruct (U64MAX <? _); [discriminate|].
      destruct (read_values f (N.to_nat nb) _) as [[vs rest']| |] eqn:E11; cbn [obind fst snd]; try discriminate.
      apply read_values_spec in E11 as (-> & L11); [|lia].
      intros HH. apply make_eq in HH as [_ Es]. subst s. rewrite Ep. change (PRE2 =? 2) with true. cbn [negb orb].
      fold (field 8 4 bs) in *. fold (field 12 4 bs) in *. cbv zeta.
      repeat match goal with
             | |- context [(length bs <? ?n)%nat] =>
                 replace (length bs <? n)%nat with false by (symmetry; apply Nat.ltb_ge; lia)
             end.
      eexists. split; [reflexivity|]. cbn [a_k a_cs a_buf b_k b_cs b_buf].
      replace (16 + 2 * vsize (fl f))%nat with (16 + vsize (fl f) + vsize (fl f))%nat by lia.
      replace (2 * vsize (fl f))%nat with (vs2 f) by lia.
      assert (Ecs : spec_pairs (fl f) (N.to_nat (field 8 4 bs)) (S (S (S (S (S (S (S (S (S (S (S (S (S (S (S (S (vs2 f))))))))))))))))) bs
                    = spec_pairs (fl f) (N.to_nat nc) (16 + vsize (fl f) + vsize (fl f)) bs) by (rewrite <- Enc; f_equal; lia).
      assert (Evs : spec_values (fl f) (N.to_nat (field 12 4 bs))
                      (S (S (S (S (S (S (S (S (S (S (S (S (S (S (S (S (vs2 f + N.to_nat (field 8 4 bs) * vs2 f))))))))))))))))) bs
                    = spec_values (fl f) (N.to_nat nb) (16 + vsize (fl f) + vsize (fl f) + N.to_nat nc * vs2 f) bs)
        by (rewrite <- Enc, <- Enb; f_equal; lia).
      repeat split; auto.
      intros Hne. unfold abs_of. rewrite Hne. unfold tdb_is_empty in Hne. cbn [b_k b_rev b_min b_max b_cs b_buf] in *.
      fold (no_items_b (spec_pairs (fl f) (N.to_nat nc) (16 + vsize (fl f) + vsize (fl f)) bs) (spec_values (fl f) (N.to_nat nb) (16 + vsize (fl f) + vsize (fl f) + N.to_nat nc * vs2 f) bs)) in Hne.
      rewrite Hne. rewrite Ecs, Evs.
      repeat (f_equal; try lia).
Qed.

(* ---------------- every admissible image is accepted and yields its content (own format) ---------------- *)
Lemma fin64_finite b : fin64 b = finite_ok b. Proof. reflexivity. Qed.

Lemma read_centroids_ok f : forall n off bs cw,
  (off + n * vs2 f <= length bs)%nat ->
  forallb (fun c => fin64 (fst c) && (1 <=? snd c)) (spec_pairs (fl f) n off bs) = true ->
  cw + sumwN (spec_pairs (fl f) n off bs) <= U64MAX ->
  read_centroids f n (skipn off bs) cw =
  Ok (spec_pairs (fl f) n off bs, cw + sumwN (spec_pairs (fl f) n off bs), skipn (off + n * vs2 f) bs).
Proof.
  induction n as [|n IH]; intros off bs cw L F HS.
  - cbn [read_centroids spec_pairs]. unfold sumwN. cbn [fold_right]. rewrite Nat.mul_0_l, Nat.add_0_r.
    replace (cw + 0) with cw by lia. reflexivity.
  - cbn [read_centroids spec_pairs] in *. apply andb_prop in F as [F1 F2]. apply andb_prop in F1 as [Ff Fw].
    rewrite sumwN_cons in HS. cbn [fst snd] in *.
    rewrite rd_float_ok by lia. cbn [obind fst snd].
    assert (Hvs := vsize_fl f). rewrite <- Hvs.
    rewrite rd_le_ok by (rewrite skipn_length; lia). cbn [obind fst snd]. rewrite skipn_add.
    fold (field (off + vsize (fl f)) (vsize (fl f)) bs).
    rewrite fin64_finite in Ff. rewrite Ff. cbn [negb].
    replace (field (off + vsize (fl f)) (vsize (fl f)) bs =? 0) with false by lia.
    replace (U64MAX <? cw + field (off + vsize (fl f)) (vsize (fl f)) bs) with false by lia.
    rewrite IH by (auto; lia). cbn [obind]. rewrite sumwN_cons. cbn [snd].
    replace (off + vsize (fl f) + vsize (fl f) + n * vs2 f)%nat with (off + S n * vs2 f)%nat by lia.
    replace (cw + field (off + vsize (fl f)) (vsize (fl f)) bs + sumwN (spec_pairs (fl f) n (off + vsize (fl f) + vsize (fl f)) bs))
      with (cw + (field (off + vsize (fl f)) (vsize (fl f)) bs + sumwN (spec_pairs (fl f) n (off + vsize (fl f) + vsize (fl f)) bs))) by lia.
    reflexivity.
Qed.

Lemma read_values_ok f : forall n off bs,
  (off + n * vsize (fl f) <= length bs)%nat ->
  forallb fin64 (spec_values (fl f) n off bs) = true ->
  read_values f n (skipn off bs) = Ok (spec_values (fl f) n off bs, skipn (off + n * vsize (fl f)) bs).
Proof.
  induction n as [|n IH]; intros off bs L F.
  - cbn [read_values spec_values]. rewrite Nat.mul_0_l, Nat.add_0_r. reflexivity.
  - cbn [read_values spec_values] in *. apply andb_prop in F as [F1 F2].
    rewrite rd_float_ok by lia. cbn [obind fst snd]. rewrite fin64_finite in F1. rewrite F1. cbn [negb].
    rewrite IH by (auto; lia). cbn [obind fst snd].
    replace (off + vsize (fl f) + n * vsize (fl f))%nat with (off + S n * vsize (fl f))%nat by lia. reflexivity.
Qed.

Lemma spec_pairs_length f : forall n off bs, length (spec_pairs f n off bs) = n.
Proof. induction n; intros; cbn [spec_pairs length]; auto. Qed.
Lemma spec_values_length f : forall n off bs, length (spec_values f n off bs) = n.
Proof. induction n; intros; cbn [spec_values length]; auto. Qed.

Theorem layout_accepted f bs a : nth 2 bs 0 = FAMID -> spec_decode (fl f) bs = Some a -> abs_admissible a = true ->
  exists s, tdb_dec f bs = Ok s /\ abs_of s = a.
Proof.
  intros Hfam. unfold spec_decode.
  destruct (Nat.ltb_spec (length bs) 8) as [|L8]; [discriminate|].
  destruct (N.eqb_spec (nth 1 bs 0) 1) as [Ev|]; cbn [andb negb]; [|discriminate].
  destruct (N.eqb_spec (nth 2 bs 0) 20) as [_|]; cbn [andb negb]; [|discriminate].
  set (k := field 3 2 bs). set (flags := nth 5 bs 0).
  (* the reader's first steps *)
  assert (R : tdb_dec f bs =
    (if k <? MINK then Err else
     if negb (nth 0 bs 0 =? (if N.testbit flags 0 || N.testbit flags 1 then PRE1 else PRE2)) then Err else
     if N.testbit flags 0 then tdb_make k false PINF NINF [] 0 [] else
     if N.testbit flags 1 then
       obind (rd_float_le f (skipn 8 bs)) (fun pv => if negb (finite_ok (fst pv)) then Err
                                                     else tdb_make k (N.testbit flags 2) (fst pv) (fst pv) [(fst pv, 1)] 1 [])
     else
       obind (rd_le 4 (skipn 8 bs)) (fun pnc =>
       obind (rd_le 4 (snd pnc)) (fun pnb =>
       obind (rd_float_le f (snd pnb)) (fun pmin =>
       obind (rd_float_le f (snd pmin)) (fun pmax =>
       if is_nan64 (fst pmin) || is_nan64 (fst pmax) then Err else
       let nc := fst pnc in let nb := fst pnb in
       let vsz := if f then 4 else 8 in
       if N.of_nat (length (snd pmax)) <? nc * (vsz + vsz) + nb * vsz then Err else
       obind (read_centroids f (N.to_nat nc) (snd pmax) 0) (fun r =>
       let '(cs, cw, rest) := r in
       if U64MAX <? cw + nb then Err else
       obind (read_values f (N.to_nat nb) rest) (fun rv' =>
       tdb_make k (N.testbit flags 2) (fst pmin) (fst pmax) cs cw (fst rv'))))))))).
  { unfold tdb_dec.
    rewrite (rd_le_ok 1 bs) by lia. cbn [obind fst snd].
    rewrite (rd_le_ok 1 (skipn 1 bs)) by (rewrite skipn_length; lia). cbn [obind fst snd]. rewrite skipn_add. cbn [Nat.add].
    rewrite (rd_le_ok 1 (skipn 2 bs)) by (rewrite skipn_length; lia). cbn [obind fst snd]. rewrite skipn_add. cbn [Nat.add].
    change (le_val (firstn 1 bs)) with (field 0 1 bs). fold (field 1 1 bs) (field 2 1 bs). rewrite !field_byte by lia.
    rewrite Hfam, N.eqb_refl, Ev. change (1 =? SERVER) with true. cbn [negb].
    rewrite (rd_le_ok 2 (skipn 3 bs)) by (rewrite skipn_length; lia). cbn [obind fst snd]. rewrite skipn_add. cbn [Nat.add].
    fold (field 3 2 bs). fold k.
    destruct (k <? MINK); [reflexivity|].
    rewrite (rd_le_ok 1 (skipn 5 bs)) by (rewrite skipn_length; lia). cbn [obind fst snd]. rewrite skipn_add. cbn [Nat.add].
    fold (field 5 1 bs). rewrite field_byte by lia. fold flags. rewrite flag_e, flag_s, flag_r.
    destruct (negb (nth 0 bs 0 =? _)); [reflexivity|].
    rewrite (rd_le_ok 2 (skipn 6 bs)) by (rewrite skipn_length; lia). cbn [obind fst snd]. rewrite skipn_add. cbn [Nat.add].
    reflexivity. }
  destruct (N.testbit flags 0) eqn:B0.
  - (* empty *)
    destruct (N.eqb_spec (nth 0 bs 0) 1) as [Ep|]; [|discriminate].
    intros Ha Adm. assert (Ea : a = mkTdAbs k false None [] []) by congruence. subst a.
    unfold abs_admissible in Adm. cbn [a_k a_cs a_buf a_minmax forallb] in Adm. repeat (apply andb_prop in Adm as [Adm ?]).
    eexists. split.
    + rewrite R. replace (k <? MINK) with false by (change MINK with 10; lia). rewrite Ep. cbn [orb]. change (1 =? PRE1) with true. cbn [negb].
      apply make_new. apply N.ltb_ge. change MINK with 10. lia.
    + reflexivity.
  - destruct (N.testbit flags 1) eqn:B1.
    + (* single *)
      destruct (N.eqb_spec (nth 0 bs 0) 1) as [Ep|]; cbn [negb orb]; [|discriminate].
      destruct (Nat.ltb_spec (length bs) (8 + vsize (fl f))) as [|Lv]; [discriminate|].
      set (v := value_of (fl f) (field 8 (vsize (fl f)) bs)).
      intros Ha Adm. assert (Ea : a = mkTdAbs k (N.testbit flags 2) (Some (v, v)) [(v, 1)] []) by congruence. subst a.
      unfold abs_admissible in Adm. cbn [a_k a_cs a_buf a_minmax forallb fst snd] in Adm.
      assert (Hf : fin64 v = true) by (rewrite !andb_true_iff in Adm; tauto).
      assert (Hk10 : (10 <=? k) = true) by (rewrite !andb_true_iff in Adm; tauto).
      eexists. split.
      * rewrite R. replace (k <? MINK) with false by (change MINK with 10; lia). rewrite Ep. cbn [orb]. change (1 =? PRE1) with true. cbn [negb].
        rewrite rd_float_ok by lia. cbn [obind fst snd]. fold v.
        rewrite fin64_finite in Hf. rewrite Hf. cbn [negb].
        apply make_ok; [apply N.ltb_ge; change MINK with 10; lia|left; discriminate].
      * reflexivity.
    + (* general form *)
      destruct (N.eqb_spec (nth 0 bs 0) 2) as [Ep|]; cbn [negb orb]; [|discriminate].
      cbv zeta. replace (2 * vsize (fl f))%nat with (vs2 f) by lia.
      destruct (Nat.ltb_spec (length bs) (16 + vs2 f)) as [|Lh]; [discriminate|].
      destruct (Nat.ltb_spec (length bs) (16 + vs2 f + N.to_nat (field 8 4 bs) * vs2 f + N.to_nat (field 12 4 bs) * vsize (fl f))) as [|Lp]; [discriminate|].
      set (nc := field 8 4 bs) in *. set (nb := field 12 4 bs) in *.
      set (mn := value_of (fl f) (field 16 (vsize (fl f)) bs)). set (mx := value_of (fl f) (field (16 + vsize (fl f)) (vsize (fl f)) bs)).
      set (cs := spec_pairs (fl f) (N.to_nat nc) (16 + vs2 f) bs).
      set (vs := spec_values (fl f) (N.to_nat nb) (16 + vs2 f + N.to_nat nc * vs2 f) bs).
      intros Ha Adm. assert (Ea : a = mkTdAbs k (N.testbit flags 2) (Some (mn, mx)) cs vs) by congruence. subst a.
      unfold abs_admissible, abs_weight, no_items in Adm. cbn [a_k a_cs a_buf a_minmax] in Adm.
      apply andb_prop in Adm as [Adm Amm]. apply andb_prop in Adm as [Adm Atot]. apply andb_prop in Adm as [Adm Abuf].
      apply andb_prop in Adm as [Ak Acs]. apply andb_prop in Amm as [Amm Ane]. apply andb_prop in Amm as [Amn Amx].
      apply negb_true_iff in Amn, Amx.
      assert (Hvs := vsize_fl f).
      eexists. split.
      * rewrite R. replace (k <? MINK) with false by (change MINK with 10; lia). rewrite Ep. cbn [orb]. change (2 =? PRE2) with true. cbn [negb].
        rewrite (rd_le_ok 4 (skipn 8 bs)) by (rewrite skipn_length; lia). cbn [obind fst snd]. rewrite skipn_add. cbn [Nat.add].
        rewrite (rd_le_ok 4 (skipn 12 bs)) by (rewrite skipn_length; lia). cbn [obind fst snd]. rewrite skipn_add. cbn [Nat.add].
        rewrite rd_float_ok by lia. cbn [obind fst snd]. rewrite rd_float_ok by lia. cbn [obind fst snd].
        fold (field 8 4 bs) (field 12 4 bs). fold nc nb mn mx. rewrite Amn, Amx. cbn [orb]. cbv zeta.
        rewrite skipn_length.
        replace (N.of_nat (length bs - (16 + vsize (fl f) + vsize (fl f))) <? nc * ((if f then 4 else 8) + (if f then 4 else 8)) + nb * (if f then 4 else 8))
          with false by (destruct f; cbn [fl vsize] in *; lia).
        replace (16 + vsize (fl f) + vsize (fl f))%nat with (16 + vs2 f)%nat by lia.
        rewrite read_centroids_ok; [|lia|exact Acs|fold cs; unfold sumwN, U64MAX; lia].
        cbn [obind]. fold cs.
        replace (U64MAX <? 0 + sumwN cs + nb) with false.
        2:{ symmetry. apply N.ltb_ge. unfold U64MAX, sumwN.
            assert (N.of_nat (length vs) = nb) by (unfold vs; rewrite spec_values_length; lia). lia. }
        rewrite read_values_ok; [|lia|exact Abuf]. cbn [obind fst snd]. fold vs.
        apply make_ok; [apply N.ltb_ge; change MINK with 10; lia|].
        apply negb_true_iff in Ane. destruct cs; [right; destruct vs; [discriminate|discriminate]|left; discriminate].
      * unfold abs_of, tdb_is_empty. cbn [b_k b_rev b_min b_max b_cs b_buf b_cw].
        replace (match cs with [] => match vs with [] => true | _ :: _ => false end | _ :: _ => false end) with false.
        -- reflexivity.
        -- apply negb_true_iff in Ane. destruct cs, vs; auto; discriminate.
Qed.

(* ---------------- the reference implementation's big-endian formats ---------------- *)
Lemma rd_be_at_inv n off bs v r : (0 < n)%nat -> rd_be n (skipn off bs) = Ok (v, r) ->
  (off + n <= length bs)%nat /\ v = field_be off n bs /\ r = skipn (off + n) bs.
Proof.
  intros Hn E. apply rd_be_inv in E as (L & E1 & E2). rewrite skipn_length in L. rewrite skipn_add in E2.
  unfold field_be. repeat split; auto. lia.
Qed.
Lemma rd_be_at_ok n off bs : (off + n <= length bs)%nat ->
  rd_be n (skipn off bs) = Ok (field_be off n bs, skipn (off + n) bs).
Proof. intros H. rewrite rd_be_ok by (rewrite skipn_length; lia). rewrite skipn_add. reflexivity. Qed.

Lemma dec_ref_entry f bs : (3 <= length bs)%nat -> is_ref_image bs = true -> tdb_dec f bs = tdb_dec_compat bs.
Proof.
  intros L H. unfold is_ref_image in H. apply andb_prop in H as [H H2]. apply andb_prop in H as [H0 H1].
  assert (E0 : nth 0 bs 0 = 0) by (destruct bs as [|b0 bs']; [cbn in L; lia|cbn [nth] in *; lia]).
  assert (E1 : nth 1 bs 0 = 0) by (destruct bs as [|b0 [|b1 bs']]; [cbn in L; lia|cbn in L; lia|cbn [nth] in *; lia]).
  assert (E2 : nth 2 bs 0 = 0) by (destruct bs as [|b0 [|b1 [|b2 bs']]]; [cbn in L; lia|cbn in L; lia|cbn in L; lia|cbn [nth] in *; lia]).
  unfold tdb_dec.
  rewrite (rd_le_ok 1 bs) by lia. cbn [obind fst snd].
  rewrite (rd_le_ok 1 (skipn 1 bs)) by (rewrite skipn_length; lia). cbn [obind fst snd]. rewrite skipn_add. cbn [Nat.add].
  rewrite (rd_le_ok 1 (skipn 2 bs)) by (rewrite skipn_length; lia). cbn [obind fst snd].
  change (le_val (firstn 1 bs)) with (field 0 1 bs). fold (field 1 1 bs) (field 2 1 bs). rewrite !field_byte by lia.
  rewrite E0, E1, E2. reflexivity.
Qed.

Ltac kill_len bs :=
  repeat match goal with
         | |- context [(length bs <? ?n)%nat] => replace (length bs <? n)%nat with false by (symmetry; apply Nat.ltb_ge; lia)
         end.

Lemma read_compat_spec f : forall n off bs cw cs cw', (off <= length bs)%nat ->
  read_compat f n (skipn off bs) cw = Ok (cs, cw') ->
  cs = spec_ref_pairs (fl f) n off bs /\ (off + n * vs2 f <= length bs)%nat.
Proof.
  induction n as [|n IH]; intros off bs cw cs cw' Hoff H; cbn [read_compat] in H.
  - assert (cs = []) by congruence. subst. cbn [spec_ref_pairs]. split; auto. lia.
  - assert (Hvs := vsize_fl f). rewrite <- Hvs in H.
    destruct (rd_be (vsize (fl f)) (skipn off bs)) as [[w r1]| |] eqn:E1; cbn [obind fst snd] in H; try discriminate.
    apply rd_be_at_inv in E1 as (L1 & -> & ->); [|destruct f; cbn; lia].
    destruct (rd_be (vsize (fl f)) (skipn (off + vsize (fl f)) bs)) as [[m r2]| |] eqn:E2; cbn [obind fst snd] in H; try discriminate.
    apply rd_be_at_inv in E2 as (L2 & -> & ->); [|destruct f; cbn; lia].
    destruct (_ =? 0); [discriminate|]. destruct (finite_ok _); cbn [negb] in H; [|discriminate].
    destruct (U64MAX <? _); [discriminate|].
    match type of H with context [read_compat f n (skipn ?o bs) ?c] =>
      destruct (read_compat f n (skipn o bs) c) as [[cs0 cw0]| |] eqn:E3; cbn [obind fst snd] in H; try discriminate;
      apply IH in E3 as (-> & L3); [|lia]
    end.
    match type of H with Ok (?c :: ?r, _) = _ => assert (Ecs : cs = c :: r) by congruence end.
    subst cs. cbn [spec_ref_pairs]. split; [|lia].
    destruct f; cbn [fl vsize value_of] in *; reflexivity.
Qed.

Lemma read_compat_ok f : forall n off bs cw,
  (off + n * vs2 f <= length bs)%nat ->
  forallb (fun c => fin64 (fst c) && (1 <=? snd c)) (spec_ref_pairs (fl f) n off bs) = true ->
  cw + sumwN (spec_ref_pairs (fl f) n off bs) <= U64MAX ->
  read_compat f n (skipn off bs) cw = Ok (spec_ref_pairs (fl f) n off bs, cw + sumwN (spec_ref_pairs (fl f) n off bs)).
Proof.
  induction n as [|n IH]; intros off bs cw L F HS.
  - cbn [read_compat spec_ref_pairs]. unfold sumwN. cbn [fold_right]. replace (cw + 0) with cw by lia. reflexivity.
  - cbn [read_compat spec_ref_pairs] in *. apply andb_prop in F as [F1 F2]. apply andb_prop in F1 as [Ff Fw].
    rewrite sumwN_cons in HS. cbn [fst snd] in *.
    assert (Hvs := vsize_fl f). rewrite <- Hvs.
    rewrite rd_be_at_ok by lia. cbn [obind fst snd]. rewrite rd_be_at_ok by lia. cbn [obind fst snd].
    set (wv := uint_of_f64 U64MAX (value_of (fl f) (field_be off (vsize (fl f)) bs))) in *.
    set (mv := value_of (fl f) (field_be (off + vsize (fl f)) (vsize (fl f)) bs)) in *.
    replace (uint_of_f64 U64MAX (if f then f64_of_f32 (field_be off (vsize (fl f)) bs) else field_be off (vsize (fl f)) bs)) with wv
      by (destruct f; reflexivity).
    replace (if f then f64_of_f32 (field_be (off + vsize (fl f)) (vsize (fl f)) bs) else field_be (off + vsize (fl f)) (vsize (fl f)) bs) with mv
      by (destruct f; reflexivity).
    replace (wv =? 0) with false by lia. rewrite fin64_finite in Ff. rewrite Ff. cbn [negb].
    replace (U64MAX <? cw + wv) with false by lia.
    rewrite IH by (auto; lia). cbn [obind fst snd]. rewrite sumwN_cons. cbn [snd].
    replace (cw + wv + sumwN (spec_ref_pairs (fl f) n (off + vsize (fl f) + vsize (fl f)) bs))
      with (cw + (wv + sumwN (spec_ref_pairs (fl f) n (off + vsize (fl f) + vsize (fl f)) bs))) by lia.
    reflexivity.
Qed.

Lemma spec_ref_pairs_length f : forall n off bs, length (spec_ref_pairs f n off bs) = n.
Proof. induction n; intros; cbn [spec_ref_pairs length]; auto. Qed.

Theorem ref_reads_layout f bs s : (3 <= length bs)%nat -> is_ref_image bs = true -> tdb_dec f bs = Ok s ->
  exists a, spec_decode_ref bs = Some a /\ a_k a = b_k s /\ a_cs a = b_cs s /\ a_buf a = b_buf s /\
            (tdb_is_empty s = false -> a = abs_of s).
Proof.
  intros L3 Href. rewrite (dec_ref_entry f bs L3 Href). unfold tdb_dec_compat.
  change bs with (skipn 0 bs) at 1.
  destruct (rd_be 4 (skipn 0 bs)) as [[ty r0]| |] eqn:E0; cbn [obind fst snd]; try discriminate.
  apply rd_be_at_inv in E0 as (L0 & -> & ->); [|lia]. cbn [Nat.add] in *.
  unfold spec_decode_ref. replace (length bs <? 4)%nat with false by (symmetry; apply Nat.ltb_ge; lia).
  change COMPAT_DOUBLE with 1. change COMPAT_FLOAT with 2.
  destruct (field_be 0 4 bs =? 1).
  - destruct (rd_be 8 (skipn 4 bs)) as [[mn r1]| |] eqn:E1; cbn [obind fst snd]; try discriminate.
    apply rd_be_at_inv in E1 as (L1 & -> & ->); [|lia]. cbn [Nat.add] in *.
    destruct (rd_be 8 (skipn 12 bs)) as [[mx r2]| |] eqn:E2; cbn [obind fst snd]; try discriminate.
    apply rd_be_at_inv in E2 as (L2 & -> & ->); [|lia]. cbn [Nat.add] in *.
    destruct (is_nan64 _ || is_nan64 _); [discriminate|].
    destruct (rd_be 8 (skipn 20 bs)) as [[kb r3]| |] eqn:E3; cbn [obind fst snd]; try discriminate.
    apply rd_be_at_inv in E3 as (L4 & -> & ->); [|lia]. cbn [Nat.add] in *. cbv zeta.
    destruct (_ <? MINK); [discriminate|].
    destruct (rd_be 4 (skipn 28 bs)) as [[n r4]| |] eqn:E4; cbn [obind fst snd]; try discriminate.
    apply rd_be_at_inv in E4 as (L5 & -> & ->); [|lia]. cbn [Nat.add] in *.
    destruct (_ <? _ * 16); [discriminate|].
    destruct (read_compat false _ (skipn 32 bs) 0) as [[cs cw]| |] eqn:E5; cbn [obind fst snd]; try discriminate.
    apply (read_compat_spec false) in E5 as (-> & L6); [|lia]. cbn [fl vsize] in L6.
    intros HH. apply make_eq in HH as [_ Es]. subst s.
    cbv zeta. kill_len bs.
    eexists. split; [reflexivity|]. cbn [a_k a_cs a_buf b_k b_cs b_buf fl]. repeat split; auto.
    intros Hne. unfold abs_of. rewrite Hne. unfold tdb_is_empty in Hne. cbn [b_cs b_buf] in Hne.
    match goal with |- context [no_items_b ?c []] => destruct c; [discriminate|reflexivity] end.
  - destruct (field_be 0 4 bs =? 2); [|discriminate].
    destruct (rd_be 8 (skipn 4 bs)) as [[mn r1]| |] eqn:E1; cbn [obind fst snd]; try discriminate.
    apply rd_be_at_inv in E1 as (L1 & -> & ->); [|lia]. cbn [Nat.add] in *.
    destruct (rd_be 8 (skipn 12 bs)) as [[mx r2]| |] eqn:E2; cbn [obind fst snd]; try discriminate.
    apply rd_be_at_inv in E2 as (L2 & -> & ->); [|lia]. cbn [Nat.add] in *.
    destruct (is_nan64 _ || is_nan64 _); [discriminate|].
    destruct (rd_be 4 (skipn 20 bs)) as [[kb r3]| |] eqn:E3; cbn [obind fst snd]; try discriminate.
    apply rd_be_at_inv in E3 as (L4 & -> & ->); [|lia]. cbn [Nat.add] in *. cbv zeta.
    destruct (_ <? MINK); [discriminate|].
    destruct (rd_be 4 (skipn 24 bs)) as [[un r4]| |] eqn:E4; cbn [obind fst snd]; try discriminate.
    apply rd_be_at_inv in E4 as (L5 & _ & ->); [|lia]. cbn [Nat.add] in *.
    destruct (rd_be 2 (skipn 28 bs)) as [[n r5]| |] eqn:E6; cbn [obind fst snd]; try discriminate.
    apply rd_be_at_inv in E6 as (L7 & -> & ->); [|lia]. cbn [Nat.add] in *.
    destruct (read_compat true _ (skipn 30 bs) 0) as [[cs cw]| |] eqn:E5; cbn [obind fst snd]; try discriminate.
    apply (read_compat_spec true) in E5 as (-> & L6); [|lia]. cbn [fl vsize] in L6.
    intros HH. apply make_eq in HH as [_ Es]. subst s.
    cbv zeta. kill_len bs.
    eexists. split; [reflexivity|]. cbn [a_k a_cs a_buf b_k b_cs b_buf fl]. repeat split; auto.
    intros Hne. unfold abs_of. rewrite Hne. unfold tdb_is_empty in Hne. cbn [b_cs b_buf] in Hne.
    match goal with |- context [no_items_b ?c []] => destruct c; [discriminate|reflexivity] end.
Qed.

Theorem ref_accepted f bs a : is_ref_image bs = true -> spec_decode_ref bs = Some a -> abs_admissible a = true ->
  exists s, tdb_dec f bs = Ok s /\ abs_of s = a.
Proof.
  intros Href. unfold spec_decode_ref.
  destruct (Nat.ltb_spec (length bs) 4) as [|L4]; [discriminate|].
  rewrite (dec_ref_entry f bs ltac:(lia) Href). unfold tdb_dec_compat.
  change (rd_be 4 bs) with (rd_be 4 (skipn 0 bs)). rewrite rd_be_at_ok by lia. cbn [obind fst snd Nat.add].
  change COMPAT_DOUBLE with 1. change COMPAT_FLOAT with 2.
  destruct (field_be 0 4 bs =? 1).
  - cbv zeta.
    match goal with |- context [(length bs <? ?n)%nat] => destruct (Nat.ltb_spec (length bs) n) as [|L32]; [discriminate|] end.
    match goal with |- context [(length bs <? ?n)%nat] => destruct (Nat.ltb_spec (length bs) n) as [|Lp]; [discriminate|] end.
    intros Ha Adm. match type of Ha with Some ?t = Some a => assert (Ea : a = t) by congruence end. subst a.
    unfold abs_admissible, abs_weight, no_items in Adm. cbn [a_k a_cs a_buf a_minmax forallb length] in Adm.
    apply andb_prop in Adm as [Adm Amm]. apply andb_prop in Adm as [Adm Atot]. apply andb_prop in Adm as [Adm _].
    apply andb_prop in Adm as [Ak Acs]. apply andb_prop in Amm as [Amm Ane]. apply andb_prop in Amm as [Amn Amx].
    apply negb_true_iff in Amn, Amx.
    do 2 (rewrite rd_be_at_ok by lia; cbn [obind fst snd Nat.add]). rewrite Amn, Amx. cbn [orb].
    rewrite rd_be_at_ok by lia. cbn [obind fst snd Nat.add].
    replace (uint_of_f64 U16MAX (field_be 20 8 bs) <? MINK) with false by (change MINK with 10; lia).
    rewrite rd_be_at_ok by lia. cbn [obind fst snd Nat.add]. rewrite skipn_length.
    replace (N.of_nat (length bs - 32) <? field_be 28 4 bs * 16) with false by lia.
    rewrite (read_compat_ok false); [|cbn [fl vsize]; lia|exact Acs|unfold sumwN, U64MAX; cbn [fl]; lia].
    cbn [obind fst snd fl].
    destruct (spec_ref_pairs Double (N.to_nat (field_be 28 4 bs)) 32 bs); [discriminate|].
    rewrite make_ok; [|apply N.ltb_ge; change MINK with 10; lia|left; discriminate].
    eexists. split; reflexivity.
  - destruct (field_be 0 4 bs =? 2); [|discriminate].
    cbv zeta.
    match goal with |- context [(length bs <? ?n)%nat] => destruct (Nat.ltb_spec (length bs) n) as [|L30]; [discriminate|] end.
    match goal with |- context [(length bs <? ?n)%nat] => destruct (Nat.ltb_spec (length bs) n) as [|Lp]; [discriminate|] end.
    intros Ha Adm. match type of Ha with Some ?t = Some a => assert (Ea : a = t) by congruence end. subst a.
    unfold abs_admissible, abs_weight, no_items in Adm. cbn [a_k a_cs a_buf a_minmax forallb length] in Adm.
    apply andb_prop in Adm as [Adm Amm]. apply andb_prop in Adm as [Adm Atot]. apply andb_prop in Adm as [Adm _].
    apply andb_prop in Adm as [Ak Acs]. apply andb_prop in Amm as [Amm Ane]. apply andb_prop in Amm as [Amn Amx].
    apply negb_true_iff in Amn, Amx.
    do 2 (rewrite rd_be_at_ok by lia; cbn [obind fst snd Nat.add]). rewrite Amn, Amx. cbn [orb].
    rewrite rd_be_at_ok by lia. cbn [obind fst snd Nat.add].
    replace (uint_of_f64 U16MAX (f64_of_f32 (field_be 20 4 bs)) <? MINK) with false by (change MINK with 10; lia).
    rewrite rd_be_at_ok by lia. cbn [obind fst snd Nat.add].
    rewrite rd_be_at_ok by lia. cbn [obind fst snd Nat.add].
    rewrite (read_compat_ok true); [|cbn [fl vsize]; lia|exact Acs|unfold sumwN, U64MAX; cbn [fl]; lia].
    cbn [obind fst snd fl].
    destruct (spec_ref_pairs Float (N.to_nat (field_be 28 2 bs)) 30 bs); [discriminate|].
    rewrite make_ok; [|apply N.ltb_ge; change MINK with 10; lia|left; discriminate].
    eexists. split; reflexivity.
Qed.

(* ---------------- C12: the writer's bytes conform to the layout ---------------- *)
Lemma enc_family s : nth 2 (tdb_enc s) 0 = FAMID.
Proof. unfold tdb_enc. reflexivity. Qed.

Theorem writer_conforms s : wfb s -> spec_decode Double (tdb_enc s) = Some (abs_of s).
Proof.
  intros W. pose proof (tdb_roundtrip s W) as R.
  destruct (tdb_is_empty s) eqn:E.
  - destruct W as [[Hk1 Hk2] Hbuf _ _ [Hcw _] _ _ Hempty].
    unfold tdb_is_empty in E. rewrite Hbuf in E. destruct (b_cs s) eqn:Ecs; [|discriminate].
    destruct (Hempty eq_refl) as (Emn & Emx & Erv).
    unfold abs_of, tdb_is_empty. rewrite Ecs, Hbuf, Erv.
    unfold tdb_enc, enc_flags, tdb_is_empty, tdb_is_single, tdb_total. rewrite Ecs, Hbuf, Erv, Hcw.
    unfold sumwN. cbn [fold_right length]. change (0 + N.of_nat 0 <=? 1) with true. change (0 + N.of_nat 0 =? 1) with false.
    cbn [app]. unfold spec_decode.
    cbn [length]. rewrite !app_length, !le_bytes_length. cbn [length Nat.add Nat.ltb Nat.leb].
    cbn [nth]. change (SERVER =? 1) with true. change (FAMID =? 20) with true. cbn [andb negb].
    unfold field. cbn [skipn]. rewrite firstn_app_exact by apply le_bytes_length.
    rewrite le_val_le_bytes_small by (rewrite p2; lia).
    replace (nth 5 (PRE1 :: SERVER :: FAMID :: le_bytes 2 (b_k s) ++ F_EMPTY + 0 + 0 :: le_bytes 2 0 ++ []) 0) with (F_EMPTY + 0 + 0)
      by (cbn [le_bytes app nth]; reflexivity).
    change (N.testbit (F_EMPTY + 0 + 0) 0) with true. cbn iota. change (PRE1 =? 1) with true. cbn iota. reflexivity.
  - destruct (dec_reads_layout false (tdb_enc s) s (enc_family s) R) as (a & Ha & _ & _ & _ & Hab).
    cbn [fl] in Ha. rewrite Ha, (Hab E). reflexivity.
Qed.

(* the constants the crate uses (re-read from the source on every run) are the layout's *)
Lemma layout_constants :
  PRE1 = 1 /\ PRE2 = 2 /\ SERVER = 1 /\ FAMID = 20 /\ F_EMPTY = 1 /\ F_SINGLE = 2 /\ F_REV = 4 /\
  COMPAT_DOUBLE = 1 /\ COMPAT_FLOAT = 2 /\ MINK = 10.
Proof. repeat split; reflexivity. Qed.
