(* Proofs about Model/Bloom.v:
     - the bit array is exactly the set of positions of the inserted items (Rep),
       through insert / contains_and_insert / union / intersect / invert / reset / codec;
     - contains = "all positions of the item are in the set", hence no false negatives;
     - num_bits_set is the number of set positions after every operation;
     - deserialize (serialize f) = Ok f for every well-formed filter.
   The digests (h0, h1) of the items are ARBITRARY numbers here, so everything holds for
   the crate's XXH64-derived digests in particular. *)
From DS Require Import Base.Prelude Model.Bloom Proofs.BloomBits.
From Coq Require Import ZifyBool ZifyNat ZifyN.
Ltac Zify.zify_post_hook ::= Z.div_mod_to_equations.
Open Scope N_scope.

(* ---------- positions ---------- *)
Lemma bit_index_lt cap h0 h1 i : 0 < cap -> bit_index cap h0 h1 i < cap.
Proof. intros H. unfold bit_index. apply N.mod_lt. lia. Qed.

Theorem positions_range cap nh h0 h1 p : 0 < cap -> In p (positions cap nh h0 h1) -> p < cap.
Proof.
  intros Hc Hin. unfold positions in Hin. apply in_map_iff in Hin. destruct Hin as [i [<- _]].
  apply bit_index_lt; auto.
Qed.

(* the index arithmetic of compute_bit_index is the property's formula *)
Theorem bit_index_formula cap h0 h1 i :
  bit_index cap h0 h1 i = ((h0 + i * h1) mod 2 ^ 64 / 2) mod cap.
Proof.
  unfold bit_index, add64, mul64. change M64 with (2 ^ 64).
  rewrite N.add_mod_idemp_r by (apply pow2_ne0). rewrite N.shiftr_div_pow2. reflexivity.
Qed.

Theorem positions_formula cap nh h0 h1 p :
  In p (positions cap nh h0 h1) <->
  exists i, 1 <= i <= nh /\ p = ((h0 + i * h1) mod 2 ^ 64 / 2) mod cap.
Proof.
  unfold positions. rewrite in_map_iff. split.
  - intros [k [<- Hk]]. apply in_seq in Hk. exists (N.of_nat k). split; [lia|apply bit_index_formula].
  - intros [i [Hi ->]]. exists (N.to_nat i). rewrite N2Nat.id. split; [apply bit_index_formula|].
    apply in_seq. lia.
Qed.

Lemma positions_nonempty cap nh h0 h1 : 1 <= nh -> In (bit_index cap h0 h1 1) (positions cap nh h0 h1).
Proof.
  intros H. unfold positions. apply in_map_iff. exists 1%nat. split; [reflexivity|]. apply in_seq. lia.
Qed.

(* ---------- the bit at position p of a word array ---------- *)
Definition wbit (ws : list N) (p : N) : bool := N.testbit (nthN ws (p / 64) 0) (p mod 64).

Lemma get_bit_spec ws p : get_bit ws p = wbit ws p.
Proof.
  unfold get_bit, wbit. rewrite shiftr6, land63, N.shiftl_1_l, land_pow2.
  destruct (N.testbit _ _).
  - pose proof (pow2_ne0 (p mod 64)). replace (2 ^ (p mod 64) =? 0) with false by lia. reflexivity.
  - reflexivity.
Qed.

Lemma wbit_beyond ws p : 64 * N.of_nat (length ws) <= p -> wbit ws p = false.
Proof.
  intros H. unfold wbit, nthN. rewrite nth_overflow by lia. apply N.bits_0.
Qed.

Lemma wbit_cons_low w ws i : i < 64 -> wbit (w :: ws) i = N.testbit w i.
Proof.
  intros H. unfold wbit, nthN. rewrite N.div_small, N.mod_small by auto. reflexivity.
Qed.

Lemma wbit_cons_high w ws i : wbit (w :: ws) (i + 64) = wbit ws i.
Proof.
  unfold wbit, nthN. replace ((i + 64) / 64) with (i / 64 + 1) by lia.
  replace ((i + 64) mod 64) with (i mod 64) by lia.
  replace (N.to_nat (i / 64 + 1)) with (S (N.to_nat (i / 64))) by lia. reflexivity.
Qed.

(* number of set positions of the array = "population count of the array" *)
Definition count_bits (ws : list N) : N := count_below (wbit ws) (64 * length ws).

Definition words_ok (ws : list N) : Prop := Forall (fun w => w < 2 ^ 64) ws.

Lemma popcount_words_count ws : words_ok ws -> popcount_words ws = count_bits ws.
Proof.
  unfold count_bits, popcount_words. induction 1 as [|w ws Hw Hws IH]; [reflexivity|].
  cbn [map sumN length]. replace (64 * S (length ws))%nat with (64 + 64 * length ws)%nat by lia.
  rewrite count_split, IH. f_equal.
  - rewrite (popcount_count 64) by exact Hw. apply count_ext. intros i Hi.
    rewrite wbit_cons_low; auto.
  - apply count_ext. intros i _. change (N.of_nat 64) with 64. rewrite wbit_cons_high. reflexivity.
Qed.

(* ---------- well-formed filters ---------- *)
Record wf (f : bloom) : Prop := mkWf {
  wf_nh    : 1 <= bf_nh f <= 32767;
  wf_seed  : bf_seed f < 2 ^ 64;
  wf_len   : 0 < N.of_nat (length (bf_words f)) < 2 ^ 31;
  wf_words : words_ok (bf_words f);
  wf_used  : bf_used f = count_bits (bf_words f)
}.

(* same configuration (what is_compatible compares, plus nothing else changes it) *)
Definition same_cfg (f g : bloom) : Prop :=
  bf_nh g = bf_nh f /\ bf_seed g = bf_seed f /\ length (bf_words g) = length (bf_words f).

Lemma same_cfg_refl f : same_cfg f f.
Proof. repeat split. Qed.

Lemma same_cfg_trans f g h : same_cfg f g -> same_cfg g h -> same_cfg f h.
Proof. unfold same_cfg. intuition congruence. Qed.

Lemma same_cfg_capacity f g : same_cfg f g -> bf_capacity g = bf_capacity f.
Proof. unfold same_cfg, bf_capacity. intros (_ & _ & ->). reflexivity. Qed.

Lemma wf_capacity_pos f : wf f -> 0 < bf_capacity f.
Proof. intros [_ _ Hl _ _]. unfold bf_capacity. lia. Qed.

Lemma wf_used_le f : wf f -> bf_used f <= bf_capacity f.
Proof.
  intros [_ _ _ _ Hu]. rewrite Hu. unfold count_bits, bf_capacity.
  pose proof (count_le (wbit (bf_words f)) (64 * length (bf_words f))). lia.
Qed.

(* ---------- set_bit ---------- *)
Lemma set_bit_spec f p :
  set_bit f p =
  if wbit (bf_words f) p then f
  else mkBloom (bf_seed f) (bf_nh f) (bf_used f + 1)
         (set_nthN (p / 64) (N.lor (nthN (bf_words f) (p / 64) 0) (2 ^ (p mod 64))) (bf_words f)).
Proof.
  unfold set_bit, wbit. rewrite shiftr6, land63, N.shiftl_1_l, land_pow2.
  destruct (N.testbit _ _).
  - pose proof (pow2_ne0 (p mod 64)). replace (2 ^ (p mod 64) =? 0) with false by lia. reflexivity.
  - reflexivity.
Qed.

Lemma wbit_set ws p q : p < 64 * N.of_nat (length ws) ->
  wbit (set_nthN (p / 64) (N.lor (nthN ws (p / 64) 0) (2 ^ (p mod 64))) ws) q = (q =? p) || wbit ws q.
Proof.
  intros Hp. unfold wbit. destruct (N.eq_dec (q / 64) (p / 64)) as [E|E].
  - rewrite E. unfold nthN, set_nthN. rewrite nth_set_nth_eq by lia. rewrite lor_pow2_bits.
    f_equal. lia.
  - unfold nthN, set_nthN. rewrite nth_set_nth_neq by lia.
    replace (q =? p) with false; [reflexivity|]. symmetry. apply N.eqb_neq. intros ->. congruence.
Qed.

Lemma set_bit_wf f p : wf f -> p < bf_capacity f ->
  wf (set_bit f p) /\ same_cfg f (set_bit f p) /\
  forall q, wbit (bf_words (set_bit f p)) q = (q =? p) || wbit (bf_words f) q.
Proof.
  intros Hwf Hp. rewrite set_bit_spec. destruct (wbit (bf_words f) p) eqn:Eb.
  - split; [auto|]. split; [apply same_cfg_refl|]. intros q.
    destruct (N.eqb_spec q p) as [->|]; [rewrite Eb|]; reflexivity.
  - destruct Hwf as [Hnh Hseed Hlen Hws Hu]. unfold bf_capacity in Hp.
    assert (Hp' : p < 64 * N.of_nat (length (bf_words f))) by lia.
    split; [|split].
    + constructor; cbn [bf_nh bf_seed bf_used bf_words]; auto.
      * unfold set_nthN. rewrite set_nth_length. auto.
      * apply Forall_set_nth; auto. apply lor_lt.
        -- unfold nthN. apply (Forall_nth_d (fun w => w < 2 ^ 64)); auto. apply N.neq_0_lt_0, pow2_ne0.
        -- apply pow2_lt. lia.
      * rewrite Hu. unfold count_bits, set_nthN. rewrite set_nth_length. symmetry.
        apply count_set with (p := p); auto; [lia|]. intros q. apply wbit_set; auto.
    + unfold same_cfg; cbn [bf_nh bf_seed bf_words]. unfold set_nthN. rewrite set_nth_length. auto.
    + intros q. cbn [bf_words]. apply wbit_set; auto.
Qed.

Lemma fold_set_bit_wf : forall l f, wf f -> (forall p, In p l -> p < bf_capacity f) ->
  wf (fold_left set_bit l f) /\ same_cfg f (fold_left set_bit l f) /\
  forall q, wbit (bf_words (fold_left set_bit l f)) q = true <-> In q l \/ wbit (bf_words f) q = true.
Proof.
  induction l as [|p l IH]; intros f Hwf Hl; cbn [fold_left].
  - split; [auto|]. split; [apply same_cfg_refl|]. intros q. cbn [In]. tauto.
  - destruct (set_bit_wf f p Hwf (Hl p (or_introl eq_refl))) as (Hwf1 & Hc1 & Hb1).
    destruct (IH (set_bit f p) Hwf1) as (Hwf2 & Hc2 & Hb2).
    { intros q Hq. rewrite (same_cfg_capacity _ _ Hc1). apply Hl. right; auto. }
    split; [auto|]. split; [eapply same_cfg_trans; eauto|].
    intros q. rewrite Hb2, Hb1. cbn [In]. destruct (N.eqb_spec q p) as [->|Hne]; cbn [orb]; intuition congruence.
Qed.

(* ---------- Rep: the array denotes the set S of positions ---------- *)
Definition Rep (f : bloom) (S : N -> Prop) : Prop :=
  wf f /\ forall p, wbit (bf_words f) p = true <-> S p.

(* the positions an item occupies in filter f *)
Definition item_positions (f : bloom) (h0 h1 : N) : list N :=
  positions (bf_capacity f) (bf_nh f) h0 h1.

Lemma item_positions_cfg f g h0 h1 : same_cfg f g -> item_positions g h0 h1 = item_positions f h0 h1.
Proof.
  intros H. unfold item_positions. rewrite (same_cfg_capacity _ _ H). destruct H as (-> & _). reflexivity.
Qed.

Theorem insert_rep f S h0 h1 : Rep f S ->
  Rep (bf_insert f h0 h1) (fun p => S p \/ In p (item_positions f h0 h1)) /\ same_cfg f (bf_insert f h0 h1).
Proof.
  intros [Hwf HS]. unfold bf_insert, set_bits.
  destruct (fold_set_bit_wf (positions (bf_capacity f) (bf_nh f) h0 h1) f Hwf) as (Hwf' & Hc & Hb).
  { intros p Hp. eapply positions_range; eauto. apply wf_capacity_pos; auto. }
  split; [|auto]. split; [auto|]. intros p. rewrite Hb, HS. unfold item_positions. tauto.
Qed.

Lemma check_bits_spec f h0 h1 :
  check_bits f h0 h1 = true <-> forall p, In p (item_positions f h0 h1) -> wbit (bf_words f) p = true.
Proof.
  unfold check_bits, item_positions. rewrite forallb_forall.
  split; intros H p Hp; specialize (H p Hp); rewrite get_bit_spec in *; auto.
Qed.

(* contains answers exactly "all positions of the item are in the set" *)
Theorem contains_rep f S h0 h1 : Rep f S ->
  (bf_contains f h0 h1 = true <-> forall p, In p (item_positions f h0 h1) -> S p).
Proof.
  intros [Hwf HS]. unfold bf_contains, bf_is_empty. destruct (bf_used f =? 0) eqn:E.
  - split; [discriminate|]. intros H. exfalso.
    pose proof (wf_capacity_pos f Hwf) as Hcap. destruct Hwf as [Hnh _ _ _ Hu].
    pose proof (positions_nonempty (bf_capacity f) (bf_nh f) h0 h1 (proj1 Hnh)) as Hin.
    apply H, HS in Hin.
    assert (Hz : count_bits (bf_words f) = 0) by lia. unfold count_bits in Hz.
    rewrite (count_zero _ _ Hz) in Hin; [discriminate|].
    pose proof (bit_index_lt (bf_capacity f) h0 h1 1 Hcap). unfold bf_capacity in *. lia.
  - rewrite check_bits_spec. split; intros H p Hp; apply HS; auto.
Qed.

Theorem contains_and_insert_rep f S h0 h1 : Rep f S ->
  let '(b, f') := bf_contains_and_insert f h0 h1 in
  (b = true <-> forall p, In p (item_positions f h0 h1) -> S p) /\
  Rep f' (fun p => S p \/ In p (item_positions f h0 h1)) /\ same_cfg f f'.
Proof.
  intros HR. unfold bf_contains_and_insert. split.
  - destruct HR as [Hwf HS]. rewrite check_bits_spec. split; intros H p Hp; apply HS; auto.
  - apply (insert_rep f S h0 h1 HR).
Qed.

(* ---------- reset ---------- *)
Lemma wbit_zeros (ws : list N) p : wbit (map (fun _ : N => 0) ws) p = false.
Proof.
  unfold wbit, nthN. replace (nth _ _ 0) with 0; [apply N.bits_0|].
  generalize (N.to_nat (p / 64)). induction ws as [|w ws IH]; intros [|n]; cbn; auto.
Qed.

Theorem reset_rep f : wf f -> Rep (bf_reset f) (fun _ => False) /\ same_cfg f (bf_reset f).
Proof.
  intros [Hnh Hseed Hlen Hws Hu]. unfold bf_reset. split; [split|].
  - constructor; cbn [bf_nh bf_seed bf_used bf_words]; auto.
    + rewrite map_length. auto.
    + clear. induction (bf_words f); cbn; constructor; auto. apply N.neq_0_lt_0, pow2_ne0.
    + unfold count_bits. symmetry. apply count_all_false. intros. apply wbit_zeros.
  - intros p. cbn [bf_words]. rewrite wbit_zeros. split; [discriminate|tauto].
  - unfold same_cfg; cbn [bf_nh bf_seed bf_words]. rewrite map_length. auto.
Qed.

(* ---------- union / intersect ---------- *)
Lemma compatible_spec a b :
  bf_is_compatible a b = true <->
  length (bf_words a) = length (bf_words b) /\ bf_nh a = bf_nh b /\ bf_seed a = bf_seed b.
Proof.
  unfold bf_is_compatible. rewrite !andb_true_iff, Nat.eqb_eq, !N.eqb_eq. tauto.
Qed.

Lemma wbit_zip g gb a b p : g 0 0 = 0 -> length a = length b ->
  (forall x y n, N.testbit (g x y) n = gb (N.testbit x n) (N.testbit y n)) ->
  wbit (zip_with g a b) p = gb (wbit a p) (wbit b p).
Proof.
  intros Hg Hl Hs. unfold wbit, nthN. rewrite nth_zip_with by auto. apply Hs.
Qed.

Lemma zip_wf g gb a b : wf a -> wf b -> bf_is_compatible a b = true ->
  g 0 0 = 0 ->
  (forall x y n, N.testbit (g x y) n = gb (N.testbit x n) (N.testbit y n)) ->
  (forall x y, x < 2 ^ 64 -> y < 2 ^ 64 -> g x y < 2 ^ 64) ->
  let ws := zip_with g (bf_words a) (bf_words b) in
  let c := mkBloom (bf_seed a) (bf_nh a) (popcount_words ws) ws in
  wf c /\ same_cfg a c /\ forall p, wbit (bf_words c) p = gb (wbit (bf_words a) p) (wbit (bf_words b) p).
Proof.
  intros [Hnh Hseed Hlen Hws Hu] Hb Hc Hg Hs Hlt ws c. apply compatible_spec in Hc. destruct Hc as (Hl & _).
  assert (Hlen' : length ws = length (bf_words a)) by (apply zip_with_length; auto).
  assert (Hok : words_ok ws) by (apply Forall_zip_with; auto; apply Hb).
  split; [|split].
  - constructor; cbn [c bf_nh bf_seed bf_used bf_words]; auto.
    + rewrite Hlen'. auto.
    + apply popcount_words_count; auto.
  - unfold same_cfg; cbn [c bf_nh bf_seed bf_words]. auto.
  - intros p. cbn [c bf_words]. apply wbit_zip; auto.
Qed.

Theorem union_rep a b S T : Rep a S -> Rep b T -> bf_is_compatible a b = true ->
  exists c, bf_union a b = Ok c /\ Rep c (fun p => S p \/ T p) /\ same_cfg a c.
Proof.
  intros [Ha HS] [Hb HT] Hc. unfold bf_union. rewrite Hc. cbn [negb]. eexists. split; [reflexivity|].
  destruct (zip_wf N.lor orb a b Ha Hb Hc eq_refl N.lor_spec) as (Hwf & Hcfg & Hbits).
  { intros; apply lor_lt; auto. }
  split; [split|]; auto. intros p. rewrite Hbits, orb_true_iff, HS, HT. tauto.
Qed.

Theorem intersect_rep a b S T : Rep a S -> Rep b T -> bf_is_compatible a b = true ->
  exists c, bf_intersect a b = Ok c /\ Rep c (fun p => S p /\ T p) /\ same_cfg a c.
Proof.
  intros [Ha HS] [Hb HT] Hc. unfold bf_intersect. rewrite Hc. cbn [negb]. eexists. split; [reflexivity|].
  destruct (zip_wf N.land andb a b Ha Hb Hc eq_refl N.land_spec) as (Hwf & Hcfg & Hbits).
  { intros; apply land_lt; auto. }
  split; [split|]; auto. intros p. rewrite Hbits, andb_true_iff, HS, HT. tauto.
Qed.

(* ---------- invert ---------- *)
Lemma wbit_lnot ws p : p < 64 * N.of_nat (length ws) ->
  wbit (map (fun w => N.lnot w 64) ws) p = negb (wbit ws p).
Proof.
  intros Hp. unfold wbit, nthN.
  rewrite (nth_indep _ 0 (N.lnot 0 64)) by (rewrite map_length; lia).
  rewrite (map_nth (fun w => N.lnot w 64)). apply N.lnot_spec_low. lia.
Qed.

Theorem invert_rep f S : Rep f S ->
  exists g, bf_invert f = Ok g /\ Rep g (fun p => p < bf_capacity f /\ ~ S p) /\ same_cfg f g /\
            bf_used g = bf_capacity f - bf_used f.
Proof.
  intros [Hwf HS]. pose proof (wf_used_le f Hwf) as Hle. unfold bf_invert.
  replace (bf_capacity f <? bf_used f) with false by lia. eexists. split; [reflexivity|].
  destruct Hwf as [Hnh Hseed Hlen Hws Hu].
  split; [split|split]; [| | |reflexivity].
  - constructor; cbn [bf_nh bf_seed bf_used bf_words]; auto.
    + rewrite map_length. auto.
    + clear -Hws. induction Hws; cbn; constructor; auto. apply lnot_lt; auto.
    + unfold count_bits. rewrite map_length.
      rewrite (count_ext _ (fun p => negb (wbit (bf_words f) p))).
      * pose proof (count_neg (wbit (bf_words f)) (64 * length (bf_words f))) as Hn.
        unfold count_bits in Hu. unfold bf_capacity. lia.
      * intros i Hi. apply wbit_lnot. lia.
  - intros p. cbn [bf_words]. unfold bf_capacity.
    destruct (N.lt_ge_cases p (64 * N.of_nat (length (bf_words f)))) as [Hp|Hp].
    + rewrite wbit_lnot by auto. rewrite negb_true_iff, <- HS. split.
      * intros E. split; [lia|]. rewrite E. discriminate.
      * intros [_ H]. destruct (wbit (bf_words f) p); auto. exfalso; auto.
    + rewrite wbit_beyond by (rewrite map_length; auto). split; [discriminate|]. intros [H _]. lia.
  - unfold same_cfg; cbn [bf_nh bf_seed bf_words]. rewrite map_length. auto.
Qed.

(* ---------- construction ---------- *)
Definition size_ok (num_bits nh seed : N) : Prop :=
  zN Gen.GenBloom.MIN_NUM_BITS <= num_bits <= MAX_NUM_BITS /\
  zN Gen.GenBloom.MIN_NUM_HASHES <= nh <= zN Gen.GenBloom.MAX_NUM_HASHES /\ seed < 2 ^ 64.

Definition fresh (num_bits nh seed : N) : bloom :=
  mkBloom seed nh 0 (repeat 0 (N.to_nat (div_ceil num_bits 64))).

Lemma gen_ranges :
  1 <= zN Gen.GenBloom.MIN_NUM_BITS /\ MAX_NUM_BITS <= (2 ^ 31 - 1) * 64 /\
  1 <= zN Gen.GenBloom.MIN_NUM_HASHES /\ zN Gen.GenBloom.MAX_NUM_HASHES <= 32767.
Proof. vm_compute. repeat split; discriminate. Qed.

Lemma wbit_repeat0 n p : wbit (repeat 0 n) p = false.
Proof. unfold wbit, nthN. rewrite nth_repeat. apply N.bits_0. Qed.

Theorem with_size_rep num_bits nh seed : size_ok num_bits nh seed ->
  bf_with_size num_bits nh seed = Ok (fresh num_bits nh seed) /\
  Rep (fresh num_bits nh seed) (fun _ => False) /\
  bf_capacity (fresh num_bits nh seed) = 64 * div_ceil num_bits 64.
Proof.
  intros (Hb & Hh & Hs). pose proof gen_ranges as (G1 & G2 & G3 & G4).
  unfold bf_with_size.
  replace ((num_bits <? zN Gen.GenBloom.MIN_NUM_BITS) || (MAX_NUM_BITS <? num_bits)) with false by lia.
  replace ((nh <? zN Gen.GenBloom.MIN_NUM_HASHES) || (zN Gen.GenBloom.MAX_NUM_HASHES <? nh)) with false by lia.
  split; [reflexivity|].
  assert (Hd : 0 < div_ceil num_bits 64 < 2 ^ 31).
  { unfold div_ceil. change (2 ^ 31) with 2147483648. change (2 ^ 31 - 1) with 2147483647 in G2.
    destruct (num_bits mod 64 =? 0) eqn:E; lia. }
  unfold fresh. split; [split|].
  - constructor; cbn [bf_nh bf_seed bf_used bf_words]; auto; try lia.
    + rewrite repeat_length, N2Nat.id. auto.
    + apply Forall_repeat. apply N.neq_0_lt_0, pow2_ne0.
    + unfold count_bits. symmetry. apply count_all_false. intros. apply wbit_repeat0.
  - intros p. cbn [bf_words]. rewrite wbit_repeat0. split; [discriminate|tauto].
  - unfold bf_capacity; cbn [bf_words]. rewrite repeat_length, N2Nat.id. lia.
Qed.

(* ---------- codec ---------- *)
(* what the round trip needs: the reader recounts the array and rejects a stored count that is
   not the population count, so (unlike wf) this is stated with the word-wise popcount the
   code computes *)
Record codec_ok (f : bloom) : Prop := mkCodecOk {
  co_nh    : 1 <= bf_nh f <= 32767;
  co_seed  : bf_seed f < 2 ^ 64;
  co_len   : 0 < N.of_nat (length (bf_words f)) < 2 ^ 31;
  co_words : words_ok (bf_words f);
  co_used  : bf_used f = popcount_words (bf_words f)
}.

Lemma count_zero_words ws : words_ok ws -> count_bits ws = 0 -> Forall (fun w => w = 0) ws.
Proof.
  intros Hok. rewrite <- popcount_words_count by auto. unfold popcount_words.
  induction Hok as [|w ws Hw Hws IH]; intros H; [constructor|]. cbn [map sumN] in H.
  constructor; [|apply IH; lia].
  assert (Hp : popcount w = 0) by lia. rewrite (popcount_count 64) in Hp by exact Hw.
  apply (zero_of_bits w 64); auto. intros m Hm. apply (count_zero _ _ Hp). exact Hm.
Qed.

Lemma wf_codec_ok f : wf f -> codec_ok f.
Proof.
  intros [Hnh Hseed Hlen Hws Hu]. constructor; auto. rewrite Hu. symmetry. apply popcount_words_count; auto.
Qed.

Lemma codec_ok_wf f : codec_ok f -> wf f.
Proof.
  intros [Hnh Hseed Hlen Hws Hu]. constructor; auto. rewrite Hu. apply popcount_words_count; auto.
Qed.

Lemma read_words_flat ws tail : words_ok ws ->
  read_words (length ws) (flat_map (le_bytes 8) ws ++ tail) = Ok ws.
Proof.
  induction 1 as [|w ws Hw Hws IH]; [reflexivity|].
  cbn [length flat_map read_words]. rewrite <- app_assoc.
  change (read_u64 (le_bytes 8 w ++ flat_map (le_bytes 8) ws ++ tail))
    with (Some (le_val (le_bytes 8 w), flat_map (le_bytes 8) ws ++ tail)).
  cbv beta iota. rewrite IH. cbn [obind]. rewrite le_val_le_bytes. change (256 ^ N.of_nat 8) with (2 ^ 64).
  rewrite N.mod_small by exact Hw. reflexivity.
Qed.

Lemma flat_le8_length ws : length (flat_map (le_bytes 8) ws) = (8 * length ws)%nat.
Proof. induction ws as [|w ws IH]; [reflexivity|]. cbn [flat_map]. rewrite app_length, le_bytes_length, IH. cbn [length]. lia. Qed.

Lemma gen_codec_facts :
  zN Gen.GenCodec.FAMILY_BLOOMFILTER_MIN_PRE_LONGS <= zN Gen.GenCodec.FAMILY_BLOOMFILTER_MAX_PRE_LONGS /\
  zN Gen.GenBloom.EMPTY_FLAG_MASK <> 0 /\ zN Gen.GenBloom.DIRTY_BITS_VALUE = 2 ^ 64 - 1.
Proof. vm_compute. repeat split; discriminate. Qed.

Lemma zeros_repeat ws : Forall (fun w => w = 0) ws -> ws = repeat 0 (length ws).
Proof. induction 1 as [|w ws -> _ IH]; cbn; [reflexivity|]. f_equal. exact IH. Qed.

Theorem roundtrip f : codec_ok f -> bf_deserialize (bf_serialize f) = Ok f.
Proof.
  intros Hco. pose proof (wf_used_le f (codec_ok_wf f Hco)) as Hu.
  assert (He : bf_used f = 0 -> Forall (fun w => w = 0) (bf_words f)).
  { intros H0. destruct (codec_ok_wf f Hco) as [_ _ _ Hws Hc]. apply count_zero_words; auto. lia. }
  destruct Hco as [Hnh Hseed Hlen Hws Hpc]. pose proof gen_codec_facts as (G1 & G2 & G3).
  destruct f as [seed nh used ws]. cbn [bf_nh bf_seed bf_used bf_words] in *.
  unfold bf_capacity in Hu. cbn [bf_words] in Hu.
  unfold bf_serialize, bf_is_empty. cbn [bf_nh bf_seed bf_used bf_words].
  set (len := N.of_nat (length ws)) in *.
  set (e := used =? 0).
  set (tail := if e then [] else le_bytes 8 used ++ flat_map (le_bytes 8) ws).
  set (pre := zN (if e then Gen.GenCodec.FAMILY_BLOOMFILTER_MIN_PRE_LONGS else Gen.GenCodec.FAMILY_BLOOMFILTER_MAX_PRE_LONGS)).
  set (flags := if e then zN Gen.GenBloom.EMPTY_FLAG_MASK else 0).
  unfold bf_deserialize, bf_parse_header.
  set (bs := [pre; zN Gen.GenBloom.SERIAL_VERSION; zN Gen.GenCodec.FAMILY_BLOOMFILTER_ID; flags] ++
             le_bytes 2 nh ++ le_bytes 2 0 ++ le_bytes 8 seed ++ le_bytes 4 len ++ le_bytes 4 0 ++ tail).
  assert (Hlenbs : length bs = (24 + length tail)%nat).
  { unfold bs. rewrite !app_length, !le_bytes_length. cbn [length]. lia. }
  replace (length bs <? 4)%nat with false by lia.
  replace (length bs <? 6)%nat with false by lia.
  replace (length bs <? 24)%nat with false by lia.
  change (nth 0 bs 0) with pre. change (nth 1 bs 0) with (zN Gen.GenBloom.SERIAL_VERSION).
  change (nth 2 bs 0) with (zN Gen.GenCodec.FAMILY_BLOOMFILTER_ID). change (nth 3 bs 0) with flags.
  rewrite !N.eqb_refl. cbn [negb].
  replace ((pre <? zN Gen.GenCodec.FAMILY_BLOOMFILTER_MIN_PRE_LONGS) || (zN Gen.GenCodec.FAMILY_BLOOMFILTER_MAX_PRE_LONGS <? pre))
    with false by (unfold pre; destruct e; lia).
  change (le_val (firstn 2 (skipn 4 bs))) with (le_val (le_bytes 2 nh)).
  change (le_val (firstn 8 (skipn 8 bs))) with (le_val (le_bytes 8 seed)).
  change (le_val (firstn 4 (skipn 16 bs))) with (le_val (le_bytes 4 len)).
  change (skipn 24 bs) with tail.
  rewrite !le_val_le_bytes.
  change (256 ^ N.of_nat 2) with 65536. change (256 ^ N.of_nat 8) with (2 ^ 64). change (256 ^ N.of_nat 4) with 4294967296.
  change (2 ^ 31) with 2147483648 in Hlen.
  rewrite (N.mod_small nh) by lia. rewrite (N.mod_small seed) by lia. rewrite (N.mod_small len) by lia.
  replace ((nh =? 0) || (32767 <? nh)) with false by lia.
  replace ((len =? 0) || (2147483648 <=? len)) with false by lia.
  cbn [obind]. cbv beta iota. unfold flags, tail. destruct e eqn:Ee; subst e.
  - rewrite N.land_diag. replace (zN Gen.GenBloom.EMPTY_FLAG_MASK =? 0) with false by lia. cbn [negb].
    assert (H0 : used = 0) by lia. specialize (He H0). rewrite H0. unfold len. rewrite Nat2N.id.
    rewrite <- zeros_repeat by auto. reflexivity.
  - rewrite N.land_0_l. cbn [negb N.eqb].
    change (read_u64 (le_bytes 8 used ++ flat_map (le_bytes 8) ws))
      with (Some (le_val (le_bytes 8 used), flat_map (le_bytes 8) ws)).
    rewrite le_val_le_bytes. change (256 ^ N.of_nat 8) with (2 ^ 64).
    assert (Hused : used < 2 ^ 64 - 1).
    { change (2 ^ 64) with 18446744073709551616. fold len in Hu. lia. }
    rewrite (N.mod_small used) by lia.
    rewrite flat_le8_length. replace (N.of_nat (8 * length ws) <? 8 * len) with false by (unfold len; lia).
    unfold len. rewrite Nat2N.id.
    rewrite <- (app_nil_r (flat_map (le_bytes 8) ws)), read_words_flat by auto. cbn [obind].
    cbv zeta. rewrite <- Hpc. replace (used =? used) with true by (symmetry; apply N.eqb_refl).
    cbn [negb]. rewrite andb_false_r. reflexivity.
Qed.


(* ---------- num_bits_set is the population count ---------- *)
(* the positions of the array, 0 .. capacity-1 *)
Definition all_positions (f : bloom) : list N := map N.of_nat (seq 0 (N.to_nat (bf_capacity f))).

Theorem wf_bits_used f : wf f ->
  bf_used f = N.of_nat (length (filter (get_bit (bf_words f)) (all_positions f))) /\
  bf_used f = popcount_words (bf_words f).
Proof.
  intros Hwf. destruct Hwf as [_ _ _ Hws Hu]. split.
  - rewrite Hu. unfold count_bits, all_positions, bf_capacity. rewrite count_below_card.
    replace (N.to_nat (N.of_nat (length (bf_words f)) * 64)) with (64 * length (bf_words f))%nat by lia.
    f_equal. f_equal. apply filter_ext. intros p. symmetry. apply get_bit_spec.
  - rewrite Hu. symmetry. apply popcount_words_count; auto.
Qed.

Lemma Rep_ext f S T : Rep f S -> (forall p, S p <-> T p) -> Rep f T.
Proof. intros [Hwf HS] H. split; auto. intros p. rewrite HS. apply H. Qed.

(* ---------- every history ---------- *)
(* A history is any expression built from a fresh filter by the public operations; the two
   operands of union / intersect are histories themselves, and every sub-expression is a
   history, so a statement about all histories is a statement about the state after every
   operation of every interleaving. *)
Inductive hist : Type :=
| HNew
| HInsert (h : hist) (h0 h1 : N)              (* insert(item) *)
| HContainsAndInsert (h : hist) (h0 h1 : N)   (* contains_and_insert(item) *)
| HUnion (a b : hist)
| HIntersect (a b : hist)
| HInvert (h : hist)
| HReset (h : hist)
| HRoundtrip (h : hist).                      (* deserialize(serialize()) *)

Section Histories.
Variables num_bits nh seed : N.

Fixpoint eval (h : hist) : outcome bloom :=
  match h with
  | HNew => bf_with_size num_bits nh seed
  | HInsert h h0 h1 => obind (eval h) (fun f => Ok (bf_insert f h0 h1))
  | HContainsAndInsert h h0 h1 => obind (eval h) (fun f => Ok (snd (bf_contains_and_insert f h0 h1)))
  | HUnion a b => obind (eval a) (fun f => obind (eval b) (fun g => bf_union f g))
  | HIntersect a b => obind (eval a) (fun f => obind (eval b) (fun g => bf_intersect f g))
  | HInvert h => obind (eval h) bf_invert
  | HReset h => obind (eval h) (fun f => Ok (bf_reset f))
  | HRoundtrip h => obind (eval h) (fun f => bf_deserialize (bf_serialize f))
  end.

(* capacity: the request rounded up to whole 64-bit words *)
Definition cap : N := 64 * div_ceil num_bits 64.

(* the positions of an item: ((h0 + i*h1) mod 2^64 >> 1) mod capacity, i = 1..num_hashes *)
Definition pos_of (h0 h1 : N) : list N := positions cap nh h0 h1.

(* Spec: the set of positions a history denotes *)
Fixpoint denote (h : hist) : N -> Prop :=
  match h with
  | HNew => fun _ => False
  | HInsert h h0 h1 => fun p => denote h p \/ In p (pos_of h0 h1)
  | HContainsAndInsert h h0 h1 => fun p => denote h p \/ In p (pos_of h0 h1)
  | HUnion a b => fun p => denote a p \/ denote b p
  | HIntersect a b => fun p => denote a p /\ denote b p
  | HInvert h => fun p => p < cap /\ ~ denote h p
  | HReset h => fun _ => False
  | HRoundtrip h => denote h
  end.

(* items whose membership the history guarantees *)
Fixpoint member (h : hist) (x : N * N) : Prop :=
  match h with
  | HNew => False
  | HInsert h h0 h1 => x = (h0, h1) \/ member h x
  | HContainsAndInsert h h0 h1 => x = (h0, h1) \/ member h x
  | HUnion a b => member a x \/ member b x
  | HIntersect a b => member a x /\ member b x
  | HInvert h => False
  | HReset h => False
  | HRoundtrip h => member h x
  end.

Hypothesis Hsize : size_ok num_bits nh seed.

Let f0 := fresh num_bits nh seed.

Lemma cfg_positions f h0 h1 : same_cfg f0 f -> item_positions f h0 h1 = pos_of h0 h1.
Proof.
  intros H. rewrite (item_positions_cfg _ _ h0 h1 H). unfold item_positions, pos_of, cap, f0.
  destruct (with_size_rep _ _ _ Hsize) as (_ & _ & ->). reflexivity.
Qed.

Lemma cfg_capacity f : same_cfg f0 f -> bf_capacity f = cap.
Proof.
  intros H. rewrite (same_cfg_capacity _ _ H). unfold f0. destruct (with_size_rep _ _ _ Hsize) as (_ & _ & ->). reflexivity.
Qed.

Lemma cfg_compatible f g : same_cfg f0 f -> same_cfg f0 g -> bf_is_compatible f g = true.
Proof. unfold same_cfg. intros (A & B & C) (A' & B' & C'). apply compatible_spec. intuition congruence. Qed.

(* the refinement: every history runs without panic or error, and the resulting filter is
   well formed, has the configured shape and denotes exactly the history's position set *)
Theorem hist_rep : forall h, exists f, eval h = Ok f /\ Rep f (denote h) /\ same_cfg f0 f.
Proof.
  induction h as [|h IH h0 h1|h IH h0 h1|a IHa b IHb|a IHa b IHb|h IH|h IH|h IH]; cbn [eval denote].
  - destruct (with_size_rep _ _ _ Hsize) as (E & HR & _). exists f0. split; [exact E|]. split; [exact HR|apply same_cfg_refl].
  - destruct IH as (f & -> & HR & Hc). cbn [obind]. eexists. split; [reflexivity|].
    destruct (insert_rep f _ h0 h1 HR) as (HR' & Hc'). split; [|exact (same_cfg_trans _ _ _ Hc Hc')].
    eapply Rep_ext; [exact HR'|]. intros p. cbv beta. rewrite (cfg_positions f h0 h1 Hc). tauto.
  - destruct IH as (f & -> & HR & Hc). cbn [obind]. eexists. split; [reflexivity|].
    pose proof (contains_and_insert_rep f _ h0 h1 HR) as H.
    destruct (bf_contains_and_insert f h0 h1) as [b f']. destruct H as (_ & HR' & Hc'). cbn [snd].
    split; [|exact (same_cfg_trans _ _ _ Hc Hc')].
    eapply Rep_ext; [exact HR'|]. intros p. cbv beta. rewrite (cfg_positions f h0 h1 Hc). tauto.
  - destruct IHa as (f & -> & HRa & Hca). destruct IHb as (g & -> & HRb & Hcb). cbn [obind].
    destruct (union_rep f g _ _ HRa HRb (cfg_compatible f g Hca Hcb)) as (c & E & HR & Hc).
    exists c. split; [exact E|]. split; [exact HR|exact (same_cfg_trans _ _ _ Hca Hc)].
  - destruct IHa as (f & -> & HRa & Hca). destruct IHb as (g & -> & HRb & Hcb). cbn [obind].
    destruct (intersect_rep f g _ _ HRa HRb (cfg_compatible f g Hca Hcb)) as (c & E & HR & Hc).
    exists c. split; [exact E|]. split; [exact HR|exact (same_cfg_trans _ _ _ Hca Hc)].
  - destruct IH as (f & -> & HR & Hc). cbn [obind].
    destruct (invert_rep f _ HR) as (g & E & HR' & Hc' & _). exists g. split; [exact E|].
    split; [|exact (same_cfg_trans _ _ _ Hc Hc')].
    eapply Rep_ext; [exact HR'|]. intros p. cbv beta. rewrite (cfg_capacity f Hc). tauto.
  - destruct IH as (f & -> & HR & Hc). cbn [obind]. eexists. split; [reflexivity|].
    destruct (reset_rep f (proj1 HR)) as (HR' & Hc'). split; [exact HR'|exact (same_cfg_trans _ _ _ Hc Hc')].
  - destruct IH as (f & -> & HR & Hc). cbn [obind]. exists f. split; [|split; auto].
    apply roundtrip. apply wf_codec_ok. apply HR.
Qed.

(* (a)+(b): contains answers exactly "every position of the item is in the history's set" *)
Theorem hist_contains h f h0 h1 : eval h = Ok f ->
  (bf_contains f h0 h1 = true <-> forall p, In p (pos_of h0 h1) -> denote h p).
Proof.
  intros E. destruct (hist_rep h) as (f' & E' & HR & Hc). rewrite E in E'. inversion E'; subst f'.
  rewrite (contains_rep f _ h0 h1 HR). rewrite (cfg_positions f h0 h1 Hc). tauto.
Qed.

Lemma member_denote h h0 h1 : member h (h0, h1) -> forall p, In p (pos_of h0 h1) -> denote h p.
Proof.
  induction h as [|h IH a b|h IH a b|a IHa b IHb|a IHa b IHb|h IH|h IH|h IH]; cbn [member denote]; intros H p Hp;
    try tauto.
  - destruct H as [H|H]; [inversion H; subst; right; exact Hp|left; auto].
  - destruct H as [H|H]; [inversion H; subst; right; exact Hp|left; auto].
  - destruct H as [H|H]; [left|right]; auto.
  - destruct H as [Ha Hb]. split; auto.
  - auto.
Qed.

(* (b) no false negatives *)
Theorem hist_no_false_negative h f h0 h1 : eval h = Ok f -> member h (h0, h1) -> bf_contains f h0 h1 = true.
Proof. intros E Hm. apply (hist_contains h f h0 h1 E). apply member_denote; auto. Qed.

(* the bits of the array are the set, read through the model's own get_bit *)
Theorem hist_bits_exact h f : eval h = Ok f -> forall p, get_bit (bf_words f) p = true <-> denote h p.
Proof.
  intros E p. destruct (hist_rep h) as (f' & E' & HR & Hc). rewrite E in E'. inversion E'; subst f'.
  rewrite get_bit_spec. apply HR.
Qed.

(* (c) bits_used = population count, (e) well-formedness and round trip of every reachable filter *)
Theorem hist_wf h f : eval h = Ok f ->
  wf f /\ bf_nh f = nh /\ bf_seed f = seed /\ bf_capacity f = cap /\
  bf_used f = N.of_nat (length (filter (get_bit (bf_words f)) (all_positions f))) /\
  bf_used f = popcount_words (bf_words f) /\
  bf_deserialize (bf_serialize f) = Ok f.
Proof.
  intros E. destruct (hist_rep h) as (f' & E' & HR & Hc). rewrite E in E'. inversion E'; subst f'.
  destruct HR as [Hwf _]. destruct (wf_bits_used f Hwf) as (H1 & H2).
  split; [auto|]. pose proof Hc as (A & B & _). cbn [f0 fresh bf_nh bf_seed] in A, B.
  split; [auto|]. split; [auto|]. split; [apply cfg_capacity; exact Hc|].
  split; [auto|]. split; [auto|]. apply roundtrip, wf_codec_ok, Hwf.
Qed.

(* invert: bits_used becomes capacity - bits_used *)
Theorem hist_invert_used h f g : eval h = Ok f -> eval (HInvert h) = Ok g -> bf_used g = cap - bf_used f.
Proof.
  intros E Eg. cbn [eval] in Eg. rewrite E in Eg. cbn [obind] in Eg.
  destruct (hist_rep h) as (f' & E' & HR & Hc). rewrite E in E'. inversion E'; subst f'.
  destruct (invert_rep f _ HR) as (g' & E2 & _ & _ & Hu). rewrite Eg in E2. inversion E2; subst g'.
  rewrite Hu, (cfg_capacity f Hc). reflexivity.
Qed.

(* (a) for plain streams: after any sequence of insert / contains_and_insert calls the set
   bits are exactly the positions of the items of the stream *)
Definition stream_step (f : bloom) (x : bool * (N * N)) : bloom :=
  let '(cai, (h0, h1)) := x in
  if cai then snd (bf_contains_and_insert f h0 h1) else bf_insert f h0 h1.

Fixpoint hist_of_stream (h : hist) (items : list (bool * (N * N))) : hist :=
  match items with
  | [] => h
  | (cai, (h0, h1)) :: r => hist_of_stream (if cai then HContainsAndInsert h h0 h1 else HInsert h h0 h1) r
  end.

Lemma eval_stream : forall items h f, eval h = Ok f ->
  eval (hist_of_stream h items) = Ok (fold_left stream_step items f).
Proof.
  induction items as [|[cai [h0 h1]] r IH]; intros h f E; cbn [hist_of_stream fold_left]; [exact E|].
  apply IH. destruct cai; cbn [eval stream_step]; rewrite E; reflexivity.
Qed.

Lemma denote_stream : forall items h p,
  denote (hist_of_stream h items) p <->
  denote h p \/ exists cai h0 h1, In (cai, (h0, h1)) items /\ In p (pos_of h0 h1).
Proof.
  induction items as [|[cai [h0 h1]] r IH]; intros h p; cbn [hist_of_stream].
  - split; [tauto|]. intros [H|(c & a & b & [] & _)]; auto.
  - rewrite IH. split.
    + intros [H|(c & a & b & Hin & Hp)].
      * assert (H' : denote h p \/ In p (pos_of h0 h1)) by (destruct cai; exact H).
        destruct H' as [H'|H']; [left; auto|right; exists cai, h0, h1; split; [left; reflexivity|exact H']].
      * right. exists c, a, b. split; [right; auto|auto].
    + intros [H|(c & a & b & [Hin|Hin] & Hp)].
      * left. destruct cai; cbn [denote]; auto.
      * inversion Hin; subst. left. destruct c; cbn [denote]; auto.
      * right. exists c, a, b. auto.
Qed.

Theorem stream_bits_exact (items : list (bool * (N * N))) :
  let f := fold_left stream_step items f0 in
  forall p, get_bit (bf_words f) p = true <->
            exists cai h0 h1, In (cai, (h0, h1)) items /\ In p (pos_of h0 h1).
Proof.
  intros f p. destruct (with_size_rep _ _ _ Hsize) as (E0 & _ & _).
  pose proof (eval_stream items HNew f0 E0) as E. fold f in E.
  rewrite (hist_bits_exact _ f E p), denote_stream. cbn [denote]. tauto.
Qed.

End Histories.

(* the statements of Props/C09.v that combine several of the above *)
Theorem hist_refines_set num_bits nh seed : size_ok num_bits nh seed ->
  forall h : hist, exists f,
    eval num_bits nh seed h = Ok f /\
    (forall p, get_bit (bf_words f) p = true <-> denote num_bits nh h p) /\
    wf f /\ bf_nh f = nh /\ bf_seed f = seed /\ bf_capacity f = cap num_bits.
Proof.
  intros Hs h. destruct (hist_rep num_bits nh seed Hs h) as (f & E & _ & _).
  exists f. split; [exact E|]. split; [exact (hist_bits_exact num_bits nh seed Hs h f E)|].
  destruct (hist_wf num_bits nh seed Hs h f E) as (A & B & C & D & _). auto.
Qed.

Theorem hist_bits_used num_bits nh seed : size_ok num_bits nh seed ->
  forall h f, eval num_bits nh seed h = Ok f ->
  bf_used f = N.of_nat (length (filter (get_bit (bf_words f)) (all_positions f))) /\
  bf_used f = popcount_words (bf_words f) /\
  bf_deserialize (bf_serialize f) = Ok f.
Proof.
  intros Hs h f E. destruct (hist_wf num_bits nh seed Hs h f E) as (_ & _ & _ & _ & A & B & C). auto.
Qed.
