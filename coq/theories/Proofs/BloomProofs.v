(* Proofs about Model/Bloom.v. *)
From DS Require Import Base.Prelude Model.Bloom.
From Coq Require Import ZifyBool ZifyNat ZifyN.
Ltac Zify.zify_post_hook ::= Z.div_mod_to_equations.
Open Scope N_scope.

Lemma bit_index_lt cap h0 h1 i : 0 < cap -> bit_index cap h0 h1 i < cap.
Proof. intros H. unfold bit_index. apply N.mod_lt. lia. Qed.

Theorem positions_range cap nh h0 h1 p : 0 < cap -> In p (positions cap nh h0 h1) -> p < cap.
Proof.
  intros Hc Hin. unfold positions in Hin. apply in_map_iff in Hin. destruct Hin as [i [<- _]].
  apply bit_index_lt; auto.
Qed.
