(* The model of the theta update sketch refines the pure set machine Spec/ThetaKmv.v, for every
   order in which rebuild re-inserts the surviving entries: after any history, the table size
   exponent, theta, the SET of retained hashes and the emptiness flag are those the Spec computes.
   In particular theta is exactly the value the rebuild rule defines, and nothing observable depends
   on the unspecified order of `select_nth_unstable` (two admissible orders give the same abstract state). *)
From Coq Require Import List PArith NArith Nnat ZArith Bool Lia Permutation Sorted.
From Coq Require Import ZifyBool ZifyNat ZifyN.
From DS Require Import Base.Prelude Base.ThetaLib Model.Theta Spec.ThetaKmv.
From DS Require Import Proofs.ThetaLibProofs Proofs.ThetaOpenAddr Proofs.ThetaProofs Proofs.ThetaKmv.
Open Scope N_scope.

Ltac Zify.zify_post_hook ::= Z.div_mod_to_equations.

(* ---------- sorted lists are canonical ---------- *)
Lemma sorted_perm_eq : forall l1 l2, StronglySorted N.le l1 -> StronglySorted N.le l2 -> Permutation l1 l2 -> l1 = l2.
Proof.
  induction l1 as [|a l1 IH]; intros l2 H1 H2 HP.
  - apply Permutation_nil in HP. now subst.
  - destruct l2 as [|b l2]; [apply Permutation_sym, Permutation_nil in HP; discriminate|].
    inversion H1 as [|? ? S1 A1]; subst. inversion H2 as [|? ? S2 A2]; subst.
    rewrite Forall_forall in A1, A2.
    assert (Hab : a = b).
    { assert (Hb : In b (a :: l1)) by (eapply Permutation_in; [apply Permutation_sym; exact HP|now left]).
      assert (Ha : In a (b :: l2)) by (eapply Permutation_in; [exact HP|now left]).
      destruct Hb as [->|Hb]; [reflexivity|]. destruct Ha as [->|Ha]; [reflexivity|].
      specialize (A1 b Hb). specialize (A2 a Ha). lia. }
    subst b. f_equal. apply IH; [assumption|assumption|]. eapply Permutation_cons_inv; exact HP.
Qed.

Lemma sortN_perm_eq : forall l1 l2, Permutation l1 l2 -> sortN l1 = sortN l2.
Proof.
  intros l1 l2 HP. apply sorted_perm_eq; [apply sortN_sorted|apply sortN_sorted|].
  eapply Permutation_trans; [apply Permutation_sym, sortN_perm|]. eapply Permutation_trans; [exact HP|apply sortN_perm].
Qed.

Lemma sortN_id : forall l, StronglySorted N.le l -> sortN l = l.
Proof. intros l H. apply sorted_perm_eq; [apply sortN_sorted|exact H|apply Permutation_sym, sortN_perm]. Qed.

Lemma firstn_sorted : forall n l, StronglySorted N.le l -> StronglySorted N.le (firstn n l).
Proof.
  induction n as [|n IH]; intros l H; [constructor|]. destruct l as [|a l]; [constructor|].
  inversion H as [|? ? S A]; subst. cbn [firstn]. constructor; [now apply IH|].
  rewrite Forall_forall in *. intros x Hx. apply A. revert Hx. clear. revert l. induction n as [|n IH]; intros l Hx; [destruct Hx|].
  destruct l as [|b l]; [destruct Hx|]. cbn [firstn] in Hx. destruct Hx as [->|Hx]; [now left|right; now apply IH].
Qed.

Lemma existsb_mem : forall h l, existsb (N.eqb h) l = true <-> In h l.
Proof.
  intros h l. rewrite existsb_exists. split.
  - intros [x [Hx E]]. apply N.eqb_eq in E. now subst.
  - intros H. exists h. split; [exact H|apply N.eqb_refl].
Qed.

Lemma obind_inv : forall (A B : Type) (x : outcome A) (f : A -> outcome B) b,
  obind x f = Ok b -> exists a, x = Ok a /\ f a = Ok b.
Proof. intros A B [a| |] f b H; cbn [obind] in H; try discriminate. exists a. auto. Qed.

(* ---------- abstraction ---------- *)
Definition k_abs (s : tsk) : kst := mkK (t_lg_cur s) (t_theta s) (sortN (sk_entries s)) (t_empty s).

Definition spec_step (c : tcfg) (k : kst) (o : top) : kst :=
  match o with
  | OUpdate h => spec_update c k h
  | OTrim => spec_trim c k
  | OReset => spec_init c
  | OCompact _ => k
  end.

Lemma k_abs_new : forall c, k_abs (sk_new c) = spec_init c.
Proof.
  intros c. unfold k_abs, sk_new, spec_init, sk_entries. cbn [t_lg_cur t_theta t_slots t_empty].
  rewrite sl_values_empty. reflexivity.
Qed.

Lemma spec_cap_capacity : forall c lg, cfg_ok c -> lg_wf c lg -> get_capacity lg (c_lg_nom c) = spec_cap c lg.
Proof. intros. unfold spec_cap. now apply get_capacity_exact. Qed.

Section Refine.
Variable reorder : reorder_t.
Hypothesis reorder_perm : reorder_ok reorder.

Lemma rebuild_abs : forall c s off s', cfg_ok c -> InvW c s off ->
  t_lg_cur s = c_lg_nom c + 1 -> 2 ^ c_lg_nom c < t_n s -> rebuild reorder s = Ok s' ->
  k_abs s' = spec_rebuild c (t_lg_cur s) (sortN (sk_entries s)) (t_empty s).
Proof.
  intros c s off s' Hc HW Hlg Hn Hrun.
  destruct (rebuild_inv reorder reorder_perm c s off Hc HW Hlg Hn) as [s2 [Hrun2 [_ [_ [Hth [_ [HP He]]]]]]].
  rewrite Hrun in Hrun2. inversion Hrun2. subst s2. clear Hrun2.
  assert (Hlg' : t_lg_cur s' = t_lg_cur s).
  { unfold rebuild in Hrun. destruct (_ <=? _); [discriminate|].
    destruct (insert_all _ _ _) as [sl| |]; cbn [obind] in Hrun; try discriminate.
    destruct (negb _); [discriminate|]. inversion Hrun. reflexivity. }
  unfold k_abs, spec_rebuild. rewrite Hlg', Hth, He. f_equal.
  rewrite <- (sortN_perm_eq _ _ HP). apply sortN_id. apply firstn_sorted. apply sortN_sorted.
Qed.

Lemma update_refines : forall c s off h s', cfg_ok c -> Inv c s off ->
  sk_update reorder s h = Ok s' -> k_abs s' = spec_update c (k_abs s) h.
Proof.
  intros c s off h s' Hc [[HW0 Hcap0] _] Hrun.
  set (s0 := mark_offered s).
  assert (HW : InvW c s0 off) by (apply InvW_mark; exact HW0).
  assert (Hcap : t_n s0 <= get_capacity (t_lg_cur s0) (c_lg_nom c)) by exact Hcap0.
  assert (Habs : spec_update c (k_abs s) h = spec_update c (k_abs s0) h) by reflexivity.
  rewrite Habs. unfold sk_update in Hrun. cbv zeta in Hrun. fold s0 in Hrun.
  assert (He0 : t_empty s0 = false) by reflexivity.
  clearbody s0. clear Habs HW0 Hcap0 s. rename s0 into s.
  pose proof HW as [Hcfg HOA Hn Hset Hth Hlg Hest Hpos0].
  unfold spec_update, k_abs. cbn [k_lg k_theta k_set k_empty].
  assert (Hsame : forall b, (h =? 0) || (t_theta s <=? h) || existsb (N.eqb h) (sortN (sk_entries s)) = true ->
                 b = mkK (t_lg_cur s) (t_theta s) (sortN (sk_entries s)) false -> b =
                 (if (h =? 0) || (t_theta s <=? h) || existsb (N.eqb h) (sortN (sk_entries s))
                  then mkK (t_lg_cur s) (t_theta s) (sortN (sk_entries s)) false
                  else (let set' := sortN (h :: sortN (sk_entries s)) in
                        if spec_cap c (t_lg_cur s) <? N.of_nat (length set')
                        then if t_lg_cur s <=? c_lg_nom c
                             then mkK (N.min (t_lg_cur s + c_rf c) (c_lg_nom c + 1)) (t_theta s) set' false
                             else spec_rebuild c (t_lg_cur s) set' false
                        else mkK (t_lg_cur s) (t_theta s) set' false))).
  { intros b -> ->. reflexivity. }
  unfold screen in Hrun.
  destruct (N.leb_spec (t_theta s) h) as [Hge|Hlt].
  { rewrite N.eqb_refl in Hrun. inversion Hrun. subst s'. apply Hsame; [|now rewrite He0].
    destruct (N.leb_spec (t_theta s) h); [|lia]. now rewrite orb_true_r. }
  destruct (N.eqb_spec h 0) as [Hz|Hnz].
  { inversion Hrun. subst s'. apply Hsame; [|now rewrite He0]. subst h. reflexivity. }
  unfold try_insert in Hrun. destruct (N.eqb_spec h 0) as [|_]; [contradiction|].
  destruct (find_cases (t_lg_cur s) (t_slots s) h HOA Hnz) as [idx [Hidx [Hfind Hcase]]].
  { fold (sk_entries s). rewrite <- Hn. pose proof (cap_lt_size c _ Hc Hlg). lia. }
  rewrite Hfind in Hrun.
  destruct Hcase as [Epresent|[E0 [Hnotin [HOA' Hperm]]]].
  { rewrite Epresent, N.eqb_refl in Hrun. cbn [obind fst] in Hrun. inversion Hrun. subst s'.
    apply Hsame; [|now rewrite He0]. apply orb_true_iff. right. apply existsb_mem. apply sortN_In.
    unfold sk_entries. apply sl_values_In. split; [exact Hnz|]. exists idx. auto. }
  rewrite E0 in Hrun. destruct (N.eqb_spec 0 h) as [|_]; [congruence|]. rewrite N.eqb_refl in Hrun. cbn [negb] in Hrun.
  (* the hash is new *)
  assert (Hnew : existsb (N.eqb h) (sortN (sk_entries s)) = false).
  { destruct (existsb (N.eqb h) (sortN (sk_entries s))) eqn:E; [|reflexivity].
    apply existsb_mem in E. apply (proj1 (sortN_In _ _)) in E. exfalso. apply Hnotin. exact E. }
  rewrite Hnew. cbn [orb]. cbv zeta.
  set (s1 := mkSk (t_cfg s) (t_lg_cur s) (t_theta s) (sl_set (t_slots s) idx h) (t_n s + 1) false) in *.
  assert (HP1 : Permutation (h :: sortN (sk_entries s)) (sk_entries s1)).
  { unfold s1, sk_entries at 2. cbn [t_slots t_lg_cur]. eapply Permutation_trans; [|exact Hperm].
    apply perm_skip. apply Permutation_sym, sortN_perm. }
  assert (Hsort1 : sortN (h :: sortN (sk_entries s)) = sortN (sk_entries s1)) by (apply sortN_perm_eq; exact HP1).
  assert (Hlen1 : N.of_nat (length (sortN (h :: sortN (sk_entries s)))) = t_n s + 1).
  { rewrite sortN_length. cbn [length]. rewrite sortN_length, Hn. lia. }
  assert (HW1 : InvW c s1 (h :: off)).
  { constructor; unfold s1; cbn [t_cfg t_lg_cur t_theta t_slots t_n].
    - exact Hcfg.
    - exact HOA'.
    - unfold sk_entries at 1. cbn [t_slots t_lg_cur]. rewrite <- (Permutation_length Hperm).
      cbn [length]. fold (sk_entries s). lia.
    - intros x. unfold sk_entries at 1. cbn [t_slots t_lg_cur]. split.
      + intro Hx. eapply Permutation_in in Hx; [|apply Permutation_sym; exact Hperm].
        destruct Hx as [<-|Hx]; [cbn [In]; split; [now left|lia]|].
        fold (sk_entries s) in Hx. apply Hset in Hx. cbn [In]. tauto.
      + intros [[<-|Hoff] [Hpos Hlt']]; (eapply Permutation_in; [exact Hperm|]); [now left|right].
        fold (sk_entries s). apply Hset. tauto.
    - exact Hth.
    - exact Hlg.
    - intros Hlt'. specialize (Hest Hlt'). pose proof (qual_mono c off h). lia.
    - exact Hpos0. }
  change (get_capacity (t_lg_cur s1) (c_lg_nom (t_cfg s1))) with (get_capacity (t_lg_cur s) (c_lg_nom (t_cfg s))) in Hrun.
  change (t_n s1) with (t_n s + 1) in Hrun. change (t_lg_cur s1) with (t_lg_cur s) in Hrun. change (t_cfg s1) with (t_cfg s) in Hrun.
  rewrite Hcfg in Hrun. rewrite (spec_cap_capacity c _ Hc Hlg) in Hrun, Hcap. rewrite Hlen1.
  destruct (N.ltb_spec (spec_cap c (t_lg_cur s)) (t_n s + 1)) as [Hfull|Hroom].
  2:{ cbn [obind fst] in Hrun. inversion Hrun. subst s'. unfold s1. cbn [t_lg_cur t_theta t_empty].
      f_equal. symmetry. exact Hsort1. }
  destruct (N.leb_spec (t_lg_cur s) (c_lg_nom c)) as [Hbelow|Hmax].
  - (* resize *)
    destruct Hlg as [H5 [Hle Hrf]].
    assert (Hrf0 : c_rf c <> 0) by (intro Z; specialize (Hrf Z); lia).
    destruct (pow2_split (t_lg_cur s) H5) as [m [Em Hm]].
    destruct (resize_spec s1 (w_oa _ _ _ HW1)) as [sl [Hres [_ HP2]]].
    + unfold s1. cbn [t_lg_cur t_cfg]. unfold lg_max. rewrite Hcfg. lia.
    + rewrite <- (w_n _ _ _ HW1). unfold s1. cbn [t_n t_lg_cur]. unfold spec_cap in Hcap.
      destruct (N.leb_spec (t_lg_cur s) (c_lg_nom c)); [|lia]. rewrite Em in *. lia.
    + rewrite Hres in Hrun. cbn [obind fst] in Hrun. inversion Hrun. subst s'.
      unfold s1. cbn [t_cfg t_lg_cur t_theta t_n t_empty]. unfold lg_max. rewrite Hcfg. f_equal.
      rewrite Hsort1. apply sortN_perm_eq.
      unfold sk_entries in HP2 |- *. unfold s1 in HP2 |- *. cbn [t_cfg t_lg_cur t_slots] in HP2 |- *.
      unfold lg_max in HP2. rewrite Hcfg in HP2. apply Permutation_sym. exact HP2.
  - (* rebuild *)
    assert (Hlgmax : t_lg_cur s = c_lg_nom c + 1) by (destruct Hlg as [_ [Hle _]]; lia).
    apply obind_inv in Hrun as [[s2' b2] [Hin Hret]]. apply obind_inv in Hin as [s2 [Hreb Hin]].
    inversion Hin. subst s2' b2. cbn [fst] in Hret. inversion Hret. subst s'.
    fold (k_abs s2).
    assert (Hn1 : 2 ^ c_lg_nom c < t_n s1).
    { unfold s1. cbn [t_n]. unfold spec_cap in Hfull. destruct (N.leb_spec (t_lg_cur s) (c_lg_nom c)); [lia|].
      rewrite Hlgmax, pow2_succ in Hfull.
      destruct (pow2_split (c_lg_nom c) (lgnom_ge5 c Hc)) as [m [Em Hm]]. rewrite Em in *. lia. }
    rewrite (rebuild_abs c s1 (h :: off) s2 Hc HW1 Hlgmax Hn1 Hreb).
    rewrite <- Hsort1. reflexivity.
Qed.

Lemma trim_refines : forall c s off s', cfg_ok c -> Inv c s off ->
  sk_trim reorder s = Ok s' -> k_abs s' = spec_trim c (k_abs s).
Proof.
  intros c s off s' Hc [[HW Hcap] _] Hrun. pose proof HW as [Hcfg HOA Hn Hset Hth Hlg Hest Hpos0].
  unfold sk_trim in Hrun. rewrite Hcfg in Hrun. unfold spec_trim, k_abs. cbn [k_lg k_theta k_set k_empty].
  rewrite sortN_length, <- Hn.
  destruct (N.ltb_spec (2 ^ c_lg_nom c) (t_n s)) as [Hmany|Hfew].
  - assert (Hlgmax : t_lg_cur s = c_lg_nom c + 1).
    { destruct Hlg as [H5 [Hle _]]. destruct (N.le_gt_cases (t_lg_cur s) (c_lg_nom c)) as [Hb|Hb]; [exfalso|lia].
      rewrite (get_capacity_exact c _ Hc (w_lg _ _ _ HW)) in Hcap.
      destruct (N.leb_spec (t_lg_cur s) (c_lg_nom c)); [|lia].
      pose proof (pow2_mono _ _ Hb). pose proof (pow2_pos (t_lg_cur s)). lia. }
    fold (k_abs s'). apply (rebuild_abs c s off s' Hc HW Hlgmax Hmany Hrun).
  - inversion Hrun. reflexivity.
Qed.

Lemma step_refines : forall c s off o s', cfg_ok c -> Inv c s off ->
  step_op reorder s o = Ok s' -> k_abs s' = spec_step c (k_abs s) o.
Proof.
  intros c s off o s' Hc HI Hrun. destruct o as [h| | |b]; cbn [step_op spec_step] in *.
  - eapply update_refines; eauto.
  - eapply trim_refines; eauto.
  - inversion Hrun. destruct HI as [[HW _] _]. rewrite reset_is_new, (w_cfg _ _ _ HW). apply k_abs_new.
  - inversion Hrun. reflexivity.
Qed.

(* the Spec run *)
Definition spec_run (c : tcfg) (ops : list top) : kst := fold_left (spec_step c) ops (spec_init c).

Lemma run_refines_from : forall c ops s off s', cfg_ok c -> Inv c s off ->
  run_ops reorder s ops = Ok s' -> k_abs s' = fold_left (spec_step c) ops (k_abs s).
Proof.
  intros c ops. induction ops as [|o r IH]; intros s off s' Hc HI Hrun; cbn [run_ops fold_left] in *.
  - inversion Hrun. reflexivity.
  - destruct (step_inv reorder reorder_perm c s off o Hc HI) as [s1 [H1 [H2 _]]].
    rewrite H1 in Hrun. cbn [obind] in Hrun.
    rewrite (IH s1 _ s' Hc H2 Hrun). f_equal. eapply step_refines; eauto.
Qed.

(* refinement: after any history the model's abstract state is the Spec's *)
Theorem run_refines : forall c ops s, cfg_ok c -> reach reorder c ops s -> k_abs s = spec_run c ops.
Proof.
  intros c ops s Hc Hr. unfold spec_run.
  rewrite (run_refines_from c ops (sk_new c) [] s Hc (new_inv c Hc) Hr). now rewrite k_abs_new.
Qed.

End Refine.

(* nothing observable depends on the order in which rebuild re-inserts the survivors *)
Theorem order_irrelevant : forall r1 r2, reorder_ok r1 -> reorder_ok r2 ->
  forall c ops s1 s2, cfg_ok c -> reach r1 c ops s1 -> reach r2 c ops s2 ->
  t_lg_cur s1 = t_lg_cur s2 /\ t_theta s1 = t_theta s2 /\ t_empty s1 = t_empty s2 /\
  t_n s1 = t_n s2 /\ Permutation (sk_entries s1) (sk_entries s2).
Proof.
  intros r1 r2 H1 H2 c ops s1 s2 Hc R1 R2.
  pose proof (run_refines r1 H1 c ops s1 Hc R1) as E1. pose proof (run_refines r2 H2 c ops s2 Hc R2) as E2.
  rewrite <- E2 in E1. unfold k_abs in E1. inversion E1 as [[Elg Eth Eset Eem]].
  assert (HP : Permutation (sk_entries s1) (sk_entries s2)).
  { eapply Permutation_trans; [apply sortN_perm|]. rewrite Eset. apply Permutation_sym, sortN_perm. }
  repeat split; try assumption.
  destruct (kmv r1 H1 c ops s1 Hc R1) as [_ [_ [_ N1]]]. destruct (kmv r2 H2 c ops s2 Hc R2) as [_ [_ [_ N2]]].
  rewrite N1, N2, (Permutation_length HP). reflexivity.
Qed.
