(* theta/bit_pack.rs is the big-endian bit stream of the format description.

   For every width w in 1..63:
     - the translated `pack_bits_w` (Gen/GenBitPack.v, re-read from the Rust source on every run)
       maps 8 values to the w bytes [pack_stream w values];
     - the translated `unpack_bits_w` maps w bytes to the 8 fields [field w bytes i];
     - BitPacker (the tail of serialize_v4) maps r <= 7 values to [pack_stream w values];
     - BitUnpacker (the tail of deserialize_v4) maps ceil(r*w/8) bytes to the r fields;
   for ALL inputs (values below 2^64, bytes below 2^8): each statement is one [vm_compute] of the
   symbolic evaluator over the translated functions ([check_exp_sound], Proofs/ThetaBitSym.v).
   And the stream is lossless: the fields of [pack_stream w vs] are the values modulo 2^w. *)
From Coq Require Import List NArith Nnat Bool Lia PeanoNat.
From DS Require Import Base.Prelude Base.BitExp Model.ThetaCodec Spec.ThetaLayout Proofs.ThetaBitSym.
From DS Require Gen.GenBitPack Gen.GenTheta.
Import ListNotations.
Open Scope N_scope.

(* ---------- expected layouts ---------- *)
(* byte j of the stream of r values of w bits: bit t (LSB = 0) is stream bit p = 8j + 7 - t *)
Definition pack_lay (r w j : nat) (t : nat) : sbit :=
  let p := (8 * j + (7 - t))%nat in
  if (p <? r * w)%nat then Some ((p / w)%nat, (w - 1 - p mod w)%nat) else None.

(* value i: bit b is stream bit p = i*w + (w-1-b), i.e. bit 7 - p mod 8 of byte p / 8 *)
Definition unpack_lay (w i : nat) (b : nat) : sbit :=
  let p := (i * w + (w - 1 - b))%nat in Some ((p / 8)%nat, (7 - p mod 8)%nat).

Fixpoint vars_below (n : nat) (e : exp) : bool :=
  match e with
  | Var i => (i <? n)%nat
  | Zero => true
  | Shl e _ | Shr e _ | And e _ | Cast8 e | Cast64 e => vars_below n e
  | Or a b => vars_below n a && vars_below n b
  end.

Definition ty_is (var64 : bool) (want : bool) (e : exp) : bool :=
  match ty var64 e with Some b => Bool.eqb b want | None => false end.

(* a list of byte expressions over r values of w bits *)
Definition check_packed (r w : nat) (es : list exp) : bool :=
  Nat.eqb (length es) ((r * w + 7) / 8) &&
  forallb (fun j => let e := nth j es Zero in
                    check_exp 64 e (pack_lay r w j) 8 && vars_below r e && ty_is true false e)
          (seq 0 (length es)).

(* a list of r value expressions over ceil(r*w/8) bytes *)
Definition check_unpacked (r w : nat) (es : list exp) : bool :=
  Nat.eqb (length es) r &&
  forallb (fun i => let e := nth i es Zero in
                    check_exp 8 e (unpack_lay w i) w && vars_below ((r * w + 7) / 8) e && ty_is false true e)
          (seq 0 (length es)).

Definition widths : list nat := seq 1 63.

(* ---------- the four finite checks (kernel computations over the translated code) ---------- *)
Definition tbl_ok (chk : nat -> list exp -> bool) (tbl : list (nat * list exp)) : bool :=
  forallb (fun w => match assoc_nat w tbl with Some es => chk w es | None => false end) widths.

Lemma gen_pack_ok : tbl_ok (check_packed 8) GenBitPack.pack_tbl = true.
Proof. vm_compute. reflexivity. Qed.

Lemma gen_unpack_ok : tbl_ok (check_unpacked 8) GenBitPack.unpack_tbl = true.
Proof. vm_compute. reflexivity. Qed.

Definition tail_pack_chk (w r : nat) : bool :=
  match pack_tail_exps (N.of_nat w) r with Ok es => check_packed r w es | _ => false end.
Definition tail_unpack_chk (w r : nat) : bool :=
  match unpack_tail_exps (N.of_nat w) r with Ok es => check_unpacked r w es | _ => false end.

Lemma tail_pack_ok : forallb (fun w => forallb (tail_pack_chk w) (seq 1 7)) widths = true.
Proof. vm_compute. reflexivity. Qed.

Lemma tail_unpack_ok : forallb (fun w => forallb (tail_unpack_chk w) (seq 1 7)) widths = true.
Proof. vm_compute. reflexivity. Qed.

(* ---------- from the checks to statements about all inputs ---------- *)
Lemma N_of_bits_ext : forall f g n, (forall t, (t < n)%nat -> f t = g t) -> N_of_bits f n = N_of_bits g n.
Proof.
  induction n as [|n IH]; intros H; cbn [N_of_bits]; [reflexivity|].
  rewrite IH by (intros; apply H; lia). rewrite (H n) by lia. reflexivity.
Qed.

Lemma env_lt : forall l k, Forall (fun x => x < 2 ^ k) l -> forall i, env l i < 2 ^ k.
Proof.
  intros l k H i. unfold env. destruct (Nat.lt_ge_cases i (length l)) as [Hi|Hi].
  - rewrite Forall_forall in H. apply H. apply nth_In. exact Hi.
  - rewrite nth_overflow by exact Hi. apply N.neq_0_lt_0. apply N.pow_nonzero. lia.
Qed.

Lemma widths_In : forall w, In w widths <-> (1 <= w <= 63)%nat.
Proof. intros. unfold widths. rewrite in_seq. lia. Qed.

Lemma map_nth_seq : forall (A B : Type) (f : A -> B) (g : nat -> B) (l : list A) (d : A),
  (forall j, (j < length l)%nat -> f (nth j l d) = g j) -> map f l = map g (seq 0 (length l)).
Proof.
  intros A B f g l d. revert g. induction l as [|a l IH]; intros g H; [reflexivity|].
  cbn [map length seq]. f_equal; [apply (H 0%nat); cbn; lia|].
  rewrite <- seq_shift, map_map. apply IH. intros j Hj. apply (H (S j)). cbn. lia.
Qed.

(* what [check_packed] gives: the byte values are those of the bit stream *)
Lemma packed_sound : forall r w es vs,
  check_packed r w es = true -> length vs = r -> Forall (fun x => x < 2 ^ 64) vs -> (1 <= w)%nat ->
  map (den (env vs)) es = pack_stream w vs.
Proof.
  intros r w es vs H Hr Hvs Hw. unfold check_packed in H. apply andb_prop in H as [Hlen H].
  apply Nat.eqb_eq in Hlen. rewrite forallb_forall in H.
  unfold pack_stream. rewrite Hr, <- Hlen.
  apply (map_nth_seq _ _ _ _ es Zero). intros j Hj.
  assert (Hin : In j (seq 0 (length es))) by (apply in_seq; lia).
  specialize (H j Hin). cbv zeta in H. apply andb_prop in H as [H _]. apply andb_prop in H as [H _].
  rewrite (check_exp_sound 64 _ _ 8 (env vs) H) by (apply (env_lt vs 64); exact Hvs).
  unfold stream_byte. apply N_of_bits_ext. intros t Ht. unfold pack_lay, field_bit.
  set (p := (8 * j + (7 - t))%nat).
  destruct (Nat.ltb_spec p (r * w)) as [Hp|Hp]; cbn [bitval].
  - reflexivity.
  - unfold env. rewrite nth_overflow; [symmetry; apply N.bits_0|].
    rewrite Hr. apply Nat.div_le_lower_bound; lia.
Qed.

(* what [check_unpacked] gives: the values are the fields of the byte stream *)
Lemma unpacked_sound : forall r w es bs,
  check_unpacked r w es = true -> Forall (fun x => x < 2 ^ 8) bs ->
  map (den (env bs)) es = map (field w bs) (seq 0 r).
Proof.
  intros r w es bs H Hbs. unfold check_unpacked in H. apply andb_prop in H as [Hlen H].
  apply Nat.eqb_eq in Hlen. rewrite forallb_forall in H. rewrite <- Hlen.
  apply (map_nth_seq _ _ _ _ es Zero). intros i Hi.
  assert (Hin : In i (seq 0 (length es))) by (apply in_seq; lia).
  specialize (H i Hin). cbv zeta in H. apply andb_prop in H as [H _]. apply andb_prop in H as [H _].
  rewrite (check_exp_sound 8 _ _ w (env bs) H) by (apply (env_lt bs 8); exact Hbs).
  unfold field. apply N_of_bits_ext. intros b Hb. reflexivity.
Qed.

Lemma tbl_ok_get : forall chk tbl w, tbl_ok chk tbl = true -> (1 <= w <= 63)%nat ->
  exists es, assoc_nat w tbl = Some es /\ chk w es = true.
Proof.
  intros chk tbl w H Hw. unfold tbl_ok in H. rewrite forallb_forall in H.
  specialize (H w (proj2 (widths_In w) Hw)). destruct (assoc_nat w tbl) as [es|]; [|discriminate].
  exists es. auto.
Qed.

Lemma block_width : BLOCK_WIDTH = 8.
Proof. reflexivity. Qed.

(* pack_bits_block *)
Lemma pack_block_generic : forall tbl, tbl_ok (check_packed 8) tbl = true -> forall w vs,
  (1 <= w <= 63)%nat -> length vs = 8%nat -> Forall (fun x => x < 2 ^ 64) vs ->
  pack_bits_block_tbl tbl vs (N.of_nat w) = Ok (pack_stream w vs).
Proof.
  intros tbl Htbl w vs Hw Hlen Hvs. unfold pack_bits_block_tbl. rewrite block_width, Hlen.
  change (N.of_nat 8 =? 8) with true. cbn [negb].
  destruct (N.leb_spec 1 (N.of_nat w)); [|lia]. destruct (N.leb_spec (N.of_nat w) 63); [|lia]. cbn [andb negb].
  destruct (N.ltb_spec (N.of_nat w) (N.of_nat w * 8)); [|lia]. cbn [negb].
  rewrite Nat2N.id.
  destruct (tbl_ok_get _ _ w Htbl Hw) as [es [Hes Hchk]]. rewrite Hes.
  pose proof Hchk as Hchk'. unfold check_packed in Hchk'. apply andb_prop in Hchk' as [Hl _]. apply Nat.eqb_eq in Hl.
  assert (Hl' : length es = w).
  { rewrite Hl. replace (8 * w + 7)%nat with (7 + w * 8)%nat by lia. rewrite Nat.div_add by lia. cbn. lia. }
  rewrite Hl'. destruct (N.leb_spec (N.of_nat w) (N.of_nat w)); [|lia].
  rewrite Nat.sub_diag. cbn [repeat]. rewrite app_nil_r.
  f_equal. apply (packed_sound 8); try assumption. lia.
Qed.

Theorem pack_block_correct : forall w vs,
  (1 <= w <= 63)%nat -> length vs = 8%nat -> Forall (fun x => x < 2 ^ 64) vs ->
  pack_bits_block vs (N.of_nat w) = Ok (pack_stream w vs).
Proof. exact (pack_block_generic _ gen_pack_ok). Qed.

(* unpack_bits_block *)
Lemma unpack_block_generic : forall tbl, tbl_ok (check_unpacked 8) tbl = true -> forall w bs,
  (1 <= w <= 63)%nat -> length bs = w -> Forall (fun x => x < 2 ^ 8) bs ->
  unpack_bits_block_tbl tbl bs (N.of_nat w) = Ok (map (field w bs) (seq 0 8)).
Proof.
  intros tbl Htbl w bs Hw Hlen Hbs. unfold unpack_bits_block_tbl. rewrite block_width, Hlen.
  destruct (N.leb_spec 1 (N.of_nat w)); [|lia]. destruct (N.leb_spec (N.of_nat w) 63); [|lia]. cbn [andb negb].
  destruct (N.ltb_spec (N.of_nat w) (N.of_nat w * 8)); [|lia]. cbn [negb].
  rewrite Nat2N.id.
  destruct (tbl_ok_get _ _ w Htbl Hw) as [es [Hes Hchk]]. rewrite Hes.
  pose proof Hchk as Hchk'. unfold check_unpacked in Hchk'. apply andb_prop in Hchk' as [Hl _]. apply Nat.eqb_eq in Hl.
  rewrite Hl. change (N.of_nat 8 =? 8) with true. cbv iota.
  f_equal. apply unpacked_sound; assumption.
Qed.

Theorem unpack_block_correct : forall w bs,
  (1 <= w <= 63)%nat -> length bs = w -> Forall (fun x => x < 2 ^ 8) bs ->
  unpack_bits_block bs (N.of_nat w) = Ok (map (field w bs) (seq 0 8)).
Proof. exact (unpack_block_generic _ gen_unpack_ok). Qed.

(* the BitPacker tail of serialize_v4 *)
Theorem pack_tail_correct : forall w vs,
  (1 <= w <= 63)%nat -> (1 <= length vs <= 7)%nat -> Forall (fun x => x < 2 ^ 64) vs ->
  pack_tail (N.of_nat w) vs = Ok (pack_stream w vs).
Proof.
  intros w vs Hw Hr Hvs. unfold pack_tail.
  pose proof tail_pack_ok as H. rewrite forallb_forall in H.
  specialize (H w (proj2 (widths_In w) Hw)). rewrite forallb_forall in H.
  specialize (H (length vs) (proj2 (in_seq 7 1 (length vs)) ltac:(lia))). unfold tail_pack_chk in H.
  destruct (pack_tail_exps (N.of_nat w) (length vs)) as [es| |]; try discriminate.
  cbn [obind]. f_equal. apply (packed_sound (length vs)); auto. lia.
Qed.

(* the BitUnpacker tail of deserialize_v4 *)
Theorem unpack_tail_correct : forall w r bs,
  (1 <= w <= 63)%nat -> (1 <= r <= 7)%nat -> Forall (fun x => x < 2 ^ 8) bs ->
  unpack_tail (N.of_nat w) r bs = Ok (map (field w bs) (seq 0 r)).
Proof.
  intros w r bs Hw Hr Hbs. unfold unpack_tail.
  pose proof tail_unpack_ok as H. rewrite forallb_forall in H.
  specialize (H w (proj2 (widths_In w) Hw)). rewrite forallb_forall in H.
  specialize (H r (proj2 (in_seq 7 1 r) ltac:(lia))). unfold tail_unpack_chk in H.
  destruct (unpack_tail_exps (N.of_nat w) r) as [es| |]; try discriminate.
  cbn [obind]. f_equal. apply unpacked_sound; assumption.
Qed.

(* ---------- the bit stream is lossless ---------- *)
Lemma stream_byte_lt : forall w vs j, stream_byte w vs j < 2 ^ 8.
Proof. intros. unfold stream_byte. apply (N_of_bits_lt _ 8). Qed.

Lemma pack_stream_bytes : forall w vs, Forall (fun x => x < 2 ^ 8) (pack_stream w vs).
Proof.
  intros. unfold pack_stream. apply Forall_forall. intros x Hx. apply in_map_iff in Hx.
  destruct Hx as [j [<- _]]. apply stream_byte_lt.
Qed.

Lemma pack_stream_length : forall w vs, length (pack_stream w vs) = ((length vs * w + 7) / 8)%nat.
Proof. intros. unfold pack_stream. rewrite map_length, seq_length. reflexivity. Qed.

(* bit p of the byte stream is bit p of the field stream *)
Lemma stream_bit_pack : forall w vs p, (p < length vs * w)%nat ->
  stream_bit (pack_stream w vs) p = field_bit w vs p.
Proof.
  intros w vs p Hp. unfold stream_bit, pack_stream.
  assert (Hj : (p / 8 < (length vs * w + 7) / 8)%nat).
  { apply Nat.div_lt_upper_bound; [lia|].
    pose proof (Nat.div_mod (length vs * w + 7) 8 ltac:(lia)). pose proof (Nat.mod_upper_bound (length vs * w + 7) 8 ltac:(lia)). lia. }
  rewrite (nth_indep _ 0 (stream_byte w vs 0)) by (rewrite map_length, seq_length; exact Hj).
  rewrite map_nth, seq_nth by exact Hj. cbn [Nat.add].
  unfold stream_byte. rewrite N_of_bits_spec.
  pose proof (Nat.mod_upper_bound p 8 ltac:(lia)) as Hm.
  destruct (Nat.ltb_spec (7 - p mod 8) 8); [|lia].
  f_equal. pose proof (Nat.div_mod p 8 ltac:(lia)). lia.
Qed.

Theorem field_pack_stream : forall w vs i, (1 <= w)%nat -> (i < length vs)%nat ->
  field w (pack_stream w vs) i = (nth i vs 0) mod 2 ^ N.of_nat w.
Proof.
  intros w vs i Hw Hi. apply testbit_nat_inj. intros b. unfold field. rewrite N_of_bits_spec.
  destruct (Nat.ltb_spec b w) as [Hb|Hb].
  - rewrite N.mod_pow2_bits_low by lia.
    assert (Hp : (i * w + (w - 1 - b) < length vs * w)%nat) by nia.
    rewrite stream_bit_pack by exact Hp. unfold field_bit.
    replace ((i * w + (w - 1 - b)) / w)%nat with i.
    2:{ rewrite Nat.add_comm, Nat.div_add by lia. rewrite Nat.div_small by lia. reflexivity. }
    replace ((i * w + (w - 1 - b)) mod w)%nat with (w - 1 - b)%nat.
    2:{ rewrite Nat.add_comm, Nat.mod_add by lia. rewrite Nat.mod_small by lia. reflexivity. }
    f_equal. lia.
  - rewrite N.mod_pow2_bits_high by lia. reflexivity.
Qed.

Theorem pack_unpack_generic : forall w vs, (1 <= w)%nat ->
  map (field w (pack_stream w vs)) (seq 0 (length vs)) = map (fun v => v mod 2 ^ N.of_nat w) vs.
Proof.
  intros w vs Hw. rewrite <- (map_nth_seq _ _ (fun v => v mod 2 ^ N.of_nat w) _ vs 0); [reflexivity|].
  intros j Hj. symmetry. apply field_pack_stream; assumption.
Qed.
