(* Proofs about the CPC model (Model/Cpc.v): the sketch state always represents the bit matrix of
   the offered pairs (Spec in Proofs/CpcSpec.v). *)
From DS Require Import Base.Prelude Model.Cpc Proofs.CpcBits Proofs.CpcSpec.
From Coq Require Import ZifyBool ZifyNat ZifyN.
Ltac Zify.zify_post_hook ::= Z.div_mod_to_equations.
Open Scope N_scope.

(* ---------- the literals of the Rust function bodies, as translated on this run ---------- *)
Lemma literals_manifest :
  Gen.GenCpc.LIT_update = [1; 63; 63; 1; 6; 1; 6]%Z /\
  Gen.GenCpc.LIT_row_col_update = [63; 0; 2; 6]%Z /\
  Gen.GenCpc.LIT_update_hip = [1; 63; 1]%Z /\
  Gen.GenCpc.LIT_update_sparse = [1; 5; 3; 1; 5; 3]%Z /\
  Gen.GenCpc.LIT_promote_sparse_to_windowed = [0; 1; 5; 3; 4; 3; 0; 2; 6; 63; 8; 6; 1]%Z /\
  Gen.GenCpc.LIT_update_windowed = [56; 1; 5; 3; 3; 3; 27; 63; 8; 6; 1; 1; 3; 27; 56; 3; 27]%Z /\
  Gen.GenCpc.LIT_move_window = [1; 56; 1; 7; 0; 255; 1; 1; 0; 255; 0; 1; 6]%Z /\
  Gen.GenCpc.LIT_refresh_kxp = [8; 255; 8; 8]%Z /\
  Gen.GenCpc.LIT_build_bit_matrix = [1; 56; 1; 1; 0; 63; 6; 1]%Z /\
  Gen.GenCpc.LIT_determine_flavor = [1; 1; 3; 5; 0; 3; 27]%Z /\
  Gen.GenCpc.LIT_determine_correct_offset = [1; 3; 19; 0; 0; 3]%Z /\
  Gen.GenCpc.MIN_LG_K = 4%Z /\ Gen.GenCpc.MAX_LG_K = 26%Z.
Proof. repeat split; reflexivity. Qed.

Ltac consts :=
  change SP_SH_PRE with 5 in *; change SP_MUL_PRE with 3 in *; change SP_SH with 5 in *; change SP_MUL with 3 in *;
  change PR_SH with 5 in *; change PR_MUL with 3 in *; change PR_LGK with 4 in *; change PR_MUL2 with 3 in *;
  change PR_COLS with 8 in *;
  change UW_MAXOFF with 56 in *; change UW_SH32 with 5 in *; change UW_MUL32 with 3 in *;
  change UW_SH8PRE with 3 in *; change UW_SHW with 3 in *; change UW_27PRE with 27 in *;
  change UW_WIDTH with 8 in *; change UW_SH8 with 3 in *; change UW_27 with 27 in *;
  change UW_MAXOFF2 with 56 in *; change UW_SHWPOST with 3 in *; change UW_27POST with 27 in *;
  change MW_INC with 1 in *; change MW_MAXOFF with 56 in *; change MW_KXPMASK with 7 in *;
  change BM_MAXOFF with 56 in *; change UH_PLUS with 1 in *;
  change DF_SH2 with 1 in *; change DF_SH8 with 3 in *; change DF_SH32 with 5 in *;
  change DF_3 with 3 in *; change DF_27 with 27 in *;
  change DO_SH with 3 in *; change DO_19 with 19 in *; change DO_SH2 with 3 in *;
  change UP_CAP with 63 in *; change UP_CAPV with 63 in *;
  change (zN Gen.GenCpc.MIN_LG_K) with 4 in *; change (zN Gen.GenCpc.MAX_LG_K) with 26 in *;
  change (2 ^ 5) with 32 in *; change (2 ^ 3) with 8 in *; change (2 ^ 1) with 2 in *.

(* ---------- the correct window offset as a function of the coupon count ---------- *)
Definition coff (K C : N) : N := if 8 * C <? 19 * K then 0 else (8 * C - 19 * K) / (8 * K).

Lemma coff_sandwich : forall K C, 0 < K -> 19 * K <= 8 * C ->
  8 * K * coff K C <= 8 * C - 19 * K < 8 * K * (coff K C + 1).
Proof.
  intros K C HK H. unfold coff. assert (8 * C <? 19 * K = false) as -> by lia.
  pose proof (N.div_mod (8 * C - 19 * K) (8 * K) ltac:(lia)) as E.
  pose proof (N.mod_lt (8 * C - 19 * K) (8 * K) ltac:(lia)) as L.
  nia.
Qed.

Lemma coff_unique : forall K C q, 0 < K -> 19 * K <= 8 * C ->
  8 * K * q <= 8 * C - 19 * K < 8 * K * (q + 1) -> coff K C = q.
Proof.
  intros K C q HK H [H1 H2]. unfold coff. assert (8 * C <? 19 * K = false) as -> by lia.
  symmetry. apply (N.div_unique _ _ q (8 * C - 19 * K - 8 * K * q)); nia.
Qed.

(* the window is never behind: C < (27/8 + offset) K *)
Lemma coff_bound : forall K C, 0 < K -> 8 * C < (27 + 8 * coff K C) * K.
Proof.
  intros K C HK. destruct (N.lt_ge_cases (8 * C) (19 * K)) as [H|H].
  - unfold coff. assert (8 * C <? 19 * K = true) as -> by lia. lia.
  - pose proof (coff_sandwich K C HK H). nia.
Qed.

(* the move threshold: reaching 8C >= (27 + 8w) K is exactly when the correct offset becomes w + 1 *)
Lemma coff_move : forall K C, 0 < K -> (27 + 8 * coff K C) * K <= 8 * (C + 1) -> coff K (C + 1) = coff K C + 1.
Proof.
  intros K C HK H. pose proof (coff_bound K C HK) as B.
  apply coff_unique; [exact HK|nia|]. nia.
Qed.

Lemma coff_stay : forall K C, 0 < K -> 8 * (C + 1) < (27 + 8 * coff K C) * K -> coff K (C + 1) = coff K C.
Proof.
  intros K C HK H. destruct (N.lt_ge_cases (8 * (C + 1)) (19 * K)) as [H1|H1].
  - unfold coff. assert (8 * (C + 1) <? 19 * K = true) as -> by lia.
    assert (8 * C <? 19 * K = true) as -> by lia. reflexivity.
  - apply coff_unique; [exact HK|exact H1|].
    destruct (N.lt_ge_cases (8 * C) (19 * K)) as [H2|H2].
    + unfold coff in *. assert (8 * C <? 19 * K = true) as E by lia. rewrite E in *. nia.
    + pose proof (coff_sandwich K C HK H2). nia.
Qed.

Lemma coff_le56 : forall K C, 0 < K -> 8 * C < 475 * K -> coff K C <= 56.
Proof.
  intros K C HK H. destruct (N.lt_ge_cases (8 * C) (19 * K)) as [H1|H1].
  - unfold coff. assert (8 * C <? 19 * K = true) as -> by lia. lia.
  - pose proof (coff_sandwich K C HK H1). nia.
Qed.

Lemma coff_small : forall K C, 8 * C < 19 * K -> coff K C = 0.
Proof. intros K C H. unfold coff. assert (8 * C <? 19 * K = true) as -> by lia. reflexivity. Qed.

Lemma pow_pos : forall lgk, 0 < 2 ^ lgk.
Proof. intros. apply N.neq_0_lt_0. apply N.pow_nonzero. discriminate. Qed.

(* determine_correct_offset is coff inside the domain (the `as u8` cast does not truncate) *)
Lemma dco_coff : forall lgk C, 8 * C < 475 * 2 ^ lgk -> determine_correct_offset lgk C = coff (2 ^ lgk) C.
Proof.
  intros lgk C H. pose proof (pow_pos lgk) as HK. pose proof (coff_le56 _ _ HK H) as L.
  unfold determine_correct_offset, coff in *. consts.
  replace (C * 8) with (8 * C) by lia. rewrite N.pow_add_r. change (2 ^ 3) with 8.
  replace (2 ^ lgk * 8) with (8 * 2 ^ lgk) by lia.
  destruct (8 * C <? 19 * 2 ^ lgk); [reflexivity|].
  apply N.mod_small. lia.
Qed.

(* ---------- the abstraction: which bit the sketch state records for (r, c) ---------- *)
Definition tlist (s : cpc) : list N := match c_table s with Some t => t | None => [] end.
Definition windowed (s : cpc) : bool := match c_win s with [] => false | _ => true end.

Definition sk_bit (s : cpc) (r c : N) : bool :=
  let x := r * 64 + c in
  if windowed s then
    if c <? c_off s then negb (memN x (tlist s))                              (* early zone: surprising zeros *)
    else if c <? c_off s + 8 then N.testbit (nthN (c_win s) r 0) (c - c_off s) (* the window *)
    else memN x (tlist s)                                                      (* late zone: surprising ones *)
  else memN x (tlist s).

(* structural well-formedness of a state *)
Record Wf (s : cpc) : Prop := {
  wf_nodup : NoDup (tlist s);
  wf_rows : forall x, In x (tlist s) -> x / 64 < 2 ^ c_lgk s;
  wf_nomax : forall x, In x (tlist s) -> x <> U32MAX;
  wf_zone : windowed s = true -> forall x, In x (tlist s) -> x mod 64 < c_off s \/ c_off s + 8 <= x mod 64;
  wf_win : windowed s = true -> length (c_win s) = Knat (c_lgk s) /\ Forall (fun b => b < 256) (c_win s);
  wf_sparse_off : windowed s = false -> c_off s = 0;
  wf_off : c_off s <= 56;
  wf_tab : c_table s = None -> c_num s = 0;
  wf_empty : c_num s = 0 -> tlist s = [] /\ windowed s = false
}.

Lemma Knat_N : forall lgk, N.of_nat (Knat lgk) = 2 ^ lgk.
Proof. intros. unfold Knat. lia. Qed.

(* build_bit_matrix rebuilds exactly the bits the state records *)
Lemma build_bits : forall s, Wf s ->
  exists m, build_bit_matrix s = Ok m /\ length m = Knat (c_lgk s) /\
    forall r c, r < 2 ^ c_lgk s ->
      N.testbit (nthN m r 0) c = if c <? 64 then sk_bit s r c else false.
Proof.
  intros s W. unfold build_bit_matrix, Knat in *. consts.
  pose proof (wf_off s W) as Hoff. assert (c_off s <=? 56 = true) as -> by lia. cbn [negb].
  destruct (c_num s =? 0) eqn:EC.
  - destruct (wf_empty s W ltac:(lia)) as [Ht Hw]. rewrite (wf_sparse_off s W Hw).
    eexists. split; [reflexivity|]. split; [apply repeat_length|].
    intros r c Hr. rewrite nthN_repeat by (rewrite N2Nat.id; exact Hr).
    change (2 ^ 0 - 1) with 0. rewrite N.bits_0. unfold sk_bit. rewrite Hw, Ht. cbn. destruct (c <? 64); reflexivity.
  - destruct (c_table s) as [t|] eqn:Et; [|pose proof (wf_tab s W Et); lia].
    assert (Htl : tlist s = t) by (unfold tlist; rewrite Et; reflexivity).
    pose proof (wf_nodup s W) as ND. pose proof (wf_rows s W) as HR. rewrite Htl in ND, HR.
    eexists. split; [reflexivity|].
    destruct (c_win s) as [|b0 w0] eqn:Ew.
    + (* sparse *)
      assert (Hw : windowed s = false) by (unfold windowed; rewrite Ew; reflexivity).
      rewrite (wf_sparse_off s W Hw). change (2 ^ 0 - 1) with 0.
      split; [rewrite fold_xor_length; apply repeat_length|].
      intros r c Hr. rewrite fold_xor_bits; [|exact ND|intros x Hx; rewrite repeat_length, N2Nat.id; apply HR; exact Hx].
      rewrite nthN_repeat by (rewrite N2Nat.id; exact Hr). rewrite N.bits_0.
      unfold sk_bit. rewrite Hw, Htl, xorb_false_l. destruct (c <? 64); reflexivity.
    + (* windowed *)
      assert (Hw : windowed s = true) by (unfold windowed; rewrite Ew; reflexivity).
      destruct (wf_win s W Hw) as [Hlen Hbytes]. rewrite Ew in Hlen, Hbytes. unfold Knat in Hlen.
      pose proof (wf_zone s W Hw) as HZ. rewrite Htl in HZ.
      split; [rewrite fold_xor_length, map_length; exact Hlen|].
      intros r c Hr.
      rewrite fold_xor_bits; [|exact ND|intros x Hx; rewrite map_length, Hlen, N2Nat.id; apply HR; exact Hx].
      rewrite (nthN_map _ _ _ 0) by (rewrite Hlen, N2Nat.id; exact Hr).
      rewrite N.lor_spec, ones_bits, shiftl_bits.
      assert (Hb : nthN (b0 :: w0) r 0 < 256) by (apply nthN_Forall; [exact Hbytes|rewrite Hlen, N2Nat.id; exact Hr]).
      unfold sk_bit. rewrite Hw, Htl, Ew.
      destruct (c <? 64) eqn:Ec.
      * destruct (c <? c_off s) eqn:E1; cbn [orb].
        -- reflexivity.
        -- destruct (c <? c_off s + 8) eqn:E2.
           ++ assert (memN (r * 64 + c) t = false) as ->.
              { apply memN_false. intros Hin. apply HZ in Hin. rewrite rc_mod in Hin by lia. lia. }
              apply xorb_false_r.
           ++ rewrite byte_bits_high by (try exact Hb; lia). apply xorb_false_l.
      * assert (c <? c_off s = false) as -> by lia. cbn [orb].
        apply byte_bits_high; [exact Hb|lia].
Qed.

