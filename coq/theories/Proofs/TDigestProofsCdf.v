(* cdf / pmf / check_split_points over exact rationals. *)
From Coq Require Import QArith Qabs Lia Lqa Qfield.
From DS Require Import Base.Prelude Model.TDigest Spec.TDigestSpec Proofs.TDigestProofsBase Proofs.TDigestProofsRank Proofs.TDigestProofsQuantile.
Open Scope Q_scope.

Lemma cdf_empty_splits v : v_cs v <> [] -> cdf v [] = Ok (Some [1]).
Proof. intros H. unfold cdf. cbn. destruct (v_cs v); [congruence|reflexivity]. Qed.

Lemma pmf_empty_splits v : v_cs v <> [] -> pmf v [] = Ok (Some [1]).
Proof. intros H. unfold pmf. rewrite cdf_empty_splits by auto. reflexivity. Qed.

Lemma cdf_pmf_empty_splits v : v_cs v <> [] -> cdf v [] = Ok (Some [1]) /\ pmf v [] = Ok (Some [1]).
Proof. intros H. split; [apply cdf_empty_splits|apply pmf_empty_splits]; exact H. Qed.

(* a split list that is not strictly increasing is rejected (the crate panics) *)
Lemma cdf_rejects_unsorted v sp : strictly_increasing sp = false -> cdf v sp = Stuck /\ pmf v sp = Stuck.
Proof. intros H. unfold pmf, cdf, check_split_points. rewrite H. split; reflexivity. Qed.

Lemma strictly_increasing_tail a sp : strictly_increasing (a :: sp) = true -> strictly_increasing sp = true.
Proof. destruct sp as [|b sp]; [reflexivity|]. cbn [strictly_increasing]. intros H. apply andb_prop in H. tauto. Qed.

Lemma strictly_increasing_head a b sp : strictly_increasing (a :: b :: sp) = true -> a < b.
Proof. cbn [strictly_increasing]. intros H. apply andb_prop in H as [H _]. qb H. exact H. Qed.

Lemma diffs_sum : forall r x d, qsum (diffs x r) == last (x :: r) d - x.
Proof.
  induction r as [|y r IH]; intros x d.
  - cbn. ring.
  - cbn [diffs qsum]. rewrite (IH y d). change (last (x :: y :: r) d) with (last (y :: r) d). ring.
Qed.

Lemma diffs_length : forall r x, length (diffs x r) = length r.
Proof. induction r as [|y r IH]; intros x; cbn [diffs length]; auto. Qed.

Lemma diffs_nonneg : forall r x, nondecr (x :: r) -> Forall (fun d => 0 <= d) (diffs x r).
Proof.
  induction r as [|y r IH]; intros x H; cbn [diffs]; constructor.
  - destruct H as [H _]. lra.
  - apply IH. destruct H as [_ H]. exact H.
Qed.

Section Cdf.
Variable v : view.
Hypothesis Hwf : wf_view v.

Lemma ranks_ok : forall sp, exists l, ranks v sp = Ok (l ++ [1]) /\ Forall2 (fun p r => rank v p = Ok (Some r)) sp l.
Proof.
  induction sp as [|p sp IH].
  - exists []. split; [reflexivity|constructor].
  - destruct IH as (l & E & F). destruct (rank_total v Hwf p) as (r & Hr).
    exists (r :: l). cbn [ranks]. rewrite Hr, E. split; [reflexivity|]. constructor; auto.
Qed.

(* cdf = the ranks of the split points followed by 1 *)
Theorem cdf_ok sp : strictly_increasing sp = true ->
  exists l, cdf v sp = Ok (Some (l ++ [1])) /\ Forall2 (fun p r => rank v p = Ok (Some r)) sp l.
Proof.
  intros H. destruct (ranks_ok sp) as (l & E & F). exists l. split; auto.
  unfold cdf, check_split_points. rewrite H. cbn [obind].
  pose proof (wf_ne _ Hwf) as Hne. destruct (v_cs v); [congruence|]. rewrite E. reflexivity.
Qed.

Lemma F2_length {A B} (P : A -> B -> Prop) a b : Forall2 P a b -> length a = length b.
Proof. induction 1; cbn; auto. Qed.

Lemma F2_range sp l : Forall2 (fun p r => rank v p = Ok (Some r)) sp l -> Forall (fun r => 0 <= r /\ r <= 1) l.
Proof. induction 1; constructor; auto. eapply rank_range; eauto. Qed.

Theorem cdf_shape sp c : strictly_increasing sp = true -> cdf v sp = Ok (Some c) ->
  length c = S (length sp) /\ last c 0 = 1 /\ Forall (fun r => 0 <= r /\ r <= 1) c.
Proof.
  intros H Hc. destruct (cdf_ok sp H) as (l & E & F). rewrite E in Hc. inversion Hc; subst c.
  split; [rewrite app_length, <- (F2_length _ _ _ F); cbn; lia|].
  split; [apply last_last|]. apply Forall_app. split; [eapply F2_range; eauto|]. constructor; [lra|constructor].
Qed.

(* pmf: same length, sums to 1 *)
Theorem pmf_sums_to_one sp : strictly_increasing sp = true ->
  exists l, pmf v sp = Ok (Some l) /\ length l = S (length sp) /\ qsum l == 1.
Proof.
  intros H. destruct (cdf_ok sp H) as (l & E & F). unfold pmf. rewrite E. cbn [obind].
  destruct (l ++ [1]) as [|x r] eqn:El.
  - destruct l; discriminate.
  - eexists. split; [reflexivity|]. split.
    + cbn [length]. rewrite diffs_length. assert (length (x :: r) = S (length sp)).
      { rewrite <- El, app_length, <- (F2_length _ _ _ F). cbn. lia. } cbn [length] in H0. lia.
    + cbn [qsum]. rewrite (diffs_sum r x 0).
      assert (EL : last (x :: r) 0 = 1) by (rewrite <- El; apply last_last).
      rewrite EL. ring.
Qed.

End Cdf.

Lemma queries_never_stuck v : wf_view v ->
  (forall x, exists r, rank v x = Ok (Some r)) /\
  (forall q, exists x, quantile v q = Ok (Some x)) /\
  (forall sp, strictly_increasing sp = true -> exists c p, cdf v sp = Ok (Some c) /\ pmf v sp = Ok (Some p)).
Proof.
  intros W. split; [apply rank_total; exact W|]. split; [apply quantile_total; exact W|].
  intros sp H. destruct (cdf_ok v W sp H) as (l & E & _). destruct (pmf_sums_to_one v W sp H) as (p & Ep & _). eauto.
Qed.

Section CdfMono.
Variable v : view.
Hypothesis Hwf : wf_view v.

Lemma F2_nondecr : forall sp l, strictly_increasing sp = true ->
  Forall2 (fun p r => rank v p = Ok (Some r)) sp l -> nondecr (l ++ [1]).
Proof.
  induction sp as [|p sp IH]; intros l H F; inversion F; subst; [cbn; auto|].
  destruct sp as [|p' sp].
  - inversion H4; subst. cbn. split; auto. eapply rank_range; eauto.
  - inversion H4; subst. cbn [app nondecr]. split.
    + apply (rank_mono v Hwf p p'); auto. apply Qlt_le_weak. eapply strictly_increasing_head; eauto.
    + apply (IH (y0 :: l'0)); [eapply strictly_increasing_tail; eauto|exact H4].
Qed.

(* cdf is non-decreasing and every pmf entry is non-negative *)
Theorem cdf_nondecr sp c : strictly_increasing sp = true -> cdf v sp = Ok (Some c) -> nondecr c.
Proof.
  intros H Hc. destruct (cdf_ok v Hwf sp H) as (l & E & F). rewrite E in Hc. inversion Hc; subst c.
  apply (F2_nondecr sp); auto.
Qed.

Theorem pmf_nonneg sp l : strictly_increasing sp = true -> pmf v sp = Ok (Some l) -> Forall (fun d => 0 <= d) l.
Proof.
  intros H Hp. destruct (cdf_ok v Hwf sp H) as (c & E & F). unfold pmf in Hp. rewrite E in Hp. cbn [obind] in Hp.
  pose proof (F2_nondecr sp c H F) as Hnd. pose proof (F2_range v Hwf sp c F) as Hr.
  destruct (c ++ [1]) as [|x r] eqn:Ec; inversion Hp; subst l; [constructor|].
  constructor.
  - destruct c as [|c0 c']; cbn [app] in Ec; inversion Ec; subst; [lra|]. inversion Hr; subst. tauto.
  - apply diffs_nonneg. exact Hnd.
Qed.

End CdfMono.
