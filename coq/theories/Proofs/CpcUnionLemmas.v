(* Lemmas for the CpcUnion refinement: transfer of the sketch invariant, the matrix of a sketch as a
   list, OR-ing contributions into a list matrix. *)
From DS Require Import Base.Prelude Model.Cpc Model.CpcUnion Proofs.CpcBits Proofs.CpcSpec Proofs.CpcProofs Proofs.CpcInv
  Proofs.CpcStep Proofs.CpcUpdate Proofs.CpcMain Proofs.CpcUnionSpec.
From Coq Require Import ZifyBool ZifyNat ZifyN.
Ltac Zify.zify_post_hook ::= Z.div_mod_to_equations.
Open Scope N_scope.

(* ---------- the invariant only looks at the rows below K ---------- *)
Lemma rep_ext : forall s M M', Rep s M -> mbelow (2 ^ c_lgk s) M M' -> Rep s M'.
Proof.
  intros s M M' [W Hb Hn] H. constructor.
  - exact W.
  - intros r c Hr Hc. rewrite <- (H r Hr). apply Hb; assumption.
  - rewrite Hn. apply pop_rows_below. rewrite Knat_N. exact H.
Qed.

Lemma Mnomax_ext : forall lg M M', mbelow (2 ^ lg) M M' -> Mnomax lg M -> Mnomax lg M'.
Proof. intros lg M M' H HM r c Hr Hc Hb. rewrite <- (H r Hr) in Hb. apply (HM r c Hr Hc Hb). Qed.

Lemma inv_ext : forall lg s M M', Inv lg s M -> mbelow (2 ^ lg) M M' -> Inv lg s M'.
Proof.
  intros lg s M M' [R Hl Hrg Hoff Hwin Hfl Hfic Hnm] H. constructor; try assumption.
  - apply (rep_ext s M M' R). rewrite Hl. exact H.
  - intros r c Hr Hc. rewrite <- (H r Hr). apply Hfic; assumption.
  - apply (Mnomax_ext lg M M' H Hnm).
Qed.

(* ---------- build_bit_matrix as a list of Spec rows ---------- *)
Lemma nthN_rows_of : forall M n r, r < N.of_nat n -> nthN (rows_of M n) r 0 = M r.
Proof. intros M n r H. unfold nthN. rewrite rows_of_nth by lia. rewrite N2Nat.id. reflexivity. Qed.

Lemma build_rows : forall s M, Rep s M -> Mw64 (c_lgk s) M ->
  build_bit_matrix s = Ok (rows_of M (Knat (c_lgk s))).
Proof.
  intros s M R H64. destruct (build_bits s (rep_wf s M R)) as [m [Em [Hlen Hbits]]].
  rewrite Em. f_equal. apply list_eq_bits; [rewrite rows_of_length; exact Hlen|].
  intros r c Hr. rewrite Hlen, Knat_N in Hr. rewrite (Hbits r c Hr).
  rewrite nthN_rows_of by (rewrite Knat_N; exact Hr).
  destruct (c <? 64) eqn:Ec.
  - apply (rep_bits s M R); [exact Hr|lia].
  - symmetry. apply (H64 r Hr). lia.
Qed.

Lemma count_rows : forall M n, count_bits_set_in_matrix (rows_of M n) = pop_rows M n.
Proof. reflexivity. Qed.

(* ---------- OR-ing contributions (row, word) into a list matrix ---------- *)
Lemma or_at_length : forall m rw, length (or_at m rw) = length m.
Proof. intros m [r w]. unfold or_at. apply set_nthN_length. Qed.

Lemma fold_or_at_length : forall cs m, length (fold_left or_at cs m) = length m.
Proof. induction cs as [|x cs IH]; intros m; cbn [fold_left]; [reflexivity|]. rewrite IH. apply or_at_length. Qed.

Lemma fold_or_at_bits : forall cs m, (forall rw, In rw cs -> fst rw < N.of_nat (length m)) ->
  forall r c,
  N.testbit (nthN (fold_left or_at cs m) r 0) c =
  N.testbit (nthN m r 0) c || existsb (fun rw => (fst rw =? r) && N.testbit (snd rw) c) cs.
Proof.
  induction cs as [|[r0 w] cs IH]; intros m H r c; cbn [fold_left existsb].
  - rewrite orb_false_r. reflexivity.
  - rewrite IH by (intros rw Hrw; rewrite or_at_length; apply H; right; exact Hrw).
    unfold or_at. cbn [fst snd]. rewrite set_nthN_nthN by (apply (H (r0, w)); left; reflexivity).
    rewrite (N.eqb_sym r0 r). destruct (r =? r0) eqn:E; cbn [andb orb].
    + apply N.eqb_eq in E. subst r0. rewrite N.lor_spec, orb_assoc. reflexivity.
    + reflexivity.
Qed.

Lemma fold_or_at_rows : forall K M M' cs,
  (forall rw, In rw cs -> fst rw < N.of_nat K) ->
  (forall r c, r < N.of_nat K ->
     N.testbit (M' r) c = N.testbit (M r) c || existsb (fun rw => (fst rw =? r) && N.testbit (snd rw) c) cs) ->
  fold_left or_at cs (rows_of M K) = rows_of M' K.
Proof.
  intros K M M' cs Hr Hb. apply list_eq_bits; [rewrite fold_or_at_length, !rows_of_length; reflexivity|].
  intros r c Hlt. rewrite fold_or_at_length, rows_of_length in Hlt.
  rewrite fold_or_at_bits by (rewrite rows_of_length; exact Hr).
  rewrite !nthN_rows_of by exact Hlt. symmetry. apply Hb. exact Hlt.
Qed.

(* ---------- indexed lists ---------- *)
Lemma indexed_from_In : forall (l : list N) i0 i x,
  In (i, x) (indexed_from i0 l) <-> (i0 <= i) /\ (i < i0 + N.of_nat (length l)) /\ (nthN l (i - i0) 0 = x).
Proof.
  induction l as [|a l IH]; intros i0 i x; cbn [indexed_from In length].
  - split; [tauto|]. intros [H1 [H2 _]]. lia.
  - rewrite IH. split.
    + intros [E|[H1 [H2 H3]]].
      * injection E as <- <-. split; [lia|]. split; [lia|]. rewrite N.sub_diag. reflexivity.
      * split; [lia|]. split; [lia|]. unfold nthN in *.
        replace (N.to_nat (i - i0)) with (S (N.to_nat (i - (i0 + 1)))) by lia. exact H3.
    + intros [H1 [H2 H3]]. destruct (N.eq_dec i i0) as [->|Hne].
      * left. rewrite N.sub_diag in H3. cbn in H3. subst. reflexivity.
      * right. split; [lia|]. split; [lia|]. unfold nthN in *.
        replace (N.to_nat (i - i0)) with (S (N.to_nat (i - (i0 + 1)))) in H3 by lia. exact H3.
Qed.

Lemma indexed_In : forall (l : list N) i x,
  In (i, x) (indexed l) <-> (i < N.of_nat (length l)) /\ (nthN l i 0 = x).
Proof.
  intros l i x. unfold indexed. rewrite indexed_from_In, N.sub_0_r. split; [intros [_ [H1 H2]]|intros [H1 H2]]; repeat split; try assumption; lia.
Qed.

(* existsb over the folded contributions of an indexed list *)
Lemma existsb_indexed : forall (l : list N) (g : N -> N) (f : N -> N) r c,
  existsb (fun rw => (fst rw =? r) && N.testbit (snd rw) c) (map (fun iw => (g (fst iw), f (snd iw))) (indexed l)) = true <->
  exists i, i < N.of_nat (length l) /\ g i = r /\ N.testbit (f (nthN l i 0)) c = true.
Proof.
  intros l g f r c. rewrite existsb_exists. split.
  - intros [[r0 w] [Hin Hb]]. apply in_map_iff in Hin. destruct Hin as [[i x] [E Hin]]. cbn [fst snd] in *.
    injection E as <- <-. apply indexed_In in Hin. destruct Hin as [H1 H2].
    apply andb_true_iff in Hb. destruct Hb as [Hb1 Hb2]. apply N.eqb_eq in Hb1.
    exists i. rewrite H2. repeat split; assumption.
  - intros [i [H1 [H2 H3]]]. exists (g i, f (nthN l i 0)). split.
    + apply in_map_iff. exists (i, nthN l i 0). split; [reflexivity|]. apply indexed_In. split; [exact H1|reflexivity].
    + cbn [fst snd]. rewrite H2, N.eqb_refl, H3. reflexivity.
Qed.

(* ---------- a stream of pairs applied to an arbitrary matrix ---------- *)
Lemma fold_spec_update_bit : forall cs M r c,
  N.testbit (fold_left spec_update cs M r) c =
  N.testbit (M r) c || existsb (fun x => (r =? x / 64) && (c =? x mod 64)) cs.
Proof.
  induction cs as [|x cs IH]; intros M r c; cbn [fold_left existsb].
  - rewrite orb_false_r. reflexivity.
  - rewrite IH, spec_update_bit, orb_assoc. reflexivity.
Qed.

Lemma Mw64_fold_update : forall lg cs M, Mw64 lg M -> Mw64 lg (fold_left spec_update cs M).
Proof.
  intros lg cs M H r Hr c Hc. rewrite fold_spec_update_bit, (H r Hr c Hc). cbn [orb].
  apply not_true_is_false. intros E. apply existsb_exists in E. destruct E as [x [_ E]]. lia.
Qed.

(* ---------- masking a pair to a smaller K ---------- *)
Lemma mask_pair : forall lg rc, (rc mod 2 ^ (lg + 6)) / 64 = (rc / 64) mod 2 ^ lg /\ (rc mod 2 ^ (lg + 6)) mod 64 = rc mod 64.
Proof.
  intros lg rc. pose proof (pow_pos lg) as HK. rewrite N.pow_add_r. change (2 ^ 6) with 64.
  rewrite (N.mul_comm (2 ^ lg) 64), N.mod_mul_r by lia.
  set (a := rc mod 64). set (b := (rc / 64) mod 2 ^ lg).
  assert (a < 64) by (unfold a; apply N.mod_lt; lia).
  split; [|]; lia.
Qed.

Lemma land63 : forall x, N.land x 63 = x mod 64.
Proof. intros x. change 63 with (N.ones 6). rewrite N.land_ones. reflexivity. Qed.
