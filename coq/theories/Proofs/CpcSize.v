(* C18 (CPC part): deterministic size facts of a CPC image. *)
From DS Require Import Base.Prelude Base.Bytes Model.Cpc Model.CpcFrame Model.CpcCodec Spec.CpcLayout Proofs.CpcLayoutProofs Proofs.CpcCodec.
From Coq Require Import ZifyBool ZifyNat ZifyN.
Ltac Zify.zify_post_hook ::= Z.div_mod_to_equations.
Open Scope N_scope.

Lemma preamble_ints_le_10 : forall num hip tab win, 2 <= make_preamble_ints num hip tab win <= 10.
Proof.
  intros num hip tab win. unfold make_preamble_ints. sconsts.
  destruct (0 <? num), hip, tab, win; cbn; lia.
Qed.

Lemma flat_le4_length : forall ws, length (flat_map (le_bytes 4) ws) = (4 * length ws)%nat.
Proof. exact enc_words_length. Qed.

(* the image is exactly 4 * (preamble ints + window words + table words) bytes *)
Theorem frame_length : forall s sh kxp hip c,
  (c_num s = 0 <-> cp_table c = None /\ cp_window c = None) ->
  N.of_nat (length (cpc_frame s sh kxp hip c)) =
  4 * (make_preamble_ints (c_num s) (negb (c_merge s))
         (match cp_table c with Some _ => true | None => false end)
         (match cp_window c with Some _ => true | None => false end)
       + N.of_nat (length (match cp_window c with Some w => w | None => [] end))
       + N.of_nat (length (match cp_table c with Some (_, w) => w | None => [] end))).
Proof.
  intros s sh kxp hip [tab win] Hemp. cbn [cp_table cp_window] in *.
  unfold cpc_frame, cpc_is_empty, write_hip. cbn [cp_table cp_window].
  unfold make_preamble_ints. sconsts.
  destruct (c_num s =? 0) eqn:EC.
  - assert (H0 : c_num s = 0) by lia. destruct (proj1 Hemp H0) as [-> ->].
    assert (0 <? c_num s = false) as -> by lia.
    cbn [app length]. rewrite !app_length, !le_bytes_length. cbn [length]. lia.
  - assert (0 <? c_num s = true) as -> by lia.
    destruct tab as [[n tw]|]; destruct win as [ww|]; destruct (c_merge s); cbn [negb andb app length];
      rewrite ?app_length, ?le_bytes_length, ?flat_le4_length; cbn [length]; try lia;
      exfalso; assert (c_num s = 0) by (apply Hemp; split; reflexivity); lia.
Qed.

(* a window stream of K bytes takes between K and 12 K bits before its 11 bits of padding, hence at most
   ceil((12 K + 11) / 32) words: safe_length_for_compressed_window_buf never overflows *)
Theorem window_stream_words : forall p bytes, p < 22 -> Forall (fun b => b < 256) bytes ->
  (huff_bits p bytes + 11 + 31) / 32 <= (12 * N.of_nat (length bytes) + 11 + 31) / 32.
Proof.
  intros p bytes Hp HF. destruct (huffman_stream_bits p bytes Hp HF) as [_ H].
  apply N.div_le_mono; lia.
Qed.

(* ---------- the max_serialized_bytes table ---------- *)
(* The 16 empirical entries cannot be derived; what can be checked is their shape: sizes grow with K but less
   than proportionally (the streams double, the header does not), never exceed the 12-bits-per-window-byte
   ceiling 1.5 K, and meet the 0.6 K rule used beyond lg_k = 19 within 0.1 %. *)
Definition size_entry (i : N) : N := zN (nth (N.to_nat i) Gen.GenCpc.EMPIRICAL_MAX_SIZE_BYTES 0%Z).

Definition size_table_ok : bool :=
  (N.of_nat (length Gen.GenCpc.EMPIRICAL_MAX_SIZE_BYTES) =? 16) &&
  forallb (fun i => (size_entry i <? size_entry (i + 1)) && (size_entry (i + 1) <? 2 * size_entry i)) (range 15) &&
  forallb (fun i => (1 <=? size_entry i) && (8 * size_entry i <=? 12 * 2 ^ (i + 4))) (range 16) &&
  (1000 * (5 * size_entry 15 - 3 * 2 ^ 19) <=? 3 * 2 ^ 19) && (3 * 2 ^ 19 <=? 5 * size_entry 15).

Lemma size_table_ok_true : size_table_ok = true.
Proof. vm_compute. reflexivity. Qed.

Theorem max_size_table_shape :
  length Gen.GenCpc.EMPIRICAL_MAX_SIZE_BYTES = 16%nat /\
  (forall i, i < 15 -> size_entry i < size_entry (i + 1) < 2 * size_entry i) /\
  (forall i, i < 16 -> 1 <= size_entry i /\ 8 * size_entry i <= 12 * 2 ^ (i + 4)) /\
  3 * 2 ^ 19 <= 5 * size_entry 15 /\ 1000 * (5 * size_entry 15 - 3 * 2 ^ 19) <= 3 * 2 ^ 19.
Proof.
  pose proof size_table_ok_true as H. unfold size_table_ok in H.
  apply andb_true_iff in H. destruct H as [H H5]. apply andb_true_iff in H. destruct H as [H H4].
  apply andb_true_iff in H. destruct H as [H H3]. apply andb_true_iff in H. destruct H as [H1 H2].
  split; [lia|]. split.
  { intros i Hi. rewrite forallb_forall in H2. specialize (H2 i (proj2 (range_In 15 i) Hi)). lia. }
  split.
  { intros i Hi. rewrite forallb_forall in H3. specialize (H3 i (proj2 (range_In 16 i) Hi)). lia. }
  lia.
Qed.

(* max_serialized_bytes is defined and strictly increasing over the whole range lg_k 4..=26, across the switch
   from the table to the 0.6 K rule (binary64 product truncated to an integer) *)
Definition max_size_mono_ok : bool :=
  forallb (fun l => match max_serialized_bytes l, max_serialized_bytes (l + 1) with
                    | Ok a, Ok b => (a <? b) && (b <? 2 * a)
                    | _, _ => false end) (map (fun i => i + 4) (range 22)).

Lemma max_size_mono_ok_true : max_size_mono_ok = true.
Proof. vm_compute. reflexivity. Qed.

Theorem max_serialized_bytes_monotone : forall l, 4 <= l <= 25 ->
  exists a b, max_serialized_bytes l = Ok a /\ max_serialized_bytes (l + 1) = Ok b /\ a < b < 2 * a.
Proof.
  intros l Hl. pose proof max_size_mono_ok_true as H. unfold max_size_mono_ok in H.
  rewrite forallb_forall in H.
  assert (Hin : In l (map (fun i => i + 4) (range 22))).
  { apply in_map_iff. exists (l - 4). split; [lia|]. apply range_In. lia. }
  specialize (H l Hin).
  destruct (max_serialized_bytes l) as [a| |]; try discriminate.
  destruct (max_serialized_bytes (l + 1)) as [b| |]; try discriminate.
  exists a, b. repeat split; lia.
Qed.
