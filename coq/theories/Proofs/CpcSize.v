(* C18 (CPC part): deterministic size facts of a CPC image. *)
From DS Require Import Base.Prelude Base.Bytes Model.Cpc Model.CpcFrame Model.CpcCodec Spec.CpcLayout Proofs.CpcLayoutProofs Proofs.CpcCodec.
From Coq Require Import ZifyBool ZifyNat ZifyN.
Ltac Zify.zify_post_hook ::= Z.div_mod_to_equations.
Open Scope N_scope.

Lemma preamble_ints_le_10 : forall num hip tab win, 2 <= make_preamble_ints num hip tab win <= 10.
Proof.
  intros num hip tab win. unfold make_preamble_ints. sconsts.
  destruct (0 <? num), hip, tab, win; cbn; lia.
Qed.

Lemma flat_le4_length : forall ws, length (flat_map (le_bytes 4) ws) = (4 * length ws)%nat.
Proof. exact enc_words_length. Qed.

(* the image is exactly 4 * (preamble ints + window words + table words) bytes *)
Theorem frame_length : forall s sh kxp hip c,
  (c_num s = 0 <-> cp_table c = None /\ cp_window c = None) ->
  N.of_nat (length (cpc_frame s sh kxp hip c)) =
  4 * (make_preamble_ints (c_num s) (negb (c_merge s))
         (match cp_table c with Some _ => true | None => false end)
         (match cp_window c with Some _ => true | None => false end)
       + N.of_nat (length (match cp_window c with Some w => w | None => [] end))
       + N.of_nat (length (match cp_table c with Some (_, w) => w | None => [] end))).
Proof.
  intros s sh kxp hip [tab win] Hemp. cbn [cp_table cp_window] in *.
  unfold cpc_frame, cpc_is_empty, write_hip. cbn [cp_table cp_window].
  unfold make_preamble_ints. sconsts.
  destruct (c_num s =? 0) eqn:EC.
  - assert (H0 : c_num s = 0) by lia. destruct (proj1 Hemp H0) as [-> ->].
    assert (0 <? c_num s = false) as -> by lia.
    cbn [app length]. rewrite !app_length, !le_bytes_length. cbn [length]. lia.
  - assert (0 <? c_num s = true) as -> by lia.
    destruct tab as [[n tw]|]; destruct win as [ww|]; destruct (c_merge s); cbn [negb andb app length];
      rewrite ?app_length, ?le_bytes_length, ?flat_le4_length; cbn [length]; try lia;
      exfalso; assert (c_num s = 0) by (apply Hemp; split; reflexivity); lia.
Qed.

(* a window stream of K bytes takes between K and 12 K bits before its 11 bits of padding, hence at most
   ceil((12 K + 11) / 32) words: safe_length_for_compressed_window_buf never overflows *)
Theorem window_stream_words : forall p bytes, p < 22 -> Forall (fun b => b < 256) bytes ->
  (huff_bits p bytes + 11 + 31) / 32 <= (12 * N.of_nat (length bytes) + 11 + 31) / 32.
Proof.
  intros p bytes Hp HF. destruct (huffman_stream_bits p bytes Hp HF) as [_ H].
  apply N.div_le_mono; lia.
Qed.
