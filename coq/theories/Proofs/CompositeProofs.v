(* C01, HLL out-of-order estimator: the binary search of hll/cubic_interpolation.rs (find_straddle) returns a straddling
   index for EVERY table and every non-NaN x inside the table's range, and the 18 translated composite x-arrays are
   finite, positive and strictly increasing (so the straddling index is unique and the interpolation nodes distinct). *)
From Coq Require Import ZArith NArith Reals Lia Lra Bool List.
From Coq Require Import Floats.
From Flocq Require Import Core IEEE754.BinarySingleNaN IEEE754.PrimFloat.
From DS Require Import Base.Prelude Base.FloatBits Base.FloatLemmas Model.HllEst Model.Bounds Model.Composite Proofs.BoundsProofs.
Import ListNotations.
Open Scope N_scope.

(* x <= y or y < x, for finite floats *)
Lemma leb_false_ltb : forall a b, fin a -> fin b -> PrimFloat.leb a b = false -> PrimFloat.ltb b a = true.
Proof.
  intros a b Fa Fb H. rewrite leb_equiv, (Bleb_correct _ _ _ _ Fa Fb) in H.
  rewrite ltb_equiv, (Bltb_correct _ _ _ _ Fb Fa).
  destruct (Rle_bool_spec (B2R (Prim2B a)) (B2R (Prim2B b))); [discriminate|]. apply Rlt_bool_true. assumption.
Qed.

Definition all_fin (xs : list PF.float) : Prop := forall i, i < N.of_nat (length xs) -> fin (HllEst.fnth xs i).

(* the loop invariant of recursive_find_straddle: xs[left] <= x < xs[right], left < right <= last *)
Lemma straddle_rec : forall fuel xs x left right, all_fin xs -> fin x ->
  left < right -> right < N.of_nat (length xs) -> (N.to_nat (right - left) <= fuel)%nat ->
  PrimFloat.leb (HllEst.fnth xs left) x = true -> PrimFloat.ltb x (HllEst.fnth xs right) = true ->
  let i := recursive_find_straddle fuel xs left right x in
  left <= i /\ i < right /\ PrimFloat.leb (HllEst.fnth xs i) x = true /\ PrimFloat.ltb x (HllEst.fnth xs (i + 1)) = true.
Proof.
  induction fuel as [|f IH]; intros xs x left right Hf Fx Hlr Hr Hfuel Hl Hrt; [lia|].
  cbn [recursive_find_straddle]. destruct (left + 1 =? right) eqn:E.
  - apply N.eqb_eq in E. subst right. repeat split; try lia; assumption.
  - apply N.eqb_neq in E. set (middle := left + (right - left) / 2).
    assert (Hm : left < middle < right).
    { unfold middle. assert (2 <= right - left) by lia. pose proof (N.div_str_pos (right - left) 2 ltac:(lia)).
      pose proof (N.div_lt (right - left) 2 ltac:(lia) ltac:(lia)). lia. }
    destruct (PrimFloat.leb (HllEst.fnth xs middle) x) eqn:Em.
    + destruct (IH xs x middle right Hf Fx ltac:(lia) Hr ltac:(lia) Em Hrt) as (A & B & C & D).
      repeat split; try lia; assumption.
    + assert (Hlt : PrimFloat.ltb x (HllEst.fnth xs middle) = true).
      { apply leb_false_ltb; [apply Hf; lia|exact Fx|exact Em]. }
      destruct (IH xs x left middle Hf Fx ltac:(lia) ltac:(lia) ltac:(lia) Hl Hlt) as (A & B & C & D).
      repeat split; try lia; assumption.
Qed.

Theorem find_straddle_correct : forall xs x, all_fin xs -> fin x -> (2 <= length xs)%nat ->
  PrimFloat.leb (HllEst.fnth xs 0) x = true -> PrimFloat.ltb x (HllEst.fnth xs (N.of_nat (length xs) - 1)) = true ->
  let i := find_straddle xs x in
  i + 1 < N.of_nat (length xs) /\
  PrimFloat.leb (HllEst.fnth xs i) x = true /\ PrimFloat.ltb x (HllEst.fnth xs (i + 1)) = true.
Proof.
  intros xs x Hf Fx Hlen Hl Hr. unfold find_straddle.
  destruct (straddle_rec (length xs) xs x 0 (N.of_nat (length xs) - 1) Hf Fx ltac:(lia) ltac:(lia) ltac:(lia) Hl Hr)
    as (A & B & C & D).
  repeat split; try lia; assumption.
Qed.

(* ---- the translated tables ---- *)
Fixpoint increasing (l : list PF.float) : bool :=
  match l with
  | a :: ((b :: _) as r) => PrimFloat.ltb a b && increasing r
  | _ => true
  end.
Definition table_ok (lgk : N) : bool :=
  let xs := X_ARRAY lgk in
  (length xs =? 257)%nat && forallb PrimFloat.is_finite xs && PrimFloat.ltb 0 (HllEst.fnth xs 0) && increasing xs &&
  PrimFloat.ltb 0 (Y_STRIDE lgk) && PrimFloat.is_finite (Y_STRIDE lgk).

Lemma composite_table_sweep : forallb table_ok (Nrange 4 18) = true.
Proof. vm_compute. reflexivity. Qed.

Theorem composite_tables_ok : forall lgk, 4 <= lgk <= 21 -> table_ok lgk = true.
Proof.
  intros lgk H. pose proof composite_table_sweep as S. rewrite forallb_forall in S.
  apply S. apply Nrange_In. lia.
Qed.

Lemma forallb_fnth : forall xs i, forallb PrimFloat.is_finite xs = true -> i < N.of_nat (length xs) ->
  PrimFloat.is_finite (HllEst.fnth xs i) = true.
Proof.
  intros xs i H Hi. rewrite forallb_forall in H. apply H. unfold HllEst.fnth. apply nth_In. lia.
Qed.

(* for every lg_k and every finite raw estimate inside the table: the index used by the interpolation straddles it *)
Theorem composite_straddle : forall lgk raw, 4 <= lgk <= 21 -> fin raw ->
  let xs := X_ARRAY lgk in
  PrimFloat.leb (HllEst.fnth xs 0) raw = true -> PrimFloat.ltb raw (HllEst.fnth xs 256) = true ->
  let i := find_straddle xs raw in
  i + 1 < 257 /\ PrimFloat.leb (HllEst.fnth xs i) raw = true /\ PrimFloat.ltb raw (HllEst.fnth xs (i + 1)) = true.
Proof.
  intros lgk raw H Fr xs Hl Hr.
  pose proof (composite_tables_ok lgk H) as T. unfold table_ok in T. fold xs in T.
  repeat (apply andb_prop in T; destruct T as [T ?]).
  apply Nat.eqb_eq in T.
  assert (Hf : all_fin xs). { intros i Hi. apply fin_of_bool. apply forallb_fnth; assumption. }
  pose proof (find_straddle_correct xs raw Hf Fr ltac:(lia) Hl) as F. rewrite T in F.
  change (N.of_nat 257 - 1) with 256 in F. apply F. exact Hr.
Qed.
