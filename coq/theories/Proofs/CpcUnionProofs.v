(* CpcUnion refines the OR-of-folded-matrices Spec (Proofs/CpcUnionSpec.v). *)
From DS Require Import Base.Prelude Model.Cpc Model.CpcUnion Proofs.CpcBits Proofs.CpcSpec Proofs.CpcProofs Proofs.CpcInv
  Proofs.CpcStep Proofs.CpcUpdate Proofs.CpcMain Proofs.CpcUnionSpec Proofs.CpcUnionLemmas.
From Coq Require Import ZifyBool ZifyNat ZifyN.
Ltac Zify.zify_post_hook ::= Z.div_mod_to_equations.
Open Scope N_scope.

Ltac uconsts :=
  change TS_FF with 255 in *; change TS_FF2 with 255 in *; change WT_MAXLGK with 26 in *; change WT_SH with 6 in *;
  change OT_SH with 6 in *; change OT_COLS with 63 in *; change (2 ^ 6) with 64 in *.

(* a valid union input / sketch: the C05 invariant plus 64-bit rows *)
Definition Vin (s : cpc) (lg : N) (M : matrix) : Prop := Inv lg s M /\ Mw64 lg M.

(* the union state [u] represents (lg, M) *)
Record Urep (u : cpcu) (lg : N) (M : matrix) : Prop := {
  ur_lgk : u_lgk u = lg;
  ur_range : 4 <= lg <= 26;
  ur_nomax : Mnomax lg M;
  ur_w64 : Mw64 lg M;
  ur_st : match u_st u with
          | UAcc s => Inv lg s M /\ windowed s = false
          | UMat m => m = rows_of M (Knat lg) /\ 3 * 2 ^ lg <= 32 * pop_rows M (Knat lg)
          end
}.

Lemma urep_ext : forall u lg M M', Urep u lg M -> mbelow (2 ^ lg) M M' -> Urep u lg M'.
Proof.
  intros u lg M M' [Hl Hrg Hnm H64 Hst] H. constructor; try assumption.
  - apply (Mnomax_ext lg M M' H Hnm).
  - apply (Mw64_ext lg M M' H H64).
  - destruct (u_st u) as [s|m].
    + destruct Hst as [I Hw]. split; [apply (inv_ext lg s M M' I H)|exact Hw].
    + destruct Hst as [E D]. split.
      * rewrite E. apply list_eq_bits; [rewrite !rows_of_length; reflexivity|].
        intros r c Hr. rewrite rows_of_length in Hr. rewrite !nthN_rows_of by exact Hr.
        rewrite (H r ltac:(rewrite <- Knat_N; exact Hr)). reflexivity.
      * rewrite <- (pop_rows_below (Knat lg) M M') by (rewrite Knat_N; exact H). exact D.
Qed.

Lemma pow_le_mono : forall a b, a <= b -> 2 ^ a <= 2 ^ b.
Proof. intros. apply N.pow_le_mono_r; lia. Qed.

Lemma Mnomax_mor : forall lg A B, Mnomax lg A -> Mnomax lg B -> Mnomax lg (mor A B).
Proof.
  intros lg A B HA HB r c Hr Hc Hb. rewrite mor_bit in Hb. apply orb_true_iff in Hb.
  destruct Hb as [Hb|Hb]; [apply (HA r c Hr Hc Hb)|apply (HB r c Hr Hc Hb)].
Qed.

Lemma Mnomax_mfold : forall lf lt M, lt <= lf -> lf <= 26 -> Mnomax lf M -> Mnomax lt (mfold lf lt M).
Proof.
  intros lf lt M Hl H26 HM r c Hr Hc Hb E.
  apply (mfold_bit_iff lf lt M r c Hl Hr) in Hb. destruct Hb as [r' [H1 [H2 H3]]].
  unfold U32MAX in E. assert (Er : r = 67108863) by lia. assert (Ec : c = 63) by lia.
  destruct (N.eq_dec lt 26) as [E26|N26].
  - assert (lf = 26) by lia. subst lt lf. rewrite N.mod_small in H2 by exact H1. subst r'.
    apply (HM r c H1 Hc H3). unfold U32MAX. lia.
  - pose proof (pow_le_mono lt 25 ltac:(lia)) as P. change (2 ^ 25) with 33554432 in P. lia.
Qed.

(* the bits of a sparse sketch are the members of its table *)
Lemma sparse_bits : forall lg s M tab, Inv lg s M -> windowed s = false -> c_table s = Some tab ->
  forall r c, r < 2 ^ lg -> c < 64 -> N.testbit (M r) c = memN (r * 64 + c) tab.
Proof.
  intros lg s M tab I Hw Ht r c Hr Hc. pose proof (inv_lgk lg s M I) as Hl.
  rewrite <- (rep_bits s M (inv_rep lg s M I)) by (rewrite ?Hl; assumption).
  unfold sk_bit, tlist. rewrite Hw, Ht. reflexivity.
Qed.

Lemma table_some : forall lg s M, Inv lg s M -> c_num s <> 0 -> exists tab, c_table s = Some tab.
Proof.
  intros lg s M I HC. destruct (c_table s) as [t|] eqn:E; [eexists; reflexivity|].
  pose proof (wf_tab s (rep_wf s M (inv_rep lg s M I)) E). contradiction.
Qed.

Lemma tab_facts : forall lg s M tab, Inv lg s M -> c_table s = Some tab ->
  NoDup tab /\ (forall x, In x tab -> x / 64 < 2 ^ lg) /\ (forall x, In x tab -> x <> U32MAX).
Proof.
  intros lg s M tab I Ht. pose proof (rep_wf s M (inv_rep lg s M I)) as W. pose proof (inv_lgk lg s M I) as Hl.
  assert (Htl : tlist s = tab) by (unfold tlist; rewrite Ht; reflexivity).
  rewrite <- Htl, <- Hl. split; [apply (wf_nodup s W)|]. split; [apply (wf_rows s W)|apply (wf_nomax s W)].
Qed.

(* bits contributed by the table of a sparse source, rows folded to 2^lg *)
Lemma sparse_fold_bit : forall lg lgi si Mi tab r c,
  Inv lgi si Mi -> Mw64 lgi Mi -> windowed si = false -> c_table si = Some tab -> lg <= lgi -> r < 2 ^ lg ->
  (N.testbit (mfold lgi lg Mi r) c = true <->
   exists rc, In rc tab /\ (rc / 64) mod 2 ^ lg = r /\ rc mod 64 = c).
Proof.
  intros lg lgi si Mi tab r c I H64 Hw Ht Hl Hr.
  destruct (tab_facts lgi si Mi tab I Ht) as [_ [Hrows _]].
  rewrite (mfold_bit_iff lgi lg Mi r c Hl Hr). split.
  - intros [r' [H1 [H2 H3]]].
    assert (Hc : c < 64). { destruct (N.lt_ge_cases c 64) as [L|L]; [exact L|]. rewrite (H64 r' H1 c L) in H3. discriminate. }
    rewrite (sparse_bits lgi si Mi tab I Hw Ht r' c H1 Hc) in H3. apply memN_In in H3.
    exists (r' * 64 + c). split; [exact H3|]. rewrite rc_div, rc_mod by exact Hc. split; [exact H2|reflexivity].
  - intros [rc [Hin [H2 H3]]]. exists (rc / 64). split; [apply Hrows; exact Hin|]. split; [exact H2|].
    assert (Hc : c < 64) by lia.
    rewrite (sparse_bits lgi si Mi tab I Hw Ht (rc / 64) c (Hrows rc Hin) Hc). apply memN_In.
    rewrite <- H3, rc_recompose. exact Hin.
Qed.

(* ---------- walk_table_updating_sketch ---------- *)
(* pairs drawn from the set bits of B, offered to a sketch of A in any order and any multiplicity, never make its
   surprising-value table outgrow its capacity (the order in which a source table is walked is layout-dependent) *)
Definition fits_any (lg : N) (A B : matrix) : Prop :=
  forall l, (forall x, In x l -> x / 64 < 2 ^ lg /\ N.testbit (B (x / 64)) (x mod 64) = true) -> fits_stream lg A l.

Lemma walk_ok : forall lg acc A si lgi Mi tab,
  Inv lg acc A -> Inv lgi si Mi -> Mw64 lgi Mi -> windowed si = false -> c_table si = Some tab -> lg <= lgi ->
  8 * pop_rows (mor A (mfold lgi lg Mi)) (Knat lg) < 475 * 2 ^ lg ->
  fits_any lg A (mfold lgi lg Mi) ->
  exists acc', walk_table_updating_sketch acc tab = Ok acc' /\ Inv lg acc' (mor A (mfold lgi lg Mi)).
Proof.
  intros lg acc A si lgi Mi tab IA I H64 Hw Ht Hl Hdom Hfa.
  pose proof (inv_lgk lg acc A IA) as Hla. pose proof (inv_range lg acc A IA) as Hrg.
  pose proof (inv_range lgi si Mi I) as Hrgi.
  destruct (tab_facts lgi si Mi tab I Ht) as [_ [Hrows Hnomax]].
  pose proof (pow_pos lg) as HK.
  unfold walk_table_updating_sketch. uconsts. rewrite Hla.
  assert (lg <=? 26 = true) as -> by lia. cbn [negb].
  set (items := map (fun rc => rc mod 2 ^ (lg + 6)) tab).
  assert (HF : Forall (valid lg) items).
  { apply Forall_forall. intros x Hx. apply in_map_iff in Hx. destruct Hx as [rc [<- Hin]].
    destruct (mask_pair lg rc) as [E1 E2]. split.
    - rewrite E1. apply N.mod_lt. lia.
    - intros E. assert (Ed : (rc / 64) mod 2 ^ lg = 67108863) by (rewrite <- E1, E; reflexivity).
      pose proof (N.mod_lt (rc / 64) (2 ^ lg) ltac:(lia)) as Hm.
      destruct (N.eq_dec lg 26) as [E26|N26].
      + assert (lgi = 26) by lia. subst lgi. rewrite E26 in *. pose proof (Hrows rc Hin) as Hr.
        rewrite N.mod_small in Ed by exact Hr. apply (Hnomax rc Hin). unfold U32MAX in *.
        change (2 ^ (26 + 6)) with 4294967296 in E. change (2 ^ 26) with 67108864 in Hr.
        rewrite N.mod_small in E by lia. exact E.
      + pose proof (pow_le_mono lg 25 ltac:(lia)) as P. change (2 ^ 25) with 33554432 in P. lia. }
  assert (HB : mbelow (2 ^ lg) (fold_left spec_update items A) (mor A (mfold lgi lg Mi))).
  { apply mbelow_bits. intros r c Hr. rewrite fold_spec_update_bit, mor_bit. f_equal.
    apply bool_eq_iff. rewrite (sparse_fold_bit lg lgi si Mi tab r c I H64 Hw Ht Hl Hr), existsb_exists. split.
    - intros [x [Hx Hb]]. apply in_map_iff in Hx. destruct Hx as [rc [<- Hin]].
      destruct (mask_pair lg rc) as [E1 E2]. rewrite E1, E2 in Hb. exists rc. split; [exact Hin|]. lia.
    - intros [rc [Hin [H2 H3]]]. exists (rc mod 2 ^ (lg + 6)). split; [exact (in_map (fun rc => rc mod 2 ^ (lg + 6)) tab rc Hin)|].
      destruct (mask_pair lg rc) as [E1 E2]. rewrite E1, E2. lia. }
  destruct (run_inv lg items acc A IA HF) as [acc' [E I']].
  { rewrite (pop_rows_below (Knat lg) _ _ ltac:(rewrite Knat_N; exact HB)). exact Hdom. }
  { apply Hfa. intros x Hx. apply in_map_iff in Hx. destruct Hx as [rc [<- Hin]].
    destruct (mask_pair lg rc) as [E1 E2]. rewrite E1, E2.
    assert (Hr : (rc / 64) mod 2 ^ lg < 2 ^ lg) by (apply N.mod_lt; lia). split; [exact Hr|].
    apply (sparse_fold_bit lg lgi si Mi tab _ _ I H64 Hw Ht Hl Hr). exists rc. repeat split; assumption || reflexivity. }
  exists acc'. split; [exact E|]. apply (inv_ext lg acc' _ _ I' HB).
Qed.

(* ---------- flavors of a valid sketch ---------- *)
Lemma not_windowed : forall lg s M, Inv lg s M -> 32 * c_num s < 3 * 2 ^ lg -> windowed s = false.
Proof.
  intros lg s M I H. destruct (windowed s) eqn:E; [|reflexivity].
  pose proof (proj1 (inv_win lg s M I) E). lia.
Qed.

Lemma is_windowed : forall lg s M, Inv lg s M -> 3 * 2 ^ lg <= 32 * c_num s -> windowed s = true.
Proof. intros lg s M I H. apply (inv_win lg s M I). exact H. Qed.

Lemma flavor_facts : forall lg s M, Inv lg s M ->
  (cpc_flavor s = EMPTY /\ c_num s = 0) \/
  (cpc_flavor s = SPARSE /\ c_num s <> 0 /\ windowed s = false /\ 32 * c_num s < 3 * 2 ^ lg) \/
  ((cpc_flavor s = HYBRID \/ cpc_flavor s = PINNED) /\ c_num s <> 0 /\ windowed s = true /\ c_off s = 0 /\ 3 * 2 ^ lg <= 32 * c_num s) \/
  (cpc_flavor s = SLIDING /\ c_num s <> 0 /\ windowed s = true /\ 3 * 2 ^ lg <= 32 * c_num s).
Proof.
  intros lg s M I. pose proof (inv_lgk lg s M I) as Hl. pose proof (pow_pos lg) as HK.
  pose proof (inv_off lg s M I) as Hoff.
  unfold cpc_flavor, determine_flavor, EMPTY, SPARSE, HYBRID, PINNED, SLIDING. consts. rewrite Hl.
  destruct (c_num s =? 0) eqn:E0; [left; split; [reflexivity|lia]|right].
  destruct (c_num s * 32 <? 3 * 2 ^ lg) eqn:E1.
  { left. split; [reflexivity|]. split; [lia|]. split; [apply (not_windowed lg s M I); lia|lia]. }
  right.
  assert (Hw : windowed s = true) by (apply (is_windowed lg s M I); lia).
  destruct (c_num s * 2 <? 2 ^ lg) eqn:E2.
  { left. split; [left; reflexivity|]. split; [lia|]. split; [exact Hw|]. split; [|lia].
    rewrite Hoff. apply coff_small. lia. }
  destruct (c_num s * 8 <? 27 * 2 ^ lg) eqn:E3.
  { left. split; [right; reflexivity|]. split; [lia|]. split; [exact Hw|]. split; [|lia].
    rewrite Hoff. unfold coff. destruct (8 * c_num s <? 19 * 2 ^ lg); [reflexivity|].
    apply N.div_small. lia. }
  right. split; [reflexivity|]. split; [lia|]. split; [exact Hw|lia].
Qed.

(* ---------- OR-ing a source into a matrix: cases B, C, D ---------- *)
Lemma repeat_zero_rows : forall n, repeat 0 n = rows_of mzero n.
Proof.
  intros n. apply list_eq_bits; [rewrite repeat_length, rows_of_length; reflexivity|].
  intros r c Hr. rewrite repeat_length in Hr. rewrite nthN_repeat0, nthN_rows_of by exact Hr. reflexivity.
Qed.

Lemma or_matrix_ok : forall lg M1 lgi Mi, lg <= lgi ->
  or_matrix_into_matrix (rows_of M1 (Knat lg)) lg (rows_of Mi (Knat lgi)) lgi =
  Ok (rows_of (mor M1 (mfold lgi lg Mi)) (Knat lg)).
Proof.
  intros lg M1 lgi Mi Hl. pose proof (pow_pos lg) as HK. unfold or_matrix_into_matrix.
  assert (lg <=? lgi = true) as -> by lia. cbn [negb].
  rewrite rows_of_length, Knat_N, N.eqb_refl. cbn [negb]. f_equal.
  apply fold_or_at_rows.
  - intros rw Hin. apply in_map_iff in Hin. destruct Hin as [[i w] [<- _]]. cbn [fst]. rewrite Knat_N. apply N.mod_lt. lia.
  - intros r c Hr. rewrite Knat_N in Hr. rewrite mor_bit. f_equal. apply bool_eq_iff.
    rewrite (mfold_bit_iff lgi lg Mi r c Hl Hr).
    rewrite (existsb_indexed (rows_of Mi (Knat lgi)) (fun i => i mod 2 ^ lg) (fun w => w) r c).
    rewrite rows_of_length, Knat_N. split.
    + intros [r' [H1 [H2 H3]]]. exists r'. rewrite nthN_rows_of by (rewrite Knat_N; exact H1). repeat split; assumption.
    + intros [i [H1 [H2 H3]]]. exists i. rewrite nthN_rows_of in H3 by (rewrite Knat_N; exact H1). repeat split; assumption.
Qed.

Lemma or_sketch_ok : forall lg M1 si lgi Mi,
  Inv lgi si Mi -> Mw64 lgi Mi -> lg <= lgi -> c_num si <> 0 ->
  or_sketch_into_matrix (rows_of M1 (Knat lg)) lg si = Ok (rows_of (mor M1 (mfold lgi lg Mi)) (Knat lg)).
Proof.
  intros lg M1 si lgi Mi I H64 Hl HC. pose proof (pow_pos lg) as HK.
  pose proof (inv_lgk lgi si Mi I) as Hli. pose proof (rep_wf si Mi (inv_rep lgi si Mi I)) as W.
  destruct (table_some lgi si Mi I HC) as [tab Ht].
  destruct (tab_facts lgi si Mi tab I Ht) as [_ [Hrows _]].
  unfold or_sketch_into_matrix. rewrite Ht.
  destruct (flavor_facts lgi si Mi I) as [[Hf H0]|[[Hf [_ [Hw _]]]|[[Hf [_ [Hw [Hoff _]]]]|[Hf [_ [Hw _]]]]]].
  - contradiction.
  - (* case B: sparse source *)
    rewrite Hf. change (SPARSE =? SPARSE) with true. cbv iota. f_equal.
    unfold or_table_into_matrix. uconsts. apply fold_or_at_rows.
    + intros rw Hin. apply in_map_iff in Hin. destruct Hin as [rc [<- _]]. cbn [fst]. rewrite Knat_N. apply N.mod_lt. lia.
    + intros r c Hr. rewrite Knat_N in Hr. rewrite mor_bit. f_equal. apply bool_eq_iff.
      rewrite (sparse_fold_bit lg lgi si Mi tab r c I H64 Hw Ht Hl Hr), existsb_exists. split.
      * intros [rc [Hin [H2 H3]]]. exists ((rc / 64) mod 2 ^ lg, 2 ^ N.land rc 63). split.
        -- apply in_map_iff. exists rc. split; [reflexivity|exact Hin].
        -- cbn [fst snd]. rewrite H2, N.eqb_refl, N.pow2_bits_eqb, land63, H3, N.eqb_refl. reflexivity.
      * intros [[r0 w] [Hin Hb]]. apply in_map_iff in Hin. destruct Hin as [rc [E Hin]]. injection E as <- <-.
        cbn [fst snd] in Hb. rewrite N.pow2_bits_eqb, land63 in Hb. exists rc. split; [exact Hin|]. lia.
  - (* case C: hybrid / pinned source: window at offset 0 plus surprising ones *)
    assert (E1 : (cpc_flavor si =? SPARSE) = false) by (destruct Hf as [-> | ->]; reflexivity).
    assert (E2 : (cpc_flavor si =? HYBRID) || (cpc_flavor si =? PINNED) = true) by (destruct Hf as [-> | ->]; reflexivity).
    rewrite E1, E2. cbv iota.
    destruct (wf_win si W Hw) as [Hwlen Hwbytes]. rewrite Hli in Hwlen.
    unfold or_window_into_matrix. rewrite Hli, Hoff.
    assert (lg <=? lgi = true) as -> by lia. cbn [negb].
    rewrite Hwlen, Knat_N, N.eqb_refl. cbn [negb obind]. f_equal.
    unfold or_table_into_matrix. uconsts. rewrite <- fold_left_app.
    apply fold_or_at_rows.
    + intros rw Hin. apply in_app_iff in Hin. rewrite Knat_N. destruct Hin as [Hin|Hin]; apply in_map_iff in Hin.
      * destruct Hin as [[i w] [<- _]]. cbn [fst]. apply N.mod_lt. lia.
      * destruct Hin as [rc [<- _]]. cbn [fst]. apply N.mod_lt. lia.
    + intros r c Hr. rewrite Knat_N in Hr. rewrite mor_bit, existsb_app. f_equal. apply bool_eq_iff.
      rewrite orb_true_iff.
      rewrite (existsb_indexed (c_win si) (fun i => i mod 2 ^ lg) (fun b => N.shiftl b 0) r c), Hwlen, Knat_N.
      rewrite (mfold_bit_iff lgi lg Mi r c Hl Hr), existsb_exists.
      assert (Hsk : forall r' c', r' < 2 ^ lgi -> c' < 64 ->
                N.testbit (Mi r') c' = if c' <? 8 then N.testbit (nthN (c_win si) r' 0) c' else memN (r' * 64 + c') tab).
      { intros r' c' Hr' Hc'. rewrite <- (rep_bits si Mi (inv_rep lgi si Mi I)) by (rewrite ?Hli; assumption).
        rewrite (sk_bit_windowed si r' c' Hw), Hoff. unfold tlist. rewrite Ht.
        assert (c' <? 0 = false) as -> by lia. rewrite N.sub_0_r. reflexivity. }
      split.
      * intros [r' [H1 [H2 H3]]].
        assert (Hc : c < 64). { destruct (N.lt_ge_cases c 64) as [L|L]; [exact L|]. rewrite (H64 r' H1 c L) in H3. discriminate. }
        rewrite (Hsk r' c H1 Hc) in H3. destruct (c <? 8) eqn:E8.
        -- left. exists r'. rewrite N.shiftl_0_r. repeat split; assumption.
        -- right. apply memN_In in H3. exists ((r' * 64 + c) / 64 mod 2 ^ lg, 2 ^ N.land (r' * 64 + c) 63). split.
           ++ apply in_map_iff. exists (r' * 64 + c). split; [reflexivity|exact H3].
           ++ cbn [fst snd]. rewrite N.pow2_bits_eqb, land63, rc_div, rc_mod by exact Hc. rewrite H2, !N.eqb_refl. reflexivity.
      * intros [[i [H1 [H2 H3]]]|[[r0 w] [Hin Hb]]].
        -- rewrite N.shiftl_0_r in H3.
           assert (Hc : c < 8).
           { destruct (N.lt_ge_cases c 8) as [L|L]; [exact L|]. rewrite byte_bits_high in H3; [discriminate| |exact L].
             apply nthN_Forall; [exact Hwbytes|rewrite Hwlen, Knat_N; exact H1]. }
           exists i. split; [exact H1|]. split; [exact H2|]. rewrite (Hsk i c H1 ltac:(lia)).
           assert (c <? 8 = true) as -> by lia. exact H3.
        -- apply in_map_iff in Hin. destruct Hin as [rc [E Hin]]. injection E as <- <-. cbn [fst snd] in Hb.
           rewrite N.pow2_bits_eqb, land63 in Hb.
           assert (Hz : rc mod 64 < c_off si \/ c_off si + 8 <= rc mod 64).
           { apply (wf_zone si W Hw). unfold tlist. rewrite Ht. exact Hin. }
           rewrite Hoff in Hz.
           exists (rc / 64). split; [apply Hrows; exact Hin|]. split; [lia|].
           rewrite (Hsk (rc / 64) c (Hrows rc Hin) ltac:(lia)). assert (c <? 8 = false) as -> by lia.
           apply memN_In. replace c with (rc mod 64) by lia. rewrite rc_recompose. exact Hin.
  - (* case D: sliding source through its bit matrix *)
    rewrite Hf. change (SLIDING =? SPARSE) with false. change ((SLIDING =? HYBRID) || (SLIDING =? PINNED)) with false.
    change (SLIDING =? SLIDING) with true. cbv iota. cbn [negb].
    pose proof (build_rows si Mi (inv_rep lgi si Mi I)) as Hb. rewrite Hli in Hb. rewrite (Hb H64). cbn [obind].
    rewrite Hli. apply or_matrix_ok. exact Hl.
Qed.

(* ---------- density: folding keeps  32 C >= 3 K ---------- *)
Lemma dense_fold : forall lf lt M, lt <= lf -> 3 * 2 ^ lf <= 32 * pop_rows M (Knat lf) ->
  3 * 2 ^ lt <= 32 * pop_rows (mfold lf lt M) (Knat lt).
Proof.
  intros lf lt M Hl H. pose proof (pop_fold' lf lt M Hl) as P. rewrite (pow_split lf lt Hl) in H.
  pose proof (pow_pos (lf - lt)) as HF. nia.
Qed.

Lemma mfold_zero_below : forall lf lt M, lt <= lf -> pop_rows M (Knat lf) = 0 -> mbelow (2 ^ lt) (mfold lf lt M) mzero.
Proof.
  intros lf lt M Hl H0. apply mbelow_bits. intros r c Hr. unfold mzero. rewrite N.bits_0.
  apply not_true_is_false. intros E. apply (mfold_bit_iff lf lt M r c Hl Hr) in E. destruct E as [r' [H1 [_ H3]]].
  pose proof (pop_rows_zero_rows M (Knat lf) H0 (N.to_nat r') ltac:(unfold Knat; lia)) as Z.
  rewrite N2Nat.id in Z. rewrite Z, N.bits_0 in H3. discriminate.
Qed.

Lemma mor_zero_l : forall K B, mbelow K (mor mzero B) B.
Proof. intros K B r _. unfold mor, mzero. apply N.lor_0_l. Qed.

(* the accumulator after a walk: stays an accumulator while sparse, becomes a matrix otherwise *)
Lemma acc_or_matrix : forall lg s M, Inv lg s M -> Mw64 lg M -> c_num s <> 0 ->
  exists u, (if SPARSE <? cpc_flavor s then to_matrix_state lg s else Ok (mkU lg (UAcc s))) = Ok u /\ Urep u lg M.
Proof.
  intros lg s M I H64 HC. pose proof (inv_lgk lg s M I) as Hl. pose proof (inv_range lg s M I) as Hrg.
  pose proof (rep_num s M (inv_rep lg s M I)) as Hn. rewrite Hl in Hn.
  destruct (flavor_facts lg s M I) as [[Hf H0]|[[Hf [_ [Hw _]]]|[[Hf [_ [Hw [_ Hd]]]]|[Hf [_ [Hw Hd]]]]]].
  - contradiction.
  - rewrite Hf. change (SPARSE <? SPARSE) with false. eexists. split; [reflexivity|].
    constructor; cbn [u_lgk u_st]; try assumption; [reflexivity|apply (inv_nomax lg s M I)|split; assumption].
  - assert (E : SPARSE <? cpc_flavor s = true) by (destruct Hf as [-> | ->]; reflexivity). rewrite E.
    unfold to_matrix_state. pose proof (build_rows s M (inv_rep lg s M I)) as Hb. rewrite Hl in Hb. rewrite (Hb H64).
    cbn [obind]. eexists. split; [reflexivity|].
    constructor; cbn [u_lgk u_st]; try assumption; [reflexivity|apply (inv_nomax lg s M I)|]. split; [reflexivity|rewrite <- Hn; exact Hd].
  - rewrite Hf. change (SPARSE <? SLIDING) with true.
    unfold to_matrix_state. pose proof (build_rows s M (inv_rep lg s M I)) as Hb. rewrite Hl in Hb. rewrite (Hb H64).
    cbn [obind]. eexists. split; [reflexivity|].
    constructor; cbn [u_lgk u_st]; try assumption; [reflexivity|apply (inv_nomax lg s M I)|]. split; [reflexivity|rewrite <- Hn; exact Hd].
Qed.

(* ---------- reduce_k ---------- *)
Lemma reduce_k_ok : forall u lg M nl, Urep u lg M -> 4 <= nl -> nl < lg ->
  8 * pop_rows (mfold lg nl M) (Knat nl) < 475 * 2 ^ nl ->
  (32 * pop_rows M (Knat lg) < 3 * 2 ^ lg -> fits_any nl mzero (mfold lg nl M)) ->
  exists u', reduce_k u nl = Ok u' /\ Urep u' nl (mfold lg nl M).
Proof.
  intros u lg M nl [Hl Hrg Hnm H64 Hst] H4 Hlt Hdom Hfa.
  assert (Hnm' : Mnomax nl (mfold lg nl M)) by (apply Mnomax_mfold; [lia|lia|exact Hnm]).
  assert (H64' : Mw64 nl (mfold lg nl M)) by (apply Mw64_mfold; [lia|exact H64]).
  unfold reduce_k. destruct (u_st u) as [sk|m].
  - destruct Hst as [I Hw]. pose proof (inv_lgk lg sk M I) as Hlk.
    pose proof (rep_num sk M (inv_rep lg sk M I)) as Hn. rewrite Hlk in Hn.
    destruct (new_inv nl ltac:(lia)) as [s0 [E0 I0]]. rewrite E0. cbn [obind].
    unfold cpc_is_empty. destruct (c_num sk =? 0) eqn:EC.
    + (* empty accumulator *)
      eexists. split; [reflexivity|].
      assert (HB : mbelow (2 ^ nl) mzero (mfold lg nl M)).
      { apply mbelow_sym. apply mfold_zero_below; [lia|]. rewrite <- Hn. lia. }
      constructor; cbn [u_lgk u_st]; try assumption; [reflexivity|lia|].
      split; [apply (inv_ext nl s0 mzero _ I0 HB)|]. apply (not_windowed nl s0 mzero I0).
      pose proof (rep_num s0 mzero (inv_rep nl s0 mzero I0)) as Hn0. rewrite pop_rows_zero in Hn0. rewrite Hn0.
      pose proof (pow_pos nl). lia.
    + (* walk the old accumulator into a new, smaller sketch *)
      destruct (table_some lg sk M I ltac:(lia)) as [tab Ht]. rewrite Ht.
      destruct (walk_ok nl s0 mzero sk lg M tab I0 I H64 Hw Ht ltac:(lia)) as [ns' [Ew I']].
      { rewrite (pop_rows_below (Knat nl) _ (mfold lg nl M)) by (rewrite Knat_N; apply mor_zero_l). exact Hdom. }
      { apply Hfa. rewrite <- Hn. pose proof (inv_win lg sk M I) as Hwin.
        destruct (N.lt_ge_cases (32 * c_num sk) (3 * 2 ^ lg)) as [L|L]; [exact L|]. apply Hwin in L. congruence. }
      rewrite Ew. cbn [obind].
      assert (I'' : Inv nl ns' (mfold lg nl M)) by (apply (inv_ext nl ns' _ _ I'); apply mor_zero_l).
      assert (HC' : c_num ns' <> 0).
      { pose proof (rep_num ns' _ (inv_rep nl ns' _ I'')) as Hn'. rewrite (inv_lgk nl ns' _ I'') in Hn'.
        pose proof (pop_fold' lg nl M ltac:(lia)) as P. rewrite <- Hn, <- Hn' in P.
        intros Z. rewrite Z in P. lia. }
      destruct (acc_or_matrix nl ns' _ I'' H64' HC') as [u' [Eu Ru]].
      exists u'. split; [|exact Ru].
      destruct (flavor_facts nl ns' _ I'') as [[Hf H0]|[[Hf _]|[[Hf _]|[Hf _]]]].
      * contradiction.
      * rewrite Hf in *. exact Eu.
      * destruct Hf as [Hf|Hf]; rewrite Hf in *; exact Eu.
      * rewrite Hf in *. exact Eu.
  - destruct Hst as [Em Hd]. rewrite Em, repeat_zero_rows, Hl.
    change (N.to_nat (2 ^ nl)) with (Knat nl).
    rewrite (or_matrix_ok nl mzero lg M ltac:(lia)). cbn [obind]. eexists. split; [reflexivity|].
    apply (urep_ext _ nl (mor mzero (mfold lg nl M))); [|apply mor_zero_l].
    constructor; cbn [u_lgk u_st]; [reflexivity|lia| | |].
    + apply (Mnomax_ext nl (mfold lg nl M)); [apply mbelow_sym, mor_zero_l|exact Hnm'].
    + apply (Mw64_ext nl (mfold lg nl M)); [apply mbelow_sym, mor_zero_l|exact H64'].
    + split; [reflexivity|].
      rewrite (pop_rows_below (Knat nl) _ (mfold lg nl M)) by (rewrite Knat_N; apply mor_zero_l).
      apply dense_fold; [lia|exact Hd].
Qed.

(* ---------- update ---------- *)
Lemma matrix_path : forall lg M1 si lgi Mi,
  Inv lgi si Mi -> Mw64 lgi Mi -> lg <= lgi -> 4 <= lg -> c_num si <> 0 -> Mnomax lg M1 -> Mw64 lg M1 ->
  (3 * 2 ^ lg <= 32 * pop_rows M1 (Knat lg) \/ 3 * 2 ^ lgi <= 32 * c_num si) ->
  exists u', obind (or_sketch_into_matrix (rows_of M1 (Knat lg)) lg si) (fun m' => Ok (mkU lg (UMat m'))) = Ok u' /\
             Urep u' lg (mor M1 (mfold lgi lg Mi)).
Proof.
  intros lg M1 si lgi Mi I H64 Hl H4 HC Hnm1 H641 Hd.
  pose proof (inv_range lgi si Mi I) as Hrgi.
  rewrite (or_sketch_ok lg M1 si lgi Mi I H64 Hl HC). cbn [obind]. eexists. split; [reflexivity|].
  constructor; cbn [u_lgk u_st]; [reflexivity|lia| | |].
  - apply Mnomax_mor; [exact Hnm1|]. apply Mnomax_mfold; [exact Hl|lia|apply (inv_nomax lgi si Mi I)].
  - apply Mw64_mor; [exact H641|]. apply Mw64_mfold; [exact Hl|exact H64].
  - split; [reflexivity|]. destruct Hd as [Hd|Hd].
    + pose proof (pop_rows_mor_l M1 (mfold lgi lg Mi) (Knat lg)). lia.
    + pose proof (rep_num si Mi (inv_rep lgi si Mi I)) as Hn. rewrite (inv_lgk lgi si Mi I) in Hn. rewrite Hn in Hd.
      pose proof (dense_fold lgi lg Mi Hl Hd). pose proof (pop_rows_mor_r M1 (mfold lgi lg Mi) (Knat lg)). lia.
Qed.

Lemma in_empty_num : forall lg s M, Inv lg s M -> in_empty (lg, M) = (c_num s =? 0).
Proof.
  intros lg s M I. unfold in_empty. cbn [fst snd].
  rewrite (rep_num s M (inv_rep lg s M I)), (inv_lgk lg s M I). reflexivity.
Qed.

(* the two table walks an update can contain stay within the table capacity, whatever their order:
   reduce_k re-inserting a non-empty sparse accumulator into a smaller sketch, and case A merging a sparse source
   into the (sparse) accumulator.  Nothing is required when the union already holds a bit matrix. *)
Definition ustep_fits (lg : N) (M : matrix) (lgi : N) (Mi : matrix) : Prop :=
  (lgi < lg -> 32 * pop_rows M (Knat lg) < 3 * 2 ^ lg -> fits_any lgi mzero (mfold lg lgi M)) /\
  (32 * pop_rows Mi (Knat lgi) < 3 * 2 ^ lgi ->
   32 * pop_rows (mfold lg (N.min lg lgi) M) (Knat (N.min lg lgi)) < 3 * 2 ^ N.min lg lgi ->
   fits_any (N.min lg lgi) (mfold lg (N.min lg lgi) M) (mfold lgi (N.min lg lgi) Mi)).

Theorem union_update_ok : forall u lg M si lgi Mi,
  Urep u lg M -> Vin si lgi Mi ->
  8 * pop_rows (snd (uspec_step (lg, M) (lgi, Mi))) (Knat (fst (uspec_step (lg, M) (lgi, Mi)))) <
    475 * 2 ^ fst (uspec_step (lg, M) (lgi, Mi)) ->
  ustep_fits lg M lgi Mi ->
  exists u', union_update u si = Ok u' /\
             Urep u' (fst (uspec_step (lg, M) (lgi, Mi))) (snd (uspec_step (lg, M) (lgi, Mi))).
Proof.
  intros u lg M si lgi Mi U [I H64i] Hdom [Hfr Hfa].
  pose proof (inv_lgk lgi si Mi I) as Hli. pose proof (inv_range lgi si Mi I) as Hrgi.
  pose proof (ur_lgk u lg M U) as Hlu. pose proof (ur_range u lg M U) as Hrg.
  unfold uspec_step in *. rewrite (in_empty_num lgi si Mi I) in *. cbn [fst snd] in *.
  unfold union_update.
  destruct (c_num si =? 0) eqn:EC.
  { (* empty source: ignored *)
    destruct (flavor_facts lgi si Mi I) as [[Hf _]|[[_ [H _]]|[[_ [H _]]|[_ [H _]]]]]; try lia.
    rewrite Hf. change (EMPTY =? EMPTY) with true. exists u. split; [reflexivity|exact U]. }
  cbn [fst snd] in *.
  set (lg' := N.min lg lgi) in *.
  set (M1 := mfold lg lg' M) in *. set (B := mfold lgi lg' Mi) in *.
  assert (HC : c_num si <> 0) by lia.
  assert (Hne : (cpc_flavor si =? EMPTY) = false).
  { destruct (flavor_facts lgi si Mi I) as [[_ H]|[[Hf _]|[[[Hf|Hf] _]|[Hf _]]]]; try lia; rewrite Hf; reflexivity. }
  rewrite Hne, Hli, Hlu.
  (* step 1: reduce_k *)
  assert (S1 : exists u1, (if lgi <? lg then reduce_k u lgi else Ok u) = Ok u1 /\ Urep u1 lg' M1).
  { destruct (lgi <? lg) eqn:El.
    - assert (E : lg' = lgi) by (unfold lg'; lia).
      pose proof (pop_rows_mor_l M1 B (Knat lg')) as P.
      assert (D1 : 8 * pop_rows M1 (Knat lg') < 475 * 2 ^ lg') by lia.
      unfold M1 in *. rewrite E in *. apply reduce_k_ok; [exact U|lia|lia|exact D1|].
      intros Hs. apply Hfr; [lia|exact Hs].
    - assert (E : lg' = lg) by (unfold lg'; lia). unfold M1. rewrite E in *.
      exists u. split; [reflexivity|]. apply (urep_ext u lg M); [exact U|]. apply mbelow_sym, mfold_id. }
  destruct S1 as [u1 [E1 U1]]. rewrite E1. cbn [obind].
  assert (Hl' : lg' <= lgi) by (unfold lg'; lia). assert (H4' : 4 <= lg') by (unfold lg'; lia).
  destruct U1 as [Hl1 Hrg1 Hnm1 H641 Hst1]. rewrite Hl1.
  pose proof (rep_num si Mi (inv_rep lgi si Mi I)) as Hni. rewrite Hli in Hni.
  destruct (flavor_facts lgi si Mi I) as [[_ H0]|[[Hf [_ [Hw Hsp]]]|[[Hf [_ [Hw [_ Hd]]]]|[Hf [_ [Hw Hd]]]]]].
  - contradiction.
  - (* sparse source: cases A and B *)
    rewrite Hf. change (SPARSE <? SPARSE) with false. cbn [obind]. rewrite Hl1.
    destruct (u_st u1) as [old|m].
    + destruct Hst1 as [Io Hwo]. unfold walk_sketch_into_accumulator. rewrite Hf. change (SPARSE =? SPARSE) with true. cbv iota.
      pose proof (rep_num old M1 (inv_rep lg' old M1 Io)) as Hno. rewrite (inv_lgk lg' old M1 Io) in Hno.
      destruct (table_some lgi si Mi I HC) as [tab Ht]. rewrite Ht, Hli.
      assert (Hwalk : exists u', obind (walk_table_updating_sketch old tab)
                 (fun old' => if SPARSE <? cpc_flavor old' then to_matrix_state lg' old' else Ok (mkU lg' (UAcc old'))) = Ok u' /\
                 Urep u' lg' (mor M1 B)).
      { assert (Hfa' : fits_any lg' M1 B).
        { apply Hfa; [rewrite <- Hni; exact Hsp|]. fold lg'. fold M1. rewrite <- Hno.
          pose proof (inv_win lg' old M1 Io) as Hwin'.
          destruct (N.lt_ge_cases (32 * c_num old) (3 * 2 ^ lg')) as [L|L]; [exact L|]. apply Hwin' in L. congruence. }
        destruct (walk_ok lg' old M1 si lgi Mi tab Io I H64i Hw Ht Hl' Hdom Hfa') as [old' [Ew I']].
        rewrite Ew. cbn [obind]. apply acc_or_matrix; [exact I'| |].
        - apply Mw64_mor; [exact H641|apply Mw64_mfold; assumption].
        - pose proof (rep_num old' _ (inv_rep lg' old' _ I')) as Hn'. rewrite (inv_lgk lg' old' _ I') in Hn'.
          pose proof (pop_fold' lgi lg' Mi Hl') as P. pose proof (pop_rows_mor_r M1 (mfold lgi lg' Mi) (Knat lg')) as Q.
          unfold B in *. intros Z. rewrite Z in Hn'.
          assert (H0 : pop_rows (mfold lgi lg' Mi) (Knat lg') = 0) by lia. rewrite H0 in P. lia. }
      destruct (flavor_facts lg' old M1 Io) as [[Hfo H0]|[[Hfo _]|[[_ [_ [Hx _]]]|[_ [_ [Hx _]]]]]]; try congruence.
      * rewrite Hfo. change ((EMPTY =? SPARSE) || (EMPTY =? EMPTY)) with true. change (EMPTY =? EMPTY) with true. cbn [negb andb].
        destruct (lg' =? lgi) eqn:Eq; [|exact Hwalk].
        (* the accumulator becomes a copy of the source *)
        apply N.eqb_eq in Eq. eexists. split; [reflexivity|].
        assert (HB : mbelow (2 ^ lg') Mi (mor M1 B)).
        { intros r Hr. unfold mor, B. rewrite Eq in *.
          rewrite (mfold_id lgi Mi r Hr).
          pose proof (pop_rows_zero_rows M1 (Knat lgi) ltac:(lia) (N.to_nat r) ltac:(unfold Knat; lia)) as Z.
          rewrite N2Nat.id in Z. rewrite Z. symmetry. apply N.lor_0_l. }
        constructor; cbn [u_lgk u_st]; [reflexivity|lia| | |].
        -- apply (Mnomax_ext lg' Mi _ HB). rewrite Eq. apply (inv_nomax lgi si Mi I).
        -- apply (Mw64_ext lg' Mi _ HB). rewrite Eq. exact H64i.
        -- split; [|exact Hw]. apply (inv_ext lg' si Mi _); [rewrite Eq; exact I|exact HB].
      * rewrite Hfo. change ((SPARSE =? SPARSE) || (SPARSE =? EMPTY)) with true. change (SPARSE =? EMPTY) with false.
        cbn [negb andb]. exact Hwalk.
    + destruct Hst1 as [Em Hd1]. rewrite Em. apply matrix_path; try assumption. left. exact Hd1.
  - (* hybrid / pinned source: the union becomes (or stays) a matrix; case C *)
    assert (E : SPARSE <? cpc_flavor si = true) by (destruct Hf as [-> | ->]; reflexivity). rewrite E.
    assert (S2 : exists u2, match u_st u1 with UAcc old => to_matrix_state lg' old | UMat _ => Ok u1 end = Ok u2 /\
                            u_lgk u2 = lg' /\ u_st u2 = UMat (rows_of M1 (Knat lg'))).
    { destruct (u_st u1) as [old|m] eqn:Est.
      - destruct Hst1 as [Io _]. unfold to_matrix_state.
        pose proof (build_rows old M1 (inv_rep lg' old M1 Io)) as Hb. rewrite (inv_lgk lg' old M1 Io) in Hb.
        rewrite (Hb H641). cbn [obind]. eexists. split; [reflexivity|]. split; reflexivity.
      - destruct Hst1 as [Em _]. exists u1. split; [reflexivity|]. split; [exact Hl1|]. rewrite Est, Em. reflexivity. }
    destruct S2 as [u2 [E2 [Hl2 Hst2]]]. rewrite E2. cbn [obind]. rewrite Hst2, Hl2.
    apply matrix_path; try assumption. right. exact Hd.
  - (* sliding source: case D *)
    rewrite Hf. change (SPARSE <? SLIDING) with true.
    assert (S2 : exists u2, match u_st u1 with UAcc old => to_matrix_state lg' old | UMat _ => Ok u1 end = Ok u2 /\
                            u_lgk u2 = lg' /\ u_st u2 = UMat (rows_of M1 (Knat lg'))).
    { destruct (u_st u1) as [old|m] eqn:Est.
      - destruct Hst1 as [Io _]. unfold to_matrix_state.
        pose proof (build_rows old M1 (inv_rep lg' old M1 Io)) as Hb. rewrite (inv_lgk lg' old M1 Io) in Hb.
        rewrite (Hb H641). cbn [obind]. eexists. split; [reflexivity|]. split; reflexivity.
      - destruct Hst1 as [Em _]. exists u1. split; [reflexivity|]. split; [exact Hl1|]. rewrite Est, Em. reflexivity. }
    destruct S2 as [u2 [E2 [Hl2 Hst2]]]. rewrite E2. cbn [obind]. rewrite Hst2, Hl2.
    apply matrix_path; try assumption. right. exact Hd.
Qed.

(* ---------- to_sketch ---------- *)
Lemma inv_set_merge : forall lg s M b, Inv lg s M -> Inv lg (set_merge s b) M.
Proof.
  intros lg s M b [[W Hb Hn] Hl Hrg Hoff Hwin Hfl Hfic Hnm].
  constructor; try assumption. constructor; try assumption.
  destruct W. constructor; assumption.
Qed.

(* the surprising values of a dense result fit the table that to_sketch builds *)
Definition result_fits (lg : N) (M : matrix) : Prop :=
  3 * 2 ^ lg <= 32 * pop_rows M (Knat lg) ->
  tbl_full lg (load lg M true (coff (2 ^ lg) (pop_rows M (Knat lg)))) = false.

Theorem union_to_sketch_ok : forall u lg M, Urep u lg M -> 8 * pop_rows M (Knat lg) < 475 * 2 ^ lg ->
  result_fits lg M ->
  exists s, union_to_sketch u = Ok s /\ Inv lg s M /\ c_merge s = true.
Proof.
  intros u lg M [Hl Hrg Hnm H64 Hst] Hdom Hrf. pose proof (pow_pos lg) as HK.
  unfold union_to_sketch. rewrite Hl. destruct (u_st u) as [sk|m].
  - destruct Hst as [I Hw]. pose proof (rep_num sk M (inv_rep lg sk M I)) as Hn. rewrite (inv_lgk lg sk M I) in Hn.
    unfold cpc_is_empty. destruct (c_num sk =? 0) eqn:EC.
    + destruct (new_inv lg Hrg) as [s0 [E0 I0]]. exists (set_merge s0 true). rewrite E0. cbn [obind]. split; [reflexivity|].
      assert (HB : mbelow (2 ^ lg) mzero M).
      { intros r Hr. pose proof (pop_rows_zero_rows M (Knat lg) ltac:(lia) (N.to_nat r) ltac:(unfold Knat; lia)) as Z.
        rewrite N2Nat.id in Z. rewrite Z. reflexivity. }
      split; [apply inv_set_merge; apply (inv_ext lg s0 mzero M I0 HB)|reflexivity].
    + destruct (flavor_facts lg sk M I) as [[_ H0]|[[Hf _]|[[_ [_ [Hx _]]]|[_ [_ [Hx _]]]]]]; try congruence; try lia.
      rewrite Hf. change (SPARSE =? SPARSE) with true. cbn [negb]. eexists. split; [reflexivity|].
      split; [apply inv_set_merge; exact I|]. reflexivity.
  - destruct Hst as [Em Hd]. destruct (new_inv lg Hrg) as [s0 [E0 _]]. rewrite E0. cbn [obind].
    rewrite Em, rows_of_length, Knat_N, N.eqb_refl. cbn [negb]. rewrite count_rows.
    set (C := pop_rows M (Knat lg)) in *.
    rewrite (dco_coff lg C Hdom).
    pose proof (coff_le56 (2 ^ lg) C HK Hdom) as H56.
    assert (HC : C <> 0) by lia.
    set (m0 := rows_of M (Knat lg)).
    assert (Hlen : length m0 = Knat lg) by apply rows_of_length.
    assert (HmM : forall r, r < 2 ^ lg -> nthN m0 r 0 = M r) by (intros r Hr; apply nthN_rows_of; rewrite Knat_N; exact Hr).
    assert (Hm64 : Forall word64 m0).
    { apply Forall_forall. intros w Hw. unfold m0, rows_of in Hw. apply in_map_iff in Hw. destruct Hw as [i [<- Hi]].
      apply in_seq in Hi. apply H64. rewrite <- Knat_N. lia. }
    assert (Hmnm : forall r c, r < 2 ^ lg -> c < 64 -> N.testbit (nthN m0 r 0) c = true -> r * 64 + c <> U32MAX).
    { intros r c Hr Hc Hb. rewrite (HmM r Hr) in Hb. apply (Hnm r c Hr Hc Hb). }
    uconsts.
    assert (Hfit' : tbl_full lg (load lg (fun r => nthN m0 r 0) true (coff (2 ^ lg) C)) = false).
    { rewrite <- (Hrf Hd). unfold C. f_equal. unfold load. f_equal. f_equal. apply filter_ext_in. intros x Hx.
      apply positions_In in Hx. unfold surp. assert (Hr : x / 64 < 2 ^ lg) by lia. rewrite (HmM _ Hr). reflexivity. }
    destruct (from_matrix_succeeds lg m0 (coff (2 ^ lg) C) Hlen H56 Hmnm Hfit') as [win [tab [fic Efm]]].
    rewrite Efm. cbn [obind]. eexists. split; [reflexivity|].
    destruct (from_matrix_state lg m0 (coff (2 ^ lg) C) C fic true (c_kxp s0) (c_hip s0) win tab fic
                Hlen Hm64 H56 HC Hmnm Efm) as [W2 [Hw2 Hb2]].
    assert (Hfic : fic = fm_fic (coff (2 ^ lg) C) (map (fm_pattern 255 (coff (2 ^ lg) C)) m0)).
    { exact (from_matrix_fic _ _ _ _ _ _ _ _ Efm). }
    destruct (fm_fic_ok lg m0 (coff (2 ^ lg) C) Hlen H56) as [F1 F2]. rewrite <- Hfic in F1, F2.
    split; [|reflexivity].
    constructor; proj; try assumption; try reflexivity.
    + constructor; proj.
      * exact W2.
      * intros r c Hr Hc. rewrite Hb2 by assumption. rewrite (HmM r Hr). reflexivity.
      * reflexivity.
    + split; [intros _; exact Hd|intros _; exact Hw2].
    + intros r c Hr Hc. rewrite <- (HmM r Hr). apply F2; assumption.
Qed.

(* ---------- sequences of inputs ---------- *)
Fixpoint union_run (u : cpcu) (sks : list cpc) : outcome cpcu :=
  match sks with
  | [] => Ok u
  | s :: r => obind (union_update u s) (fun u' => union_run u' r)
  end.

Definition dom (a : uinput) : Prop := 8 * pop_rows (snd a) (Knat (fst a)) < 475 * 2 ^ fst a.

(* an in-domain result implies in-domain intermediate unions: folding cannot shrink C/K *)
Lemma dom_step_back : forall a i, fst a <= 26 -> dom (uspec_step a i) -> dom a.
Proof.
  intros [lg M] [lgi Mi] _ H. unfold dom, uspec_step in *. destruct (in_empty (lgi, Mi)); [exact H|].
  cbn [fst snd] in *. set (lg' := N.min lg lgi) in *.
  assert (Hl : lg' <= lg) by (unfold lg'; lia).
  pose proof (pop_fold' lg lg' M Hl) as P. pose proof (pop_rows_mor_l (mfold lg lg' M) (mfold lgi lg' Mi) (Knat lg')) as Q.
  rewrite (pow_split lg lg' Hl). pose proof (pow_pos (lg - lg')) as HF. nia.
Qed.

Lemma dom_fold_back : forall ins a, fst a <= 26 -> dom (fold_left uspec_step ins a) -> dom a.
Proof.
  induction ins as [|i ins IH]; intros a H26 H; cbn [fold_left] in H; [exact H|].
  apply (dom_step_back a i H26). apply IH; [|exact H].
  unfold uspec_step. destruct (in_empty i); cbn [fst]; lia.
Qed.

Definition ins_of (l : list (cpc * N * matrix)) : list uinput := map (fun x => (snd (fst x), snd x)) l.

(* every update of the sequence keeps its table walks within the capacity *)
Fixpoint usteps_fit (a : uinput) (ins : list uinput) : Prop :=
  match ins with
  | [] => True
  | i :: r => ustep_fits (fst a) (snd a) (fst i) (snd i) /\ usteps_fit (uspec_step a i) r
  end.

Lemma union_run_ok : forall l u lg M,
  Urep u lg M -> Forall (fun x => Vin (fst (fst x)) (snd (fst x)) (snd x)) l ->
  dom (fold_left uspec_step (ins_of l) (lg, M)) ->
  usteps_fit (lg, M) (ins_of l) ->
  exists u', union_run u (map (fun x => fst (fst x)) l) = Ok u' /\
             Urep u' (fst (fold_left uspec_step (ins_of l) (lg, M))) (snd (fold_left uspec_step (ins_of l) (lg, M))).
Proof.
  induction l as [|[[s lgi] Mi] l IH]; intros u lg M U HF Hdom Hfit; cbn [map union_run ins_of fold_left fst snd usteps_fit] in *.
  - exists u. split; [reflexivity|exact U].
  - inversion HF as [|? ? Hv HF']; subst. cbn [fst snd] in Hv.
    fold (ins_of l) in *. destruct Hfit as [Hf1 Hfit'].
    assert (D1 : dom (uspec_step (lg, M) (lgi, Mi))).
    { apply (dom_fold_back (ins_of l)); [|exact Hdom]. pose proof (ur_range u lg M U).
      unfold uspec_step. destruct (in_empty (lgi, Mi)); cbn [fst]; lia. }
    destruct (union_update_ok u lg M s lgi Mi U Hv D1 Hf1) as [u1 [E1 U1]].
    rewrite E1. cbn [obind].
    destruct (uspec_step (lg, M) (lgi, Mi)) as [lg1 M1] eqn:Es. cbn [fst snd] in *.
    apply IH; assumption.
Qed.

(* ---------- what the invariant says about a sketch, in observable terms ---------- *)
Lemma inv_facts : forall lg s M, Inv lg s M -> Mw64 lg M -> 8 * c_num s < 475 * 2 ^ lg ->
  build_bit_matrix s = Ok (rows_of M (Knat lg)) /\
  c_lgk s = lg /\
  c_num s = pop_rows M (Knat lg) /\
  c_off s = determine_correct_offset lg (c_num s) /\
  c_off s <= 56 /\
  (c_win s = [] <-> cpc_flavor s <= SPARSE) /\
  fic_ok lg s M /\
  cpc_validate s = Ok true.
Proof.
  intros lg s M I H64 Hd. pose proof (inv_lgk lg s M I) as Hl.
  pose proof (build_rows s M (inv_rep lg s M I)) as Hb. rewrite Hl in Hb. specialize (Hb H64).
  pose proof (rep_num s M (inv_rep lg s M I)) as Hn. rewrite Hl in Hn.
  split; [exact Hb|]. split; [exact Hl|]. split; [exact Hn|].
  split; [rewrite dco_coff by exact Hd; apply (inv_off lg s M I)|].
  split; [rewrite (inv_off lg s M I); apply coff_le56; [apply pow_pos|exact Hd]|].
  split.
  { unfold cpc_flavor. rewrite Hl, flavor_sparse_iff. pose proof (inv_win lg s M I) as Hwin. unfold windowed in Hwin.
    destruct (c_win s).
    - split; [intros _|reflexivity]. destruct (N.lt_ge_cases (32 * c_num s) (3 * 2 ^ lg)) as [L|L]; [exact L|].
      apply Hwin in L. discriminate.
    - split; [discriminate|]. intros L. exfalso. assert (3 * 2 ^ lg <= 32 * c_num s) by (apply Hwin; reflexivity). lia. }
  split; [split; [apply (inv_fic_le lg s M I)|apply (inv_fic lg s M I)]|].
  unfold cpc_validate. rewrite Hb. cbn [obind]. f_equal. rewrite count_rows, Hn. apply N.eqb_refl.
Qed.

Lemma union_new_rep : forall lg0, 4 <= lg0 <= 26 -> exists u0, union_new lg0 = Ok u0 /\ Urep u0 lg0 mzero.
Proof.
  intros lg0 Hrg. unfold union_new. destruct (new_inv lg0 Hrg) as [s0 [E0 I0]]. rewrite E0. cbn [obind].
  eexists. split; [reflexivity|]. constructor; cbn [u_lgk u_st]; [reflexivity|exact Hrg| | |].
  - intros r c _ _ Hb. unfold mzero in Hb. rewrite N.bits_0 in Hb. discriminate.
  - intros r _ c _. apply N.bits_0.
  - split; [exact I0|]. apply (not_windowed lg0 s0 mzero I0).
    pose proof (rep_num s0 mzero (inv_rep lg0 s0 mzero I0)) as Hn0. rewrite pop_rows_zero in Hn0. rewrite Hn0.
    pose proof (pow_pos lg0). lia.
Qed.

(* every sketch reachable by updates is a valid union input *)
Lemma cpc_run_vin : forall lgk cs s,
  4 <= lgk <= 26 -> Forall (valid lgk) cs -> 8 * distinct cs < 475 * 2 ^ lgk -> cpc_fits lgk cs ->
  cpc_run lgk cs = Ok s -> Vin s lgk (spec cs).
Proof.
  intros lgk cs s Hrg HF Hd Hfit E. destruct (cpc_run_inv lgk cs Hrg HF Hd Hfit) as [s' [E' I]].
  rewrite E in E'. injection E' as <-. split; [exact I|]. intros r _. apply Mwf_spec.
Qed.

Definition union_of (lg0 : N) (sks : list cpc) : outcome cpcu := obind (union_new lg0) (fun u0 => union_run u0 sks).

(* C06: the union of any sequence of valid sketches represents the Spec, and its result sketch is a valid,
   consistent sketch of exactly the Spec matrix *)
Theorem cpc_union_refines : forall lg0 l,
  4 <= lg0 <= 26 -> Forall (fun x => Vin (fst (fst x)) (snd (fst x)) (snd x)) l ->
  dom (uspec lg0 (ins_of l)) ->
  usteps_fit (lg0, mzero) (ins_of l) -> result_fits (fst (uspec lg0 (ins_of l))) (snd (uspec lg0 (ins_of l))) ->
  exists u, union_of lg0 (map (fun x => fst (fst x)) l) = Ok u /\
    u_lgk u = fst (uspec lg0 (ins_of l)) /\
    union_num_coupons u = pop_rows (snd (uspec lg0 (ins_of l))) (Knat (fst (uspec lg0 (ins_of l)))) /\
    exists s, union_to_sketch u = Ok s /\
      Vin s (fst (uspec lg0 (ins_of l))) (snd (uspec lg0 (ins_of l))) /\
      build_bit_matrix s = Ok (rows_of (snd (uspec lg0 (ins_of l))) (Knat (fst (uspec lg0 (ins_of l))))) /\
      c_lgk s = fst (uspec lg0 (ins_of l)) /\
      c_num s = pop_rows (snd (uspec lg0 (ins_of l))) (Knat (fst (uspec lg0 (ins_of l)))) /\
      c_off s = determine_correct_offset (fst (uspec lg0 (ins_of l))) (c_num s) /\
      c_off s <= 56 /\
      (c_win s = [] <-> cpc_flavor s <= SPARSE) /\
      fic_ok (fst (uspec lg0 (ins_of l))) s (snd (uspec lg0 (ins_of l))) /\
      cpc_validate s = Ok true /\
      c_merge s = true.
Proof.
  intros lg0 l Hrg HF Hdom Hsf Hrf. unfold union_of.
  destruct (union_new_rep lg0 Hrg) as [u0 [E0 U0]]. rewrite E0. cbn [obind].
  unfold uspec in *.
  destruct (union_run_ok l u0 lg0 mzero U0 HF Hdom Hsf) as [u [E U]].
  set (a := fold_left uspec_step (ins_of l) (lg0, mzero)) in *.
  exists u. split; [exact E|]. split; [apply (ur_lgk u _ _ U)|].
  split.
  { unfold union_num_coupons. pose proof (ur_st u _ _ U) as Hst. destruct (u_st u) as [sk|m].
    - destruct Hst as [I _]. rewrite (rep_num sk _ (inv_rep _ sk _ I)), (inv_lgk _ sk _ I). reflexivity.
    - destruct Hst as [-> _]. apply count_rows. }
  destruct (union_to_sketch_ok u (fst a) (snd a) U Hdom Hrf) as [s [Es [I Hm]]].
  exists s. split; [exact Es|].
  pose proof (ur_w64 u _ _ U) as H64.
  assert (Hd : 8 * c_num s < 475 * 2 ^ fst a).
  { rewrite (rep_num s _ (inv_rep _ s _ I)), (inv_lgk _ s _ I). exact Hdom. }
  destruct (inv_facts (fst a) s (snd a) I H64 Hd) as [F1 [F2 [F3 [F4 [F5 [F6 [F7 F8]]]]]]].
  split; [split; assumption|]. repeat (split; [assumption|]). exact Hm.
Qed.

(* a union in the BitMatrix state is never in the sparse range (what makes to_sketch's window legitimate) *)
Theorem union_bitmatrix_not_sparse : forall u lg M m, Urep u lg M -> u_st u = UMat m ->
  3 * 2 ^ lg <= 32 * count_bits_set_in_matrix m.
Proof.
  intros u lg M m U E. pose proof (ur_st u lg M U) as Hst. rewrite E in Hst. destruct Hst as [-> Hd].
  rewrite count_rows. exact Hd.
Qed.

Theorem cpc_union_no_stuck : forall lg0 l,
  4 <= lg0 <= 26 -> Forall (fun x => Vin (fst (fst x)) (snd (fst x)) (snd x)) l ->
  dom (uspec lg0 (ins_of l)) ->
  usteps_fit (lg0, mzero) (ins_of l) -> result_fits (fst (uspec lg0 (ins_of l))) (snd (uspec lg0 (ins_of l))) ->
  exists u s, union_of lg0 (map (fun x => fst (fst x)) l) = Ok u /\ union_to_sketch u = Ok s.
Proof.
  intros lg0 l H1 H2 H3 H4 H5. destruct (cpc_union_refines lg0 l H1 H2 H3 H4 H5) as [u [E [_ [_ [s [Es _]]]]]].
  exists u, s. split; assumption.
Qed.

(* a union result stays a valid sketch under further updates: it satisfies the C05 invariant, so every further
   valid pair inside the domain (and the table capacity) is absorbed without reaching a panic site and the
   invariant, hence the refinement to the OR-ed matrix plus the new pairs, is kept *)
Theorem union_result_updatable : forall s lg M cs,
  Vin s lg M -> Forall (valid lg) cs ->
  8 * pop_rows (fold_left spec_update cs M) (Knat lg) < 475 * 2 ^ lg -> fits_stream lg M cs ->
  exists s', run_from s cs = Ok s' /\ Vin s' lg (fold_left spec_update cs M).
Proof.
  intros s lg M cs [I H64] HF Hd Hfs. destruct (run_inv lg cs s M I HF Hd Hfs) as [s' [E I']].
  exists s'. split; [exact E|]. split; [exact I'|apply Mw64_fold_update; exact H64].
Qed.

(* nothing to walk: no pair can be drawn from an all-zero matrix *)
Lemma fits_any_nil : forall lg A B, (forall r c, r < 2 ^ lg -> N.testbit (B r) c = false) -> fits_any lg A B.
Proof.
  intros lg A B H l Hl. destruct l as [|x l]; [exact I|].
  destruct (Hl x (or_introl eq_refl)) as [Hr Hb]. rewrite (H _ _ Hr) in Hb. discriminate.
Qed.

(* ---------- a sufficient condition for the walk hypothesis (fits_any) ---------- *)
Lemma tbl_full_small : forall lg n, lg <= 26 -> 32 * n < 3 * 2 ^ lg -> tbl_full lg n = false.
Proof.
  intros lg n Hl Hn. unfold tbl_full, tbl_max_lg.
  change (zN GenCpc.UPSIZE_NUMERATOR) with 3. change (zN GenCpc.UPSIZE_DENOMINATOR) with 4.
  change PT_MAXLG with 26. change PT_VALID with 6. change PT_PLUS with 1.
  apply N.ltb_ge.
  assert (2 ^ lg <= 2 ^ N.min 26 (6 + lg - 1)) by (apply N.pow_le_mono_r; lia).
  lia.
Qed.

Lemma popcount_incl : forall a b, (forall c, N.testbit a c = true -> N.testbit b c = true) -> popcount a <= popcount b.
Proof.
  intros a b H. assert (E : N.lor a b = b).
  { apply N.bits_inj. intros c. rewrite N.lor_spec. destruct (N.testbit a c) eqn:Ea; [rewrite (H c Ea)|]; reflexivity. }
  rewrite <- E. apply popcount_lor_l.
Qed.

(* two predicates that differ at most at one element of a duplicate-free list *)
Lemma filter_one_more : forall (P Q : N -> bool) x l, NoDup l -> (forall y, In y l -> y <> x -> Q y = P y) ->
  (length (filter Q l) <= length (filter P l) + 1)%nat.
Proof.
  intros P Q x l ND. induction ND as [|a l Hn ND IH]; intros H; cbn [filter]; [lia|].
  destruct (N.eq_dec a x) as [->|Hne].
  - assert (E : filter Q l = filter P l).
    { apply filter_ext_in. intros y Hy. apply H; [right; exact Hy|]. intros ->. contradiction. }
    rewrite E. destruct (Q x), (P x); cbn [length]; lia.
  - rewrite (H a (or_introl eq_refl) Hne).
    assert (IH' := IH (fun y Hy => H y (or_intror Hy))). destruct (P a); cbn [length]; lia.
Qed.

Lemma load_sparse_step : forall lg M x, x / 64 < 2 ^ lg ->
  load lg (spec_update M x) false 0 + pop_rows M (Knat lg) <= load lg M false 0 + pop_rows (spec_update M x) (Knat lg).
Proof.
  intros lg M x Hx. rewrite (pop_rows_step M x) by (rewrite Knat_N; exact Hx).
  destruct (N.testbit (M (x / 64)) (x mod 64)) eqn:E.
  - assert (EL : load lg (spec_update M x) false 0 = load lg M false 0).
    { unfold load. f_equal. f_equal. apply filter_ext. intros y. unfold surp. rewrite (spec_update_same M x E). reflexivity. }
    rewrite EL. lia.
  - unfold load.
    pose proof (filter_one_more (surp M false 0) (surp (spec_update M x) false 0) x (positions lg) (positions_NoDup lg)) as F.
    assert (G : forall y, In y (positions lg) -> y <> x -> surp (spec_update M x) false 0 y = surp M false 0 y).
    { intros y _ Hy. unfold surp. rewrite spec_update_bit.
      destruct (y / 64 =? x / 64) eqn:E1; [|rewrite orb_false_r; reflexivity].
      destruct (y mod 64 =? x mod 64) eqn:E2; [|rewrite orb_false_r; reflexivity].
      exfalso. apply Hy. apply N.eqb_eq in E1. apply N.eqb_eq in E2.
      rewrite <- (rc_recompose y), <- (rc_recompose x). rewrite E1, E2. reflexivity. }
    specialize (F G). lia.
Qed.

Lemma fits_stream_sparse : forall lg B U l M, lg <= 26 ->
  (forall r c, N.testbit (M r) c = true -> N.testbit (U r) c = true) ->
  (forall r c, N.testbit (B r) c = true -> N.testbit (U r) c = true) ->
  load lg M false 0 <= pop_rows M (Knat lg) ->
  32 * pop_rows U (Knat lg) < 3 * 2 ^ lg ->
  (forall x, In x l -> x / 64 < 2 ^ lg /\ N.testbit (B (x / 64)) (x mod 64) = true) ->
  fits_stream lg M l.
Proof.
  intros lg B U l. induction l as [|x l IH]; intros M Hlg HM HB HL HU Hl; cbn [fits_stream]; [exact I|].
  destruct (Hl x (or_introl eq_refl)) as [Hx Hb].
  assert (HM' : forall r c, N.testbit (spec_update M x r) c = true -> N.testbit (U r) c = true).
  { intros r c. rewrite spec_update_bit. intros H. apply orb_true_iff in H. destruct H as [H|H]; [apply HM; exact H|].
    apply andb_true_iff in H. destruct H as [H1 H2]. apply N.eqb_eq in H1. apply N.eqb_eq in H2. subst r c. apply HB. exact Hb. }
  assert (HP : pop_rows (spec_update M x) (Knat lg) <= pop_rows U (Knat lg)).
  { apply pop_rows_le. intros i _. apply popcount_incl. intros c. apply HM'. }
  assert (HL' : load lg (spec_update M x) false 0 <= pop_rows (spec_update M x) (Knat lg)).
  { pose proof (load_sparse_step lg M x Hx). lia. }
  split.
  - split.
    + intros _. apply tbl_full_small; [exact Hlg|]. lia.
    + intros C. lia.
  - apply IH; try assumption. intros y Hy. apply Hl. right. exact Hy.
Qed.

(* a sufficient condition for the walk hypothesis of the union theorems (usteps_fit): if the union of the two
   matrices is still in the sparse range (C < 3K/32), no order of walking pairs of B into a sketch of A can outgrow the
   table: in sparse mode the table holds exactly the coupons, and 3K/32 is below every table's capacity *)
Lemma fits_any_sparse : forall lg A B, lg <= 26 ->
  load lg A false 0 <= pop_rows A (Knat lg) ->
  32 * pop_rows (mor A B) (Knat lg) < 3 * 2 ^ lg ->
  fits_any lg A B.
Proof.
  intros lg A B Hlg HL HU l Hl.
  apply (fits_stream_sparse lg B (mor A B) l A Hlg); try assumption.
  - intros r c H. rewrite mor_bit, H. reflexivity.
  - intros r c H. rewrite mor_bit, H. apply orb_true_r.
Qed.

Lemma load_zero : forall lg M wd, (forall r c, N.testbit (M r) c = false) -> wd = false -> load lg M wd 0 = 0.
Proof.
  intros lg M wd H ->. unfold load.
  assert (E : filter (surp M false 0) (positions lg) = []).
  { induction (positions lg) as [|y t IH]; [reflexivity|]. cbn [filter]. unfold surp at 1. rewrite H. exact IH. }
  rewrite E. reflexivity.
Qed.
