(* HLL union: associativity at the abstraction level (C03).  The result of a union, taken with
   to_sketch(t) for any t and merged into a second union together with further inputs B, shows the
   same state as one union fed A followed by B. *)
From DS Require Import Base.Prelude Model.Hll Model.HllUnion Proofs.HllBase Proofs.HllRefine Proofs.HllUnionProofs.
From Coq Require Import ZifyBool ZifyNat ZifyN Permutation.
Open Scope N_scope.
Ltac Zify.zify_post_hook ::= Z.div_mod_to_equations.

Lemma distinct_incl_le : forall a b, incl a b -> distinct a <= distinct b.
Proof.
  intros a b H. unfold distinct, spec_coupons.
  assert (length (nodup N.eq_dec a) <= length (nodup N.eq_dec b))%nat; [|lia].
  apply NoDup_incl_length; [apply NoDup_nodup|]. intros c Hc. apply nodup_In. apply nodup_In in Hc. now apply H.
Qed.

Lemma ArrCond_mono : forall lg a b, incl a b -> ArrCond lg (distinct a) -> ArrCond lg (distinct b).
Proof.
  intros lg a b H [H8 Hor]. pose proof (distinct_incl_le a b H). split; [lia|]. destruct Hor; [now left|right; lia].
Qed.

Lemma spec_mode_array_iff : forall lg d, spec_mode lg d = TagArray <-> ArrCond lg d.
Proof.
  intros lg d. split; [|apply spec_mode_array]. unfold spec_mode, ArrCond.
  destruct (N.ltb_spec d 8); [discriminate|]. destruct (N.ltb_spec lg 8); [intros _; split; [lia|now left]|].
  destruct (N.ltb_spec (3 * 2 ^ (lg - 3)) (4 * d)); [intros _; split; [lia|now right]|discriminate].
Qed.

(* two Spec states that must show the same union *)
Definition srel (lg_max : N) (s1 s2 : sstate) : Prop :=
  let '(h1, l1, c1) := s1 in let '(h2, l2, c2) := s2 in
  l1 = l2 /\ same_set c1 c2 /\ (h1 = true -> h2 = true) /\ (h2 = true -> h1 = true \/ ArrCond lg_max (distinct c1)).

Lemma srel_step : forall lg_max s1 s2 o, srel lg_max s1 s2 -> srel lg_max (spec_step lg_max s1 o) (spec_step lg_max s2 o).
Proof.
  intros lg_max [[h1 l1] c1] [[h2 l2] c2] o (Hl & Hc & H12 & H21). subst l2. destruct o as [i s|c|]; cbn [spec_step srel].
  - split; [reflexivity|]. split; [intros c; rewrite !in_app_iff, (Hc c); tauto|]. split.
    + destruct h1; cbn [orb]; [rewrite (H12 eq_refl); reflexivity|]. intros ->. apply orb_true_r.
    + intros H. apply orb_prop in H. destruct H as [H|H]; [|left; rewrite H; apply orb_true_r].
      destruct (H21 H) as [->|Ha]; [now left|]. right. apply (ArrCond_mono lg_max c1); [|assumption]. intros x Hx. apply in_or_app. now right.
  - split; [reflexivity|]. split; [now apply same_set_cons|]. split; [assumption|].
    intros H. destruct (H21 H) as [?|Ha]; [now left|]. right. apply (ArrCond_mono lg_max c1); [|assumption]. intros x Hx. now right.
  - split; [reflexivity|]. split; [intros c; tauto|]. split; [discriminate|discriminate].
Qed.

Lemma srel_run : forall lg_max ops s1 s2, srel lg_max s1 s2 -> srel lg_max (spec_run lg_max ops s1) (spec_run lg_max ops s2).
Proof.
  intros lg_max. induction ops as [|o r IH]; intros s1 s2 H; cbn [spec_run fold_left]; [assumption|].
  apply IH. now apply srel_step.
Qed.

(* related Spec states are shown identically *)
Lemma srel_shows : forall lg_max h1 l1 c1 h2 l2 c2 (g1 g2 : hsketch), srel lg_max (h1, l1, c1) (h2, l2, c2) ->
  union_shows lg_max h1 l1 c1 g1 -> union_shows lg_max h2 l2 c2 g2 ->
  sk_lgk g1 = sk_lgk g2 /\ sk_tag g1 = sk_tag g2 /\ sk_len g1 = sk_len g2 /\
  (forall c, In c (sk_coupons g1) <-> In c (sk_coupons g2)) /\
  (forall j, j < 2 ^ sk_lgk g1 -> sk_reg g1 j = sk_reg g2 j).
Proof.
  intros lg_max h1 l1 c1 h2 l2 c2 g1 g2 (Hl & Hc & H12 & H21) (Hk1 & _ & Ht1 & Ha1 & Hs1) (Hk2 & _ & Ht2 & Ha2 & Hs2). subst l2.
  assert (Ed : distinct c1 = distinct c2) by (now apply distinct_set).
  assert (Et : sk_tag g1 = TagArray <-> sk_tag g2 = TagArray).
  { rewrite Ht1, Ht2, <- Ed. split.
    - intros [H|H]; [left; now apply H12|now right].
    - intros [H|H]; [|now right]. destruct (H21 H) as [?|Ha]; [now left|]. right. now apply spec_mode_array_iff. }
  rewrite Hk1, Hk2. split; [reflexivity|].
  destruct (mode_tag_array_dec (sk_tag g1)) as [A1|N1].
  - pose proof (proj1 Et A1) as A2. split; [congruence|].
    assert (Hshape : forall g : hsketch, sk_tag g = TagArray -> sk_len g = 0 /\ sk_coupons g = []).
    { intros g. unfold sk_tag, sk_len, sk_coupons. destruct (sk_mode g); try discriminate; intros _; split; reflexivity. }
    destruct (Hshape _ A1) as (L1 & C1), (Hshape _ A2) as (L2 & C2). rewrite L1, L2, C1, C2. split; [reflexivity|]. split; [tauto|].
    intros j Hj. rewrite (Ha1 A1 j Hj), (Ha2 A2 j Hj). f_equal. now apply spec_regs_set.
  - assert (N2 : sk_tag g2 <> TagArray) by (intros H; apply N1; now apply Et).
    destruct (Hs1 N1) as (_ & T1 & _ & C1 & L1), (Hs2 N2) as (_ & T2 & _ & C2 & L2).
    split; [congruence|]. split; [congruence|]. split; [intros c; rewrite (C1 c), (C2 c); apply Hc|].
    intros j _. unfold sk_tag, sk_reg in *. destruct (sk_mode g1), (sk_mode g2); try reflexivity;
      try (exfalso; apply N1; reflexivity); try (exfalso; apply N2; reflexivity).
Qed.

Lemma uops_run_app : forall a b u, uops_run (a ++ b) u = obind (uops_run a u) (uops_run b).
Proof.
  induction a as [|o r IH]; intros b u; cbn [app uops_run obind]; [reflexivity|].
  destruct (uop_run u o); cbn [obind]; [apply IH|reflexivity|reflexivity].
Qed.

(* union (to_sketch_t (union A)) B  shows the same as  union (A ++ B) *)
Theorem union_associative : forall lg_max A B t, 4 <= lg_max <= 21 -> Forall uop_ok A -> Forall uop_ok B ->
  exists u0 uA r uAB u2, union_new lg_max = Ok u0 /\ uops_run A u0 = Ok uA /\ union_to_sketch uA t = Ok r /\
    uops_run (A ++ B) u0 = Ok uAB /\
    (let '(hA, lA, cA) := spec_run lg_max A (false, lg_max, []) in
     uop_ok (UMerge (mkIn lA (tag_flag (sk_tag (un_gadget uA))) cA) r) /\
     uops_run (UMerge (mkIn lA (tag_flag (sk_tag (un_gadget uA))) cA) r :: B) u0 = Ok u2) /\
    sk_lgk (un_gadget uAB) = sk_lgk (un_gadget u2) /\ sk_tag (un_gadget uAB) = sk_tag (un_gadget u2) /\
    sk_len (un_gadget uAB) = sk_len (un_gadget u2) /\
    (forall c, In c (sk_coupons (un_gadget uAB)) <-> In c (sk_coupons (un_gadget u2))) /\
    (forall j, j < 2 ^ sk_lgk (un_gadget uAB) -> sk_reg (un_gadget uAB) j = sk_reg (un_gadget u2) j).
Proof.
  intros lg_max A B t Hlm HA HB.
  destruct (ginv_new lg_max Hlm) as (u0 & Hn & HG0).
  destruct (uops_refine lg_max A false lg_max [] u0 HA HG0) as (uA & HrA & HGA).
  remember (spec_run lg_max A (false, lg_max, [])) as SA eqn:ESA. destruct SA as [[hA lA] cA].
  destruct (tosk_spec lg_max hA lA cA uA t HGA) as (r & Hts & _ & Hsrc & _).
  pose proof (ginv_shows lg_max hA lA cA uA HGA) as (HkA & _ & HtagA & _ & HspA).
  pose proof HGA as (_ & _ & _ & HlA & _ & seenA & _ & _ & _ & _ & HneA & _).
  remember (tag_flag (sk_tag (un_gadget uA))) as fA eqn:EfA.
  set (iA := mkIn lA fA cA).
  assert (Hok1 : uop_ok (UMerge iA r)).
  { cbn [uop_ok iA in_lgk in_arr in_cs]. rewrite EfA. unfold tag_flag. exact Hsrc. }
  assert (HAB : Forall uop_ok (A ++ B)) by (apply Forall_app; split; assumption).
  destruct (uops_refine lg_max (A ++ B) false lg_max [] u0 HAB HG0) as (uAB & HrAB & HGAB).
  destruct (uops_refine lg_max (UMerge iA r :: B) false lg_max [] u0 (Forall_cons _ Hok1 HB) HG0) as (u2 & Hr2 & HG2).
  exists u0, uA, r, uAB, u2. split; [assumption|]. split; [assumption|]. split; [assumption|]. split; [assumption|].
  split; [split; assumption|].
  (* the two Spec states *)
  unfold spec_run in HGAB. rewrite fold_left_app in HGAB. fold (spec_run lg_max A (false, lg_max, [])) in HGAB. rewrite <- ESA in HGAB.
  fold (spec_run lg_max B (hA, lA, cA)) in HGAB.
  cbn [spec_run fold_left] in HG2. fold (spec_run lg_max B (spec_step lg_max (false, lg_max, []) (UMerge iA r))) in HG2.
  assert (Hrel0 : srel lg_max (hA, lA, cA) (spec_step lg_max (false, lg_max, []) (UMerge iA r))).
  { cbn [spec_step srel orb]. unfold in_active, iA. cbn [in_arr in_cs in_lgk]. rewrite app_nil_r.
    destruct (mode_tag_array_dec (sk_tag (un_gadget uA))) as [Ar|Nar].
    - assert (EfT : fA = true) by (rewrite EfA, Ar; reflexivity). rewrite EfT. cbn [andb]. specialize (HneA Ar).
      replace (negb (is_nil cA)) with true by (destruct cA; [contradiction|reflexivity]).
      split; [lia|]. split; [intros c; tauto|]. split; [reflexivity|]. intros _.
      destruct (proj1 HtagA Ar) as [H|H]; [now left|right; now apply spec_mode_array_iff].
    - assert (Hf : fA = false) by (rewrite EfA; destruct (sk_tag (un_gadget uA)); [reflexivity|reflexivity|contradiction]).
      rewrite Hf. cbn [andb]. destruct (HspA Nar) as (-> & _). split; [reflexivity|]. split; [intros c; tauto|]. split; [|discriminate].
      intros ->. exfalso. apply Nar. apply HtagA. now left. }
  pose proof (srel_run lg_max B _ _ Hrel0) as Hrel.
  destruct (spec_run lg_max B (hA, lA, cA)) as [[h1 l1] c1].
  destruct (spec_run lg_max B (spec_step lg_max (false, lg_max, []) (UMerge iA r))) as [[h2 l2] c2].
  apply (srel_shows lg_max h1 l1 c1 h2 l2 c2 _ _ Hrel); now apply ginv_shows.
Qed.
